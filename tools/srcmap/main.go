// srcmap: fingerprints of the Go functions the Coq model was written from.
//
//	srcmap <repo> <map.json>            prints {"file::func": "sha256 of the comment-free printed AST", ...}
//
// map.json: {"groups": {"<group>": ["<glob relative to repo>", ...]}, ...}.  Every top-level function,
// method, and the file's remaining declarations (types, constants, variables: key "file::<decls>") get
// one fingerprint each, so that a drift is reported per function.  Standard library only.
package main

import (
	"bytes"
	"crypto/sha256"
	"encoding/hex"
	"encoding/json"
	"fmt"
	"go/ast"
	"go/parser"
	"go/printer"
	"go/token"
	"os"
	"path/filepath"
	"sort"
	"strings"
)

func recvName(fd *ast.FuncDecl) string {
	if fd.Recv == nil || len(fd.Recv.List) == 0 {
		return fd.Name.Name
	}
	t := fd.Recv.List[0].Type
	if s, ok := t.(*ast.StarExpr); ok {
		t = s.X
	}
	if ix, ok := t.(*ast.IndexExpr); ok {
		t = ix.X
	}
	if id, ok := t.(*ast.Ident); ok {
		return id.Name + "." + fd.Name.Name
	}
	return "?." + fd.Name.Name
}

func hashNode(fset *token.FileSet, n interface{}) string {
	var b bytes.Buffer
	cfg := printer.Config{Mode: printer.RawFormat, Tabwidth: 1}
	if err := cfg.Fprint(&b, fset, n); err != nil {
		panic(err)
	}
	// whitespace-insensitive
	s := strings.Join(strings.Fields(b.String()), " ")
	h := sha256.Sum256([]byte(s))
	return hex.EncodeToString(h[:8])
}

func main() {
	if len(os.Args) < 3 {
		fmt.Fprintln(os.Stderr, "usage: srcmap <repo> <map.json>")
		os.Exit(2)
	}
	repo := os.Args[1]
	raw, err := os.ReadFile(os.Args[2])
	if err != nil {
		panic(err)
	}
	var m struct {
		Groups map[string][]string `json:"groups"`
	}
	if err := json.Unmarshal(raw, &m); err != nil {
		panic(err)
	}
	files := map[string]bool{}
	for _, globs := range m.Groups {
		for _, g := range globs {
			ms, _ := filepath.Glob(filepath.Join(repo, g))
			for _, f := range ms {
				if strings.HasSuffix(f, "_test.go") || strings.HasSuffix(f, ".pb.go") || strings.HasSuffix(f, ".pb.gw.go") {
					continue
				}
				rel, _ := filepath.Rel(repo, f)
				files[rel] = true
			}
		}
	}
	out := map[string]string{}
	var names []string
	for f := range files {
		names = append(names, f)
	}
	sort.Strings(names)
	for _, rel := range names {
		if !strings.HasSuffix(rel, ".go") {
			raw, err := os.ReadFile(filepath.Join(repo, rel))
			if err != nil {
				out[rel+"::<read error>"] = err.Error()
			} else {
				h := sha256.Sum256(raw)
				out[rel+"::<file>"] = hex.EncodeToString(h[:8])
			}
			continue
		}
		fset := token.NewFileSet()
		// comments are not parsed: a comment-only edit is not a drift
		af, err := parser.ParseFile(fset, filepath.Join(repo, rel), nil, 0)
		if err != nil {
			out[rel+"::<parse error>"] = err.Error()
			continue
		}
		var rest []ast.Decl
		seen := map[string]int{}
		for _, d := range af.Decls {
			if fd, ok := d.(*ast.FuncDecl); ok {
				k := rel + "::" + recvName(fd)
				seen[k]++
				if seen[k] > 1 {
					k = fmt.Sprintf("%s#%d", k, seen[k])
				}
				out[k] = hashNode(fset, fd)
			} else if gd, ok := d.(*ast.GenDecl); ok && gd.Tok != token.IMPORT {
				rest = append(rest, d)
			}
		}
		if len(rest) > 0 {
			var parts []string
			for _, d := range rest {
				parts = append(parts, hashNode(fset, d))
			}
			h := sha256.Sum256([]byte(strings.Join(parts, ",")))
			out[rel+"::<decls>"] = hex.EncodeToString(h[:8])
		}
	}
	enc, _ := json.MarshalIndent(out, "", " ")
	fmt.Println(string(enc))
}
