module srcmap

go 1.21
