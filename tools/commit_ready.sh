#!/bin/bash
# usage: tools/commit_ready.sh "<message>" <file-or-dir>...
# Commits only the given paths (plus MANIFEST.json, known-findings.txt, tools/) with a _CoqProject restricted
# to files that are tracked after this commit; the working-tree _CoqProject (with other builders'
# in-progress lines) is restored afterwards.
cd /verif || exit 1
msg=$1; shift
git add -- "$@" tools known-findings.txt DESIGN.md 2>/dev/null
cp coq/_CoqProject /tmp/_CoqProject.full
{ head -1 coq/_CoqProject; for f in $(tail -n +2 coq/_CoqProject); do git ls-files --error-unmatch "coq/$f" >/dev/null 2>&1 && echo "$f"; done; } > /tmp/_CoqProject.tracked
cp /tmp/_CoqProject.tracked coq/_CoqProject
ready=$(for f in coq/theories/Properties/C*.v; do b=$(basename $f .v); git ls-files --error-unmatch $f >/dev/null 2>&1 && echo $b; done | tr '\n' ' ')
excl=$(for i in $(seq -w 1 20); do echo " $ready " | grep -q " C$i " || echo -n "C$i,"; done)
python3 tools/gen_manifest.py --exclude=${excl%,}
git add coq/_CoqProject MANIFEST.json
git commit -q -m "$msg"
cp /tmp/_CoqProject.full coq/_CoqProject
git log --oneline | head -1
