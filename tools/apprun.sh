#!/bin/sh
# dev helper: run app property harness tests with the private build and evaluate with app_where
cd /verif/work
for P in "$@"; do
  rm -rf $P; VERIF_OUT=/verif/work/$P ./hmine.test -test.run "Test$P\$" 2>&1 | grep -E "^(FAIL|---|panic|\s+\w+_test.go)" | head -20
  ( cd $P; ls cases_${P}_*.v | xargs -P 8 -I{} sh -c "sed -i 's/(app_mismatches cases)/(app_where 0 cases)/' {}; coqc -Q /verif/coq/theories Tibc {} 2>&1 | tr '\n' ' '; echo"; echo " <- $P"
  python3 -c "
import json;d=json.load(open('impl_$P.json'));print('   ',d['evaluations'],d['distinct_nontrivial'],sorted(set(f['signature'] for f in (d['oracle_failures'] or []))))
h=d['histogram']; print('   ',{k:v for k,v in h.items() if k.startswith('accepted') or k.startswith('rejected')})" )
done 2>&1 | cut -c1-600
