#!/bin/bash
# usage: tools/seedrun.sh <ID>...   -- for each: confirm the seeded change in /tmp/seed/<ID> (build, suite, demo with/without),
# then run the property's check against the worktree; logs in work/confirm-<ID>.log and work/seedcheck-<ID>.log
for ID in "$@"; do
  /verif/tools/confirm_seed.sh $ID /tmp/seed/$ID /tmp/seed/$ID-out > /verif/work/confirm-$ID.log 2>&1
  PROP=$(echo $ID | sed 's/[a-z]$//')
  VERIF_REPO=/tmp/seed/$ID /verif/tools/devcheck.sh $PROP quick > /verif/work/seedcheck-$ID.log 2>&1
  echo "$ID: $(grep -E 'BUILD|DEMO' /verif/work/confirm-$ID.log | tr '\n' ' ') :: $(tail -1 /verif/work/seedcheck-$ID.log | cut -c1-150)" >> /verif/work/seed-summary.log
done
