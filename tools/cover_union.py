#!/usr/bin/env python3
"""cover_union.py <ID>...: statement blocks of the modelled files that NONE of the given properties' harness runs executed"""
import re, sys, os, json, fnmatch
V="/verif"; mod="github.com/bianjieai/tibc-go/"
m=json.load(open(V+"/tools/modelled.json"))
globs=set(g for grp in m["groups"].values() for g in grp)
blocks={}
for pid in sys.argv[1:]:
    for line in open(V+"/work/cover/%s.profile"%pid):
        mm=re.match(r"(\S+):(\d+)\.(\d+),(\d+)\.(\d+) (\d+) (\d+)",line)
        if not mm or not mm.group(1).startswith(mod): continue
        f=mm.group(1)[len(mod):]
        if not any(fnmatch.fnmatch(f,g) for g in globs): continue
        k=(f,int(mm.group(2)),int(mm.group(4)))
        blocks[k]=max(blocks.get(k,0),int(mm.group(7)))
funcs={}
def fn(f,line):
    if f not in funcs:
        funcs[f]=[(i,mm.group(2)) for i,l in enumerate(open("/repo/"+f).read().splitlines(),1) for mm in [re.match(r"func\s+(\([^)]*\)\s*)?(\w+)",l)] if mm]
    name="?"
    for i,n in funcs[f]:
        if i<=line: name=n
    return name
tot=len(blocks); cov=sum(1 for v in blocks.values() if v>0)
print("union of %s: %d of %d blocks executed (%.1f%%)"%(" ".join(sys.argv[1:]),cov,tot,100.0*cov/max(tot,1)))
by={}
for (f,a,b),v in sorted(blocks.items()):
    if v==0: by.setdefault((f,fn(f,a)),[]).append("%d-%d"%(a,b))
for (f,n),ls in sorted(by.items()): print("  %s %s: %s"%(f,n," ".join(ls)))
