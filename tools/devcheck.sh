#!/bin/sh
# Development run of one property's check for a builder working next to others:
#   tools/devcheck.sh <ID> [quick|thorough]
# - builds only Properties/<ID>.vo + Harness/*.vo of the Coq development
# - builds a private copy of the harness that leaves out the other in-progress properties' files
# - runs against /repo (or $VERIF_REPO if already set, e.g. a scratch worktree with a mutation)
# evidence goes to work/evidence-alt, never to evidence/
ID=$1; shift
lc=$(echo "$ID" | tr 'A-Z' 'a-z')
excl=""
for p in c07 c08 c14 c15 c16 c17 c18 c20; do [ "$p" = "$lc" ] || excl="$excl,$p"; done
cd /verif && VERIF_REPO=${VERIF_REPO:-/repo} VERIF_HARNESS_EXCLUDE=${excl#,} ./check "$ID" "$@"
