#!/bin/sh
# Serialised build of the Coq development (shared lock with ./check).
# usage: tools/coqbuild.sh            -> regenerate Makefile from _CoqProject and make
mkdir -p /verif/work
exec flock /verif/work/coq.lock sh -c 'cd /verif/coq && coq_makefile -f _CoqProject -o Makefile >/dev/null 2>&1 && timeout 3000 make -j8 2>&1 | grep -v "^COQ\|^Closed under the global context" | head -60'
