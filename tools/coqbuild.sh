#!/bin/sh
# Serialised build of the Coq development (shared lock with ./check).
# usage: tools/coqbuild.sh                 -> regenerate Makefile from _CoqProject and make everything (-k)
#        tools/coqbuild.sh theories/X/Y.vo -> build only the given targets (and what they depend on)
mkdir -p /verif/work
T="$*"
exec flock /verif/work/coq.lock sh -c "cd /verif/coq && coq_makefile -f _CoqProject -o Makefile >/dev/null 2>&1 && timeout 3000 make -k -j8 $T 2>&1 | grep -v '^COQ\|^Closed under the global context\|^make' | head -60"
