"""Per-property configuration for tools/vcheck.py"""

TRUSTED_BASE = [
    "Coq 8.16.1 kernel (coqc; vm_compute for witnesses and model evaluation; no native_compute)",
    "axioms: none (every property theorem is 'Closed under the global context'; checked on every run)",
    "hand-written Gallina model of the named Go code; tie = correspondence check on the recorded inputs (Go harness + coqc evaluation)",
    "Go harness under /verif/harness (generators, canonicalisation, oracles), cosmos-sdk/cometbft/go-ethereum test utilities",
    "tools/vcheck.py (orchestration, parsing of coqc output)",
]

PROPS = {
    "C12": {
        "test": "TestC12",
        "modelled": "26-routing/keeper/keeper.go SetRoutingRules, Authenticate (after fix c2db1ec), types.RulePattern; json (un)marshal of the rule list is not modelled (store holds the list)",
        "assumes": ["Go regexp engine implements RulePattern as 'three comma-separated fields each 1-64 identifier chars or *' (validated differentially on every run)"],
    },
}
