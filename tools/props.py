"""Per-property configuration for tools/vcheck.py"""

TRUSTED_BASE = [
    "Coq 8.16.1 kernel (coqc; vm_compute for witnesses and model evaluation; no native_compute)",
    "axioms: none (every property theorem is 'Closed under the global context'; checked on every run)",
    "hand-written Gallina model of the named Go code; tie = correspondence check on the recorded inputs (Go harness + coqc evaluation)",
    "Go harness under /verif/harness (generators, canonicalisation, oracles), cosmos-sdk/cometbft/go-ethereum test utilities",
    "tools/vcheck.py (orchestration, parsing of coqc output)",
]

PKT_MODELLED = ("04-packet/keeper/{packet,keeper}.go (SendPacket, RecvPacket, WriteAcknowledgement, AcknowledgePacket, CleanPacket, RecvCleanPacket, "
                "ValidatePacket, ValidateCleanPacket, clean loops, counters), 04-packet/types/packet.go ValidateBasic (after fix 118a6f5), 24-host/keys.go key builders and "
                "validate.go identifier rule, core/keeper/msg_server.go RecvPacket/Acknowledgement handlers, 26-routing Authenticate; light clients abstracted to "
                "'snapshot of the counterparty store per height + Tendermint status rule'; sha256 abstracted to a function H (identity in the executable instance, "
                "the harness maps hashes back to known pre-images); protobuf, BaseApp, IAVL, gas not modelled")
PKT_ASSUMES = ["sequence numbers are uint64 (op_wf)", "honest-header premise: a header accepted by a light client carries the root of the counterparty's committed store (C07/C17/C18 + validator honesty)",
               "proof verification = membership of (key,value) in the snapshot recorded at the proof height (C08 is about the byte-level verifiers)"]

APP_MODELLED = ("apps/nft_transfer and apps/mt_transfer: keeper/relay.go (Send*Transfer, OnRecvPacket, OnAcknowledgementPacket, refundPacketToken, determineAwayFromOrigin, "
                "getAwayNewClassPath, getBackNewClassPath, ClassPathFromHash), types/trace.go (ParseClassTrace, IBCClass), moudle.go callbacks; irismod nft/mt keeper operations as "
                "ledger operations with their failure conditions and write order (uint64 wrap written out); user transactions of the token modules; on top of the packet-layer model. "
                "Abstracted: sha256/hex (identity in the executable instance, the harness maps tibc-<HASH> classes back to their full path through the trace store), protobuf packet data "
                "(an injective field encoding), bech32 validity (prefix test; the harness only generates invalid addresses without the prefix), irismod identifier validation (inputs are valid ids)")
APP_ASSUMES = ["token/denom ids satisfy the irismod identifier rules (harness precondition)", "module accounts never sign user transactions"]

PROPS = {
    "C04": {"test": "TestC04", "modelled": APP_MODELLED, "assumes": APP_ASSUMES, "timeout": {"quick": 900, "thorough": 3000}},
    "C05": {"test": "TestC05", "modelled": APP_MODELLED, "assumes": APP_ASSUMES, "timeout": {"quick": 900, "thorough": 3000}},
    "C06": {"test": "TestC06", "modelled": APP_MODELLED, "assumes": APP_ASSUMES, "timeout": {"quick": 900, "thorough": 3000}},
    "C19": {"test": "TestC19", "modelled": APP_MODELLED + "; " + PKT_MODELLED, "assumes": APP_ASSUMES, "timeout": {"quick": 900, "thorough": 3000}},
    "C01": {"test": "TestC01", "modelled": PKT_MODELLED, "assumes": PKT_ASSUMES + ["the commitment hash (sha256) is collision-free (premise of C01_recv_authentic)"]},
    "C03": {"test": "TestC03", "modelled": PKT_MODELLED, "assumes": PKT_ASSUMES + ["the commitment hash (sha256) is collision-free and never empty"]},
    "C11": {"test": "TestC11", "modelled": PKT_MODELLED, "assumes": PKT_ASSUMES},
    "C13": {"test": "TestC13", "modelled": PKT_MODELLED, "assumes": PKT_ASSUMES},
    "C02": {"test": "TestC02", "modelled": PKT_MODELLED, "assumes": PKT_ASSUMES},
    "C09": {"test": "TestC09", "modelled": PKT_MODELLED + "; token sends: " + APP_MODELLED, "assumes": PKT_ASSUMES, "harness_vo": ["Mixed", "Net", "AppNet"]},
    "C10": {"test": "TestC10", "modelled": PKT_MODELLED, "assumes": PKT_ASSUMES},
    "C12": {
        "test": "TestC12",
        "modelled": "26-routing/keeper/keeper.go SetRoutingRules, Authenticate (after fix c2db1ec), types.RulePattern; json (un)marshal of the rule list is not modelled (store holds the list)",
        "assumes": ["Go regexp engine implements RulePattern as 'three comma-separated fields each 1-64 identifier chars or *' (validated differentially on every run)"],
    },
}


# per-property entries contributed as separate files: tools/props.d/<ID>.json
# {"test": "TestCxx", "modelled": "...", "assumes": [...], "timeout": {"quick": 600, "thorough": 3000},
#  "meta": {"text": "...", "note": "..."}}
import glob as _glob, json as _json, os as _os
EXTRA_META = {}
for _f in sorted(_glob.glob(_os.path.join(_os.path.dirname(_os.path.abspath(__file__)), "props.d", "*.json"))):
    _d = _json.load(open(_f))
    _id = _os.path.basename(_f)[:-5]
    EXTRA_META[_id] = _d.pop("meta", None)
    PROPS[_id] = _d
