#!/bin/sh
# usage: goal.sh <file.v> <line>   -- shows the proof state after line <line>
f=$1; n=$2
d=$(mktemp -d)
head -n $n $f > $d/Scratch.v
printf '\nShow.\nAbort.\n' >> $d/Scratch.v
( cd $d && coqc -Q /verif/coq/theories Tibc Scratch.v 2>&1 | head -${3:-60} )
rm -rf $d
