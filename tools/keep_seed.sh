#!/bin/bash
# usage: tools/keep_seed.sh <ID> "<caught_by>"  -- files /tmp/seed/<ID>-out -> /verif/seeded/<ID>/ with my confirmation added to meta.json
ID=$1; BY=$2
D=/verif/seeded/$ID; mkdir -p $D
cp /tmp/seed/$ID-out/patch.diff /tmp/seed/$ID-out/demo.txt $D/
for f in /tmp/seed/$ID-out/*_test.go; do [ -f "$f" ] && cp "$f" $D/; done
find /tmp/seed/$ID-out -mindepth 2 -name '*_test.go' | while read f; do cp "$f" $D/$(echo "${f#/tmp/seed/$ID-out/}" | tr '/' '_'); done
python3 - "$ID" "$BY" <<'P'
import json,sys,subprocess
ID,BY=sys.argv[1:3]
m=json.load(open('/tmp/seed/%s-out/meta.json'%ID))
conf=open('/verif/work/confirm-%s.log'%ID).read()
chk=open('/verif/work/seedcheck-%s.log'%ID).read().strip().splitlines()
head=subprocess.run(['git','-C','/repo','log','--format=%h','-n1'],capture_output=True,text=True).stdout.strip()
m['confirmed_by_me']={"base_commit":head+" (repo HEAD when the change was made)",
 "ran":[l for l in conf.splitlines() if l.startswith(('BUILD','DEMO','SUITE','demo cmd'))]+["VERIF_REPO=<worktree with patch> tools/devcheck.sh %s quick : %s"%(ID.rstrip('b'),chk[-1][:200])],
 "check_output":[l.strip()[:300] for l in chk if l.strip().startswith('[')][:4],
 "caught_by":BY}
json.dump(m,open('/verif/seeded/%s/meta.json'%ID,'w'),indent=1)
P
ls $D
