#!/bin/bash
# runs every registered check (quick by default) in /verif against /repo and validates manifest + evidence
cd /verif || exit 1
tier=${1:-quick}
for p in C01 C02 C03 C04 C05 C06 C07 C08 C09 C10 C11 C12 C13 C14 C15 C16 C17 C18 C19 C20; do
  ./check $p $tier 2>&1 | grep -E "^(OK|VIOLATION|KNOWN-FINDING)" | cut -c1-170
done
python3-vt tools/validate.py
