#!/bin/bash
# Development audit: statement coverage of the modelled Go functions by a property's harness run.
#   tools/cover.sh <ID>... [tier]     -> work/cover/<ID>.profile, work/cover/<ID>.uncovered.txt
# Builds work/harness.cover.test (instrumented for modules/tibc/...) once.  Lists, for the files of the
# property's groups in tools/modelled.json, every function with uncovered statements: those are the
# places where a behaviour change cannot be seen by the correspondence run of that property.
export GOFLAGS=-mod=mod GOPROXY=off GOSUMDB=off GOTOOLCHAIN=local
cd /verif || exit 1
mkdir -p work/cover
if [ ! -x work/harness.cover.test ] || [ -n "$(find harness -name '*.go' -newer work/harness.cover.test | head -1)" ]; then
  cp /repo/go.sum harness/go.sum
  ( cd harness && go test -c -tags verif -cover -coverpkg=github.com/bianjieai/tibc-go/modules/tibc/... -o ../work/harness.cover.test . ) || exit 1
fi
tier=quick
for a in "$@"; do case $a in quick|thorough) tier=$a;; esac; done
for ID in "$@"; do
  case $ID in quick|thorough) continue;; esac
  d=work/cover/$ID; rm -rf $d; mkdir -p $d
  VERIF_OUT=$PWD/$d VERIF_SEED=1 VERIF_TIER=$tier work/harness.cover.test -test.run "^Test$ID\$" -test.timeout 3000s -test.coverprofile=$PWD/work/cover/$ID.profile > $d/log 2>&1
  python3 tools/cover_report.py $ID > work/cover/$ID.uncovered.txt
  head -3 work/cover/$ID.uncovered.txt
done
