#!/bin/sh
# dev helper: run harness tests for the given properties and evaluate with net_where
export GOFLAGS=-mod=mod GOPROXY=off GOSUMDB=off GOTOOLCHAIN=local
cd /verif/harness && go test -c -tags verif -o /verif/work/harness.test . || exit 1
cd /verif/work
for P in "$@"; do
  rm -rf $P; VERIF_OUT=/verif/work/$P ./harness.test -test.run "Test$P\$" 2>&1 | grep -E "^(FAIL|---|panic)"
  ( cd $P; for f in cases_${P}_*.v; do sed -i 's/(net_mismatches cases)/(net_where 0 cases)/' $f; coqc -Q /verif/coq/theories Tibc $f 2>&1 | tr '\n' ' ' ; done; echo " <- $P"
  python3 -c "
import json;d=json.load(open('impl_$P.json'));print('   ',d['evaluations'],d['distinct_nontrivial'],[ (f['signature']) for f in (d['oracle_failures'] or [])][:6]); h=d['histogram']; print('   ',{k:v for k,v in h.items() if k.startswith('accepted') or k.startswith('rejected')})" )
done 2>&1 | cut -c1-500
