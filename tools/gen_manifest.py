#!/usr/bin/env python3
"""Regenerates MANIFEST.json from tools/props.py + tools/manifest_meta.py"""
import json, os, sys
sys.path.insert(0, os.path.dirname(os.path.abspath(__file__)))
import props, manifest_meta as mm

ALL = ["C%02d" % i for i in range(1, 21)]
EXCL = set()
for a in sys.argv[1:]:
    if a.startswith("--exclude="):
        EXCL = set(a.split("=", 1)[1].split(","))
checks = []
for pid in ALL:
    if pid not in props.PROPS or pid in EXCL:
        continue
    m = mm.META.get(pid) or props.EXTRA_META.get(pid)
    checks.append({
        "property_id": pid,
        "quick_cmd": "./check %s quick" % pid,
        "thorough_cmd": "./check %s thorough" % pid,
        "evidence_file": "/verif/evidence/%s.json" % pid,
        "replay_cmd_template": "./check %s --replay {path}" % pid,
        "engine": "coq-model+go-correspondence",
        "level_claimed": {"category": "proof", "text": m["text"], "design_ref": m.get("design_ref", "DESIGN.md section 8, " + pid)},
        "level_note": m["note"],
        "technique": m.get("technique", "Coq 8.16 theorems over a hand-written executable Gallina model; model tied to the Go code by a differential correspondence check evaluated inside coqc (vm_compute)"),
    })
na = [{"property_id": pid, "reason": mm.NOT_YET.get(pid, "check not built yet in this round; no claim made")} for pid in ALL if pid not in props.PROPS or pid in EXCL]
man = {
    "version": 1,
    "setup_cmd": "./setup.sh",
    "hooks": {
        "guard": "verif",
        "enable": "go build tag: go test -c -tags verif (harness module /verif/harness with replace github.com/bianjieai/tibc-go => /repo)",
        "baseline_off_cmd": "cd /repo && GOFLAGS=-mod=mod go test -json -vet=off -count=1 -timeout 25m ./...",
        "source_commits": mm.HOOK_COMMITS,
        "add_only": True,
    },
    "engines": [{
        "name": "coq-model+go-correspondence",
        "path": "/verif/check",
        "serves_properties": [c["property_id"] for c in checks],
        "kind_free_text": "Coq development under /verif/coq (model, facts, Properties/Cxx.v) + Go harness /verif/harness driving the real tibc-go code + tools/vcheck.py",
    }],
    "checks": checks,
    "notes": mm.NOTES,
    "not_applicable": na,
}
json.dump(man, open(os.path.join(os.path.dirname(__file__), "..", "MANIFEST.json"), "w"), indent=1)
print("checks:", len(checks), "not claimed:", len(na))
