#!/usr/bin/env python3
"""showstep.py <PROP> <shard> <case-in-shard> <step> [context]: print the recorded implementation step"""
import json,sys
P,sh,ci,si=sys.argv[1],int(sys.argv[2]),int(sys.argv[3]),int(sys.argv[4])
ctx=int(sys.argv[5]) if len(sys.argv)>5 else 3
meta=json.load(open(f'/verif/work/{P}/cases_{P}.meta.json'))
lines=open(f'/verif/work/{P}/cases_{P}.jsonl').read().splitlines()
c=json.loads(lines[sh*meta['shard']+ci])
raw=c.get('raw') or c.get('steps')
print('family:',c.get('family'))
for k in range(max(0,si-ctx),min(len(raw),si+1)):
    print(k, json.dumps(raw[k])[:900]); print()
