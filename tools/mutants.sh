#!/bin/bash
# usage: tools/mutants.sh <ID> <mutants-file>
# mutants-file: lines  name|file|python-regex|replacement   (first match only, applied to a scratch worktree);
#               a line starting with "+|" adds another edit to the preceding mutant.
# Runs devcheck for each mutant and prints CAUGHT / MISSED.
ID=$1; MF=$2
WT=/tmp/mut-$ID
export GOFLAGS=-mod=mod GOPROXY=off GOSUMDB=off GOTOOLCHAIN=local
git -C /repo worktree remove --force $WT 2>/dev/null
git -C /repo worktree add -q --detach $WT HEAD || exit 1
python3 - "$MF" > /tmp/mut-$ID.list <<'P'
import sys,json
cur=None;out=[]
for l in open(sys.argv[1]):
    l=l.rstrip('\n')
    if not l or l.startswith('#'): continue
    name,f,pat,rep=l.split('|',3)
    if name=='+': cur['edits'].append([f,pat,rep])
    else:
        cur={'name':name,'edits':[[f,pat,rep]]}; out.append(cur)
for m in out: print(json.dumps(m))
P
while read -r line; do
  name=$(echo "$line" | python3 -c "import sys,json;print(json.load(sys.stdin)['name'])")
  git -C $WT checkout -q -- .
  echo "$line" | python3 -c "
import re,sys,json
m=json.load(sys.stdin)
for f,pat,rep in m['edits']:
    p='$WT/'+f
    s=open(p).read()
    n=re.subn(pat,rep.replace('\\\\n','\n').replace('\\\\t','\t'),s,count=1,flags=re.S)
    if n[1]!=1: sys.exit(1)
    open(p,'w').write(n[0])
" || { echo "$name: PATTERN-NOT-FOUND"; continue; }
  berr=$( cd $WT && go build ./modules/... 2>&1 ) || { echo "$name: DOES-NOT-COMPILE $(echo "$berr" | tail -2 | tr '\n' ' ')"; continue; }
  out=$(VERIF_REPO=$WT /verif/tools/devcheck.sh $ID quick 2>&1 | tail -6)
  if echo "$out" | grep -q "^VIOLATION"; then echo "$name: CAUGHT  $(echo "$out" | grep -E '^\s+\[' | head -3 | tr '\n' ' ' | cut -c1-260)"; else echo "$name: MISSED  $(echo "$out" | tail -1)"; fi
done < /tmp/mut-$ID.list
git -C /repo worktree remove --force $WT
rm -rf /verif/work/harness-alt-$ID-* /verif/work/$ID-alt* /tmp/mut-$ID.list
