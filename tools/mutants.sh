#!/bin/bash
# usage: tools/mutants.sh <ID> <mutants-file>
# mutants-file: lines  name|file|python-regex|replacement   (first match only, applied to a scratch worktree)
# Runs devcheck for each mutant and prints CAUGHT / MISSED.
ID=$1; MF=$2
WT=/tmp/mut-$ID
export GOFLAGS=-mod=mod GOPROXY=off GOSUMDB=off GOTOOLCHAIN=local
git -C /repo worktree remove --force $WT 2>/dev/null
git -C /repo worktree add -q --detach $WT HEAD || exit 1
while IFS='|' read -r name file pat rep; do
  [ -z "$name" ] && continue
  case "$name" in \#*) continue;; esac
  git -C $WT checkout -q -- .
  python3 - "$WT/$file" "$pat" "$rep" <<'P' || { echo "$name: PATTERN-NOT-FOUND"; continue; }
import re,sys
p,pat,rep=sys.argv[1:4]
s=open(p).read()
n=re.subn(pat,rep.replace('\\n','\n'),s,count=1,flags=re.S)
if n[1]!=1: sys.exit(1)
open(p,'w').write(n[0])
P
  ( cd $WT && go build ./modules/... ) >/dev/null 2>&1 || { echo "$name: DOES-NOT-COMPILE"; continue; }
  out=$(VERIF_REPO=$WT /verif/tools/devcheck.sh $ID quick 2>&1 | tail -4)
  if echo "$out" | grep -q "^VIOLATION"; then echo "$name: CAUGHT  $(echo "$out" | grep -E '^\s+\[' | head -2 | tr '\n' ' ' | cut -c1-160)"; else echo "$name: MISSED  $(echo "$out" | tail -1)"; fi
done < "$MF"
git -C /repo worktree remove --force $WT
rm -rf /verif/work/harness-alt-$ID-* /verif/work/$ID-alt*
