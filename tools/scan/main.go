// scan lists, for the non-test Go code of the tibc-go module, every site whose result can depend on
// something other than (state, transaction, block header): ranges over maps, wall-clock reads, random
// sources, OS / file-system access, goroutines and selects, pointer formatting.
// Output: one JSON object per line {pkg, file, func, kind, expr, line}
package main

import (
	"encoding/json"
	"fmt"
	"go/ast"
	"go/types"
	"os"
	"sort"
	"strings"

	"golang.org/x/tools/go/packages"
)

type site struct {
	Pkg  string `json:"pkg"`
	File string `json:"file"`
	Func string `json:"func"`
	Kind string `json:"kind"`
	Expr string `json:"expr"`
	Line int    `json:"line"`
}

// hasFormatter: the value prints through its own String / Error / Format / GoString method
func hasFormatter(t types.Type) bool {
	ms := types.NewMethodSet(t)
	for _, n := range []string{"String", "Error", "Format"} {
		if ms.Lookup(nil, n) != nil {
			return true
		}
	}
	return false
}

// printsAddress: formatting a value of type t with %v / %s / Sprint can print a memory address:
// a pointer or an interface below the top level of a struct / array / slice / map that has no
// formatting method of its own (fmt prints nested pointers as 0xc000...)
func printsAddress(t types.Type, depth int) bool {
	if depth > 4 {
		return false
	}
	if hasFormatter(t) {
		return false
	}
	switch u := t.Underlying().(type) {
	case *types.Pointer:
		if depth == 0 {
			if hasFormatter(u) {
				return false
			}
			return printsAddress(u.Elem(), 1)
		}
		return true
	case *types.Interface:
		return depth > 0 && !hasFormatter(t) && u.NumMethods() > 0 && depth > 0
	case *types.Struct:
		for i := 0; i < u.NumFields(); i++ {
			if printsAddress(u.Field(i).Type(), depth+1) {
				return true
			}
		}
	case *types.Slice:
		return printsAddress(u.Elem(), depth+1)
	case *types.Array:
		return printsAddress(u.Elem(), depth+1)
	case *types.Map:
		return printsAddress(u.Key(), depth+1) || printsAddress(u.Elem(), depth+1)
	case *types.Chan, *types.Signature:
		return true
	}
	return false
}

func main() {
	dir := os.Args[1]
	patterns := os.Args[2:]
	cfg := &packages.Config{Mode: packages.NeedName | packages.NeedFiles | packages.NeedSyntax | packages.NeedTypes | packages.NeedTypesInfo,
		Dir: dir, Tests: false, Env: append(os.Environ(), "GOFLAGS=-mod=mod", "GOPROXY=off", "GOSUMDB=off", "GOTOOLCHAIN=local")}
	pkgs, err := packages.Load(cfg, patterns...)
	if err != nil {
		fmt.Fprintln(os.Stderr, err)
		os.Exit(2)
	}
	var out []site
	bad := false
	for _, p := range pkgs {
		if len(p.Errors) > 0 {
			for _, e := range p.Errors {
				fmt.Fprintln(os.Stderr, "load error:", e)
			}
			bad = true
			continue
		}
		for i, f := range p.Syntax {
			_ = i
			fname := p.Fset.Position(f.Pos()).Filename
			rel := strings.TrimPrefix(fname, dir+"/")
			if strings.HasSuffix(rel, "_test.go") || strings.HasSuffix(rel, ".pb.go") || strings.HasSuffix(rel, ".pb.gw.go") {
				continue
			}
			var stack []string
			cur := func() string {
				if len(stack) == 0 {
					return ""
				}
				return stack[len(stack)-1]
			}
			add := func(n ast.Node, kind, expr string) {
				out = append(out, site{p.PkgPath, rel, cur(), kind, expr, p.Fset.Position(n.Pos()).Line})
			}
			for _, d := range f.Decls {
				fd, ok := d.(*ast.FuncDecl)
				name := "(package level)"
				if ok {
					name = fd.Name.Name
					if fd.Recv != nil && len(fd.Recv.List) > 0 {
						name = types.ExprString(fd.Recv.List[0].Type) + "." + name
					}
				}
				stack = append(stack, name)
				var recvObj types.Object
				recvPtr := false
				if ok && fd.Recv != nil && len(fd.Recv.List) > 0 && len(fd.Recv.List[0].Names) > 0 {
					recvObj = p.TypesInfo.Defs[fd.Recv.List[0].Names[0]]
					if recvObj != nil {
						_, recvPtr = recvObj.Type().Underlying().(*types.Pointer)
					}
				}
				// persistentWrite: does assigning to lhs change memory that outlives the call
				// (a field reached through the receiver, or a package-level variable)?
				persistentWrite := func(lhs ast.Expr) (string, bool) {
					through := false // passed a pointer dereference, map or slice element on the way down
					e := lhs
					depth := 0
					for {
						switch v := e.(type) {
						case *ast.ParenExpr:
							e = v.X
							continue
						case *ast.StarExpr:
							through = true
							e = v.X
							depth++
							continue
						case *ast.IndexExpr:
							if t := p.TypesInfo.TypeOf(v.X); t != nil {
								switch t.Underlying().(type) {
								case *types.Map, *types.Slice, *types.Pointer:
									through = true
								}
							}
							e = v.X
							depth++
							continue
						case *ast.SelectorExpr:
							if t := p.TypesInfo.TypeOf(v.X); t != nil {
								if _, isPtr := t.Underlying().(*types.Pointer); isPtr {
									through = true
								}
							}
							e = v.X
							depth++
							continue
						case *ast.Ident:
							obj := p.TypesInfo.Uses[v]
							if obj == nil {
								return "", false
							}
							if recvObj != nil && obj == recvObj && depth > 0 && (recvPtr || through) {
								return "receiver-state-write", true
							}
							if vr, isVar := obj.(*types.Var); isVar && vr.Parent() == p.Types.Scope() && name != "init" {
								return "package-var-write", true
							}
							return "", false
						}
						return "", false
					}
				}
				ast.Inspect(d, func(n ast.Node) bool {
					switch x := n.(type) {
					case *ast.AssignStmt:
						for _, l := range x.Lhs {
							if k, yes := persistentWrite(l); yes {
								add(x, k, types.ExprString(l))
							}
						}
					case *ast.IncDecStmt:
						if k, yes := persistentWrite(x.X); yes {
							add(x, k, types.ExprString(x.X))
						}
					case *ast.RangeStmt:
						if t := p.TypesInfo.TypeOf(x.X); t != nil {
							if _, isMap := t.Underlying().(*types.Map); isMap {
								add(x, "range-map", types.ExprString(x.X))
							}
						}
					case *ast.GoStmt:
						add(x, "goroutine", types.ExprString(x.Call.Fun))
					case *ast.SelectStmt:
						add(x, "select", "")
					case *ast.CallExpr:
						var obj types.Object
						switch fn := x.Fun.(type) {
						case *ast.SelectorExpr:
							obj = p.TypesInfo.Uses[fn.Sel]
						case *ast.Ident:
							obj = p.TypesInfo.Uses[fn]
						}
						if fnc, ok := obj.(*types.Func); ok && fnc.Pkg() != nil && fnc.Type().(*types.Signature).Recv() == nil {
							pp, nm := fnc.Pkg().Path(), fnc.Name()
							full := pp + "." + nm
							if (pp == "fmt" && (strings.HasPrefix(nm, "Sprint") || strings.HasPrefix(nm, "Fprint") || nm == "Errorf" || strings.HasPrefix(nm, "Print"))) ||
								(pp == "cosmossdk.io/errors" && nm == "Wrapf") {
								for _, a := range x.Args {
									if t := p.TypesInfo.TypeOf(a); t != nil && printsAddress(t, 0) {
										add(x, "format-address", full+"("+types.ExprString(a)+" : "+t.String()+")")
									}
								}
							}
							switch {
							case pp == "time" && (nm == "Now" || nm == "Since" || nm == "Until" || nm == "After" || nm == "Tick" || nm == "NewTimer" || nm == "NewTicker" || nm == "Sleep"):
								add(x, "wall-clock", full)
							case pp == "math/rand" || pp == "math/rand/v2" || pp == "crypto/rand":
								add(x, "random", full)
							case pp == "os" || pp == "io/ioutil" || pp == "os/exec" || pp == "path/filepath" && (nm == "Walk" || nm == "Glob") || pp == "net" || pp == "net/http" || pp == "runtime" || pp == "syscall":
								add(x, "os", full)
							case pp == "maps" && (nm == "Keys" || nm == "Values" || nm == "All"), pp == "golang.org/x/exp/maps" && (nm == "Keys" || nm == "Values"):
								add(x, "map-keys", full)
							case pp == "reflect" && (nm == "MapKeys" || nm == "MapRange"):
								add(x, "map-keys", full)
							}
						}
					}
					return true
				})
				stack = stack[:len(stack)-1]
			}
		}
	}
	if bad {
		os.Exit(2)
	}
	sort.Slice(out, func(i, j int) bool {
		if out[i].File != out[j].File {
			return out[i].File < out[j].File
		}
		return out[i].Line < out[j].Line
	})
	enc := json.NewEncoder(os.Stdout)
	for _, s := range out {
		_ = enc.Encode(s)
	}
}
