HOOK_COMMITS = []
NOTES = ("Every check = (1) full Coq build + Print Assumptions of the property's theorems, (2) Go harness rebuilt from /repo's working tree "
         "driving the real code, with implementation-side oracles, (3) the same inputs evaluated by the Gallina model inside coqc, (4) diff. "
         "Repairs of genuine defects are 'fix:' commits in /repo, listed in known-findings.txt.")
NOT_YET = {}
PKT_NOTE = ("Trusted: Coq kernel; the hand model of the packet keeper / msg server (tied to the Go code by the correspondence run: accept/reject, relayer-visible events and "
            "the full packet-store dump after every step, on real SimApps with real IAVL proofs); honest-header premise for light clients; sha256 as an abstract function.")
META = {
    "C02": {"text": "Theorem over ALL operation sequences of a chain (any packets, proofs, heights, client contents, cleans, replays, any application): the destination application processes each (source,destination,sequence) at most once; plus completeness lemmas (deliverable packet accepted at destination / relay). Invariant: delivered => receipt present or seq <= clean point; clean point monotone; receipts removed only below the new clean point. Model tied to the code by directed duplicate/replay/clean families and seeded random histories on three real chains.",
            "note": PKT_NOTE},
    "C09": {"text": "Theorems: for every history the successful sends on a pair carry consecutive sequences from the pair's counter, the counter moves only by a successful own send, a successful send changes exactly the counter and one commitment (value H(data)) and announces the packet, a failing operation leaves the state untouched, each failing send kind of the property fails. Tied to the code by every failing send kind interleaved with good sends and inbound traffic + random histories.",
            "note": PKT_NOTE},
    "C10": {"text": "Theorems: source-side clean accepted iff clean < N <= maxAck and no commitment in [clean,N] and next hop known; receive-clean needs a verified proof of the source's clean point; exact effect (receipts/acks in (clean,N] removed, clean point := N, nothing else); clean point monotone over all histories; every packet/ack with seq <= N refused in every later state; receipts persist until cleaned. Tied to the code by directed clean families (source, destination, relay; around unacknowledged packets) + random histories.",
            "note": PKT_NOTE},
    "C12": {
        "text": "Theorems for all byte strings: rule-set acceptance iff every rule is three comma-separated fields each identifier-or-'*'; Authenticate iff some stored rule matches field-wise; literal fields match only the identical string. The model is tied to SetRoutingRules/Authenticate by running both on ~1500 (quick) / 40000 (thorough) seeded (rules, triple) inputs weighted to regexp metacharacters.",
        "note": "Trusted: Coq kernel, the hand model of keeper.go/RulePattern, the Go harness and orchestrator. JSON encoding of the stored list is not modelled.",
    },
}
