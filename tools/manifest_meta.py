HOOK_COMMITS = []
NOTES = ("Every check = (1) full Coq build + Print Assumptions of the property's theorems, (2) Go harness rebuilt from /repo's working tree "
         "driving the real code, with implementation-side oracles, (3) the same inputs evaluated by the Gallina model inside coqc, (4) diff. "
         "Repairs of genuine defects are 'fix:' commits in /repo, listed in known-findings.txt.")
NOT_YET = {}
META = {
    "C12": {
        "text": "Theorems for all byte strings: rule-set acceptance iff every rule is three comma-separated fields each identifier-or-'*'; Authenticate iff some stored rule matches field-wise; literal fields match only the identical string. The model is tied to SetRoutingRules/Authenticate by running both on ~1500 (quick) / 40000 (thorough) seeded (rules, triple) inputs weighted to regexp metacharacters.",
        "note": "Trusted: Coq kernel, the hand model of keeper.go/RulePattern, the Go harness and orchestrator. JSON encoding of the stored list is not modelled.",
    },
}
