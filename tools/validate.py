#!/usr/bin/env python3
"""validates MANIFEST.json and every evidence file against the schemas in /root/.vp (run with python3-vt)"""
import json, glob, sys
import jsonschema
ms = json.load(open('/root/.vp/MANIFEST.schema.json'))
es = json.load(open('/root/.vp/EVIDENCE.schema.json'))
m = json.load(open('/verif/MANIFEST.json'))
jsonschema.validate(m, ms)
ids = [c['property_id'] for c in m['checks']]
print('manifest ok; claimed:', len(ids), 'not claimed:', [n['property_id'] for n in m.get('not_applicable', [])])
bad = 0
for pid in ids:
    f = '/verif/evidence/%s.json' % pid
    try:
        e = json.load(open(f)); jsonschema.validate(e, es)
        c = e['coverage']
        print(pid, e['tier'], 'violations', e.get('violations'), 'theorems', c['obligations'], '/', c['discharged'], 'cases', c.get('model_cases_evaluated_in_coq'), 'eval', c['evaluations'], 'nontrivial', c['distinct_nontrivial'], 'wall', e['wall_s'])
    except Exception as ex:
        bad += 1; print(pid, 'EVIDENCE PROBLEM:', str(ex)[:200])
sys.exit(1 if bad else 0)
