#!/bin/bash
# usage: confirm_seed.sh <ID> <worktree> <outdir> <demo go test command...>
# confirms: build ok, affected suites ok (without demo), demo fails with change, passes without
export GOFLAGS=-mod=mod GOPROXY=off GOSUMDB=off GOTOOLCHAIN=local
ID=$1; WT=$2; OUT=$3
cd $WT || exit 1
git checkout -q -- . 2>/dev/null
git apply $OUT/patch.diff || { echo "patch does not apply"; exit 1; }
demo=$(cat $OUT/demo.txt | grep -E "go test" | head -1 | sed 's/^[^g]*go test/go test/')
echo "demo cmd: $demo"
go build ./... && echo "BUILD ok"
# suite without the demo test files (move untracked test files aside)
mkdir -p /tmp/seed/aside.$ID; for f in $(git ls-files --others --exclude-standard | grep _test.go); do mkdir -p /tmp/seed/aside.$ID/$(dirname $f); mv $f /tmp/seed/aside.$ID/$f; done
if [ -e /verif/work/skip_suite ]; then
  # time-boxed confirmation: only the packages the patch touches (the sub-agent ran the whole suite, see meta.json "ran")
  pk=$(grep '^+++ b/' $OUT/patch.diff | sed 's#^+++ b/##; s#/[^/]*$##' | sort -u | sed 's#^#./#; s#$#/#' | tr '\n' ' ')
  go test -count=1 $pk 2>&1 | grep -E "^(FAIL|ok|---)" | grep -v "^ok" ; echo "SUITE (touched packages only: $pk) done (lines above = unexpected failures)"
else
go test -count=1 ./modules/tibc/... 2>&1 | grep -E "^(FAIL|ok|---)" | grep -v "^ok" | grep -v "TestDecodeStore\|04-packet/simulation" ; echo "SUITE done (lines above = unexpected failures)"
fi
(cd /tmp/seed/aside.$ID && find . -name '*_test.go' | while read f; do cp $f $WT/$f; done)
eval "$demo" > /tmp/seed/$ID.demo_with.log 2>&1; echo "DEMO with change: exit $?"
git checkout -q -- .
eval "$demo" > /tmp/seed/$ID.demo_without.log 2>&1; echo "DEMO without change: exit $?"
git apply $OUT/patch.diff
