#!/usr/bin/env python3
"""Orchestrator for one property check.

  check <ID> [quick|thorough] [--replay FILE]

Pipeline (DESIGN.md section 10):
  1. build the Coq development (full .vo, incremental) and collect
     Print Assumptions for every theorem in Properties/<ID>.v
  2. build the Go harness against /repo's working tree (tag verif)
  3. run the harness for the property: it drives the real code, evaluates the
     implementation-side oracles and writes Coq case files
  4. evaluate the case files with coqc (vm_compute): model vs implementation
  5. verdict, known-finding classification, replay file, evidence
"""
import concurrent.futures as cf
import zlib
import fcntl
import json
import os
import re
import shutil
import subprocess
import sys
import time

VERIF = os.path.dirname(os.path.dirname(os.path.abspath(__file__)))
COQ = os.path.join(VERIF, "coq")
HARNESS = os.path.join(VERIF, "harness")
WORK = os.path.join(VERIF, "work")
REPO = "/repo"

sys.path.insert(0, os.path.join(VERIF, "tools"))
import props  # noqa: E402

GOENV = dict(os.environ, GOFLAGS="-mod=mod", GOPROXY="off", GOSUMDB="off", GOTOOLCHAIN="local",
             CGO_ENABLED=os.environ.get("CGO_ENABLED", "1"))

ALLOWED_AXIOMS = set()
PREMISES = {}  # filled by eval_cases: on how many explored histories the premises of the history theorems hold  # every property theorem is expected to be closed


class Broken(Exception):
    """part of the machinery (proof build, harness build, harness run) no longer checks"""

    def __init__(self, what, detail):
        super().__init__(what)
        self.what = what
        self.detail = detail


def sh(cmd, cwd=None, env=None, timeout=None):
    p = subprocess.run(cmd, cwd=cwd, env=env, timeout=timeout, stdout=subprocess.PIPE,
                       stderr=subprocess.STDOUT, text=True, shell=isinstance(cmd, str))
    return p.returncode, p.stdout


class Lock:
    def __init__(self, name):
        os.makedirs(WORK, exist_ok=True)
        self.path = os.path.join(WORK, name + ".lock")

    def __enter__(self):
        self.f = open(self.path, "w")
        fcntl.flock(self.f, fcntl.LOCK_EX)
        return self

    def __exit__(self, *a):
        fcntl.flock(self.f, fcntl.LOCK_UN)
        self.f.close()


# ---------------------------------------------------------------- Coq

def coq_build(clean=False, dev_targets=None):
    with Lock("coq"):
        if clean:
            sh("git clean -fdXq .", cwd=COQ)
        mk, cp = os.path.join(COQ, "Makefile"), os.path.join(COQ, "_CoqProject")
        if not os.path.exists(mk) or os.path.getmtime(mk) < os.path.getmtime(cp):
            rc, out = sh("coq_makefile -f _CoqProject -o Makefile", cwd=COQ)
            if rc != 0:
                raise Broken("coq_makefile", out)
        if dev_targets:
            # development aid (VERIF_REPO runs only): build just this property's files so that a
            # half-written file of another builder does not block the run
            rc, out = sh("timeout 3000 make -j8 " + " ".join(dev_targets), cwd=COQ)
            if rc != 0:
                raise Broken("Coq build (make %s)" % " ".join(dev_targets), out[-4000:])
            return out
        rc, out = sh("timeout 3000 make -j16", cwd=COQ)
        if rc != 0:
            raise Broken("Coq build (make -C coq)", out[-4000:])
        return out


def property_modules(pid):
    """Properties/<ID>.v plus the history-level statement files Properties/<ID>Hist*.v and the files a
    property's configuration names (extra_props) -- all must be listed in _CoqProject"""
    import glob
    pdir = os.path.join(COQ, "theories", "Properties")
    mods = [pid] + sorted(os.path.basename(f)[:-2] for f in glob.glob(os.path.join(pdir, pid + "Hist*.v")))
    mods += [m for m in props.PROPS.get(pid, {}).get("extra_props", []) if m not in mods]
    proj = open(os.path.join(COQ, "_CoqProject")).read()
    return [m for m in mods if ("theories/Properties/%s.v" % m) in proj]


def theorem_names(pid):
    names = []
    for mod in property_modules(pid):
        path = os.path.join(COQ, "theories", "Properties", mod + ".v")
        src = open(path).read()
        bad = re.findall(r"\b(Admitted|admit|Axiom|Parameter|Conjecture|Hypothesis|Variable)\b", src)
        if bad:
            raise Broken("forbidden declaration in Properties/%s.v" % mod, str(bad))
        names += re.findall(r"^Theorem\s+(\w+)", src, re.M)
    return names


def scan_forbidden():
    rc, out = sh(r"grep -rnE '\b(Admitted|admit|Axiom|Axioms|Parameter|Parameters|Conjecture|Admit Obligations|bypass_check|Unset Guard Checking|Unset Positivity Checking|Unset Universe Checking)\b|type-in-type|impredicative-set' "
                 r"--include=*.v theories _CoqProject || true", cwd=COQ)
    return [l for l in out.splitlines() if l.strip()]


def assumptions(pid, wdir):
    names = theorem_names(pid)
    if not names:
        raise Broken("no theorems in Properties/%s.v" % pid, "")
    src = "".join("From Tibc Require Import Properties.%s.\n" % m for m in property_modules(pid))
    src += "".join("Print Assumptions %s.\n" % n for n in names)
    f = os.path.join(wdir, "assum_%s.v" % pid)
    open(f, "w").write(src)
    rc, out = sh(["coqc", "-Q", os.path.join(COQ, "theories"), "Tibc", f], cwd=wdir, timeout=600)
    if rc != 0:
        raise Broken("Print Assumptions for %s" % pid, out[-3000:])
    # split output into one block per Print Assumptions
    blocks = re.split(r"(?m)^(?=Closed under the global context|Axioms:|Section Variables:)", out)
    blocks = [b for b in blocks if b.strip()]
    res = []
    for n, b in zip(names, blocks):
        if b.startswith("Closed under the global context"):
            res.append({"theorem": n, "closed": True, "axioms": []})
        else:
            ax = re.findall(r"(?m)^([A-Za-z_][\w.']*)\s*:", b)
            res.append({"theorem": n, "closed": False, "axioms": ax})
    if len(res) != len(names):
        raise Broken("could not parse Print Assumptions output", out[-3000:])
    return res


def eval_cases(pid, wdir):
    """run coqc on every cases_<pid>_*.v; returns list of global mismatch indices"""
    meta_p = os.path.join(wdir, "cases_%s.meta.json" % pid)
    if not os.path.exists(meta_p):
        return [], 0, 0
    meta = json.load(open(meta_p))
    shard = meta["shard"]
    files = sorted(f for f in os.listdir(wdir) if re.fullmatch(r"cases_%s_\d+\.v" % pid, f))

    def one(f):
        k = int(re.search(r"_(\d+)\.v$", f).group(1))
        rc, out = sh(["coqc", "-Q", os.path.join(COQ, "theories"), "Tibc", f], cwd=wdir, timeout=3000)
        if rc != 0:
            raise Broken("model evaluation of %s" % f, out[-3000:])
        m = re.search(r"M\s*=\s*\[(.*?)\]\s*:\s*list", out, re.S)
        if not m:
            raise Broken("cannot parse model evaluation output of %s" % f, out[-2000:])
        body = m.group(1).strip()
        idx = [int(x) for x in re.findall(r"\d+", body)]
        # optional: premise counts of the history-level theorems on this shard's cases
        pm = re.search(r"P\s*=\s*\(\s*(\d+)(?:%N)?\s*,\s*(\d+)(?:%N)?\s*,\s*(\d+)(?:%N)?\s*,\s*(\d+)(?:%N)?\s*\)", out)
        if pm:
            for j, name in enumerate(("histories", "hist_ok", "no_setapp", "no_raw_nft_send")):
                PREMISES[name] = PREMISES.get(name, 0) + int(pm.group(j + 1))
        return [k * shard + i for i in idx]

    mism = []
    with cf.ThreadPoolExecutor(max_workers=14) as ex:
        for r in ex.map(one, files):
            mism.extend(r)
    return sorted(mism), meta["n"], len(files)


# ---------------------------------------------------------------- Go harness

def harness_build(pid=""):
    """builds the harness against /repo's working tree.  Development aid: VERIF_REPO=<dir> builds a
    private copy of the harness against another checkout (used to try seeded changes in a scratch
    worktree without touching /repo); the registered checks never set it."""
    alt = os.environ.get("VERIF_REPO")
    if alt:
        hdir = os.path.join(WORK, "harness-alt-" + pid + "-" + str(zlib.crc32(alt.encode()) % 100000))
        shutil.rmtree(hdir, ignore_errors=True)
        excl = tuple(x for x in os.environ.get("VERIF_HARNESS_EXCLUDE", "").split(",") if x)
        shutil.copytree(HARNESS, hdir, ignore=lambda d, names: [n for n in names if excl and n.startswith(excl)])
        gm = open(os.path.join(hdir, "go.mod")).read().replace("=> /repo", "=> " + alt)
        open(os.path.join(hdir, "go.mod"), "w").write(gm)
        shutil.copyfile(os.path.join(alt, "go.sum"), os.path.join(hdir, "go.sum"))
        binp = os.path.join(hdir, "harness.test")
        rc, out = sh(["go", "test", "-c", "-tags", "verif", "-o", binp, "."], cwd=hdir, env=GOENV, timeout=3000)
        if rc != 0:
            raise Broken("harness build against %s" % alt, out[-4000:])
        return binp
    with Lock("harness"):
        shutil.copyfile(os.path.join(REPO, "go.sum"), os.path.join(HARNESS, "go.sum"))
        binp = os.path.join(WORK, "harness.test")
        rc, out = sh(["go", "test", "-c", "-tags", "verif", "-o", binp, "."],
                     cwd=HARNESS, env=GOENV, timeout=3000)
        if rc != 0:
            raise Broken("harness build against /repo working tree (go test -c -tags verif)", out[-4000:])
        return binp


def harness_run(binp, pid, test, tier, seed, wdir, timeout):
    env = dict(GOENV, VERIF_OUT=wdir, VERIF_SEED=str(seed), VERIF_TIER=tier)
    rc, out = sh([binp, "-test.run", "^%s$" % test, "-test.timeout", "%ds" % timeout],
                 cwd=wdir, env=env, timeout=timeout + 60)
    open(os.path.join(wdir, "harness.log"), "w").write(out)
    rep_p = os.path.join(wdir, "impl_%s.json" % pid)
    if rc != 0 or not os.path.exists(rep_p):
        raise Broken("harness run %s" % test, out[-4000:])
    return json.load(open(rep_p))


# ---------------------------------------------------------------- site scan (C20)

def site_scan(repo):
    """lists every place in the module's non-test code whose result could depend on something other
    than (state, transaction, block header) and compares it with the reviewed list tools/c20_sites.json"""
    scan_dir = os.path.join(VERIF, "tools", "scan")
    binp = os.path.join(WORK, "scan")
    with Lock("scan"):
        rc, out = sh(["go", "build", "-o", binp, "."], cwd=scan_dir, env=GOENV, timeout=1200)
    if rc != 0:
        raise Broken("build of the site scanner (tools/scan)", out[-3000:])
    rc, out = sh([binp, repo, "./modules/...", "./simapp/..."], cwd=repo, env=GOENV, timeout=1800)
    if rc != 0:
        raise Broken("site scan of %s" % repo, out[-3000:])
    found = {}
    for line in out.splitlines():
        if not line.startswith("{"):
            continue
        s = json.loads(line)
        k = (s["file"], s["func"], s["kind"], s["expr"])
        found.setdefault(k, []).append(s["line"])
    listed = {(o["file"], o["func"], o["kind"], o["expr"]): o for o in json.load(open(os.path.join(VERIF, "tools", "c20_sites.json")))}
    new = []
    for k, lines in sorted(found.items()):
        allowed = listed.get(k, {}).get("count", 0)
        if len(lines) > allowed:
            new.append({"file": k[0], "func": k[1], "kind": k[2], "expr": k[3], "lines": lines, "listed_count": allowed})
    gone = [list(k) for k in listed if k not in found]
    by_kind = {}
    for k, lines in found.items():
        by_kind[k[2]] = by_kind.get(k[2], 0) + len(lines)
    return {"sites": sum(len(v) for v in found.values()), "by_kind": by_kind, "unlisted": new, "listed_but_gone": gone,
            "covered_by_theorem": sum(1 for o in listed.values() if o["covered_by"].startswith("theorem"))}


# ---------------------------------------------------------------- modelled source map

def source_drift(pid, repo):
    """fingerprints the Go functions the model was written from (tools/modelled.json) in the tree under
    check and compares them with tools/modelled.lock.json (the tree the model was last validated
    against).  A drift is not a violation: it is listed in the evidence and makes the quick check also
    run the thorough-tier correspondence search."""
    sdir = os.path.join(VERIF, "tools", "srcmap")
    binp = os.path.join(WORK, "srcmap")
    with Lock("srcmap"):
        if not os.path.exists(binp) or os.path.getmtime(binp) < os.path.getmtime(os.path.join(sdir, "main.go")):
            rc, out = sh(["go", "build", "-o", binp, "."], cwd=sdir, env=GOENV, timeout=600)
            if rc != 0:
                raise Broken("build of tools/srcmap", out[-2000:])
    mp = os.path.join(VERIF, "tools", "modelled.json")
    rc, out = sh([binp, repo, mp], timeout=120)
    if rc != 0:
        raise Broken("tools/srcmap on %s" % repo, out[-2000:])
    now = json.loads(out)
    lock = json.load(open(os.path.join(VERIF, "tools", "modelled.lock.json")))
    m = json.load(open(mp))
    import fnmatch
    globs = [g for grp in m["properties"].get(pid, []) for g in m["groups"][grp]]

    def mine(key):
        f = key.split("::")[0]
        return any(fnmatch.fnmatch(f, g) for g in globs)
    drift = []
    for k in sorted(set(now) | set(lock)):
        if not mine(k):
            continue
        if k not in lock:
            drift.append({"function": k, "kind": "new"})
        elif k not in now:
            drift.append({"function": k, "kind": "removed"})
        elif now[k] != lock[k]:
            drift.append({"function": k, "kind": "changed"})
    mykeys = [k for k in now if mine(k)]
    return {"groups": m["properties"].get(pid, []), "files": len(set(k.split("::")[0] for k in mykeys)),
            "functions_fingerprinted": len(mykeys), "drift": drift}


# ---------------------------------------------------------------- known findings

def load_known(pid):
    known, fixed = [], []
    p = os.path.join(VERIF, "known-findings.txt")
    if os.path.exists(p):
        for line in open(p):
            line = line.strip()
            if not line or line.startswith("#"):
                continue
            m = re.match(r"known:\s+property=(\S+)\s+sig=(\S+)\s+(.*)", line)
            if m and m.group(1) == pid:
                known.append({"sig": m.group(2), "what": m.group(3)})
            m = re.match(r"fixed:\s+property=(\S+)\s+(\S+)\s+(.*)", line)
            if m and m.group(1) == pid:
                fixed.append({"commit": m.group(2), "what": m.group(3)})
    return known, fixed


# ---------------------------------------------------------------- main

def main(argv):
    if len(argv) < 2:
        print("usage: check <ID> [quick|thorough] [--replay FILE]")
        return 2
    pid = argv[1]
    tier = os.environ.get("VERIF_TIER", "quick")
    seed = int(os.environ.get("VERIF_SEED", "1") or 1)
    replay = None
    args = argv[2:]
    while args:
        a = args.pop(0)
        if a in ("quick", "thorough"):
            tier = a
        elif a == "--replay":
            replay = args.pop(0)
            r = json.load(open(replay))
            seed, tier = r.get("seed", seed), r.get("tier", tier)
    if pid not in props.PROPS:
        print("unknown property", pid)
        return 2
    cfg = props.PROPS[pid]
    t0 = time.time()
    wdir = os.path.join(WORK, pid + ("-alt%d" % (zlib.crc32(os.environ["VERIF_REPO"].encode()) % 100000) if os.environ.get("VERIF_REPO") else ""))
    shutil.rmtree(wdir, ignore_errors=True)
    os.makedirs(wdir, exist_ok=True)
    os.makedirs(os.path.join(VERIF, "evidence"), exist_ok=True)
    os.makedirs(os.path.join(VERIF, "replays"), exist_ok=True)
    replay_path = os.path.join(VERIF, "replays", "%s-%d-%s%s.json" % (pid, seed, tier, "-alt" if os.environ.get("VERIF_REPO") else ""))

    violations = []   # dicts: kind, what, input
    known_seen = {}
    assum, rep = [], None
    scan = None
    srcmap = None
    mism, ncases, nshards = [], 0, 0
    coqchk = None
    try:
        srcmap = source_drift(pid, os.environ.get("VERIF_REPO") or REPO)
        if os.environ.get("VERIF_REPO"):
            coq_build(dev_targets=["theories/Properties/%s.vo" % m for m in property_modules(pid)] + ["theories/Harness/%s.vo" % h for h in cfg.get("harness_vo", [pid, "Net", "AppNet", "C12"])
                                                                                 if os.path.exists(os.path.join(COQ, "theories", "Harness", h + ".v"))])
        else:
            coq_build(clean=(tier == "thorough" and os.environ.get("VERIF_NO_CLEAN") != "1"))
        hits = scan_forbidden()
        if hits:
            raise Broken("forbidden declarations in the Coq development", "\n".join(hits))
        assum = assumptions(pid, wdir)
        for a in assum:
            extra = [x for x in a["axioms"] if x not in ALLOWED_AXIOMS]
            if extra:
                raise Broken("theorem %s depends on unexpected axioms" % a["theorem"], str(extra))
        if cfg.get("site_scan"):
            scan = site_scan(os.environ.get("VERIF_REPO") or REPO)
        binp = harness_build(pid)
        rep = harness_run(binp, pid, cfg["test"], tier, seed, wdir, cfg.get("timeout", {}).get(tier, 1500))
        mism, ncases, nshards = eval_cases(pid, wdir)
        if tier == "thorough" and os.environ.get("VERIF_NO_COQCHK") != "1":
            coqchk = run_coqchk(pid)
    except Broken as b:
        violations.append({"kind": "broken", "what": b.what, "detail": b.detail,
                           "theorems": [a["theorem"] for a in assum] or None})
    except subprocess.TimeoutExpired as e:
        violations.append({"kind": "broken", "what": "timeout: %s" % e.cmd, "detail": ""})

    known, fixed = load_known(pid)
    known_sigs = {k["sig"]: k for k in known}
    failing_inputs = []
    if rep:
        for f in (rep.get("oracle_failures") or []):
            if f["signature"] in known_sigs:
                known_seen.setdefault(f["signature"], f)
            else:
                failing_inputs.append(f)
    descs = []
    if mism:
        dp = os.path.join(wdir, "cases_%s.jsonl" % pid)
        lines = open(dp).read().splitlines() if os.path.exists(dp) else []
        for i in mism[:50]:
            descs.append({"case_index": i, "case": json.loads(lines[i]) if i < len(lines) else None})

    if scan and scan["unlisted"]:
        violations.append({"kind": "obligation",
                           "what": "%d site(s) where the result may depend on map order, the clock, a random source, the OS, the scheduler or a memory address are not covered by a theorem of Properties/%s.v or by the reviewed list tools/c20_sites.json" % (len(scan["unlisted"]), pid),
                           "unlisted_sites": scan["unlisted"],
                           "theorems_no_longer_tied": [a["theorem"] for a in assum]})
    searched = None
    drifted = bool(srcmap and srcmap["drift"])
    if (mism or (scan and scan["unlisted"]) or drifted) and not failing_inputs and rep and tier == "quick" and os.environ.get("VERIF_NO_SEARCH") != "1":
        # the tie between model and code is broken but no oracle fired on the quick inputs:
        # search the implementation for an input on which the property itself fails
        # (thorough-tier generators, two further seeds; the model is not consulted here)
        searched = {"runs": []}
        for s2 in (seed, seed + 1):
            sdir = os.path.join(wdir, "search-%d" % s2)
            os.makedirs(sdir, exist_ok=True)
            try:
                rep2 = harness_run(binp, pid, cfg["test"], "thorough", s2, sdir, cfg.get("timeout", {}).get("thorough", 3000))
            except Exception as e:  # the search is best effort: never let it hide the verdict
                searched["runs"].append({"seed": s2, "result": "search run did not complete: %s" % getattr(e, "what", e)})
                continue
            found = [f for f in (rep2.get("oracle_failures") or []) if f["signature"] not in known_sigs]
            run_rec = {"seed": s2, "tier": "thorough", "evaluations": rep2.get("evaluations"), "oracle_failures": len(found)}
            searched["runs"].append(run_rec)
            if found:
                failing_inputs = found
                break
            if drifted and not mism and s2 == seed:
                # the modelled source changed and the quick inputs show no difference: put the
                # thorough-tier inputs through the model as well
                try:
                    mism2, n2, sh2 = eval_cases(pid, sdir)
                except Broken as b:
                    run_rec["model_evaluation"] = "did not complete: %s" % b.what
                    continue
                run_rec["model_cases_evaluated_in_coq"] = n2
                run_rec["model_vs_impl_mismatches"] = len(mism2)
                if mism2:
                    dp2 = os.path.join(sdir, "cases_%s.jsonl" % pid)
                    lines2 = open(dp2).read().splitlines() if os.path.exists(dp2) else []
                    violations.append({"kind": "correspondence",
                                       "what": "after a change of modelled source (%s): model (Coq) and implementation (Go) disagree on %d of %d thorough-tier cases" % (
                                           ", ".join(d["function"] for d in srcmap["drift"][:3]), len(mism2), n2),
                                       "mismatching_cases": [{"case_index": i, "case": json.loads(lines2[i]) if i < len(lines2) else None} for i in mism2[:20]],
                                       "theorems_no_longer_tied": [a["theorem"] for a in assum]})
                    break
    if failing_inputs:
        violations.append({"kind": "oracle", "what": failing_inputs[0]["what"],
                           "failing_inputs": failing_inputs[:20], "n_failing": len(failing_inputs)})
    if mism:
        violations.append({"kind": "correspondence",
                           "what": "model (Coq) and implementation (Go) disagree on %d of %d cases" % (len(mism), ncases),
                           "mismatching_cases": descs,
                           "theorems_no_longer_tied": [a["theorem"] for a in assum]})

    wall = time.time() - t0
    write_evidence(pid, cfg, tier, seed, assum, rep, ncases, nshards, mism, known_seen, violations, wall, coqchk, scan, srcmap, searched)

    for sig, f in known_seen.items():
        print("KNOWN-FINDING: property=%s %s [%s]" % (pid, known_sigs[sig]["what"], sig))
    if violations:
        found = any(v["kind"] == "oracle" for v in violations)
        json.dump({"property": pid, "seed": seed, "tier": tier, "violations": violations, "failing_input_search": searched,
                   "replay_cmd": "./check %s --replay %s" % (pid, replay_path)},
                  open(replay_path, "w"), indent=1, default=str)
        for v in violations:
            print("  [%s] %s" % (v["kind"], v["what"]))
            if v["kind"] == "broken":
                print("    " + "\n    ".join(str(v.get("detail", "")).splitlines()[-15:]))
        print("VIOLATION property=%s replay=%s%s" % (pid, replay_path, "" if found else " no-failing-input-found"))
        return 1
    print("OK property=%s tier=%s seed=%d theorems=%d cases=%d impl_evaluations=%d wall=%.1fs" % (
        pid, tier, seed, len(assum), ncases, rep["evaluations"] if rep else 0, wall))
    return 0


def run_coqchk(pid):
    """independent re-check of the property file and everything it depends on (thorough tier)"""
    with Lock("coq"):
        rc, out = sh("timeout 3000 coqchk -silent -o -Q theories Tibc Tibc.Properties.%s" % pid, cwd=COQ)
    tail = out[-3000:]
    if rc != 0:
        raise Broken("coqchk Tibc.Properties.%s" % pid, tail)
    return tail


def write_evidence(pid, cfg, tier, seed, assum, rep, ncases, nshards, mism, known_seen, violations, wall, coqchk, scan=None, srcmap=None, searched=None):
    obligations = len(assum)
    discharged = sum(1 for a in assum if a["closed"] or all(x in ALLOWED_AXIOMS for x in a["axioms"]))
    if any(v["kind"] == "broken" for v in violations) and not assum:
        obligations, discharged = max(obligations, 1), 0
    cov = {
        "obligations": max(obligations, 1),
        "discharged": discharged,
        "checker_cmd": "make -C /verif/coq (coqc 8.16.1, full .vo) ; coqc Print Assumptions on Properties/%s.v ; coqc -Q coq/theories Tibc work/%s/cases_%s_*.v (vm_compute model evaluation)%s" % (
            pid, pid, pid, " ; coqchk -silent -o Tibc.Properties.%s" % pid if coqchk else ""),
        "trusted_base": props.TRUSTED_BASE + cfg.get("trusted_extra", []),
        "theorems": assum,
        "evaluations": rep["evaluations"] if rep else 0,
        "distinct_nontrivial": rep["distinct_nontrivial"] if rep else 0,
        "rule": rep["rule"] if rep else "",
        "samples": (rep["samples"] if rep else []) or ["(none: the run broke before the harness produced cases)"],
        "traces_validated_against_impl": ncases - len(mism) if ncases else 0,
        "model_cases_evaluated_in_coq": ncases,
        "case_shards": nshards,
        "model_vs_impl_mismatches": len(mism),
        "input_histogram": (rep.get("histogram") or {}) if rep else {},
        "impl_constants": (rep.get("constants") or {}) if rep else {},
        "known_findings_seen": sorted(known_seen),
        "notes": (rep.get("notes") or []) if rep else [],
        "modelled_not_verified": cfg.get("modelled", ""),
    }
    if coqchk:
        cov["coqchk_tail"] = coqchk[-1500:]
    if scan:
        cov["site_scan"] = scan
    if PREMISES:
        cov["history_theorem_premises_on_explored_histories"] = dict(PREMISES, note="evaluated inside coqc by the boolean checkers of Harness/AppPremises.v (sound w.r.t. hist_ok / anop_noset / no_raw_nft_send); histories that use harness-only capabilities (raw sends, direct application writes) are expected to fail them")
    if srcmap:
        cov["modelled_source"] = srcmap
    if searched:
        cov["deeper_search"] = searched
    ev = {
        "property_id": pid,
        "tier": tier,
        "seed": seed,
        "level": "proof",
        "coverage": cov,
        "assumptions": cfg.get("assumes", []),
        "wall_s": round(wall, 2),
        "violations": len(violations),
    }
    evdir = os.path.join(VERIF, "evidence") if not os.environ.get("VERIF_REPO") else os.path.join(WORK, "evidence-alt")
    os.makedirs(evdir, exist_ok=True)
    json.dump(ev, open(os.path.join(evdir, pid + ".json"), "w"), indent=1, default=str)


if __name__ == "__main__":
    sys.exit(main(sys.argv))
