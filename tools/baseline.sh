#!/bin/bash
# Runs the repository's test suite with the verif guard OFF and compares with BASELINE.json's stable_pass list.
# usage: tools/baseline.sh [repo-dir]   -> prints the tests of the stable list that did not pass
R=${1:-/repo}
export GOFLAGS=-mod=mod GOPROXY=off GOSUMDB=off GOTOOLCHAIN=local
mkdir -p /verif/work
( cd $R && go test -json -vet=off -count=1 -timeout 25m ./... ) > /verif/work/baseline.gotest.json 2>/verif/work/baseline.err
python3 - <<'P'
import json
passed=set()
for l in open('/verif/work/baseline.gotest.json'):
    try: e=json.loads(l)
    except Exception: continue
    if e.get('Action')=='pass' and e.get('Test'): passed.add(e['Package']+'::'+e['Test'])
b=json.load(open('/root/.vp/BASELINE.json'))
want=b['stable_pass']
missing=[t for t in want if t not in passed]
print('stable_pass:',len(want),'passed now:',len(want)-len(missing),'missing:',len(missing))
for t in missing[:40]: print('  NOT PASSING:',t)
P
