#!/bin/sh
# private harness build (excludes files of concurrently working builders)
export GOFLAGS=-mod=mod GOPROXY=off GOSUMDB=off GOTOOLCHAIN=local
rm -rf /verif/work/hmine && mkdir -p /verif/work/hmine && cd /verif/harness && for f in *.go go.mod go.sum; do case $f in c07*|c17*|c18*) ;; *) cp $f /verif/work/hmine/;; esac; done
cd /verif/work/hmine && go vet -tags verif . && go test -c -tags verif -o /verif/work/hmine.test .
