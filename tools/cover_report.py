#!/usr/bin/env python3
"""cover_report.py <ID>: uncovered statement blocks of the modelled files (tools/modelled.json groups of
the property) in work/cover/<ID>.profile, grouped by function (function ranges from tools/srcmap -ranges)."""
import fnmatch, json, os, re, subprocess, sys
V = "/verif"
pid = sys.argv[1]
m = json.load(open(os.path.join(V, "tools/modelled.json")))
globs = [g for grp in m["properties"][pid] for g in m["groups"][grp]]
mod = "github.com/bianjieai/tibc-go/"
blocks = {}
for line in open(os.path.join(V, "work/cover/%s.profile" % pid)):
    mm = re.match(r"(\S+):(\d+)\.(\d+),(\d+)\.(\d+) (\d+) (\d+)", line)
    if not mm or not mm.group(1).startswith(mod):
        continue
    f = mm.group(1)[len(mod):]
    if not any(fnmatch.fnmatch(f, g) for g in globs):
        continue
    k = (f, int(mm.group(2)), int(mm.group(4)))
    blocks[k] = max(blocks.get(k, 0), int(mm.group(7)))
# function ranges: crude scan of 'func' lines
funcs = {}
for f in set(k[0] for k in blocks):
    src = open(os.path.join("/repo", f)).read().splitlines()
    cur = []
    for i, l in enumerate(src, 1):
        mm = re.match(r"func\s+(\([^)]*\)\s*)?(\w+)", l)
        if mm:
            cur.append((i, mm.group(2)))
    funcs[f] = cur
def fn(f, line):
    name = "?"
    for (i, n) in funcs.get(f, []):
        if i <= line:
            name = n
    return name
tot = len(blocks); cov = sum(1 for v in blocks.values() if v > 0)
print("%s: %d of %d statement blocks of the modelled files executed by the harness run (%.1f%%)" % (pid, cov, tot, 100.0 * cov / max(tot, 1)))
by = {}
for (f, a, b), v in sorted(blocks.items()):
    if v == 0:
        by.setdefault((f, fn(f, a)), []).append("%d-%d" % (a, b))
for (f, n), ls in sorted(by.items()):
    print("  %s %s: %s" % (f, n, " ".join(ls)))
