(** The application layer of a chain: NFT and MT transfer modules plus the mock
    module, as the callbacks the packet layer invokes, and the user
    transactions of the token modules. *)
From Tibc Require Import Base.Bytes Base.FMap Host.Keys Routing.Rules Packet.Types Packet.Keeper
  Apps.Path Apps.Nft Apps.Mt.

Record app_state := mkApp { a_nft : nft_state; a_mt : mt_state }.

Definition app_init : app_state := mkApp (mkNftState [] [] []) (mkMtState [] [] [] [] []).

Definition MOCK_PORT : bytes := of_string "tibcmock".
Definition mock_ack_bytes : bytes := of_string "mock acknowledgement".

Section App.
Variable Hh : bytes -> bytes.
Variable H : bytes -> bytes.
Variable valid_addr : bytes -> bool.
Variable nft_escrow mt_escrow : bytes.
Variable enc_nft : nft_data -> bytes.
Variable dec_nft : bytes -> option nft_data.
Variable enc_mt : mt_data -> bytes.
Variable dec_mt : bytes -> option mt_data.

Definition app_has_route (port : bytes) : bool :=
  beq port NFT_PORT || beq port MT_PORT || beq port MOCK_PORT.

Definition app_on_recv (a : app_state) (p : packet) : option (app_state * option bytes) :=
  if beq (p_port p) NFT_PORT then
    match nft_on_recv Hh valid_addr nft_escrow dec_nft (a_nft a) p with
    | Some (st, ack) => Some (mkApp st (a_mt a), ack)
    | None => None
    end
  else if beq (p_port p) MT_PORT then
    match mt_on_recv Hh valid_addr mt_escrow dec_mt (a_mt a) p with
    | Some (st, ack) => Some (mkApp (a_nft a) st, ack)
    | None => None
    end
  else if beq (p_port p) MOCK_PORT then Some (a, Some mock_ack_bytes)
  else None.

Definition app_on_ack (a : app_state) (p : packet) (ack : bytes) : option app_state :=
  if beq (p_port p) NFT_PORT then
    option_map (fun st => mkApp st (a_mt a)) (nft_on_ack Hh valid_addr nft_escrow dec_nft (a_nft a) p ack)
  else if beq (p_port p) MT_PORT then
    option_map (fun st => mkApp (a_nft a) st) (mt_on_ack Hh valid_addr mt_escrow dec_mt (a_mt a) p ack)
  else if beq (p_port p) MOCK_PORT then Some a
  else None.

Notation chain := (chain app_state).

(** user transactions *)
Inductive user_op :=
| UNftIssue (class creator : bytes)
| UNftMint (class id uri sender rcpt : bytes)
| UNftMove (class id from to : bytes)                       (* MsgTransferNFT *)
| UNftBurn (class id owner : bytes)
| UNftSend (class id sender receiver dest relay contract : bytes)   (* MsgNftTransfer *)
| UMtIssue (class owner : bytes)                             (* MsgIssueDenom; the id is generated *)
| UMtMintNew (class id : bytes) (amt : N) (data sender rcpt : bytes)   (* MsgMintMT without id *)
| UMtMint (class id : bytes) (amt : N) (sender rcpt : bytes)
| UMtMove (class id : bytes) (amt : N) (from to : bytes)
| UMtBurn (class id : bytes) (amt : N) (owner : bytes)
| UMtSend (class id sender receiver dest relay contract : bytes) (amt : N).  (* MsgMtTransfer *)

Definition lift_nft (c : chain) (o : option nft_state) : option (chain * list event) :=
  match o with
  | Some st => Some (with_app app_state c (mkApp st (a_mt (c_app app_state c))), [])
  | None => None
  end.

Definition lift_mt (c : chain) (r : mt_state * bool) : option (chain * list event) :=
  match r with
  | (st, true) => Some (with_app app_state c (mkApp (a_nft (c_app app_state c)) st), [])
  | (_, false) => None
  end.

Definition user_exec (c : chain) (u : user_op) : option (chain * list event) :=
  let a := c_app app_state c in
  match u with
  | UNftIssue class creator =>
      if has_class class (a_nft a) then None
      else lift_nft c (Some (nft_issue_class (a_nft a) class creator false))
  | UNftMint class id uri sender rcpt =>
      match lookup class (ns_classes (a_nft a)) with
      | None => None
      | Some (creator, restricted) =>
          if restricted && negb (beq creator sender) then None
          else lift_nft c (nft_mint (a_nft a) class id uri rcpt)
      end
  | UNftMove class id from to => lift_nft c (nft_transfer (a_nft a) class id from to)
  | UNftBurn class id owner => lift_nft c (nft_burn (a_nft a) class id owner)
  | UNftSend class id sender receiver dest relay contract =>
      match nft_send nft_escrow enc_nft (c_name app_state c)
                     (next_send app_state c (c_name app_state c) dest) (a_nft a)
                     class id sender receiver dest relay contract with
      | None => None
      | Some (st, pkt) => send_packet app_state H (with_app app_state c (mkApp st (a_mt a))) pkt
      end
  | UMtIssue class owner =>
      if mt_has_class class (a_mt a) then None else lift_mt c (mt_issue_class (a_mt a) class owner, true)
  | UMtMintNew class id amt data sender rcpt =>
      if N.eqb amt 0 then None else        (* MsgMintMT.ValidateBasic: amount is required *)
      match lookup class (ms_classes (a_mt a)) with
      | None => None
      | Some owner =>
          if negb (beq owner sender) then None else
          if mt_exists (a_mt a) class id then None else lift_mt c (mt_issue (a_mt a) class id amt data rcpt)
      end
  | UMtMint class id amt sender rcpt =>
      if N.eqb amt 0 then None else
      match lookup class (ms_classes (a_mt a)) with
      | None => None
      | Some owner =>
          if negb (beq owner sender) then None else
          if negb (mt_exists (a_mt a) class id) then None else lift_mt c (mt_mint (a_mt a) class id amt rcpt)
      end
  | UMtMove class id amt from to =>         (* MsgTransferMT / MsgBurnMT.ValidateBasic: amount is required *)
      if N.eqb amt 0 then None else lift_mt c (mt_transfer (a_mt a) class id amt from to)
  | UMtBurn class id amt owner =>
      if N.eqb amt 0 then None else lift_mt c (mt_burn (a_mt a) class id amt owner)
  | UMtSend class id sender receiver dest relay contract amt =>
      match mt_send mt_escrow enc_mt (c_name app_state c)
                    (next_send app_state c (c_name app_state c) dest) (a_mt a)
                    class id sender receiver dest relay contract amt with
      | None => None
      | Some (st, pkt) => send_packet app_state H (with_app app_state c (mkApp (a_nft a) st)) pkt
      end
  end.

End App.
