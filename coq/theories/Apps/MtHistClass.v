(** C05 over histories, part 5: the class under which a refund is accounted is
    the class under which the send was accounted.

    A send moves (locks or burns) units of the class [cl] the user names and
    writes the class PATH of [cl] into the packet; the refund moves units of
    [voucher_class Hh path].  These agree when [cl] is '/'-free, or when [cl]
    is a voucher class "tibc-<hash>" and the trace table maps <hash> to a path
    that hashes to it and has a non-empty first component ([TraceInv], kept by
    every history: entries are only ever added by away-receives).  The premise
    on native classes is needed: [class_with_slash_refund_stuck]. *)
From Tibc Require Import Base.Bytes Base.BytesFacts Base.FMap Host.Keys Host.KeysFacts Routing.Rules
  Packet.Types Packet.Keeper Packet.KeeperFacts
  Apps.Path Apps.PathFacts Apps.Nft Apps.Mt Apps.MtFacts Apps.App Apps.AppFacts
  Apps.MtHistory Apps.MtHistEscrow Apps.MtHistLinks.
From Coq Require Import ZArith ZifyN ZifyNat ZifyBool.

(** * paths with a non-empty '/'-free first component followed by '/' *)
Definition good_raw (raw : bytes) : Prop :=
  exists a t, raw = a ++ slash :: t /\ a <> [] /\ ~ In slash a.

Lemma join_snoc (l : list bytes) x : l <> [] -> join [slash] (l ++ [x]) = join [slash] l ++ slash :: x.
Proof.
  induction l as [|y l IH]; [contradiction|]. intros _. destruct l as [|z l].
  - reflexivity.
  - cbn [app]. rewrite !join_cons. change (z :: l ++ [x]) with ((z :: l) ++ [x]).
    rewrite IH by discriminate. rewrite <- !app_assoc. reflexivity.
Qed.

Lemma parse_shape (sp : list bytes) (a r0 : bytes) (rest : list bytes) (raw : bytes) :
  sp = a :: r0 :: rest -> a <> [] -> beq a raw = false -> join [slash] sp = raw ->
  let tr := (if beq (hd [] sp) raw then ([], raw) else (join [slash] (removelast sp), last sp [])) in
  fst tr <> [] /\ full_class_path tr = raw.
Proof.
  intros -> NE B J. cbn [hd]. rewrite B. cbv zeta. cbn [fst snd].
  assert (F1 : join [slash] (removelast (a :: r0 :: rest)) <> []).
  { change (removelast (a :: r0 :: rest)) with (a :: removelast (r0 :: rest)).
    destruct (removelast (r0 :: rest)) as [|y l].
    - cbn. exact NE.
    - rewrite join_cons. destruct a; [contradiction|discriminate]. }
  split; [exact F1|].
  unfold full_class_path. cbn [fst snd].
  destruct (join [slash] (removelast (a :: r0 :: rest))) as [|b0 bs] eqn:JE; [contradiction|].
  rewrite <- JE. rewrite <- join_snoc by (change (removelast (a :: r0 :: rest)) with (a :: removelast (r0 :: rest)); discriminate).
  rewrite <- app_removelast_last by discriminate. exact J.
Qed.

Lemma good_raw_parse raw :
  good_raw raw -> fst (parse_class_trace raw) <> [] /\ full_class_path (parse_class_trace raw) = raw.
Proof.
  intros (a & t & E & NE & NS).
  assert (SP : split slash raw = a :: split slash t) by (rewrite E; apply split_app; exact NS).
  pose proof (join_split slash raw) as J.
  assert (B : beq a raw = false).
  { apply beq_false. intros X. rewrite E in X. apply (f_equal (@length N)) in X.
    rewrite app_length in X. cbn [length] in X. lia. }
  destruct (split slash t) as [|r0 rest] eqn:ST; [exfalso; eapply split_nonnil; eauto|].
  unfold parse_class_trace. exact (parse_shape _ a r0 rest raw SP NE B J).
Qed.

Section ClassInv.
Variable Hh : bytes -> bytes.

Lemma voucher_good raw : good_raw raw -> voucher_class Hh raw = tibc_dash ++ Hh raw.
Proof.
  intros G. destruct (good_raw_parse raw G) as [F1 F2]. unfold voucher_class, ibc_class.
  destruct (fst (parse_class_trace raw)); [contradiction|]. rewrite F2. reflexivity.
Qed.

Lemma MT_PFX_noslash : ~ In slash MT_PFX.
Proof. intros [X|[X|[]]]; discriminate. Qed.

(** every class path written by an away-receive is good, whatever the packet says *)
Lemma away_good src dst class : good_raw (away_new_class_path MT_PFX src dst class).
Proof.
  unfold away_new_class_path, prefixed_path.
  destruct (has_prefix MT_PFX class && contains slash class) eqn:P.
  - apply andb_true_iff in P. destruct P as [HP CS].
    pose proof (join_split slash class) as J. pose proof (split_fields_nosep slash class) as NS.
    destruct (split slash class) as [|a rest] eqn:SP; [exfalso; eapply split_nonnil; eauto|].
    assert (NSa : ~ In slash a) by (inversion NS; assumption). clear NS.
    destruct rest as [|r0 rest].
    { exfalso. cbn in J. subst a. apply contains_spec in CS. contradiction. }
    assert (NEa : a <> []).
    { intros ->. rewrite join_cons in J. rewrite <- J in HP. discriminate HP. }
    change (removelast (a :: r0 :: rest)) with (a :: removelast (r0 :: rest)).
    cbn [app]. destruct (removelast (r0 :: rest) ++ dst :: [last (a :: r0 :: rest) []]) as [|y l] eqn:T.
    { exfalso. apply app_eq_nil in T. destruct T as [_ T]. discriminate. }
    rewrite join_cons. exists a, (join [slash] (y :: l)). repeat split; auto.
  - unfold concat_class_path. exists MT_PFX, (src ++ slash :: dst ++ slash :: class).
    split; [reflexivity|]. split; [discriminate|exact MT_PFX_noslash].
Qed.

(** * the trace table *)
Definition TraceInv (st : mt_state) : Prop :=
  forall h full, lookup h (ms_traces st) = Some full -> h = Hh full /\ good_raw full.

Lemma TraceInv_init : TraceInv (mkMtState [] [] [] [] []).
Proof. intros h full E. discriminate. Qed.

Lemma TraceInv_same st st' : ms_traces st' = ms_traces st -> TraceInv st -> TraceInv st'.
Proof. intros E T h full L. rewrite E in L. exact (T h full L). Qed.

(** a class a user can name in a send: a voucher class or a '/'-free native class *)
Definition class_ok (cl : bytes) : Prop := has_prefix tibc_dash cl = true \/ noslash cl.

Lemma class_path_back st cl full :
  TraceInv st -> class_ok cl -> mt_class_path_of st cl = Some full -> voucher_class Hh full = cl.
Proof.
  intros T OK. unfold mt_class_path_of. destruct (has_prefix tibc_dash cl) eqn:P.
  - apply has_prefix_spec in P. destruct P as [t ->].
    assert (SK : skipn 5 (tibc_dash ++ t) = t) by reflexivity. rewrite SK. intros L.
    destruct (T t full L) as [-> G]. apply voucher_good. exact G.
  - intros E. inversion E; subst full. destruct OK as [X|NS]; [congruence|].
    apply voucher_class_native. exact NS.
Qed.

(** * keeper operations do not touch the trace table *)
Lemma transfer_tr st c i a s d : ms_traces (fst (mt_transfer st c i a s d)) = ms_traces st.
Proof.
  unfold mt_transfer, add_balance, sub_balance. destruct (_ <? a); [reflexivity|].
  destruct (_ <? a); reflexivity.
Qed.

Lemma mint_tr st c i a r : ms_traces (fst (mt_mint st c i a r)) = ms_traces st.
Proof.
  unfold mt_mint, inc_supply, add_balance. destruct (_ <? a); [reflexivity|].
  destruct (_ <? a); reflexivity.
Qed.

Lemma burn_tr st c i a w : ms_traces (fst (mt_burn st c i a w)) = ms_traces st.
Proof. unfold mt_burn. destruct (_ <? a); reflexivity. Qed.

Lemma issue_tr st c i a dt r : ms_traces (fst (mt_issue st c i a dt r)) = ms_traces st.
Proof. rewrite mt_issue_as_mint. cbv zeta. rewrite mint_tr. reflexivity. Qed.

Section WithParams.
Variable H : bytes -> bytes.
Variable valid_addr : bytes -> bool.
Variable nft_escrow mt_escrow : bytes.
Variable enc_nft : nft_data -> bytes.
Variable dec_nft : bytes -> option nft_data.
Variable enc_mt : mt_data -> bytes.
Variable dec_mt : bytes -> option mt_data.

Notation escrow := mt_escrow.
Notation chain := (chain app_state).
Notation mt_of c := (a_mt (c_app app_state c)).
Notation hexec := (hexec Hh H valid_addr nft_escrow mt_escrow enc_nft dec_nft enc_mt dec_mt).
Notation hstep := (hstep Hh H valid_addr nft_escrow mt_escrow enc_nft dec_nft enc_mt dec_mt).
Notation hrun := (hrun Hh H valid_addr nft_escrow mt_escrow enc_nft dec_nft enc_mt dec_mt).

Lemma recv_core_tr st src dst d :
  TraceInv st -> TraceInv (fst (mt_recv_core Hh valid_addr escrow st src dst d)).
Proof.
  intros T. unfold Mt.mt_recv_core.
  destruct (blank (md_sender d) || blank (md_receiver d) || N.eqb (md_amount d) 0); [exact T|].
  destruct (negb (valid_addr (md_receiver d))); [exact T|].
  destruct (md_away d).
  - set (tr := parse_class_trace (away_new_class_path MT_PFX src dst (md_class d))).
    set (st1 := if has (Hh (full_class_path tr)) (ms_traces st) then st else _).
    set (voucher := ibc_class Hh tr).
    set (st2 := if mt_has_class voucher st1 then st1 else mt_issue_class st1 voucher escrow).
    assert (T1 : TraceInv st1).
    { unfold st1. destruct (has _ (ms_traces st)); [exact T|].
      intros h full. cbn [ms_traces]. rewrite lookup_set.
      destruct (beq h (Hh (full_class_path tr))) eqn:B; [|apply T].
      apply beq_spec in B. intros E. inversion E; subst full.
      split; [exact B|].
      destruct (good_raw_parse _ (away_good src dst (md_class d))) as [_ F2]. fold tr in F2.
      rewrite F2. apply away_good. }
    assert (T2 : TraceInv st2).
    { unfold st2. destruct (mt_has_class voucher st1); [exact T1|]. eapply TraceInv_same; [|exact T1]. reflexivity. }
    assert (T3 : TraceInv (fst (if mt_exists st2 voucher (md_id d)
                                then mt_mint st2 voucher (md_id d) (md_amount d) escrow
                                else mt_issue st2 voucher (md_id d) (md_amount d) (md_data d) escrow))).
    { destruct (mt_exists st2 voucher (md_id d)); (eapply TraceInv_same; [|exact T2]);
        [apply mint_tr|apply issue_tr]. }
    destruct (if mt_exists st2 voucher (md_id d) then _ else _) as [st3 ok]. cbn [fst] in T3.
    destruct ok; cbn [negb]; [|exact T3].
    pose proof (transfer_tr st3 voucher (md_id d) (md_amount d) escrow (md_receiver d)) as TT.
    destruct (mt_transfer st3 voucher (md_id d) (md_amount d) escrow (md_receiver d)) as [st4 ok4].
    cbn [fst] in TT. destruct ok4; cbn [fst]; eapply TraceInv_same; eauto.
  - destruct (negb (has_prefix MT_PFX (md_class d))); [exact T|].
    destruct (back_new_class_path (md_class d)) as [np|]; [|exact T].
    pose proof (transfer_tr st (voucher_class Hh np) (md_id d) (md_amount d) escrow (md_receiver d)) as TT.
    destruct (mt_transfer st _ (md_id d) (md_amount d) escrow (md_receiver d)) as [st1 ok].
    cbn [fst] in TT. destruct ok; cbn [fst]; eapply TraceInv_same; eauto.
Qed.

Lemma refund_tr st d st' : mt_refund Hh valid_addr escrow st d = Some st' -> ms_traces st' = ms_traces st.
Proof.
  unfold Mt.mt_refund. destruct (negb (valid_addr (md_sender d))); [discriminate|].
  destruct (md_away d).
  - pose proof (transfer_tr st (voucher_class Hh (md_class d)) (md_id d) (md_amount d) escrow (md_sender d)) as TT.
    destruct (mt_transfer st _ _ _ _ _) as [st1 ok]. destruct ok; [|discriminate]. intros E. inversion E; subst. exact TT.
  - pose proof (mint_tr st (voucher_class Hh (md_class d)) (md_id d) (md_amount d) escrow) as TM.
    destruct (mt_mint st _ _ _ _) as [st1 ok]. destruct ok; [|discriminate]. cbn [fst] in TM.
    pose proof (transfer_tr st1 (voucher_class Hh (md_class d)) (md_id d) (md_amount d) escrow (md_sender d)) as TT.
    destruct (mt_transfer st1 _ _ _ _ _) as [st2 ok]. destruct ok; [|discriminate]. intros E. inversion E; subst.
    cbn [fst] in TT. congruence.
Qed.

Lemma send_tr name seq st cl id s r dest relay k amt st1 p :
  mt_send escrow enc_mt name seq st cl id s r dest relay k amt = Some (st1, p) -> ms_traces st1 = ms_traces st.
Proof.
  unfold Mt.mt_send. intros E.
  destruct (negb (mt_has_class cl st)); [discriminate|].
  destruct (lookup (tkey cl id) (ms_mts st)) as [mdata|]; [|discriminate].
  destruct (beq name dest); [discriminate|].
  destruct (mt_class_path_of st cl) as [full|]; [|discriminate].
  destruct (determine_away MT_PFX full dest) as [away|]; [|discriminate].
  destruct away.
  - pose proof (transfer_tr st cl id amt s escrow) as TT.
    destruct (mt_transfer st cl id amt s escrow) as [st' ok]. destruct ok; [|discriminate].
    inversion E; subst. exact TT.
  - pose proof (burn_tr st cl id amt s) as TT.
    destruct (mt_burn st cl id amt s) as [st' ok]. destruct ok; [|discriminate].
    inversion E; subst. exact TT.
Qed.

Lemma lift_mt_tr (c : chain) r c' ev :
  lift_mt c r = Some (c', ev) -> ms_traces (fst r) = ms_traces (mt_of c) -> ms_traces (mt_of c') = ms_traces (mt_of c).
Proof. unfold lift_mt. destruct r as [st [|]]; [|discriminate]. intros E X. inversion E; subst. exact X. Qed.

Theorem hexec_tr c h c' ev :
  hop_ok h -> TraceInv (mt_of c) -> hexec c h = Some (c', ev) -> TraceInv (mt_of c').
Proof.
  intros OK T E. destruct h as [o|u]; cbn [MtHistory.hexec] in E.
  - destruct o; cbn [hop_ok] in OK; try contradiction;
      try (assert (EA : c_app app_state c' = c_app app_state c)
             by (eapply exec_plain_app; [|exact E]; exact Logic.I); rewrite EA; exact T).
    + cbn [Keeper.exec] in E. apply msg_recv_app in E.
      destruct E as [[EA _]|(_ & _ & a' & oack & ev1 & OR & EA & _ & _)]; [rewrite EA; exact T|].
      rewrite EA. clear EA. unfold App.app_on_recv in OR.
      destruct (beq (p_port p) NFT_PORT).
      { destruct (nft_on_recv _ _ _ _ _ _) as [[st k]|]; [|discriminate]. inversion OR; subst. exact T. }
      destruct (beq (p_port p) MT_PORT).
      { unfold mt_on_recv in OR. destruct (dec_mt (p_data p)) as [d|]; [|discriminate].
        pose proof (recv_core_tr (mt_of c) (p_src p) (p_dst p) d T) as TR.
        destruct (mt_recv_core Hh valid_addr escrow (mt_of c) (p_src p) (p_dst p) d) as [st r].
        destruct r; inversion OR; subst; exact TR. }
      destruct (beq (p_port p) MOCK_PORT); inversion OR; subst. exact T.
    + cbn [Keeper.exec] in E. apply msg_ack_app in E.
      destruct E as [[EA _]|(_ & OA & _)]; [rewrite EA; exact T|].
      unfold App.app_on_ack in OA.
      destruct (beq (p_port p) NFT_PORT).
      { destruct (nft_on_ack _ _ _ _ _ _ _) as [st|]; [|discriminate]. cbn [option_map] in OA.
        injection OA as EQ. rewrite <- EQ. exact T. }
      destruct (beq (p_port p) MT_PORT).
      { unfold mt_on_ack in OA. destruct (negb (is_err_ack ack || is_ok_ack ack)); [discriminate|].
        destruct (dec_mt (p_data p)) as [d|]; [|discriminate].
        destruct (is_err_ack ack).
        - destruct (mt_refund Hh valid_addr escrow (mt_of c) d) as [st'|] eqn:R; [|discriminate].
          cbn [option_map] in OA. injection OA as EQ. rewrite <- EQ. cbn [a_mt].
          eapply TraceInv_same; [|exact T]. eapply refund_tr; eauto.
        - cbn [option_map] in OA. injection OA as EQ. rewrite <- EQ. exact T. }
      destruct (beq (p_port p) MOCK_PORT); [|discriminate]. injection OA as EQ. rewrite <- EQ. exact T.
  - assert (SAME : ms_traces (mt_of c') = ms_traces (mt_of c) -> TraceInv (mt_of c'))
      by (intros X; eapply TraceInv_same; eauto).
    apply SAME. clear SAME.
    destruct u; cbn [App.user_exec] in E.
    + destruct (has_class _ _); [discriminate|]. inversion E; subst. reflexivity.
    + destruct (lookup _ (ns_classes _)) as [[cr rs]|]; [|discriminate].
      destruct (rs && _); [discriminate|].
      unfold lift_nft in E. destruct (nft_mint _ _ _ _ _); [|discriminate]. inversion E; subst. reflexivity.
    + unfold lift_nft in E. destruct (nft_transfer _ _ _ _ _); [|discriminate]. inversion E; subst. reflexivity.
    + unfold lift_nft in E. destruct (nft_burn _ _ _ _); [|discriminate]. inversion E; subst. reflexivity.
    + destruct (nft_send _ _ _ _ _ _ _ _ _ _ _ _) as [[st pkt]|]; [|discriminate].
      apply send_packet_inv in E. destruct E as (_ & _ & _ & _ & ->). reflexivity.
    + destruct (mt_has_class _ _); [discriminate|]. eapply lift_mt_tr; [exact E|]. reflexivity.
    + destruct (N.eqb amt 0); [discriminate|].
      destruct (lookup _ (ms_classes _)) as [owner|]; [|discriminate].
      destruct (negb _); [discriminate|]. destruct (mt_exists _ _ _); [discriminate|].
      eapply lift_mt_tr; [exact E|]. apply issue_tr.
    + destruct (N.eqb amt 0); [discriminate|].
      destruct (lookup _ (ms_classes _)) as [owner|]; [|discriminate].
      destruct (negb _); [discriminate|]. destruct (negb (mt_exists _ _ _)); [discriminate|].
      eapply lift_mt_tr; [exact E|]. apply mint_tr.
    + destruct (N.eqb amt 0); [discriminate|]. eapply lift_mt_tr; [exact E|]. apply transfer_tr.
    + destruct (N.eqb amt 0); [discriminate|]. eapply lift_mt_tr; [exact E|]. apply burn_tr.
    + destruct (mt_send _ _ _ _ _ _ _ _ _ _ _ _ _) as [[st pkt]|] eqn:S; [|discriminate].
      apply send_tr in S. apply send_packet_inv in E. destruct E as (_ & _ & _ & _ & ->). exact S.
Qed.

Theorem hist_tr c hs : Forall hop_ok hs -> TraceInv (mt_of c) -> TraceInv (mt_of (hrun c hs)).
Proof.
  intros OK. revert c. induction OK as [|h r OKh OKr IH]; intros c T; [exact T|].
  rewrite hrun_cons. destruct (hstep c h) as [c1 [ev|]] eqn:ST; cbn [fst].
  - apply hstep_ok in ST. apply IH. eapply hexec_tr; eauto.
  - apply hstep_fail in ST. subst c1. apply IH. exact T.
Qed.

(** * THE REFUND OF A PACKET MIRRORS ITS SEND: same class, id, amount, sender, direction *)
Hypothesis dec_enc : forall x, dec_mt (enc_mt x) = Some x.

Theorem refund_mirrors_send c cl id s r dest relay k amt c' ev :
  MtInv (mt_of c) -> TraceInv (mt_of c) -> class_ok cl ->
  hexec c (HUser (UMtSend cl id s r dest relay k amt)) = Some (c', ev) ->
  exists p d, ev = [ESend p] /\ p_port p = MT_PORT /\ p_src p = c_name app_state c /\ dec_mt (p_data p) = Some d /\
    md_amount d = amt /\
    act_of Hh dec_mt (HUser (UMtSend cl id s r dest relay k amt), ev)
      = (if md_away d then ASendAway cl id amt s else ASendBack cl id amt s) /\
    forall ack pf h ev',
      existsb is_appack ev' = true -> is_err_ack ack = true ->
      act_of Hh dec_mt (HOp (OAck p ack pf h), ev')
        = (if md_away d then ARefundAway cl id amt s else ARefundBack cl id amt s).
Proof.
  intros I T OK E.
  destruct (send_entry_packet Hh H valid_addr nft_escrow escrow enc_nft dec_nft enc_mt dec_mt dec_enc
              _ _ _ _ _ _ _ _ _ _ _ I E)
    as (p & d & -> & D & AO & F1 & F2 & F3 & F4 & F5 & F6 & F7 & F8 & F9 & _).
  exists p, d. split; [reflexivity|]. split; [exact F9|]. split; [exact F7|]. split; [exact D|].
  split; [exact F4|]. split; [exact AO|].
  intros ack pf h ev' AP ER. cbn [MtHistory.act_of fst snd].
  rewrite (ack_accounted Hh dec_mt p ack ev' d AP ER F9 D).
  rewrite (class_path_back _ _ _ T OK F5), F1, F2, F4. reflexivity.
Qed.

End WithParams.
End ClassInv.
