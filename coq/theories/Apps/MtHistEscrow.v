(** C05 over histories, part 2: the escrow account and the voucher supply of one
    chain, in the words of the property.

    From the general ledger equation of Apps/MtHistory.v ([hist_ledger]) we
    derive, for every (class, id):

      escrow balance after  + refunded + released + (escrow named as party, out) + (user, out)
    = escrow balance before + sent away           + (escrow named as party, in)  + (user, in)

      supply after  + burned by back-sends + burned by users
    = supply before + minted by away-receives + minted again by refunds of back-sends + minted by users

    All sums are ghost sums over the log of the history (natural numbers, so the
    equations are exact: nothing wraps), and every balance / supply that occurs
    at any point is at most 2^64-1. *)
From Tibc Require Import Base.Bytes Base.BytesFacts Base.FMap Host.Keys Routing.Rules
  Packet.Types Packet.Keeper Packet.KeeperFacts
  Apps.Path Apps.Nft Apps.Mt Apps.MtFacts Apps.App Apps.AppFacts Apps.MtHistory.
From Coq Require Import ZArith ZifyN ZifyNat ZifyBool.

(** * ghost sums over acts, per (class, id) *)
Definition amt_if (b : bool) (amt : N) : N := if b then amt else 0.

(** units locked by away-sends *)
Definition sent_away (c i : bytes) (a : act) : N :=
  match a with ASendAway c' i' amt _ => amt_if (keq c i c' i') amt | _ => 0 end.
(** units given back to senders by error acknowledgements of away-sends *)
Definition refunded_away (c i : bytes) (a : act) : N :=
  match a with ARefundAway c' i' amt _ => amt_if (keq c i c' i') amt | _ => 0 end.
(** units released by successful back-receives *)
Definition released_back (c i : bytes) (a : act) : N :=
  match a with ARecvBack c' i' amt _ => amt_if (keq c i c' i') amt | _ => 0 end.
(** voucher units minted by successful away-receives *)
Definition minted_recv (c i : bytes) (a : act) : N :=
  match a with ARecvAway c' i' amt _ => amt_if (keq c i c' i') amt | _ => 0 end.
(** voucher units minted again by error acknowledgements of back-sends *)
Definition reminted_refund (c i : bytes) (a : act) : N :=
  match a with ARefundBack c' i' amt _ => amt_if (keq c i c' i') amt | _ => 0 end.
(** voucher units burned by back-sends *)
Definition burned_back (c i : bytes) (a : act) : N :=
  match a with ASendBack c' i' amt _ => amt_if (keq c i c' i') amt | _ => 0 end.
(** MsgMintMT / MsgBurnMT *)
Definition user_minted (c i : bytes) (a : act) : N :=
  match a with AUMint c' i' amt _ => amt_if (keq c i c' i') amt | _ => 0 end.
Definition user_burned (c i : bytes) (a : act) : N :=
  match a with AUBurn c' i' amt _ => amt_if (keq c i c' i') amt | _ => 0 end.

Section Escrow.
Variable escrow : bytes.

(** packets that name the escrow address itself as receiver (receives) or as
    sender (refunds): the units end in the escrow account *)
Definition party_in (c i : bytes) (a : act) : N :=
  match a with
  | ARecvAway c' i' amt r | ARecvBack c' i' amt r => amt_if (keq c i c' i' && beq escrow r) amt
  | ARefundAway c' i' amt s | ARefundBack c' i' amt s => amt_if (keq c i c' i' && beq escrow s) amt
  | _ => 0
  end.
(** sends signed by the escrow address itself: the units leave the escrow account *)
Definition party_out (c i : bytes) (a : act) : N :=
  match a with
  | ASendAway c' i' amt s | ASendBack c' i' amt s => amt_if (keq c i c' i' && beq escrow s) amt
  | _ => 0
  end.
(** user mints / moves to the escrow address, user moves / burns by the escrow address *)
Definition user_in (c i : bytes) (a : act) : N :=
  match a with
  | AUMint c' i' amt r => amt_if (keq c i c' i' && beq escrow r) amt
  | AUMove c' i' amt _ t => amt_if (keq c i c' i' && beq escrow t) amt
  | _ => 0
  end.
Definition user_out (c i : bytes) (a : act) : N :=
  match a with
  | AUMove c' i' amt f _ => amt_if (keq c i c' i' && beq escrow f) amt
  | AUBurn c' i' amt w => amt_if (keq c i c' i' && beq escrow w) amt
  | _ => 0
  end.

(** no party of the act is the escrow address *)
Definition act_clean (a : act) : Prop :=
  match a with
  | ASendAway _ _ _ x | ASendBack _ _ _ x | ARecvAway _ _ _ x | ARecvBack _ _ _ x
  | ARefundAway _ _ _ x | ARefundBack _ _ _ x | AUMint _ _ _ x | AUBurn _ _ _ x => x <> escrow
  | AUMove _ _ _ f t => f <> escrow /\ t <> escrow
  | ANone => True
  end.

Lemma beq_neq_false a b : b <> a -> beq a b = false.
Proof. intros N. apply beq_false. congruence. Qed.

Lemma act_clean_zero c i a :
  act_clean a -> party_in c i a = 0 /\ party_out c i a = 0 /\ user_in c i a = 0 /\ user_out c i a = 0.
Proof.
  destruct a; cbn [act_clean party_in party_out user_in user_out]; intros CL; repeat split;
    try reflexivity;
    try (rewrite (beq_neq_false _ _ CL), andb_false_r; reflexivity);
    destruct CL as [C1 C2];
    try (rewrite (beq_neq_false _ _ C1), andb_false_r; reflexivity);
    try (rewrite (beq_neq_false _ _ C2), andb_false_r; reflexivity).
Qed.

(** one act, the escrow account *)
Lemma act_escrow c i a :
  sumf (mv_in escrow c i) (moves_of escrow a)
    + refunded_away c i a + released_back c i a + party_out c i a + user_out c i a
  = sumf (mv_out escrow c i) (moves_of escrow a)
    + sent_away c i a + party_in c i a + user_in c i a.
Proof.
  destruct a; cbn [moves_of sumf mv_in mv_out sent_away refunded_away released_back
                   party_in party_out user_in user_out]; unfold amt_if; rewrite ?beq_refl, ?andb_true_r;
    try match goal with |- context [keq c i ?c' ?i'] => destruct (keq c i c' i') end;
    cbn [andb];
    repeat match goal with |- context [beq escrow ?x] => destruct (beq escrow x) end; lia.
Qed.

(** one act, the supply *)
Lemma act_supply c i a :
  sumf (mv_sin c i) (moves_of escrow a) = minted_recv c i a + reminted_refund c i a + user_minted c i a /\
  sumf (mv_sout c i) (moves_of escrow a) = burned_back c i a + user_burned c i a.
Proof.
  destruct a; cbn [moves_of sumf mv_sin mv_sout minted_recv reminted_refund user_minted burned_back user_burned];
    unfold amt_if; split; lia.
Qed.

Lemma sum_acts_escrow c i (l : list act) :
  sumf (mv_in escrow c i) (concat (map (moves_of escrow) l))
    + sumf (refunded_away c i) l + sumf (released_back c i) l + sumf (party_out c i) l + sumf (user_out c i) l
  = sumf (mv_out escrow c i) (concat (map (moves_of escrow) l))
    + sumf (sent_away c i) l + sumf (party_in c i) l + sumf (user_in c i) l.
Proof.
  induction l as [|a l IH]; [reflexivity|].
  cbn [map concat sumf]. rewrite !sumf_app. pose proof (act_escrow c i a). lia.
Qed.

Lemma sum_acts_supply c i (l : list act) :
  sumf (mv_sin c i) (concat (map (moves_of escrow) l))
    = sumf (minted_recv c i) l + sumf (reminted_refund c i) l + sumf (user_minted c i) l /\
  sumf (mv_sout c i) (concat (map (moves_of escrow) l)) = sumf (burned_back c i) l + sumf (user_burned c i) l.
Proof.
  induction l as [|a l [IH1 IH2]]; [split; reflexivity|].
  cbn [map concat sumf]. rewrite !sumf_app. destruct (act_supply c i a) as [A1 A2]. split; lia.
Qed.

Lemma sum_clean_zero (f : bytes -> bytes -> act -> N) c i l :
  (forall a, act_clean a -> f c i a = 0) -> Forall act_clean l -> sumf (f c i) l = 0.
Proof.
  intros Z F. apply sumf_zero. intros a Ha. apply Z. rewrite Forall_forall in F. apply F. exact Ha.
Qed.

End Escrow.

(** * histories *)
Section HistEscrow.
Variable Hh : bytes -> bytes.
Variable H : bytes -> bytes.
Variable valid_addr : bytes -> bool.
Variable nft_escrow mt_escrow : bytes.
Variable enc_nft : nft_data -> bytes.
Variable dec_nft : bytes -> option nft_data.
Variable enc_mt : mt_data -> bytes.
Variable dec_mt : bytes -> option mt_data.
Hypothesis dec_enc : forall x, dec_mt (enc_mt x) = Some x.

Notation escrow := mt_escrow.
Notation chain := (chain app_state).
Notation mt_of c := (a_mt (c_app app_state c)).
Notation hrun := (hrun Hh H valid_addr nft_escrow mt_escrow enc_nft dec_nft enc_mt dec_mt).
Notation hlog := (hlog Hh H valid_addr nft_escrow mt_escrow enc_nft dec_nft enc_mt dec_mt).
Notation hacts := (hacts Hh H valid_addr nft_escrow mt_escrow enc_nft dec_nft enc_mt dec_mt).
Notation hmoves := (hmoves Hh H valid_addr nft_escrow mt_escrow enc_nft dec_nft enc_mt dec_mt).

(** ESCROW ACCOUNTING, every input *)
Theorem escrow_accounting (c : chain) hs cl id :
  Forall hop_ok hs -> MtInv (mt_of c) ->
  let A := hacts c hs in
  bal_of (mt_of (hrun c hs)) escrow cl id
    + sumf (refunded_away cl id) A + sumf (released_back cl id) A
    + sumf (party_out escrow cl id) A + sumf (user_out escrow cl id) A
  = bal_of (mt_of c) escrow cl id
    + sumf (sent_away cl id) A + sumf (party_in escrow cl id) A + sumf (user_in escrow cl id) A
  /\ bal_of (mt_of (hrun c hs)) escrow cl id <= u64max.
Proof.
  intros OK I A.
  destruct (hist_ledger Hh H valid_addr nft_escrow mt_escrow enc_nft dec_nft enc_mt dec_mt dec_enc c hs OK I)
    as [I' [LB _]].
  specialize (LB escrow cl id). unfold MtHistory.hmoves in LB. fold A in LB.
  pose proof (sum_acts_escrow escrow cl id A) as S.
  split; [lia|].
  pose proof (bal_le_supply _ escrow cl id I'). destruct (I' cl id) as (_ & _ & SM). lia.
Qed.

(** VOUCHER SUPPLY ACCOUNTING (any class, in particular every voucher class) *)
Theorem supply_accounting (c : chain) hs cl id :
  Forall hop_ok hs -> MtInv (mt_of c) ->
  let A := hacts c hs in
  supply_of (mt_of (hrun c hs)) cl id + sumf (burned_back cl id) A + sumf (user_burned cl id) A
  = supply_of (mt_of c) cl id
    + sumf (minted_recv cl id) A + sumf (reminted_refund cl id) A + sumf (user_minted cl id) A
  /\ supply_of (mt_of (hrun c hs)) cl id <= u64max.
Proof.
  intros OK I A.
  destruct (hist_ledger Hh H valid_addr nft_escrow mt_escrow enc_nft dec_nft enc_mt dec_mt dec_enc c hs OK I)
    as [I' [_ LS]].
  specialize (LS cl id). unfold MtHistory.hmoves in LS. fold A in LS.
  destruct (sum_acts_supply escrow cl id A) as [S1 S2].
  split; [lia|]. destruct (I' cl id) as (_ & _ & SM). exact SM.
Qed.

(** when no act names the escrow address as a party, the explicit terms vanish *)
Theorem escrow_accounting_clean (c : chain) hs cl id :
  Forall hop_ok hs -> MtInv (mt_of c) -> Forall (act_clean escrow) (hacts c hs) ->
  let A := hacts c hs in
  bal_of (mt_of (hrun c hs)) escrow cl id + sumf (refunded_away cl id) A + sumf (released_back cl id) A
  = bal_of (mt_of c) escrow cl id + sumf (sent_away cl id) A.
Proof.
  intros OK I CL A. destruct (escrow_accounting c hs cl id OK I) as [E _]. fold A in E.
  rewrite (sum_clean_zero escrow (party_in escrow)) in E by (first [exact CL | intros a Ha; apply act_clean_zero; exact Ha]).
  rewrite (sum_clean_zero escrow (party_out escrow)) in E by (first [exact CL | intros a Ha; apply act_clean_zero; exact Ha]).
  rewrite (sum_clean_zero escrow (user_in escrow)) in E by (first [exact CL | intros a Ha; apply act_clean_zero; exact Ha]).
  rewrite (sum_clean_zero escrow (user_out escrow)) in E by (first [exact CL | intros a Ha; apply act_clean_zero; exact Ha]).
  lia.
Qed.

End HistEscrow.
