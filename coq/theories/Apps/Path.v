(** Class-path string arithmetic of the NFT / MT transfer applications
    (apps/*/keeper/relay.go determineAwayFromOrigin, getAwayNewClassPath,
    getBackNewClassPath; types/trace.go ParseClassTrace, IBCClass), byte-exact.
    [None] models a Go index-out-of-range panic. *)
From Tibc Require Import Base.Bytes.

Definition tibc_dash : bytes := of_string "tibc-".   (* CLASSPREFIX *)

Section Path.
Variable PFX : bytes.                 (* CLASSPATHPREFIX: "nft" or "mt" *)
Variable Hh : bytes -> bytes.         (* upper-case hex of sha256 *)

Definition prefixed_path (class : bytes) : bool := has_prefix PFX class && contains slash class.

(** strings.Split(class, "/")[len-3] != destChain *)
Definition determine_away (class dest : bytes) : option bool :=
  if negb (has_prefix PFX class) || (has_prefix PFX class && negb (contains slash class)) then Some true
  else
    let sp := split slash class in
    if Nat.ltb (length sp) 3 then None
    else match nth_error sp (length sp - 3) with
         | Some x => Some (negb (beq x dest))
         | None => None
         end.

Definition concat_class_path (src dst class : bytes) : bytes :=
  PFX ++ slash :: src ++ slash :: dst ++ slash :: class.

Definition away_new_class_path (src dst class : bytes) : bytes :=
  if prefixed_path class then
    let sp := split slash class in
    join [slash] (removelast sp ++ [dst] ++ [last sp []])
  else concat_class_path src dst class.

(** [None]: slicing classSplit[:len-2] with len < 2 panics *)
Definition back_new_class_path (class : bytes) : option bytes :=
  let sp := split slash class in
  if Nat.eqb (length sp) 4 then Some (last sp [])
  else if Nat.ltb (length sp) 2 then None
  else Some (join [slash] (firstn (length sp - 2) sp ++ [last sp []])).

(** ParseClassTrace: (path, base class) *)
Definition parse_class_trace (raw : bytes) : bytes * bytes :=
  let sp := split slash raw in
  if beq (hd [] sp) raw then ([], raw)
  else (join [slash] (removelast sp), last sp []).

Definition full_class_path (t : bytes * bytes) : bytes :=
  match fst t with [] => snd t | _ => fst t ++ slash :: snd t end.

Definition ibc_class (t : bytes * bytes) : bytes :=
  match fst t with
  | [] => snd t
  | _ => tibc_dash ++ Hh (full_class_path t)
  end.

(** voucher class for a full class path *)
Definition voucher_class (path : bytes) : bytes := ibc_class (parse_class_trace path).

End Path.
