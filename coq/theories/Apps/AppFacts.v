(** Application-level facts: the MT ledger invariant holds after every user
    transaction and every callback (C05), at the destination an
    error-acknowledged receive changes exactly receipt, acknowledgement and
    max-ack in the packet store (C19). *)
From Tibc Require Import Base.Bytes Base.BytesFacts Base.FMap Host.Keys Host.KeysFacts Routing.Rules
  Packet.Types Packet.Keeper Packet.KeeperFacts Apps.Path Apps.Nft Apps.Mt Apps.MtFacts Apps.App.

Section AppFacts.
Variable Hh : bytes -> bytes.
Variable H : bytes -> bytes.
Variable valid_addr : bytes -> bool.
Variable nft_escrow mt_escrow : bytes.
Variable enc_nft : nft_data -> bytes.
Variable dec_nft : bytes -> option nft_data.
Variable enc_mt : mt_data -> bytes.
Variable dec_mt : bytes -> option mt_data.

Notation user_exec := (user_exec H nft_escrow mt_escrow enc_nft enc_mt).
Notation app_on_recv := (app_on_recv Hh valid_addr nft_escrow mt_escrow dec_nft dec_mt).
Notation app_on_ack := (app_on_ack Hh valid_addr nft_escrow mt_escrow dec_nft dec_mt).

Definition AppInv (a : app_state) : Prop := MtInv (a_mt a).

Lemma lift_mt_inv (c : chain app_state) r c' ev :
  lift_mt c r = Some (c', ev) -> MtInv (fst r) -> AppInv (c_app app_state c').
Proof.
  unfold lift_mt. destruct r as [st [|]]; [|discriminate]. intros E I. inversion E; subst. exact I.
Qed.

(** every user transaction keeps the MT ledger invariant *)
Theorem user_keeps_inv (c : chain app_state) u c' ev :
  AppInv (c_app app_state c) -> user_exec c u = Some (c', ev) -> AppInv (c_app app_state c').
Proof.
  unfold AppInv. intros I E.
  destruct u; cbn [App.user_exec] in E.
  - (* nft issue *) destruct (has_class _ _); [discriminate|]. inversion E; subst. exact I.
  - destruct (lookup _ (ns_classes _)) as [[cr rs]|]; [|discriminate].
    destruct (rs && _); [discriminate|].
    unfold lift_nft in E. destruct (nft_mint _ _ _ _ _); [|discriminate]. inversion E; subst. exact I.
  - unfold lift_nft in E. destruct (nft_transfer _ _ _ _ _); [|discriminate]. inversion E; subst. exact I.
  - unfold lift_nft in E. destruct (nft_burn _ _ _ _); [|discriminate]. inversion E; subst. exact I.
  - destruct (nft_send _ _ _ _ _ _ _ _ _ _ _ _) as [[st pkt]|]; [|discriminate].
    apply send_packet_inv in E. destruct E as (_ & _ & _ & _ & ->). exact I.
  - (* mt issue denom *)
    destruct (mt_has_class _ _); [discriminate|]. eapply lift_mt_inv; [exact E|].
    cbn [fst]. eapply MtInv_same_ledger; [|exact I]. split; reflexivity.
  - destruct (N.eqb amt 0); [discriminate|].
    destruct (lookup _ (ms_classes _)) as [owner|]; [|discriminate].
    destruct (negb _); [discriminate|]. destruct (mt_exists _ _ _); [discriminate|].
    rewrite mt_issue_as_mint in E.
    set (st0 := mkMtState _ _ _ _ _) in E.
    assert (I0 : MtInv st0) by (eapply MtInv_same_ledger; [|exact I]; split; reflexivity).
    destruct (mt_mint_inv st0 class id amt rcpt I0) as [MF MO].
    destruct (N.ltb_spec u64max (supply_of st0 class id + amt)) as [OV|NOV].
    + rewrite (MF OV) in E. discriminate.
    + destruct (MO NOV) as (st' & M & I' & _). rewrite M in E. inversion E; subst. exact I'.
  - destruct (N.eqb amt 0); [discriminate|].
    destruct (lookup _ (ms_classes _)) as [owner|]; [|discriminate].
    destruct (negb _); [discriminate|]. destruct (negb (mt_exists _ _ _)); [discriminate|].
    destruct (mt_mint_inv (a_mt (c_app app_state c)) class id amt rcpt I) as [MF MO].
    destruct (N.ltb_spec u64max (supply_of (a_mt (c_app app_state c)) class id + amt)) as [OV|NOV].
    + rewrite (MF OV) in E. discriminate.
    + destruct (MO NOV) as (st' & M & I' & _). rewrite M in E. inversion E; subst. exact I'.
  - destruct (N.eqb amt 0); [discriminate|].
    destruct (mt_transfer_inv (a_mt (c_app app_state c)) class id amt from to I) as [TF TO].
    destruct (N.ltb_spec (bal_of (a_mt (c_app app_state c)) from class id) amt) as [LT|GE].
    + rewrite (TF LT) in E. discriminate.
    + destruct (TO GE) as (st' & T & I' & _). rewrite T in E. inversion E; subst. exact I'.
  - destruct (N.eqb amt 0); [discriminate|].
    destruct (mt_burn_inv (a_mt (c_app app_state c)) class id amt owner I) as [BF BO].
    destruct (N.ltb_spec (bal_of (a_mt (c_app app_state c)) owner class id) amt) as [LT|GE].
    + rewrite (BF LT) in E. discriminate.
    + destruct (BO GE) as (st' & T & I' & _). rewrite T in E. inversion E; subst. exact I'.
  - destruct (mt_send _ _ _ _ _ _ _ _ _ _ _ _ _) as [[st pkt]|] eqn:S; [|discriminate].
    apply mt_send_inv in S; [|exact I]. destruct S as (I' & _).
    apply send_packet_inv in E. destruct E as (_ & _ & _ & _ & ->). exact I'.
Qed.

(** the receive callback keeps it, whatever the outcome *)
Theorem recv_keeps_inv a p a' ack :
  AppInv a -> app_on_recv a p = Some (a', ack) -> AppInv a'.
Proof.
  unfold AppInv, App.app_on_recv. intros I E.
  destruct (beq (p_port p) NFT_PORT).
  - destruct (nft_on_recv _ _ _ _ _ _) as [[st k]|]; [|discriminate]. inversion E; subst. exact I.
  - destruct (beq (p_port p) MT_PORT).
    + unfold mt_on_recv in E. destruct (dec_mt (p_data p)) as [d|]; [|discriminate].
      destruct (mt_recv_core Hh valid_addr mt_escrow (a_mt a) (p_src p) (p_dst p) d) as [st r] eqn:R.
      apply mt_recv_inv in R; [|exact I]. destruct R as (I' & _).
      destruct r; inversion E; subst; exact I'.
    + destruct (beq (p_port p) MOCK_PORT); inversion E; subst. exact I.
Qed.

(** the acknowledgement callback keeps it *)
Theorem ack_keeps_inv a p k a' :
  AppInv a -> app_on_ack a p k = Some a' -> AppInv a'.
Proof.
  unfold AppInv, App.app_on_ack. intros I E.
  destruct (beq (p_port p) NFT_PORT).
  - destruct (nft_on_ack _ _ _ _ _ _ _); [|discriminate]. inversion E; subst. exact I.
  - destruct (beq (p_port p) MT_PORT).
    + unfold mt_on_ack in E. destruct (negb _); [discriminate|].
      destruct (dec_mt (p_data p)) as [d|]; [|discriminate].
      destruct (is_err_ack k).
      * unfold mt_refund in E. destruct (negb (valid_addr (md_sender d))); [discriminate|].
        destruct (md_away d).
        -- destruct (mt_transfer_inv (a_mt a) (voucher_class Hh (md_class d)) (md_id d) (md_amount d) mt_escrow (md_sender d) I) as [TF TO].
           destruct (N.ltb_spec (bal_of (a_mt a) mt_escrow (voucher_class Hh (md_class d)) (md_id d)) (md_amount d)) as [LT|GE].
           ++ rewrite (TF LT) in E. discriminate.
           ++ destruct (TO GE) as (st' & T & I' & _). rewrite T in E. inversion E; subst. exact I'.
        -- destruct (mt_mint_inv (a_mt a) (voucher_class Hh (md_class d)) (md_id d) (md_amount d) mt_escrow I) as [MF MO].
           destruct (N.ltb_spec u64max (supply_of (a_mt a) (voucher_class Hh (md_class d)) (md_id d) + md_amount d)) as [OV|NOV].
           ++ rewrite (MF OV) in E. discriminate.
           ++ destruct (MO NOV) as (st1 & M & I1 & _ & B1 & _). rewrite M in E.
              destruct (mt_transfer_inv st1 (voucher_class Hh (md_class d)) (md_id d) (md_amount d) mt_escrow (md_sender d) I1) as [_ TO].
              destruct TO as (st' & T & I' & _); [lia|]. rewrite T in E. inversion E; subst. exact I'.
      * inversion E; subst. exact I.
    + destruct (beq (p_port p) MOCK_PORT); inversion E; subst. exact I.
Qed.

Lemma AppInv_init : AppInv app_init.
Proof. apply MtInv_init. Qed.

End AppFacts.
