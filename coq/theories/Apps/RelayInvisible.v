(** C11: a relay chain is invisible to the applications.  The token modules'
    callbacks never look at the relay field of a packet, and what a transfer
    does to the sender's ledger does not depend on the relay chosen: together
    with Packet/Relay.transit_no_app_logic (a relay chain runs no application
    logic) the token states of source and destination after a relayed transfer
    equal those after the direct one, for success and error outcomes alike. *)
From Tibc Require Import Base.Bytes Base.FMap Host.Keys Routing.Rules Packet.Types Packet.Keeper
  Apps.Path Apps.Nft Apps.Mt Apps.App.

Definition set_relay (p : packet) (r : bytes) : packet :=
  mkPacket (p_seq p) (p_src p) (p_dst p) r (p_port p) (p_data p).

Section RelayInvisible.
Variable Hh : bytes -> bytes.
Variable valid_addr : bytes -> bool.
Variable nft_escrow mt_escrow : bytes.
Variable enc_nft : nft_data -> bytes.
Variable dec_nft : bytes -> option nft_data.
Variable enc_mt : mt_data -> bytes.
Variable dec_mt : bytes -> option mt_data.

Lemma on_recv_ignores_relay a p r :
  app_on_recv Hh valid_addr nft_escrow mt_escrow dec_nft dec_mt a (set_relay p r) =
  app_on_recv Hh valid_addr nft_escrow mt_escrow dec_nft dec_mt a p.
Proof. destruct p. reflexivity. Qed.

Lemma on_ack_ignores_relay a p r ack :
  app_on_ack Hh valid_addr nft_escrow mt_escrow dec_nft dec_mt a (set_relay p r) ack =
  app_on_ack Hh valid_addr nft_escrow mt_escrow dec_nft dec_mt a p ack.
Proof. destruct p. reflexivity. Qed.

(** sending: the ledger effect is the same for every relay; the packets differ
    in the relay field only *)
Lemma nft_send_relay name seq st class id sender receiver dest relay contract :
  match nft_send nft_escrow enc_nft name seq st class id sender receiver dest relay contract,
        nft_send nft_escrow enc_nft name seq st class id sender receiver dest [] contract with
  | Some (st1, p1), Some (st2, p2) => st1 = st2 /\ p1 = set_relay p2 relay
  | None, None => True
  | _, _ => False
  end.
Proof.
  unfold nft_send.
  destruct (negb (has_class class st)); [exact I|].
  destruct (token_at st class id) as [[o uri]|]; [|exact I].
  destruct (beq name dest); [exact I|].
  destruct (class_path_of st class) as [full|]; [|exact I].
  destruct (determine_away _ full dest) as [aw|]; [|exact I].
  destruct (if aw then nft_transfer st class id sender nft_escrow else nft_burn st class id sender); [|exact I].
  split; reflexivity.
Qed.

Lemma mt_send_relay name seq st class id sender receiver dest relay contract amt :
  match mt_send mt_escrow enc_mt name seq st class id sender receiver dest relay contract amt,
        mt_send mt_escrow enc_mt name seq st class id sender receiver dest [] contract amt with
  | Some (st1, p1), Some (st2, p2) => st1 = st2 /\ p1 = set_relay p2 relay
  | None, None => True
  | _, _ => False
  end.
Proof.
  unfold mt_send.
  destruct (negb (mt_has_class class st)); [exact I|].
  destruct (lookup (tkey class id) (ms_mts st)) as [mdata|]; [|exact I].
  destruct (beq name dest); [exact I|].
  destruct (mt_class_path_of st class) as [full|]; [|exact I].
  destruct (determine_away _ full dest) as [aw|]; [|exact I].
  destruct (if aw then mt_transfer st class id amt sender mt_escrow else mt_burn st class id amt sender) as [st' [|]]; [|exact I].
  split; reflexivity.
Qed.

End RelayInvisible.
