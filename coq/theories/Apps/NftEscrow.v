(** C04 over histories, part 3: the escrow account as a set computed from the
    history alone (ghost accounting), and the exclusion "held by a user on this
    chain" versus "locked in escrow / burned for a packet in flight". *)
From Tibc Require Import Base.Bytes Base.BytesFacts Base.FMap Host.Keys Host.KeysFacts Routing.Rules
  Packet.Types Packet.Keeper Packet.KeeperFacts Apps.Path Apps.PathFacts Apps.Nft Apps.NftFacts
  Apps.Mt Apps.App Apps.NftHistory Apps.NftHistoryThm.

Definition tok := (bytes * bytes)%type.        (* (class, id) *)

Definition tok_eqb (a b : tok) : bool := beq (fst a) (fst b) && beq (snd a) (snd b).

Lemma tok_eqb_spec a b : tok_eqb a b = true <-> a = b.
Proof.
  destruct a as [a1 a2], b as [b1 b2]. unfold tok_eqb. cbn [fst snd]. rewrite andb_true_iff, !beq_spec.
  split; [intros [-> ->]; reflexivity|intros E; inversion E; auto].
Qed.

(** what one step does to the escrow set *)
Inductive delta := DNone | DIn (t : tok) | DOut (t : tok).

Definition apply_delta (E : list tok) (d : delta) : list tok :=
  match d with
  | DNone => E
  | DIn t => t :: E
  | DOut t => filter (fun x => negb (tok_eqb x t)) E
  end.

Definition delta_mem (d : delta) (t : tok) (before : Prop) : Prop :=
  match d with
  | DNone => before
  | DIn t0 => t = t0 \/ before
  | DOut t0 => t <> t0 /\ before
  end.

Lemma apply_delta_in E d t : In t (apply_delta E d) <-> delta_mem d t (In t E).
Proof.
  destruct d as [|t0|t0]; cbn [apply_delta delta_mem].
  - tauto.
  - cbn [In]. split; intros [X|X]; auto.
  - rewrite filter_In, negb_true_iff. split.
    + intros [I N]. split; [|exact I]. intros ->.
      assert (X : tok_eqb t0 t0 = true) by (apply tok_eqb_spec; reflexivity). congruence.
    + intros [N I]. split; [exact I|]. destruct (tok_eqb t t0) eqn:B; [|reflexivity].
      apply tok_eqb_spec in B. contradiction.
Qed.

Ltac beq_case B :=
  match type of B with
  | beq _ _ = true => apply beq_spec in B
  | beq _ _ = false => apply beq_false in B
  end.

Section NftEscrow.
Variable Hh : bytes -> bytes.
Variable H : bytes -> bytes.
Variable valid_addr : bytes -> bool.
Variable nft_escrow mt_escrow : bytes.
Variable enc_nft : nft_data -> bytes.
Variable dec_nft : bytes -> option nft_data.
Variable enc_mt : mt_data -> bytes.
Variable dec_mt : bytes -> option mt_data.

Notation chain := (chain app_state).
Notation escrow := nft_escrow.
Notation hexec := (hexec Hh H valid_addr nft_escrow mt_escrow enc_nft dec_nft enc_mt dec_mt).
Notation hrun := (hrun Hh H valid_addr nft_escrow mt_escrow enc_nft dec_nft enc_mt dec_mt).
Notation hlog := (hlog Hh H valid_addr nft_escrow mt_escrow enc_nft dec_nft enc_mt dec_mt).
Notation htrace := (htrace Hh H valid_addr nft_escrow mt_escrow enc_nft dec_nft enc_mt dec_mt).
Notation cause_of := (cause_of Hh nft_escrow dec_nft).
Notation explained := (explained Hh nft_escrow dec_nft).
Notation is_recv_away := (is_recv_away Hh dec_nft).
Notation is_recv_back := (is_recv_back Hh dec_nft).
Notation is_refund_away := (is_refund_away Hh dec_nft).
Notation is_refund_back := (is_refund_back Hh dec_nft).
Notation is_own_send := is_own_send.
Notation no_escrow_sig := (no_escrow_sig nft_escrow).
Notation good := (good nft_escrow).

(** ** 3. escrow accounting *)

(** the escrow delta of a cause: a token enters when it is moved to / created
    for the escrow account, leaves when it is moved away from / destroyed at it *)
Definition esc_delta (k : cause) : delta :=
  match k with
  | KNone => DNone
  | KCreate _ class id owner _ => if beq owner escrow then DIn (class, id) else DNone
  | KMove _ class id from to =>
      if beq to escrow then DIn (class, id)
      else if beq from escrow then DOut (class, id) else DNone
  | KDestroy _ class id owner => if beq owner escrow then DOut (class, id) else DNone
  end.

(** the escrow set after a history, computed from the operations, their events
    and the decoded packet data only *)
Fixpoint esc_ghost (E : list tok) (c : chain) (hs : list hop) : list tok :=
  match hs with
  | [] => E
  | h :: r =>
      match hexec c h with
      | Some (c', ev) => esc_ghost (apply_delta E (esc_delta (cause_of c h ev))) c' r
      | None => esc_ghost E c r
      end
  end.

Definition in_escrow (st : nft_state) (t : tok) : Prop := owner_of st (fst t) (snd t) = Some escrow.

Lemma upd_escrow st st' cl i b a t :
  upd_at st st' cl i b a ->
  (t = (cl, i) /\ (in_escrow st t <-> option_map fst b = Some escrow) /\
                  (in_escrow st' t <-> option_map fst a = Some escrow)) \/
  (t <> (cl, i) /\ (in_escrow st' t <-> in_escrow st t)).
Proof.
  intros (B & A & F). destruct t as [c0 i0]. destruct (tok_eq_dec (c0, i0) (cl, i)) as [Eq|Ne].
  - left. split; [exact Eq|]. inversion Eq; subst c0 i0. unfold in_escrow, owner_of. cbn [fst snd].
    rewrite A, B. tauto.
  - right. split; [exact Ne|]. unfold in_escrow, owner_of. cbn [fst snd]. rewrite (F _ _ Ne). tauto.
Qed.

Lemma effect_escrow k st st' t :
  effect k st st' -> (in_escrow st' t <-> delta_mem (esc_delta k) t (in_escrow st t)).
Proof.
  intros Ef. destruct k as [|w cl i o u|w cl i fr to|w cl i o]; cbn [effect esc_delta] in *.
  - cbn [delta_mem]. unfold in_escrow, owner_of. rewrite Ef. tauto.
  - destruct (upd_escrow _ _ _ _ _ _ t Ef) as [(Eq & I0 & I1)|(Ne & I)]; cbn [option_map fst] in *;
      destruct (beq o escrow) eqn:Bo; cbn [delta_mem];
      beq_case Bo.
    + subst o. rewrite I1. split; auto.
    + rewrite I1, I0. split; [intros X; inversion X; contradiction|discriminate].
    + rewrite I. split; [auto|]. intros [X|X]; [contradiction|exact X].
    + exact I.
  - destruct Ef as (uri & Ef).
    destruct (upd_escrow _ _ _ _ _ _ t Ef) as [(Eq & I0 & I1)|(Ne & I)]; cbn [option_map fst] in *;
      destruct (beq to escrow) eqn:Bt; beq_case Bt;
      cbn [delta_mem].
    + subst to. rewrite I1. split; auto.
    + destruct (beq fr escrow) eqn:Bf; beq_case Bf; cbn [delta_mem].
      * rewrite I1. split; [intros X; inversion X; contradiction|]. intros [X _]. contradiction.
      * rewrite I1, I0. split; [intros X; inversion X; contradiction|intros X; inversion X; contradiction].
    + rewrite I. split; [auto|]. intros [X|X]; [contradiction|exact X].
    + destruct (beq fr escrow); cbn [delta_mem]; rewrite I; tauto.
  - destruct Ef as (uri & Ef).
    destruct (upd_escrow _ _ _ _ _ _ t Ef) as [(Eq & I0 & I1)|(Ne & I)]; cbn [option_map fst] in *;
      destruct (beq o escrow) eqn:Bo; cbn [delta_mem].
    + rewrite I1. split; [discriminate|]. intros [X _]. contradiction.
    + rewrite I1, I0. apply beq_false in Bo. split; [discriminate|]. intros X; inversion X; contradiction.
    + rewrite I. tauto.
    + exact I.
Qed.

(** the set of tokens the escrow account owns after any history is exactly the
    ghost set: those before, plus what the history's steps put in, minus what
    they took out *)
Theorem escrow_accounting hs : forall c E,
  Forall not_setapp hs ->
  (forall t, In t E <-> in_escrow (nft_of c) t) ->
  forall t, In t (esc_ghost E c hs) <-> in_escrow (nft_of (hrun c hs)) t.
Proof.
  induction hs as [|h r IH]; intros c E G I0 t; [apply I0|].
  inversion G as [|? ? NS Gr]; subst. cbn [esc_ghost].
  destruct (hexec c h) as [[c' ev]|] eqn:Ex.
  - rewrite (hrun_ok _ _ _ _ _ _ _ _ _ _ _ _ _ _ Ex). apply IH; [exact Gr|].
    intros t0. rewrite apply_delta_in.
    pose proof (step_effect _ _ _ _ _ _ _ _ _ _ _ _ _ Ex NS) as Ef.
    rewrite (effect_escrow _ _ _ t0 Ef).
    destruct (esc_delta (cause_of c h ev)); cbn [delta_mem]; rewrite I0; tauto.
  - rewrite (hrun_fail _ _ _ _ _ _ _ _ _ _ _ _ Ex). apply IH; assumption.
Qed.

(** what the ghost's terms are, in terms of operations and events.  A token
    LEAVES the escrow set only by a successful back-receive of its class path or
    by the refund of an away-send (given that the escrow account signs nothing) *)
Lemma esc_delta_out c h ev t :
  no_escrow_sig h -> esc_delta (cause_of c h ev) = DOut t ->
  exists to, to <> escrow /\
    (is_recv_back h ev (fst t) (snd t) to \/ is_refund_away h ev (fst t) (snd t) to).
Proof using Hh nft_escrow dec_nft.
  intros NE D. pose proof (cause_of_explained Hh nft_escrow dec_nft c h ev) as X.
  destruct (cause_of c h ev) as [|w cl i o u|w cl i fr to|w cl i o]; cbn [esc_delta] in D.
  - discriminate.
  - destruct (beq o escrow); discriminate.
  - destruct (beq to escrow) eqn:Bt; [discriminate|]. apply beq_false in Bt.
    destruct (beq fr escrow) eqn:Bf; [|discriminate]. apply beq_spec in Bf. subst fr.
    inversion D; subst t. cbn [fst snd]. exists to. split; [exact Bt|].
    destruct w; cbn [NftHistoryThm.explained] in X; try solve [destruct X].
    + subst h. exfalso. apply NE. reflexivity.
    + destruct X as (-> & _). exfalso. apply Bt. reflexivity.
    + left. exact (proj2 X).
    + right. exact (proj2 X).
  - destruct (beq o escrow) eqn:Bo; [|discriminate]. apply beq_spec in Bo. subst o.
    exfalso. destruct w; cbn [NftHistoryThm.explained] in X; try solve [destruct X].
    + subst h. apply NE. reflexivity.
    + destruct X as (receiver & dest & relay & contract & full & -> & _). apply NE. reflexivity.
Qed.

(** a token ENTERS the escrow set by this chain's own away-send of it -- or by a
    step that names the escrow account as the recipient (anybody can do that:
    a user mint or transfer to the escrow address, a packet whose receiver is
    the escrow address, a refund to a sender field equal to it) *)
Lemma esc_delta_in c h ev t :
  esc_delta (cause_of c h ev) = DIn t ->
  (exists sender, is_own_send c h (fst t) (snd t) sender true) \/
  (exists uri sender, h = HUser (UNftMint (fst t) (snd t) uri sender escrow)) \/
  (exists from, h = HUser (UNftMove (fst t) (snd t) from escrow)) \/
  (exists uri, is_recv_away h ev (fst t) (snd t) escrow uri) \/
  is_recv_back h ev (fst t) (snd t) escrow \/
  is_refund_away h ev (fst t) (snd t) escrow \/
  (exists uri, is_refund_back h ev (fst t) (snd t) escrow uri).
Proof using Hh nft_escrow dec_nft.
  intros D. pose proof (cause_of_explained Hh nft_escrow dec_nft c h ev) as X.
  destruct (cause_of c h ev) as [|w cl i o u|w cl i fr to|w cl i o]; cbn [esc_delta] in D.
  - discriminate.
  - destruct (beq o escrow) eqn:Bo; [|discriminate]. apply beq_spec in Bo. subst o.
    inversion D; subst t. cbn [fst snd].
    destruct w; cbn [NftHistoryThm.explained] in X; try solve [destruct X].
    + destruct X as (sender & ->). right. left. exists u, sender. reflexivity.
    + right. right. right. left. exists u. exact X.
    + do 6 right. exists u. exact X.
  - destruct (beq to escrow) eqn:Bt.
    + apply beq_spec in Bt. subst to. inversion D; subst t. cbn [fst snd].
      destruct w; cbn [NftHistoryThm.explained] in X; try solve [destruct X].
      * right. right. left. exists fr. exact X.
      * left. exists fr. exact (proj2 X).
      * do 4 right. left. exact (proj2 X).
      * do 5 right. left. exact (proj2 X).
    + destruct (beq fr escrow); discriminate.
  - destruct (beq o escrow); discriminate.
Qed.

(** ** 4. held by a user / locked or burned for a packet in flight *)

Definition user_held (st : nft_state) (class id : bytes) : Prop :=
  exists o uri, token_at st class id = Some (o, uri) /\ o <> escrow.

Lemma user_held_dec st class id : {user_held st class id} + {~ user_held st class id}.
Proof.
  unfold user_held. destruct (token_at st class id) as [[o u]|].
  - destruct (bytes_eq_dec o escrow) as [->|N].
    + right. intros (o' & u' & E & N). inversion E; subst. contradiction.
    + left. exists o, u. auto.
  - right. intros (o' & u' & E & _). discriminate.
Defined.

(** the three states of a (class, id) on a chain are exclusive and exhaustive *)
Lemma holder_trichotomy st class id :
  (user_held st class id /\ owner_of st class id <> Some escrow /\ token_at st class id <> None) \/
  (owner_of st class id = Some escrow /\ ~ user_held st class id) \/
  (token_at st class id = None /\ ~ user_held st class id).
Proof.
  unfold user_held, owner_of. destruct (token_at st class id) as [[o u]|].
  - destruct (bytes_eq_dec o escrow) as [->|N].
    + right. left. split; [reflexivity|]. intros (o' & u' & E & N). inversion E; subst. contradiction.
    + left. split; [exists o, u; auto|]. split; [|discriminate].
      cbn. intros E. inversion E. contradiction.
  - right. right. split; [reflexivity|]. intros (o' & u' & E & _). discriminate.
Qed.

(** a successful own send takes the sender's token out of user hands: it is
    locked in escrow (away) or destroyed (back) *)
Theorem send_unholds c h c' ev class id sender away :
  hexec c h = Some (c', ev) -> is_own_send c h class id sender away ->
  owner_of (nft_of c) class id = Some sender /\
  (if away then owner_of (nft_of c') class id = Some escrow else token_at (nft_of c') class id = None) /\
  ~ user_held (nft_of c') class id.
Proof.
  intros E (receiver & dest & relay & contract & full & -> & CP & DA).
  pose proof (step_effect _ _ _ _ _ _ _ _ _ _ _ _ _ E I) as Ef.
  cbn [NftHistory.cause_of] in Ef. rewrite CP, DA in Ef.
  unfold user_held, owner_of. destruct away; cbn [effect] in Ef; destruct Ef as (uri & B & A & _); rewrite B, A.
  - split; [reflexivity|]. split; [reflexivity|].
    intros (o & u & X & N). inversion X; subst. contradiction.
  - split; [reflexivity|]. split; [reflexivity|]. intros (o & u & X & _). discriminate.
Qed.

(** a (class, id) that is not in user hands gets into user hands only by a
    release from escrow (successful back-receive, refund of an away-send) or by
    creation (successful away-receive, refund of a back-send, user mint) *)
Definition regain (h : hop) (ev : list event) (class id owner : bytes) : Prop :=
  (exists uri sender, h = HUser (UNftMint class id uri sender owner)) \/
  (exists uri, is_recv_away h ev class id owner uri) \/
  (exists uri, is_refund_back h ev class id owner uri) \/
  is_recv_back h ev class id owner \/
  is_refund_away h ev class id owner.

Theorem regain_step c h c' ev class id :
  hexec c h = Some (c', ev) -> not_setapp h -> no_escrow_sig h ->
  ~ user_held (nft_of c) class id -> user_held (nft_of c') class id ->
  exists owner, owner_of (nft_of c') class id = Some owner /\ owner <> escrow /\ regain h ev class id owner.
Proof.
  intros E NS NE NH (o & u & T' & No).
  pose proof (step_effect _ _ _ _ _ _ _ _ _ _ _ _ _ E NS) as Ef.
  pose proof (cause_of_explained Hh nft_escrow dec_nft c h ev) as X.
  exists o. split; [unfold owner_of; rewrite T'; reflexivity|]. split; [exact No|].
  destruct (token_at (nft_of c) class id) as [[o0 u0]|] eqn:T0.
  - assert (o0 = escrow).
    { destruct (bytes_eq_dec o0 escrow) as [->|N]; [reflexivity|]. exfalso. apply NH. exists o0, u0. auto. }
    subst o0.
    assert (O0 : owner_of (nft_of c) class id = Some escrow) by (unfold owner_of; rewrite T0; reflexivity).
    assert (O1 : owner_of (nft_of c') class id <> Some escrow).
    { unfold owner_of. rewrite T'. cbn. intros Y. inversion Y. contradiction. }
    destruct (effect_released _ _ _ _ _ _ Ef O0 O1) as [(w & to & K & Nto & O')|(w & K & O')].
    + unfold owner_of in O'. rewrite T' in O'. cbn in O'. inversion O'; subst to.
      rewrite K in X. unfold regain.
      destruct w; cbn [NftHistoryThm.explained] in X; try contradiction.
      * subst h. exfalso. apply NE. reflexivity.
      * destruct X as (-> & _). contradiction.
      * right. right. right. left. tauto.
      * right. right. right. right. tauto.
    + unfold owner_of in O'. rewrite T' in O'. discriminate.
  - assert (T1 : token_at (nft_of c') class id <> None) by (rewrite T'; discriminate).
    destruct (effect_created _ _ _ _ _ Ef T0 T1) as (w & owner & uri & K & T'').
    rewrite T' in T''. inversion T''; subst owner uri. rewrite K in X. unfold regain.
    destruct w; cbn [NftHistoryThm.explained] in X; try contradiction.
    + left. destruct X as (sender & ->). exists u, sender. reflexivity.
    + right. left. exists u. exact X.
    + right. right. left. exists u. exact X.
Qed.

Theorem regain_history hs : forall c class id,
  Forall good hs ->
  ~ user_held (nft_of c) class id -> user_held (nft_of (hrun c hs)) class id ->
  exists c1 h ev owner, In (c1, h, ev) (htrace c hs) /\ owner <> escrow /\ regain h ev class id owner.
Proof.
  induction hs as [|h r IH]; intros c class id G NH UH; [contradiction|].
  inversion G as [|? ? (NS & NR & NE) Gr]; subst.
  cbn [NftHistory.htrace]. destruct (hexec c h) as [[c' ev]|] eqn:E.
  - rewrite (hrun_ok _ _ _ _ _ _ _ _ _ _ _ _ _ _ E) in UH.
    destruct (user_held_dec (nft_of c') class id) as [Y|N].
    + destruct (regain_step _ _ _ _ _ _ E NS NE NH Y) as (owner & _ & No & R).
      exists c, h, ev, owner. split; [left; reflexivity|]. auto.
    + destruct (IH c' class id Gr N UH) as (c1 & h1 & ev1 & owner & Hi & R).
      exists c1, h1, ev1, owner. split; [right; exact Hi|exact R].
  - rewrite (hrun_fail _ _ _ _ _ _ _ _ _ _ _ _ E) in UH. apply (IH c class id Gr NH UH).
Qed.

End NftEscrow.
