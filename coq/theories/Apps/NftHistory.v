(** C04 over histories, part 1: histories of ONE chain running the token
    applications, and the exact effect of every successful step on the NFT
    ownership ledger.

    A history is a list of [hop]: packet-layer operations ([op app_state],
    executed by [exec] with the application callbacks of Apps/App.v) and user
    transactions ([user_op], executed by [user_exec]).  Each step is a
    transaction: a failing step leaves the chain unchanged.

    [cause_of c h ev] reads off the operation, the events it emitted, the
    decoded packet data and (for a send) the class-trace store -- never the
    ownership ledger -- what the NFT module did in a successful step;
    [step_effect] proves that the ledger changed exactly so. *)
From Tibc Require Import Base.Bytes Base.BytesFacts Base.FMap Host.Keys Host.KeysFacts Routing.Rules
  Packet.Types Packet.Keeper Packet.KeeperFacts Apps.Path Apps.PathFacts Apps.Nft Apps.NftFacts
  Apps.Mt Apps.App.

(** * generic: what a successful receive / acknowledgement message does to the application state *)
Section PacketApp.
Variable A : Type.
Variable H : bytes -> bytes.
Variable has_route : bytes -> bool.
Variable on_recv : A -> packet -> option (A * option bytes).
Variable on_ack : A -> packet -> bytes -> option A.

Lemma msg_recv_app c p pf h c' ev :
  msg_recv A H has_route on_recv c p pf h = Some (c', ev) ->
  c_name A c' = c_name A c /\
  ((c_app A c' = c_app A c /\
    (ev = [ERecv p] \/ ev = [ERecv p; ESend p] \/ ev = [ERecv p; EWriteAck p unauth_ack])) \/
   (p_dst p = c_name A c /\ has_route (p_port p) = true /\
    exists a' oack ev1, on_recv (c_app A c) p = Some (a', oack) /\ c_app A c' = a' /\
      (ev1 = [ERecv p] \/ ev1 = [ERecv p; ESend p]) /\
      ev = ev1 ++ EDeliver p :: match oack with Some ack => [EWriteAck p ack] | None => [] end)).
Proof.
  unfold msg_recv. intros E.
  destruct (N.eqb h 0); [discriminate|].
  pose proof (recv_packet_inv2 A H c p pf h) as [R _].
  destruct (recv_packet A H c p pf h) as [|c1 ev1|c1 ev1]; [discriminate| |].
  - destruct R as (-> & -> & _ & _).
    destruct (write_ack A H _ p unauth_ack) as [[c2 ev2]|] eqn:W; [|discriminate].
    inversion E; subst c' ev. clear E. apply write_ack_inv in W. destruct W as (_ & _ & -> & ->).
    split; [reflexivity|]. left. split; [reflexivity|]. right. right. reflexivity.
  - assert (N1 : c_name A c1 = c_name A c /\ c_app A c1 = c_app A c /\
                 (ev1 = [ERecv p] \/ ev1 = [ERecv p; ESend p])).
    { destruct R as [(-> & -> & _)|(-> & -> & _)]; repeat split; auto. }
    destruct N1 as (Nm & Ap & Ev1). rewrite Nm in E.
    destruct (beq (p_dst p) (c_name A c)) eqn:D.
    + apply beq_spec in D. destruct (has_route (p_port p)) eqn:HR; [|discriminate]. cbn [negb] in E.
      rewrite Ap in E. destruct (on_recv (c_app A c) p) as [[a' oack]|] eqn:OR; [|discriminate].
      destruct oack as [ack|].
      * destruct (write_ack A H (with_app A c1 a') p ack) as [[c3 ev3]|] eqn:W; [|discriminate].
        inversion E; subst c' ev. clear E. apply write_ack_inv in W. destruct W as (_ & _ & -> & ->).
        split; [exact Nm|]. right. split; [exact D|]. split; [reflexivity|].
        exists a', (Some ack), ev1. repeat split; auto.
      * inversion E; subst c' ev. clear E.
        split; [exact Nm|]. right. split; [exact D|]. split; [reflexivity|].
        exists a', None, ev1. repeat split; auto.
    + inversion E; subst c' ev. split; [exact Nm|]. left. split; [exact Ap|].
      destruct Ev1 as [->| ->]; auto.
Qed.

Lemma msg_ack_app c p a pf h c' ev :
  msg_ack A H has_route on_ack c p a pf h = Some (c', ev) ->
  c_name A c' = c_name A c /\
  ((c_app A c' = c_app A c /\ (ev = [EAck p a] \/ ev = [EAck p a; EWriteAck p a])) \/
   (p_src p = c_name A c /\ on_ack (c_app A c) p a = Some (c_app A c') /\
    exists ev1, ev = ev1 ++ [EAppAck p a])).
Proof.
  intros E. apply msg_ack_inv in E. destruct E as (_ & c1 & ev1 & AP & _ & Nm & _ & _ & _ & Cs).
  split; [exact Nm|].
  apply ack_packet_inv in AP. destruct AP as (_ & _ & _ & _ & _ & _ & Ev1 & _ & _ & _ & _ & Ap).
  destruct Cs as [(-> & -> & _)|(-> & S & OA)].
  - left. split; [exact Ap|]. destruct Ev1 as [->|[-> _]]; auto.
  - right. split; [exact S|]. split; [exact OA|]. exists ev1. reflexivity.
Qed.

End PacketApp.

(** * histories of an application chain *)

Inductive hop :=
| HOp (o : op app_state)
| HUser (u : user_op).

(** [OSetApp] overwrites the application state by decree; it stands for user
    transactions in the pure packet-layer development and is excluded here,
    where user transactions are explicit *)
Definition not_setapp (h : hop) : Prop :=
  match h with HOp (OSetApp _) => False | _ => True end.

(** why a token changed *)
Inductive why :=
| WUserMint | WUserMove | WUserBurn      (* x/nft user transactions *)
| WSend                                  (* MsgNftTransfer: lock (away) or burn (back) *)
| WRecvAway | WRecvBack                  (* successful OnRecvPacket *)
| WRefundAway | WRefundBack.             (* OnAcknowledgementPacket with an error acknowledgement *)

Inductive cause :=
| KNone
| KCreate (w : why) (class id owner uri : bytes)    (* absent -> (owner, uri) *)
| KMove (w : why) (class id from to : bytes)        (* (from, uri) -> (to, uri) *)
| KDestroy (w : why) (class id owner : bytes).      (* (owner, uri) -> absent *)

(** the receive callback ran and its success acknowledgement was written:
    the events of the step end with [EDeliver p; EWriteAck p ack_ok] *)
Definition recv_ok_ev (ev : list event) : bool :=
  match rev ev with
  | EWriteAck _ a :: EDeliver _ :: _ => beq a ack_ok
  | _ => false
  end.

(** the acknowledgement callback ran: the events of the step end with [EAppAck p ack] *)
Definition appack_ev (ev : list event) : bool :=
  match rev ev with EAppAck _ _ :: _ => true | _ => false end.

Section NftHistory.
Variable Hh : bytes -> bytes.
Variable H : bytes -> bytes.
Variable valid_addr : bytes -> bool.
Variable nft_escrow mt_escrow : bytes.
Variable enc_nft : nft_data -> bytes.
Variable dec_nft : bytes -> option nft_data.
Variable enc_mt : mt_data -> bytes.
Variable dec_mt : bytes -> option mt_data.

Notation chain := (chain app_state).
Notation on_recv := (app_on_recv Hh valid_addr nft_escrow mt_escrow dec_nft dec_mt).
Notation on_ack := (app_on_ack Hh valid_addr nft_escrow mt_escrow dec_nft dec_mt).
Notation escrow := nft_escrow.

Definition nft_of (c : chain) : nft_state := a_nft (c_app app_state c).

Definition hexec (c : chain) (h : hop) : option (chain * list event) :=
  match h with
  | HOp o => exec app_state H app_has_route on_recv on_ack c o
  | HUser u => user_exec H nft_escrow mt_escrow enc_nft enc_mt c u
  end.

(** a transaction: keep the new state iff the handler succeeded *)
Definition hstep (c : chain) (h : hop) : chain * option (list event) :=
  match hexec c h with
  | Some (c', ev) => (c', Some ev)
  | None => (c, None)
  end.

Definition hrun (c : chain) (hs : list hop) : chain := fold_left (fun c h => fst (hstep c h)) hs c.

(** the event log of a history (events of the successful steps, in order) *)
Fixpoint hlog (c : chain) (hs : list hop) : list event :=
  match hs with
  | [] => []
  | h :: r =>
      match hexec c h with
      | Some (c', ev) => ev ++ hlog c' r
      | None => hlog c r
      end
  end.

(** the successful steps of a history, each with the state it started from and
    the events it emitted *)
Fixpoint htrace (c : chain) (hs : list hop) : list (chain * hop * list event) :=
  match hs with
  | [] => []
  | h :: r =>
      match hexec c h with
      | Some (c', ev) => (c, h, ev) :: htrace c' r
      | None => htrace c r
      end
  end.

Lemma hrun_cons c h r : hrun c (h :: r) = hrun (fst (hstep c h)) r.
Proof. reflexivity. Qed.

Lemma hrun_ok c h r c' ev : hexec c h = Some (c', ev) -> hrun c (h :: r) = hrun c' r.
Proof. intros E. rewrite hrun_cons. unfold hstep. rewrite E. reflexivity. Qed.

Lemma hrun_fail c h r : hexec c h = None -> hrun c (h :: r) = hrun c r.
Proof. intros E. rewrite hrun_cons. unfold hstep. rewrite E. reflexivity. Qed.

Lemma hrun_app c l1 l2 : hrun c (l1 ++ l2) = hrun (hrun c l1) l2.
Proof. unfold hrun. apply fold_left_app. Qed.

(** every entry of the trace is a successful step of the history, taken from the
    state a prefix of the history leads to *)
Lemma htrace_inv c hs c1 h ev :
  In (c1, h, ev) (htrace c hs) ->
  exists pre post c2, hs = pre ++ h :: post /\ c1 = hrun c pre /\ hexec c1 h = Some (c2, ev).
Proof.
  revert c. induction hs as [|h0 r IH]; intros c Hi; [destruct Hi|].
  cbn [htrace] in Hi. destruct (hexec c h0) as [[c' ev0]|] eqn:E.
  - destruct Hi as [Hi|Hi].
    + inversion Hi; subst. exists [], r, c'. repeat split; auto.
    + apply IH in Hi. destruct Hi as (pre & post & c2 & -> & -> & E2).
      exists (h0 :: pre), post, c2. split; [reflexivity|]. split; [|exact E2].
      symmetry. apply (hrun_ok _ _ _ _ _ E).
  - apply IH in Hi. destruct Hi as (pre & post & c2 & -> & -> & E2).
    exists (h0 :: pre), post, c2. split; [reflexivity|]. split; [|exact E2].
    symmetry. apply (hrun_fail _ _ _ E).
Qed.

Lemma htrace_log c hs c1 h ev e : In (c1, h, ev) (htrace c hs) -> In e ev -> In e (hlog c hs).
Proof.
  revert c. induction hs as [|h0 r IH]; intros c Hi He; [destruct Hi|].
  cbn [htrace hlog] in *. destruct (hexec c h0) as [[c' ev0]|].
  - destruct Hi as [Hi|Hi].
    + inversion Hi; subst. apply in_or_app. left. exact He.
    + apply in_or_app. right. eapply IH; eassumption.
  - eapply IH; eassumption.
Qed.

(** ** the cause of a successful step, read off the operation, its events, the
    decoded packet data and (for a send) the class-trace store -- never the
    ownership ledger *)
Definition cause_of (c : chain) (h : hop) (ev : list event) : cause :=
  match h with
  | HUser (UNftMint class id uri sender rcpt) => KCreate WUserMint class id rcpt uri
  | HUser (UNftMove class id from to) => KMove WUserMove class id from to
  | HUser (UNftBurn class id owner) => KDestroy WUserBurn class id owner
  | HUser (UNftSend class id sender receiver dest relay contract) =>
      (* the direction test of SendNftTransfer, on the class path the trace store gives *)
      match class_path_of (nft_of c) class with
      | Some full =>
          match determine_away NFT_PFX full dest with
          | Some true => KMove WSend class id sender escrow
          | Some false => KDestroy WSend class id sender
          | None => KNone
          end
      | None => KNone
      end
  | HOp (ORecv p pf hh) =>
      if beq (p_port p) NFT_PORT && recv_ok_ev ev then
        match dec_nft (p_data p) with
        | Some d =>
            if nd_away d then
              KCreate WRecvAway
                (voucher_class Hh (away_new_class_path NFT_PFX (p_src p) (p_dst p) (nd_class d)))
                (nd_id d) (nd_receiver d) (nd_uri d)
            else match back_new_class_path (nd_class d) with
                 | Some np => KMove WRecvBack (voucher_class Hh np) (nd_id d) escrow (nd_receiver d)
                 | None => KNone
                 end
        | None => KNone
        end
      else KNone
  | HOp (OAck p ack pf hh) =>
      if beq (p_port p) NFT_PORT && is_err_ack ack && appack_ev ev then
        match dec_nft (p_data p) with
        | Some d =>
            if nd_away d then KMove WRefundAway (voucher_class Hh (nd_class d)) (nd_id d) escrow (nd_sender d)
            else KCreate WRefundBack (voucher_class Hh (nd_class d)) (nd_id d) (nd_sender d) (nd_uri d)
        | None => KNone
        end
      else KNone
  | _ => KNone
  end.

(** ** what a cause means for the ownership ledger *)
Definition upd_at (st st' : nft_state) (class id : bytes) (b a : option (bytes * bytes)) : Prop :=
  token_at st class id = b /\ token_at st' class id = a /\
  forall c i, (c, i) <> (class, id) -> token_at st' c i = token_at st c i.

Definition effect (k : cause) (st st' : nft_state) : Prop :=
  match k with
  | KNone => same_tokens st' st
  | KCreate _ class id owner uri => upd_at st st' class id None (Some (owner, uri))
  | KMove _ class id from to => exists uri, upd_at st st' class id (Some (from, uri)) (Some (to, uri))
  | KDestroy _ class id owner => exists uri, upd_at st st' class id (Some (owner, uri)) None
  end.

Lemma neq_pair_beq (c i class id : bytes) : (c, i) <> (class, id) -> beq c class && beq i id = false.
Proof.
  intros Hn. destruct (beq c class && beq i id) eqn:B; [|reflexivity].
  rewrite andb_true_iff in B. destruct B as [B1 B2]. apply beq_spec in B1, B2. subst. contradiction.
Qed.

Lemma upd_of_spec st st' class id b a :
  token_at st class id = b ->
  (forall c i, token_at st' c i = if beq c class && beq i id then a else token_at st c i) ->
  upd_at st st' class id b a.
Proof.
  intros T TK. split; [exact T|]. split.
  - rewrite TK, !beq_refl. reflexivity.
  - intros c i Hn. rewrite TK, (neq_pair_beq _ _ _ _ Hn). reflexivity.
Qed.

Lemma upd_same_tokens st1 st1' st st' class id b a :
  same_tokens st1 st -> same_tokens st' st1' -> upd_at st1 st1' class id b a -> upd_at st st' class id b a.
Proof.
  intros S1 S2 (T & T' & F). split; [rewrite <- S1; exact T|]. split; [rewrite S2; exact T'|].
  intros c i Hn. rewrite S2, F by exact Hn. apply S1.
Qed.

(** ** the transfer module's own operations *)

Lemma refund_effect st d st' :
  nft_refund Hh valid_addr escrow st d = Some st' ->
  ns_classes st' = ns_classes st /\ ns_traces st' = ns_traces st /\
  if nd_away d
  then exists uri, upd_at st st' (voucher_class Hh (nd_class d)) (nd_id d) (Some (escrow, uri)) (Some (nd_sender d, uri))
  else upd_at st st' (voucher_class Hh (nd_class d)) (nd_id d) None (Some (nd_sender d, nd_uri d)).
Proof.
  unfold nft_refund. destruct (valid_addr (nd_sender d)); cbn [negb]; [|discriminate].
  destruct (nd_away d).
  - intros TR. apply nft_transfer_spec in TR. destruct TR as (uri & T0 & _ & CL & TRC & TK).
    split; [exact CL|]. split; [exact TRC|]. exists uri. apply upd_of_spec; assumption.
  - destruct (nft_mint st _ (nd_id d) (nd_uri d) escrow) as [st1|] eqn:M; [|discriminate].
    intros TR. apply nft_mint_spec in M. destruct M as (_ & T0 & CL1 & TRC1 & TK1).
    apply nft_transfer_spec in TR. destruct TR as (uri & T1 & _ & CL & TRC & TK).
    rewrite TK1, !beq_refl in T1. inversion T1; subst uri.
    split; [congruence|]. split; [congruence|].
    apply upd_of_spec; [exact T0|]. intros c i. rewrite TK, TK1.
    destruct (beq c _ && beq i (nd_id d)); reflexivity.
Qed.

Lemma recv_ok_upd st src dst d st' :
  nft_recv_core Hh valid_addr escrow st src dst d = (st', RvOk) ->
  if nd_away d
  then upd_at st st' (voucher_class Hh (away_new_class_path NFT_PFX src dst (nd_class d))) (nd_id d)
              None (Some (nd_receiver d, nd_uri d))
  else exists np uri, back_new_class_path (nd_class d) = Some np /\
         upd_at st st' (voucher_class Hh np) (nd_id d) (Some (escrow, uri)) (Some (nd_receiver d, uri)).
Proof.
  intros R. apply recv_ok_effect in R. destruct R as (class & uri & T' & F & C).
  destruct (nd_away d).
  - destruct C as (-> & T0 & ->). split; [exact T0|]. split; [exact T'|exact F].
  - destruct C as (np & BP & -> & T0). exists np, uri. split; [exact BP|].
    split; [exact T0|]. split; [exact T'|exact F].
Qed.

Lemma ack_err_ne_ok : beq ack_err ack_ok = false.
Proof. vm_compute. reflexivity. Qed.

Lemma recv_ok_ev_snoc ev1 p q a : recv_ok_ev (ev1 ++ [EDeliver p; EWriteAck q a]) = beq a ack_ok.
Proof. unfold recv_ok_ev. rewrite rev_app_distr. reflexivity. Qed.

Lemma appack_ev_snoc ev1 p a : appack_ev (ev1 ++ [EAppAck p a]) = true.
Proof. unfold appack_ev. rewrite rev_app_distr. reflexivity. Qed.

(** the receive callback of the application layer, as far as the NFT ledger goes *)
Lemma on_recv_nft a p a' oack :
  on_recv a p = Some (a', oack) ->
  (beq (p_port p) NFT_PORT = false /\ a_nft a' = a_nft a) \/
  (beq (p_port p) NFT_PORT = true /\
   exists d r, dec_nft (p_data p) = Some d /\
     nft_recv_core Hh valid_addr escrow (a_nft a) (p_src p) (p_dst p) d = (a_nft a', r) /\
     ((r = RvOk /\ oack = Some ack_ok) \/ (r = RvErr /\ oack = Some ack_err))).
Proof.
  unfold app_on_recv. destruct (beq (p_port p) NFT_PORT) eqn:P.
  - unfold nft_on_recv. destruct (dec_nft (p_data p)) as [d|]; [|discriminate].
    destruct (nft_recv_core Hh valid_addr escrow (a_nft a) (p_src p) (p_dst p) d) as [st r] eqn:R.
    intros E. right. split; [reflexivity|]. exists d, r.
    destruct r; inversion E; subst; cbn [a_nft]; auto.
  - intros E. left. split; [reflexivity|].
    destruct (beq (p_port p) MT_PORT).
    + unfold mt_on_recv in E. destruct (dec_mt (p_data p)) as [d|]; [|discriminate].
      destruct (mt_recv_core _ _ _ _ _ _ _) as [st r].
      destruct r; inversion E; subst; reflexivity.
    + destruct (beq (p_port p) MOCK_PORT); inversion E; subst. reflexivity.
Qed.

Lemma on_ack_nft a p ack a' :
  on_ack a p ack = Some a' ->
  (beq (p_port p) NFT_PORT = false /\ a_nft a' = a_nft a) \/
  (beq (p_port p) NFT_PORT = true /\
   exists d, dec_nft (p_data p) = Some d /\
     if is_err_ack ack then nft_refund Hh valid_addr escrow (a_nft a) d = Some (a_nft a')
     else a_nft a' = a_nft a).
Proof.
  unfold app_on_ack. destruct (beq (p_port p) NFT_PORT) eqn:P.
  - unfold nft_on_ack. destruct (negb _); [discriminate|].
    destruct (dec_nft (p_data p)) as [d|]; [|discriminate].
    intros E. right. split; [reflexivity|]. exists d. split; [reflexivity|].
    destruct (is_err_ack ack).
    + destruct (nft_refund _ _ _ _ _) as [st|]; [|discriminate]. inversion E; subst. reflexivity.
    + inversion E; subst. reflexivity.
  - intros E. left. split; [reflexivity|].
    destruct (beq (p_port p) MT_PORT).
    + destruct (mt_on_ack _ _ _ _ _ _ _) as [st|]; [|discriminate]. inversion E; subst. reflexivity.
    + destruct (beq (p_port p) MOCK_PORT); inversion E; subst. reflexivity.
Qed.

(** what [nft_send] does, with the packet data it builds *)
Lemma nft_send_effect name seq st class id sender receiver dest relay contract st1 p :
  nft_send escrow enc_nft name seq st class id sender receiver dest relay contract = Some (st1, p) ->
  ns_classes st1 = ns_classes st /\ ns_traces st1 = ns_traces st /\
  exists full uri away,
    class_path_of st class = Some full /\ determine_away NFT_PFX full dest = Some away /\
    p = mkPacket seq name dest relay NFT_PORT (enc_nft (mkNftData full id uri sender receiver away contract)) /\
    upd_at st st1 class id (Some (sender, uri)) (if away then Some (escrow, uri) else None).
Proof.
  unfold nft_send. intros E.
  destruct (has_class class st); [|discriminate]. cbn [negb] in E.
  destruct (token_at st class id) as [[o uri]|] eqn:T; [|discriminate].
  destruct (beq name dest); [discriminate|].
  destruct (class_path_of st class) as [full|] eqn:CP; [|discriminate].
  destruct (determine_away NFT_PFX full dest) as [away|] eqn:DA; [|discriminate].
  destruct away.
  - destruct (nft_transfer st class id sender escrow) as [st1'|] eqn:TR; [|discriminate].
    inversion E; subst st1' p. apply nft_transfer_spec in TR. destruct TR as (u & T0 & _ & CL & TRC & TK).
    rewrite T in T0. inversion T0; subst o u.
    split; [exact CL|]. split; [exact TRC|]. exists full, uri, true.
    split; [reflexivity|]. split; [exact DA|]. split; [reflexivity|].
    apply upd_of_spec; [exact T|exact TK].
  - destruct (nft_burn st class id sender) as [st1'|] eqn:BR; [|discriminate].
    inversion E; subst st1' p. apply nft_burn_spec in BR. destruct BR as (u & T0 & _ & CL & TRC & TK).
    rewrite T in T0. inversion T0; subst o u.
    split; [exact CL|]. split; [exact TRC|]. exists full, uri, false.
    split; [reflexivity|]. split; [exact DA|]. split; [reflexivity|].
    apply upd_of_spec; [exact T|exact TK].
Qed.

(** ** every successful step: name kept, and the ledger changes exactly as its cause says *)

Lemma exec_other_app c o c' ev :
  exec app_state H app_has_route on_recv on_ack c o = Some (c', ev) ->
  match o with ORecv _ _ _ | OAck _ _ _ _ | OSetApp _ => False | _ => True end ->
  c_app app_state c' = c_app app_state c /\ c_name app_state c' = c_name app_state c.
Proof.
  intros E NO. destruct o; try contradiction; cbn [exec] in E.
  - apply send_packet_inv in E. destruct E as (_ & _ & _ & _ & ->). split; reflexivity.
  - apply clean_packet_inv in E. destruct E as (_ & _ & _ & ->). split; reflexivity.
  - destruct (N.eqb h 0); [discriminate|]. apply recv_clean_inv in E.
    destruct E as (_ & _ & _ & _ & ->). split; reflexivity.
  - unfold create_client in E. destruct (has name _); [discriminate|]. inversion E; subst. split; reflexivity.
  - unfold update_client in E. destruct (lookup name _) as [cl0|]; [|discriminate].
    destruct (negb _); [discriminate|]. inversion E; subst. split; reflexivity.
  - destruct (set_rules rs); [|discriminate]. inversion E; subst. split; reflexivity.
  - inversion E; subst. split; reflexivity.
Qed.

Theorem step_name c h c' ev :
  hexec c h = Some (c', ev) -> not_setapp h -> c_name app_state c' = c_name app_state c.
Proof.
  intros E NS. destruct h as [o|u].
  - cbn [hexec] in E. destruct o; try (apply (exec_other_app _ _ _ _ E); exact I).
    + cbn [exec] in E. apply msg_recv_app in E. tauto.
    + cbn [exec] in E. apply msg_ack_app in E. tauto.
    + contradiction.
  - cbn [hexec] in E. destruct u; cbn [user_exec] in E;
      repeat match type of E with
      | (if ?b then _ else _) = _ => destruct b; try discriminate E
      | match ?x with Some _ => _ | None => _ end = _ => destruct x as [?v|]; try discriminate E
      | (let (_, _) := ?x in _) = _ => destruct x
      | lift_nft _ ?x = _ => unfold lift_nft in E
      | lift_mt _ ?x = _ => unfold lift_mt in E
      | match ?x with (_, _) => _ end = _ => destruct x
      | send_packet _ _ _ _ = _ => apply send_packet_inv in E; destruct E as (_ & _ & _ & _ & ->)
      | Some _ = Some _ => inversion E; subst; clear E
      end; try reflexivity.
Qed.

Theorem step_effect c h c' ev :
  hexec c h = Some (c', ev) -> not_setapp h ->
  effect (cause_of c h ev) (nft_of c) (nft_of c').
Proof.
  intros E NS. unfold nft_of. destruct h as [o|u].
  - cbn [hexec] in E.
    assert (OTH : match o with ORecv _ _ _ | OAck _ _ _ _ | OSetApp _ => False | _ => True end ->
                  effect (cause_of c (HOp o) ev) (a_nft (c_app app_state c)) (a_nft (c_app app_state c'))).
    { intros NO. destruct (exec_other_app _ _ _ _ E NO) as [-> _].
      destruct o; try contradiction; cbn [cause_of effect]; apply same_tokens_refl. }
    destruct o; try (apply OTH; exact I); [| |contradiction]; clear OTH; cbn [exec] in E.
    + (* receive *)
      apply msg_recv_app in E. destruct E as (_ & [(-> & Ev)|(D & _ & a' & oack & ev1 & OR & <- & Ev1 & ->)]).
      * cbn [cause_of].
        assert (F : recv_ok_ev ev = false) by (destruct Ev as [->|[->| ->]]; reflexivity).
        rewrite F, andb_false_r. apply same_tokens_refl.
      * apply on_recv_nft in OR. cbn [cause_of].
        destruct OR as [(P & ->)|(P & d & r & DC & R & Out)].
        -- rewrite P. cbn [andb effect]. apply same_tokens_refl.
        -- rewrite P, DC. cbn [andb].
           destruct Out as [(-> & ->)|(-> & ->)].
           ++ change (ev1 ++ EDeliver p :: [EWriteAck p ack_ok]) with (ev1 ++ [EDeliver p; EWriteAck p ack_ok]).
              rewrite recv_ok_ev_snoc, beq_refl.
              apply recv_ok_upd in R. destruct (nd_away d).
              ** exact R.
              ** destruct R as (np & uri & -> & U). exists uri. exact U.
           ++ change (ev1 ++ EDeliver p :: [EWriteAck p ack_err]) with (ev1 ++ [EDeliver p; EWriteAck p ack_err]).
              rewrite recv_ok_ev_snoc, ack_err_ne_ok. cbn [effect].
              apply recv_error_no_token_effect in R. exact R.
    + (* acknowledgement *)
      apply msg_ack_app in E. destruct E as (_ & [(-> & Ev)|(S & OA & ev1 & ->)]).
      * cbn [cause_of].
        assert (F : appack_ev ev = false) by (destruct Ev as [->| ->]; reflexivity).
        rewrite F, andb_false_r. apply same_tokens_refl.
      * apply on_ack_nft in OA. cbn [cause_of]. rewrite appack_ev_snoc, andb_true_r.
        destruct OA as [(P & ->)|(P & d & DC & R)].
        -- rewrite P. cbn [andb effect]. apply same_tokens_refl.
        -- rewrite P. cbn [andb]. destruct (is_err_ack ack).
           ++ rewrite DC. apply refund_effect in R. destruct R as (_ & _ & R).
              destruct (nd_away d); exact R.
           ++ rewrite R. apply same_tokens_refl.
  - cbn [hexec] in E. destruct u; cbn [user_exec] in E; cbn [cause_of].
    + (* issue *)
      destruct (has_class class _); [discriminate|]. inversion E; subst. intros c0 i0. reflexivity.
    + destruct (lookup class _) as [[cr rs]|]; [|discriminate].
      destruct (rs && _); [discriminate|]. unfold lift_nft in E.
      destruct (nft_mint _ class id uri rcpt) as [st|] eqn:M; [|discriminate]. inversion E; subst. clear E.
      cbn [c_app with_app a_nft effect]. apply nft_mint_spec in M. destruct M as (_ & T0 & _ & _ & TK).
      apply upd_of_spec; assumption.
    + unfold lift_nft in E. destruct (nft_transfer _ class id from to) as [st|] eqn:M; [|discriminate].
      inversion E; subst. clear E. cbn [c_app with_app a_nft effect].
      apply nft_transfer_spec in M. destruct M as (uri & T0 & _ & _ & _ & TK). exists uri.
      apply upd_of_spec; assumption.
    + unfold lift_nft in E. destruct (nft_burn _ class id owner) as [st|] eqn:M; [|discriminate].
      inversion E; subst. clear E. cbn [c_app with_app a_nft effect].
      apply nft_burn_spec in M. destruct M as (uri & T0 & _ & _ & _ & TK). exists uri.
      apply upd_of_spec; assumption.
    + destruct (nft_send _ _ _ _ _ _ _ _ _ _ _ _) as [[st pkt]|] eqn:S; [|discriminate].
      apply nft_send_effect in S. destruct S as (_ & _ & full & uri & away & CP & DA & -> & U).
      apply send_packet_inv in E. destruct E as (_ & _ & _ & -> & ->).
      unfold nft_of. rewrite CP, DA. cbn [c_app with_app with_kv a_nft].
      destruct away; exists uri; exact U.
    + destruct (mt_has_class _ _); [discriminate|]. inversion E; subst. apply same_tokens_refl.
    + destruct (N.eqb amt 0); [discriminate|]. destruct (lookup class _) as [ow|]; [|discriminate].
      destruct (negb _); [discriminate|]. destruct (mt_exists _ _ _); [discriminate|].
      unfold lift_mt in E. destruct (mt_issue _ _ _ _ _ _) as [st [|]]; [|discriminate].
      inversion E; subst. apply same_tokens_refl.
    + destruct (N.eqb amt 0); [discriminate|]. destruct (lookup class _) as [ow|]; [|discriminate].
      destruct (negb _); [discriminate|]. destruct (negb _); [discriminate|].
      unfold lift_mt in E. destruct (mt_mint _ _ _ _ _) as [st [|]]; [|discriminate].
      inversion E; subst. apply same_tokens_refl.
    + destruct (N.eqb amt 0); [discriminate|].
      unfold lift_mt in E. destruct (mt_transfer _ _ _ _ _ _) as [st [|]]; [|discriminate].
      inversion E; subst. apply same_tokens_refl.
    + destruct (N.eqb amt 0); [discriminate|].
      unfold lift_mt in E. destruct (mt_burn _ _ _ _ _) as [st [|]]; [|discriminate].
      inversion E; subst. apply same_tokens_refl.
    + destruct (mt_send _ _ _ _ _ _ _ _ _ _ _ _ _) as [[st pkt]|]; [|discriminate].
      apply send_packet_inv in E. destruct E as (_ & _ & _ & _ & ->). apply same_tokens_refl.
Qed.

End NftHistory.
