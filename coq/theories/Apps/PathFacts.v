(** Refinement of the class-path string functions to operations on lists of
    chain names, for '/'-free base classes and chain names; and the
    counter-examples when a native class contains '/' (finding D4). *)
From Tibc Require Import Base.Bytes Base.BytesFacts Host.KeysFacts Apps.Path.
From Coq Require Import Lia Arith PeanoNat.

Section PathFacts.
Variable PFX : bytes.
Variable Hh : bytes -> bytes.
Hypothesis PFX_noslash : noslash PFX.
Hypothesis PFX_nonempty : PFX <> [].

Notation determine_away := (determine_away PFX).
Notation away_new_class_path := (away_new_class_path PFX).
Notation prefixed_path := (prefixed_path PFX).

(** "PFX/c0/.../ck/b" *)
Definition full (p : list bytes) (b : bytes) : bytes := join [slash] (PFX :: p ++ [b]).

Definition all_noslash (l : list bytes) : Prop := Forall noslash l.

Lemma split_full p b : all_noslash p -> noslash b -> split slash (full p b) = PFX :: p ++ [b].
Proof.
  intros Hp Hb. unfold full. apply split_join; [discriminate|].
  constructor; [exact PFX_noslash|]. apply Forall_app. split; [exact Hp|]. constructor; [exact Hb|constructor].
Qed.

Lemma full_cons p b : full p b = PFX ++ slash :: join [slash] (p ++ [b]).
Proof.
  unfold full. destruct (p ++ [b]) as [|x r] eqn:E.
  - destruct p; discriminate.
  - reflexivity.
Qed.

Lemma has_prefix_full p b : has_prefix PFX (full p b) = true.
Proof. rewrite full_cons. apply has_prefix_app. Qed.

Lemma contains_slash_full p b : contains slash (full p b) = true.
Proof.
  rewrite full_cons. apply contains_spec. apply in_or_app. right. left. reflexivity.
Qed.

Lemma prefixed_full p b : prefixed_path (full p b) = true.
Proof. unfold Path.prefixed_path. rewrite has_prefix_full, contains_slash_full. reflexivity. Qed.

Lemma noslash_not_prefixed b : noslash b -> prefixed_path b = false.
Proof.
  intros Hb. unfold Path.prefixed_path. apply contains_false in Hb. rewrite Hb. apply andb_false_r.
Qed.

(** direction test on a voucher path with at least two chains: compares the
    destination with the last-but-one chain *)
Lemma determine_away_full q x y b d :
  all_noslash (q ++ [x; y]) -> noslash b ->
  determine_away (full (q ++ [x; y]) b) d = Some (negb (beq x d)).
Proof.
  intros Hp Hb. unfold Path.determine_away.
  rewrite has_prefix_full, contains_slash_full. cbn [negb orb andb].
  rewrite split_full by assumption.
  cbn [length]. rewrite !app_length. cbn [length].
  replace (S (length q + 2 + 1) - 3)%nat with (S (length q)) by lia.
  replace (Nat.ltb (S (length q + 2 + 1)) 3) with false
    by (symmetry; apply Nat.ltb_ge; lia).
  cbn [nth_error]. rewrite <- app_assoc. rewrite nth_error_app2 by lia.
  rewrite Nat.sub_diag. reflexivity.
Qed.

(** a native ('/'-free) class is always "away" *)
Lemma determine_away_native b d : noslash b -> determine_away b d = Some true.
Proof.
  intros Hb. unfold Path.determine_away. apply contains_false in Hb. rewrite Hb.
  destruct (has_prefix PFX b); reflexivity.
Qed.

Lemma removelast_snoc {X} (l : list X) x : removelast (l ++ [x]) = l.
Proof. apply removelast_last. Qed.

Lemma last_snoc {X} (l : list X) x dflt : last (l ++ [x]) dflt = x.
Proof. apply last_last. Qed.

(** moving away appends the destination to the path *)
Lemma away_full s d p b :
  all_noslash p -> noslash b ->
  away_new_class_path s d (full p b) = full (p ++ [d]) b.
Proof.
  intros Hp Hb. unfold Path.away_new_class_path. rewrite prefixed_full.
  rewrite split_full by assumption.
  change (PFX :: p ++ [b]) with ((PFX :: p) ++ [b]).
  rewrite removelast_snoc, last_snoc. unfold full. rewrite <- !app_assoc. reflexivity.
Qed.

Lemma away_native s d b : noslash b -> away_new_class_path s d b = full [s; d] b.
Proof.
  intros Hb. unfold Path.away_new_class_path. rewrite noslash_not_prefixed by exact Hb.
  unfold concat_class_path, full. cbn [app]. rewrite !join_cons. cbn [join app]. reflexivity.
Qed.

(** moving back removes the last chain; from a two-chain path the base class *)
Lemma back_full2 x y b :
  noslash x -> noslash y -> noslash b -> back_new_class_path (full [x; y] b) = Some b.
Proof.
  intros Hx Hy Hb. unfold back_new_class_path.
  rewrite split_full; [|repeat constructor; assumption|assumption]. reflexivity.
Qed.

Lemma back_full p z b :
  (2 <= length p)%nat -> all_noslash (p ++ [z]) -> noslash b ->
  back_new_class_path (full (p ++ [z]) b) = Some (full p b).
Proof.
  intros Hl Hp Hb. unfold back_new_class_path. rewrite split_full by assumption.
  cbn [length]. rewrite !app_length. cbn [length].
  replace (Nat.eqb (S (length p + 1 + 1)) 4) with false by (symmetry; apply Nat.eqb_neq; lia).
  replace (Nat.ltb (S (length p + 1 + 1)) 2) with false by (symmetry; apply Nat.ltb_ge; lia).
  replace (S (length p + 1 + 1) - 2)%nat with (length (PFX :: p)) by (cbn [length]; lia).
  replace (PFX :: (p ++ [z]) ++ [b]) with ((PFX :: p) ++ [z; b])
    by (cbn [app]; rewrite <- app_assoc; reflexivity).
  rewrite firstn_app, firstn_all, Nat.sub_diag. cbn [firstn]. rewrite app_nil_r.
  replace ((PFX :: p) ++ [z; b]) with (((PFX :: p) ++ [z]) ++ [b]) by (rewrite <- app_assoc; reflexivity).
  rewrite last_snoc. reflexivity.
Qed.

(** C06, path level: back undoes away *)
Theorem back_away_native s d b :
  noslash s -> noslash d -> noslash b ->
  back_new_class_path (away_new_class_path s d b) = Some b.
Proof. intros. rewrite away_native by assumption. apply back_full2; assumption. Qed.

Theorem back_away_full s d p b :
  (2 <= length p)%nat -> all_noslash p -> noslash d -> noslash b ->
  back_new_class_path (away_new_class_path s d (full p b)) = Some (full p b).
Proof.
  intros Hl Hp Hd Hb. rewrite away_full by assumption. apply back_full; try assumption.
  apply Forall_app. split; [exact Hp|]. constructor; [exact Hd|constructor].
Qed.

(** trace parsing *)
Lemma parse_full p b :
  all_noslash p -> noslash b ->
  parse_class_trace (full p b) = (join [slash] (PFX :: p), b).
Proof.
  intros Hp Hb. unfold parse_class_trace. rewrite split_full by assumption. cbn [hd].
  assert (NE : beq PFX (full p b) = false).
  { apply beq_false. intros E. pose proof (contains_slash_full p b) as C. rewrite <- E in C.
    apply contains_spec in C. exact (PFX_noslash C). }
  rewrite NE. change (PFX :: p ++ [b]) with ((PFX :: p) ++ [b]).
  rewrite removelast_snoc, last_snoc. reflexivity.
Qed.

Lemma parse_native b : noslash b -> parse_class_trace b = ([], b).
Proof.
  intros Hb. unfold parse_class_trace. rewrite split_nosep by exact Hb. cbn [hd].
  rewrite beq_refl. reflexivity.
Qed.

Lemma full_class_path_parse_full p b :
  all_noslash p -> noslash b -> full_class_path (parse_class_trace (full p b)) = full p b.
Proof.
  intros Hp Hb. rewrite parse_full by assumption. unfold full_class_path. cbn [fst snd].
  destruct (join [slash] (PFX :: p)) eqn:E.
  - exfalso. destruct p; cbn in E; [contradiction|]. destruct PFX; [contradiction|discriminate].
  - rewrite <- E. unfold full.
    assert (G : forall l, l <> [] -> join [slash] (l ++ [b]) = join [slash] l ++ slash :: b).
    { induction l as [|x l IH]; [contradiction|]. intros _. destruct l as [|y l].
      - reflexivity.
      - cbn [app]. rewrite !join_cons. change (y :: l ++ [b]) with ((y :: l) ++ [b]).
        rewrite IH by discriminate. rewrite <- !app_assoc. reflexivity. }
    change (PFX :: p ++ [b]) with ((PFX :: p) ++ [b]). symmetry. apply G. discriminate.
Qed.

Lemma voucher_class_native b : noslash b -> voucher_class Hh b = b.
Proof. intros Hb. unfold voucher_class. rewrite parse_native by exact Hb. reflexivity. Qed.

Lemma voucher_class_full p b :
  all_noslash p -> noslash b -> voucher_class Hh (full p b) = tibc_dash ++ Hh (full p b).
Proof.
  intros Hp Hb. unfold voucher_class, ibc_class.
  rewrite full_class_path_parse_full by assumption. rewrite parse_full by assumption. cbn [fst].
  destruct (join [slash] (PFX :: p)) eqn:E; [|reflexivity].
  exfalso. destruct p; cbn in E; [contradiction|]. destruct PFX; [contradiction|discriminate].
Qed.

End PathFacts.
