(** The MT ledger invariant "sum of balances = supply <= 2^64-1" per (class, id),
    preserved by every ledger operation the application and the users can run;
    under it no uint64 arithmetic wraps (C05), refunds are exact (C06) and an
    error acknowledgement leaves balances and supplies untouched (C19). *)
From Tibc Require Import Base.Bytes Base.BytesFacts Base.FMap Packet.Types Apps.Path Apps.Nft Apps.Mt.
From Coq Require Import ZArith ZifyN ZifyNat ZifyBool.
Ltac Zify.zify_post_hook ::= Z.div_mod_to_equations.

(** * sums over a holder map *)
Fixpoint sum_vals (m : fmap N) : N :=
  match m with [] => 0 | (_, v) :: r => v + sum_vals r end.

Definition val0 (o : option N) : N := match o with Some n => n | None => 0 end.

Definition wfm (m : fmap N) : Prop := NoDup (map fst m).

Lemma remove_notin k (m : fmap N) : ~ In k (map fst m) -> remove k m = m.
Proof.
  induction m as [|[k' v] m IH]; intros Hn; cbn; [reflexivity|].
  destruct (beq k k') eqn:E.
  - apply beq_spec in E. subst. exfalso. apply Hn. left. reflexivity.
  - rewrite IH; [reflexivity|]. intros X. apply Hn. right. exact X.
Qed.

Lemma lookup_notin k (m : fmap N) : ~ In k (map fst m) -> lookup k m = None.
Proof.
  induction m as [|[k' v] m IH]; intros Hn; cbn; [reflexivity|].
  destruct (beq k k') eqn:E.
  - apply beq_spec in E. subst. exfalso. apply Hn. left. reflexivity.
  - apply IH. intros X. apply Hn. right. exact X.
Qed.

Lemma in_remove_keys k k' (m : fmap N) : In k (map fst (remove k' m)) -> In k (map fst m) /\ k <> k'.
Proof.
  induction m as [|[k2 v] m IH]; cbn; [tauto|].
  destruct (beq k' k2) eqn:E.
  - intros Hi. destruct (IH Hi). split; auto.
  - cbn. intros [->|Hi].
    + split; [left; reflexivity|]. intros ->. rewrite beq_refl in E. discriminate.
    + destruct (IH Hi). split; auto.
Qed.

Lemma wfm_remove k m : wfm m -> wfm (remove k m).
Proof.
  unfold wfm. induction m as [|[k' v] m IH]; intros Hn; cbn; [constructor|].
  inversion Hn as [|? ? Hni Hn']; subst.
  destruct (beq k k'); [apply IH; exact Hn'|]. cbn. constructor; [|apply IH; exact Hn'].
  intros X. apply in_remove_keys in X. tauto.
Qed.

Lemma wfm_set k v m : wfm m -> wfm (set k v m).
Proof.
  intros W. unfold wfm, set. cbn. constructor; [|apply wfm_remove; exact W].
  intros X. apply in_remove_keys in X. destruct X as [_ X]. apply X. reflexivity.
Qed.

Lemma sum_remove k m : wfm m -> sum_vals (remove k m) + val0 (lookup k m) = sum_vals m.
Proof.
  unfold wfm. induction m as [|[k' v] m IH]; intros Hn; cbn; [reflexivity|].
  inversion Hn as [|? ? Hni Hn']; subst.
  destruct (beq k k') eqn:E.
  - apply beq_spec in E. subst k'. rewrite remove_notin by exact Hni. cbn. lia.
  - cbn. specialize (IH Hn'). lia.
Qed.

Lemma sum_set k v m : wfm m -> sum_vals (set k v m) + val0 (lookup k m) = sum_vals m + v.
Proof. intros W. unfold set. cbn. pose proof (sum_remove k m W). lia. Qed.

Lemma lookup_le_sum k m : val0 (lookup k m) <= sum_vals m.
Proof.
  induction m as [|[k' v] m IH]; cbn; [lia|].
  destruct (beq k k'); cbn; lia.
Qed.

Lemma lookup2_le_sum k k' m : wfm m -> k <> k' -> val0 (lookup k m) + val0 (lookup k' m) <= sum_vals m.
Proof.
  intros W Hn. pose proof (sum_remove k m W) as S.
  pose proof (lookup_le_sum k' (remove k m)) as L.
  rewrite lookup_remove_neq in L by (intros X; apply Hn; symmetry; exact X). lia.
Qed.


(** * the ledger invariant *)
Definition MtInv (st : mt_state) : Prop :=
  forall class id,
    wfm (holders st class id) /\
    sum_vals (holders st class id) = supply_of st class id /\
    supply_of st class id <= u64max.

Lemma holders_set_bal st o c i n c' i' :
  holders (set_bal st o c i n) c' i' =
  if beq (tkey c' i') (tkey c i) then set o n (holders st c i) else holders st c' i'.
Proof.
  unfold holders at 1. cbn [ms_bal set_bal]. rewrite lookup_set.
  destruct (beq (tkey c' i') (tkey c i)); reflexivity.
Qed.

Lemma supply_set_bal st o c i n c' i' : supply_of (set_bal st o c i n) c' i' = supply_of st c' i'.
Proof. reflexivity. Qed.

Lemma holders_set_supply st c i n c' i' : holders (set_supply st c i n) c' i' = holders st c' i'.
Proof. reflexivity. Qed.

Lemma supply_set_supply st c i n c' i' :
  supply_of (set_supply st c i n) c' i' = if beq (tkey c' i') (tkey c i) then n else supply_of st c' i'.
Proof.
  unfold supply_of at 1. cbn [ms_supply set_supply]. rewrite lookup_set.
  destruct (beq (tkey c' i') (tkey c i)); reflexivity.
Qed.

Lemma bal_of_val st o c i : bal_of st o c i = val0 (lookup o (holders st c i)).
Proof. reflexivity. Qed.

Lemma sub64_exact a b : b <= a -> a < two64 -> sub64 a b = a - b.
Proof. intros L B. unfold sub64, two64 in *. lia. Qed.

Lemma bal_le_supply st o c i : MtInv st -> bal_of st o c i <= supply_of st c i.
Proof.
  intros I. destruct (I c i) as (_ & S & _). rewrite bal_of_val, <- S. apply lookup_le_sum.
Qed.

(** TransferOwner under the invariant: succeeds exactly when the source holds
    enough, performs no wrapping subtraction and no overflowing addition, moves
    exactly [amt] units and preserves the invariant *)
Theorem mt_transfer_inv st c i amt src dst :
  MtInv st ->
  (bal_of st src c i < amt -> mt_transfer st c i amt src dst = (st, false)) /\
  (amt <= bal_of st src c i ->
   exists st', mt_transfer st c i amt src dst = (st', true) /\ MtInv st' /\
     (forall c' i', supply_of st' c' i' = supply_of st c' i') /\
     (src <> dst -> bal_of st' src c i = bal_of st src c i - amt /\
                    bal_of st' dst c i = bal_of st dst c i + amt) /\
     (src = dst -> bal_of st' src c i = bal_of st src c i) /\
     (forall o c' i', (c', i') <> (c, i) \/ (o <> src /\ o <> dst) -> bal_of st' o c' i' = bal_of st o c' i')).
Proof.
  intros I. unfold mt_transfer. split.
  - intros L. apply N.ltb_lt in L. rewrite L. reflexivity.
  - intros L. assert (L' : (bal_of st src c i <? amt) = false) by (apply N.ltb_ge; exact L). rewrite L'.
    destruct (I c i) as (W & S & SM).
    pose proof (bal_le_supply st src c i I) as BS.
    assert (B64 : bal_of st src c i < two64) by (unfold u64max, two64 in *; lia).
    unfold add_balance, sub_balance. rewrite sub64_exact by assumption.
    set (st1 := set_bal st src c i (bal_of st src c i - amt)).
    assert (H1 : holders st1 c i = set src (bal_of st src c i - amt) (holders st c i)).
    { unfold st1. rewrite holders_set_bal, beq_refl. reflexivity. }
    assert (BD : bal_of st1 dst c i = if beq dst src then bal_of st src c i - amt else bal_of st dst c i).
    { rewrite bal_of_val, H1, lookup_set. destruct (beq dst src); reflexivity. }
    assert (NOV : (u64max - bal_of st1 dst c i <? amt) = false).
    { apply N.ltb_ge. rewrite BD. destruct (beq dst src) eqn:E.
      - lia.
      - apply beq_false in E. pose proof (lookup2_le_sum dst src (holders st c i) W E) as L2.
        rewrite <- !bal_of_val in L2. lia. }
    rewrite NOV. eexists. split; [reflexivity|].
    set (st2 := set_bal st1 dst c i (bal_of st1 dst c i + amt)).
    assert (H2 : holders st2 c i = set dst (bal_of st1 dst c i + amt) (holders st1 c i)).
    { unfold st2. rewrite holders_set_bal, beq_refl. reflexivity. }
    split; [|split; [|split; [|split]]].
    + (* invariant *)
      intros c' i'. destruct (I c' i') as (W' & S' & SM').
      change (supply_of st2 c' i') with (supply_of st c' i').
      assert (HH : holders st2 c' i' =
                   if beq (tkey c' i') (tkey c i)
                   then set dst (bal_of st1 dst c i + amt) (set src (bal_of st src c i - amt) (holders st c i))
                   else holders st c' i').
      { unfold st2. rewrite holders_set_bal. destruct (beq (tkey c' i') (tkey c i)) eqn:E.
        - rewrite H1. reflexivity.
        - unfold st1. rewrite holders_set_bal, E. reflexivity. }
      rewrite HH.
      destruct (beq (tkey c' i') (tkey c i)) eqn:E.
      * apply beq_spec in E. apply tkey_inj in E. destruct E as [-> ->].
        split; [apply wfm_set; apply wfm_set; exact W|]. split; [|exact SM].
        pose proof (sum_set src (bal_of st src c i - amt) (holders st c i) W) as S1.
        pose proof (sum_set dst (bal_of st1 dst c i + amt) (set src (bal_of st src c i - amt) (holders st c i))
                            (wfm_set _ _ _ W)) as S2.
        rewrite <- bal_of_val in S1. rewrite <- H1 in S2 at 2. rewrite <- bal_of_val in S2. lia.
      * auto.
    + intros c' i'. reflexivity.
    + intros Hn. split.
      * rewrite bal_of_val, H2, lookup_set.
        assert (E : beq src dst = false) by (apply beq_false; exact Hn). rewrite E.
        rewrite H1, lookup_set_eq. reflexivity.
      * rewrite bal_of_val, H2, lookup_set_eq. rewrite BD.
        assert (E : beq dst src = false) by (apply beq_false; congruence). rewrite E. reflexivity.
    + intros ->. rewrite bal_of_val, H2, lookup_set_eq. rewrite BD, beq_refl. cbn [val0]. lia.
    + intros o c' i' Hc. rewrite !bal_of_val. unfold st2. rewrite holders_set_bal. unfold st1 at 2. rewrite holders_set_bal.
      destruct (beq (tkey c' i') (tkey c i)) eqn:E.
      * apply beq_spec in E. apply tkey_inj in E. destruct E as [-> ->].
        destruct Hc as [Hc|[Ho1 Ho2]]; [exfalso; apply Hc; reflexivity|].
        rewrite lookup_set_neq by exact Ho2. rewrite beq_refl. rewrite lookup_set_neq by exact Ho1. reflexivity.
      * unfold st1. rewrite holders_set_bal, E. reflexivity.
Qed.

(** MintMT (and IssueMT's arithmetic): succeeds iff the supply does not
    overflow; preserves the invariant *)
Theorem mt_mint_inv st c i amt rcpt :
  MtInv st ->
  (u64max < supply_of st c i + amt -> mt_mint st c i amt rcpt = (st, false)) /\
  (supply_of st c i + amt <= u64max ->
   exists st', mt_mint st c i amt rcpt = (st', true) /\ MtInv st' /\
     supply_of st' c i = supply_of st c i + amt /\
     bal_of st' rcpt c i = bal_of st rcpt c i + amt /\
     (forall o c' i', (c', i') <> (c, i) \/ o <> rcpt -> bal_of st' o c' i' = bal_of st o c' i') /\
     (forall c' i', (c', i') <> (c, i) -> supply_of st' c' i' = supply_of st c' i')).
Proof.
  intros I. unfold mt_mint, inc_supply. destruct (I c i) as (W & S & SM). split.
  - intros L. assert (X : (u64max - supply_of st c i <? amt) = true) by (apply N.ltb_lt; lia). rewrite X. reflexivity.
  - intros L. assert (X : (u64max - supply_of st c i <? amt) = false) by (apply N.ltb_ge; lia). rewrite X.
    set (st1 := set_supply st c i (supply_of st c i + amt)).
    unfold add_balance.
    assert (B1 : bal_of st1 rcpt c i = bal_of st rcpt c i) by reflexivity.
    pose proof (bal_le_supply st rcpt c i I) as BS.
    assert (NOV : (u64max - bal_of st1 rcpt c i <? amt) = false) by (apply N.ltb_ge; rewrite B1; lia).
    rewrite NOV. eexists. split; [reflexivity|].
    split; [|split; [|split; [|split]]].
    + intros c' i'. destruct (I c' i') as (W' & S' & SM').
      rewrite holders_set_bal, supply_set_bal. unfold st1. rewrite holders_set_supply, supply_set_supply.
      destruct (beq (tkey c' i') (tkey c i)) eqn:E.
      * apply beq_spec in E. apply tkey_inj in E. destruct E as [-> ->].
        split; [apply wfm_set; exact W|]. split; [|exact L].
        pose proof (sum_set rcpt (bal_of st rcpt c i + amt) (holders st c i) W) as S1.
        rewrite <- bal_of_val in S1. change (bal_of (set_supply st c i (supply_of st c i + amt)) rcpt c i) with (bal_of st rcpt c i). lia.
      * auto.
    + rewrite supply_set_bal. unfold st1. rewrite supply_set_supply, beq_refl. reflexivity.
    + rewrite bal_of_val, holders_set_bal, beq_refl, lookup_set_eq. reflexivity.
    + intros o c' i' Hc. rewrite !bal_of_val, holders_set_bal. unfold st1. rewrite !holders_set_supply.
      destruct (beq (tkey c' i') (tkey c i)) eqn:E; [|reflexivity].
      apply beq_spec in E. apply tkey_inj in E. destruct E as [-> ->].
      destruct Hc as [Hc|Ho]; [exfalso; apply Hc; reflexivity|]. rewrite lookup_set_neq by exact Ho. reflexivity.
    + intros c' i' Hc. rewrite supply_set_bal. unfold st1. rewrite supply_set_supply.
      destruct (beq (tkey c' i') (tkey c i)) eqn:E; [|reflexivity].
      apply beq_spec in E. apply tkey_inj in E. destruct E as [-> ->]. exfalso. apply Hc. reflexivity.
Qed.

(** BurnMT under the invariant *)
Theorem mt_burn_inv st c i amt owner :
  MtInv st ->
  (bal_of st owner c i < amt -> mt_burn st c i amt owner = (st, false)) /\
  (amt <= bal_of st owner c i ->
   exists st', mt_burn st c i amt owner = (st', true) /\ MtInv st' /\
     supply_of st' c i = supply_of st c i - amt /\
     bal_of st' owner c i = bal_of st owner c i - amt /\
     (forall o c' i', (c', i') <> (c, i) \/ o <> owner -> bal_of st' o c' i' = bal_of st o c' i') /\
     (forall c' i', (c', i') <> (c, i) -> supply_of st' c' i' = supply_of st c' i')).
Proof.
  intros I. unfold mt_burn. split.
  - intros L. apply N.ltb_lt in L. rewrite L. reflexivity.
  - intros L. assert (L' : (bal_of st owner c i <? amt) = false) by (apply N.ltb_ge; exact L). rewrite L'.
    destruct (I c i) as (W & S & SM).
    pose proof (bal_le_supply st owner c i I) as BS.
    assert (B64 : bal_of st owner c i < two64) by (unfold u64max, two64 in *; lia).
    assert (S64 : supply_of st c i < two64) by (unfold u64max, two64 in *; lia).
    unfold sub_balance, dec_supply. rewrite sub64_exact by assumption.
    set (st1 := set_bal st owner c i (bal_of st owner c i - amt)).
    assert (SS : supply_of st1 c i = supply_of st c i) by reflexivity.
    rewrite SS. rewrite sub64_exact by (try assumption; lia).
    eexists. split; [reflexivity|].
    split; [|split; [|split; [|split]]].
    + intros c' i'. destruct (I c' i') as (W' & S' & SM').
      rewrite holders_set_supply, supply_set_supply. unfold st1. rewrite holders_set_bal, supply_set_bal.
      destruct (beq (tkey c' i') (tkey c i)) eqn:E.
      * apply beq_spec in E. apply tkey_inj in E. destruct E as [-> ->].
        split; [apply wfm_set; exact W|]. split; [|lia].
        pose proof (sum_set owner (bal_of st owner c i - amt) (holders st c i) W) as S1.
        rewrite <- bal_of_val in S1. lia.
      * auto.
    + rewrite supply_set_supply, beq_refl. reflexivity.
    + rewrite bal_of_val, holders_set_supply. unfold st1. rewrite holders_set_bal, beq_refl, lookup_set_eq. reflexivity.
    + intros o c' i' Hc. rewrite !bal_of_val, holders_set_supply. unfold st1. rewrite holders_set_bal.
      destruct (beq (tkey c' i') (tkey c i)) eqn:E; [|reflexivity].
      apply beq_spec in E. apply tkey_inj in E. destruct E as [-> ->].
      destruct Hc as [Hc|Ho]; [exfalso; apply Hc; reflexivity|]. rewrite lookup_set_neq by exact Ho. reflexivity.
    + intros c' i' Hc. rewrite supply_set_supply.
      destruct (beq (tkey c' i') (tkey c i)) eqn:E; [|reflexivity].
      apply beq_spec in E. apply tkey_inj in E. destruct E as [-> ->]. exfalso. apply Hc. reflexivity.
Qed.

Lemma MtInv_init : MtInv (mkMtState [] [] [] [] []).
Proof. intros c i. cbn. repeat split; [constructor | unfold u64max; lia]. Qed.

(** states that differ only outside balances and supplies *)
Definition same_amounts (a b : mt_state) : Prop :=
  (forall o c i, bal_of a o c i = bal_of b o c i) /\ (forall c i, supply_of a c i = supply_of b c i).

Lemma same_amounts_refl a : same_amounts a a.
Proof. split; reflexivity. Qed.

Definition same_ledger (a b : mt_state) : Prop := ms_bal a = ms_bal b /\ ms_supply a = ms_supply b.

Lemma MtInv_same_ledger a b : same_ledger a b -> MtInv a -> MtInv b.
Proof.
  intros [E1 E2] I c i. specialize (I c i). unfold holders, supply_of in *. rewrite <- E1, <- E2. exact I.
Qed.

(** IssueMT has MintMT's arithmetic *)
Lemma mt_issue_as_mint st c i amt data r :
  let st0 := mkMtState (ms_classes st) (set (tkey c i) data (ms_mts st)) (ms_supply st) (ms_bal st) (ms_traces st) in
  mt_issue st c i amt data r = mt_mint st0 c i amt r.
Proof. reflexivity. Qed.

Section MtFacts.
Variable Hh : bytes -> bytes.
Variable valid_addr : bytes -> bool.
Variable escrow : bytes.

Notation mt_recv_core := (mt_recv_core Hh valid_addr escrow).

(** ** C19 / C05: the receive callback under the invariant.  Whatever the
    outcome the invariant is kept; with an error outcome no balance and no
    supply changed; with a success exactly [amount] units reached the receiver. *)
Theorem mt_recv_inv st src dst d st' r :
  MtInv st -> mt_recv_core st src dst d = (st', r) ->
  MtInv st' /\ (r = RvErr -> same_amounts st' st) /\ (r = RvPanic -> st' = st).
Proof.
  intros I. unfold Mt.mt_recv_core.
  assert (ERR : (st, RvErr) = (st', r) ->
                MtInv st' /\ (r = RvErr -> same_amounts st' st) /\ (r = RvPanic -> st' = st)).
  { intros E. inversion E; subst. split; [exact I|]. split; [intros _; apply same_amounts_refl | discriminate]. }
  destruct (blank (md_sender d) || blank (md_receiver d) || N.eqb (md_amount d) 0); [exact ERR|].
  destruct (valid_addr (md_receiver d)); cbn [negb]; [|exact ERR].
  destruct (md_away d).
  - set (tr := parse_class_trace (away_new_class_path MT_PFX src dst (md_class d))).
    set (st1 := if has (Hh (full_class_path tr)) (ms_traces st) then st else _).
    set (voucher := ibc_class Hh tr).
    set (st2 := if mt_has_class voucher st1 then st1 else mt_issue_class st1 voucher escrow).
    assert (L2 : same_ledger st st2).
    { unfold st2, st1. destruct (mt_has_class voucher _); destruct (has _ (ms_traces st)); split; reflexivity. }
    set (st2' := if mt_exists st2 voucher (md_id d) then st2
                 else mkMtState (ms_classes st2) (set (tkey voucher (md_id d)) (md_data d) (ms_mts st2))
                                (ms_supply st2) (ms_bal st2) (ms_traces st2)).
    assert (EQ : (if mt_exists st2 voucher (md_id d)
                  then mt_mint st2 voucher (md_id d) (md_amount d) escrow
                  else mt_issue st2 voucher (md_id d) (md_amount d) (md_data d) escrow)
                 = mt_mint st2' voucher (md_id d) (md_amount d) escrow).
    { unfold st2'. destruct (mt_exists st2 voucher (md_id d)); reflexivity. }
    rewrite EQ.
    assert (L2' : same_ledger st st2').
    { destruct L2 as [E1 E2]. unfold st2'. destruct (mt_exists _ _ _); split; cbn; congruence. }
    assert (I2' : MtInv st2') by (eapply MtInv_same_ledger; eauto).
    assert (A2' : same_amounts st2' st).
    { destruct L2' as [E1 E2]. split; intros; unfold bal_of, holders, supply_of; rewrite ?E1, ?E2; reflexivity. }
    destruct (mt_mint_inv st2' voucher (md_id d) (md_amount d) escrow I2') as [MF MO].
    destruct (N.ltb_spec u64max (supply_of st2' voucher (md_id d) + md_amount d)) as [OV|NOV].
    + rewrite (MF OV). cbn [negb]. intros E. inversion E; subst.
      split; [exact I2'|]. split; [intros _; exact A2' | discriminate].
    + destruct (MO NOV) as (st3 & M3 & I3 & S3 & B3 & BO3 & SO3). rewrite M3. cbn [negb].
      destruct (mt_transfer_inv st3 voucher (md_id d) (md_amount d) escrow (md_receiver d) I3) as [_ TO].
      destruct TO as (st4 & T4 & I4 & _); [lia|]. rewrite T4.
      intros E. inversion E; subst. split; [exact I4|]. split; discriminate.
  - destruct (has_prefix MT_PFX (md_class d)); cbn [negb]; [|exact ERR].
    destruct (back_new_class_path (md_class d)) as [np|].
    2:{ intros E. inversion E; subst. split; [exact I|]. split; [discriminate | reflexivity]. }
    destruct (mt_transfer_inv st (voucher_class Hh np) (md_id d) (md_amount d) escrow (md_receiver d) I) as [TF TO].
    destruct (N.ltb_spec (bal_of st escrow (voucher_class Hh np) (md_id d)) (md_amount d)) as [LT|GE].
    + rewrite (TF LT). exact ERR.
    + destruct (TO GE) as (st1 & T1 & I1 & _). rewrite T1. intros E. inversion E; subst.
      split; [exact I1|]. split; discriminate.
Qed.

Variable enc : mt_data -> bytes.
Variable dec : bytes -> option mt_data.
Notation mt_send := (mt_send escrow enc).
Notation mt_refund := (mt_refund Hh valid_addr escrow).

Lemma same_ledger_inv_classes st cls : MtInv st -> MtInv (mkMtState cls (ms_mts st) (ms_supply st) (ms_bal st) (ms_traces st)).
Proof. apply MtInv_same_ledger. split; reflexivity. Qed.

(** SendMtTransfer's ledger step keeps the invariant and moves exactly the amount *)
Theorem mt_send_inv name seq st class id sender receiver dest relay contract amt st1 p :
  MtInv st -> mt_send name seq st class id sender receiver dest relay contract amt = Some (st1, p) ->
  MtInv st1 /\ amt <= bal_of st sender class id /\
  p_src p = name /\ p_dst p = dest /\ p_relay p = relay /\ p_seq p = seq /\ p_port p = MT_PORT.
Proof.
  intros I. unfold Mt.mt_send. intros E.
  destruct (mt_has_class class st); [|discriminate]. cbn [negb] in E.
  destruct (lookup (tkey class id) (ms_mts st)) as [mdata|]; [|discriminate].
  destruct (beq name dest); [discriminate|].
  destruct (mt_class_path_of st class) as [full|]; [|discriminate].
  destruct (determine_away MT_PFX full dest) as [away|]; [|discriminate].
  destruct away.
  - destruct (mt_transfer_inv st class id amt sender escrow I) as [TF TO].
    destruct (N.ltb_spec (bal_of st sender class id) amt) as [LT|GE].
    + rewrite (TF LT) in E. discriminate.
    + destruct (TO GE) as (st' & T & I' & _). rewrite T in E. inversion E; subst.
      split; [exact I'|]. split; [exact GE|]. cbn. auto.
  - destruct (mt_burn_inv st class id amt sender I) as [BF BO].
    destruct (N.ltb_spec (bal_of st sender class id) amt) as [LT|GE].
    + rewrite (BF LT) in E. discriminate.
    + destruct (BO GE) as (st' & T & I' & _). rewrite T in E. inversion E; subst.
      split; [exact I'|]. split; [exact GE|]. cbn. auto.
Qed.

(** ** C06 (MT): processing the error acknowledgement gives the sender back
    exactly the amount that left, restores the supply, and nothing else moves *)
Theorem mt_refund_exact name seq st class id sender receiver dest relay contract amt st1 p d :
  MtInv st -> sender <> escrow ->
  mt_send name seq st class id sender receiver dest relay contract amt = Some (st1, p) ->
  dec (p_data p) = Some d -> (forall x, dec (enc x) = Some x) ->
  valid_addr sender = true -> voucher_class Hh (md_class d) = class ->
  exists st2, mt_refund st1 d = Some st2 /\ same_amounts st2 st /\ MtInv st2.
Proof.
  intros I NE E D DE VA CP. unfold Mt.mt_send in E.
  destruct (mt_has_class class st); [|discriminate]. cbn [negb] in E.
  destruct (lookup (tkey class id) (ms_mts st)) as [mdata|]; [|discriminate].
  destruct (beq name dest); [discriminate|].
  destruct (mt_class_path_of st class) as [full|]; [|discriminate].
  destruct (determine_away MT_PFX full dest) as [away|]; [|discriminate].
  destruct away.
  - (* locked in escrow, released again *)
    destruct (mt_transfer_inv st class id amt sender escrow I) as [TF TO].
    destruct (N.ltb_spec (bal_of st sender class id) amt) as [LT|GE]; [rewrite (TF LT) in E; discriminate|].
    destruct (TO GE) as (st' & T & I' & SU & BNE & _ & BO). rewrite T in E. inversion E; subst st1 p. clear E.
    cbn [p_data] in D. rewrite DE in D. inversion D; subst d. clear D. cbn [md_class] in CP.
    unfold Mt.mt_refund. cbn [md_sender md_away md_class md_id md_amount]. rewrite VA, CP. cbn [negb].
    destruct (BNE NE) as [B1 B2].
    destruct (mt_transfer_inv st' class id amt escrow sender I') as [_ TO2].
    destruct TO2 as (st2 & T2 & I2 & SU2 & BNE2 & _ & BO2); [lia|]. rewrite T2.
    exists st2. split; [reflexivity|]. split; [|exact I2].
    assert (NE' : escrow <> sender) by congruence. destruct (BNE2 NE') as [C1 C2].
    split.
    + intros o c i.
      destruct (bytes_eq_dec (tkey c i) (tkey class id)) as [K|K].
      * apply tkey_inj in K. destruct K as [-> ->].
        destruct (bytes_eq_dec o sender) as [->|O1]; [lia|].
        destruct (bytes_eq_dec o escrow) as [->|O2]; [lia|].
        rewrite BO2 by (right; split; congruence). rewrite BO by (right; split; congruence). reflexivity.
      * assert (K' : (c, i) <> (class, id)) by (intros X; inversion X; subst; apply K; reflexivity).
        rewrite BO2 by (left; exact K'). rewrite BO by (left; exact K'). reflexivity.
    + intros c i. rewrite SU2, SU. reflexivity.
  - (* burned, minted again *)
    destruct (mt_burn_inv st class id amt sender I) as [BF BO].
    destruct (N.ltb_spec (bal_of st sender class id) amt) as [LT|GE]; [rewrite (BF LT) in E; discriminate|].
    destruct (BO GE) as (st' & T & I' & SU & B1 & BOO & SO). rewrite T in E. inversion E; subst st1 p. clear E.
    cbn [p_data] in D. rewrite DE in D. inversion D; subst d. clear D. cbn [md_class] in CP.
    unfold Mt.mt_refund. cbn [md_sender md_away md_class md_id md_amount]. rewrite VA, CP. cbn [negb].
    pose proof (bal_le_supply st sender class id I) as BS.
    destruct (I class id) as (_ & _ & SM).
    destruct (mt_mint_inv st' class id amt escrow I') as [_ MO].
    destruct MO as (st2 & M2 & I2 & SU2 & BM2 & BMO2 & SMO2); [lia|]. rewrite M2.
    destruct (mt_transfer_inv st2 class id amt escrow sender I2) as [_ TO3].
    destruct TO3 as (st3 & T3 & I3 & SU3 & BNE3 & _ & BO3); [lia|]. rewrite T3.
    exists st3. split; [reflexivity|]. split; [|exact I3].
    assert (NE' : escrow <> sender) by congruence. destruct (BNE3 NE') as [C1 C2].
    split.
    + intros o c i.
      destruct (bytes_eq_dec (tkey c i) (tkey class id)) as [K|K].
      * apply tkey_inj in K. destruct K as [-> ->].
        destruct (bytes_eq_dec o sender) as [->|O1].
        -- rewrite C2. rewrite BMO2 by (right; exact NE). lia.
        -- destruct (bytes_eq_dec o escrow) as [->|O2].
           ++ rewrite C1, BM2. rewrite BOO by (right; congruence). lia.
           ++ rewrite BO3 by (right; split; congruence). rewrite BMO2 by (right; exact O2).
              rewrite BOO by (right; exact O1). reflexivity.
      * assert (K' : (c, i) <> (class, id)) by (intros X; inversion X; subst; apply K; reflexivity).
        rewrite BO3 by (left; exact K'). rewrite BMO2 by (left; exact K'). rewrite BOO by (left; exact K'). reflexivity.
    + intros c i. rewrite SU3.
      destruct (bytes_eq_dec (tkey c i) (tkey class id)) as [K|K].
      * apply tkey_inj in K. destruct K as [-> ->]. rewrite SU2, SU. lia.
      * assert (K' : (c, i) <> (class, id)) by (intros X; inversion X; subst; apply K; reflexivity).
        rewrite SMO2 by exact K'. rewrite SO by exact K'. reflexivity.
Qed.

End MtFacts.
