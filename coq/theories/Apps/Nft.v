(** apps/nft_transfer: SendNftTransfer, OnRecvPacket, OnAcknowledgementPacket /
    refundPacketToken (keeper/relay.go, moudle.go) over a ledger modelling the
    irismod nft keeper operations the app uses (GetDenom, GetNFT, IssueDenom,
    MintNFT, TransferOwner, BurnNFT) with their failure conditions. *)
From Tibc Require Import Base.Bytes Base.FMap Packet.Types Apps.Path.

Definition NFT_PFX : bytes := of_string "nft".
Definition NFT_PORT : bytes := of_string "NFT".
Definition ack_ok : bytes := of_string "result:01".          (* NewResultAcknowledgement([]byte{1}) *)
Definition ack_err : bytes := of_string "error:app".         (* NewErrorAcknowledgement(err) *)
Definition is_err_ack (a : bytes) : bool := has_prefix (of_string "error:") a.
Definition is_ok_ack (a : bytes) : bool := has_prefix (of_string "result:") a.

(** injective key for (class, id): class bytes shifted by one, 0 separator *)
Definition tkey (class id : bytes) : bytes := map N.succ class ++ 0 :: id.

Lemma tkey_inj c i c' i' : tkey c i = tkey c' i' -> c = c' /\ i = i'.
Proof.
  unfold tkey. revert c'. induction c as [|x c IH]; intros [|y c'] E; cbn in E.
  - inversion E. auto.
  - inversion E as [[E1 E2]]. destruct y; discriminate.
  - inversion E as [[E1 E2]]. destruct x; discriminate.
  - inversion E as [[E1 E2]]. apply N.succ_inj in E1. subst y.
    destruct (IH c' E2) as [-> ->]. auto.
Qed.

(** strings.TrimSpace(x) == "" for ASCII white space *)
Definition is_space (c : N) : bool := ((9 <=? c) && (c <=? 13)) || N.eqb c 32.
Definition blank (x : bytes) : bool := forallb is_space x.

Record nft_data := mkNftData {
  nd_class : bytes; nd_id : bytes; nd_uri : bytes; nd_sender : bytes; nd_receiver : bytes;
  nd_away : bool; nd_contract : bytes }.

Record nft_state := mkNftState {
  ns_classes : fmap (bytes * bool);      (* denom -> (creator, mintRestricted) *)
  ns_tokens : fmap (bytes * bytes);      (* tkey class id -> (owner, uri) *)
  ns_traces : fmap bytes }.              (* Hh(full path) -> full path *)

Section Nft.
Variable Hh : bytes -> bytes.                       (* hex(sha256) of a class path *)
Variable valid_addr : bytes -> bool.                (* sdk.AccAddressFromBech32 succeeds *)
Variable escrow : bytes.                            (* transfer module account *)
Variable enc : nft_data -> bytes.                   (* protobuf encoding of the packet data *)
Variable dec : bytes -> option nft_data.

Notation determine_away := (determine_away NFT_PFX).
Notation away_new_class_path := (away_new_class_path NFT_PFX).

Definition has_class (c : bytes) (st : nft_state) : bool := has c (ns_classes st).
Definition token_at (st : nft_state) (class id : bytes) : option (bytes * bytes) :=
  lookup (tkey class id) (ns_tokens st).
Definition owner_of (st : nft_state) (class id : bytes) : option bytes := option_map fst (token_at st class id).

Definition with_tokens (st : nft_state) (t : fmap (bytes * bytes)) : nft_state :=
  mkNftState (ns_classes st) t (ns_traces st).

(** x/nft Mint: class must exist, token must not *)
Definition nft_mint (st : nft_state) (class id uri owner : bytes) : option nft_state :=
  if negb (has_class class st) then None else
  match token_at st class id with
  | Some _ => None
  | None => Some (with_tokens st (set (tkey class id) (owner, uri) (ns_tokens st)))
  end.

(** irismod TransferOwnership with "[do-not-modify]" fields *)
Definition nft_transfer (st : nft_state) (class id src dst : bytes) : option nft_state :=
  match token_at st class id with
  | None => None
  | Some (owner, uri) =>
      if negb (beq owner src) then None else
      if negb (has_class class st) then None else
      Some (with_tokens st (set (tkey class id) (dst, uri) (ns_tokens st)))
  end.

(** irismod RemoveNFT: Authorize then Burn *)
Definition nft_burn (st : nft_state) (class id owner : bytes) : option nft_state :=
  match token_at st class id with
  | None => None
  | Some (o, _) =>
      if negb (beq o owner) then None else
      if negb (has_class class st) then None else
      Some (with_tokens st (remove (tkey class id) (ns_tokens st)))
  end.

Definition nft_issue_class (st : nft_state) (class creator : bytes) (restricted : bool) : nft_state :=
  mkNftState (set class (creator, restricted) (ns_classes st)) (ns_tokens st) (ns_traces st).

(** ClassPathFromHash: "tibc-<HASH>" -> full class path via the trace store *)
Definition class_path_of (st : nft_state) (class : bytes) : option bytes :=
  if has_prefix tibc_dash class then lookup (skipn 5 class) (ns_traces st) else Some class.

(** SendNftTransfer up to (not including) the packet keeper's SendPacket *)
Definition nft_send (name : bytes) (seq : N) (st : nft_state)
    (class id sender receiver dest relay contract : bytes) : option (nft_state * packet) :=
  if negb (has_class class st) then None else
  match token_at st class id with
  | None => None
  | Some (_, uri) =>
      if beq name dest then None else
      match class_path_of st class with
      | None => None
      | Some full =>
          match determine_away full dest with
          | None => None                                       (* index panic *)
          | Some away =>
              match (if away then nft_transfer st class id sender escrow
                     else nft_burn st class id sender) with
              | None => None
              | Some st' =>
                  Some (st', mkPacket seq name dest relay NFT_PORT
                               (enc (mkNftData full id uri sender receiver away contract)))
              end
          end
      end
  end.

Inductive recv_res := RvOk | RvErr | RvPanic.

(** keeper.OnRecvPacket; state changes made before an error persist (the
    callback runs on the live context and the error becomes an acknowledgement) *)
Definition nft_recv_core (st : nft_state) (src dst : bytes) (d : nft_data) : nft_state * recv_res :=
  if blank (nd_sender d) || blank (nd_receiver d) then (st, RvErr) else
  if negb (valid_addr (nd_receiver d)) then (st, RvErr) else
  if nd_away d then
    let newpath := away_new_class_path src dst (nd_class d) in
    let tr := parse_class_trace newpath in
    let h := Hh (full_class_path tr) in
    let st1 := if has h (ns_traces st) then st
               else mkNftState (ns_classes st) (ns_tokens st) (set h (full_class_path tr) (ns_traces st)) in
    let voucher := ibc_class Hh tr in
    let st2 := if has_class voucher st1 then st1 else nft_issue_class st1 voucher escrow true in
    match nft_mint st2 voucher (nd_id d) (nd_uri d) escrow with
    | None => (st2, RvErr)
    | Some st3 =>
        match nft_transfer st3 voucher (nd_id d) escrow (nd_receiver d) with
        | None => (st3, RvErr)
        | Some st4 => (st4, RvOk)
        end
    end
  else
    if negb (has_prefix NFT_PFX (nd_class d)) then (st, RvErr) else
    match back_new_class_path (nd_class d) with
    | None => (st, RvPanic)
    | Some np =>
        let voucher := voucher_class Hh np in
        match nft_transfer st voucher (nd_id d) escrow (nd_receiver d) with
        | None => (st, RvErr)
        | Some st' => (st', RvOk)
        end
    end.

(** AppModule.OnRecvPacket: [None] = the callback itself fails (message fails) *)
Definition nft_on_recv (st : nft_state) (p : packet) : option (nft_state * option bytes) :=
  match dec (p_data p) with
  | None => None
  | Some d =>
      match nft_recv_core st (p_src p) (p_dst p) d with
      | (st', RvOk) => Some (st', Some ack_ok)
      | (st', RvErr) => Some (st', Some ack_err)
      | (_, RvPanic) => None
      end
  end.

(** refundPacketToken *)
Definition nft_refund (st : nft_state) (d : nft_data) : option nft_state :=
  if negb (valid_addr (nd_sender d)) then None else
  let voucher := voucher_class Hh (nd_class d) in
  if nd_away d then nft_transfer st voucher (nd_id d) escrow (nd_sender d)
  else match nft_mint st voucher (nd_id d) (nd_uri d) escrow with
       | None => None
       | Some st1 => nft_transfer st1 voucher (nd_id d) escrow (nd_sender d)
       end.

(** AppModule.OnAcknowledgementPacket *)
Definition nft_on_ack (st : nft_state) (p : packet) (ack : bytes) : option nft_state :=
  if negb (is_err_ack ack || is_ok_ack ack) then None else      (* ack.Unmarshal fails *)
  match dec (p_data p) with
  | None => None
  | Some d => if is_err_ack ack then nft_refund st d else Some st
  end.

End Nft.
