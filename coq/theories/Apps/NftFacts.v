(** Local theorems about the NFT transfer application: error acknowledgements
    leave ownership untouched (C19), refunds restore exactly what left (C06),
    escrow is released only by the application's own receive / refund paths (C04). *)
From Tibc Require Import Base.Bytes Base.BytesFacts Base.FMap Host.KeysFacts Packet.Types
  Apps.Path Apps.PathFacts Apps.Nft.

Section NftFacts.
Variable Hh : bytes -> bytes.
Variable valid_addr : bytes -> bool.
Variable escrow : bytes.
Variable enc : nft_data -> bytes.
Variable dec : bytes -> option nft_data.

Notation nft_recv_core := (nft_recv_core Hh valid_addr escrow).
Notation nft_refund := (nft_refund Hh valid_addr escrow).
Notation nft_send := (nft_send escrow enc).

(** pointwise equality of the ownership ledger *)
Definition same_tokens (a b : nft_state) : Prop :=
  forall class id, token_at a class id = token_at b class id.

Lemma same_tokens_refl a : same_tokens a a.
Proof. intros c i. reflexivity. Qed.

Lemma token_at_set st class id v c i :
  token_at (with_tokens st (set (tkey class id) v (ns_tokens st))) c i =
  if beq c class && beq i id then Some v else token_at st c i.
Proof.
  unfold token_at. cbn [ns_tokens with_tokens]. rewrite lookup_set.
  destruct (beq (tkey c i) (tkey class id)) eqn:E.
  - apply beq_spec in E. apply tkey_inj in E. destruct E as [-> ->]. rewrite !beq_refl. reflexivity.
  - destruct (beq c class && beq i id) eqn:B; [|reflexivity].
    rewrite andb_true_iff in B. destruct B as [B1 B2]. apply beq_spec in B1, B2. subst.
    rewrite beq_refl in E. discriminate.
Qed.

Lemma token_at_remove st class id c i :
  token_at (with_tokens st (remove (tkey class id) (ns_tokens st))) c i =
  if beq c class && beq i id then None else token_at st c i.
Proof.
  unfold token_at. cbn [ns_tokens with_tokens]. rewrite lookup_remove.
  destruct (beq (tkey c i) (tkey class id)) eqn:E.
  - apply beq_spec in E. apply tkey_inj in E. destruct E as [-> ->]. rewrite !beq_refl. reflexivity.
  - destruct (beq c class && beq i id) eqn:B; [|reflexivity].
    rewrite andb_true_iff in B. destruct B as [B1 B2]. apply beq_spec in B1, B2. subst.
    rewrite beq_refl in E. discriminate.
Qed.

(** ** ledger primitives *)

Lemma nft_mint_spec st class id uri owner st' :
  nft_mint st class id uri owner = Some st' ->
  has_class class st = true /\ token_at st class id = None /\
  ns_classes st' = ns_classes st /\ ns_traces st' = ns_traces st /\
  (forall c i, token_at st' c i = if beq c class && beq i id then Some (owner, uri) else token_at st c i).
Proof.
  unfold nft_mint. destruct (has_class class st) eqn:HC; [|discriminate]. cbn [negb].
  destruct (token_at st class id) eqn:T; [discriminate|]. intros E. inversion E; subst st'.
  repeat split; auto. intros c i. apply token_at_set.
Qed.

Lemma nft_transfer_spec st class id src dst st' :
  nft_transfer st class id src dst = Some st' ->
  exists uri, token_at st class id = Some (src, uri) /\ has_class class st = true /\
  ns_classes st' = ns_classes st /\ ns_traces st' = ns_traces st /\
  (forall c i, token_at st' c i = if beq c class && beq i id then Some (dst, uri) else token_at st c i).
Proof.
  unfold nft_transfer. destruct (token_at st class id) as [[o uri]|] eqn:T; [|discriminate].
  destruct (beq o src) eqn:B; [|discriminate]. cbn [negb].
  destruct (has_class class st) eqn:HC; [|discriminate]. cbn [negb].
  intros E. inversion E; subst st'. apply beq_spec in B. subst o. exists uri.
  repeat split; auto. intros c i. apply token_at_set.
Qed.

Lemma nft_transfer_ok st class id src dst uri :
  token_at st class id = Some (src, uri) -> has_class class st = true ->
  exists st', nft_transfer st class id src dst = Some st'.
Proof.
  intros T HC. unfold nft_transfer. rewrite T, beq_refl, HC. cbn [negb]. eauto.
Qed.

Lemma nft_burn_spec st class id owner st' :
  nft_burn st class id owner = Some st' ->
  exists uri, token_at st class id = Some (owner, uri) /\ has_class class st = true /\
  ns_classes st' = ns_classes st /\ ns_traces st' = ns_traces st /\
  (forall c i, token_at st' c i = if beq c class && beq i id then None else token_at st c i).
Proof.
  unfold nft_burn. destruct (token_at st class id) as [[o uri]|] eqn:T; [|discriminate].
  destruct (beq o owner) eqn:B; [|discriminate]. cbn [negb].
  destruct (has_class class st) eqn:HC; [|discriminate]. cbn [negb].
  intros E. inversion E; subst st'. apply beq_spec in B. subst o. exists uri.
  repeat split; auto. intros c i. apply token_at_remove.
Qed.

(** ** C19: a receive answered with an error acknowledgement leaves every
    token's ownership exactly as it was *)
Theorem recv_error_no_token_effect st src dst d st' :
  nft_recv_core st src dst d = (st', RvErr) -> same_tokens st' st.
Proof.
  unfold Nft.nft_recv_core.
  destruct (blank (nd_sender d) || blank (nd_receiver d)); [intros E; inversion E; apply same_tokens_refl|].
  destruct (valid_addr (nd_receiver d)); cbn [negb]; [|intros E; inversion E; apply same_tokens_refl].
  destruct (nd_away d).
  - set (tr := parse_class_trace (away_new_class_path NFT_PFX src dst (nd_class d))).
    set (st1 := if has (Hh (full_class_path tr)) (ns_traces st) then st else _).
    set (voucher := ibc_class Hh tr).
    set (st2 := if has_class voucher st1 then st1 else nft_issue_class st1 voucher escrow true).
    assert (T2 : same_tokens st2 st).
    { intros c i. unfold st2, st1. destruct (has_class voucher _); destruct (has _ (ns_traces st)); reflexivity. }
    destruct (nft_mint st2 voucher (nd_id d) (nd_uri d) escrow) as [st3|] eqn:M.
    + (* the transfer right after the mint cannot fail *)
      pose proof M as M'. apply nft_mint_spec in M'. destruct M' as (HC & _ & CL & _ & TK).
      assert (T3 : token_at st3 voucher (nd_id d) = Some (escrow, nd_uri d))
        by (rewrite TK, !beq_refl; reflexivity).
      assert (HC3 : has_class voucher st3 = true) by (unfold has_class in *; rewrite CL; exact HC).
      destruct (nft_transfer_ok st3 voucher (nd_id d) escrow (nd_receiver d) (nd_uri d) T3 HC3) as [st4 TR].
      rewrite TR. intros E. inversion E.
    + intros E. inversion E; subst st'. exact T2.
  - destruct (has_prefix NFT_PFX (nd_class d)); cbn [negb]; [|intros E; inversion E; apply same_tokens_refl].
    destruct (back_new_class_path (nd_class d)) as [np|]; [|intros E; inversion E].
    destruct (nft_transfer st _ (nd_id d) escrow (nd_receiver d)); intros E; inversion E.
    apply same_tokens_refl.
Qed.

(** a successful receive moves exactly one token: it mints the voucher for the
    receiver (away) or releases the escrowed one to the receiver (back) *)
Theorem recv_ok_effect st src dst d st' :
  nft_recv_core st src dst d = (st', RvOk) ->
  exists class uri,
    token_at st' class (nd_id d) = Some (nd_receiver d, uri) /\
    (forall c i, (c, i) <> (class, nd_id d) -> token_at st' c i = token_at st c i) /\
    (if nd_away d
     then class = voucher_class Hh (away_new_class_path NFT_PFX src dst (nd_class d)) /\
          token_at st class (nd_id d) = None /\ uri = nd_uri d
     else exists np, back_new_class_path (nd_class d) = Some np /\ class = voucher_class Hh np /\
          token_at st class (nd_id d) = Some (escrow, uri)).
Proof.
  unfold Nft.nft_recv_core.
  destruct (blank (nd_sender d) || blank (nd_receiver d)); [discriminate|].
  destruct (valid_addr (nd_receiver d)); cbn [negb]; [|discriminate].
  assert (NEQ : forall c i class, (c, i) <> (class, nd_id d) -> beq c class && beq i (nd_id d) = false).
  { intros c i class Hn. destruct (beq c class && beq i (nd_id d)) eqn:B; [|reflexivity].
    rewrite andb_true_iff in B. destruct B as [B1 B2]. apply beq_spec in B1, B2. subst. contradiction. }
  destruct (nd_away d).
  - set (tr := parse_class_trace (away_new_class_path NFT_PFX src dst (nd_class d))).
    set (st1 := if has (Hh (full_class_path tr)) (ns_traces st) then st else _).
    set (voucher := ibc_class Hh tr).
    set (st2 := if has_class voucher st1 then st1 else nft_issue_class st1 voucher escrow true).
    assert (T2 : same_tokens st2 st).
    { intros c i. unfold st2, st1. destruct (has_class voucher _); destruct (has _ (ns_traces st)); reflexivity. }
    destruct (nft_mint st2 voucher (nd_id d) (nd_uri d) escrow) as [st3|] eqn:M; [|discriminate].
    destruct (nft_transfer st3 voucher (nd_id d) escrow (nd_receiver d)) as [st4|] eqn:TR; [|discriminate].
    intros E. inversion E; subst st'.
    apply nft_mint_spec in M. destruct M as (_ & T0 & _ & _ & TK3).
    apply nft_transfer_spec in TR. destruct TR as (uri & T3 & _ & _ & _ & TK4).
    rewrite TK3, !beq_refl in T3. inversion T3; subst uri.
    exists voucher, (nd_uri d). split; [rewrite TK4, !beq_refl; reflexivity|]. split.
    + intros c i Hn. rewrite TK4, TK3, (NEQ c i voucher Hn). apply T2.
    + repeat split. rewrite <- T2. exact T0.
  - destruct (has_prefix NFT_PFX (nd_class d)); cbn [negb]; [|discriminate].
    destruct (back_new_class_path (nd_class d)) as [np|] eqn:BP; [|discriminate].
    destruct (nft_transfer st (voucher_class Hh np) (nd_id d) escrow (nd_receiver d)) as [st1|] eqn:TR; [|discriminate].
    intros E. inversion E; subst st'.
    apply nft_transfer_spec in TR. destruct TR as (uri & T0 & _ & _ & _ & TK).
    exists (voucher_class Hh np), uri. split; [rewrite TK, !beq_refl; reflexivity|]. split.
    + intros c i Hn. rewrite TK, (NEQ c i _ Hn). reflexivity.
    + exists np. auto.
Qed.

(** ** C06: processing the error acknowledgement of a transfer gives the sender
    back exactly what left.  [class] is the class on the sending chain, [full]
    its full class path; they are related as SendNftTransfer relates them. *)
Definition class_of_path_ok (class full : bytes) : Prop := voucher_class Hh full = class.

Theorem refund_exact name seq st class id sender receiver dest relay contract st1 p d :
  nft_send name seq st class id sender receiver dest relay contract = Some (st1, p) ->
  dec (p_data p) = Some d -> (forall x, dec (enc x) = Some x) ->
  valid_addr sender = true ->
  class_of_path_ok class (nd_class d) ->
  exists st2, nft_refund st1 d = Some st2 /\ same_tokens st2 st.
Proof.
  unfold Nft.nft_send. intros E D DE VA CP.
  destruct (has_class class st) eqn:HC; [|discriminate]. cbn [negb] in E.
  destruct (token_at st class id) as [[o uri]|] eqn:T; [|discriminate].
  destruct (beq name dest); [discriminate|].
  destruct (class_path_of st class) as [full|]; [|discriminate].
  destruct (determine_away NFT_PFX full dest) as [away|]; [|discriminate].
  destruct away.
  - destruct (nft_transfer st class id sender escrow) as [st1'|] eqn:TR; [|discriminate].
    inversion E; subst st1 p. clear E. cbn [p_data] in D. rewrite DE in D. inversion D; subst d. clear D.
    unfold class_of_path_ok in CP. cbn [nd_class] in CP.
    unfold Nft.nft_refund. cbn [nd_sender nd_away nd_class nd_id nd_uri]. rewrite VA. cbn [negb]. rewrite CP.
    apply nft_transfer_spec in TR. destruct TR as (uri' & T0 & _ & CL & _ & TK).
    rewrite T in T0. inversion T0; subst o uri'.
    assert (T1 : token_at st1' class id = Some (escrow, uri)) by (rewrite TK, !beq_refl; reflexivity).
    assert (HC1 : has_class class st1' = true) by (unfold has_class in *; rewrite CL; exact HC).
    destruct (nft_transfer_ok st1' class id escrow sender uri T1 HC1) as [st2 TR2].
    exists st2. split; [exact TR2|].
    apply nft_transfer_spec in TR2. destruct TR2 as (uri2 & T1' & _ & _ & _ & TK2).
    rewrite T1 in T1'. inversion T1'; subst uri2.
    intros c i. rewrite TK2, TK. destruct (beq c class && beq i id) eqn:B; [|reflexivity].
    rewrite andb_true_iff in B. destruct B as [B1 B2]. apply beq_spec in B1, B2. subst. symmetry. exact T.
  - destruct (nft_burn st class id sender) as [st1'|] eqn:BR; [|discriminate].
    inversion E; subst st1 p. clear E. cbn [p_data] in D. rewrite DE in D. inversion D; subst d. clear D.
    unfold class_of_path_ok in CP. cbn [nd_class] in CP.
    unfold Nft.nft_refund. cbn [nd_sender nd_away nd_class nd_id nd_uri]. rewrite VA. cbn [negb]. rewrite CP.
    apply nft_burn_spec in BR. destruct BR as (uri' & T0 & _ & CL & _ & TK).
    rewrite T in T0. inversion T0; subst o uri'.
    assert (HC1 : has_class class st1' = true) by (unfold has_class in *; rewrite CL; exact HC).
    assert (T1 : token_at st1' class id = None) by (rewrite TK, !beq_refl; reflexivity).
    unfold nft_mint. rewrite HC1, T1. cbn [negb].
    set (st2 := with_tokens st1' _).
    assert (T2 : token_at st2 class id = Some (escrow, uri)) by (unfold st2; rewrite token_at_set, !beq_refl; reflexivity).
    assert (HC2 : has_class class st2 = true) by exact HC1.
    destruct (nft_transfer_ok st2 class id escrow sender uri T2 HC2) as [st3 TR3].
    exists st3. split; [exact TR3|].
    apply nft_transfer_spec in TR3. destruct TR3 as (uri3 & T2' & _ & _ & _ & TK3).
    rewrite T2 in T2'. inversion T2'; subst uri3.
    intros c i. rewrite TK3. unfold st2. rewrite token_at_set, TK.
    destruct (beq c class && beq i id) eqn:B; [|reflexivity].
    rewrite andb_true_iff in B. destruct B as [B1 B2]. apply beq_spec in B1, B2. subst. symmetry. exact T.
Qed.

(** the relation between a class and its full path holds for native '/'-free
    classes and for vouchers recorded in a well-formed trace store *)
Lemma class_of_path_native class : noslash class -> class_of_path_ok class class.
Proof. intros Hn. unfold class_of_path_ok. apply voucher_class_native. exact Hn. Qed.

(** ** C09 (application part): a failing send changes nothing -- [nft_send]
    returns no state at all unless every step succeeded *)
Theorem send_locks_or_burns name seq st class id sender receiver dest relay contract st1 p :
  nft_send name seq st class id sender receiver dest relay contract = Some (st1, p) ->
  exists uri, token_at st class id = Some (sender, uri) /\
  (token_at st1 class id = Some (escrow, uri) \/ token_at st1 class id = None) /\
  (forall c i, (c, i) <> (class, id) -> token_at st1 c i = token_at st c i) /\
  p_src p = name /\ p_dst p = dest /\ p_relay p = relay /\ p_seq p = seq /\ p_port p = NFT_PORT.
Proof.
  unfold Nft.nft_send. intros E.
  destruct (has_class class st); [|discriminate]. cbn [negb] in E.
  destruct (token_at st class id) as [[o uri]|] eqn:T; [|discriminate].
  destruct (beq name dest); [discriminate|].
  destruct (class_path_of st class) as [full|]; [|discriminate].
  destruct (determine_away NFT_PFX full dest) as [away|]; [|discriminate].
  assert (NEQ : forall c i, (c, i) <> (class, id) -> beq c class && beq i id = false).
  { intros c i Hn. destruct (beq c class && beq i id) eqn:B; [|reflexivity].
    rewrite andb_true_iff in B. destruct B as [B1 B2]. apply beq_spec in B1, B2. subst. contradiction. }
  destruct away.
  - destruct (nft_transfer st class id sender escrow) as [st1'|] eqn:TR; [|discriminate].
    inversion E; subst. apply nft_transfer_spec in TR. destruct TR as (u & T0 & _ & _ & _ & TK).
    rewrite T in T0. inversion T0; subst. exists u. repeat split; auto.
    + left. rewrite TK, !beq_refl. reflexivity.
    + intros c i Hn. rewrite TK, (NEQ c i Hn). reflexivity.
  - destruct (nft_burn st class id sender) as [st1'|] eqn:BR; [|discriminate].
    inversion E; subst. apply nft_burn_spec in BR. destruct BR as (u & T0 & _ & _ & _ & TK).
    rewrite T in T0. inversion T0; subst. exists u. repeat split; auto.
    + right. rewrite TK, !beq_refl. reflexivity.
    + intros c i Hn. rewrite TK, (NEQ c i Hn). reflexivity.
Qed.

End NftFacts.
