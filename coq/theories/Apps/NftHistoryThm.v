(** C04 over histories, part 2: vouchers come into existence only against
    delivered packets (or refunds of this chain's own back-sends), and escrow is
    released only to the claimant the packet names -- for every history of one
    chain. *)
From Tibc Require Import Base.Bytes Base.BytesFacts Base.FMap Host.Keys Host.KeysFacts Routing.Rules
  Packet.Types Packet.Keeper Packet.KeeperFacts Apps.Path Apps.PathFacts Apps.Nft Apps.NftFacts
  Apps.Mt Apps.App Apps.NftHistory.

(** a voucher class name: "tibc-<HASH>" (CLASSPREFIX) *)
Definition is_voucher (class : bytes) : bool := has_prefix tibc_dash class.

Definition tok_eq_dec (a b : bytes * bytes) : {a = b} + {a <> b}.
Proof. decide equality; apply bytes_eq_dec. Defined.

Definition owner_dec (o : option bytes) (x : bytes) : {o = Some x} + {o <> Some x}.
Proof.
  destruct o as [y|]; [|right; discriminate].
  destruct (bytes_eq_dec y x) as [->|N]; [left; reflexivity|right; intros E; inversion E; contradiction].
Defined.

Section NftHistoryThm.
Variable Hh : bytes -> bytes.
Variable H : bytes -> bytes.
Variable valid_addr : bytes -> bool.
Variable nft_escrow mt_escrow : bytes.
Variable enc_nft : nft_data -> bytes.
Variable dec_nft : bytes -> option nft_data.
Variable enc_mt : mt_data -> bytes.
Variable dec_mt : bytes -> option mt_data.

Notation chain := (chain app_state).
Notation escrow := nft_escrow.
Notation on_recv := (app_on_recv Hh valid_addr nft_escrow mt_escrow dec_nft dec_mt).
Notation on_ack := (app_on_ack Hh valid_addr nft_escrow mt_escrow dec_nft dec_mt).
Notation hexec := (hexec Hh H valid_addr nft_escrow mt_escrow enc_nft dec_nft enc_mt dec_mt).
Notation hrun := (hrun Hh H valid_addr nft_escrow mt_escrow enc_nft dec_nft enc_mt dec_mt).
Notation hlog := (hlog Hh H valid_addr nft_escrow mt_escrow enc_nft dec_nft enc_mt dec_mt).
Notation htrace := (htrace Hh H valid_addr nft_escrow mt_escrow enc_nft dec_nft enc_mt dec_mt).
Notation cause_of := (cause_of Hh nft_escrow dec_nft).
Notation c_name := (c_name app_state).

(** ** the event-level reading of the causes *)

(** a successful receive of a packet moving AWAY from its origin: the voucher
    (class, id) is created for the receiver *)
Definition is_recv_away (h : hop) (ev : list event) (class id owner uri : bytes) : Prop :=
  exists p pf hh d, h = HOp (ORecv p pf hh) /\ p_port p = NFT_PORT /\ recv_ok_ev ev = true /\
    dec_nft (p_data p) = Some d /\ nd_away d = true /\
    class = voucher_class Hh (away_new_class_path NFT_PFX (p_src p) (p_dst p) (nd_class d)) /\
    id = nd_id d /\ owner = nd_receiver d /\ uri = nd_uri d.

(** a successful receive of a packet moving BACK: the class path of the packet
    resolves to (class) and the escrowed (class, id) goes to the receiver *)
Definition is_recv_back (h : hop) (ev : list event) (class id to : bytes) : Prop :=
  exists p pf hh d np, h = HOp (ORecv p pf hh) /\ p_port p = NFT_PORT /\ recv_ok_ev ev = true /\
    dec_nft (p_data p) = Some d /\ nd_away d = false /\
    back_new_class_path (nd_class d) = Some np /\ class = voucher_class Hh np /\
    id = nd_id d /\ to = nd_receiver d.

(** the refund (error acknowledgement) of an away-send: the escrowed token
    goes back to the sender named in the packet *)
Definition is_refund_away (h : hop) (ev : list event) (class id to : bytes) : Prop :=
  exists p ack pf hh d, h = HOp (OAck p ack pf hh) /\ p_port p = NFT_PORT /\ is_err_ack ack = true /\
    appack_ev ev = true /\ dec_nft (p_data p) = Some d /\ nd_away d = true /\
    class = voucher_class Hh (nd_class d) /\ id = nd_id d /\ to = nd_sender d.

(** the refund of a back-send: the burned voucher is minted again for the sender *)
Definition is_refund_back (h : hop) (ev : list event) (class id owner uri : bytes) : Prop :=
  exists p ack pf hh d, h = HOp (OAck p ack pf hh) /\ p_port p = NFT_PORT /\ is_err_ack ack = true /\
    appack_ev ev = true /\ dec_nft (p_data p) = Some d /\ nd_away d = false /\
    class = voucher_class Hh (nd_class d) /\ id = nd_id d /\ owner = nd_sender d /\ uri = nd_uri d.

(** this chain's own MsgNftTransfer of (class, id), [away] being the outcome of
    the direction test on the class path the trace store gives for the class *)
Definition is_own_send (c : chain) (h : hop) (class id sender : bytes) (away : bool) : Prop :=
  exists receiver dest relay contract full,
    h = HUser (UNftSend class id sender receiver dest relay contract) /\
    class_path_of (nft_of c) class = Some full /\ determine_away NFT_PFX full dest = Some away.

Definition explained (c : chain) (h : hop) (ev : list event) (k : cause) : Prop :=
  match k with
  | KNone => True
  | KCreate WUserMint class id owner uri => exists sender, h = HUser (UNftMint class id uri sender owner)
  | KCreate WRecvAway class id owner uri => is_recv_away h ev class id owner uri
  | KCreate WRefundBack class id owner uri => is_refund_back h ev class id owner uri
  | KMove WUserMove class id from to => h = HUser (UNftMove class id from to)
  | KMove WSend class id from to => to = escrow /\ is_own_send c h class id from true
  | KMove WRecvBack class id from to => from = escrow /\ is_recv_back h ev class id to
  | KMove WRefundAway class id from to => from = escrow /\ is_refund_away h ev class id to
  | KDestroy WUserBurn class id owner => h = HUser (UNftBurn class id owner)
  | KDestroy WSend class id owner => is_own_send c h class id owner false
  | _ => False
  end.

Lemma cause_of_explained c h ev : explained c h ev (cause_of c h ev).
Proof.
  destruct h as [o|u]; [destruct o|destruct u]; cbn [NftHistory.cause_of]; try exact I.
  - destruct (beq (p_port p) NFT_PORT) eqn:P; cbn [andb]; [|exact I]. apply beq_spec in P.
    destruct (recv_ok_ev ev) eqn:R; [|exact I].
    destruct (dec_nft (p_data p)) as [d|] eqn:D; [|exact I].
    destruct (nd_away d) eqn:AW.
    + cbn [explained]. exists p, pf, h, d. repeat split; auto.
    + destruct (back_new_class_path (nd_class d)) as [np|] eqn:BP; [|exact I].
      cbn [explained]. split; [reflexivity|]. exists p, pf, h, d, np. repeat split; auto.
  - destruct (beq (p_port p) NFT_PORT) eqn:P; cbn [andb]; [|exact I]. apply beq_spec in P.
    destruct (is_err_ack ack) eqn:IE; cbn [andb]; [|exact I].
    destruct (appack_ev ev) eqn:R; [|exact I].
    destruct (dec_nft (p_data p)) as [d|] eqn:D; [|exact I].
    destruct (nd_away d) eqn:AW; cbn [explained].
    + split; [reflexivity|]. exists p, ack, pf, h, d. repeat split; auto.
    + exists p, ack, pf, h, d. repeat split; auto.
  - cbn [explained]. exists sender. reflexivity.
  - reflexivity.
  - reflexivity.
  - destruct (class_path_of (nft_of c) class) as [full|] eqn:CP; [|exact I].
    destruct (determine_away NFT_PFX full dest) as [[|]|] eqn:DA; [| |exact I]; cbn [explained].
    + split; [reflexivity|]. exists receiver, dest, relay, contract, full. repeat split; auto.
    + exists receiver, dest, relay, contract, full. repeat split; auto.
Qed.

(** ** what the events of a step say about the packet layer *)

Lemma recv_ok_events c p pf hh c' ev :
  hexec c (HOp (ORecv p pf hh)) = Some (c', ev) -> recv_ok_ev ev = true ->
  p_dst p = c_name c /\ In (EDeliver p) ev /\ In (EWriteAck p ack_ok) ev.
Proof.
  cbn [NftHistory.hexec exec]. intros E R. apply msg_recv_app in E.
  destruct E as (_ & [(_ & Ev)|(D & _ & a' & oack & ev1 & _ & _ & _ & ->)]).
  - destruct Ev as [->|[->| ->]]; discriminate R.
  - split; [exact D|]. destruct oack as [ack|].
    + change (ev1 ++ EDeliver p :: [EWriteAck p ack]) with (ev1 ++ [EDeliver p; EWriteAck p ack]) in *.
      rewrite recv_ok_ev_snoc in R. apply beq_spec in R. subst ack.
      split; apply in_or_app; right; cbn; auto.
    + exfalso. unfold recv_ok_ev in R. rewrite rev_app_distr in R. cbn in R.
      destruct (rev ev1) as [|e r]; [discriminate|]. destruct e; discriminate.
Qed.

Lemma appack_events c p ack pf hh c' ev :
  hexec c (HOp (OAck p ack pf hh)) = Some (c', ev) -> appack_ev ev = true ->
  p_src p = c_name c /\ In (EAppAck p ack) ev.
Proof.
  cbn [NftHistory.hexec exec]. intros E R. apply msg_ack_app in E.
  destruct E as (_ & [(_ & Ev)|(S & _ & ev1 & ->)]).
  - destruct Ev as [->| ->]; discriminate R.
  - split; [exact S|]. apply in_or_app. right. left. reflexivity.
Qed.

(** ** general consequences of an effect *)

Lemma effect_created k st st' class id :
  effect k st st' -> token_at st class id = None -> token_at st' class id <> None ->
  exists w owner uri, k = KCreate w class id owner uri /\ token_at st' class id = Some (owner, uri).
Proof.
  intros Ef T0 T1. destruct k as [|w cl i o u|w cl i fr to|w cl i o]; cbn [effect] in Ef.
  - rewrite Ef in T1. contradiction.
  - destruct Ef as (B & A & F). destruct (tok_eq_dec (class, id) (cl, i)) as [Eq|Ne].
    + inversion Eq; subst. exists w, o, u. split; [reflexivity|exact A].
    + rewrite (F _ _ Ne) in T1. contradiction.
  - destruct Ef as (uri & B & A & F). destruct (tok_eq_dec (class, id) (cl, i)) as [Eq|Ne].
    + inversion Eq; subst. rewrite B in T0. discriminate.
    + rewrite (F _ _ Ne) in T1. contradiction.
  - destruct Ef as (uri & B & A & F). destruct (tok_eq_dec (class, id) (cl, i)) as [Eq|Ne].
    + inversion Eq; subst. rewrite B in T0. discriminate.
    + rewrite (F _ _ Ne) in T1. contradiction.
Qed.

Lemma effect_released k st st' class id :
  effect k st st' -> owner_of st class id = Some escrow -> owner_of st' class id <> Some escrow ->
  (exists w to, k = KMove w class id escrow to /\ to <> escrow /\ owner_of st' class id = Some to) \/
  (exists w, k = KDestroy w class id escrow /\ owner_of st' class id = None).
Proof.
  unfold owner_of. intros Ef O0 O1.
  destruct k as [|w cl i o u|w cl i fr to|w cl i o]; cbn [effect] in Ef.
  - rewrite Ef in O1. contradiction.
  - destruct Ef as (B & A & F). destruct (tok_eq_dec (class, id) (cl, i)) as [Eq|Ne].
    + inversion Eq; subst. rewrite B in O0. discriminate.
    + rewrite (F _ _ Ne) in O1. contradiction.
  - destruct Ef as (uri & B & A & F). destruct (tok_eq_dec (class, id) (cl, i)) as [Eq|Ne].
    + inversion Eq; subst. rewrite B in O0. cbn in O0. inversion O0; subst fr.
      rewrite A in *. cbn [option_map fst] in *. left. exists w, to. repeat split; auto.
      intros ->. apply O1. reflexivity.
    + rewrite (F _ _ Ne) in O1. contradiction.
  - destruct Ef as (uri & B & A & F). destruct (tok_eq_dec (class, id) (cl, i)) as [Eq|Ne].
    + inversion Eq; subst. rewrite B in O0. cbn in O0. inversion O0; subst o.
      rewrite A. right. exists w. split; reflexivity.
    + rewrite (F _ _ Ne) in O1. contradiction.
Qed.

(** ** premises on the history *)

(** no user transaction is signed by the transfer module's account (a module
    account has no key) *)
Definition no_escrow_sig (h : hop) : Prop :=
  match h with
  | HUser (UNftMint _ _ _ sender _) => sender <> escrow
  | HUser (UNftMove _ _ from _) => from <> escrow
  | HUser (UNftBurn _ _ owner) => owner <> escrow
  | HUser (UNftSend _ _ sender _ _ _ _) => sender <> escrow
  | _ => True
  end.

(** no user issues a class with the reserved "tibc-" prefix (irismod's
    MsgIssueDenom.ValidateBasic refuses the reserved keywords; the model's
    [UNftIssue] does not include that check) *)
Definition no_reserved_issue (h : hop) : Prop :=
  match h with
  | HUser (UNftIssue class _) => is_voucher class = false
  | _ => True
  end.

Definition good (h : hop) : Prop := not_setapp h /\ no_reserved_issue h /\ no_escrow_sig h.

(** every "tibc-" class was issued by the transfer module: its creator is the
    escrow account and minting is restricted to the creator *)
Definition VInv (st : nft_state) : Prop :=
  forall class cr r, is_voucher class = true -> lookup class (ns_classes st) = Some (cr, r) ->
                     cr = escrow /\ r = true.

Lemma VInv_init : VInv (a_nft app_init).
Proof. intros class cr r _ L. discriminate L. Qed.

(** ** classes *)

Lemma recv_core_classes st src dst d st' r :
  nft_recv_core Hh valid_addr escrow st src dst d = (st', r) ->
  forall class, lookup class (ns_classes st') = lookup class (ns_classes st) \/
                lookup class (ns_classes st') = Some (escrow, true).
Proof.
  unfold nft_recv_core.
  destruct (blank (nd_sender d) || blank (nd_receiver d)); [intros E; inversion E; auto|].
  destruct (valid_addr (nd_receiver d)); cbn [negb]; [|intros E; inversion E; auto].
  destruct (nd_away d).
  - set (tr := parse_class_trace (away_new_class_path NFT_PFX src dst (nd_class d))).
    set (st1 := if has (Hh (full_class_path tr)) (ns_traces st) then st else _).
    set (voucher := ibc_class Hh tr).
    set (st2 := if has_class voucher st1 then st1 else nft_issue_class st1 voucher escrow true).
    assert (C2 : forall class, lookup class (ns_classes st2) = lookup class (ns_classes st) \/
                               lookup class (ns_classes st2) = Some (escrow, true)).
    { intros class. unfold st2, st1.
      destruct (has_class voucher _); destruct (has _ (ns_traces st));
        cbn [ns_classes nft_issue_class]; auto;
        rewrite lookup_set; destruct (beq class voucher); auto. }
    destruct (nft_mint st2 voucher (nd_id d) (nd_uri d) escrow) as [st3|] eqn:M.
    + apply nft_mint_spec in M. destruct M as (_ & _ & CL3 & _ & _).
      destruct (nft_transfer st3 voucher (nd_id d) escrow (nd_receiver d)) as [st4|] eqn:TR.
      * apply nft_transfer_spec in TR. destruct TR as (u & _ & _ & CL4 & _ & _).
        intros E. inversion E; subst. intros class. rewrite CL4, CL3. apply C2.
      * intros E. inversion E; subst. intros class. rewrite CL3. apply C2.
    + intros E. inversion E; subst. exact C2.
  - destruct (has_prefix NFT_PFX (nd_class d)); cbn [negb]; [|intros E; inversion E; auto].
    destruct (back_new_class_path (nd_class d)) as [np|]; [|intros E; inversion E; auto].
    destruct (nft_transfer st _ (nd_id d) escrow (nd_receiver d)) as [st1|] eqn:TR;
      intros E; inversion E; subst; auto.
    apply nft_transfer_spec in TR. destruct TR as (u & _ & _ & CL & _ & _).
    intros class. rewrite CL. auto.
Qed.

Lemma step_classes c h c' ev :
  hexec c h = Some (c', ev) -> not_setapp h ->
  forall class,
    lookup class (ns_classes (nft_of c')) = lookup class (ns_classes (nft_of c)) \/
    lookup class (ns_classes (nft_of c')) = Some (escrow, true) \/
    exists creator, h = HUser (UNftIssue class creator).
Proof.
  intros E NS class. unfold nft_of. destruct h as [o|u].
  - cbn [NftHistory.hexec] in E.
    assert (OTH : match o with ORecv _ _ _ | OAck _ _ _ _ | OSetApp _ => False | _ => True end ->
                  lookup class (ns_classes (a_nft (c_app app_state c'))) =
                  lookup class (ns_classes (a_nft (c_app app_state c)))).
    { intros NO. destruct (exec_other_app _ _ _ _ _ _ _ _ _ _ _ E NO) as [-> _]. reflexivity. }
    destruct o; try (left; apply OTH; exact I); [| |contradiction]; clear OTH; cbn [exec] in E.
    + apply msg_recv_app in E. destruct E as (_ & [(-> & _)|(_ & _ & a' & oack & ev1 & OR & <- & _ & _)]).
      * left. reflexivity.
      * apply on_recv_nft in OR. destruct OR as [(_ & ->)|(_ & d & r & _ & R & _)].
        -- left. reflexivity.
        -- destruct (recv_core_classes _ _ _ _ _ _ R class) as [X|X]; auto.
    + apply msg_ack_app in E. destruct E as (_ & [(-> & _)|(_ & OA & _)]).
      * left. reflexivity.
      * apply on_ack_nft in OA. destruct OA as [(_ & ->)|(_ & d & _ & R)].
        -- left. reflexivity.
        -- destruct (is_err_ack ack).
           ++ apply refund_effect in R. destruct R as (-> & _). left. reflexivity.
           ++ rewrite R. left. reflexivity.
  - cbn [NftHistory.hexec] in E. destruct u; cbn [user_exec] in E.
    + destruct (has_class class0 _); [discriminate|]. inversion E; subst. clear E.
      cbn [c_app with_app a_nft nft_issue_class ns_classes]. rewrite lookup_set.
      destruct (beq class class0) eqn:B.
      * apply beq_spec in B. subst class0. right. right. exists creator. reflexivity.
      * left. reflexivity.
    + destruct (lookup class0 _) as [[cr rs]|]; [|discriminate].
      destruct (rs && _); [discriminate|]. unfold lift_nft in E.
      destruct (nft_mint _ class0 id uri rcpt) as [st|] eqn:M; [|discriminate]. inversion E; subst. clear E.
      cbn [c_app with_app a_nft]. apply nft_mint_spec in M. destruct M as (_ & _ & -> & _). left. reflexivity.
    + unfold lift_nft in E. destruct (nft_transfer _ class0 id from to) as [st|] eqn:M; [|discriminate].
      inversion E; subst. clear E. cbn [c_app with_app a_nft].
      apply nft_transfer_spec in M. destruct M as (uri & _ & _ & -> & _). left. reflexivity.
    + unfold lift_nft in E. destruct (nft_burn _ class0 id owner) as [st|] eqn:M; [|discriminate].
      inversion E; subst. clear E. cbn [c_app with_app a_nft].
      apply nft_burn_spec in M. destruct M as (uri & _ & _ & -> & _). left. reflexivity.
    + destruct (nft_send _ _ _ _ _ _ _ _ _ _ _ _) as [[st pkt]|] eqn:S; [|discriminate].
      apply nft_send_effect in S. destruct S as (CL & _).
      apply send_packet_inv in E. destruct E as (_ & _ & _ & _ & ->).
      cbn [c_app with_app with_kv a_nft]. rewrite CL. left. reflexivity.
    + destruct (mt_has_class _ _); [discriminate|]. inversion E; subst. left. reflexivity.
    + destruct (N.eqb amt 0); [discriminate|]. destruct (lookup class0 _) as [ow|]; [|discriminate].
      destruct (negb _); [discriminate|]. destruct (mt_exists _ _ _); [discriminate|].
      unfold lift_mt in E. destruct (mt_issue _ _ _ _ _ _) as [st [|]]; [|discriminate].
      inversion E; subst. left. reflexivity.
    + destruct (N.eqb amt 0); [discriminate|]. destruct (lookup class0 _) as [ow|]; [|discriminate].
      destruct (negb _); [discriminate|]. destruct (negb _); [discriminate|].
      unfold lift_mt in E. destruct (mt_mint _ _ _ _ _) as [st [|]]; [|discriminate].
      inversion E; subst. left. reflexivity.
    + destruct (N.eqb amt 0); [discriminate|].
      unfold lift_mt in E. destruct (mt_transfer _ _ _ _ _ _) as [st [|]]; [|discriminate].
      inversion E; subst. left. reflexivity.
    + destruct (N.eqb amt 0); [discriminate|].
      unfold lift_mt in E. destruct (mt_burn _ _ _ _ _) as [st [|]]; [|discriminate].
      inversion E; subst. left. reflexivity.
    + destruct (mt_send _ _ _ _ _ _ _ _ _ _ _ _ _) as [[st pkt]|]; [|discriminate].
      apply send_packet_inv in E. destruct E as (_ & _ & _ & _ & ->). left. reflexivity.
Qed.

Lemma step_VInv c h c' ev :
  hexec c h = Some (c', ev) -> not_setapp h -> no_reserved_issue h ->
  VInv (nft_of c) -> VInv (nft_of c').
Proof.
  intros E NS NR V class cr r IV L.
  destruct (step_classes _ _ _ _ E NS class) as [X|[X|(creator & ->)]].
  - rewrite X in L. exact (V _ _ _ IV L).
  - rewrite X in L. inversion L; subst. auto.
  - cbn [no_reserved_issue] in NR. rewrite NR in IV. discriminate.
Qed.

Lemma hrun_VInv hs : forall c, Forall good hs -> VInv (nft_of c) -> VInv (nft_of (hrun c hs)).
Proof.
  induction hs as [|h r IH]; intros c G V; [exact V|].
  inversion G as [|? ? (NS & NR & _) Gr]; subst.
  destruct (hexec c h) as [[c' ev]|] eqn:E.
  - rewrite (hrun_ok _ _ _ _ _ _ _ _ _ _ _ _ _ _ E). apply IH; [exact Gr|].
    eapply step_VInv; eassumption.
  - rewrite (hrun_fail _ _ _ _ _ _ _ _ _ _ _ _ E). apply IH; assumption.
Qed.

Lemma hrun_name hs : forall c, Forall not_setapp hs -> c_name (hrun c hs) = c_name c.
Proof.
  induction hs as [|h r IH]; intros c G; [reflexivity|].
  inversion G as [|? ? NS Gr]; subst.
  destruct (hexec c h) as [[c' ev]|] eqn:E.
  - rewrite (hrun_ok _ _ _ _ _ _ _ _ _ _ _ _ _ _ E), (IH _ Gr).
    eapply step_name; eassumption.
  - rewrite (hrun_fail _ _ _ _ _ _ _ _ _ _ _ _ E). apply IH; assumption.
Qed.

(** a user mint needs the class, and for a restricted class the creator's signature *)
Lemma user_mint_auth c class id uri sender rcpt c' ev :
  hexec c (HUser (UNftMint class id uri sender rcpt)) = Some (c', ev) ->
  exists cr rs, lookup class (ns_classes (nft_of c)) = Some (cr, rs) /\ (rs = true -> cr = sender).
Proof.
  cbn [NftHistory.hexec user_exec]. unfold nft_of.
  destruct (lookup class _) as [[cr rs]|]; [|discriminate].
  destruct rs; cbn [andb].
  - destruct (beq cr sender) eqn:B; cbn [negb]; [|discriminate]. apply beq_spec in B.
    intros _. exists cr, true. auto.
  - intros _. exists cr, false. split; [reflexivity|discriminate].
Qed.

(** ** 1. vouchers only against delivered packets *)

Theorem voucher_created_step c h c' ev class id :
  hexec c h = Some (c', ev) -> not_setapp h -> no_escrow_sig h ->
  VInv (nft_of c) -> is_voucher class = true ->
  token_at (nft_of c) class id = None -> token_at (nft_of c') class id <> None ->
  exists owner uri, token_at (nft_of c') class id = Some (owner, uri) /\
    (is_recv_away h ev class id owner uri \/ is_refund_back h ev class id owner uri).
Proof.
  intros E NS NE V IV T0 T1.
  pose proof (step_effect _ _ _ _ _ _ _ _ _ _ _ _ _ E NS) as Ef.
  destruct (effect_created _ _ _ _ _ Ef T0 T1) as (w & owner & uri & K & T').
  exists owner, uri. split; [exact T'|].
  pose proof (cause_of_explained c h ev) as X. rewrite K in X.
  destruct w; cbn [explained] in X; try contradiction; auto.
  (* a user mint: needs the creator's signature, and the creator is the escrow account *)
  exfalso. destruct X as (sender & ->).
  destruct (user_mint_auth _ _ _ _ _ _ _ _ E) as (cr & rs & L & A).
  destruct (V _ _ _ IV L) as [-> ->]. cbn [no_escrow_sig] in NE. apply NE. symmetry. apply A. reflexivity.
Qed.

Theorem voucher_created_history hs : forall c class id,
  Forall good hs -> VInv (nft_of c) -> is_voucher class = true ->
  token_at (nft_of c) class id = None -> token_at (nft_of (hrun c hs)) class id <> None ->
  exists c1 h ev owner uri, In (c1, h, ev) (htrace c hs) /\
    (is_recv_away h ev class id owner uri \/ is_refund_back h ev class id owner uri).
Proof.
  induction hs as [|h r IH]; intros c class id G V IV T0 T1; [contradiction|].
  inversion G as [|? ? (NS & NR & NE) Gr]; subst.
  cbn [NftHistory.htrace]. destruct (hexec c h) as [[c' ev]|] eqn:E.
  - rewrite (hrun_ok _ _ _ _ _ _ _ _ _ _ _ _ _ _ E) in T1.
    destruct (token_at (nft_of c') class id) as [[o u]|] eqn:T'.
    + assert (T1' : token_at (nft_of c') class id <> None) by (rewrite T'; discriminate).
      destruct (voucher_created_step _ _ _ _ _ _ E NS NE V IV T0 T1') as (owner & uri & _ & C).
      exists c, h, ev, owner, uri. split; [left; reflexivity|exact C].
    + assert (V' : VInv (nft_of c')) by (eapply step_VInv; eassumption).
      destruct (IH c' class id Gr V' IV T' T1) as (c1 & h1 & ev1 & owner & uri & Hi & C).
      exists c1, h1, ev1, owner, uri. split; [right; exact Hi|exact C].
  - rewrite (hrun_fail _ _ _ _ _ _ _ _ _ _ _ _ E) in T1.
    apply (IH c class id Gr V IV T0 T1).
Qed.

Lemma good_not_setapp hs : Forall good hs -> Forall not_setapp hs.
Proof. intros G. eapply Forall_impl; [|exact G]. intros h (NS & _). exact NS. Qed.

(** the same in terms of the event log of the history *)
Theorem vouchers_only_against_packets c hs class id :
  Forall good hs -> VInv (nft_of c) -> is_voucher class = true ->
  token_at (nft_of c) class id = None -> token_at (nft_of (hrun c hs)) class id <> None ->
  (exists p d, In (EDeliver p) (hlog c hs) /\ In (EWriteAck p ack_ok) (hlog c hs) /\
     p_port p = NFT_PORT /\ p_dst p = c_name c /\ dec_nft (p_data p) = Some d /\
     nd_away d = true /\ nd_id d = id /\
     class = voucher_class Hh (away_new_class_path NFT_PFX (p_src p) (p_dst p) (nd_class d))) \/
  (exists p ack d, In (EAppAck p ack) (hlog c hs) /\ is_err_ack ack = true /\
     p_port p = NFT_PORT /\ p_src p = c_name c /\ dec_nft (p_data p) = Some d /\
     nd_away d = false /\ nd_id d = id /\ class = voucher_class Hh (nd_class d)).
Proof.
  intros G V IV T0 T1.
  destruct (voucher_created_history hs c class id G V IV T0 T1) as (c1 & h & ev & owner & uri & Hi & C).
  pose proof Hi as Hi'. apply htrace_inv in Hi'. destruct Hi' as (pre & post & c2 & Eq & -> & E).
  assert (NM : c_name (hrun c pre) = c_name c).
  { apply hrun_name. apply good_not_setapp in G. rewrite Eq in G. apply Forall_app in G. tauto. }
  destruct C as [(p & pf & hh & d & -> & P & R & D & AW & -> & -> & _)|
                 (p & ack & pf & hh & d & -> & P & IE & R & D & AW & -> & -> & _)].
  - left. destruct (recv_ok_events _ _ _ _ _ _ E R) as (Dst & I1 & I2). exists p, d.
    split; [eapply htrace_log; eassumption|]. split; [eapply htrace_log; eassumption|].
    repeat split; auto. congruence.
  - right. destruct (appack_events _ _ _ _ _ _ _ E R) as (Src & I1). exists p, ack, d.
    split; [eapply htrace_log; eassumption|]. repeat split; auto. congruence.
Qed.

(** ** 2. escrow released only to the right claimant *)

Theorem escrow_release_step c h c' ev class id :
  hexec c h = Some (c', ev) -> not_setapp h -> no_escrow_sig h ->
  owner_of (nft_of c) class id = Some escrow -> owner_of (nft_of c') class id <> Some escrow ->
  exists to, owner_of (nft_of c') class id = Some to /\ to <> escrow /\
    (is_recv_back h ev class id to \/ is_refund_away h ev class id to).
Proof.
  intros E NS NE O0 O1.
  pose proof (step_effect _ _ _ _ _ _ _ _ _ _ _ _ _ E NS) as Ef.
  pose proof (cause_of_explained c h ev) as X.
  destruct (effect_released _ _ _ _ _ Ef O0 O1) as [(w & to & K & Nto & O')|(w & K & O')];
    rewrite K in X.
  - exists to. split; [exact O'|]. split; [exact Nto|].
    destruct w; cbn [explained] in X; try contradiction.
    + subst h. cbn [no_escrow_sig] in NE. exfalso. apply NE. reflexivity.
    + destruct X as (-> & _). exfalso. apply Nto. reflexivity.
    + left. tauto.
    + right. tauto.
  - exfalso. destruct w; cbn [explained] in X; try contradiction.
    + subst h. cbn [no_escrow_sig] in NE. apply NE. reflexivity.
    + destruct X as (receiver & dest & relay & contract & full & -> & _).
      cbn [no_escrow_sig] in NE. apply NE. reflexivity.
Qed.

(** for every step of every history; with the packet-layer reading of the step *)
Theorem escrow_released_only_to_claimant c hs c1 h ev class id :
  Forall good hs -> In (c1, h, ev) (htrace c hs) ->
  owner_of (nft_of c1) class id = Some escrow ->
  exists c2, hexec c1 h = Some (c2, ev) /\
    (owner_of (nft_of c2) class id = Some escrow \/
     exists to, owner_of (nft_of c2) class id = Some to /\ to <> escrow /\
       ((exists p d np, In (EDeliver p) (hlog c hs) /\ In (EWriteAck p ack_ok) (hlog c hs) /\
           p_port p = NFT_PORT /\ p_dst p = c_name c /\ dec_nft (p_data p) = Some d /\
           nd_away d = false /\ back_new_class_path (nd_class d) = Some np /\
           class = voucher_class Hh np /\ id = nd_id d /\ to = nd_receiver d) \/
        (exists p ack d, In (EAppAck p ack) (hlog c hs) /\ is_err_ack ack = true /\
           p_port p = NFT_PORT /\ p_src p = c_name c /\ dec_nft (p_data p) = Some d /\
           nd_away d = true /\ class = voucher_class Hh (nd_class d) /\ id = nd_id d /\
           to = nd_sender d))).
Proof.
  intros G Hi O0.
  pose proof Hi as Hi'. apply htrace_inv in Hi'. destruct Hi' as (pre & post & c2 & Eq & -> & E).
  exists c2. split; [exact E|].
  assert (Gh : good h) by (rewrite Eq in G; apply Forall_app in G; destruct G as [_ G]; inversion G; assumption).
  destruct Gh as (NS & _ & NE).
  assert (NM : c_name (hrun c pre) = c_name c).
  { apply hrun_name. apply good_not_setapp in G. rewrite Eq in G. apply Forall_app in G. tauto. }
  destruct (owner_dec (owner_of (nft_of c2) class id) escrow) as [Y|N]; [left; exact Y|].
  right. destruct (escrow_release_step _ _ _ _ _ _ E NS NE O0 N) as (to & O' & Nto & C).
  exists to. split; [exact O'|]. split; [exact Nto|].
  destruct C as [(p & pf & hh & d & np & -> & P & R & D & AW & BP & -> & -> & ->)|
                 (p & ack & pf & hh & d & -> & P & IE & R & D & AW & -> & -> & ->)].
  - left. destruct (recv_ok_events _ _ _ _ _ _ E R) as (Dst & I1 & I2). exists p, d, np.
    split; [eapply htrace_log; eassumption|]. split; [eapply htrace_log; eassumption|].
    repeat split; auto. congruence.
  - right. destruct (appack_events _ _ _ _ _ _ _ E R) as (Src & I1). exists p, ack, d.
    split; [eapply htrace_log; eassumption|]. repeat split; auto. congruence.
Qed.

(** the packet an own send emits carries the class path, the id, the token's
    uri, the sender and the direction flag (so the direction the receiving chain
    decodes is the one tested here, whenever decoding inverts encoding) *)
Lemma own_send_packet c h c' ev class id sender away :
  hexec c h = Some (c', ev) -> is_own_send c h class id sender away ->
  exists receiver dest relay contract full uri,
    h = HUser (UNftSend class id sender receiver dest relay contract) /\
    class_path_of (nft_of c) class = Some full /\
    token_at (nft_of c) class id = Some (sender, uri) /\
    ev = [ESend (mkPacket (next_send app_state c (c_name c) dest) (c_name c) dest relay NFT_PORT
                   (enc_nft (mkNftData full id uri sender receiver away contract)))].
Proof.
  intros E (receiver & dest & relay & contract & full & -> & CP & DA).
  cbn [NftHistory.hexec user_exec] in E. unfold nft_of in *.
  destruct (nft_send _ _ _ _ _ _ _ _ _ _ _ _) as [[st pkt]|] eqn:S; [|discriminate].
  apply nft_send_effect in S. destruct S as (_ & _ & full' & uri & away' & CP' & DA' & -> & (T0 & _)).
  rewrite CP in CP'. inversion CP'; subst full'. rewrite DA in DA'. inversion DA'; subst away'.
  apply send_packet_inv in E. destruct E as (_ & _ & _ & -> & _).
  exists receiver, dest, relay, contract, full, uri. repeat split; auto.
Qed.

(** ** hooks to the packet layer (C01-C03): a refund consumes the commitment of
    exactly this packet data, a delivery consumes the absence of the receipt *)
Lemma ack_step_commitment c p ack pf hh c' ev :
  hexec c (HOp (OAck p ack pf hh)) = Some (c', ev) ->
  beq (match commit_at app_state c (p_src p) (p_dst p) (p_seq p) with Some b => b | None => [] end)
      (H (p_data p)) = true /\
  commit_at app_state c' (p_src p) (p_dst p) (p_seq p) = None.
Proof.
  cbn [NftHistory.hexec exec]. intros E. apply msg_ack_inv in E.
  destruct E as (_ & c1 & ev1 & AP & KV & _).
  apply ack_packet_inv in AP. destruct AP as (_ & _ & CM & _ & CN & _).
  split; [exact CM|]. unfold commit_at in *. rewrite KV. exact CN.
Qed.

Lemma recv_step_receipt c p pf hh c' ev :
  hexec c (HOp (ORecv p pf hh)) = Some (c', ev) ->
  receipt_at app_state c (p_src p) (p_dst p) (p_seq p) = None /\
  receipt_at app_state c' (p_src p) (p_dst p) (p_seq p) = Some receipt_val.
Proof.
  cbn [NftHistory.hexec exec]. intros E. apply msg_recv_inv in E.
  destruct E as (_ & _ & R0 & R1 & _). split; assumption.
Qed.

End NftHistoryThm.
