(** C05 over histories, part 4: a packet-data codec with a proved round trip
    (so that the premise [forall x, dec (enc x) = Some x] of the accounting
    theorems is satisfiable) and a concrete history of one chain with two away
    sends, a refund, a back receive, an away receive, a back send and its
    refund, a failed user move and a successful one. *)
From Tibc Require Import Base.Bytes Base.FMap Host.Keys Routing.Rules Packet.Types Packet.Keeper
  Apps.Path Apps.Nft Apps.Mt Apps.MtFacts Apps.App Apps.AppFacts Harness.AppNet
  Apps.MtHistory Apps.MtHistEscrow Apps.MtHistLinks.
From Coq Require Import ZArith ZifyN ZifyNat ZifyBool.

(** * a codec: every field shifted by one and terminated by 0, then direction and amount *)
Fixpoint cut (b : bytes) : option (bytes * bytes) :=
  match b with
  | [] => None
  | x :: r => if N.eqb x 0 then Some ([], r)
              else match cut r with Some (f, r') => Some (N.pred x :: f, r') | None => None end
  end.

Definition fld (b : bytes) : bytes := map N.succ b ++ [0].

Lemma cut_fld f r : cut (fld f ++ r) = Some (f, r).
Proof.
  unfold fld. induction f as [|x f IH]; [reflexivity|].
  cbn [map app cut]. assert (E : N.eqb (N.succ x) 0 = false) by (apply N.eqb_neq; lia). rewrite E.
  cbn [app] in IH. rewrite IH. rewrite N.pred_succ. reflexivity.
Qed.

Definition enc0 (d : mt_data) : bytes :=
  fld (md_class d) ++ fld (md_id d) ++ fld (md_sender d) ++ fld (md_receiver d) ++
  fld (md_contract d) ++ fld (md_data d) ++ [if md_away d then 1 else 0; md_amount d].

Definition dec0 (b : bytes) : option mt_data :=
  match cut b with Some (c, b1) =>
  match cut b1 with Some (i, b2) =>
  match cut b2 with Some (s, b3) =>
  match cut b3 with Some (r, b4) =>
  match cut b4 with Some (k, b5) =>
  match cut b5 with Some (dt, b6) =>
    match b6 with [a; amt] => Some (mkMtData c i s r (N.eqb a 1) k amt dt) | _ => None end
  | None => None end | None => None end | None => None end | None => None end | None => None end
  | None => None end.

Lemma dec0_enc0 x : dec0 (enc0 x) = Some x.
Proof.
  destruct x as [c i s r a k amt dt]. unfold enc0, dec0. cbn [md_class md_id md_sender md_receiver md_contract md_data md_away md_amount].
  rewrite !cut_fld. destruct a; reflexivity.
Qed.

(** * a concrete history of chain "chain-aaaa" *)
Definition nA := of_string "chain-aaaa".
Definition nB := of_string "chain-bbbb".
Definition esc := of_string "cosmos1mtescrow".
Definition nesc := of_string "cosmos1nftescrow".
Definition alice := of_string "cosmos1alice".
Definition bob := of_string "cosmos1bob".
Definition cls := of_string "cls".
Definition tid := of_string "id1".
Definition tid2 := of_string "id2".
Definition mdat := of_string "meta".
Definition vgold := of_string "tibc-mt/chain-bbbb/chain-aaaa/gold".

Section Ex.
Variable enc : mt_data -> bytes.

Definition p1 := mkPacket 1 nA nB [] MT_PORT (enc (mkMtData cls tid alice bob true [] 30 mdat)).
Definition p3 := mkPacket 3 nA nB [] MT_PORT
  (enc (mkMtData (of_string "mt/chain-bbbb/chain-aaaa/gold") tid2 alice bob false [] 4 mdat)).
Definition pb1 := mkPacket 1 nB nA [] MT_PORT
  (enc (mkMtData (of_string "mt/chain-aaaa/chain-bbbb/cls") tid bob alice false [] 15 mdat)).
Definition pb2 := mkPacket 2 nB nA [] MT_PORT (enc (mkMtData (of_string "gold") tid2 bob alice true [] 7 mdat)).

Definition x_hist : list hop :=
  [ HOp (OCreateClient nB (mkClient [(hkey 1, ([], 0))] 1 1000000));
    HUser (UMtIssue cls alice);
    HUser (UMtMintNew cls tid 100 mdat alice alice);
    HUser (UMtSend cls tid alice bob nB [] [] 30);                       (* away send, sequence 1 *)
    HUser (UMtSend cls tid alice bob nB [] [] 20);                       (* away send, sequence 2 *)
    HUser (UMtMove cls tid 1000 alice bob);                              (* fails: not held *)
    HOp (OUpdateClient nB 5 [(ack_key nA nB 1, ack_err)] 10);
    HOp (OAck p1 ack_err (PGenuine nB (ack_key nA nB 1)) 5);             (* refund of sequence 1 *)
    HOp (OUpdateClient nB 6 [(commit_key nB nA 1, p_data pb1); (commit_key nB nA 2, p_data pb2)] 11);
    HOp (ORecv pb1 (PGenuine nB (commit_key nB nA 1)) 6);                (* back receive: 15 released *)
    HOp (ORecv pb2 (PGenuine nB (commit_key nB nA 2)) 6);                (* away receive: voucher minted *)
    HUser (UMtSend vgold tid2 alice bob nB [] [] 4);                     (* back send: 4 vouchers burned *)
    HOp (OUpdateClient nB 7 [(ack_key nA nB 3, ack_err)] 12);
    HOp (OAck p3 ack_err (PGenuine nB (ack_key nA nB 3)) 7);             (* its refund: 4 minted again *)
    HUser (UMtMove cls tid 5 alice bob) ].

(** an incoming packet names the escrow address itself as the receiver *)
Definition pb_esc := mkPacket 1 nB nA [] MT_PORT (enc (mkMtData (of_string "gold") tid2 bob esc true [] 7 mdat)).
Definition x_hist_party : list hop :=
  [ HOp (OCreateClient nB (mkClient [(hkey 1, ([(commit_key nB nA 1, p_data pb_esc)], 0))] 1 1000000));
    HOp (ORecv pb_esc (PGenuine nB (commit_key nB nA 1)) 1) ].

(** a user moves units to the escrow address directly *)
Definition x_hist_donate : list hop :=
  [ HUser (UMtIssue cls alice);
    HUser (UMtMintNew cls tid 100 mdat alice alice);
    HUser (UMtMove cls tid 5 alice esc) ].

(** a native class whose name contains '/' (the model lets users choose denom
    names): the away send locks 30 units under "a/b", the refund looks for them
    under voucher_class "a/b" = "tibc-a/b" *)
Definition cslash := of_string "a/b".
Definition p_slash := mkPacket 1 nA nB [] MT_PORT (enc (mkMtData cslash tid alice bob true [] 30 mdat)).
Definition x_hist_slash : list hop :=
  [ HOp (OCreateClient nB (mkClient [(hkey 1, ([(ack_key nA nB 1, ack_err)], 0))] 1 1000000));
    HUser (UMtIssue cslash alice);
    HUser (UMtMintNew cslash tid 100 mdat alice alice);
    HUser (UMtSend cslash tid alice bob nB [] [] 30);
    HOp (OAck p_slash ack_err (PGenuine nB (ack_key nA nB 1)) 1) ].

(** the packet-layer operation [OSend] used directly on the MT port: a packet
    that claims 30 units were locked, although the MT module never ran *)
Definition x_hist_rawsend : list hop :=
  [ HOp (OCreateClient nB (mkClient [(hkey 1, ([], 0))] 1 1000000));
    HOp (OSend p1) ].
End Ex.

Lemma x_hist_ok enc : Forall hop_ok (x_hist enc).
Proof. repeat constructor. Qed.
