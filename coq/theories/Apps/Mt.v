(** apps/mt_transfer over a ledger modelling the irismod mt keeper operations
    (IssueDenom, IssueMT, MintMT, TransferOwner, BurnMT, Add/SubBalance with the
    overflow guards and the unguarded uint64 subtractions written as wrap-around).
    Ledger operations return the state reached and whether they succeeded:
    writes made before a failure persist unless the caller is a transaction. *)
From Tibc Require Import Base.Bytes Base.FMap Packet.Types Apps.Path Apps.Nft.

Definition MT_PFX : bytes := of_string "mt".
Definition MT_PORT : bytes := of_string "MT".

Record mt_data := mkMtData {
  md_class : bytes; md_id : bytes; md_sender : bytes; md_receiver : bytes;
  md_away : bool; md_contract : bytes; md_amount : N; md_data : bytes }.

Record mt_state := mkMtState {
  ms_classes : fmap bytes;        (* class -> owner of the denom *)
  ms_mts : fmap bytes;            (* tkey class id -> metadata: the MT exists *)
  ms_supply : fmap N;             (* tkey class id -> supply *)
  ms_bal : fmap (fmap N);         (* tkey class id -> (owner -> balance) *)
  ms_traces : fmap bytes }.

Definition wrap64 (z : N) : N := z mod two64.
Definition sub64 (a b : N) : N := (a + two64 - b mod two64) mod two64.   (* Go: a - b on uint64 *)

Section Mt.
Variable Hh : bytes -> bytes.
Variable valid_addr : bytes -> bool.
Variable escrow : bytes.
Variable enc : mt_data -> bytes.
Variable dec : bytes -> option mt_data.

Notation determine_away := (determine_away MT_PFX).
Notation away_new_class_path := (away_new_class_path MT_PFX).

Definition mt_has_class (c : bytes) (st : mt_state) : bool := has c (ms_classes st).
Definition mt_exists (st : mt_state) (class id : bytes) : bool := has (tkey class id) (ms_mts st).
Definition supply_of (st : mt_state) (class id : bytes) : N :=
  match lookup (tkey class id) (ms_supply st) with Some n => n | None => 0 end.
Definition holders (st : mt_state) (class id : bytes) : fmap N :=
  match lookup (tkey class id) (ms_bal st) with Some m => m | None => [] end.
Definition bal_of (st : mt_state) (owner class id : bytes) : N :=
  match lookup owner (holders st class id) with Some n => n | None => 0 end.

Definition set_bal (st : mt_state) (owner class id : bytes) (n : N) : mt_state :=
  mkMtState (ms_classes st) (ms_mts st) (ms_supply st)
            (set (tkey class id) (set owner n (holders st class id)) (ms_bal st)) (ms_traces st).
Definition set_supply (st : mt_state) (class id : bytes) (n : N) : mt_state :=
  mkMtState (ms_classes st) (ms_mts st) (set (tkey class id) n (ms_supply st)) (ms_bal st) (ms_traces st).

(** AddBalance: guarded against overflow *)
Definition add_balance (st : mt_state) (class id : bytes) (amt : N) (addr : bytes) : mt_state * bool :=
  let b := bal_of st addr class id in
  if u64max - b <? amt then (st, false) else (set_bal st addr class id (b + amt), true).

(** SubBalance: unguarded uint64 subtraction *)
Definition sub_balance (st : mt_state) (class id : bytes) (amt : N) (addr : bytes) : mt_state :=
  set_bal st addr class id (sub64 (bal_of st addr class id) amt).

Definition inc_supply (st : mt_state) (class id : bytes) (amt : N) : mt_state * bool :=
  let s := supply_of st class id in
  if u64max - s <? amt then (st, false) else (set_supply st class id (s + amt), true).

Definition dec_supply (st : mt_state) (class id : bytes) (amt : N) : mt_state :=
  set_supply st class id (sub64 (supply_of st class id) amt).

(** TransferOwner *)
Definition mt_transfer (st : mt_state) (class id : bytes) (amt : N) (src dst : bytes) : mt_state * bool :=
  if bal_of st src class id <? amt then (st, false)
  else add_balance (sub_balance st class id amt src) class id amt dst.

(** BurnMT *)
Definition mt_burn (st : mt_state) (class id : bytes) (amt : N) (owner : bytes) : mt_state * bool :=
  if bal_of st owner class id <? amt then (st, false)
  else (dec_supply (sub_balance st class id amt owner) class id amt, true).

(** MintMT (keeper) *)
Definition mt_mint (st : mt_state) (class id : bytes) (amt : N) (rcpt : bytes) : mt_state * bool :=
  match inc_supply st class id amt with
  | (st1, false) => (st1, false)
  | (st1, true) => add_balance st1 class id amt rcpt
  end.

(** IssueMT (keeper): registers the MT, then supply and balance *)
Definition mt_issue (st : mt_state) (class id : bytes) (amt : N) (data rcpt : bytes) : mt_state * bool :=
  let st0 := mkMtState (ms_classes st) (set (tkey class id) data (ms_mts st)) (ms_supply st) (ms_bal st) (ms_traces st) in
  match inc_supply st0 class id amt with
  | (st1, false) => (st1, false)
  | (st1, true) => add_balance st1 class id amt rcpt
  end.

Definition mt_issue_class (st : mt_state) (class owner : bytes) : mt_state :=
  mkMtState (set class owner (ms_classes st)) (ms_mts st) (ms_supply st) (ms_bal st) (ms_traces st).

Definition mt_class_path_of (st : mt_state) (class : bytes) : option bytes :=
  if has_prefix tibc_dash class then lookup (skipn 5 class) (ms_traces st) else Some class.

(** SendMtTransfer up to the packet keeper's SendPacket (a transaction: any
    failure discards everything) *)
Definition mt_send (name : bytes) (seq : N) (st : mt_state)
    (class id sender receiver dest relay contract : bytes) (amt : N) : option (mt_state * packet) :=
  if negb (mt_has_class class st) then None else
  match lookup (tkey class id) (ms_mts st) with
  | None => None
  | Some mdata =>
      if beq name dest then None else
      match mt_class_path_of st class with
      | None => None
      | Some full =>
          match determine_away full dest with
          | None => None
          | Some away =>
              match (if away then mt_transfer st class id amt sender escrow
                     else mt_burn st class id amt sender) with
              | (_, false) => None
              | (st', true) =>
                  Some (st', mkPacket seq name dest relay MT_PORT
                               (enc (mkMtData full id sender receiver away contract amt mdata)))
              end
          end
      end
  end.

(** keeper.OnRecvPacket *)
Definition mt_recv_core (st : mt_state) (src dst : bytes) (d : mt_data) : mt_state * recv_res :=
  if blank (md_sender d) || blank (md_receiver d) || N.eqb (md_amount d) 0 then (st, RvErr) else
  if negb (valid_addr (md_receiver d)) then (st, RvErr) else
  if md_away d then
    let newpath := away_new_class_path src dst (md_class d) in
    let tr := parse_class_trace newpath in
    let h := Hh (full_class_path tr) in
    let st1 := if has h (ms_traces st) then st
               else mkMtState (ms_classes st) (ms_mts st) (ms_supply st) (ms_bal st)
                              (set h (full_class_path tr) (ms_traces st)) in
    let voucher := ibc_class Hh tr in
    let st2 := if mt_has_class voucher st1 then st1 else mt_issue_class st1 voucher escrow in
    let '(st3, ok) := if mt_exists st2 voucher (md_id d)
                      then mt_mint st2 voucher (md_id d) (md_amount d) escrow
                      else mt_issue st2 voucher (md_id d) (md_amount d) (md_data d) escrow in
    if negb ok then (st3, RvErr) else
    match mt_transfer st3 voucher (md_id d) (md_amount d) escrow (md_receiver d) with
    | (st4, false) => (st4, RvErr)
    | (st4, true) => (st4, RvOk)
    end
  else
    if negb (has_prefix MT_PFX (md_class d)) then (st, RvErr) else
    match back_new_class_path (md_class d) with
    | None => (st, RvPanic)
    | Some np =>
        let voucher := voucher_class Hh np in
        match mt_transfer st voucher (md_id d) (md_amount d) escrow (md_receiver d) with
        | (st', false) => (st', RvErr)
        | (st', true) => (st', RvOk)
        end
    end.

Definition mt_on_recv (st : mt_state) (p : packet) : option (mt_state * option bytes) :=
  match dec (p_data p) with
  | None => None
  | Some d =>
      match mt_recv_core st (p_src p) (p_dst p) d with
      | (st', RvOk) => Some (st', Some ack_ok)
      | (st', RvErr) => Some (st', Some ack_err)
      | (_, RvPanic) => None
      end
  end.

(** refundPacketToken (runs inside the acknowledgement transaction) *)
Definition mt_refund (st : mt_state) (d : mt_data) : option mt_state :=
  if negb (valid_addr (md_sender d)) then None else
  let voucher := voucher_class Hh (md_class d) in
  if md_away d then
    match mt_transfer st voucher (md_id d) (md_amount d) escrow (md_sender d) with
    | (st', true) => Some st' | (_, false) => None end
  else
    match mt_mint st voucher (md_id d) (md_amount d) escrow with
    | (_, false) => None
    | (st1, true) =>
        match mt_transfer st1 voucher (md_id d) (md_amount d) escrow (md_sender d) with
        | (st', true) => Some st' | (_, false) => None end
    end.

Definition mt_on_ack (st : mt_state) (p : packet) (ack : bytes) : option mt_state :=
  if negb (is_err_ack ack || is_ok_ack ack) then None else
  match dec (p_data p) with
  | None => None
  | Some d => if is_err_ack ack then mt_refund st d else Some st
  end.

End Mt.
