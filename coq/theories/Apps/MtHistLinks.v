(** C05 over histories, part 3: "at every point of the history" (prefixes),
    chains that start with an empty ledger, a syntactic premise that makes the
    explicit escrow-party terms vanish, and the link between the acts of the
    ghost accounting and the packet events / packet data of the log (what the
    cross-chain argument needs to connect this chain's sums with the sums of
    the neighbouring chains through the packet-layer facts C01-C03). *)
From Tibc Require Import Base.Bytes Base.BytesFacts Base.FMap Host.Keys Routing.Rules
  Packet.Types Packet.Keeper Packet.KeeperFacts
  Apps.Path Apps.Nft Apps.Mt Apps.MtFacts Apps.App Apps.AppFacts Apps.MtHistory Apps.MtHistEscrow.
From Coq Require Import ZArith ZifyN ZifyNat ZifyBool.

Lemma Forall_firstn' {X} (P : X -> Prop) n l : Forall P l -> Forall P (firstn n l).
Proof.
  intros F. revert n. induction F as [|x l Px F IH]; intros [|n]; cbn [firstn]; constructor; auto.
Qed.

Section Links.
Variable Hh : bytes -> bytes.
Variable H : bytes -> bytes.
Variable valid_addr : bytes -> bool.
Variable nft_escrow mt_escrow : bytes.
Variable enc_nft : nft_data -> bytes.
Variable dec_nft : bytes -> option nft_data.
Variable enc_mt : mt_data -> bytes.
Variable dec_mt : bytes -> option mt_data.
Hypothesis dec_enc : forall x, dec_mt (enc_mt x) = Some x.

Notation escrow := mt_escrow.
Notation chain := (chain app_state).
Notation mt_of c := (a_mt (c_app app_state c)).
Notation hexec := (hexec Hh H valid_addr nft_escrow mt_escrow enc_nft dec_nft enc_mt dec_mt).
Notation hstep := (hstep Hh H valid_addr nft_escrow mt_escrow enc_nft dec_nft enc_mt dec_mt).
Notation hrun := (hrun Hh H valid_addr nft_escrow mt_escrow enc_nft dec_nft enc_mt dec_mt).
Notation hlog := (hlog Hh H valid_addr nft_escrow mt_escrow enc_nft dec_nft enc_mt dec_mt).
Notation hacts := (hacts Hh H valid_addr nft_escrow mt_escrow enc_nft dec_nft enc_mt dec_mt).
Notation act_of := (act_of Hh dec_mt).
Notation recv_act := (recv_act Hh dec_mt).
Notation ack_act := (ack_act Hh dec_mt).
Notation send_act := (send_act dec_mt).
Notation mt_data_of := (mt_data_of dec_mt).

(** * prefixes: the acts of a prefix are a prefix of the acts; ghost sums only grow *)
Lemma hacts_app c a b : hacts c (a ++ b) = hacts c a ++ hacts (hrun c a) b.
Proof. unfold MtHistory.hacts. rewrite hlog_app, map_app. reflexivity. Qed.

Lemma hacts_prefix c hs n :
  hacts c hs = hacts c (firstn n hs) ++ hacts (hrun c (firstn n hs)) (skipn n hs).
Proof. rewrite <- hacts_app, firstn_skipn. reflexivity. Qed.

Lemma ghost_sum_monotone (f : act -> N) c hs n : sumf f (hacts c (firstn n hs)) <= sumf f (hacts c hs).
Proof. rewrite (hacts_prefix c hs n), sumf_app. lia. Qed.

(** * C05 in the words of the property, at every point [n] of every history that
    starts with nothing in escrow: the units locked in escrow are the units sent
    away and neither refunded nor returned (plus the explicit terms for the
    escrow address being named as a party); no subtraction goes below zero and
    nothing exceeds 2^64-1 *)
Theorem escrow_locked_at_every_point (c : chain) hs cl id n :
  Forall hop_ok hs -> MtInv (mt_of c) -> bal_of (mt_of c) escrow cl id = 0 ->
  let A := hacts c (firstn n hs) in
  let plus := sumf (sent_away cl id) A + sumf (party_in escrow cl id) A + sumf (user_in escrow cl id) A in
  let minus := sumf (refunded_away cl id) A + sumf (released_back cl id) A
               + sumf (party_out escrow cl id) A + sumf (user_out escrow cl id) A in
  minus <= plus /\
  bal_of (mt_of (hrun c (firstn n hs))) escrow cl id = plus - minus /\
  plus - minus <= u64max.
Proof.
  intros OK I Z A plus minus.
  destruct (escrow_accounting Hh H valid_addr nft_escrow escrow enc_nft dec_nft enc_mt dec_mt dec_enc
              c (firstn n hs) cl id (Forall_firstn' _ _ _ OK) I) as [E B].
  fold A in E. subst plus minus. lia.
Qed.

Theorem escrow_locked_at_every_point_clean (c : chain) hs cl id n :
  Forall hop_ok hs -> MtInv (mt_of c) -> bal_of (mt_of c) escrow cl id = 0 ->
  Forall (act_clean escrow) (hacts c hs) ->
  let A := hacts c (firstn n hs) in
  sumf (refunded_away cl id) A + sumf (released_back cl id) A <= sumf (sent_away cl id) A /\
  bal_of (mt_of (hrun c (firstn n hs))) escrow cl id
    = sumf (sent_away cl id) A - (sumf (refunded_away cl id) A + sumf (released_back cl id) A) /\
  bal_of (mt_of (hrun c (firstn n hs))) escrow cl id <= u64max.
Proof.
  intros OK I Z CL A.
  assert (CL' : Forall (act_clean escrow) A).
  { rewrite (hacts_prefix c hs n) in CL. apply Forall_app in CL. apply CL. }
  pose proof (escrow_accounting_clean Hh H valid_addr nft_escrow escrow enc_nft dec_nft enc_mt dec_mt dec_enc
              c (firstn n hs) cl id (Forall_firstn' _ _ _ OK) I CL') as E.
  destruct (escrow_accounting Hh H valid_addr nft_escrow escrow enc_nft dec_nft enc_mt dec_mt dec_enc
              c (firstn n hs) cl id (Forall_firstn' _ _ _ OK) I) as [_ B].
  fold A in E. cbv zeta in E. lia.
Qed.

(** voucher units in existence = units received - units sent back + refunds of
    back-sends (+ user mints - user burns) *)
Theorem supply_at_every_point (c : chain) hs cl id n :
  Forall hop_ok hs -> MtInv (mt_of c) -> supply_of (mt_of c) cl id = 0 ->
  let A := hacts c (firstn n hs) in
  let plus := sumf (minted_recv cl id) A + sumf (reminted_refund cl id) A + sumf (user_minted cl id) A in
  let minus := sumf (burned_back cl id) A + sumf (user_burned cl id) A in
  minus <= plus /\
  supply_of (mt_of (hrun c (firstn n hs))) cl id = plus - minus /\
  plus - minus <= u64max.
Proof.
  intros OK I Z A plus minus.
  destruct (supply_accounting Hh H valid_addr nft_escrow escrow enc_nft dec_nft enc_mt dec_mt dec_enc
              c (firstn n hs) cl id (Forall_firstn' _ _ _ OK) I) as [E B].
  fold A in E. subst plus minus. lia.
Qed.

(** * log entries are successful executions from reachable states *)
Lemma hlog_entry c hs h ev :
  In (h, ev) (hlog c hs) ->
  In h hs /\ exists k c2, hexec (hrun c (firstn k hs)) h = Some (c2, ev).
Proof.
  revert c. induction hs as [|h0 r IH]; intros c Hi; [destruct Hi|].
  cbn [MtHistory.hlog] in Hi. destruct (hstep c h0) as [c1 [e0|]] eqn:ST.
  - destruct Hi as [Hi|Hi].
    + inversion Hi; subst h0 e0. split; [left; reflexivity|].
      exists 0%nat, c1. cbn [firstn]. apply hstep_ok in ST. exact ST.
    + destruct (IH c1 Hi) as (Hin & k & c2 & E). split; [right; exact Hin|].
      exists (S k), c2. cbn [firstn]. rewrite hrun_cons, ST. exact E.
  - destruct (IH c1 Hi) as (Hin & k & c2 & E). split; [right; exact Hin|].
    exists (S k), c2. cbn [firstn]. rewrite hrun_cons, ST. exact E.
Qed.

(** * a syntactic premise under which no act names the escrow address *)
Definition hop_clean (h : hop) : Prop :=
  match h with
  | HOp (ORecv p _ _) => forall d, mt_data_of p = Some d -> md_receiver d <> escrow
  | HOp (OAck p _ _ _) => forall d, mt_data_of p = Some d -> md_sender d <> escrow
  | HUser (UMtMintNew _ _ _ _ _ r) | HUser (UMtMint _ _ _ _ r) => r <> escrow
  | HUser (UMtMove _ _ _ f t) => f <> escrow /\ t <> escrow
  | HUser (UMtBurn _ _ _ w) => w <> escrow
  | HUser (UMtSend _ _ s _ _ _ _ _) => s <> escrow
  | _ => True
  end.

Lemma hop_clean_act h ev : hop_clean h -> act_clean escrow (act_of (h, ev)).
Proof.
  destruct h as [o|u]; cbn [hop_clean MtHistory.act_of fst snd].
  - destruct o; intros CL; try exact Logic.I.
    + unfold MtHistory.recv_act. destruct (existsb is_deliver ev && wrote_ok ev); [|exact Logic.I].
      destruct (mt_data_of p) as [d|] eqn:D; [|exact Logic.I]. specialize (CL d eq_refl).
      destruct (md_away d); [exact CL|]. destruct (back_new_class_path (md_class d)); [exact CL|exact Logic.I].
    + unfold MtHistory.ack_act. destruct (existsb is_appack ev && is_err_ack ack); [|exact Logic.I].
      destruct (mt_data_of p) as [d|] eqn:D; [|exact Logic.I]. specialize (CL d eq_refl).
      destruct (md_away d); exact CL.
  - destruct u; intros CL; try exact Logic.I; try exact CL.
    unfold MtHistory.send_act. destruct ev as [|[] [|]]; try exact Logic.I.
    destruct (dec_mt (p_data p)) as [d|]; [|exact Logic.I]. destruct (md_away d); exact CL.
Qed.

Lemma hops_clean_acts c hs : Forall hop_clean hs -> Forall (act_clean escrow) (hacts c hs).
Proof.
  intros F. unfold MtHistory.hacts. apply Forall_forall. intros a Ha.
  apply in_map_iff in Ha. destruct Ha as ([h ev] & <- & Hi).
  apply hlog_entry in Hi. destruct Hi as [Hin _]. apply hop_clean_act.
  rewrite Forall_forall in F. apply F. exact Hin.
Qed.

(** * acts and packets *)

(** a user send that succeeded: exactly one packet event; the packet carries
    the accounted amount, id and sender, the class path of the class named by
    the user and the direction that was accounted *)
Theorem send_entry_packet c cl id s r dest relay k amt c' ev :
  MtInv (mt_of c) -> hexec c (HUser (UMtSend cl id s r dest relay k amt)) = Some (c', ev) ->
  exists p d, ev = [ESend p] /\ dec_mt (p_data p) = Some d /\
    act_of (HUser (UMtSend cl id s r dest relay k amt), ev)
      = (if md_away d then ASendAway cl id amt s else ASendBack cl id amt s) /\
    md_id d = id /\ md_sender d = s /\ md_receiver d = r /\ md_amount d = amt /\
    mt_class_path_of (mt_of c) cl = Some (md_class d) /\
    determine_away MT_PFX (md_class d) dest = Some (md_away d) /\
    p_src p = c_name app_state c /\ p_dst p = dest /\ p_port p = MT_PORT /\
    amt <= u64max.
Proof.
  intros I E. cbn [MtHistory.hexec App.user_exec] in E.
  destruct (mt_send _ _ _ _ _ _ _ _ _ _ _ _ _) as [[st pkt]|] eqn:S; [|discriminate].
  pose proof (mt_send_inv _ _ _ _ _ _ _ _ _ _ _ _ _ _ _ I S) as (_ & LE & _).
  apply (send_mv escrow enc_mt dec_mt dec_enc) in S; [|exact I].
  destruct S as (_ & _ & d & D & F1 & F2 & F3 & F4 & F5 & F6 & F7 & F8 & F9 & _).
  apply send_packet_inv in E. destruct E as (_ & _ & _ & -> & _).
  exists pkt, d. split; [reflexivity|]. split; [exact D|].
  split; [cbn [MtHistory.act_of fst snd MtHistory.send_act]; rewrite D; reflexivity|].
  repeat (split; [assumption|]).
  pose proof (bal_le_supply _ s cl id I). destruct (I cl id) as (_ & _ & SM). lia.
Qed.

(** a receive that was accounted: the packet was delivered here, on the MT
    port, and the success acknowledgement was written for it *)
Theorem recv_entry_packet c p pf h c' ev :
  hexec c (HOp (ORecv p pf h)) = Some (c', ev) -> recv_act p ev <> ANone ->
  p_dst p = c_name app_state c /\ p_port p = MT_PORT /\ In (EDeliver p) ev /\ In (EWriteAck p ack_ok) ev /\
  exists d, dec_mt (p_data p) = Some d /\
    recv_act p ev =
      if md_away d then ARecvAway (recv_voucher Hh p d) (md_id d) (md_amount d) (md_receiver d)
      else match back_new_class_path (md_class d) with
           | Some np => ARecvBack (voucher_class Hh np) (md_id d) (md_amount d) (md_receiver d)
           | None => ANone
           end.
Proof.
  intros E NA. cbn [MtHistory.hexec Keeper.exec] in E. apply msg_recv_app in E.
  unfold MtHistory.recv_act in *.
  destruct E as [[_ ND]|(D & _ & a' & oack & ev1 & _ & _ & Ev1 & ->)].
  - rewrite ND in NA. cbn [andb] in NA. contradiction.
  - destruct (existsb is_deliver _ && wrote_ok _) eqn:B; [|contradiction].
    apply andb_true_iff in B. destruct B as [_ W].
    unfold MtHistory.mt_data_of in *.
    destruct (beq (p_port p) MT_PORT) eqn:PM; [|contradiction]. apply beq_spec in PM.
    destruct (dec_mt (p_data p)) as [d|]; [|contradiction].
    split; [exact D|]. split; [exact PM|].
    split; [apply in_or_app; right; left; reflexivity|].
    split; [|exists d; split; reflexivity].
    unfold wrote_ok in W. rewrite existsb_app in W.
    assert (W1 : existsb (fun e => match e with EWriteAck _ a => beq a ack_ok | _ => false end) ev1 = false)
      by (destruct Ev1 as [->| ->]; reflexivity).
    rewrite W1 in W. cbn [orb app existsb] in W.
    destruct oack as [k|]; cbn [existsb] in W; [|discriminate]. rewrite orb_false_r in W.
    apply beq_spec in W. subst k. apply in_or_app. right. right. left. reflexivity.
Qed.

(** a refund that was accounted: the error acknowledgement of a packet this
    chain sent on the MT port was processed here *)
Theorem ack_entry_packet c p k pf h c' ev :
  hexec c (HOp (OAck p k pf h)) = Some (c', ev) -> ack_act p k ev <> ANone ->
  p_src p = c_name app_state c /\ p_port p = MT_PORT /\ In (EAppAck p k) ev /\ is_err_ack k = true /\
  exists d, dec_mt (p_data p) = Some d /\
    ack_act p k ev =
      if md_away d then ARefundAway (voucher_class Hh (md_class d)) (md_id d) (md_amount d) (md_sender d)
      else ARefundBack (voucher_class Hh (md_class d)) (md_id d) (md_amount d) (md_sender d).
Proof.
  intros E NA. cbn [MtHistory.hexec Keeper.exec] in E. apply msg_ack_app in E.
  unfold MtHistory.ack_act in *.
  destruct E as [[_ ND]|(S & _ & ev1 & _ & ->)].
  - rewrite ND in NA. cbn [andb] in NA. contradiction.
  - destruct (existsb is_appack _ && is_err_ack k) eqn:B; [|contradiction].
    apply andb_true_iff in B. destruct B as [_ ER].
    unfold MtHistory.mt_data_of in *.
    destruct (beq (p_port p) MT_PORT) eqn:PM; [|contradiction]. apply beq_spec in PM.
    destruct (dec_mt (p_data p)) as [d|]; [|contradiction].
    split; [exact S|]. split; [exact PM|].
    split; [apply in_or_app; right; left; reflexivity|].
    split; [exact ER|]. exists d. split; reflexivity.
Qed.

(** conversely nothing is missed: every delivery on the MT port answered with
    the success acknowledgement, and every processed error acknowledgement on
    the MT port, is accounted with the amount in the packet (by definition of
    [recv_act] / [ack_act]) *)
Lemma recv_accounted p ev d :
  existsb is_deliver ev = true -> wrote_ok ev = true -> p_port p = MT_PORT -> dec_mt (p_data p) = Some d ->
  recv_act p ev =
    if md_away d then ARecvAway (recv_voucher Hh p d) (md_id d) (md_amount d) (md_receiver d)
    else match back_new_class_path (md_class d) with
         | Some np => ARecvBack (voucher_class Hh np) (md_id d) (md_amount d) (md_receiver d)
         | None => ANone
         end.
Proof.
  intros D W P E. unfold MtHistory.recv_act, MtHistory.mt_data_of. rewrite D, W, P, beq_refl, E. reflexivity.
Qed.

Lemma ack_accounted p k ev d :
  existsb is_appack ev = true -> is_err_ack k = true -> p_port p = MT_PORT -> dec_mt (p_data p) = Some d ->
  ack_act p k ev =
    if md_away d then ARefundAway (voucher_class Hh (md_class d)) (md_id d) (md_amount d) (md_sender d)
    else ARefundBack (voucher_class Hh (md_class d)) (md_id d) (md_amount d) (md_sender d).
Proof.
  intros D W P E. unfold MtHistory.ack_act, MtHistory.mt_data_of. rewrite D, W, P, beq_refl, E. reflexivity.
Qed.

End Links.
