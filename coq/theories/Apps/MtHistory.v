(** C05 over histories, part 1: ghost accounting of the MT ledger of one chain.

    A history of one chain is a list of [hop]s: packet-layer operations
    (through [exec], with the application callbacks of Apps/App.v) and user
    transactions ([user_exec]).  Every hop is a transaction: a failed hop leaves
    the chain unchanged.  The log of a history is the list of its successful
    hops, each with the packet events it emitted.

    From one log entry (hop, events) the function [act_of] reads off what the
    MT transfer module did to the ledger (an [act]): it looks only at the hop
    and at the events, never at the state.  [moves_of] expands an act into the
    keeper operations (transfer / mint / burn) it consists of.  The main
    theorem of this file ([hist_ledger]) says that the ledger after a history is
    the ledger before it plus the moves of the log -- for every account, every
    (class, id), as an equation between natural numbers (no wrap-around) -- and
    that the invariant "sum of balances = supply <= 2^64-1" holds throughout. *)
From Tibc Require Import Base.Bytes Base.BytesFacts Base.FMap Host.Keys Routing.Rules
  Packet.Types Packet.Keeper Packet.KeeperFacts
  Apps.Path Apps.Nft Apps.Mt Apps.MtFacts Apps.App Apps.AppFacts.
From Coq Require Import ZArith ZifyN ZifyNat ZifyBool.

(** * sums over lists *)
Fixpoint sumf {X} (f : X -> N) (l : list X) : N :=
  match l with [] => 0 | x :: r => f x + sumf f r end.

Lemma sumf_app {X} (f : X -> N) a b : sumf f (a ++ b) = sumf f a + sumf f b.
Proof. induction a as [|x a IH]; cbn [sumf app]; [reflexivity|]. rewrite IH. lia. Qed.

Lemma sumf_ext {X} (f g : X -> N) l : (forall x, f x = g x) -> sumf f l = sumf g l.
Proof. intros E. induction l as [|x l IH]; cbn [sumf]; [reflexivity|]. rewrite E, IH. reflexivity. Qed.

Lemma sumf_zero {X} (f : X -> N) l : (forall x, In x l -> f x = 0) -> sumf f l = 0.
Proof.
  induction l as [|x l IH]; intros Z; cbn [sumf]; [reflexivity|].
  rewrite (Z x) by (left; reflexivity). rewrite IH; [reflexivity|]. intros y Hy. apply Z. right. exact Hy.
Qed.

Lemma sumf_concat_map {X Y} (f : Y -> N) (g : X -> list Y) l :
  sumf f (concat (map g l)) = sumf (fun x => sumf f (g x)) l.
Proof.
  induction l as [|x l IH]; cbn [map concat sumf]; [reflexivity|]. rewrite sumf_app, IH. reflexivity.
Qed.

Lemma sumf_firstn_le {X} (f : X -> N) n l : sumf f (firstn n l) <= sumf f l.
Proof.
  revert n. induction l as [|x l IH]; intros [|n]; cbn [firstn sumf]; try lia. specialize (IH n). lia.
Qed.

(** * keeper moves *)
Inductive mv :=
| MvT (c i : bytes) (amt : N) (src dst : bytes)     (* TransferOwner *)
| MvM (c i : bytes) (amt : N) (rcpt : bytes)        (* MintMT / IssueMT *)
| MvB (c i : bytes) (amt : N) (owner : bytes).      (* BurnMT *)

Definition keq (c i c' i' : bytes) : bool := beq c c' && beq i i'.

(** units entering / leaving the balance of [o] in (c, i) *)
Definition mv_in (o c i : bytes) (m : mv) : N :=
  match m with
  | MvT c' i' amt _ dst => if keq c i c' i' && beq o dst then amt else 0
  | MvM c' i' amt rcpt => if keq c i c' i' && beq o rcpt then amt else 0
  | MvB _ _ _ _ => 0
  end.
Definition mv_out (o c i : bytes) (m : mv) : N :=
  match m with
  | MvT c' i' amt src _ => if keq c i c' i' && beq o src then amt else 0
  | MvM _ _ _ _ => 0
  | MvB c' i' amt owner => if keq c i c' i' && beq o owner then amt else 0
  end.
(** units entering / leaving the supply of (c, i) *)
Definition mv_sin (c i : bytes) (m : mv) : N :=
  match m with MvM c' i' amt _ => if keq c i c' i' then amt else 0 | _ => 0 end.
Definition mv_sout (c i : bytes) (m : mv) : N :=
  match m with MvB c' i' amt _ => if keq c i c' i' then amt else 0 | _ => 0 end.

(** [st'] is [st] plus the moves [ms]: an exact equation in N for every
    account and every (class, id) *)
Definition ledger_eq (st st' : mt_state) (ms : list mv) : Prop :=
  (forall o c i, bal_of st' o c i + sumf (mv_out o c i) ms = bal_of st o c i + sumf (mv_in o c i) ms) /\
  (forall c i, supply_of st' c i + sumf (mv_sout c i) ms = supply_of st c i + sumf (mv_sin c i) ms).

Lemma ledger_eq_nil st st' : same_amounts st' st -> ledger_eq st st' [].
Proof. intros [B S]. split; intros; cbn [sumf]; rewrite ?B, ?S; reflexivity. Qed.

Lemma ledger_eq_refl st : ledger_eq st st [].
Proof. apply ledger_eq_nil. apply same_amounts_refl. Qed.

Lemma ledger_eq_trans a b c m1 m2 : ledger_eq a b m1 -> ledger_eq b c m2 -> ledger_eq a c (m1 ++ m2).
Proof.
  intros [B1 S1] [B2 S2]. split.
  - intros o k i. rewrite !sumf_app. specialize (B1 o k i). specialize (B2 o k i). lia.
  - intros k i. rewrite !sumf_app. specialize (S1 k i). specialize (S2 k i). lia.
Qed.

Lemma ledger_eq_same_l a a' b ms : same_amounts a a' -> ledger_eq a b ms -> ledger_eq a' b ms.
Proof.
  intros [B S] [B1 S1]. split.
  - intros o c i. rewrite <- B. apply B1.
  - intros c i. rewrite <- S. apply S1.
Qed.

Lemma same_ledger_same_amounts a b : same_ledger a b -> same_amounts a b.
Proof.
  intros [E1 E2]. split; intros; unfold bal_of, holders, supply_of; rewrite ?E1, ?E2; reflexivity.
Qed.

Ltac beq_cases :=
  repeat match goal with
  | |- context [beq ?a ?b] =>
      let E := fresh "E" in destruct (beq a b) eqn:E;
      [apply beq_spec in E; try subst | apply beq_false in E]
  end.

Lemma keq_true c i c' i' : keq c i c' i' = true <-> (c, i) = (c', i').
Proof.
  unfold keq. rewrite andb_true_iff, !beq_spec. split; [intros [-> ->]; reflexivity | intros E; inversion E; auto].
Qed.

Lemma keq_false c i c' i' : keq c i c' i' = false <-> (c, i) <> (c', i').
Proof.
  split.
  - intros E X. apply keq_true in X. congruence.
  - intros N. destruct (keq c i c' i') eqn:E; [apply keq_true in E; contradiction | reflexivity].
Qed.

Lemma keq_refl c i : keq c i c i = true.
Proof. apply keq_true. reflexivity. Qed.

(** the three keeper operations, when they succeed from a state satisfying the invariant *)
Lemma transfer_mv st c i amt s d st' :
  MtInv st -> mt_transfer st c i amt s d = (st', true) -> MtInv st' /\ ledger_eq st st' [MvT c i amt s d].
Proof.
  intros I E. destruct (mt_transfer_inv st c i amt s d I) as [TF TO].
  destruct (N.ltb_spec (bal_of st s c i) amt) as [LT|GE]; [rewrite (TF LT) in E; discriminate|].
  destruct (TO GE) as (st2 & T & I' & SU & BNE & BEQ & BO). rewrite T in E. inversion E; subst st2. clear E.
  split; [exact I'|]. split.
  - intros o c' i'. cbn [sumf mv_in mv_out].
    destruct (keq c' i' c i) eqn:K; cbn [andb].
    + apply keq_true in K. inversion K; subst c' i'.
      destruct (bytes_eq_dec s d) as [->|NE].
      * destruct (beq o d) eqn:Eo.
        -- apply beq_spec in Eo. subst o. rewrite (BEQ eq_refl). lia.
        -- apply beq_false in Eo. rewrite BO by (right; split; exact Eo). lia.
      * destruct (BNE NE) as [B1 B2].
        destruct (beq o s) eqn:Es; destruct (beq o d) eqn:Ed.
        -- apply beq_spec in Es. apply beq_spec in Ed. congruence.
        -- apply beq_spec in Es. subst o. rewrite B1. lia.
        -- apply beq_spec in Ed. subst o. rewrite B2. lia.
        -- apply beq_false in Es. apply beq_false in Ed. rewrite BO by (right; split; assumption). lia.
    + apply keq_false in K. rewrite BO by (left; exact K). lia.
  - intros c' i'. cbn [sumf mv_sin mv_sout]. rewrite SU. reflexivity.
Qed.

Lemma mint_mv st c i amt r st' :
  MtInv st -> mt_mint st c i amt r = (st', true) -> MtInv st' /\ ledger_eq st st' [MvM c i amt r].
Proof.
  intros I E. destruct (mt_mint_inv st c i amt r I) as [MF MO].
  destruct (N.ltb_spec u64max (supply_of st c i + amt)) as [OV|NOV]; [rewrite (MF OV) in E; discriminate|].
  destruct (MO NOV) as (st2 & M & I' & SU & B1 & BO & SO). rewrite M in E. inversion E; subst st2. clear E.
  split; [exact I'|]. split.
  - intros o c' i'. cbn [sumf mv_in mv_out].
    destruct (keq c' i' c i) eqn:K; cbn [andb].
    + apply keq_true in K. inversion K; subst c' i'.
      destruct (beq o r) eqn:Eo.
      * apply beq_spec in Eo. subst o. rewrite B1. lia.
      * apply beq_false in Eo. rewrite BO by (right; exact Eo). lia.
    + apply keq_false in K. rewrite BO by (left; exact K). lia.
  - intros c' i'. cbn [sumf mv_sin mv_sout].
    destruct (keq c' i' c i) eqn:K.
    + apply keq_true in K. inversion K; subst c' i'. rewrite SU. lia.
    + apply keq_false in K. rewrite SO by exact K. lia.
Qed.

Lemma burn_mv st c i amt w st' :
  MtInv st -> mt_burn st c i amt w = (st', true) -> MtInv st' /\ ledger_eq st st' [MvB c i amt w].
Proof.
  intros I E. destruct (mt_burn_inv st c i amt w I) as [BF BK].
  destruct (N.ltb_spec (bal_of st w c i) amt) as [LT|GE]; [rewrite (BF LT) in E; discriminate|].
  destruct (BK GE) as (st2 & M & I' & SU & B1 & BO & SO). rewrite M in E. inversion E; subst st2. clear E.
  pose proof (bal_le_supply st w c i I) as BS.
  split; [exact I'|]. split.
  - intros o c' i'. cbn [sumf mv_in mv_out].
    destruct (keq c' i' c i) eqn:K; cbn [andb].
    + apply keq_true in K. inversion K; subst c' i'.
      destruct (beq o w) eqn:Eo.
      * apply beq_spec in Eo. subst o. rewrite B1. lia.
      * apply beq_false in Eo. rewrite BO by (right; exact Eo). lia.
    + apply keq_false in K. rewrite BO by (left; exact K). lia.
  - intros c' i'. cbn [sumf mv_sin mv_sout].
    destruct (keq c' i' c i) eqn:K.
    + apply keq_true in K. inversion K; subst c' i'. rewrite SU. lia.
    + apply keq_false in K. rewrite SO by exact K. lia.
Qed.

(** IssueMT is MintMT on a state with the same ledger *)
Lemma issue_mv st c i amt data r st' :
  MtInv st -> mt_issue st c i amt data r = (st', true) -> MtInv st' /\ ledger_eq st st' [MvM c i amt r].
Proof.
  intros I E. rewrite mt_issue_as_mint in E. cbv zeta in E.
  set (st0 := mkMtState _ _ _ _ _) in E.
  assert (L0 : same_ledger st st0) by (split; reflexivity).
  assert (I0 : MtInv st0) by (eapply MtInv_same_ledger; eauto).
  destruct (mint_mv st0 c i amt r st' I0 E) as [I' LE]. split; [exact I'|].
  eapply ledger_eq_same_l; [|exact LE]. apply same_ledger_same_amounts. split; reflexivity.
Qed.

(** * the packet handlers and the application state (for any application) *)
Section KeeperApp.
Variable A : Type.
Variable H : bytes -> bytes.
Variable has_route : bytes -> bool.
Variable on_recv : A -> packet -> option (A * option bytes).
Variable on_ack : A -> packet -> bytes -> option A.

Lemma write_ack_app c p a c' ev :
  write_ack A H c p a = Some (c', ev) -> c_app A c' = c_app A c /\ ev = [EWriteAck p a].
Proof.
  unfold write_ack. intros E.
  destruct (is_nil a); [discriminate|]. destruct (has _ (c_kv A c)); [discriminate|].
  destruct (negb _); [discriminate|]. inversion E; subst. split; reflexivity.
Qed.

Lemma recv_packet_app c p pf h :
  match recv_packet A H c p pf h with
  | RErr _ => True
  | RUnauth _ c1 ev => c_app A c1 = c_app A c /\ c_name A c1 = c_name A c /\ ev = [ERecv p]
  | ROk _ c1 ev => c_app A c1 = c_app A c /\ c_name A c1 = c_name A c /\ (ev = [ERecv p] \/ ev = [ERecv p; ESend p])
  end.
Proof.
  unfold recv_packet.
  destruct (negb (validate_packet A c p)); [exact I|].
  destruct (has _ (c_kv A c)); [exact I|].
  destruct (lookup _ (c_clients A c)) as [cl|]; [|exact I].
  destruct (negb (client_active cl (c_now A c))); [exact I|].
  destruct (negb (verify _ _ _ _ _ _)); [exact I|].
  destruct (beq (p_relay p) (c_name A c)).
  - destruct (negb (authenticate _ _ _ _)); [repeat split|].
    destruct (negb (has _ _)); [exact I|]. repeat split. right. reflexivity.
  - repeat split. left. reflexivity.
Qed.

(** a successful receive either did not run the application callback (the
    application state is unchanged and no EDeliver was logged), or it ran it on
    the unchanged application state, at the destination, and logged
    EDeliver p followed by the acknowledgement the callback returned *)
Lemma msg_recv_app c p pf h c' ev :
  msg_recv A H has_route on_recv c p pf h = Some (c', ev) ->
  (c_app A c' = c_app A c /\ existsb is_deliver ev = false) \/
  (p_dst p = c_name A c /\ has_route (p_port p) = true /\
   exists a' oack ev1, on_recv (c_app A c) p = Some (a', oack) /\ c_app A c' = a' /\
     (ev1 = [ERecv p] \/ ev1 = [ERecv p; ESend p]) /\
     ev = ev1 ++ [EDeliver p] ++ match oack with Some k => [EWriteAck p k] | None => [] end).
Proof.
  unfold msg_recv. intros E. destruct (N.eqb h 0); [discriminate|].
  pose proof (recv_packet_app c p pf h) as R.
  destruct (recv_packet A H c p pf h) as [|c1 ev1|c1 ev1]; [discriminate| |].
  - destruct R as (RA & RN & ->).
    destruct (write_ack A H c1 p unauth_ack) as [[c2 ev2]|] eqn:W; [|discriminate].
    apply write_ack_app in W. destruct W as [WA ->]. inversion E; subst c' ev.
    left. split; [congruence|reflexivity].
  - destruct R as (RA & RN & REv).
    destruct (beq (p_dst p) (c_name A c1)) eqn:D.
    + apply beq_spec in D. destruct (has_route (p_port p)) eqn:HR; [|discriminate]. cbn [negb] in E.
      destruct (on_recv (c_app A c1) p) as [[a' oack]|] eqn:OR; [|discriminate].
      right. split; [congruence|]. split; [reflexivity|].
      exists a', oack, ev1. rewrite <- RA. split; [exact OR|].
      destruct oack as [k|].
      * destruct (write_ack A H (with_app A c1 a') p k) as [[c3 ev3]|] eqn:W; [|discriminate].
        apply write_ack_app in W. destruct W as [WA ->]. inversion E; subst c' ev.
        split; [exact WA|]. split; [exact REv|reflexivity].
      * inversion E; subst c' ev. split; [reflexivity|]. split; [exact REv|reflexivity].
    + inversion E; subst c' ev. left. split; [exact RA|]. destruct REv as [->| ->]; reflexivity.
Qed.

(** a successful acknowledgement either did not run the application callback
    (state unchanged, no EAppAck logged) or ran it at the packet's source on
    the unchanged application state and logged EAppAck p ack last *)
Lemma msg_ack_app c p a pf h c' ev :
  msg_ack A H has_route on_ack c p a pf h = Some (c', ev) ->
  (c_app A c' = c_app A c /\ existsb is_appack ev = false) \/
  (p_src p = c_name A c /\ on_ack (c_app A c) p a = Some (c_app A c') /\
   exists ev1, (ev1 = [EAck p a] \/ ev1 = [EAck p a; EWriteAck p a]) /\ ev = ev1 ++ [EAppAck p a]).
Proof.
  intros E. apply msg_ack_inv in E. destruct E as (_ & c1 & ev1 & AP & _ & _ & _ & _ & _ & D).
  apply ack_packet_inv in AP.
  destruct AP as (_ & _ & _ & _ & _ & _ & Ev1 & _ & _ & _ & _ & AA).
  assert (Ev1' : ev1 = [EAck p a] \/ ev1 = [EAck p a; EWriteAck p a]) by (destruct Ev1 as [->|[-> _]]; auto).
  destruct D as [(-> & -> & _)|(-> & S & OA)].
  - left. split; [exact AA|]. destruct Ev1' as [->| ->]; reflexivity.
  - right. split; [exact S|]. split; [exact OA|]. exists ev1. split; [exact Ev1'|reflexivity].
Qed.

(** the other packet-layer operations never touch the application state *)
Definition op_plain (o : op A) : Prop :=
  match o with ORecv _ _ _ | OAck _ _ _ _ | OSetApp _ => False | _ => True end.

Lemma exec_plain_app c o c' ev :
  op_plain o -> exec A H has_route on_recv on_ack c o = Some (c', ev) -> c_app A c' = c_app A c.
Proof.
  intros P E. destruct o; cbn [op_plain] in P; try contradiction; cbn [exec] in E.
  - apply send_packet_inv in E. destruct E as (_ & _ & _ & _ & ->). reflexivity.
  - apply clean_packet_inv in E. destruct E as (_ & _ & _ & ->). reflexivity.
  - destruct (N.eqb h 0); [discriminate|]. apply recv_clean_inv in E.
    destruct E as (_ & _ & _ & _ & ->). reflexivity.
  - unfold create_client in E. destruct (has name (c_clients A c)); [discriminate|].
    inversion E; subst. reflexivity.
  - unfold update_client in E. destruct (lookup name (c_clients A c)) as [cl|]; [|discriminate].
    destruct (negb _); [discriminate|]. inversion E; subst. reflexivity.
  - destruct (set_rules rs); [|discriminate]. inversion E; subst. reflexivity.
  - inversion E; subst. reflexivity.
Qed.

End KeeperApp.

(** * histories of one chain *)
Inductive hop :=
| HOp (o : op app_state)       (* a packet-layer operation (relayer / client / governance message) *)
| HUser (u : user_op).         (* a user transaction of the token modules *)

(** [OSetApp] overwrites the application state with an arbitrary one; it is an
    artefact of the packet-layer model and is not part of a history *)
Definition hop_ok (h : hop) : Prop := match h with HOp (OSetApp _) => False | _ => True end.

(** what the MT module did to the ledger in one successful step *)
Inductive act :=
| ASendAway (c i : bytes) (amt : N) (sender : bytes)      (* send away from origin: lock in escrow *)
| ASendBack (c i : bytes) (amt : N) (sender : bytes)      (* send back towards origin: burn the voucher *)
| ARecvAway (v i : bytes) (amt : N) (receiver : bytes)    (* receive further from origin: mint voucher v *)
| ARecvBack (c i : bytes) (amt : N) (receiver : bytes)    (* receive back: release from escrow *)
| ARefundAway (c i : bytes) (amt : N) (sender : bytes)    (* error ack of an away send: release from escrow *)
| ARefundBack (v i : bytes) (amt : N) (sender : bytes)    (* error ack of a back send: mint again *)
| AUMint (c i : bytes) (amt : N) (rcpt : bytes)           (* MsgMintMT *)
| AUMove (c i : bytes) (amt : N) (from to : bytes)        (* MsgTransferMT *)
| AUBurn (c i : bytes) (amt : N) (owner : bytes)          (* MsgBurnMT *)
| ANone.

Lemma ports_distinct : beq NFT_PORT MT_PORT = false /\ beq MOCK_PORT MT_PORT = false /\ beq ack_err ack_ok = false.
Proof. repeat split. Qed.

Section Hist.
Variable Hh : bytes -> bytes.
Variable H : bytes -> bytes.
Variable valid_addr : bytes -> bool.
Variable nft_escrow mt_escrow : bytes.
Variable enc_nft : nft_data -> bytes.
Variable dec_nft : bytes -> option nft_data.
Variable enc_mt : mt_data -> bytes.
Variable dec_mt : bytes -> option mt_data.

Notation escrow := mt_escrow.
Notation chain := (chain app_state).
Notation user_exec := (user_exec H nft_escrow mt_escrow enc_nft enc_mt).
Notation app_on_recv := (app_on_recv Hh valid_addr nft_escrow mt_escrow dec_nft dec_mt).
Notation app_on_ack := (app_on_ack Hh valid_addr nft_escrow mt_escrow dec_nft dec_mt).
Notation exec := (exec app_state H app_has_route app_on_recv app_on_ack).
Notation mt_of c := (a_mt (c_app app_state c)).

(** the keeper operations an act consists of *)
Definition moves_of (a : act) : list mv :=
  match a with
  | ASendAway c i amt s => [MvT c i amt s escrow]
  | ASendBack c i amt s => [MvB c i amt s]
  | ARecvAway v i amt r => [MvM v i amt escrow; MvT v i amt escrow r]
  | ARecvBack c i amt r => [MvT c i amt escrow r]
  | ARefundAway c i amt s => [MvT c i amt escrow s]
  | ARefundBack v i amt s => [MvM v i amt escrow; MvT v i amt escrow s]
  | AUMint c i amt r => [MvM c i amt r]
  | AUMove c i amt f t => [MvT c i amt f t]
  | AUBurn c i amt w => [MvB c i amt w]
  | ANone => []
  end.

(** ** reading the act off a log entry (hop, events) -- never off the state *)
Definition wrote_ok (ev : list event) : bool :=
  existsb (fun e => match e with EWriteAck _ a => beq a ack_ok | _ => false end) ev.

Definition mt_data_of (p : packet) : option mt_data :=
  if beq (p_port p) MT_PORT then dec_mt (p_data p) else None.

(** the voucher class an away-receive of packet p mints *)
Definition recv_voucher (p : packet) (d : mt_data) : bytes :=
  ibc_class Hh (parse_class_trace (away_new_class_path MT_PFX (p_src p) (p_dst p) (md_class d))).

(** ORecv p: the MT callback ran (EDeliver) and answered with the success acknowledgement *)
Definition recv_act (p : packet) (ev : list event) : act :=
  if existsb is_deliver ev && wrote_ok ev then
    match mt_data_of p with
    | Some d =>
        if md_away d then ARecvAway (recv_voucher p d) (md_id d) (md_amount d) (md_receiver d)
        else match back_new_class_path (md_class d) with
             | Some np => ARecvBack (voucher_class Hh np) (md_id d) (md_amount d) (md_receiver d)
             | None => ANone
             end
    | None => ANone
    end
  else ANone.

(** OAck p ack: the MT callback ran (EAppAck) on an error acknowledgement *)
Definition ack_act (p : packet) (ack : bytes) (ev : list event) : act :=
  if existsb is_appack ev && is_err_ack ack then
    match mt_data_of p with
    | Some d =>
        if md_away d then ARefundAway (voucher_class Hh (md_class d)) (md_id d) (md_amount d) (md_sender d)
        else ARefundBack (voucher_class Hh (md_class d)) (md_id d) (md_amount d) (md_sender d)
    | None => ANone
    end
  else ANone.

(** UMtSend: the direction is the one written into the packet that was sent *)
Definition send_act (c i : bytes) (amt : N) (sender : bytes) (ev : list event) : act :=
  match ev with
  | [ESend p] =>
      match dec_mt (p_data p) with
      | Some d => if md_away d then ASendAway c i amt sender else ASendBack c i amt sender
      | None => ANone
      end
  | _ => ANone
  end.

Definition act_of (e : hop * list event) : act :=
  match fst e with
  | HOp (ORecv p _ _) => recv_act p (snd e)
  | HOp (OAck p a _ _) => ack_act p a (snd e)
  | HOp _ => ANone
  | HUser (UMtMintNew c i amt _ _ r) => AUMint c i amt r
  | HUser (UMtMint c i amt _ r) => AUMint c i amt r
  | HUser (UMtMove c i amt f t) => AUMove c i amt f t
  | HUser (UMtBurn c i amt w) => AUBurn c i amt w
  | HUser (UMtSend c i s _ _ _ _ amt) => send_act c i amt s (snd e)
  | HUser _ => ANone
  end.

(** ** running a history *)
Definition hexec (c : chain) (h : hop) : option (chain * list event) :=
  match h with HOp o => exec c o | HUser u => user_exec c u end.

(** a transaction: the new state is kept iff the handler succeeded *)
Definition hstep (c : chain) (h : hop) : chain * option (list event) :=
  match hexec c h with Some (c', ev) => (c', Some ev) | None => (c, None) end.

Definition hrun (c : chain) (hs : list hop) : chain := fold_left (fun c h => fst (hstep c h)) hs c.

(** the log: successful hops with the events they emitted, in order *)
Fixpoint hlog (c : chain) (hs : list hop) : list (hop * list event) :=
  match hs with
  | [] => []
  | h :: r => match hstep c h with
              | (c', Some ev) => (h, ev) :: hlog c' r
              | (c', None) => hlog c' r
              end
  end.

(** the flat packet-event log, as in [run_log] *)
Definition hevents (c : chain) (hs : list hop) : list event := concat (map snd (hlog c hs)).

(** the acts and the keeper moves of a history *)
Definition hacts (c : chain) (hs : list hop) : list act := map act_of (hlog c hs).
Definition hmoves (c : chain) (hs : list hop) : list mv := concat (map moves_of (hacts c hs)).

Lemma hstep_op c o : hstep c (HOp o) = step app_state H app_has_route app_on_recv app_on_ack c o.
Proof. reflexivity. Qed.

Lemma hrun_ops c ops : hrun c (map HOp ops) = run app_state H app_has_route app_on_recv app_on_ack c ops.
Proof. revert c. induction ops as [|o r IH]; intros c; [reflexivity|]. cbn [map hrun run fold_left]. apply IH. Qed.

Lemma hevents_ops c ops : hevents c (map HOp ops) = run_log app_state H app_has_route app_on_recv app_on_ack c ops.
Proof.
  revert c. induction ops as [|o r IH]; intros c; [reflexivity|].
  unfold hevents. cbn [map hlog run_log]. rewrite hstep_op.
  destruct (step app_state H app_has_route app_on_recv app_on_ack c o) as [c' [ev|]].
  - cbn [map concat snd]. f_equal. apply IH.
  - apply IH.
Qed.

Lemma hrun_cons c h r : hrun c (h :: r) = hrun (fst (hstep c h)) r.
Proof. reflexivity. Qed.

Lemma hrun_app c a b : hrun c (a ++ b) = hrun (hrun c a) b.
Proof. unfold hrun. apply fold_left_app. Qed.

Lemma hlog_app c a b : hlog c (a ++ b) = hlog c a ++ hlog (hrun c a) b.
Proof.
  revert c. induction a as [|h a IH]; intros c; [reflexivity|].
  cbn [app hlog]. rewrite hrun_cons. destruct (hstep c h) as [c' [ev|]]; cbn [fst]; rewrite IH; reflexivity.
Qed.

(** ** the receive callback *)
Lemma recv_core_mv st src dst d st' :
  MtInv st -> mt_recv_core Hh valid_addr escrow st src dst d = (st', RvOk) ->
  MtInv st' /\
  ledger_eq st st'
    (moves_of (if md_away d
               then ARecvAway (ibc_class Hh (parse_class_trace (away_new_class_path MT_PFX src dst (md_class d))))
                              (md_id d) (md_amount d) (md_receiver d)
               else match back_new_class_path (md_class d) with
                    | Some np => ARecvBack (voucher_class Hh np) (md_id d) (md_amount d) (md_receiver d)
                    | None => ANone
                    end)).
Proof.
  intros I. unfold Mt.mt_recv_core.
  destruct (blank (md_sender d) || blank (md_receiver d) || N.eqb (md_amount d) 0); [discriminate|].
  destruct (valid_addr (md_receiver d)); cbn [negb]; [|discriminate].
  destruct (md_away d).
  - set (tr := parse_class_trace (away_new_class_path MT_PFX src dst (md_class d))).
    set (st1 := if has (Hh (full_class_path tr)) (ms_traces st) then st else _).
    set (voucher := ibc_class Hh tr).
    set (st2 := if mt_has_class voucher st1 then st1 else mt_issue_class st1 voucher escrow).
    assert (L2 : same_ledger st st2).
    { unfold st2, st1. destruct (mt_has_class voucher _); destruct (has _ (ms_traces st)); split; reflexivity. }
    assert (I2 : MtInv st2) by (eapply MtInv_same_ledger; eauto).
    assert (A2 : same_amounts st2 st) by (apply same_ledger_same_amounts; destruct L2; split; congruence).
    destruct (if mt_exists st2 voucher (md_id d)
              then mt_mint st2 voucher (md_id d) (md_amount d) escrow
              else mt_issue st2 voucher (md_id d) (md_amount d) (md_data d) escrow) as [st3 ok] eqn:M.
    destruct ok; cbn [negb]; [|discriminate].
    assert (M3 : MtInv st3 /\ ledger_eq st2 st3 [MvM voucher (md_id d) (md_amount d) escrow]).
    { destruct (mt_exists st2 voucher (md_id d)); [eapply mint_mv | eapply issue_mv]; eauto. }
    destruct M3 as [I3 LE3].
    destruct (mt_transfer st3 voucher (md_id d) (md_amount d) escrow (md_receiver d)) as [st4 ok4] eqn:T.
    destruct ok4; [|discriminate]. intros E. inversion E; subst st4. clear E.
    destruct (transfer_mv _ _ _ _ _ _ _ I3 T) as [I4 LE4]. split; [exact I4|].
    cbn [moves_of]. eapply ledger_eq_same_l; [exact A2|].
    exact (ledger_eq_trans _ _ _ _ _ LE3 LE4).
  - destruct (has_prefix MT_PFX (md_class d)); cbn [negb]; [|discriminate].
    destruct (back_new_class_path (md_class d)) as [np|]; [|discriminate].
    destruct (mt_transfer st (voucher_class Hh np) (md_id d) (md_amount d) escrow (md_receiver d)) as [st1 ok] eqn:T.
    destruct ok; [|discriminate]. intros E. inversion E; subst st1. clear E.
    exact (transfer_mv _ _ _ _ _ _ _ I T).
Qed.

Lemma existsb_app_r {X} (f : X -> bool) a b : existsb f a = false -> existsb f (a ++ b) = existsb f b.
Proof. intros E. rewrite existsb_app, E. reflexivity. Qed.

Lemma recv_sound c p pf h c' ev :
  MtInv (mt_of c) -> exec c (ORecv p pf h) = Some (c', ev) ->
  MtInv (mt_of c') /\ ledger_eq (mt_of c) (mt_of c') (moves_of (recv_act p ev)).
Proof.
  intros I E. cbn [Keeper.exec] in E. apply msg_recv_app in E.
  destruct E as [[EA ND]|(D & HR & a' & oack & ev1 & OR & EA & Ev1 & ->)].
  - rewrite EA. split; [exact I|]. unfold recv_act. rewrite ND. cbn [andb moves_of]. apply ledger_eq_refl.
  - rewrite EA. clear EA.
    assert (DL : existsb is_deliver (ev1 ++ [EDeliver p] ++ match oack with Some k => [EWriteAck p k] | None => [] end) = true).
    { rewrite existsb_app. cbn [app existsb is_deliver]. rewrite orb_true_r. reflexivity. }
    assert (WO : wrote_ok (ev1 ++ [EDeliver p] ++ match oack with Some k => [EWriteAck p k] | None => [] end)
                 = match oack with Some k => beq k ack_ok | None => false end).
    { unfold wrote_ok. rewrite existsb_app_r by (destruct Ev1 as [->| ->]; reflexivity).
      destruct oack as [k|]; cbn [app existsb]; [rewrite orb_false_r|]; reflexivity. }
    unfold recv_act. rewrite DL, WO. cbn [andb]. clear DL WO Ev1.
    unfold App.app_on_recv in OR. unfold mt_data_of.
    destruct (beq (p_port p) NFT_PORT) eqn:PN.
    { apply beq_spec in PN. rewrite PN. cbn [beq NFT_PORT MT_PORT].
      destruct (nft_on_recv _ _ _ _ _ _) as [[st k]|]; [|discriminate]. inversion OR; subst a' oack.
      cbn [a_mt]. split; [exact I|].
      replace (beq NFT_PORT MT_PORT) with false by reflexivity.
      destruct k as [k|]; [destruct (beq k ack_ok)|]; apply ledger_eq_refl. }
    destruct (beq (p_port p) MT_PORT) eqn:PM.
    { unfold mt_on_recv in OR. destruct (dec_mt (p_data p)) as [d|]; [|discriminate].
      destruct (mt_recv_core Hh valid_addr escrow (mt_of c) (p_src p) (p_dst p) d) as [st r] eqn:R.
      destruct r; inversion OR; subst a' oack; cbn [a_mt].
      - replace (beq ack_ok ack_ok) with true by reflexivity.
        exact (recv_core_mv _ _ _ _ _ I R).
      - replace (beq ack_err ack_ok) with false by reflexivity.
        apply mt_recv_inv in R; [|exact I]. destruct R as (I' & SA & _).
        split; [exact I'|]. apply ledger_eq_nil. apply SA. reflexivity. }
    destruct (beq (p_port p) MOCK_PORT); inversion OR; subst a' oack.
    split; [exact I|]. destruct (beq mock_ack_bytes ack_ok); apply ledger_eq_refl.
Qed.

(** ** the acknowledgement callback *)
Lemma refund_mv st d st' :
  MtInv st -> mt_refund Hh valid_addr escrow st d = Some st' ->
  MtInv st' /\
  ledger_eq st st'
    (moves_of (if md_away d
               then ARefundAway (voucher_class Hh (md_class d)) (md_id d) (md_amount d) (md_sender d)
               else ARefundBack (voucher_class Hh (md_class d)) (md_id d) (md_amount d) (md_sender d))).
Proof.
  intros I. unfold Mt.mt_refund.
  destruct (negb (valid_addr (md_sender d))); [discriminate|].
  destruct (md_away d).
  - destruct (mt_transfer st _ (md_id d) (md_amount d) escrow (md_sender d)) as [st1 ok] eqn:T.
    destruct ok; [|discriminate]. intros E. inversion E; subst st1.
    exact (transfer_mv _ _ _ _ _ _ _ I T).
  - destruct (mt_mint st _ (md_id d) (md_amount d) escrow) as [st1 ok] eqn:M.
    destruct ok; [|discriminate].
    destruct (mint_mv _ _ _ _ _ _ I M) as [I1 LE1].
    destruct (mt_transfer st1 _ (md_id d) (md_amount d) escrow (md_sender d)) as [st2 ok] eqn:T.
    destruct ok; [|discriminate]. intros E. inversion E; subst st2.
    destruct (transfer_mv _ _ _ _ _ _ _ I1 T) as [I2 LE2]. split; [exact I2|].
    exact (ledger_eq_trans _ _ _ _ _ LE1 LE2).
Qed.

Lemma ack_sound c p k pf h c' ev :
  MtInv (mt_of c) -> exec c (OAck p k pf h) = Some (c', ev) ->
  MtInv (mt_of c') /\ ledger_eq (mt_of c) (mt_of c') (moves_of (ack_act p k ev)).
Proof.
  intros I E. cbn [Keeper.exec] in E. apply msg_ack_app in E.
  destruct E as [[EA ND]|(S & OA & ev1 & Ev1 & ->)].
  - rewrite EA. split; [exact I|]. unfold ack_act. rewrite ND. cbn [andb moves_of]. apply ledger_eq_refl.
  - assert (AL : existsb is_appack (ev1 ++ [EAppAck p k]) = true).
    { rewrite existsb_app. cbn [existsb is_appack]. rewrite orb_true_r. reflexivity. }
    unfold ack_act. rewrite AL. cbn [andb]. clear AL Ev1.
    unfold App.app_on_ack in OA. unfold mt_data_of.
    destruct (beq (p_port p) NFT_PORT) eqn:PN.
    { apply beq_spec in PN. rewrite PN. replace (beq NFT_PORT MT_PORT) with false by reflexivity.
      destruct (nft_on_ack _ _ _ _ _ _ _) as [st|]; [|discriminate]. cbn [option_map] in OA.
      injection OA as EQ. rewrite <- EQ. cbn [a_mt]. split; [exact I|].
      destruct (is_err_ack k); apply ledger_eq_refl. }
    destruct (beq (p_port p) MT_PORT) eqn:PM.
    { unfold mt_on_ack in OA. destruct (negb (is_err_ack k || is_ok_ack k)); [discriminate|].
      destruct (dec_mt (p_data p)) as [d|]; [|discriminate].
      destruct (is_err_ack k).
      - destruct (mt_refund Hh valid_addr escrow (mt_of c) d) as [st'|] eqn:R; [|discriminate].
        cbn [option_map] in OA. injection OA as EQ. rewrite <- EQ. cbn [a_mt].
        exact (refund_mv _ _ _ I R).
      - cbn [option_map] in OA. injection OA as EQ. rewrite <- EQ. cbn [a_mt].
        split; [exact I|]. apply ledger_eq_refl. }
    destruct (beq (p_port p) MOCK_PORT); [|discriminate]. injection OA as EQ. rewrite <- EQ.
    split; [exact I|]. destruct (is_err_ack k); apply ledger_eq_refl.
Qed.

(** ** user transactions.  The send needs [dec_mt (enc_mt x) = Some x]: the
    direction of a send is read from the packet in the log *)
Hypothesis dec_enc : forall x, dec_mt (enc_mt x) = Some x.

Lemma send_mv name seq st class id sender receiver dest relay contract amt st1 p :
  MtInv st ->
  mt_send escrow enc_mt name seq st class id sender receiver dest relay contract amt = Some (st1, p) ->
  MtInv st1 /\ ledger_eq st st1 (moves_of (send_act class id amt sender [ESend p])) /\
  exists d, dec_mt (p_data p) = Some d /\ md_id d = id /\ md_sender d = sender /\ md_receiver d = receiver /\
            md_amount d = amt /\ mt_class_path_of st class = Some (md_class d) /\
            determine_away MT_PFX (md_class d) dest = Some (md_away d) /\
            p_src p = name /\ p_dst p = dest /\ p_port p = MT_PORT /\ p_seq p = seq /\ p_relay p = relay.
Proof.
  intros I. unfold Mt.mt_send. intros E.
  destruct (mt_has_class class st); [|discriminate]. cbn [negb] in E.
  destruct (lookup (tkey class id) (ms_mts st)) as [mdata|]; [|discriminate].
  destruct (beq name dest); [discriminate|].
  destruct (mt_class_path_of st class) as [full|]; [|discriminate].
  destruct (determine_away MT_PFX full dest) as [away|] eqn:DA; [|discriminate].
  unfold send_act.
  destruct away.
  - destruct (mt_transfer st class id amt sender escrow) as [st' ok] eqn:T.
    destruct ok; [|discriminate]. inversion E; subst st1 p. clear E.
    cbn [p_data]. rewrite dec_enc. cbn [md_away].
    destruct (transfer_mv _ _ _ _ _ _ _ I T) as [I' LE]. split; [exact I'|]. split; [exact LE|].
    eexists. split; [reflexivity|]. cbn. repeat split; auto.
  - destruct (mt_burn st class id amt sender) as [st' ok] eqn:T.
    destruct ok; [|discriminate]. inversion E; subst st1 p. clear E.
    cbn [p_data]. rewrite dec_enc. cbn [md_away].
    destruct (burn_mv _ _ _ _ _ _ I T) as [I' LE]. split; [exact I'|]. split; [exact LE|].
    eexists. split; [reflexivity|]. cbn. repeat split; auto.
Qed.

Lemma lift_mt_sound (c : chain) r c' ev ms :
  lift_mt c r = Some (c', ev) ->
  (snd r = true -> MtInv (fst r) /\ ledger_eq (mt_of c) (fst r) ms) ->
  MtInv (mt_of c') /\ ledger_eq (mt_of c) (mt_of c') ms.
Proof.
  unfold lift_mt. destruct r as [st [|]]; [|discriminate]. intros E X. inversion E; subst. cbn. apply X. reflexivity.
Qed.

Lemma user_sound c u c' ev :
  MtInv (mt_of c) -> user_exec c u = Some (c', ev) ->
  MtInv (mt_of c') /\ ledger_eq (mt_of c) (mt_of c') (moves_of (act_of (HUser u, ev))).
Proof.
  intros I E.
  assert (SAME : a_mt (c_app app_state c') = mt_of c ->
                 MtInv (mt_of c') /\ ledger_eq (mt_of c) (mt_of c') []).
  { intros ->. split; [exact I|apply ledger_eq_refl]. }
  destruct u; cbn [App.user_exec] in E; cbn [act_of fst snd moves_of].
  - destruct (has_class _ _); [discriminate|]. inversion E; subst. apply SAME. reflexivity.
  - destruct (lookup _ (ns_classes _)) as [[cr rs]|]; [|discriminate].
    destruct (rs && _); [discriminate|].
    unfold lift_nft in E. destruct (nft_mint _ _ _ _ _); [|discriminate]. inversion E; subst. apply SAME. reflexivity.
  - unfold lift_nft in E. destruct (nft_transfer _ _ _ _ _); [|discriminate]. inversion E; subst. apply SAME. reflexivity.
  - unfold lift_nft in E. destruct (nft_burn _ _ _ _); [|discriminate]. inversion E; subst. apply SAME. reflexivity.
  - destruct (nft_send _ _ _ _ _ _ _ _ _ _ _ _) as [[st pkt]|]; [|discriminate].
    apply send_packet_inv in E. destruct E as (_ & _ & _ & _ & ->). apply SAME. reflexivity.
  - destruct (mt_has_class _ _); [discriminate|]. eapply lift_mt_sound; [exact E|]. intros _. cbn [fst].
    split.
    + eapply MtInv_same_ledger; [|exact I]. split; reflexivity.
    + apply ledger_eq_nil. apply same_ledger_same_amounts. split; reflexivity.
  - destruct (N.eqb amt 0); [discriminate|].
    destruct (lookup _ (ms_classes _)) as [owner|]; [|discriminate].
    destruct (negb _); [discriminate|]. destruct (mt_exists _ _ _); [discriminate|].
    eapply lift_mt_sound; [exact E|]. intros OK.
    destruct (mt_issue (mt_of c) class id amt data rcpt) as [st ok] eqn:M. cbn [fst snd] in *. subst ok.
    exact (issue_mv _ _ _ _ _ _ _ I M).
  - destruct (N.eqb amt 0); [discriminate|].
    destruct (lookup _ (ms_classes _)) as [owner|]; [|discriminate].
    destruct (negb _); [discriminate|]. destruct (negb (mt_exists _ _ _)); [discriminate|].
    eapply lift_mt_sound; [exact E|]. intros OK.
    destruct (mt_mint (mt_of c) class id amt rcpt) as [st ok] eqn:M. cbn [fst snd] in *. subst ok.
    exact (mint_mv _ _ _ _ _ _ I M).
  - destruct (N.eqb amt 0); [discriminate|].
    eapply lift_mt_sound; [exact E|]. intros OK.
    destruct (mt_transfer (mt_of c) class id amt from to) as [st ok] eqn:M. cbn [fst snd] in *. subst ok.
    exact (transfer_mv _ _ _ _ _ _ _ I M).
  - destruct (N.eqb amt 0); [discriminate|].
    eapply lift_mt_sound; [exact E|]. intros OK.
    destruct (mt_burn (mt_of c) class id amt owner) as [st ok] eqn:M. cbn [fst snd] in *. subst ok.
    exact (burn_mv _ _ _ _ _ _ I M).
  - destruct (mt_send _ _ _ _ _ _ _ _ _ _ _ _ _) as [[st pkt]|] eqn:S; [|discriminate].
    apply send_mv in S; [|exact I]. destruct S as (I' & LE & _).
    apply send_packet_inv in E. destruct E as (_ & _ & _ & -> & ->). cbn. split; [exact I'|exact LE].
Qed.

(** ** one step *)
Theorem hexec_sound c h c' ev :
  hop_ok h -> MtInv (mt_of c) -> hexec c h = Some (c', ev) ->
  MtInv (mt_of c') /\ ledger_eq (mt_of c) (mt_of c') (moves_of (act_of (h, ev))).
Proof.
  intros OK I E. destruct h as [o|u]; cbn [hexec] in E.
  - destruct o; cbn [hop_ok] in OK; try contradiction;
      try (cbn [act_of fst snd moves_of];
           assert (EA : c_app app_state c' = c_app app_state c)
             by (eapply exec_plain_app; [|exact E]; exact Logic.I);
           rewrite EA; split; [exact I|apply ledger_eq_refl]).
    + cbn [act_of fst snd]. eapply recv_sound; eauto.
    + cbn [act_of fst snd]. eapply ack_sound; eauto.
  - apply user_sound; assumption.
Qed.

Lemma hstep_fail c h c' : hstep c h = (c', None) -> c' = c.
Proof. unfold hstep. destruct (hexec c h) as [[c1 ev]|]; intros E; inversion E; reflexivity. Qed.

Lemma hstep_ok c h c' ev : hstep c h = (c', Some ev) -> hexec c h = Some (c', ev).
Proof. unfold hstep. destruct (hexec c h) as [[c1 e1]|]; intros E; inversion E; reflexivity. Qed.

(** ** histories: THE LEDGER AFTER A HISTORY IS THE LEDGER BEFORE IT PLUS THE
    MOVES OF ITS LOG, and the invariant holds at the end (hence, applying the
    theorem to prefixes, at every point) *)
Theorem hist_ledger c hs :
  Forall hop_ok hs -> MtInv (mt_of c) ->
  MtInv (mt_of (hrun c hs)) /\ ledger_eq (mt_of c) (mt_of (hrun c hs)) (hmoves c hs).
Proof.
  intros OK. revert c. induction OK as [|h r OKh OKr IH]; intros c I.
  - split; [exact I|apply ledger_eq_refl].
  - rewrite hrun_cons. unfold hmoves, hacts. cbn [hlog].
    destruct (hstep c h) as [c1 [ev|]] eqn:S; cbn [fst].
    + apply hstep_ok in S. destruct (hexec_sound _ _ _ _ OKh I S) as [I1 LE1].
      destruct (IH c1 I1) as [I2 LE2]. split; [exact I2|].
      cbn [map concat]. exact (ledger_eq_trans _ _ _ _ _ LE1 LE2).
    + apply hstep_fail in S. subst c1. apply IH. exact I.
Qed.

Corollary hist_inv c hs :
  Forall hop_ok hs -> AppInv (c_app app_state c) -> AppInv (c_app app_state (hrun c hs)).
Proof. intros OK I. apply hist_ledger; assumption. Qed.

End Hist.
