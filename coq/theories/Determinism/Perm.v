(** C20: the places where the Go code ranges over a map.  Go's map iteration
    order is unspecified and differs between runs, so each such loop is
    modelled as a fold over an ARBITRARY ordering of the map's entries (a list
    without duplicate keys), and its observable result is proved equal for all
    orderings (all permutations of the entry list).

    Sites (found by tools/scan on every run; tools/c20_sites.json ties each to
    a theorem here):
      08-bsc/types/header.go   verifySeal:  for seen, recent := range snap.Recents
      08-bsc/types/snapshot.go validators:  for v := range s.Validators  (then sort)
      08-bsc/types/snapshot.go inturn:      uses validators() *)
From Coq Require Import NArith List Bool Permutation Sorted Lia.
From Tibc Require Import Base.Bytes.
Import ListNotations.
Open Scope N_scope.

(** ** verifySeal's recency loop
    for seen, recent := range snap.Recents {
        if recent == signer { if limit := ...; seen > number-limit { return ErrRecentlySigned } } }
    The loop returns an error as soon as it meets an offending entry and has no
    other effect, so its observable result is "does an offending entry exist". *)
Definition offending (signer : bytes) (number limit : N) (e : N * bytes) : bool :=
  beq (snd e) signer && ((number + two64 - limit) mod two64 <? fst e).

(** the loop run over the entries in the order [l] : true = ErrRecentlySigned *)
Fixpoint recents_loop (signer : bytes) (number limit : N) (l : list (N * bytes)) : bool :=
  match l with
  | [] => false
  | e :: rest => if offending signer number limit e then true else recents_loop signer number limit rest
  end.

Lemma recents_loop_existsb signer number limit l :
  recents_loop signer number limit l = existsb (offending signer number limit) l.
Proof. induction l as [|e l IH]; cbn; [reflexivity|]. destruct (offending _ _ _ e); cbn; auto. Qed.

Lemma existsb_perm {X} (f : X -> bool) l l' : Permutation l l' -> existsb f l = existsb f l'.
Proof.
  induction 1; cbn; auto.
  - rewrite IHPermutation. reflexivity.
  - destruct (f x), (f y); reflexivity.
  - congruence.
Qed.

Theorem recents_loop_order_independent signer number limit l l' :
  Permutation l l' -> recents_loop signer number limit l = recents_loop signer number limit l'.
Proof. intros P. rewrite !recents_loop_existsb. apply existsb_perm. exact P. Qed.

(** ** snapshot.validators(): collect the map's keys in iteration order, then
    sort ascending by bytes.Compare.  Insertion sort stands for sort.Sort: any
    correct sort gives the same list, as the theorem below shows (the sorted
    arrangement of a duplicate-free key set is unique). *)
Fixpoint ble (a b : bytes) : bool :=       (* bytes.Compare(a,b) <= 0 *)
  match a, b with
  | [], _ => true
  | _ :: _, [] => false
  | x :: a', y :: b' => if x <? y then true else if y <? x then false else ble a' b'
  end.

Lemma ble_total a : forall b, ble a b = true \/ ble b a = true.
Proof.
  induction a as [|x a IH]; intros [|y b]; cbn; auto.
  destruct (N.ltb_spec x y); [auto|]. destruct (N.ltb_spec y x); [auto|]. apply IH.
Qed.

Lemma ble_antisym a : forall b, ble a b = true -> ble b a = true -> a = b.
Proof.
  induction a as [|x a IH]; intros [|y b]; cbn; auto; try discriminate.
  destruct (N.ltb_spec x y); destruct (N.ltb_spec y x); try lia; try discriminate.
  intros H1 H2. assert (x = y) by lia. subst. f_equal. apply IH; assumption.
Qed.

Lemma ble_trans a : forall b c, ble a b = true -> ble b c = true -> ble a c = true.
Proof.
  induction a as [|x a IH]; intros [|y b] [|z c]; cbn; auto; try discriminate.
  destruct (N.ltb_spec x y); destruct (N.ltb_spec y z); destruct (N.ltb_spec x z); auto; try lia;
    destruct (N.ltb_spec y x); destruct (N.ltb_spec z y); destruct (N.ltb_spec z x); try lia; try discriminate; auto.
  intros. eapply IH; eassumption.
Qed.

Fixpoint insert (x : bytes) (l : list bytes) : list bytes :=
  match l with
  | [] => [x]
  | y :: r => if ble x y then x :: l else y :: insert x r
  end.
Fixpoint isort (l : list bytes) : list bytes :=
  match l with [] => [] | x :: r => insert x (isort r) end.

Definition sorted (l : list bytes) : Prop := StronglySorted (fun a b => ble a b = true) l.

Lemma insert_perm x l : Permutation (x :: l) (insert x l).
Proof.
  induction l as [|y r IH]; cbn; [apply Permutation_refl|].
  destruct (ble x y); [apply Permutation_refl|].
  eapply perm_trans; [apply perm_swap|]. apply perm_skip. exact IH.
Qed.

Lemma isort_perm l : Permutation l (isort l).
Proof.
  induction l as [|x r IH]; cbn; [constructor|].
  eapply perm_trans; [apply perm_skip; exact IH|apply insert_perm].
Qed.

Lemma insert_sorted x l : sorted l -> sorted (insert x l).
Proof.
  induction l as [|y r IH]; intros S; cbn.
  - constructor; constructor.
  - inversion S as [|y' r' Sr Fy]; subst. destruct (ble x y) eqn:E.
    + constructor; [exact S|]. constructor; [exact E|].
      eapply Forall_impl; [|exact Fy]. intros z Hz. eapply ble_trans; eassumption.
    + constructor; [apply IH; exact Sr|].
      assert (Y : ble y x = true) by (destruct (ble_total x y); congruence).
      eapply Permutation_Forall; [apply insert_perm|]. constructor; assumption.
Qed.

Lemma isort_sorted l : sorted (isort l).
Proof. induction l as [|x r IH]; cbn; [constructor|apply insert_sorted; exact IH]. Qed.

(** two sorted lists with the same elements are the same list *)
Lemma sorted_perm_unique l : forall l', sorted l -> sorted l' -> Permutation l l' -> l = l'.
Proof.
  induction l as [|x r IH]; intros l' S S' P.
  - apply Permutation_nil in P. subst. reflexivity.
  - destruct l' as [|y r']; [apply Permutation_sym, Permutation_nil in P; discriminate|].
    inversion S as [|? ? Sr Fx]; subst. inversion S' as [|? ? Sr' Fy]; subst.
    assert (x = y).
    { assert (Ix : In x (y :: r')) by (eapply Permutation_in; [exact P|left; reflexivity]).
      assert (Iy : In y (x :: r)) by (eapply Permutation_in; [apply Permutation_sym; exact P|left; reflexivity]).
      destruct Ix as [->|Ix]; [reflexivity|]. destruct Iy as [->|Iy]; [reflexivity|].
      rewrite Forall_forall in Fx, Fy. apply ble_antisym; [apply Fx; exact Iy|apply Fy; exact Ix]. }
    subst y. f_equal. apply IH; try assumption. eapply Permutation_cons_inv. exact P.
Qed.

Theorem validators_sorted_order_independent l l' : Permutation l l' -> isort l = isort l'.
Proof.
  intros P. apply sorted_perm_unique; try apply isort_sorted.
  eapply perm_trans; [apply Permutation_sym, isort_perm|]. eapply perm_trans; [exact P|apply isort_perm].
Qed.

(** ... and it is THE ascending arrangement: any sorting procedure returning a
    sorted permutation of the keys (Go's sort.Sort) returns this list *)
Theorem any_sort_agrees l s : sorted s -> Permutation l s -> s = isort l.
Proof.
  intros S P. apply sorted_perm_unique; [exact S|apply isort_sorted|].
  eapply perm_trans; [apply Permutation_sym; exact P|apply isort_perm].
Qed.

(** snapshot.inturn: validators()[(number+1) % len] == validator *)
Definition inturn (vals : list bytes) (number : N) (v : bytes) : bool :=
  match nth_error (isort vals) (N.to_nat ((number + 1) mod N.of_nat (length vals))) with
  | Some x => beq x v
  | None => false
  end.

Theorem inturn_order_independent vals vals' number v :
  Permutation vals vals' -> inturn vals number v = inturn vals' number v.
Proof.
  intros P. unfold inturn. rewrite (validators_sorted_order_independent _ _ P).
  rewrite (Permutation_length P). reflexivity.
Qed.

(** membership test snap.Validators[signer] *)
Theorem member_order_independent (v : bytes) l l' :
  Permutation l l' -> existsb (beq v) l = existsb (beq v) l'.
Proof. apply existsb_perm. Qed.

(** the whole seal decision that depends on the two maps: given the recovered
    signer, (authorised?, recently signed?, in turn?) *)
Definition seal_view (vals : list bytes) (recents : list (N * bytes)) (signer : bytes) (number : N) : bool * bool * bool :=
  (existsb (beq signer) vals,
   recents_loop signer number (N.of_nat (length vals) / 2 + 1) recents,
   inturn vals number signer).

Theorem seal_view_order_independent vals vals' recents recents' signer number :
  Permutation vals vals' -> Permutation recents recents' ->
  seal_view vals recents signer number = seal_view vals' recents' signer number.
Proof.
  intros Pv Pr. unfold seal_view.
  rewrite (member_order_independent signer _ _ Pv), (Permutation_length Pv),
          (recents_loop_order_independent _ _ _ _ _ Pr), (inturn_order_independent _ _ _ _ Pv).
  reflexivity.
Qed.
