(** "An error-acknowledged delivery credits nothing", at history level.
    With no [ANet (NChain _ _ (OSetApp _))] step in the history (the application
    state changes only through user transactions and callbacks) the MT ledger
    invariant holds on every chain in every state, and every step that delivers a
    packet and answers it with an error acknowledgement leaves the MT amounts and
    the NFT tokens of the delivering chain unchanged. *)
From Tibc Require Import Base.Bytes Base.BytesFacts Base.FMap Host.Keys Host.KeysFacts
  Routing.Rules Packet.Types Packet.Keeper Packet.U64 Packet.KeyEq Packet.KeeperFacts
  Packet.Invariants Packet.AckOnce Net.Net Net.Explained Net.NetInv
  Apps.Path Apps.Nft Apps.NftFacts Apps.Mt Apps.MtFacts Apps.App Apps.AppFacts
  Harness.AppNet Net.AppNetSim Net.AppNetFacts Net.AppNetConserve Net.AppNetNoSelf Net.AppNetSums
  Net.AppNetCount.
From Tibc Require Net.MtCrossChain.
From Coq Require Import ZArith ZifyN ZifyNat ZifyBool.

Notation anop_noset := Tibc.Net.MtCrossChain.anop_noset.

Section NoCredit.
Variable nft_escrow mt_escrow : bytes.

Notation achain := (chain app_state).
Notation a_user := (a_user nft_escrow mt_escrow).
Notation a_on_recv := (a_on_recv nft_escrow mt_escrow).
Notation a_on_ack := (a_on_ack nft_escrow mt_escrow).
Notation anstep := (anstep nft_escrow mt_escrow).
Notation anrun := (anrun nft_escrow mt_escrow).
Notation aexec := (exec app_state idH a_has_route a_on_recv a_on_ack).
Notation amsg_recv := (msg_recv app_state idH a_has_route a_on_recv).

(** a successful receive that delivers: what the callback returned *)
Lemma msg_recv_deliver_app (c : achain) p pf h c' ev :
  amsg_recv c p pf h = Some (c', ev) -> In (EDeliver p) ev ->
  exists oack, a_on_recv (c_app app_state c) p = Some (c_app app_state c', oack) /\
    forall a, In (EWriteAck p a) ev -> oack = Some a.
Proof.
  unfold msg_recv. intros E F. destruct (N.eqb h 0); [discriminate|].
  pose proof (recv_packet_inv2 app_state idH c p pf h) as [R _].
  destruct (recv_packet app_state idH c p pf h) as [|c1 ev1|c1 ev1]; [discriminate| |].
  - destruct R as (-> & -> & _).
    destruct (write_ack app_state idH _ p unauth_ack) as [[c2 ev2]|] eqn:WA; [|discriminate].
    apply write_ack_inv in WA. destruct WA as (_ & _ & -> & _). inversion E; subst c' ev.
    cbn in F. destruct F as [F|[F|[]]]; discriminate F.
  - assert (AP : c_app app_state c1 = c_app app_state c) by (destruct R as [(-> & _)|(-> & _)]; reflexivity).
    assert (EV1 : forall e, In e ev1 -> e = ERecv p \/ e = ESend p).
    { destruct R as [(_ & -> & _)|(_ & -> & _)]; intros e Fe; cbn in Fe.
      - destruct Fe as [<-|[]]; auto.
      - destruct Fe as [<-|[<-|[]]]; auto. }
    destruct (beq (p_dst p) (Keeper.c_name app_state c1)).
    + destruct (a_has_route (p_port p)); [|discriminate]. cbn [negb] in E.
      rewrite AP in E.
      destruct (a_on_recv (c_app app_state c) p) as [[a' [ack|]]|]; [| |discriminate].
      * destruct (write_ack app_state idH _ p ack) as [[c3 ev3]|] eqn:WA; [|discriminate].
        apply write_ack_inv in WA. destruct WA as (_ & _ & -> & ->). inversion E; subst c' ev. clear E.
        exists (Some ack). split; [reflexivity|]. intros a Fa.
        apply in_app_or in Fa. destruct Fa as [Fa|Fa]; [destruct (EV1 _ Fa) as [X|X]; discriminate X|].
        cbn in Fa. destruct Fa as [Fa|[Fa|[]]]; [discriminate Fa|]. inversion Fa; reflexivity.
      * inversion E; subst c' ev. clear E. exists None. split; [reflexivity|]. intros a Fa.
        apply in_app_or in Fa. destruct Fa as [Fa|Fa]; [destruct (EV1 _ Fa) as [X|X]; discriminate X|].
        cbn in Fa. destruct Fa as [Fa|[]]. discriminate Fa.
    + inversion E; subst c' ev. destruct (EV1 _ F) as [X|X]; discriminate X.
Qed.

(** no operation other than [OSetApp] breaks the ledger invariant *)
Lemma exec_AppInv (c : achain) o c' ev :
  (forall a, o <> OSetApp a) -> AppInv (c_app app_state c) -> aexec c o = Some (c', ev) ->
  AppInv (c_app app_state c').
Proof.
  intros NS I E.
  destruct o as [p|p pf h|p a pf h|cp|cp pf h|nm cl|nm h sn t|rs|dt|ap]; cbn [Keeper.exec] in E.
  - apply send_packet_inv in E. destruct E as (_ & _ & _ & _ & ->). exact I.
  - unfold msg_recv in E. destruct (N.eqb h 0); [discriminate|].
    pose proof (recv_packet_inv2 app_state idH c p pf h) as [R _].
    destruct (recv_packet app_state idH c p pf h) as [|c1 ev1|c1 ev1]; [discriminate| |].
    + destruct R as (-> & _).
      destruct (write_ack app_state idH _ p unauth_ack) as [[c2 ev2]|] eqn:WA; [|discriminate].
      apply write_ack_inv in WA. destruct WA as (_ & _ & _ & ->). inversion E; subst. exact I.
    + assert (AP : c_app app_state c1 = c_app app_state c) by (destruct R as [(-> & _)|(-> & _)]; reflexivity).
      destruct (beq (p_dst p) (Keeper.c_name app_state c1)).
      * destruct (a_has_route (p_port p)); [|discriminate]. cbn [negb] in E. rewrite AP in E.
        destruct (a_on_recv (c_app app_state c) p) as [[a' oack]|] eqn:OR; [|discriminate].
        assert (I' : AppInv a').
        { eapply (recv_keeps_inv idHh addr_ok nft_escrow mt_escrow dec_nft dec_mt); [exact I|exact OR]. }
        destruct oack as [ack|].
        -- destruct (write_ack app_state idH _ p ack) as [[c3 ev3]|] eqn:WA; [|discriminate].
           apply write_ack_inv in WA. destruct WA as (_ & _ & _ & ->). inversion E; subst. exact I'.
        -- inversion E; subst. exact I'.
      * inversion E; subst. rewrite AP. exact I.
  - apply msg_ack_inv in E. destruct E as (_ & c1 & ev1 & AP & _ & _ & _ & _ & _ & Ev).
    apply ack_packet_inv in AP. destruct AP as (_ & _ & _ & _ & _ & _ & _ & _ & _ & _ & _ & A1).
    destruct Ev as [(_ & -> & _)|(_ & _ & OA)].
    + rewrite A1. exact I.
    + eapply (ack_keeps_inv idHh idH addr_ok nft_escrow mt_escrow dec_nft enc_mt dec_mt); [exact I|exact OA].
  - apply clean_packet_inv in E. destruct E as (_ & _ & _ & ->). exact I.
  - destruct (N.eqb h 0); [discriminate|].
    apply recv_clean_inv in E. destruct E as (_ & _ & _ & _ & ->). exact I.
  - unfold create_client in E. destruct (has nm _); [discriminate|]. inversion E; subst. exact I.
  - unfold update_client in E. destruct (lookup nm _); [|discriminate].
    destruct (negb _); [discriminate|]. inversion E; subst. exact I.
  - destruct (set_rules rs); [|discriminate]. inversion E; subst. exact I.
  - inversion E; subst. exact I.
  - exfalso. exact (NS ap eq_refl).
Qed.

Definition apps_ok (n : anet) : Prop :=
  forall i ci, nth_error n i = Some ci -> AppInv (c_app app_state ci).

Lemma anstep_apps_ok n o : anop_noset o -> apps_ok n -> apps_ok (fst (anstep n o)).
Proof.
  intros OK I. destruct o as [o'|i now u]; cbn [AppNet.anstep].
  - unfold AppNet.astep, Net.nstep.
    destruct (resolve app_state n o') as [[[i now] o'']|] eqn:RS; cbn [fst]; [|exact I].
    destruct (nth_error n i) as [ci|] eqn:Hi; cbn [fst]; [|exact I].
    assert (NS : forall a, o'' <> OSetApp a).
    { intros a ->. destruct o' as [i0 now0 o0|i0 j now0 h t per|i0 j now0 h t]; cbn [resolve] in RS.
      - inversion RS; subst. exact OK.
      - destruct (nth_error n j); inversion RS.
      - destruct (nth_error n j); inversion RS. }
    unfold Keeper.step. destruct (aexec (with_now app_state ci now) o'') as [[ci' ev]|] eqn:E; cbn [fst];
      intros k ck Hk; (destruct (Nat.eq_dec i k) as [<-|Hn];
        [rewrite (nth_error_upd_nth_eq _ _ _ _ Hi) in Hk; inversion Hk; subst ck
        |rewrite nth_error_upd_nth_neq in Hk by exact Hn; exact (I k ck Hk)]).
    + eapply exec_AppInv; [exact NS| |exact E]. exact (I i ci Hi).
    + exact (I i ci Hi).
  - destruct (nth_error n i) as [ci|] eqn:Hi; cbn [fst]; [|exact I].
    destruct (a_user (with_now app_state ci now) u) as [[ci' ev]|] eqn:E; cbn [fst];
      intros k ck Hk; (destruct (Nat.eq_dec i k) as [<-|Hn];
        [rewrite (nth_error_upd_nth_eq _ _ _ _ Hi) in Hk; inversion Hk; subst ck
        |rewrite nth_error_upd_nth_neq in Hk by exact Hn; exact (I k ck Hk)]).
    + eapply (user_keeps_inv idH nft_escrow mt_escrow enc_nft enc_mt); [|exact E]. exact (I i ci Hi).
    + exact (I i ci Hi).
Qed.

(** the MT ledger invariant in every state of every history without [OSetApp] *)
Theorem anrun_apps_ok ops : forall n, Forall anop_noset ops -> apps_ok n -> apps_ok (anrun n ops).
Proof.
  induction ops as [|o r IH]; intros n W I; [exact I|].
  inversion W as [|? ? Wo Wr]; subst. rewrite anrun_cons. apply IH; [exact Wr|]. apply anstep_apps_ok; assumption.
Qed.

(** NFT callback answering with an error acknowledgement: no token changed *)
Lemma a_on_recv_err_no_token a p a' ack :
  a_on_recv a p = Some (a', Some ack) -> p_port p = NFT_PORT -> is_err_ack ack = true ->
  same_tokens (a_nft a') (a_nft a) /\ a_mt a' = a_mt a.
Proof.
  unfold AppNet.a_on_recv, app_on_recv. intros E PT EA. rewrite PT, beq_refl in E.
  destruct (nft_on_recv idHh addr_ok nft_escrow dec_nft (a_nft a) p) as [[st oack]|] eqn:R; [|discriminate].
  inversion E; subst a' oack. clear E. cbn [a_mt a_nft]. split; [|reflexivity].
  unfold nft_on_recv in R. destruct (dec_nft (p_data p)) as [d|]; [|discriminate].
  destruct (nft_recv_core idHh addr_ok nft_escrow (a_nft a) (p_src p) (p_dst p) d) as [st' r] eqn:RC.
  destruct r.
  - inversion R; subst. vm_compute in EA. discriminate.
  - inversion R; subst. eapply recv_error_no_token_effect. exact RC.
  - discriminate.
Qed.

(** the step of a history that delivers *)
Lemma anstep_deliver_open n o n' ev p :
  anstep n o = (n', Some ev) -> In (EDeliver p) ev ->
  exists now ci ci' pf h,
    nth_error n (anop_chain o) = Some ci /\ nth_error n' (anop_chain o) = Some ci' /\
    amsg_recv (with_now app_state ci now) p pf h = Some (ci', ev).
Proof.
  intros ST F. destruct o as [o'|i now u]; cbn [AppNet.anstep anop_chain] in *.
  - unfold AppNet.astep, Net.nstep in ST.
    destruct (resolve app_state n o') as [[[i now] o'']|] eqn:RS; [|inversion ST].
    assert (IC : nop_chain o' = i).
    { destruct o' as [i0 now0 o0|i0 j now0 h t per|i0 j now0 h t]; cbn [resolve] in RS.
      - inversion RS; reflexivity.
      - destruct (nth_error n j); inversion RS; reflexivity.
      - destruct (nth_error n j); inversion RS; reflexivity. }
    destruct (nth_error n i) as [ci|] eqn:Hi; [|inversion ST].
    unfold Keeper.step in ST. destruct (aexec (with_now app_state ci now) o'') as [[ci' ev']|] eqn:E;
      inversion ST; subst n' ev'. clear ST.
    destruct (exec_deliver_events app_state idH a_has_route a_on_recv a_on_ack _ _ _ _ E)
      as [Dn|(p0 & pf & h & -> & Dv & _)];
      assert (G : In (EDeliver p) (filter is_deliver ev)) by (apply filter_In; split; [exact F|reflexivity]).
    + rewrite Dn in G. destruct G.
    + rewrite Dv in G. destruct G as [G|[]]. inversion G; subst p0.
      exists now, ci, ci', pf, h. rewrite IC. split; [exact Hi|]. split; [|exact E].
      eapply nth_error_upd_nth_eq. exact Hi.
  - destruct (nth_error n i) as [ci|] eqn:Hi; [|inversion ST].
    destruct (a_user (with_now app_state ci now) u) as [[ci' ev']|] eqn:E; inversion ST; subst n' ev'.
    destruct (a_user_shape nft_escrow mt_escrow _ _ _ _ E) as [(-> & _)|(q & -> & _)].
    + destruct F.
    + destruct F as [F|[]]. discriminate F.
Qed.

(** HISTORY LEVEL: after any history [pre] without OSetApp from chains
    satisfying the ledger invariant, a step that delivers p and writes an error
    acknowledgement for it changes no MT amount and no NFT token (MT port), resp.
    no NFT token and nothing of the MT state (NFT port), on the delivering chain *)
Theorem a_err_delivery_credits_nothing n0 pre o n' ev p a :
  apps_ok n0 -> Forall anop_noset pre ->
  anstep (anrun n0 pre) o = (n', Some ev) ->
  In (EDeliver p) ev -> In (EWriteAck p a) ev -> is_err_ack a = true ->
  exists cj cj',
    nth_error (anrun n0 pre) (anop_chain o) = Some cj /\ nth_error n' (anop_chain o) = Some cj' /\
    (p_port p = MT_PORT ->
       same_amounts (a_mt (c_app app_state cj')) (a_mt (c_app app_state cj)) /\
       a_nft (c_app app_state cj') = a_nft (c_app app_state cj)) /\
    (p_port p = NFT_PORT ->
       same_tokens (a_nft (c_app app_state cj')) (a_nft (c_app app_state cj)) /\
       a_mt (c_app app_state cj') = a_mt (c_app app_state cj)).
Proof.
  intros I0 W ST FD FW EA.
  destruct (anstep_deliver_open _ _ _ _ _ ST FD) as (now & cj & cj' & pf & h & Hj & Hj' & E).
  destruct (msg_recv_deliver_app _ _ _ _ _ _ E FD) as (oack & OR & OA).
  rewrite (OA a FW) in OR. cbn [Keeper.c_app with_now] in OR.
  exists cj, cj'. split; [exact Hj|]. split; [exact Hj'|]. split.
  - intros PT. eapply (a_on_recv_err_no_credit nft_escrow mt_escrow); [exact OR|exact PT|exact EA|].
    exact (anrun_apps_ok pre n0 W I0 _ _ Hj).
  - intros PT. eapply a_on_recv_err_no_token; [exact OR|exact PT|exact EA].
Qed.

End NoCredit.
