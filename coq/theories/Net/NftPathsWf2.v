(** C04: [paths_wf] and '/'-free chain names in every reached state of an
    application-network history, by induction over the history: a delivered NFT
    packet is backed by a [UNftSend] on a chain of the network in an EARLIER
    state, which satisfied the invariant. *)
From Tibc Require Import Base.Bytes Base.BytesFacts Base.FMap Host.Keys Host.KeysFacts Routing.Rules
  Packet.Types Packet.Keeper Packet.KeeperFacts
  Net.Net Net.NetInv Apps.Path Apps.PathFacts Apps.Nft Apps.NftFacts Apps.Mt Apps.App
  Harness.AppNet Net.AppNetSim Net.AppNetNoSelf
  Apps.NftHistory Apps.NftHistoryThm Apps.NftEscrow Net.NftCrossChain Net.NftCrossChain2
  Net.NftSingleHolder Net.NftSingleHolder2 Net.NftPathsWf.
From Coq Require Import Lia Arith Wf_nat.

(** premises on the operations of a history *)
Definition users_issue_plain_classes (o : anop) : Prop :=
  match o with AUser _ _ (UNftIssue class _) => noslash class | _ => True end.

Definition no_setapp_op (o : anop) : Prop :=
  match o with ANet (NChain _ _ (OSetApp _)) => False | _ => True end.

Section NetPaths.
Variable nft_escrow mt_escrow : bytes.

Notation achain := (chain app_state).
Notation anrun := (anrun nft_escrow mt_escrow).
Notation anrun_log := (anrun_log nft_escrow mt_escrow).
Notation anstep := (anstep nft_escrow mt_escrow).
Notation xexec := (hexec idHh idH addr_ok nft_escrow mt_escrow enc_nft dec_nft enc_mt dec_mt).
Notation xstep := (hstep idHh idH addr_ok nft_escrow mt_escrow enc_nft dec_nft enc_mt dec_mt).
Notation c_name := (c_name app_state).
Notation with_now := (with_now app_state).
Notation step_at := (step_at nft_escrow mt_escrow).
Notation sends_roundtrip := (sends_roundtrip nft_escrow mt_escrow).

(** every delivered packet whose data decodes as NFT data is relay-free
    (direct traffic); its source is then automatically a chain of the network *)
Definition nft_deliveries_relay_free (n0 : anet) (ops : list anop) : Prop :=
  forall j p d, In (j, EDeliver p) (anrun_log n0 ops) -> dec_nft (p_data p) = Some d -> p_relay p = [].

Definition names_plain (n : anet) : Prop := forall k ck, nth_error n k = Some ck -> noslash (c_name ck).
Definition NetP (n : anet) : Prop := forall k ck, nth_error n k = Some ck -> PInv (nft_of ck).

Definition Prem (n0 : anet) (ops : list anop) : Prop :=
  hist_ok n0 ops /\ Forall no_raw_nft_send ops /\ Forall no_setapp_op ops /\
  Forall users_issue_plain_classes ops /\ sends_roundtrip n0 ops /\ nft_deliveries_relay_free n0 ops.

Lemma step_at_extend n0 a b pre o post i ci now h c' ev :
  step_at n0 a pre o post i ci now h c' ev -> step_at n0 (a ++ b) pre o (post ++ b) i ci now h c' ev.
Proof.
  intros (-> & R). split; [|exact R]. rewrite <- app_assoc. reflexivity.
Qed.

Lemma Prem_prefix n0 a b : Prem n0 (a ++ b) -> Prem n0 a.
Proof.
  intros (HO & NR & NSA & UI & RT & RF).
  apply Forall_app in NR. apply Forall_app in NSA. apply Forall_app in UI.
  split; [eapply hist_ok_prefix; exact HO|]. split; [tauto|]. split; [tauto|]. split; [tauto|]. split.
  - intros pre post i ci now class id sender receiver dest relay contract c' q ST.
    eapply RT. apply step_at_extend. exact ST.
  - intros j p d F D. eapply RF; [|exact D]. rewrite anrun_log_app. apply in_or_app. left. exact F.
Qed.

(** chain names never change: '/'-free initially, '/'-free in every reached state *)
Theorem names_plain_reached n0 a : names_plain n0 -> names_plain (anrun n0 a).
Proof.
  intros NP k ck Hk. apply (names_nth app_state) in Hk.
  rewrite (a_names nft_escrow mt_escrow) in Hk. unfold names in Hk. rewrite nth_error_map in Hk.
  destruct (nth_error n0 k) as [c0|] eqn:E; [|discriminate]. cbn in Hk.
  assert (Hn : c_name ck = c_name c0) by congruence. rewrite Hn. exact (NP _ _ E).
Qed.

Lemma aresolve_setapp n o i now a :
  aresolve n o = Some (i, now, HOp (OSetApp a)) -> o = ANet (NChain i now (OSetApp a)).
Proof.
  destruct o as [o'|i' now' u]; cbn [aresolve]; [|discriminate].
  destruct o' as [i0 now0 op|i0 j0 now0 hh t per|i0 j0 now0 hh t]; cbn [resolve].
  - intros E. inversion E. reflexivity.
  - destruct (nth_error n j0); intros E; inversion E.
  - destruct (nth_error n j0); intros E; inversion E.
Qed.

Lemma anrun_snoc n0 a o : anrun n0 (a ++ [o]) = fst (anstep (anrun n0 a) o).
Proof. rewrite anrun_app'. reflexivity. Qed.

(** ** the invariant in every reached state *)
Theorem reach_PInv n0 : names_plain n0 -> NetP n0 ->
  forall m ops, length ops = m -> Prem n0 ops -> NetP (anrun n0 ops).
Proof.
  intros NP0 P0 m. induction m as [m IH] using lt_wf_ind. intros ops Lm PR.
  destruct ops as [|o0 r0]; [exact P0|].
  destruct (@exists_last _ (o0 :: r0)) as (a & o & EQ); [discriminate|].
  rewrite EQ in *. clear EQ o0 r0.
  assert (La : (length a < m)%nat) by (rewrite <- Lm, app_length; cbn; lia).
  assert (PRa : Prem n0 a) by (eapply Prem_prefix; exact PR).
  pose proof (IH (length a) La a eq_refl PRa) as Ia.
  pose proof PR as (HO & NR & NSA & UI & RT & RF).
  rewrite anrun_snoc, anstep_hop.
  destruct (aresolve (anrun n0 a) o) as [[[i now] h]|] eqn:AR; [|exact Ia].
  destruct (nth_error (anrun n0 a) i) as [ci|] eqn:Hi; [|exact Ia]. cbn [fst].
  intros k ck Hk. destruct (Nat.eq_dec i k) as [<-|Ne].
  2:{ rewrite nth_error_upd_nth_neq in Hk by exact Ne. exact (Ia _ _ Hk). }
  rewrite (nth_error_upd_nth_eq _ _ _ _ Hi) in Hk. inversion Hk; subst ck. clear Hk.
  unfold hstep. destruct (xexec (with_now ci now) h) as [[c' ev]|] eqn:X; cbn [fst]; [|exact (Ia _ _ Hi)].
  assert (ST : step_at n0 (a ++ [o]) a o [] i ci now h c' ev).
  { split; [reflexivity|]. split; [exact Hi|]. split; [exact AR|]. split; [exact X|].
    rewrite anrun_snoc, anstep_hop, AR, Hi. unfold hstep. rewrite X. reflexivity. }
  assert (Oo : no_setapp_op o /\ users_issue_plain_classes o).
  { apply Forall_app in NSA. apply Forall_app in UI. destruct NSA as [_ N1]. destruct UI as [_ U1].
    inversion N1; inversion U1; subst. auto. }
  destruct Oo as [N1 U1].
  eapply (step_PInv nft_escrow mt_escrow (with_now ci now) h c' ev X).
  - destruct h as [op|u]; [|exact I]. destruct op; try exact I.
    apply aresolve_setapp in AR. subst o. exact N1.
  - destruct h as [op|u]; [exact I|]. destruct u; try exact I.
    apply aresolve_user in AR. subst o. exact U1.
  - exact (names_plain_reached n0 a NP0 _ _ Hi).
  - intros p d FD D.
    pose proof (step_in_log _ _ _ _ _ _ _ _ _ _ _ _ _ _ ST FD) as FL.
    pose proof (RF _ _ _ FL D) as RL.
    destruct (delivery_backed_by_nft_send nft_escrow mt_escrow n0 (a ++ [o]) i p d HO NR FL RL D) as
      (k & q & pre1 & post1 & now1 & cl1 & id1 & sender & receiver & dest & relay & contract & ck & ck'
       & ST1 & NM & _ & _ & _ & K4 & SENT).
    destruct SENT as (fp & uri & away & CP & DA & TK & QE & POST).
    pose proof (RT _ _ _ _ _ _ _ _ _ _ _ _ _ _ ST1) as R1.
    unfold send_record in R1. rewrite CP, TK, DA in R1. rewrite K4, D in R1. inversion R1; subst d.
    cbn [nd_class]. pose proof ST1 as (EQ1 & Hk1 & _ & X1 & _).
    split.
    + rewrite <- NM. exact (names_plain_reached n0 pre1 NP0 _ _ Hk1).
    + assert (L1 : (length pre1 < m)%nat).
      { rewrite <- Lm, EQ1, app_length. cbn. lia. }
      assert (PR1 : Prem n0 pre1).
      { pose proof PR as PR'. rewrite EQ1 in PR'. eapply Prem_prefix. exact PR'. }
      pose proof (IH _ L1 pre1 eq_refl PR1 _ _ Hk1) as PI.
      apply PInv_paths_wf in PI.
      pose proof X1 as HC. apply send_has_class in HC.
      destruct (PI cl1 fp HC CP) as [(N & _)|W]; [left; exact N|right; exact W].
  - exact (Ia _ _ Hi).
Qed.

(** [paths_wf] in every reached state *)
Corollary reach_paths_wf n0 ops :
  names_plain n0 -> NetP n0 -> Prem n0 ops ->
  forall a b, ops = a ++ b -> forall k ck, nth_error (anrun n0 a) k = Some ck -> paths_wf (nft_of ck).
Proof.
  intros NP0 P0 PR a b -> k ck Hk. apply PInv_paths_wf.
  eapply (reach_PInv n0 NP0 P0 (length a) a eq_refl); [|exact Hk]. eapply Prem_prefix. exact PR.
Qed.

(** ** the exact form of voucher creation with [paths_wf] and the '/'-free names
    DERIVED (premises: [Prem], '/'-free names and the invariant in the initial
    network) *)
Theorem paths_voucher_creation_exact n0 ops pre o post j cj now h c' ev nI nJ cl id :
  names_plain n0 -> NetP n0 -> Prem n0 ops ->
  noslash nI -> noslash cl -> c_name cj = nJ ->
  step_at n0 ops pre o post j cj now h c' ev -> not_setapp h -> no_escrow_sig nft_escrow h ->
  VInv nft_escrow (nft_of cj) ->
  let v := voucher_class idHh (away_new_class_path NFT_PFX nI nJ cl) in
  is_voucher v = true ->
  token_at (nft_of cj) v id = None -> token_at (nft_of c') v id <> None ->
  (exists p pf hh, h = HOp (ORecv p pf hh) /\
     (p_relay p = [] ->
      exists k pre1 post1 now1 sender receiver relay contract ck ck' q uri,
        step_at n0 ops pre1 (AUser k now1 (UNftSend cl id sender receiver nJ relay contract)) post1
                k ck now1 (HUser (UNftSend cl id sender receiver nJ relay contract)) ck' [ESend q] /\
        c_name ck = nI /\ p_src p = nI /\ p_data q = p_data p /\ p_seq q = p_seq p /\
        token_at (nft_of (with_now ck now1)) cl id = Some (sender, uri) /\
        token_at (nft_of ck') cl id = Some (nft_escrow, uri))) \/
  (exists owner uri, is_refund_back idHh dec_nft h ev v id owner uri).
Proof.
  intros NP0 P0 PR NI CL NJ ST NS NE V v IV T0 T1.
  pose proof PR as (HO & NR & _ & _ & RT & _).
  destruct (voucher_creation_cross nft_escrow mt_escrow n0 ops pre o post j cj now h c' ev v id
              HO NR ST NS NE V IV T0 T1) as [(p & pf & hh & d & -> & D & AW & ID & CE & BK)|C];
    [|right; exact C].
  left. exists p, pf, hh. split; [reflexivity|]. intros RL.
  destruct (BK RL) as (k & q & pre1 & post1 & now1 & cl1 & id1 & sender & receiver & dest & relay & contract
                       & ck & ck' & ST1 & NM & K2 & K3 & K4 & SENT).
  destruct SENT as (fp & uri & away & CP & DA & TK & QE & POST).
  pose proof (RT _ _ _ _ _ _ _ _ _ _ _ _ _ _ ST1) as R1.
  unfold send_record in R1. rewrite CP, TK, DA in R1. rewrite K4, D in R1. inversion R1; subst d. clear R1.
  cbn [nd_away nd_id nd_class] in *. subst away id1.
  pose proof ST as (EQ0 & Hj & _ & X & _).
  assert (DST : p_dst p = nJ).
  { cbn [hexec exec] in X. apply msg_recv_app in X. destruct X as (_ & [(AP & _)|(DD & _)]).
    - exfalso. apply T1. unfold nft_of. rewrite AP. exact T0.
    - rewrite DD. exact NJ. }
  pose proof ST1 as (EQ1 & Hk & _ & X1 & _).
  pose proof X1 as HC. apply send_has_class in HC.
  assert (NSRC : noslash (p_src p)) by (rewrite <- NM; exact (names_plain_reached n0 pre1 NP0 _ _ Hk)).
  assert (NDST : noslash nJ) by (rewrite <- NJ; exact (names_plain_reached n0 pre NP0 _ _ Hj)).
  assert (DE : dest = nJ) by (rewrite <- DST, <- K2, QE; reflexivity).
  subst dest. rewrite DST in CE.
  pose proof (reach_paths_wf n0 ops NP0 P0 PR pre1 _ EQ1 _ _ Hk) as PW.
  destruct (PW cl1 fp HC CP) as [(NF & ->)|(pp & bb & -> & PP & BB & LL)].
  - destruct (voucher_native_inj nI nJ cl (p_src p) nJ cl1 NI NDST CL NSRC NDST NF CE) as (E1 & _ & E3).
    subst cl1. exists k, pre1, post1, now1, sender, receiver, relay, contract, ck, ck', q, uri.
    split; [exact ST1|]. split; [congruence|]. split; [congruence|]. split; [exact K4|].
    split; [exact K3|]. split; [exact TK|exact POST].
  - exfalso. exact (voucher_native_vs_path nI nJ cl (p_src p) nJ pp bb NI NDST CL NDST PP BB LL CE).
Qed.

End NetPaths.
