(** C05 across chains, part 2: the cross-chain equation for two chains i and j
    of an application-network history, a class cl on i and a class v on j
    (intended: cl native and '/'-free on i, v the voucher class an away-receive
    of a packet i -> j carrying cl mints on j, [voucher_of]).

    All sums are the ghost sums of the two chains' own acts ([nacts]):
      on i:  SA = locked by away-sends of (cl,id), RA = refunded to senders,
             RB = released by back-receives;
      on j:  MR = minted by away-receives into (v,id), RM = minted again by
             refunds of back-sends, BB = burned by back-sends.
    IN FLIGHT is defined from the two logs:
      i -> j :  SA - (MR + RA)   sent by i, neither credited on j nor refunded on i
      j -> i :  BB - (RB + RM)   sent back by j, neither released on i nor refunded on j.
    That these differences are non-negative is exactly "no unit is created":
    the two summed inequalities, which are Section hypotheses here (they follow
    from the packet-layer facts: every credit / refund is matched by one send
    with the same key and data, at most once, and credit and refund of a key
    exclude each other -- Properties/C05HistNet.v, C05HistSum.v; their summed
    form is proved separately).  Everything else is the per-chain accounting. *)
From Tibc Require Import Base.Bytes Base.BytesFacts Base.FMap Host.Keys Host.KeysFacts Routing.Rules
  Packet.Types Packet.Keeper Packet.KeeperFacts Net.Net Net.Explained Net.NetInv
  Apps.Path Apps.Nft Apps.Mt Apps.MtFacts Apps.App Apps.AppFacts Harness.AppNet Net.AppNetSim
  Apps.MtHistory Apps.MtHistEscrow Net.MtCrossChain.
From Coq Require Import ZArith ZifyN ZifyNat ZifyBool.

(** the class minted on [dst] by an away-receive of a packet from [src] carrying class path [cl] *)
Definition voucher_of (src dst cl : bytes) : bytes :=
  ibc_class idHh (parse_class_trace (away_new_class_path MT_PFX src dst cl)).

Section CrossEq.
Variable nft_escrow mt_escrow : bytes.
Variable n0 : anet.
Variable ops : list anop.
Variable i j : nat.
Variable cl v id : bytes.

Notation anrun := (anrun nft_escrow mt_escrow).
Notation nacts := (nacts nft_escrow mt_escrow).
Notation mt_of c := (a_mt (c_app app_state c)).

Definition SA := sumf (sent_away cl id) (nacts i n0 ops).
Definition RA := sumf (refunded_away cl id) (nacts i n0 ops).
Definition RB := sumf (released_back cl id) (nacts i n0 ops).
Definition MR := sumf (minted_recv v id) (nacts j n0 ops).
Definition RM := sumf (reminted_refund v id) (nacts j n0 ops).
Definition BB := sumf (burned_back v id) (nacts j n0 ops).

Definition in_flight_ij : N := SA - (MR + RA).
Definition in_flight_ji : N := BB - (RB + RM).

(** NO UNIT IS CREATED, summed (to be discharged from the packet-layer facts):
    credited on j + refunded on i <= sent by i;
    released on i + refunded on j <= sent back by j *)
Hypothesis no_unit_created_ij : MR + RA <= SA.
Hypothesis no_unit_created_ji : RB + RM <= BB.

Variable ci0 cj0 ci cj : chain app_state.
Hypothesis noset : Forall anop_noset ops.
Hypothesis Hi0 : nth_error n0 i = Some ci0.
Hypothesis Hj0 : nth_error n0 j = Some cj0.
Hypothesis Ii0 : MtInv (mt_of ci0).
Hypothesis Ij0 : MtInv (mt_of cj0).
Hypothesis Hi : nth_error (anrun n0 ops) i = Some ci.
Hypothesis Hj : nth_error (anrun n0 ops) j = Some cj.
(** nothing in escrow / no vouchers at the start *)
Hypothesis Zi : bal_of (mt_of ci0) mt_escrow cl id = 0.
Hypothesis Zj : supply_of (mt_of cj0) v id = 0.
(** on i nobody names the escrow address as a party (no donations to escrow, ...) *)
Hypothesis clean_i : Forall (act_clean mt_escrow) (nacts i n0 ops).
(** on j nobody mints or burns (v,id) with MsgMintMT / MsgBurnMT *)
Hypothesis no_user_mint_j : sumf (user_minted v id) (nacts j n0 ops) = 0.
Hypothesis no_user_burn_j : sumf (user_burned v id) (nacts j n0 ops) = 0.

Lemma escrow_i : bal_of (mt_of ci) mt_escrow cl id + RA + RB = SA.
Proof.
  pose proof (net_escrow_accounting_clean nft_escrow mt_escrow n0 ops i ci0 ci cl id noset Hi0 Ii0 Hi clean_i) as E.
  cbv zeta in E. unfold SA, RA, RB. lia.
Qed.

Lemma supply_j : supply_of (mt_of cj) v id + BB = MR + RM.
Proof.
  destruct (net_supply_accounting nft_escrow mt_escrow n0 ops j cj0 cj v id noset Hj0 Ij0 Hj) as [E _].
  cbv zeta in E. unfold MR, RM, BB. lia.
Qed.

(** THE CROSS-CHAIN EQUATION: units locked on i = vouchers in existence on j
    + in flight i -> j + in flight j -> i; every difference is exact (no
    truncated subtraction) and everything is at most 2^64-1 *)
Theorem cross_chain_equation :
  bal_of (mt_of ci) mt_escrow cl id = supply_of (mt_of cj) v id + in_flight_ij + in_flight_ji /\
  in_flight_ij + (MR + RA) = SA /\ in_flight_ji + (RB + RM) = BB /\
  bal_of (mt_of ci) mt_escrow cl id <= u64max.
Proof.
  pose proof escrow_i. pose proof supply_j.
  destruct (net_escrow_accounting nft_escrow mt_escrow n0 ops i ci0 ci cl id noset Hi0 Ii0 Hi) as [_ B].
  unfold in_flight_ij, in_flight_ji. repeat split; lia.
Qed.

(** the safety half: no more vouchers exist on j than units are locked on i *)
Corollary vouchers_le_locked : supply_of (mt_of cj) v id <= bal_of (mt_of ci) mt_escrow cl id.
Proof. destruct cross_chain_equation as [E _]. lia. Qed.

End CrossEq.
