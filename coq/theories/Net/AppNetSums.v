(** Per-key accounting between two chains of an application-network history
    ("no unit is created"): for every key (source, destination, sequence)
      - a refund on the source (processed error acknowledgement of a relay-free
        packet) and a credit on the destination (success acknowledgement written
        there) exclude each other;
      - a credit happens at most once and only for a packet the source committed
        with the same data; a refund only for a packet the source committed with
        the same data, and (counting) at most as often as it was committed. *)
From Tibc Require Import Base.Bytes Base.BytesFacts Base.FMap Host.Keys Host.KeysFacts
  Routing.Rules Packet.Types Packet.Keeper Packet.U64 Packet.KeyEq Packet.KeeperFacts
  Packet.Invariants Packet.AckOnce Net.Net Net.Explained Net.NetInv
  Apps.Path Apps.Nft Apps.Mt Apps.MtFacts Apps.App Apps.AppFacts
  Harness.AppNet Net.AppNetSim Net.AppNetFacts Net.AppNetConserve Net.AppNetNoSelf.
From Coq Require Import ZArith ZifyN ZifyNat ZifyBool.

Section Gen.
Variable A : Type.
Variable H : bytes -> bytes.
Variable has_route : bytes -> bool.
Variable on_recv : A -> packet -> option (A * option bytes).
Variable on_ack : A -> packet -> bytes -> option A.

Notation net := (net A).
Notation nstep := (nstep A H has_route on_recv on_ack).
Notation nrun := (nrun A H has_route on_recv on_ack).
Notation nrun_log := (nrun_log A H has_route on_recv on_ack).
Notation exec := (exec A H has_route on_recv on_ack).

(** every processed acknowledgement in a history concerns a well-formed key *)
Definition appack_wf (nl : nlog) : Prop :=
  forall i p a, In (i, EAppAck p a) nl -> wfk (p_src p) (p_dst p) (p_seq p).

Lemma nstep_appack_wf n nl o :
  nop_ok o -> appack_wf nl -> appack_wf (nl ++ tag (nop_chain o) (snd (nstep n o))).
Proof.
  intros OK K i p a F. apply in_app_or in F. destruct F as [F|F]; [exact (K i p a F)|].
  destruct (nstep_open A H has_route on_recv on_ack n o i _ F OK)
    as (now & o' & ci & ci1 & ev & W & Hi & E & Fe).
  destruct (exec_appack_events A H has_route on_recv on_ack _ _ _ _ _ _ E Fe) as (pf & h & ->).
  cbn [Keeper.exec] in E. apply msg_ack_inv in E. destruct E as (_ & c1 & ev1 & AP & _).
  apply ack_packet_inv in AP. destruct AP as (V & _).
  apply validate_basic_names in V. destruct V as (V1 & V2 & _). repeat split; assumption.
Qed.

Lemma nrun_appack_wf ops : forall n nl,
  Forall nop_ok ops -> appack_wf nl -> appack_wf (nl ++ nrun_log n ops).
Proof.
  induction ops as [|o r IH]; intros n nl W K.
  - cbn. rewrite app_nil_r. exact K.
  - inversion W as [|? ? Wo Wr]; subst. pose proof (nstep_appack_wf n nl o Wo K) as K'.
    cbn [NetInv.nrun_log]. destruct (nstep n o) as [n' res]. cbn [fst snd] in *.
    rewrite app_assoc. apply (IH n'); assumption.
Qed.

Theorem net_appack_wf n0 ops : Forall nop_ok ops -> appack_wf (nrun_log n0 ops).
Proof. intros W. apply (nrun_appack_wf ops n0 [] W). intros i p a []. Qed.

End Gen.

Section AppSums.
Variable nft_escrow mt_escrow : bytes.

Notation a_on_recv := (a_on_recv nft_escrow mt_escrow).
Notation a_on_ack := (a_on_ack nft_escrow mt_escrow).
Notation anrun := (anrun nft_escrow mt_escrow).
Notation anrun_log := (anrun_log nft_escrow mt_escrow).
Notation hist_ok := (hist_ok).

Lemma a_appack_wf n0 ops :
  net_init app_state n0 -> Forall anop_ok ops -> appack_wf (anrun_log n0 ops).
Proof.
  intros I W. destruct (anrun_sim nft_escrow mt_escrow ops n0) as [_ S2]. rewrite S2.
  apply (net_appack_wf app_state idH a_has_route a_on_recv a_on_ack).
  apply expand_all_ok_init; assumption.
Qed.

(** chains are identified by their names *)
Lemma a_name_unique n0 ops j cj j' cj' :
  hist_ok n0 ops ->
  nth_error (anrun n0 ops) j = Some cj -> nth_error (anrun n0 ops) j' = Some cj' ->
  c_name app_state cj' = c_name app_state cj -> j' = j.
Proof.
  intros (_ & ND & _) Hj Hj' E.
  rewrite <- (a_names nft_escrow mt_escrow n0 ops) in ND.
  apply (proj1 (NoDup_nth_error _) ND).
  - apply nth_error_Some. rewrite (names_nth app_state _ j' cj' Hj'). discriminate.
  - rewrite (names_nth app_state _ j' cj' Hj'), (names_nth app_state _ j cj Hj), E. reflexivity.
Qed.

(** MUTUAL EXCLUSION per key: if the source i processed an ERROR acknowledgement
    for the relay-free packet p addressed to chain j (the refund runs in exactly
    these steps), then j never wrote a SUCCESS acknowledgement for p's key: j did
    not credit it. *)
Theorem a_refund_excludes_credit n0 ops i j cj p a p' a' :
  hist_ok n0 ops ->
  nth_error (anrun n0 ops) j = Some cj ->
  In (i, EAppAck p a) (anrun_log n0 ops) -> p_relay p = [] -> p_dst p = c_name app_state cj ->
  is_err_ack a = true ->
  In (j, EWriteAck p' a') (anrun_log n0 ops) ->
  p_src p' = p_src p -> p_dst p' = p_dst p -> p_seq p' = p_seq p ->
  is_ok_ack a' = true -> False.
Proof.
  intros HK Hj F RL D EA F' S2 D2 K2 OA.
  pose proof HK as (I0 & ND & W & W2).
  destruct (a_appack_wf n0 ops I0 W i p a F) as (N1 & N2 & N3).
  destruct (a_appack_matched nft_escrow mt_escrow n0 ops I0 W i p a F)
    as (ci & j0 & cj0 & q & G1 & G2 & G3 & G4 & Q1 & Q2 & Q3).
  assert (PN : ack_prover_name app_state ci p = p_dst p).
  { unfold ack_prover_name. rewrite RL. cbn [is_nil negb]. rewrite andb_false_r. reflexivity. }
  rewrite PN, D in G3.
  assert (j0 = j) by (eapply a_name_unique; eassumption). subst j0.
  rewrite Hj in G2. inversion G2; subst cj0. clear G2.
  apply (a_err_excludes_ok nft_escrow mt_escrow n0 ops j cj q a p' a' HK Hj).
  - unfold wfp. rewrite Q3. exact N3.
  - apply in_log_of. exact G4.
  - apply in_log_of. exact F'.
  - rewrite Q2. exact D.
  - congruence.
  - congruence.
  - congruence.
  - rewrite Q1. exact N1.
  - rewrite Q2. exact N2.
  - exact EA.
  - exact OA.
Qed.

(** a credit (acknowledgement written on j for a packet addressed to j) happens
    at most once per key, together with the delivery, and only for a packet that
    the chain it was proven from committed with the same data *)
Theorem a_credit_once_and_sent n0 ops j cj p a :
  hist_ok n0 ops ->
  nth_error (anrun n0 ops) j = Some cj ->
  In (j, EWriteAck p a) (anrun_log n0 ops) -> p_dst p = c_name app_state cj ->
  noslash (p_src p) -> noslash (p_dst p) -> wfp p ->
  (forall p' a', In (j, EWriteAck p' a') (anrun_log n0 ops) ->
     p_src p' = p_src p -> p_dst p' = p_dst p -> p_seq p' = p_seq p -> p' = p /\ a' = a) /\
  In (j, EDeliver p) (anrun_log n0 ops) /\
  exists j' cj' q,
    nth_error (anrun n0 ops) j' = Some cj' /\
    c_name app_state cj' = prover_name app_state cj p /\
    In (j', ESend q) (anrun_log n0 ops) /\
    p_src q = p_src p /\ p_dst q = p_dst p /\ p_seq q = p_seq p /\ p_data q = p_data p.
Proof.
  intros HK Hj F D N1 N2 Wp.
  pose proof HK as (I0 & ND & W & W2).
  assert (K : wfk (p_src p) (c_name app_state cj) (p_seq p)) by (rewrite <- D; repeat split; assumption).
  apply in_log_of in F.
  destruct (a_own_ack_unique nft_escrow mt_escrow n0 ops j cj (p_src p) (p_seq p) p a p a HK Hj K F F)
    as (_ & _ & DL); try reflexivity; try assumption.
  split; [|split].
  - intros p' a' F' S2 D2 K2. apply in_log_of in F'.
    destruct (a_own_ack_unique nft_escrow mt_escrow n0 ops j cj (p_src p) (p_seq p) p a p' a' HK Hj K F F')
      as (X1 & X2 & _); try reflexivity; try assumption; try congruence. split; congruence.
  - apply in_log_of. exact DL.
  - apply in_log_of in DL.
    destruct (a_deliver_matched nft_escrow mt_escrow n0 ops I0 W j p DL)
      as (cj0 & j' & cj' & q & G1 & G2 & G3 & G4 & G5).
    rewrite Hj in G1. inversion G1; subst cj0. exists j', cj', q. auto.
Qed.

End AppSums.
