(** The application network (Harness/AppNet.v: network operations plus user
    transactions of the token modules) refines the generic network of Net/Net.v:
    every [anstep] equals running a short list of generic [nop]s with [nstep]
    (same final network, same event log), and the expansion satisfies the
    [nop_ok] premise of the network theorems.  Hence every theorem about
    [nrun]/[nrun_log] histories speaks about histories with user transactions. *)
From Tibc Require Import Base.Bytes Base.BytesFacts Base.FMap Host.Keys Host.KeysFacts
  Routing.Rules Packet.Types Packet.Keeper Packet.U64 Packet.KeyEq Packet.KeeperFacts
  Packet.Invariants Net.Net Net.Explained Net.NetInv
  Apps.Path Apps.Nft Apps.Mt Apps.App Harness.AppNet.
From Coq Require Import ZArith ZifyN ZifyNat ZifyBool.

Section ListFacts2.
Context {X : Type}.
Lemma upd_nth_twice (l : list X) i x y : upd_nth (upd_nth l i x) i y = upd_nth l i y.
Proof.
  revert i. induction l as [|z l IH]; intros [|i]; cbn; try reflexivity. rewrite IH. reflexivity.
Qed.
Lemma upd_nth_same (l : list X) i x : nth_error l i = Some x -> upd_nth l i x = l.
Proof.
  revert i. induction l as [|z l IH]; intros [|i] E; cbn in *; try discriminate.
  - inversion E; reflexivity.
  - rewrite IH by exact E. reflexivity.
Qed.
End ListFacts2.

(** * generic facts about [nrun] / [nrun_log] *)
Section NetRun.
Variable A : Type.
Variable H : bytes -> bytes.
Variable has_route : bytes -> bool.
Variable on_recv : A -> packet -> option (A * option bytes).
Variable on_ack : A -> packet -> bytes -> option A.

Notation chain := (chain A).
Notation net := (net A).
Notation nstep := (nstep A H has_route on_recv on_ack).
Notation nrun := (nrun A H has_route on_recv on_ack).
Notation nrun_log := (nrun_log A H has_route on_recv on_ack).
Notation step := (step A H has_route on_recv on_ack).
Notation exec := (exec A H has_route on_recv on_ack).
Notation next_send := (next_send A).

Lemma nrun_app n a b : nrun n (a ++ b) = nrun (nrun n a) b.
Proof. unfold Net.nrun. apply fold_left_app. Qed.

Lemma nrun_cons n o r : nrun n (o :: r) = nrun (fst (nstep n o)) r.
Proof. reflexivity. Qed.

Lemma nrun_log_app a : forall n b, nrun_log n (a ++ b) = nrun_log n a ++ nrun_log (nrun n a) b.
Proof.
  induction a as [|o r IH]; intros n b; [reflexivity|].
  cbn [app NetInv.nrun_log]. rewrite nrun_cons.
  destruct (nstep n o) as [n' res]. cbn [fst]. rewrite IH, app_assoc. reflexivity.
Qed.

Lemma nstep_chain n i ci now o :
  nth_error n i = Some ci ->
  nstep n (NChain i now o) =
    (upd_nth n i (fst (step (with_now A ci now) o)), snd (step (with_now A ci now) o)).
Proof.
  intros Hi. unfold Net.nstep. cbn [resolve]. rewrite Hi.
  destruct (step (with_now A ci now) o) as [c' r]. reflexivity.
Qed.

(** ** the send counters stay below 2^64 (so the packets the applications
    build from them are well-formed) *)
Definition SB (c : chain) : Prop := forall s d, next_send c s d < two64.
Definition NSB (n : net) : Prop := forall i ci, nth_error n i = Some ci -> SB ci.

Lemma exec_SB c o c' ev : exec c o = Some (c', ev) -> SB c -> SB c'.
Proof.
  intros E B s d.
  destruct (bytes_eq_dec
              (match o with OSend p => next_send_key (p_src p) (p_dst p) | _ => [] end)
              (next_send_key s d)) as [Q|Q].
  - destruct o as [p|p pf h|p a pf h|cp|cp pf h|nm cl|nm h sn t|rs|dt|ap];
      try (exfalso; unfold next_send_key, path in Q; cbn in Q; discriminate Q).
    cbn [Keeper.exec] in E. apply send_packet_inv in E. destruct E as (_ & _ & _ & _ & ->).
    unfold Keeper.next_send. cbn [Keeper.c_kv with_kv].
    rewrite lookup_set_neq by fam_neq. rewrite <- Q, lookup_set_eq.
    rewrite u64_of_be64 by (apply N.mod_lt; discriminate).
    apply N.mod_lt. discriminate.
  - rewrite (exec_next_send A H has_route on_recv on_ack c o c' ev s d E); [apply B|].
    intros p -> X. apply Q. exact X.
Qed.

Lemma with_now_SB c t : SB c -> SB (with_now A c t).
Proof. intros B s d. exact (B s d). Qed.

Lemma step_SB c o : SB c -> SB (fst (step c o)).
Proof.
  intros B. unfold Keeper.step. destruct (exec c o) as [[c' ev]|] eqn:E; cbn [fst]; [|exact B].
  eapply exec_SB; eassumption.
Qed.

Lemma nstep_NSB n o : NSB n -> NSB (fst (nstep n o)).
Proof.
  intros B. unfold Net.nstep.
  destruct (resolve A n o) as [[[i now] o']|]; cbn [fst]; [|exact B].
  destruct (nth_error n i) as [ci|] eqn:Hi; cbn [fst]; [|exact B].
  destruct (step (with_now A ci now) o') as [ci' r] eqn:ST. cbn [fst].
  intros j cj Hj. destruct (Nat.eq_dec i j) as [<-|Hn].
  - rewrite (nth_error_upd_nth_eq _ _ _ _ Hi) in Hj. inversion Hj; subst cj.
    change ci' with (fst (ci', r)). rewrite <- ST. apply step_SB, with_now_SB. exact (B i ci Hi).
  - rewrite nth_error_upd_nth_neq in Hj by exact Hn. exact (B j cj Hj).
Qed.

Lemma nrun_NSB ops : forall n, NSB n -> NSB (nrun n ops).
Proof.
  induction ops as [|o r IH]; intros n B; [exact B|]. rewrite nrun_cons. apply IH, nstep_NSB, B.
Qed.

Lemma net_init_NSB n : net_init A n -> NSB n.
Proof.
  intros I i ci Hi s d. destruct (I i ci Hi) as [K _]. unfold Keeper.next_send. rewrite K.
  cbn. vm_compute. reflexivity.
Qed.

End NetRun.

(** * the application network *)
Section Sim.
Variable nft_escrow mt_escrow : bytes.

Notation achain := (chain app_state).
Notation a_user := (a_user nft_escrow mt_escrow).
Notation a_on_recv := (a_on_recv nft_escrow mt_escrow).
Notation a_on_ack := (a_on_ack nft_escrow mt_escrow).
Notation astep := (astep nft_escrow mt_escrow).
Notation anstep := (anstep nft_escrow mt_escrow).
Notation anop := anop.
Notation gstep := (step app_state idH a_has_route a_on_recv a_on_ack).
Notation grun := (nrun app_state idH a_has_route a_on_recv a_on_ack).
Notation grun_log := (nrun_log app_state idH a_has_route a_on_recv a_on_ack).

Definition anrun (n : anet) (ops : list anop) : anet :=
  fold_left (fun n o => fst (anstep n o)) ops n.

Fixpoint anrun_log (n : anet) (ops : list anop) : nlog :=
  match ops with
  | [] => []
  | o :: r => let '(n', res) := anstep n o in tag (anop_chain o) res ++ anrun_log n' r
  end.

Lemma anrun_cons n o r : anrun n (o :: r) = anrun (fst (anstep n o)) r.
Proof. reflexivity. Qed.

(** ** what a user transaction is, in single-chain operations: the application
    state it reaches, then (token sends) the packet it hands to SendPacket; a
    failing transaction only sets the block time ([OTick 0] at time [now]) *)
Definition user_ops (c : achain) (u : user_op) : list (op app_state) :=
  match a_user c u with
  | None => [OTick 0]
  | Some (c', []) => [OSetApp (c_app app_state c')]
  | Some (c', ESend p :: _) => [OSetApp (c_app app_state c'); OSend p]
  | Some (_, _) => [OTick 0]
  end.

Definition expand (n : anet) (o : anop) : list (nop app_state) :=
  match o with
  | ANet o' => [o']
  | AUser i now u =>
      match nth_error n i with
      | None => []
      | Some ci => map (NChain i now) (user_ops (with_now app_state ci now) u)
      end
  end.

Fixpoint expand_all (n : anet) (ops : list anop) : list (nop app_state) :=
  match ops with
  | [] => []
  | o :: r => expand n o ++ expand_all (fst (anstep n o)) r
  end.

(** a successful user transaction is an application-state change, followed for
    token sends by SendPacket of exactly one packet *)
Lemma a_user_shape (c : achain) u c' ev :
  a_user c u = Some (c', ev) ->
  (ev = [] /\ c' = with_app app_state c (c_app app_state c')) \/
  (exists p, ev = [ESend p] /\
     send_packet app_state idH (with_app app_state c (c_app app_state c')) p = Some (c', [ESend p])).
Proof.
  unfold AppNet.a_user. intros E.
  destruct u; cbn [App.user_exec] in E.
  - destruct (has_class _ _); [discriminate|]. cbn [lift_nft] in E. inversion E; subst. left. split; reflexivity.
  - destruct (lookup _ (ns_classes _)) as [[cr rs]|]; [|discriminate].
    destruct (rs && _); [discriminate|].
    unfold lift_nft in E. destruct (nft_mint _ _ _ _ _); [|discriminate]. inversion E; subst. left. split; reflexivity.
  - unfold lift_nft in E. destruct (nft_transfer _ _ _ _ _); [|discriminate]. inversion E; subst. left. split; reflexivity.
  - unfold lift_nft in E. destruct (nft_burn _ _ _ _); [|discriminate]. inversion E; subst. left. split; reflexivity.
  - destruct (nft_send _ _ _ _ _ _ _ _ _ _ _ _) as [[st pkt]|]; [|discriminate].
    right. exists pkt. pose proof E as E0. apply send_packet_inv in E0. destruct E0 as (_ & _ & _ & -> & K).
    split; [reflexivity|]. rewrite K at 1. cbn [Keeper.c_app with_kv with_app]. exact E.
  - destruct (mt_has_class _ _); [discriminate|]. cbn [lift_mt] in E. inversion E; subst. left. split; reflexivity.
  - destruct (N.eqb amt 0); [discriminate|].
    destruct (lookup _ (ms_classes _)) as [owner|]; [|discriminate].
    destruct (negb _); [discriminate|]. destruct (mt_exists _ _ _); [discriminate|].
    unfold lift_mt in E. destruct (mt_issue _ _ _ _ _ _) as [st [|]]; [|discriminate].
    inversion E; subst. left. split; reflexivity.
  - destruct (N.eqb amt 0); [discriminate|].
    destruct (lookup _ (ms_classes _)) as [owner|]; [|discriminate].
    destruct (negb (beq _ _)); [discriminate|]. destruct (negb (mt_exists _ _ _)); [discriminate|].
    unfold lift_mt in E. destruct (mt_mint _ _ _ _ _) as [st [|]]; [|discriminate].
    inversion E; subst. left. split; reflexivity.
  - destruct (N.eqb amt 0); [discriminate|].
    unfold lift_mt in E. destruct (mt_transfer _ _ _ _ _ _) as [st [|]]; [|discriminate].
    inversion E; subst. left. split; reflexivity.
  - destruct (N.eqb amt 0); [discriminate|].
    unfold lift_mt in E. destruct (mt_burn _ _ _ _ _) as [st [|]]; [|discriminate].
    inversion E; subst. left. split; reflexivity.
  - destruct (mt_send _ _ _ _ _ _ _ _ _ _ _ _ _) as [[st pkt]|]; [|discriminate].
    right. exists pkt. pose proof E as E0. apply send_packet_inv in E0. destruct E0 as (_ & _ & _ & -> & K).
    split; [reflexivity|]. rewrite K at 1. cbn [Keeper.c_app with_kv with_app]. exact E.
Qed.

(** ** one application-network step = the generic run of its expansion *)
Lemma anstep_sim n o :
  grun n (expand n o) = fst (anstep n o) /\
  grun_log n (expand n o) = tag (anop_chain o) (snd (anstep n o)).
Proof.
  destruct o as [o'|i now u].
  - cbn [expand AppNet.anstep anop_chain]. unfold AppNet.astep.
    rewrite nrun_cons. cbn [NetInv.nrun_log].
    destruct (nstep app_state idH a_has_route a_on_recv a_on_ack n o') as [n' res].
    cbn [fst snd]. rewrite app_nil_r. split; reflexivity.
  - cbn [expand AppNet.anstep anop_chain].
    destruct (nth_error n i) as [ci|] eqn:Hi; [|split; reflexivity].
    unfold user_ops.
    destruct (a_user (with_now app_state ci now) u) as [[c' ev]|] eqn:E.
    + destruct (a_user_shape _ _ _ _ E) as [(-> & Hc)|(p & -> & S)].
      * cbn [map]. rewrite nrun_cons. cbn [NetInv.nrun_log].
        rewrite (nstep_chain _ _ _ _ _ n i ci now _ Hi).
        unfold Keeper.step. cbn [Keeper.exec fst snd]. rewrite <- Hc. split; reflexivity.
      * cbn [map]. rewrite !nrun_cons. cbn [NetInv.nrun_log].
        rewrite (nstep_chain _ _ _ _ _ n i ci now _ Hi).
        unfold Keeper.step. cbn [Keeper.exec fst snd].
        set (c1 := with_app app_state (with_now app_state ci now) (c_app app_state c')) in *.
        assert (H1 : nth_error (upd_nth n i c1) i = Some c1) by (eapply nth_error_upd_nth_eq; exact Hi).
        rewrite (nstep_chain _ _ _ _ _ _ i c1 now _ H1).
        change (with_now app_state c1 now) with c1.
        unfold Keeper.step. cbn [Keeper.exec]. rewrite S. cbn [fst snd].
        rewrite upd_nth_twice. split; reflexivity.
    + cbn [map]. rewrite nrun_cons. cbn [NetInv.nrun_log].
      rewrite (nstep_chain _ _ _ _ _ n i ci now _ Hi).
      unfold Keeper.step. cbn [Keeper.exec fst snd].
      cbn [Keeper.c_now with_now]. rewrite N.add_0_r. split; reflexivity.
Qed.

(** ** STAGE 1 main theorem: every application-network history is a generic
    network history -- same final network, same per-chain event log *)
Theorem anrun_sim ops : forall n,
  anrun n ops = grun n (expand_all n ops) /\
  anrun_log n ops = grun_log n (expand_all n ops).
Proof.
  induction ops as [|o r IH]; intros n; [split; reflexivity|].
  cbn [expand_all anrun_log]. rewrite anrun_cons, nrun_app, nrun_log_app.
  destruct (anstep_sim n o) as [S1 S2]. rewrite S1, S2.
  destruct (IH (fst (anstep n o))) as [I1 I2]. rewrite <- I1, <- I2.
  destruct (anstep n o) as [n' res]. cbn [fst snd]. split; reflexivity.
Qed.

(** ** the expansion meets the premise [nop_ok] of the network theorems *)
Definition anop_ok (o : anop) : Prop :=
  match o with ANet o' => nop_ok o' | AUser _ _ _ => True end.

Notation NSBa := (NSB app_state).

Lemma expand_ok n o : NSBa n -> anop_ok o -> Forall nop_ok (expand n o).
Proof.
  intros B OK. destruct o as [o'|i now u]; cbn [expand].
  - constructor; [exact OK|constructor].
  - destruct (nth_error n i) as [ci|] eqn:Hi; [|constructor].
    unfold user_ops.
    destruct (a_user (with_now app_state ci now) u) as [[c' ev]|] eqn:E.
    + destruct (a_user_shape _ _ _ _ E) as [(-> & Hc)|(p & -> & S)]; cbn [map].
      * constructor; [split; exact I|constructor].
      * constructor; [split; exact I|]. constructor; [|constructor].
        split; [|exact I]. cbn [op_wf]. unfold wfp.
        apply send_packet_inv in S. destruct S as (_ & _ & Q & _). rewrite Q.
        exact (B i ci Hi (p_src p) (p_dst p)).
    + cbn [map]. constructor; [split; exact I|constructor].
Qed.

Lemma anstep_NSB n o : NSBa n -> NSBa (fst (anstep n o)).
Proof.
  intros B. destruct (anstep_sim n o) as [S _]. rewrite <- S. apply nrun_NSB. exact B.
Qed.

Lemma anrun_NSB ops : forall n, NSBa n -> NSBa (anrun n ops).
Proof.
  induction ops as [|o r IH]; intros n B; [exact B|]. rewrite anrun_cons. apply IH, anstep_NSB, B.
Qed.

Theorem expand_all_ok ops : forall n,
  NSBa n -> Forall anop_ok ops -> Forall nop_ok (expand_all n ops).
Proof.
  induction ops as [|o r IH]; intros n B W; [constructor|].
  inversion W as [|? ? Wo Wr]; subst. cbn [expand_all]. apply Forall_app. split.
  - apply expand_ok; assumption.
  - apply IH; [apply anstep_NSB; exact B | exact Wr].
Qed.

Corollary expand_all_ok_init ops n :
  net_init app_state n -> Forall anop_ok ops -> Forall nop_ok (expand_all n ops).
Proof. intros I W. apply expand_all_ok; [apply net_init_NSB; exact I | exact W]. Qed.

End Sim.
