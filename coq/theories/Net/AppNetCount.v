(** An error-acknowledged MT delivery credits nothing (callback level), and the
    source-side counting invariant: processed acknowledgements (refunds) of a
    (key, data) never outnumber the commitments of that (key, data). *)
From Tibc Require Import Base.Bytes Base.BytesFacts Base.FMap Host.Keys Host.KeysFacts
  Routing.Rules Packet.Types Packet.Keeper Packet.U64 Packet.KeyEq Packet.KeeperFacts
  Packet.Invariants Packet.AckOnce Net.Net Net.Explained Net.NetInv
  Apps.Path Apps.Nft Apps.Mt Apps.MtFacts Apps.App Apps.AppFacts
  Harness.AppNet Net.AppNetSim Net.AppNetFacts Net.AppNetConserve Net.AppNetNoSelf Net.AppNetSums.
From Coq Require Import ZArith ZifyN ZifyNat ZifyBool.

Section ErrNoCredit.
Variable nft_escrow mt_escrow : bytes.

(** the MT callback that answers with an error acknowledgement leaves every MT
    balance and supply, and the whole NFT state, unchanged *)
Lemma a_on_recv_err_no_credit a p a' ack :
  a_on_recv nft_escrow mt_escrow a p = Some (a', Some ack) ->
  p_port p = MT_PORT -> is_err_ack ack = true -> MtInv (a_mt a) ->
  same_amounts (a_mt a') (a_mt a) /\ a_nft a' = a_nft a.
Proof.
  unfold AppNet.a_on_recv, app_on_recv. intros E PT EA I. rewrite PT in E.
  assert (B1 : beq MT_PORT NFT_PORT = false) by (vm_compute; reflexivity).
  rewrite B1, beq_refl in E.
  destruct (mt_on_recv idHh addr_ok mt_escrow dec_mt (a_mt a) p) as [[st oack]|] eqn:R; [|discriminate].
  inversion E; subst a' oack. clear E. cbn [a_mt a_nft]. split; [|reflexivity].
  unfold mt_on_recv in R. destruct (dec_mt (p_data p)) as [d|]; [|discriminate].
  destruct (mt_recv_core idHh addr_ok mt_escrow (a_mt a) (p_src p) (p_dst p) d) as [st' r] eqn:RC.
  destruct (mt_recv_inv idHh addr_ok mt_escrow _ _ _ _ _ _ I RC) as (_ & SE & _).
  destruct r.
  - inversion R; subst. vm_compute in EA. discriminate.
  - inversion R; subst. apply SE. reflexivity.
  - discriminate.
Qed.
End ErrNoCredit.

Section Count.
Variable A : Type.
Variable H : bytes -> bytes.
Variable has_route : bytes -> bool.
Variable on_recv : A -> packet -> option (A * option bytes).
Variable on_ack : A -> packet -> bytes -> option A.
Hypothesis H_inj : forall x y, H x = H y -> x = y.
Hypothesis H_ne : forall x, x <> [] -> H x <> [].

Notation chain := (chain A).
Notation exec := (exec A H has_route on_recv on_ack).
Notation step := (step A H has_route on_recv on_ack).
Notation commit_at := (commit_at A).

Definition key_is (s d : bytes) (n : N) (x : bytes) (p : packet) : bool :=
  beq (p_src p) s && beq (p_dst p) d && N.eqb (p_seq p) n && beq (p_data p) x.
Definition send_is s d n x (e : event) : bool := match e with ESend p => key_is s d n x p | _ => false end.
Definition appack_is s d n x (e : event) : bool := match e with EAppAck p _ => key_is s d n x p | _ => false end.
Definition cnt (f : event -> bool) (log : list event) : nat := length (filter f log).
Definition ind (c : chain) s d n x : nat := if opt_beq (commit_at c s d n) (H x) then 1%nat else 0%nat.

Lemma cnt_app f l1 l2 : cnt f (l1 ++ l2) = (cnt f l1 + cnt f l2)%nat.
Proof. unfold cnt. rewrite filter_app, app_length. reflexivity. Qed.

Lemma key_is_true s d n x p :
  key_is s d n x p = true -> p_src p = s /\ p_dst p = d /\ p_seq p = n /\ p_data p = x.
Proof.
  unfold key_is. rewrite !andb_true_iff. intros [[[B1 B2] B3] B4].
  apply beq_spec in B1, B2, B4. apply N.eqb_eq in B3. auto.
Qed.

Lemma ind_le1 c s d n x : (ind c s d n x <= 1)%nat.
Proof. unfold ind. destruct (opt_beq _ _); lia. Qed.

Lemma ind_same c c' s d n x : commit_at c' s d n = commit_at c s d n -> ind c' s d n x = ind c s d n x.
Proof. unfold ind. intros ->. reflexivity. Qed.

Lemma cnt_appack_none s d n x ev :
  (forall p a, ~ In (EAppAck p a) ev) -> cnt (appack_is s d n x) ev = 0%nat.
Proof.
  intros NA. unfold cnt. rewrite filter_nil_if; [reflexivity|].
  intros e Fe. destruct e; try reflexivity. exfalso. exact (NA _ _ Fe).
Qed.

(** the key of a well-formed packet *)
Lemma commit_key_fields s d n p :
  wfk s d n -> validate_basic p = true -> wfp p ->
  commit_key s d n = commit_key (p_src p) (p_dst p) (p_seq p) ->
  p_src p = s /\ p_dst p = d /\ p_seq p = n.
Proof.
  intros K V W Q. unfold commit_key in Q. apply seq_key_eq_fields in Q; auto with keys.
Qed.

Lemma exec_count c o c' ev s d n x :
  op_wf o -> exec c o = Some (c', ev) -> wfk s d n ->
  (cnt (appack_is s d n x) ev + ind c' s d n x <= ind c s d n x + cnt (send_is s d n x) ev)%nat.
Proof.
  intros W E K.
  destruct o as [p|p pf h|p a pf h|cp|cp pf h|nm cl|nm h sn t|rs|dt|ap].
  - (* send *)
    pose proof E as E0. cbn [Keeper.exec] in E0. apply send_packet_inv in E0.
    destruct E0 as (V & _ & _ & -> & ->).
    rewrite cnt_appack_none by (intros q b [F|[]]; discriminate F).
    destruct (bytes_eq_dec (commit_key s d n) (commit_key (p_src p) (p_dst p) (p_seq p))) as [Q|Q].
    + destruct (commit_key_fields s d n p K V W Q) as (Q1 & Q2 & Q3).
      unfold cnt. cbn [filter send_is]. unfold key_is. rewrite Q1, Q2, Q3, !beq_refl, N.eqb_refl. cbn [andb].
      destruct (beq (p_data p) x) eqn:B; cbn [length].
      * match goal with |- (_ + ind ?cc s d n x <= _)%nat => pose proof (ind_le1 cc s d n x) end. lia.
      * unfold ind at 1. unfold KeeperFacts.commit_at. cbn [Keeper.c_kv with_kv]. rewrite Q, lookup_set_eq.
        cbn [opt_beq]. destruct (beq (H (p_data p)) (H x)) eqn:B2; [|lia].
        apply beq_spec in B2. apply H_inj in B2. rewrite B2, beq_refl in B. discriminate.
    + rewrite (ind_same c); [lia|]. unfold KeeperFacts.commit_at. cbn [Keeper.c_kv with_kv].
      rewrite lookup_set_neq by exact Q. apply lookup_set_neq. fam_neq.
  - (* receive *)
    cbn [Keeper.exec] in E.
    pose proof (msg_recv_inv A H has_route on_recv _ _ _ _ _ _ E) as (V & _ & _ & _ & FR & _ & _ & NA & _).
    pose proof (msg_recv_vals A H has_route on_recv _ _ _ _ _ _ E) as (CV & _).
    rewrite cnt_appack_none.
    2:{ intros q b F. assert (G : In (EAppAck q b) (filter is_appack ev)) by (apply filter_In; split; [exact F|reflexivity]).
        rewrite NA in G. destruct G. }
    destruct (bytes_eq_dec (commit_key s d n) (commit_key (p_src p) (p_dst p) (p_seq p))) as [Q|Q].
    + destruct (commit_key_fields s d n p K V W Q) as (Q1 & Q2 & Q3). subst s d n.
      destruct CV as [CV|(CV & Fs & _)].
      * rewrite (ind_same c c' _ _ _ x CV). lia.
      * unfold ind at 1. rewrite CV. cbn [opt_beq]. destruct (beq (H (p_data p)) (H x)) eqn:B2; [|lia].
        apply beq_spec in B2. apply H_inj in B2.
        assert (G : In (ESend p) (filter (send_is (p_src p) (p_dst p) (p_seq p) x) ev)).
        { apply filter_In. split; [exact Fs|]. cbn [send_is]. unfold key_is.
          rewrite B2, !beq_refl, N.eqb_refl. reflexivity. }
        assert (G1 : (1 <= cnt (send_is (p_src p) (p_dst p) (p_seq p) x) ev)%nat).
        { unfold cnt. destruct (filter (send_is (p_src p) (p_dst p) (p_seq p) x) ev) as [|e0 l0]; [destruct G|cbn; lia]. }
        lia.
    + rewrite (ind_same c); [lia|]. unfold KeeperFacts.commit_at. apply FR; [fam_neq|exact Q|fam_neq|fam_neq].
  - (* acknowledge *)
    cbn [Keeper.exec] in E.
    apply msg_ack_inv in E. destruct E as (_ & c1 & ev1 & AP & KV & _ & _ & _ & _ & Ev).
    apply ack_packet_inv in AP. destruct AP as (V & _ & B & _ & CN & FR & Ev1 & _).
    assert (CA : (cnt (appack_is s d n x) ev <= if key_is s d n x p then 1 else 0)%nat).
    { assert (Z1 : cnt (appack_is s d n x) ev1 = 0%nat).
      { apply cnt_appack_none. intros q b F. destruct Ev1 as [->|[-> _]]; cbn in F;
          repeat (destruct F as [F|F]; [discriminate F|]); exact F. }
      destruct Ev as [(-> & _)|(-> & _)]; [rewrite Z1; lia|].
      rewrite cnt_app, Z1. unfold cnt. cbn [filter appack_is]. destruct (key_is s d n x p); cbn; lia. }
    destruct (bytes_eq_dec (commit_key s d n) (commit_key (p_src p) (p_dst p) (p_seq p))) as [Q|Q].
    + destruct (commit_key_fields s d n p K V W Q) as (Q1 & Q2 & Q3). subst s d n.
      assert (I0 : ind c' (p_src p) (p_dst p) (p_seq p) x = 0%nat).
      { unfold ind, KeeperFacts.commit_at in *. rewrite KV, CN. reflexivity. }
      rewrite I0. destruct (key_is (p_src p) (p_dst p) (p_seq p) x p) eqn:KI; [|lia].
      apply key_is_true in KI. destruct KI as (_ & _ & _ & DX).
      assert (I1 : ind c (p_src p) (p_dst p) (p_seq p) x = 1%nat).
      { unfold ind. destruct (commit_at c (p_src p) (p_dst p) (p_seq p)) as [b|].
        - apply beq_spec in B. subst b. cbn [opt_beq]. rewrite DX, beq_refl. reflexivity.
        - apply beq_spec in B. exfalso. apply (H_ne (p_data p)); [|symmetry; exact B].
          unfold validate_basic in V. rewrite !andb_true_iff in V. destruct V as [[[[_ V] _] _] _].
          destruct (p_data p); [discriminate V|intros X; discriminate X]. }
      lia.
    + assert (KF : key_is s d n x p = false).
      { destruct (key_is s d n x p) eqn:KI; [|reflexivity]. apply key_is_true in KI.
        destruct KI as (<- & <- & <- & _). contradiction. }
      rewrite KF in CA. rewrite (ind_same c); [lia|]. unfold KeeperFacts.commit_at. rewrite KV.
      apply FR; [exact Q|fam_neq|fam_neq].
  - (* clean *)
    cbn [Keeper.exec] in E. apply clean_packet_inv in E. destruct E as (_ & _ & -> & ->).
    rewrite cnt_appack_none by (intros q b [F|[]]; discriminate F).
    rewrite (ind_same c); [lia|]. unfold KeeperFacts.commit_at. cbn [Keeper.c_kv with_kv].
    rewrite clean_acks_receipts_other.
    + apply lookup_set_neq. fam_neq.
    + unfold commit_key. rewrite key_fam_seq by (apply is_fam_noslash; auto with keys).
      intro X. apply beq_spec in X. vm_compute in X. discriminate.
    + unfold commit_key. rewrite key_fam_seq by (apply is_fam_noslash; auto with keys).
      intro X. apply beq_spec in X. vm_compute in X. discriminate.
  - (* receive clean *)
    cbn [Keeper.exec] in E. destruct (N.eqb h 0); [discriminate|].
    apply recv_clean_inv in E. destruct E as (_ & _ & _ & EV & ->).
    rewrite cnt_appack_none
      by (intros q b F; destruct EV as [->| ->]; cbn in F; repeat (destruct F as [F|F]; [discriminate F|]); exact F).
    rewrite (ind_same c); [lia|]. unfold KeeperFacts.commit_at. cbn [Keeper.c_kv with_kv].
    rewrite lookup_set_neq by fam_neq. apply clean_acks_receipts_other.
    + unfold commit_key. rewrite key_fam_seq by (apply is_fam_noslash; auto with keys).
      intro X. apply beq_spec in X. vm_compute in X. discriminate.
    + unfold commit_key. rewrite key_fam_seq by (apply is_fam_noslash; auto with keys).
      intro X. apply beq_spec in X. vm_compute in X. discriminate.
  - cbn [Keeper.exec] in E. unfold create_client in E. destruct (has nm _); [discriminate|]. inversion E; subst.
    rewrite cnt_appack_none by (intros q b []). rewrite (ind_same c) by reflexivity. lia.
  - cbn [Keeper.exec] in E. unfold update_client in E. destruct (lookup nm _); [|discriminate].
    destruct (negb _); [discriminate|]. inversion E; subst.
    rewrite cnt_appack_none by (intros q b []). rewrite (ind_same c) by reflexivity. lia.
  - cbn [Keeper.exec] in E. destruct (set_rules rs); [|discriminate]. inversion E; subst.
    rewrite cnt_appack_none by (intros q b []). rewrite (ind_same c) by reflexivity. lia.
  - cbn [Keeper.exec] in E. inversion E; subst. rewrite cnt_appack_none by (intros q b []). rewrite (ind_same c) by reflexivity. lia.
  - cbn [Keeper.exec] in E. inversion E; subst. rewrite cnt_appack_none by (intros q b []). rewrite (ind_same c) by reflexivity. lia.
Qed.

(** processed acknowledgements of a (key, data), plus the commitment still
    held, never outnumber the commitments logged for that (key, data) *)
Definition Sc (c : chain) (log : list event) : Prop :=
  forall s d n x, wfk s d n ->
    (cnt (appack_is s d n x) log + ind c s d n x <= cnt (send_is s d n x) log)%nat.

Lemma step_Sc c o log :
  op_wf o -> Sc c log ->
  Sc (fst (step c o)) (log ++ match snd (step c o) with Some ev => ev | None => [] end).
Proof.
  intros W I. unfold Keeper.step. destruct (exec c o) as [[c' ev]|] eqn:E; cbn [fst snd].
  - intros s d n x K. rewrite !cnt_app. pose proof (exec_count c o c' ev s d n x W E K). specialize (I s d n x K). lia.
  - rewrite app_nil_r. exact I.
Qed.

Theorem net_refunds_le_sends n0 ops j cj s d n x :
  net_init A n0 -> Forall nop_ok ops -> wfk s d n ->
  nth_error (nrun A H has_route on_recv on_ack n0 ops) j = Some cj ->
  (cnt (appack_is s d n x) (log_of j (nrun_log A H has_route on_recv on_ack n0 ops)) <=
   cnt (send_is s d n x) (log_of j (nrun_log A H has_route on_recv on_ack n0 ops)))%nat.
Proof.
  intros I0 W K Hj.
  assert (I : NP A Sc (nrun A H has_route on_recv on_ack n0 ops) ([] ++ nrun_log A H has_route on_recv on_ack n0 ops)).
  { apply (nrun_NP A H has_route on_recv on_ack).
    - intros c t log X. exact X.
    - exact step_Sc.
    - exact W.
    - intros i ci Hi s0 d0 n1 x0 _. destruct (I0 i ci Hi) as [KV _].
      unfold ind, KeeperFacts.commit_at. rewrite KV. cbn. lia. }
  cbn [app] in I. specialize (I j cj Hj s d n x K). lia.
Qed.

End Count.

Section AppCount.
Variable nft_escrow mt_escrow : bytes.

(** on every chain of every application-network history: the processed
    acknowledgements (refunds) of a (key, data) never outnumber the chain's logged
    commitments of that (key, data) *)
Theorem a_refunds_le_sends n0 ops j cj s d n x :
  net_init app_state n0 -> Forall anop_ok ops -> wfk s d n ->
  nth_error (anrun nft_escrow mt_escrow n0 ops) j = Some cj ->
  (cnt (appack_is s d n x) (log_of j (anrun_log nft_escrow mt_escrow n0 ops)) <=
   cnt (send_is s d n x) (log_of j (anrun_log nft_escrow mt_escrow n0 ops)))%nat.
Proof.
  intros I0 W K Hj.
  destruct (anrun_sim nft_escrow mt_escrow ops n0) as [S1 S2]. rewrite S1 in Hj. rewrite S2.
  apply (net_refunds_le_sends app_state idH a_has_route (a_on_recv nft_escrow mt_escrow)
           (a_on_ack nft_escrow mt_escrow) idH_inj) with (cj := cj); try assumption.
  - intros y NE. exact NE.
  - apply expand_all_ok_init; assumption.
Qed.
End AppCount.
