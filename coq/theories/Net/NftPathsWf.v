(** C04: [paths_wf] as a history invariant.  Per chain: (i) every class is
    '/'-free or a "tibc-" voucher class, (ii) every trace value is a voucher path
    "nft/c1/../ck/b" with '/'-free parts and k >= 2 -- kept by every step whose
    delivered NFT packets carry a well-formed class path from a '/'-free source.
    Network: (iii) that condition holds for every delivery of a history, because
    a delivery is backed by a [UNftSend] on a chain of the network whose state
    satisfied the invariant. *)
From Tibc Require Import Base.Bytes Base.BytesFacts Base.FMap Host.Keys Host.KeysFacts Routing.Rules
  Packet.Types Packet.Keeper Packet.KeeperFacts
  Net.Net Net.NetInv Apps.Path Apps.PathFacts Apps.Nft Apps.NftFacts Apps.Mt Apps.App
  Harness.AppNet Net.AppNetSim Net.AppNetNoSelf
  Apps.NftHistory Apps.NftHistoryThm Apps.NftEscrow Net.NftCrossChain Net.NftCrossChain2
  Net.NftSingleHolder Net.NftSingleHolder2.
From Coq Require Import Lia Arith.

Notation nfull := (full NFT_PFX).

(** a well-formed class path: a '/'-free native class or a voucher path of at least two chains *)
Definition wfpath (fp : bytes) : Prop :=
  noslash fp \/ exists p b, fp = nfull p b /\ all_noslash p /\ noslash b /\ (2 <= length p)%nat.

Definition CInv (st : nft_state) : Prop :=
  forall class, has_class class st = true -> noslash class \/ has_prefix tibc_dash class = true.

Definition TInv2 (st : nft_state) : Prop :=
  forall h fp, lookup h (ns_traces st) = Some fp ->
    exists p b, fp = nfull p b /\ all_noslash p /\ noslash b /\ (2 <= length p)%nat.

Definition PInv (st : nft_state) : Prop := CInv st /\ TInv2 st.

Lemma PInv_init : PInv (a_nft app_init).
Proof. split; [intros class HC; discriminate HC|intros h fp L; discriminate L]. Qed.

Lemma PInv_paths_wf st : PInv st -> paths_wf st.
Proof.
  intros [C T] class fp HC CP. unfold class_path_of in CP.
  destruct (has_prefix tibc_dash class) eqn:P.
  - right. exact (T _ _ CP).
  - inversion CP; subst fp. left. split; [|reflexivity].
    destruct (C _ HC) as [N|X]; [exact N|congruence].
Qed.

(** the away-path of a well-formed class path: a voucher path of at least two chains *)
Lemma away_wf src dst fp :
  noslash src -> noslash dst -> wfpath fp ->
  exists p b, away_new_class_path NFT_PFX src dst fp = nfull p b /\
              all_noslash p /\ noslash b /\ (2 <= length p)%nat.
Proof.
  intros S D [N|(p & b & -> & P & B & L)].
  - exists [src; dst], fp. rewrite (away_native NFT_PFX) by exact N.
    split; [reflexivity|]. split; [repeat constructor; assumption|]. split; [exact N|cbn; lia].
  - exists (p ++ [dst]), b. rewrite (away_full NFT_PFX NFT_PFX_noslash) by assumption.
    split; [reflexivity|]. split; [apply Forall_app; split; [exact P|repeat constructor; exact D]|].
    split; [exact B|rewrite app_length; cbn; lia].
Qed.

Lemma ibc_of_full p b :
  all_noslash p -> noslash b ->
  ibc_class idHh (parse_class_trace (nfull p b)) = tibc_dash ++ nfull p b /\
  full_class_path (parse_class_trace (nfull p b)) = nfull p b.
Proof.
  intros P B. split.
  - apply (voucher_of_full p b P B).
  - apply (full_class_path_parse_full NFT_PFX NFT_PFX_noslash NFT_PFX_nonempty); assumption.
Qed.

Section PerChain.
Variable nft_escrow mt_escrow : bytes.
Notation escrow := nft_escrow.
Notation achain := (chain app_state).
Notation xexec := (hexec idHh idH addr_ok nft_escrow mt_escrow enc_nft dec_nft enc_mt dec_mt).
Notation on_recv := (app_on_recv idHh addr_ok nft_escrow mt_escrow dec_nft dec_mt).
Notation on_ack := (app_on_ack idHh addr_ok nft_escrow mt_escrow dec_nft dec_mt).
Notation c_name := (c_name app_state).

(** classes after the receive callback: the old ones, or the voucher class of the away-path *)
Lemma recv_core_classes2 st src dst d st' r :
  nft_recv_core idHh addr_ok escrow st src dst d = (st', r) ->
  forall class, has_class class st' = true ->
    has_class class st = true \/
    class = ibc_class idHh (parse_class_trace (away_new_class_path NFT_PFX src dst (nd_class d))).
Proof.
  unfold nft_recv_core.
  destruct (blank (nd_sender d) || blank (nd_receiver d)); [intros E; inversion E; auto|].
  destruct (addr_ok (nd_receiver d)); cbn [negb]; [|intros E; inversion E; auto].
  destruct (nd_away d).
  - set (tr := parse_class_trace (away_new_class_path NFT_PFX src dst (nd_class d))).
    set (st1 := if has (idHh (full_class_path tr)) (ns_traces st) then st else _).
    set (voucher := ibc_class idHh tr).
    set (st2 := if has_class voucher st1 then st1 else nft_issue_class st1 voucher escrow true).
    assert (C2 : forall class, has_class class st2 = true -> has_class class st = true \/ class = voucher).
    { intros class. unfold st2, st1, has_class, has.
      destruct (lookup voucher _); destruct (lookup _ (ns_traces st));
        cbn [ns_classes nft_issue_class]; auto;
        rewrite lookup_set; destruct (beq class voucher) eqn:B; auto;
        apply beq_spec in B; auto. }
    destruct (nft_mint st2 voucher (nd_id d) (nd_uri d) escrow) as [st3|] eqn:M.
    + apply nft_mint_spec in M. destruct M as (_ & _ & CL3 & _ & _).
      destruct (nft_transfer st3 voucher (nd_id d) escrow (nd_receiver d)) as [st4|] eqn:TR.
      * apply nft_transfer_spec in TR. destruct TR as (u & _ & _ & CL4 & _ & _).
        intros E. inversion E; subst. intros class. unfold has_class. rewrite CL4, CL3. apply C2.
      * intros E. inversion E; subst. intros class. unfold has_class. rewrite CL3. apply C2.
    + intros E. inversion E; subst. exact C2.
  - destruct (has_prefix NFT_PFX (nd_class d)); cbn [negb]; [|intros E; inversion E; auto].
    destruct (back_new_class_path (nd_class d)) as [np|]; [|intros E; inversion E; auto].
    destruct (nft_transfer st _ (nd_id d) escrow (nd_receiver d)) as [st1|] eqn:TR;
      intros E; inversion E; subst; auto.
    apply nft_transfer_spec in TR. destruct TR as (u & _ & _ & CL & _ & _).
    intros class. unfold has_class. rewrite CL. auto.
Qed.

(** a receive whose packet carries a well-formed class path from a '/'-free
    source to a '/'-free destination keeps the invariant *)
Lemma recv_core_PInv st src dst d st' r :
  nft_recv_core idHh addr_ok escrow st src dst d = (st', r) ->
  noslash src -> noslash dst -> wfpath (nd_class d) -> PInv st -> PInv st'.
Proof.
  intros R S D W [C T].
  destruct (away_wf src dst (nd_class d) S D W) as (p & b & AE & P & B & L).
  destruct (ibc_of_full p b P B) as [IB FB].
  split.
  - intros class HC. destruct (recv_core_classes2 _ _ _ _ _ _ R class HC) as [X| ->]; [exact (C _ X)|].
    right. rewrite AE, IB. apply has_prefix_app.
  - intros h fp Lk. destruct (recv_core_traces idHh addr_ok escrow _ _ _ _ _ _ R h) as [X|[X _]].
    + rewrite X in Lk. exact (T _ _ Lk).
    + rewrite X in Lk. inversion Lk; subst fp. rewrite AE, FB. exists p, b. auto.
Qed.

Definition issue_plain (h : hop) : Prop :=
  match h with
  | HUser (UNftIssue class _) => noslash class
  | _ => True
  end.

(** every step keeps the invariant, provided the NFT packets it delivers carry
    a well-formed class path and a '/'-free source *)
Theorem step_PInv (c : achain) h c' ev :
  xexec c h = Some (c', ev) -> not_setapp h -> issue_plain h -> noslash (c_name c) ->
  (forall p d, In (EDeliver p) ev -> dec_nft (p_data p) = Some d ->
               noslash (p_src p) /\ wfpath (nd_class d)) ->
  PInv (nft_of c) -> PInv (nft_of c').
Proof.
  intros E NS IP NC DW I0. unfold nft_of in *.
  assert (SAME : ns_classes (a_nft (c_app app_state c')) = ns_classes (a_nft (c_app app_state c)) ->
                 ns_traces (a_nft (c_app app_state c')) = ns_traces (a_nft (c_app app_state c)) ->
                 PInv (a_nft (c_app app_state c'))).
  { intros E1 E2. destruct I0 as [C T]. split.
    - intros class HC. apply C. unfold has_class in *. rewrite <- E1. exact HC.
    - intros k fp L. rewrite E2 in L. exact (T _ _ L). }
  destruct h as [o|u].
  - cbn [hexec] in E.
    assert (OTH : match o with ORecv _ _ _ | OAck _ _ _ _ | OSetApp _ => False | _ => True end ->
                  PInv (a_nft (c_app app_state c'))).
    { intros NO. destruct (exec_other_app _ _ _ _ _ _ _ _ _ _ _ E NO) as [-> _]. exact I0. }
    destruct o; try (apply OTH; exact I); [| |contradiction]; clear OTH; cbn [exec] in E.
    + apply msg_recv_app in E. destruct E as (_ & [(-> & _)|(DD & _ & a' & oack & ev1 & OR & <- & _ & ->)]).
      * exact I0.
      * apply on_recv_nft in OR. destruct OR as [(_ & ->)|(_ & d & r & DC & R & _)]; [exact I0|].
        destruct (DW p d) as [NSRC WF]; [apply in_or_app; right; left; reflexivity|exact DC|].
        eapply recv_core_PInv; [exact R|exact NSRC|rewrite DD; exact NC|exact WF|exact I0].
    + apply msg_ack_app in E. destruct E as (_ & [(-> & _)|(_ & OA & _)]); [exact I0|].
      apply on_ack_nft in OA. destruct OA as [(_ & ->)|(_ & d & _ & R)]; [exact I0|].
      destruct (is_err_ack ack).
      * apply refund_effect in R. destruct R as (E1 & E2 & _). apply SAME; assumption.
      * rewrite R. exact I0.
  - cbn [hexec] in E. destruct u; cbn [user_exec] in E.
    + destruct (has_class class _) eqn:HC0; [discriminate|]. inversion E; subst. clear E.
      cbn [c_app with_app a_nft]. destruct I0 as [C T]. split.
      * intros k HK. unfold has_class, has in HK. cbn [ns_classes nft_issue_class] in HK.
        rewrite lookup_set in HK. destruct (beq k class) eqn:B.
        -- apply beq_spec in B. subst k. left. exact IP.
        -- apply C. exact HK.
      * exact T.
    + destruct (lookup class _) as [[cr rs]|]; [|discriminate].
      destruct (rs && _); [discriminate|]. unfold lift_nft in E.
      destruct (nft_mint _ class id uri rcpt) as [st|] eqn:M; [|discriminate]. inversion E; subst. clear E.
      cbn [c_app with_app a_nft] in *. apply nft_mint_spec in M. destruct M as (_ & _ & E1 & E2 & _).
      apply SAME; assumption.
    + unfold lift_nft in E. destruct (nft_transfer _ class id from to) as [st|] eqn:M; [|discriminate].
      inversion E; subst. clear E. cbn [c_app with_app a_nft] in *.
      apply nft_transfer_spec in M. destruct M as (uri & _ & _ & E1 & E2 & _). apply SAME; assumption.
    + unfold lift_nft in E. destruct (nft_burn _ class id owner) as [st|] eqn:M; [|discriminate].
      inversion E; subst. clear E. cbn [c_app with_app a_nft] in *.
      apply nft_burn_spec in M. destruct M as (uri & _ & _ & E1 & E2 & _). apply SAME; assumption.
    + destruct (nft_send _ _ _ _ _ _ _ _ _ _ _ _) as [[st pkt]|] eqn:S; [|discriminate].
      apply nft_send_effect in S. destruct S as (E1 & E2 & _).
      apply send_packet_inv in E. destruct E as (_ & _ & _ & _ & ->).
      cbn [c_app with_app with_kv a_nft] in *. apply SAME; assumption.
    + destruct (mt_has_class _ _); [discriminate|]. inversion E; subst. exact I0.
    + destruct (N.eqb amt 0); [discriminate|]. destruct (lookup class _) as [ow|]; [|discriminate].
      destruct (negb _); [discriminate|]. destruct (mt_exists _ _ _); [discriminate|].
      unfold lift_mt in E. destruct (mt_issue _ _ _ _ _ _) as [st [|]]; [|discriminate].
      inversion E; subst. exact I0.
    + destruct (N.eqb amt 0); [discriminate|]. destruct (lookup class _) as [ow|]; [|discriminate].
      destruct (negb _); [discriminate|]. destruct (negb _); [discriminate|].
      unfold lift_mt in E. destruct (mt_mint _ _ _ _ _) as [st [|]]; [|discriminate].
      inversion E; subst. exact I0.
    + destruct (N.eqb amt 0); [discriminate|].
      unfold lift_mt in E. destruct (mt_transfer _ _ _ _ _ _) as [st [|]]; [|discriminate].
      inversion E; subst. exact I0.
    + destruct (N.eqb amt 0); [discriminate|].
      unfold lift_mt in E. destruct (mt_burn _ _ _ _ _) as [st [|]]; [|discriminate].
      inversion E; subst. exact I0.
    + destruct (mt_send _ _ _ _ _ _ _ _ _ _ _ _ _) as [[st pkt]|]; [|discriminate].
      apply send_packet_inv in E. destruct E as (_ & _ & _ & _ & ->). exact I0.
Qed.

End PerChain.
