(** C04 across chains, part 1: application-network histories ([anrun]) seen as
    per-chain [hop] steps (Apps/NftHistory.v), and the OWN-SEND LINK: every NFT
    refund on chain i is the refund of a packet chain i itself committed by an
    earlier [UNftSend] user transaction, with the same key and the same data. *)
From Tibc Require Import Base.Bytes Base.BytesFacts Base.FMap Host.Keys Host.KeysFacts Routing.Rules
  Packet.Types Packet.Keeper Packet.KeeperFacts Packet.Invariants Packet.AckOnce
  Net.Net Net.Explained Net.NetInv Apps.Path Apps.PathFacts Apps.Nft Apps.NftFacts Apps.Mt Apps.App
  Harness.AppNet Net.AppNetSim Net.AppNetFacts Net.AppNetConserve Net.AppNetNoSelf Net.AppNetSums
  Net.AppNetCount Apps.NftHistory Apps.NftHistoryThm Apps.NftEscrow.

(** * the harness codec never decodes MT packet data as NFT packet data (tags) *)
Lemma dec_fields_mt_tag R :
  dec_fields 12 (be64 (N.of_nat (length tag_mt)) ++ tag_mt ++ R) =
  match dec_fields 11 R with Some l => Some (tag_mt :: l) | None => None end.
Proof. reflexivity. Qed.

Lemma dec_nft_enc_mt x : dec_nft (enc_mt x) = None.
Proof.
  unfold dec_nft, enc_mt. cbn [enc_fields]. rewrite dec_fields_mt_tag.
  destruct (dec_fields 11 _) as [l|]; [|reflexivity].
  destruct l as [|c [|i [|u [|s [|r [|a [|k [|z l]]]]]]]]; reflexivity.
Qed.

Section Cross.
Variable nft_escrow mt_escrow : bytes.

Notation achain := (chain app_state).
Notation anrun := (anrun nft_escrow mt_escrow).
Notation anrun_log := (anrun_log nft_escrow mt_escrow).
Notation anstep := (anstep nft_escrow mt_escrow).
Notation xexec := (hexec idHh idH addr_ok nft_escrow mt_escrow enc_nft dec_nft enc_mt dec_mt).
Notation xstep := (hstep idHh idH addr_ok nft_escrow mt_escrow enc_nft dec_nft enc_mt dec_mt).
Notation c_name := (c_name app_state).
Notation with_now := (with_now app_state).

(** ** every network step is one [hop] step of the acted chain, taken at the block time of the step *)
Definition aresolve (n : anet) (o : anop) : option (nat * N * hop) :=
  match o with
  | ANet o' => match resolve app_state n o' with
               | Some (i, now, op) => Some (i, now, HOp op)
               | None => None
               end
  | AUser i now u => Some (i, now, HUser u)
  end.

Lemma anstep_hop n o :
  anstep n o =
  match aresolve n o with
  | None => (n, None)
  | Some (i, now, h) =>
      match nth_error n i with
      | None => (n, None)
      | Some ci => (upd_nth n i (fst (xstep (with_now ci now) h)), snd (xstep (with_now ci now) h))
      end
  end.
Proof.
  destruct o as [o'|i now u]; cbn [AppNet.anstep aresolve].
  - unfold astep, nstep. destruct (resolve app_state n o') as [[[i now] op]|]; [|reflexivity].
    destruct (nth_error n i) as [ci|]; [|reflexivity].
    unfold step, hstep. cbn [hexec].
    destruct (exec app_state idH _ _ _ (with_now ci now) op) as [[c' ev]|]; reflexivity.
  - destruct (nth_error n i) as [ci|]; [|reflexivity].
    unfold a_user, hstep. cbn [hexec].
    destruct (user_exec idH nft_escrow mt_escrow enc_nft enc_mt (with_now ci now) u) as [[c' ev]|]; reflexivity.
Qed.

Lemma aresolve_chain n o i now h : aresolve n o = Some (i, now, h) -> anop_chain o = i.
Proof.
  destruct o as [o'|i' now' u]; cbn [aresolve anop_chain].
  - destruct o' as [i0 now0 op|i0 j0 now0 hh t per|i0 j0 now0 hh t]; cbn [resolve nop_chain].
    + intros E. inversion E. reflexivity.
    + destruct (nth_error n j0); intros E; inversion E. reflexivity.
    + destruct (nth_error n j0); intros E; inversion E. reflexivity.
  - intros E. inversion E. reflexivity.
Qed.

(** a raw send operation is what it looks like *)
Lemma aresolve_osend n o i now q :
  aresolve n o = Some (i, now, HOp (OSend q)) -> o = ANet (NChain i now (OSend q)).
Proof.
  destruct o as [o'|i' now' u]; cbn [aresolve]; [|discriminate].
  destruct o' as [i0 now0 op|i0 j0 now0 hh t per|i0 j0 now0 hh t]; cbn [resolve].
  - intros E. inversion E. reflexivity.
  - destruct (nth_error n j0); intros E; inversion E.
  - destruct (nth_error n j0); intros E; inversion E.
Qed.

Lemma aresolve_user n o i now u : aresolve n o = Some (i, now, HUser u) -> o = AUser i now u.
Proof.
  destruct o as [o'|i' now' u']; cbn [aresolve].
  - destruct (resolve app_state n o') as [[[i0 now0] op]|]; intros E; inversion E.
  - intros E. inversion E. reflexivity.
Qed.

Lemma anrun_app' n a b : AppNetSim.anrun nft_escrow mt_escrow n (a ++ b) =
                         AppNetSim.anrun nft_escrow mt_escrow (AppNetSim.anrun nft_escrow mt_escrow n a) b.
Proof. unfold AppNetSim.anrun. apply fold_left_app. Qed.

Lemma anrun_log_app a : forall n b,
  anrun_log n (a ++ b) = anrun_log n a ++ anrun_log (anrun n a) b.
Proof.
  induction a as [|o r IH]; intros n b; [reflexivity|].
  cbn [app AppNetSim.anrun_log]. rewrite anrun_cons.
  destruct (anstep n o) as [n' res]. cbn [fst]. rewrite IH, app_assoc. reflexivity.
Qed.

Lemma in_tag' i j (e : event) r : In (j, e) (tag i r) -> j = i /\ exists ev, r = Some ev /\ In e ev.
Proof.
  destruct r as [ev|]; cbn; [|intros []]. intros F. apply in_map_iff in F.
  destruct F as (e' & E & F). inversion E; subst. split; [reflexivity|]. exists ev. auto.
Qed.

(** one successful step of chain i inside a history *)
Definition step_at (n0 : anet) (ops pre : list anop) (o : anop) (post : list anop)
           (i : nat) (ci : achain) (now : N) (h : hop) (c' : achain) (ev : list event) : Prop :=
  ops = pre ++ o :: post /\ nth_error (anrun n0 pre) i = Some ci /\
  aresolve (anrun n0 pre) o = Some (i, now, h) /\
  xexec (with_now ci now) h = Some (c', ev) /\
  anrun n0 (pre ++ [o]) = upd_nth (anrun n0 pre) i c'.

Lemma step_at_intro n o i now h ci :
  aresolve n o = Some (i, now, h) -> nth_error n i = Some ci ->
  forall ev, snd (anstep n o) = Some ev ->
  exists c', xexec (with_now ci now) h = Some (c', ev) /\ fst (anstep n o) = upd_nth n i c'.
Proof.
  intros AR Hi ev S. rewrite anstep_hop, AR, Hi in *. unfold hstep in *.
  destruct (xexec (with_now ci now) h) as [[c' ev']|]; cbn [fst snd] in *; [|discriminate].
  inversion S; subst. exists c'. split; reflexivity.
Qed.

(** every logged event belongs to a successful step of the history *)
Lemma log_event_step ops : forall n0 i e,
  In (i, e) (anrun_log n0 ops) ->
  exists pre o post ci now h c' ev, step_at n0 ops pre o post i ci now h c' ev /\ In e ev.
Proof.
  induction ops as [|o r IH]; intros n0 i e F; [destruct F|].
  cbn [AppNetSim.anrun_log] in F. destruct (anstep n0 o) as [n' res] eqn:S.
  apply in_app_or in F. destruct F as [F|F].
  - apply in_tag' in F. destruct F as (-> & ev & -> & Fe).
    pose proof S as S'. rewrite anstep_hop in S'.
    destruct (aresolve n0 o) as [[[i' now] h]|] eqn:AR; [|inversion S'].
    destruct (nth_error n0 i') as [ci|] eqn:Hi; [|inversion S'].
    pose proof (aresolve_chain _ _ _ _ _ AR) as <-.
    assert (S2 : snd (anstep n0 o) = Some ev) by (rewrite S; reflexivity).
    destruct (step_at_intro _ _ _ _ _ _ AR Hi ev S2) as (c' & X & N').
    exists [], o, r, ci, now, h, c', ev. split; [|exact Fe].
    repeat split; auto.
  - assert (N' : n' = fst (anstep n0 o)) by (rewrite S; reflexivity).
    destruct (IH n' i e F) as (pre & o1 & post & ci & now & h & c' & ev & (-> & Hi & AR & X & N1) & Fe).
    exists (o :: pre), o1, post, ci, now, h, c', ev. split; [|exact Fe].
    unfold step_at. cbn [app]. rewrite !anrun_cons, <- N'. repeat split; auto.
Qed.

(** ... and the events of a successful step are in the log *)
Lemma step_in_log n0 ops pre o post i ci now h c' ev e :
  step_at n0 ops pre o post i ci now h c' ev -> In e ev -> In (i, e) (anrun_log n0 ops).
Proof.
  intros (-> & Hi & AR & X & _) Fe. rewrite anrun_log_app. apply in_or_app. right.
  cbn [AppNetSim.anrun_log]. rewrite anstep_hop, AR, Hi. unfold hstep. rewrite X. cbn [fst snd].
  apply in_or_app. left. rewrite (aresolve_chain _ _ _ _ _ AR). cbn [tag]. apply in_map. exact Fe.
Qed.

(** prefixes of good histories are good *)
Lemma hist_ok_prefix n0 pre rest : hist_ok n0 (pre ++ rest) -> hist_ok n0 pre.
Proof.
  intros (I0 & ND & W & W2). apply Forall_app in W. apply Forall_app in W2.
  split; [exact I0|]. split; [exact ND|]. split; tauto.
Qed.

Lemma name_const n0 a b i ci cj :
  nth_error (anrun n0 a) i = Some ci -> nth_error (anrun n0 b) i = Some cj -> c_name ci = c_name cj.
Proof.
  intros Hi Hj. apply (names_nth app_state) in Hi. apply (names_nth app_state) in Hj.
  rewrite (a_names nft_escrow mt_escrow) in Hi, Hj. congruence.
Qed.

(** ** which steps emit which events *)

Lemma user_events (c : achain) u c' ev :
  xexec c (HUser u) = Some (c', ev) -> ev = [] \/ exists p, ev = [ESend p].
Proof.
  intros E. destruct (a_user_shape nft_escrow mt_escrow c u c' ev E) as [(-> & _)|(p & -> & _)]; eauto.
Qed.

Lemma eappack_step (c : achain) h c' ev p a :
  xexec c h = Some (c', ev) -> In (EAppAck p a) ev ->
  exists pf hh, h = HOp (OAck p a pf hh) /\ p_src p = c_name c /\ appack_ev ev = true.
Proof.
  intros E F. destruct h as [o|u].
  - cbn [hexec] in E. destruct (exec_appack_events _ _ _ _ _ _ _ _ _ _ _ E F) as (pf & hh & ->).
    exists pf, hh. split; [reflexivity|]. cbn [exec] in E. apply msg_ack_app in E.
    destruct E as (_ & [(_ & Ev)|(S & _ & ev1 & ->)]).
    + exfalso. destruct Ev as [->| ->]; cbn in F; intuition discriminate.
    + split; [exact S|]. apply appack_ev_snoc.
  - exfalso. destruct (user_events _ _ _ _ E) as [->|(q & ->)]; cbn in F; intuition discriminate.
Qed.

(** a commitment event [ESend q] in a step: a raw send, a relay re-commitment
    (then the chain holds a light client under the name it proves from), or a
    token send of the NFT / MT module *)
Lemma esend_step (c : achain) h c' ev q :
  xexec c h = Some (c', ev) -> In (ESend q) ev ->
  h = HOp (OSend q) \/
  (exists pf hh cl, h = HOp (ORecv q pf hh) /\ p_relay q = c_name c /\
     lookup (if beq (p_dst q) (c_name c) && negb (is_nil (p_relay q)) then p_relay q else p_src q)
            (c_clients app_state c) = Some cl) \/
  (exists class id sender receiver dest relay contract,
     h = HUser (UNftSend class id sender receiver dest relay contract) /\ ev = [ESend q]) \/
  (exists x, p_data q = enc_mt x).
Proof.
  intros E F. destruct h as [o|u].
  - cbn [hexec] in E.
    destruct o as [p0|p0 pf hh|p0 a0 pf hh|cp|cp pf hh|nm cl|nm hh sn t|rs|dt|ap]; cbn [exec] in E.
    + apply send_packet_inv in E. destruct E as (_ & _ & _ & -> & _).
      destruct F as [F|[]]. inversion F; subst. left. reflexivity.
    + right. left. unfold msg_recv in E. destruct (N.eqb hh 0); [discriminate|].
      pose proof (recv_packet_inv2 app_state idH c p0 pf hh) as [R CL].
      destruct (recv_packet app_state idH c p0 pf hh) as [|c1 ev1|c1 ev1] eqn:RP; [discriminate| |].
      * exfalso. destruct R as (-> & -> & _).
        destruct (write_ack app_state idH _ p0 unauth_ack) as [[c2 ev2]|] eqn:W; [|discriminate].
        inversion E; subst c' ev. apply write_ack_inv in W. destruct W as (_ & _ & -> & _).
        cbn in F. intuition discriminate.
      * destruct CL as (cl & L & _); [discriminate|].
        assert (NE : forall ev3, (forall e, In e ev3 -> e = EDeliver p0 \/ exists a, e = EWriteAck p0 a) ->
                       In (ESend q) (ev1 ++ ev3) -> q = p0 /\ p_relay p0 = c_name c).
        { intros ev3 H3 G. apply in_app_or in G. destruct G as [G|G].
          - destruct R as [(_ & -> & _)|(_ & -> & RL & _)]; cbn in G.
            + intuition discriminate.
            + destruct G as [G|[G|[]]]; [discriminate|]. inversion G; subst. auto.
          - apply H3 in G. destruct G as [G|(a & G)]; discriminate. }
        assert (Q : q = p0 /\ p_relay p0 = c_name c).
        { assert (Nm : Keeper.c_name app_state c1 = c_name c)
            by (destruct R as [(-> & _)|(-> & _)]; reflexivity).
          rewrite Nm in E. destruct (beq (p_dst p0) (c_name c)).
          - destruct (app_has_route (p_port p0)); [|discriminate]. cbn [negb] in E.
            destruct (app_on_recv _ _ _ _ _ _ _ p0) as [[a' oack]|]; [|discriminate].
            destruct oack as [ack|].
            + destruct (write_ack app_state idH _ p0 ack) as [[c3 ev3]|] eqn:W; [|discriminate].
              inversion E; subst c' ev. apply write_ack_inv in W. destruct W as (_ & _ & -> & _).
              apply (NE ([EDeliver p0] ++ [EWriteAck p0 ack])); [|exact F].
              intros e [<-|[<-|[]]]; eauto.
            + inversion E; subst c' ev. apply (NE [EDeliver p0]); [|exact F].
              intros e [<-|[]]; eauto.
          - inversion E; subst c' ev. apply (NE []); [intros e []|]. rewrite app_nil_r. exact F. }
        destruct Q as [-> RL]. exists pf, hh, cl. auto.
    + exfalso. apply msg_ack_inv in E. destruct E as (_ & c1 & ev1 & AP & _ & _ & _ & _ & _ & Cs).
      apply ack_packet_inv in AP. destruct AP as (_ & _ & _ & _ & _ & _ & Ev1 & _).
      destruct Cs as [(-> & _)|(-> & _)]; destruct Ev1 as [->|[-> _]]; cbn in F; intuition discriminate.
    + exfalso. apply clean_packet_inv in E. destruct E as (_ & _ & -> & _). cbn in F. intuition discriminate.
    + exfalso. destruct (N.eqb hh 0); [discriminate|]. apply recv_clean_inv in E.
      destruct E as (_ & _ & _ & [->| ->] & _); cbn in F; intuition discriminate.
    + exfalso. destruct (create_client app_state c nm cl); [|discriminate]. inversion E; subst. destruct F.
    + exfalso. destruct (update_client app_state c nm hh sn t); [|discriminate]. inversion E; subst. destruct F.
    + exfalso. destruct (set_rules rs); [|discriminate]. inversion E; subst. destruct F.
    + exfalso. inversion E; subst. destruct F.
    + exfalso. inversion E; subst. destruct F.
  - right. right. cbn [hexec] in E. destruct u; cbn [user_exec] in E.
    + exfalso. destruct (has_class _ _); [discriminate|]. inversion E; subst. destruct F.
    + exfalso. destruct (lookup class _) as [[cr rs]|]; [|discriminate]. destruct (rs && _); [discriminate|].
      unfold lift_nft in E. destruct (nft_mint _ _ _ _ _); [|discriminate]. inversion E; subst. destruct F.
    + exfalso. unfold lift_nft in E. destruct (nft_transfer _ _ _ _ _); [|discriminate].
      inversion E; subst. destruct F.
    + exfalso. unfold lift_nft in E. destruct (nft_burn _ _ _ _); [|discriminate].
      inversion E; subst. destruct F.
    + left. destruct (nft_send _ _ _ _ _ _ _ _ _ _ _ _) as [[st pkt]|]; [|discriminate].
      apply send_packet_inv in E. destruct E as (_ & _ & _ & -> & _).
      destruct F as [F|[]]. inversion F; subst.
      exists class, id, sender, receiver, dest, relay, contract. split; reflexivity.
    + exfalso. destruct (mt_has_class _ _); [discriminate|]. inversion E; subst. destruct F.
    + exfalso. destruct (N.eqb amt 0); [discriminate|]. destruct (lookup class _) as [ow|]; [|discriminate].
      destruct (negb _); [discriminate|]. destruct (mt_exists _ _ _); [discriminate|].
      unfold lift_mt in E. destruct (mt_issue _ _ _ _ _ _) as [st [|]]; [|discriminate].
      inversion E; subst. destruct F.
    + exfalso. destruct (N.eqb amt 0); [discriminate|]. destruct (lookup class _) as [ow|]; [|discriminate].
      destruct (negb _); [discriminate|]. destruct (negb _); [discriminate|].
      unfold lift_mt in E. destruct (mt_mint _ _ _ _ _) as [st [|]]; [|discriminate].
      inversion E; subst. destruct F.
    + exfalso. destruct (N.eqb amt 0); [discriminate|].
      unfold lift_mt in E. destruct (mt_transfer _ _ _ _ _ _) as [st [|]]; [|discriminate].
      inversion E; subst. destruct F.
    + exfalso. destruct (N.eqb amt 0); [discriminate|].
      unfold lift_mt in E. destruct (mt_burn _ _ _ _ _) as [st [|]]; [|discriminate].
      inversion E; subst. destruct F.
    + right. destruct (mt_send _ _ _ _ _ _ _ _ _ _ _ _ _) as [[st pkt]|] eqn:S; [|discriminate].
      apply send_packet_inv in E. destruct E as (_ & _ & _ & -> & _).
      destruct F as [F|[]]. inversion F; subst.
      unfold mt_send in S. destruct (negb _); [discriminate|].
      destruct (lookup _ (ms_mts _)) as [md|]; [|discriminate]. destruct (beq _ dest); [discriminate|].
      destruct (mt_class_path_of _ _) as [full|]; [|discriminate].
      destruct (determine_away _ full dest) as [aw|]; [|discriminate].
      destruct (if aw then _ else _) as [st' [|]]; [|discriminate].
      inversion S; subst. eexists. reflexivity.
Qed.

(** ** (1) THE OWN-SEND LINK *)

(** premise: a raw SendPacket operation (there is no such message in the
    implementation; the model has it for the mock application) never carries
    data the NFT module would decode *)
Definition no_raw_nft_send (o : anop) : Prop :=
  match o with ANet (NChain _ _ (OSend p)) => dec_nft (p_data p) = None | _ => True end.

(** a commitment logged by chain i under its OWN name whose data decodes as NFT
    packet data was made by a [UNftSend] user transaction on chain i *)
Lemma own_commit_is_nft_send n0 ops i q d :
  hist_ok n0 ops -> Forall no_raw_nft_send ops ->
  In (i, ESend q) (anrun_log n0 ops) -> dec_nft (p_data q) = Some d ->
  (exists a ca, nth_error (anrun n0 a) i = Some ca /\ p_src q = c_name ca) ->
  exists pre post now class id sender receiver dest relay contract ci c',
    step_at n0 ops pre (AUser i now (UNftSend class id sender receiver dest relay contract)) post
            i ci now (HUser (UNftSend class id sender receiver dest relay contract)) c' [ESend q].
Proof.
  intros HO NR F D (a0 & ca & Ha & SRC).
  destruct (log_event_step ops n0 i _ F) as (pre & o & post & ci & now & h & c' & ev & ST & Fe).
  pose proof ST as (Eq & Hi & AR & X & N1).
  assert (NM : p_src q = c_name ci) by (rewrite SRC; eapply name_const; eassumption).
  destruct (esend_step _ _ _ _ _ X Fe) as [->|[(pf & hh & cl & -> & RL & L)|[(class & id & sender & receiver & dest & relay & contract & -> & ->)|(x & DX)]]].
  - exfalso. apply aresolve_osend in AR. subst o. rewrite Eq in NR. apply Forall_app in NR.
    destruct NR as [_ NR]. inversion NR as [|? ? N0 _]; subst. cbn [no_raw_nft_send] in N0. congruence.
  - exfalso. cbn [Keeper.c_name Keeper.with_now Keeper.c_clients] in RL, L.
    assert (L' : lookup (c_name ci) (c_clients app_state ci) = Some cl).
    { destruct (beq (p_dst q) (c_name ci) && negb (is_nil (p_relay q))); congruence. }
    assert (NS : NoSelf app_state ci).
    { eapply (a_NoSelf nft_escrow mt_escrow n0 pre); [|exact Hi]. rewrite Eq in HO. eapply hist_ok_prefix; exact HO. }
    unfold NoSelf in NS. congruence.
  - apply aresolve_user in AR. subst o.
    exists pre, post, now, class, id, sender, receiver, dest, relay, contract, ci, c'. exact ST.
  - exfalso. rewrite DX, dec_nft_enc_mt in D. discriminate.
Qed.

(** every processed acknowledgement of a packet whose data decodes as NFT data
    -- in particular every NFT refund -- on chain i concerns a packet that chain
    i's own earlier [UNftSend] committed: same source, destination, sequence and
    data *)
Theorem nft_refund_own_send n0 ops i p a d :
  hist_ok n0 ops -> Forall no_raw_nft_send ops ->
  In (i, EAppAck p a) (anrun_log n0 ops) -> dec_nft (p_data p) = Some d ->
  exists q pre post now class id sender receiver dest relay contract ci c',
    step_at n0 ops pre (AUser i now (UNftSend class id sender receiver dest relay contract)) post
            i ci now (HUser (UNftSend class id sender receiver dest relay contract)) c' [ESend q] /\
    p_src q = p_src p /\ p_dst q = p_dst p /\ p_seq q = p_seq p /\ p_data q = p_data p.
Proof.
  intros HO NR F D. pose proof HO as (I0 & _ & W & _).
  destruct (a_appack_own_send nft_escrow mt_escrow n0 ops I0 W i p a F) as (q & FS & K1 & K2 & K3 & K4).
  destruct (log_event_step ops n0 i _ F) as (pre1 & o1 & post1 & ci1 & now1 & h1 & c1' & ev1 & ST1 & Fe1).
  destruct ST1 as (_ & Hi1 & _ & X1 & _).
  destruct (eappack_step _ _ _ _ _ _ X1 Fe1) as (pf & hh & _ & SRC & _).
  cbn [Keeper.c_name Keeper.with_now] in SRC.
  assert (D' : dec_nft (p_data q) = Some d) by (rewrite K4; exact D).
  destruct (own_commit_is_nft_send n0 ops i q d HO NR FS D') as
    (pre & post & now & class & id & sender & receiver & dest & relay & contract & ci & c' & ST).
  { exists pre1, ci1. split; [exact Hi1|]. congruence. }
  exists q, pre, post, now, class, id, sender, receiver, dest, relay, contract, ci, c'. auto.
Qed.

End Cross.
