(** C05 across chains, part 4: bridge (3) -- every commitment NA -> NB in the
    log of chain i whose data decode to (class path cl, id, away) is an
    accounted away-send of (cl, id) with that amount:
        sent_sum NA NB (wd cl id) (log of i)  <=  SA
    Premises (all on the history, none global on the codec):
      - [sends_roundtrip]: a boolean check along the run of chain i: the data of
        a packet sent by MsgMtTransfer, if they decode at all, decode to the id,
        amount, class path and direction that were sent; packets sent by other
        user transactions (NFT) and by the bare packet-layer OSend do not decode
        as MT data (the latter is "no raw send on the MT port");
      - [send_class_ok]: the class a user names in MsgMtTransfer is a voucher
        class ("tibc-" prefix) or '/'-free;
      - received packets are relay-free ([anop_direct]) and NA is not empty: a
        receive on i then never re-commits a packet (relay re-commit);
      - no OSetApp; the trace table of i satisfies TraceInv at the start. *)
From Tibc Require Import Base.Bytes Base.BytesFacts Base.FMap Host.Keys Host.KeysFacts Routing.Rules
  Packet.Types Packet.Keeper Packet.KeyEq Packet.KeeperFacts Packet.AckOnce
  Net.Net Net.Explained Net.NetInv
  Apps.Path Apps.PathFacts Apps.Nft Apps.Mt Apps.MtFacts Apps.App Apps.AppFacts Harness.AppNet
  Net.AppNetSim Net.AppNetNoSelf Net.AppNetCount Net.AppNetSumIneq
  Apps.MtHistory Apps.MtHistEscrow Apps.MtHistLinks Apps.MtHistClass
  Net.MtCrossChain Net.MtCrossEq Net.MtCrossBridge.
From Coq Require Import ZArith ZifyN ZifyNat ZifyBool.

Lemma sumw_plist_zero {X} (w : X -> N) (pr : event -> option X) ev :
  (forall e z, In e ev -> pr e = Some z -> w z = 0) -> sumw w (plist pr ev) = 0.
Proof.
  induction ev as [|e ev IH]; intros Z; [reflexivity|]. cbn [plist].
  destruct (pr e) as [z|] eqn:P.
  - cbn [sumw]. rewrite (Z e z (or_introl eq_refl) P), IH; [reflexivity|].
    intros e' z' Hi. apply Z. right. exact Hi.
  - apply IH. intros e' z' Hi. apply Z. right. exact Hi.
Qed.

(** which packet-layer operations log a commitment *)
Section OpSend.
Variable A : Type.
Variable H : bytes -> bytes.
Variable has_route : bytes -> bool.
Variable on_recv : A -> packet -> option (A * option bytes).
Variable on_ack : A -> packet -> bytes -> option A.

Lemma exec_esend c o c' ev q :
  exec A H has_route on_recv on_ack c o = Some (c', ev) -> In (ESend q) ev ->
  o = OSend q \/ exists pf h, o = ORecv q pf h /\ p_relay q = c_name A c.
Proof.
  intros E F. destruct o; cbn [exec] in E.
  - apply send_packet_inv in E. destruct E as (_ & _ & _ & -> & _).
    destruct F as [F|[]]. inversion F. left. reflexivity.
  - right. pose proof E as E1. pose proof E as E2.
    apply msg_recv_inv in E1. destruct E1 as (_ & _ & _ & _ & _ & AB & _).
    apply msg_recv_vals in E2. destruct E2 as (_ & _ & SV & _).
    destruct (AB _ F) as [X|[X|[X|[(a & X)|[(a & X)|(a & X)]]]]]; try discriminate X.
    inversion X; subst q. exists pf, h. split; [reflexivity|]. apply SV. exact F.
  - exfalso. apply msg_ack_inv in E. destruct E as (_ & c1 & ev1 & AP & _ & _ & _ & _ & _ & D).
    apply ack_packet_inv in AP. destruct AP as (_ & _ & _ & _ & _ & _ & Ev1 & _).
    assert (N1 : ~ In (ESend q) ev1).
    { destruct Ev1 as [->|[-> _]]; cbn; intuition discriminate. }
    destruct D as [(-> & _)|(-> & _)]; [exact (N1 F)|].
    apply in_app_or in F. destruct F as [F|[F|[]]]; [exact (N1 F)|discriminate F].
  - exfalso. apply clean_packet_inv in E. destruct E as (_ & _ & -> & _). destruct F as [F|[]]. discriminate F.
  - exfalso. destruct (N.eqb h 0); [discriminate|]. apply recv_clean_inv in E.
    destruct E as (_ & _ & _ & [->| ->] & _); cbn in F; intuition discriminate.
  - exfalso. destruct (create_client A c name cl); inversion E; subst. destruct F.
  - exfalso. destruct (update_client A c name h snap t); inversion E; subst. destruct F.
  - exfalso. destruct (set_rules rs); inversion E; subst. destruct F.
  - exfalso. inversion E; subst. destruct F.
  - exfalso. inversion E; subst. destruct F.
Qed.
End OpSend.

Section Bridge3.
Variable nft_escrow mt_escrow : bytes.
Variable NA NB : bytes.
Variable cl id : bytes.
Hypothesis NA_ne : NA <> [].
Hypothesis cl_ns : noslash cl.

Notation achain := (chain app_state).
Notation mt_of c := (a_mt (c_app app_state c)).
Notation hexec := (hexec idHh idH addr_ok nft_escrow mt_escrow enc_nft dec_nft enc_mt dec_mt).
Notation thstep := (thstep idHh idH addr_ok nft_escrow mt_escrow enc_nft dec_nft enc_mt dec_mt).
Notation thrun := (thrun idHh idH addr_ok nft_escrow mt_escrow enc_nft dec_nft enc_mt dec_mt).
Notation tevents := (tevents idHh idH addr_ok nft_escrow mt_escrow enc_nft dec_nft enc_mt dec_mt).
Notation tacts := (tacts idHh idH addr_ok nft_escrow mt_escrow enc_nft dec_nft enc_mt dec_mt).
Notation tact := (tact idHh dec_mt).
Notation wd := (wd cl id).
Notation hop_direct := (hop_direct NA NB).

Definition opt_none {X} (o : option X) : bool := match o with None => true | Some _ => false end.

(** the per-step codec check (boolean, so it can be evaluated on a history) *)
Definition send_rt (c : achain) (h : hop) : bool :=
  match h with
  | HUser (UMtSend c0 i0 s r dest relay k amt) =>
      match hexec c h with
      | Some (_, ev) =>
          forallb (fun e =>
            match e with
            | ESend p =>
                match dec_mt (p_data p) with
                | None => true
                | Some d =>
                    beq (md_id d) i0 && N.eqb (md_amount d) amt &&
                    match mt_class_path_of (mt_of c) c0 with
                    | Some fp => beq (md_class d) fp &&
                                 match determine_away MT_PFX fp dest with
                                 | Some a => Bool.eqb (md_away d) a
                                 | None => false
                                 end
                    | None => false
                    end
                end
            | _ => true
            end) ev
      | None => true
      end
  | HUser _ =>
      match hexec c h with
      | Some (_, ev) => forallb (fun e => match e with ESend p => opt_none (dec_mt (p_data p)) | _ => true end) ev
      | None => true
      end
  | HOp (OSend p) => opt_none (dec_mt (p_data p))     (* no raw send on the MT port *)
  | _ => true
  end.

Fixpoint sends_roundtrip (c : achain) (l : list thop) : bool :=
  match l with
  | [] => true
  | th :: r => send_rt (with_now app_state c (fst th)) (snd th) && sends_roundtrip (fst (thstep c th)) r
  end.

Definition send_class_ok (h : hop) : Prop :=
  match h with HUser (UMtSend c0 _ _ _ _ _ _ _) => class_ok c0 | _ => True end.

Lemma wz_nodec p : dec_mt (p_data p) = None -> wz wd (p_seq p, p_data p) = 0.
Proof. intros D. unfold wz, MtCrossBridge.wd. cbn [snd]. rewrite D. reflexivity. Qed.

Lemma sendp_some e z : sendp NA NB e = Some z -> exists p, e = ESend p /\ z = (p_seq p, p_data p).
Proof.
  destruct e; cbn [sendp]; try discriminate.
  destruct (beq (p_src p) NA && beq (p_dst p) NB); [|discriminate]. intros E. inversion E. eauto.
Qed.

(** one step on the chain named NA *)
Lemma step_sent (c : achain) h c' ev :
  hexec c h = Some (c', ev) -> c_name app_state c = NA -> hop_direct h -> send_rt c h = true ->
  TraceInv idHh (mt_of c) -> send_class_ok h ->
  sumw (wz wd) (plist (sendp NA NB) ev) <= sent_away cl id (tact c h ev).
Proof.
  intros E NM HD RT TI CO.
  assert (ZERO : (forall q, In (ESend q) ev -> dec_mt (p_data q) = None) ->
                 sumw (wz wd) (plist (sendp NA NB) ev) = 0).
  { intros Z. apply sumw_plist_zero. intros e z Hi P. apply sendp_some in P. destruct P as (p & -> & ->).
    apply wz_nodec. apply Z. exact Hi. }
  destruct h as [o|u].
  - rewrite ZERO; [lia|]. intros q F. cbn [MtHistory.hexec] in E.
    destruct (exec_esend _ _ _ _ _ _ _ _ _ _ E F) as [->|(pf & hh & -> & RL)].
    + cbn [send_rt] in RT. destruct (dec_mt (p_data q)); [discriminate RT|reflexivity].
    + exfalso. cbn [MtCrossBridge.hop_direct] in HD. destruct HD as [R0 _]. rewrite R0, NM in RL.
      apply NA_ne. symmetry. exact RL.
  - assert (SH : ev = [] \/ exists p, ev = [ESend p]).
    { change (a_user nft_escrow mt_escrow c u = Some (c', ev)) in E.
      destruct (a_user_shape _ _ _ _ _ _ E) as [(-> & _)|(p & -> & _)]; eauto. }
    destruct SH as [->|(p & ->)]; [cbn; lia|].
    destruct u;
      try (rewrite ZERO; [lia|]; intros q [F|[]]; inversion F; subst q;
           cbn [send_rt] in RT; rewrite E in RT; cbn [forallb] in RT;
           destruct (dec_mt (p_data p)); [discriminate RT|reflexivity]).
    (* MsgMtTransfer *)
    cbn [send_rt] in RT. rewrite E in RT. cbn [forallb] in RT. rewrite andb_true_r in RT.
    cbn [plist sendp]. destruct (beq (p_src p) NA && beq (p_dst p) NB); [|cbn; lia].
    cbn [sumw]. unfold wz. cbn [snd]. unfold MtCrossBridge.wd.
    destruct (dec_mt (p_data p)) as [d|]; [|lia].
    cbn [MtCrossChain.tact].
    destruct (mt_class_path_of (mt_of c) class) as [fp|] eqn:CP; [|rewrite andb_false_r in RT; discriminate RT].
    rewrite !andb_true_iff in RT. destruct RT as [[Q1 Q2] [Q3 Q4]].
    apply beq_spec in Q1. apply N.eqb_eq in Q2. apply beq_spec in Q3.
    destruct (determine_away MT_PFX fp dest) as [a|]; [|discriminate Q4].
    apply Bool.eqb_prop in Q4.
    destruct (beq (md_class d) cl && beq (md_id d) id && md_away d) eqn:W; [|lia].
    rewrite !andb_true_iff in W. destruct W as [[W1 W2] W3]. apply beq_spec in W1. apply beq_spec in W2.
    rewrite W3 in Q4. subst a. cbn [sent_away]. unfold amt_if.
    cbn [send_class_ok] in CO.
    pose proof (class_path_back idHh _ _ _ TI CO CP) as CB.
    rewrite <- Q3, W1, voucher_class_native in CB by exact cl_ns.
    rewrite <- CB, <- Q1, W2, keq_refl. lia.
Qed.

Definition thop_class_ok (th : thop) : Prop := send_class_ok (snd th).

Lemma hist_sent l : forall c,
  c_name app_state c = NA -> TraceInv idHh (mt_of c) ->
  Forall thop_ok l -> Forall (thop_direct NA NB) l -> Forall thop_class_ok l -> sends_roundtrip c l = true ->
  sumw (wz wd) (plist (sendp NA NB) (tevents c l)) <= sumf (sent_away cl id) (tacts c l).
Proof.
  induction l as [|th r IH]; intros c NMc TI F1 F2 F3 RT; [cbn; lia|].
  apply Forall_cons_iff in F1. destruct F1 as [O1 F1].
  apply Forall_cons_iff in F2. destruct F2 as [O2 F2].
  apply Forall_cons_iff in F3. destruct F3 as [O3 F3].
  cbn [sends_roundtrip] in RT. apply andb_true_iff in RT. destruct RT as [RT1 RT2].
  cbn [MtCrossChain.tacts MtCrossChain.tevents].
  destruct (thstep c th) as [c1 [ev|]] eqn:ST; unfold MtCrossChain.thstep in ST; cbn [fst] in RT2.
  - apply hstep_ok in ST.
    pose proof (hexec_name _ _ _ _ _ _ ST) as N1. cbn [c_name with_now] in N1.
    pose proof (step_sent _ _ _ _ ST NMc O2 RT1 TI O3) as S1.
    assert (TI1 : TraceInv idHh (mt_of c1)).
    { eapply (hexec_tr idHh idH addr_ok nft_escrow mt_escrow enc_nft dec_nft enc_mt dec_mt); [exact O1| |exact ST].
      exact TI. }
    assert (IH1 := IH c1 (eq_trans N1 NMc) TI1 F1 F2 F3 RT2).
    cbn [sumf]. rewrite plist_app, (sumw_app kd_dec).
    change (tact (with_now app_state c (fst th)) (snd th) ev) with (tact c (snd th) ev) in S1. lia.
  - apply hstep_fail in ST. subst c1. apply IH; assumption.
Qed.

(** * the network *)
Definition anop_class_ok (o : anop) : Prop :=
  match o with AUser _ _ (UMtSend c0 _ _ _ _ _ _ _) => class_ok c0 | _ => True end.

Lemma proj_class_ok k ops : forall n, Forall anop_class_ok ops -> Forall thop_class_ok (proj nft_escrow mt_escrow k n ops).
Proof.
  induction ops as [|o r IH]; intros n F; [constructor|].
  apply Forall_cons_iff in F. destruct F as [Fo Fr]. cbn [proj]. apply Forall_app. split; [|apply IH; exact Fr].
  destruct o as [o'|i' now u]; cbn [proj_step].
  - destruct (resolve app_state n o') as [[[i' now] op]|]; [|constructor].
    destruct (Nat.eqb i' k); constructor; [exact Logic.I|constructor].
  - destruct (Nat.eqb i' k); constructor; [|constructor].
    unfold thop_class_ok. cbn [snd send_class_ok]. destruct u; try exact Logic.I. exact Fo.
Qed.

Theorem sends_accounted_thm n0 ops i ci0 :
  Forall anop_noset ops -> Forall (anop_direct NA NB) ops -> Forall anop_class_ok ops ->
  nth_error n0 i = Some ci0 -> c_name app_state ci0 = NA -> TraceInv idHh (mt_of ci0) ->
  sends_roundtrip ci0 (proj nft_escrow mt_escrow i n0 ops) = true ->
  sends_accounted nft_escrow mt_escrow NA NB cl id n0 ops i.
Proof.
  intros NS DIR CO Hi0 NM TI RT. unfold sends_accounted, sent_sum, SA, nacts. rewrite Hi0.
  destruct (anrun_proj nft_escrow mt_escrow i ops n0 ci0 Hi0) as [_ ->].
  apply hist_sent; try assumption.
  - apply proj_ok. exact NS.
  - apply proj_direct. exact DIR.
  - apply proj_class_ok. exact CO.
Qed.

End Bridge3.

(** * the two-chain equation with [sends_accounted] discharged *)
Theorem closed2_cross_chain_equation
  (nft_escrow mt_escrow NA NB cl id : bytes) (n0 : anet) (ops : list anop) (i j : nat)
  (ci0 cj0 ci cj : chain app_state) :
  NA <> [] -> noslash NA -> noslash NB -> noslash cl ->
  hist_ok n0 ops -> Forall anop_noset ops -> Forall (anop_direct NA NB) ops -> Forall anop_class_ok ops ->
  nth_error n0 i = Some ci0 -> nth_error n0 j = Some cj0 ->
  c_name app_state ci0 = NA -> c_name app_state cj0 = NB ->
  MtInv (a_mt (c_app app_state ci0)) -> MtInv (a_mt (c_app app_state cj0)) ->
  TraceInv idHh (a_mt (c_app app_state ci0)) ->
  sends_roundtrip nft_escrow mt_escrow ci0 (proj nft_escrow mt_escrow i n0 ops) = true ->
  nth_error (anrun nft_escrow mt_escrow n0 ops) i = Some ci ->
  nth_error (anrun nft_escrow mt_escrow n0 ops) j = Some cj ->
  bal_of (a_mt (c_app app_state ci0)) mt_escrow cl id = 0 ->
  supply_of (a_mt (c_app app_state cj0)) (voucher_of NA NB cl) id = 0 ->
  Forall (act_clean mt_escrow) (nacts nft_escrow mt_escrow i n0 ops) ->
  sumf (user_minted (voucher_of NA NB cl) id) (nacts nft_escrow mt_escrow j n0 ops) = 0 ->
  sumf (user_burned (voucher_of NA NB cl) id) (nacts nft_escrow mt_escrow j n0 ops) = 0 ->
  (* the reverse direction, still a premise *)
  RB nft_escrow mt_escrow n0 ops i cl id + RM nft_escrow mt_escrow n0 ops j (voucher_of NA NB cl) id
    <= BB nft_escrow mt_escrow n0 ops j (voucher_of NA NB cl) id ->
  let v := voucher_of NA NB cl in
  bal_of (a_mt (c_app app_state ci)) mt_escrow cl id
    = supply_of (a_mt (c_app app_state cj)) v id
      + in_flight_ij nft_escrow mt_escrow n0 ops i j cl v id
      + in_flight_ji nft_escrow mt_escrow n0 ops i j cl v id /\
  in_flight_ij nft_escrow mt_escrow n0 ops i j cl v id
    + (MR nft_escrow mt_escrow n0 ops j v id + RA nft_escrow mt_escrow n0 ops i cl id)
    = SA nft_escrow mt_escrow n0 ops i cl id /\
  in_flight_ji nft_escrow mt_escrow n0 ops i j cl v id
    + (RB nft_escrow mt_escrow n0 ops i cl id + RM nft_escrow mt_escrow n0 ops j v id)
    = BB nft_escrow mt_escrow n0 ops j v id /\
  supply_of (a_mt (c_app app_state cj)) v id <= bal_of (a_mt (c_app app_state ci)) mt_escrow cl id /\
  bal_of (a_mt (c_app app_state ci)) mt_escrow cl id <= u64max.
Proof.
  intros NAne NAs NBs CLs HK NS DIR CO Hi0 Hj0 Ni Nj Ii Ij TI RT Hi Hj Zi Zj CL UM UB REV.
  apply (closed_cross_chain_equation nft_escrow mt_escrow NA NB cl id n0 ops i j ci0 cj0 ci cj); try assumption.
  eapply sends_accounted_thm; eassumption.
Qed.
