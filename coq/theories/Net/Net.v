(** A network of chains.  Client creation/update on chain i about chain j
    records j's *current* packet store (the honest-header premise: the header a
    relayer submits for height h carries the root of j's committed state). *)
From Tibc Require Import Base.Bytes Base.FMap Host.Keys Routing.Rules Packet.Types Packet.Keeper.

Section Net.
Variable A : Type.
Variable H : bytes -> bytes.
Variable has_route : bytes -> bool.
Variable on_recv : A -> packet -> option (A * option bytes).
Variable on_ack : A -> packet -> bytes -> option A.

Notation chain := (chain A).
Notation step := (step A H has_route on_recv on_ack).

Definition net := list chain.

Inductive nop :=
| NChain (i : nat) (now : N) (o : op A)
| NCreate (i j : nat) (now h t period : N)
| NUpd (i j : nat) (now h t : N).

Fixpoint upd_nth {X} (l : list X) (i : nat) (x : X) : list X :=
  match l, i with
  | [], _ => []
  | _ :: r, O => x :: r
  | y :: r, S i' => y :: upd_nth r i' x
  end.

Definition nop_chain (o : nop) : nat :=
  match o with NChain i _ _ => i | NCreate i _ _ _ _ _ => i | NUpd i _ _ _ _ => i end.

(** the single-chain operation a network operation amounts to *)
Definition resolve (n : net) (o : nop) : option (nat * N * op A) :=
  match o with
  | NChain i now o' => Some (i, now, o')
  | NCreate i j now h t period =>
      match nth_error n j with
      | Some cj => Some (i, now, OCreateClient (c_name A cj)
                                   (mkClient (set (hkey h) (c_kv A cj, t) []) h period))
      | None => None
      end
  | NUpd i j now h t =>
      match nth_error n j with
      | Some cj => Some (i, now, OUpdateClient (c_name A cj) h (c_kv A cj) t)
      | None => None
      end
  end.

Definition nstep (n : net) (o : nop) : net * option (list event) :=
  match resolve n o with
  | None => (n, None)
  | Some (i, now, o') =>
      match nth_error n i with
      | None => (n, None)
      | Some ci =>
          let '(ci', r) := step (with_now A ci now) o' in
          (upd_nth n i ci', r)
      end
  end.

Definition nrun (n : net) (ops : list nop) : net := fold_left (fun n o => fst (nstep n o)) ops n.

End Net.

Arguments NChain {A} i now o.
Arguments NCreate {A} i j now h t period.
Arguments NUpd {A} i j now h t.
Arguments nop_chain {A} o.
