(** Cross-chain accounting, history-closed: in every network history (and, by
    the simulation, in every application-network history with user transactions)
      - every delivery [EDeliver p] logged on a chain (the token credit runs in
        it) is matched by a commitment [ESend p'] with the same source,
        destination, sequence and data in the log of the chain it was proven from;
      - every processed acknowledgement [EAppAck p a] logged on a chain (a refund
        runs in it when [a] is an error acknowledgement) is matched by a written
        acknowledgement [EWriteAck p' a] with the same key and the same bytes in
        the log of the chain it was proven from. *)
From Tibc Require Import Base.Bytes Base.BytesFacts Base.FMap Host.Keys Host.KeysFacts
  Routing.Rules Packet.Types Packet.Keeper Packet.U64 Packet.KeyEq Packet.KeeperFacts
  Packet.Invariants Packet.AckOnce Net.Net Net.Explained Net.NetInv
  Apps.Path Apps.Nft Apps.Mt Apps.App Harness.AppNet Net.AppNetSim Net.AppNetFacts.
From Coq Require Import ZArith ZifyN ZifyNat ZifyBool.

Section Hist.
Variable A : Type.
Variable H : bytes -> bytes.
Variable has_route : bytes -> bool.
Variable on_recv : A -> packet -> option (A * option bytes).
Variable on_ack : A -> packet -> bytes -> option A.
Hypothesis H_inj : forall x y, H x = H y -> x = y.

Notation chain := (chain A).
Notation net := (net A).
Notation nstep := (nstep A H has_route on_recv on_ack).
Notation nrun := (nrun A H has_route on_recv on_ack).
Notation nrun_log := (nrun_log A H has_route on_recv on_ack).
Notation step := (step A H has_route on_recv on_ack).
Notation exec := (exec A H has_route on_recv on_ack).
Notation c_name := (c_name A).
Notation NI := (NI A H).

Lemma in_log_of j e (nl : nlog) : In e (log_of j nl) <-> In (j, e) nl.
Proof.
  unfold log_of. rewrite in_map_iff. split.
  - intros ([j' e'] & E & F). cbn in E. subst e'. apply filter_In in F. destruct F as [F G].
    cbn in G. apply Nat.eqb_eq in G. subst j'. exact F.
  - intros F. exists (j, e). split; [reflexivity|]. apply filter_In. split; [exact F|].
    cbn. apply Nat.eqb_refl.
Qed.

Lemma in_tag i j e r : In (j, e) (tag i r) -> j = i /\ exists ev, r = Some ev /\ In e ev.
Proof.
  destruct r as [ev|]; cbn; [|intros []]. intros F. apply in_map_iff in F.
  destruct F as (e' & E & F). inversion E; subst. split; [reflexivity|]. exists ev. auto.
Qed.

(** chain names never change *)
Lemma nstep_name n o j cj :
  nth_error n j = Some cj ->
  exists cj', nth_error (fst (nstep n o)) j = Some cj' /\ c_name cj' = c_name cj.
Proof.
  intros Hj. unfold Net.nstep.
  destruct (resolve A n o) as [[[i now] o']|]; cbn [fst]; [|eauto].
  destruct (nth_error n i) as [ci|] eqn:Hi; cbn [fst]; [|eauto].
  unfold Keeper.step. destruct (exec (with_now A ci now) o') as [[ci' ev]|] eqn:E; cbn [fst].
  - destruct (Nat.eq_dec i j) as [<-|Hn].
    + exists ci'. rewrite (nth_error_upd_nth_eq _ _ _ _ Hi). split; [reflexivity|].
      rewrite Hi in Hj. inversion Hj; subst cj.
      apply (exec_name A H has_route on_recv on_ack) in E. exact E.
    + exists cj. rewrite nth_error_upd_nth_neq by exact Hn. auto.
  - destruct (Nat.eq_dec i j) as [<-|Hn].
    + exists (with_now A ci now). rewrite (nth_error_upd_nth_eq _ _ _ _ Hi). split; [reflexivity|].
      rewrite Hi in Hj. inversion Hj; subst cj. reflexivity.
    + exists cj. rewrite nth_error_upd_nth_neq by exact Hn. auto.
Qed.

(** one network step, opened up *)
Lemma nstep_open n o i e :
  In (i, e) (tag (nop_chain o) (snd (nstep n o))) -> nop_ok o ->
  exists now o' ci ci' ev,
    op_wf o' /\ nth_error n i = Some ci /\
    exec (with_now A ci now) o' = Some (ci', ev) /\ In e ev.
Proof.
  intros F OK. apply in_tag in F. destruct F as (IC & ev & R & F).
  unfold Net.nstep in R.
  destruct (resolve A n o) as [[[i0 now] o']|] eqn:RS; cbn [snd] in R; [|discriminate].
  destruct (resolve_ok A n o i0 now o' OK RS) as [W IC']. rewrite IC' in IC. subst i0.
  destruct (nth_error n i) as [ci|] eqn:Hi; cbn [snd] in R; [|discriminate].
  unfold Keeper.step in R. destruct (exec (with_now A ci now) o') as [[ci' ev']|] eqn:E; cbn [snd] in R;
    [|discriminate].
  inversion R; subst ev'. exists now, o', ci, ci', ev. auto.
Qed.

(** which operation logs an application-acknowledgement event *)
Lemma exec_appack_events c o c' ev p a :
  exec c o = Some (c', ev) -> In (EAppAck p a) ev ->
  exists pf h, o = OAck p a pf h.
Proof.
  intros E F.
  destruct o as [p0|p0 pf h|p0 a0 pf h|cp|cp pf h|nm cl|nm h sn t|rs|dt|ap]; cbn [Keeper.exec] in E.
  - apply send_packet_inv in E. destruct E as (_ & _ & _ & -> & _).
    destruct F as [F|[]]; discriminate F.
  - apply msg_recv_inv in E. destruct E as (_ & _ & _ & _ & _ & _ & _ & NA & _).
    assert (G : In (EAppAck p a) (filter is_appack ev)) by (apply filter_In; split; [exact F|reflexivity]).
    rewrite NA in G. destruct G.
  - apply msg_ack_inv in E. destruct E as (_ & c1 & ev1 & AP & _ & _ & _ & _ & _ & Ev).
    apply ack_packet_inv in AP. destruct AP as (_ & _ & _ & _ & _ & _ & Ev1 & _).
    assert (G : ~ In (EAppAck p a) ev1).
    { destruct Ev1 as [->|[-> _]]; cbn; intros X;
        repeat (destruct X as [X|X]; [discriminate X|]); exact X. }
    destruct Ev as [(-> & _)|(-> & _)]; [contradiction|].
    apply in_app_or in F. destruct F as [F|F]; [contradiction|].
    destruct F as [F|[]]. inversion F; subst. eauto.
  - apply clean_packet_inv in E. destruct E as (_ & _ & -> & _).
    destruct F as [F|[]]; discriminate F.
  - destruct (N.eqb h 0); [discriminate|].
    apply recv_clean_inv in E. destruct E as (_ & _ & _ & [->| ->] & _); cbn in F;
      repeat (destruct F as [F|F]; [discriminate F|]); destruct F.
  - destruct (create_client A c nm cl); [|discriminate]. inversion E; subst. destruct F.
  - destruct (update_client A c nm h sn t); [|discriminate]. inversion E; subst. destruct F.
  - destruct (set_rules rs); [|discriminate]. inversion E; subst. destruct F.
  - inversion E; subst. destruct F.
  - inversion E; subst. destruct F.
Qed.

(** authenticity of an accepted acknowledgement, in any state satisfying the
    network invariant (Net/NetInv.v states it for reachable states only) *)
Lemma ack_authentic_state n nl i ci now p a pf h c' ev :
  NI n nl -> wfp p -> nth_error n i = Some ci ->
  msg_ack A H has_route on_ack (with_now A ci now) p a pf h = Some (c', ev) ->
  exists j cj p',
    nth_error n j = Some cj /\ c_name cj = ack_prover_name A ci p /\
    In (EWriteAck p' a) (log_of j nl) /\
    p_src p' = p_src p /\ p_dst p' = p_dst p /\ p_seq p' = p_seq p.
Proof.
  intros [_ Ib] Wp Hi E.
  apply msg_ack_inv in E. destruct E as (_ & c1 & ev1 & AP & _).
  apply ack_packet_inv in AP. destruct AP as (V & _ & _ & (from & cl & CL & _ & -> & VF) & _).
  cbn [Keeper.c_name Keeper.c_clients with_now] in CL, VF.
  unfold verify in VF. destruct pf as [g k|]; [|discriminate].
  rewrite !andb_true_iff in VF. destruct VF as [_ VF].
  destruct (snap_at cl h) as [[snap t]|] eqn:SA; [|discriminate].
  unfold opt_beq in VF. destruct (lookup _ snap) as [v|] eqn:LS; [|discriminate].
  apply beq_spec in VF. subst v.
  destruct (Ib i ci _ cl (hkey h) snap t Hi CL SA) as (j & cj & J1 & J2 & J3).
  assert (K : wfk (p_src p) (p_dst p) (p_seq p)).
  { apply validate_basic_names in V. destruct V as (V1 & V2 & _). repeat split; assumption. }
  destruct (J3 _ _ _ (H a) K) as [_ S]. destruct (S LS) as (p' & a' & P1 & P2 & P3 & P4 & P5).
  apply H_inj in P5. subst a'.
  exists j, cj, p'. repeat split; auto.
Qed.

(** the two history-closed matching properties *)
Definition deliver_matched (n : net) (nl : nlog) : Prop :=
  forall j p, In (j, EDeliver p) nl ->
    exists cj j' cj' p',
      nth_error n j = Some cj /\ nth_error n j' = Some cj' /\
      c_name cj' = prover_name A cj p /\ In (j', ESend p') nl /\
      p_src p' = p_src p /\ p_dst p' = p_dst p /\ p_seq p' = p_seq p /\ p_data p' = p_data p.

Definition appack_matched (n : net) (nl : nlog) : Prop :=
  forall i p a, In (i, EAppAck p a) nl ->
    exists ci j cj p',
      nth_error n i = Some ci /\ nth_error n j = Some cj /\
      c_name cj = ack_prover_name A ci p /\ In (j, EWriteAck p' a) nl /\
      p_src p' = p_src p /\ p_dst p' = p_dst p /\ p_seq p' = p_seq p.

Definition J (n : net) (nl : nlog) : Prop := NI n nl /\ deliver_matched n nl /\ appack_matched n nl.

Lemma prover_name_ext (c c' : chain) p : c_name c' = c_name c -> prover_name A c' p = prover_name A c p.
Proof. unfold prover_name. intros ->. reflexivity. Qed.
Lemma ack_prover_name_ext (c c' : chain) p :
  c_name c' = c_name c -> ack_prover_name A c' p = ack_prover_name A c p.
Proof. unfold ack_prover_name. intros ->. reflexivity. Qed.

Lemma nstep_J n nl o :
  nop_ok o -> J n nl -> J (fst (nstep n o)) (nl ++ tag (nop_chain o) (snd (nstep n o))).
Proof.
  intros OK (I & D & K). split; [apply nstep_NI; assumption|]. split.
  - intros j p F. apply in_app_or in F. destruct F as [F|F].
    + destruct (D j p F) as (cj & j' & cj' & p' & G1 & G2 & G3 & G4 & G5).
      destruct (nstep_name n o j cj G1) as (dj & X1 & X2).
      destruct (nstep_name n o j' cj' G2) as (dj' & Y1 & Y2).
      exists dj, j', dj', p'. split; [exact X1|]. split; [exact Y1|].
      split; [rewrite Y2, (prover_name_ext cj dj p X2); exact G3|].
      split; [apply in_or_app; left; exact G4 | exact G5].
    + destruct (nstep_open n o j _ F OK) as (now & o' & cj & cj1 & ev & W & Hj & E & Fe).
      destruct (exec_deliver_events A H has_route on_recv on_ack _ _ _ _ E)
        as [Dn|(p0 & pf & h & -> & Dv & _)].
      * exfalso. assert (G : In (EDeliver p) (filter is_deliver ev))
          by (apply filter_In; split; [exact Fe|reflexivity]).
        rewrite Dn in G. destruct G.
      * assert (G : In (EDeliver p) (filter is_deliver ev))
          by (apply filter_In; split; [exact Fe|reflexivity]).
        rewrite Dv in G. destruct G as [G|[]]. inversion G; subst p0. clear G.
        cbn [Keeper.exec] in E.
        destruct (recv_authentic_state A H has_route on_recv H_inj n nl j cj now p pf h cj1 ev I W Hj E)
          as (j' & cj' & p' & G2 & G3 & G4 & G5).
        destruct (nstep_name n o j cj Hj) as (dj & X1 & X2).
        destruct (nstep_name n o j' cj' G2) as (dj' & Y1 & Y2).
        exists dj, j', dj', p'. split; [exact X1|]. split; [exact Y1|].
        split; [rewrite Y2, (prover_name_ext cj dj p X2); exact G3|].
        split; [apply in_or_app; left; apply in_log_of; exact G4 | exact G5].
  - intros i p a F. apply in_app_or in F. destruct F as [F|F].
    + destruct (K i p a F) as (ci & j & cj & p' & G1 & G2 & G3 & G4 & G5).
      destruct (nstep_name n o i ci G1) as (di & X1 & X2).
      destruct (nstep_name n o j cj G2) as (dj & Y1 & Y2).
      exists di, j, dj, p'. split; [exact X1|]. split; [exact Y1|].
      split; [rewrite Y2, (ack_prover_name_ext ci di p X2); exact G3|].
      split; [apply in_or_app; left; exact G4 | exact G5].
    + destruct (nstep_open n o i _ F OK) as (now & o' & ci & ci1 & ev & W & Hi & E & Fe).
      destruct (exec_appack_events _ _ _ _ _ _ E Fe) as (pf & h & ->).
      cbn [Keeper.exec] in E.
      destruct (ack_authentic_state n nl i ci now p a pf h ci1 ev I W Hi E)
        as (j & cj & p' & G2 & G3 & G4 & G5).
      destruct (nstep_name n o i ci Hi) as (di & X1 & X2).
      destruct (nstep_name n o j cj G2) as (dj & Y1 & Y2).
      exists di, j, dj, p'. split; [exact X1|]. split; [exact Y1|].
      split; [rewrite Y2, (ack_prover_name_ext ci di p X2); exact G3|].
      split; [apply in_or_app; left; apply in_log_of; exact G4 | exact G5].
Qed.

Lemma nrun_J ops : forall n nl,
  Forall nop_ok ops -> J n nl -> J (nrun n ops) (nl ++ nrun_log n ops).
Proof.
  induction ops as [|o r IH]; intros n nl W I.
  - cbn. rewrite app_nil_r. exact I.
  - inversion W as [|? ? Wo Wr]; subst. pose proof (nstep_J n nl o Wo I) as S.
    rewrite nrun_cons. cbn [NetInv.nrun_log].
    destruct (nstep n o) as [n' res]. cbn [fst snd] in *. rewrite app_assoc. apply IH; assumption.
Qed.

Lemma J_init n : net_init A n -> J n [].
Proof.
  intros I. split; [apply NI_init; exact I|]. split.
  - intros j p [].
  - intros i p a [].
Qed.

(** every delivery in a network history is matched by a commitment logged on
    the chain it was proven from *)
Theorem net_deliver_matched n0 ops :
  net_init A n0 -> Forall nop_ok ops -> deliver_matched (nrun n0 ops) (nrun_log n0 ops).
Proof.
  intros I W. pose proof (nrun_J ops n0 [] W (J_init n0 I)) as (_ & D & _). exact D.
Qed.

(** every processed acknowledgement in a network history is matched by an
    acknowledgement written, with the same bytes, on the chain it was proven from *)
Theorem net_appack_matched n0 ops :
  net_init A n0 -> Forall nop_ok ops -> appack_matched (nrun n0 ops) (nrun_log n0 ops).
Proof.
  intros I W. pose proof (nrun_J ops n0 [] W (J_init n0 I)) as (_ & _ & K). exact K.
Qed.

(** ** a processed acknowledgement (refund) concerns a packet the chain itself
    committed: same key, same data *)
Hypothesis H_ne : forall x, x <> [] -> H x <> [].

Definition own_matched (nl : nlog) : Prop :=
  forall i p a, In (i, EAppAck p a) nl ->
    exists p', In (i, ESend p') nl /\
      p_src p' = p_src p /\ p_dst p' = p_dst p /\ p_seq p' = p_seq p /\ p_data p' = p_data p.

Lemma nstep_own n nl o :
  nop_ok o -> NI n nl -> own_matched nl ->
  own_matched (nl ++ tag (nop_chain o) (snd (nstep n o))).
Proof.
  intros OK I K i p a F. apply in_app_or in F. destruct F as [F|F].
  - destruct (K i p a F) as (p' & G1 & G2). exists p'. split; [apply in_or_app; left; exact G1|exact G2].
  - destruct (nstep_open n o i _ F OK) as (now & o' & ci & ci1 & ev & W & Hi & E & Fe).
    destruct (exec_appack_events _ _ _ _ _ _ E Fe) as (pf & h & ->).
    cbn [Keeper.exec] in E.
    apply msg_ack_inv in E. destruct E as (_ & c1 & ev1 & AP & _).
    apply ack_packet_inv in AP. destruct AP as (V & _ & B & _).
    assert (DN : p_data p <> []).
    { unfold validate_basic in V. rewrite !andb_true_iff in V. destruct V as [[[[_ V] _] _] _].
      destruct (p_data p); [discriminate V|intros X; discriminate X]. }
    destruct I as [Ia _]. specialize (Ia i ci Hi).
    assert (Kk : wfk (p_src p) (p_dst p) (p_seq p)).
    { apply validate_basic_names in V. destruct V as (V1 & V2 & _). repeat split; assumption. }
    destruct (Ia _ _ _ (H (p_data p)) Kk) as [S _].
    unfold KeeperFacts.commit_at in B. cbn [Keeper.c_kv with_now] in B.
    destruct (lookup (commit_key (p_src p) (p_dst p) (p_seq p)) (Keeper.c_kv A ci)) as [b|] eqn:L.
    + apply beq_spec in B. subst b. destruct (S eq_refl) as (p' & P1 & P2 & P3 & P4 & P5).
      apply H_inj in P5. exists p'. split; [apply in_or_app; left; apply in_log_of; exact P1|].
      repeat split; auto.
    + apply beq_spec in B. exfalso. apply (H_ne _ DN). symmetry. exact B.
Qed.

Lemma nrun_own ops : forall n nl,
  Forall nop_ok ops -> NI n nl -> own_matched nl -> own_matched (nl ++ nrun_log n ops).
Proof.
  induction ops as [|o r IH]; intros n nl W I K.
  - cbn. rewrite app_nil_r. exact K.
  - inversion W as [|? ? Wo Wr]; subst.
    pose proof (nstep_NI A H has_route on_recv on_ack n nl o Wo I) as I'.
    pose proof (nstep_own n nl o Wo I K) as K'.
    cbn [NetInv.nrun_log].
    destruct (nstep n o) as [n' res]. cbn [fst snd] in *. rewrite app_assoc. apply (IH n'); assumption.
Qed.

Theorem net_appack_own_send n0 ops :
  net_init A n0 -> Forall nop_ok ops -> own_matched (nrun_log n0 ops).
Proof.
  intros I W. apply (nrun_own ops n0 [] W (NI_init A H n0 I)). intros i p a [].
Qed.

End Hist.

(** * the application network *)
Section AppHist.
Variable nft_escrow mt_escrow : bytes.

Notation a_on_recv := (a_on_recv nft_escrow mt_escrow).
Notation a_on_ack := (a_on_ack nft_escrow mt_escrow).
Notation anrun := (anrun nft_escrow mt_escrow).
Notation anrun_log := (anrun_log nft_escrow mt_escrow).

Theorem a_deliver_matched n0 ops :
  net_init app_state n0 -> Forall anop_ok ops ->
  deliver_matched app_state (anrun n0 ops) (anrun_log n0 ops).
Proof.
  intros I W. destruct (anrun_sim nft_escrow mt_escrow ops n0) as [S1 S2]. rewrite S1, S2.
  apply (net_deliver_matched app_state idH a_has_route a_on_recv a_on_ack idH_inj); [exact I|].
  apply expand_all_ok_init; assumption.
Qed.

Theorem a_appack_matched n0 ops :
  net_init app_state n0 -> Forall anop_ok ops ->
  appack_matched app_state (anrun n0 ops) (anrun_log n0 ops).
Proof.
  intros I W. destruct (anrun_sim nft_escrow mt_escrow ops n0) as [S1 S2]. rewrite S1, S2.
  apply (net_appack_matched app_state idH a_has_route a_on_recv a_on_ack idH_inj); [exact I|].
  apply expand_all_ok_init; assumption.
Qed.

Theorem a_appack_own_send n0 ops :
  net_init app_state n0 -> Forall anop_ok ops -> own_matched (anrun_log n0 ops).
Proof.
  intros I W. destruct (anrun_sim nft_escrow mt_escrow ops n0) as [S1 S2]. rewrite S2.
  apply (net_appack_own_send app_state idH a_has_route a_on_recv a_on_ack idH_inj); [|exact I|].
  - intros x NE. exact NE.
  - apply expand_all_ok_init; assumption.
Qed.

End AppHist.
