(** C04 across chains, part 2: per-token exclusivity between a source chain and
    a destination chain.  Every delivered NFT packet (voucher creation or escrow
    release on the destination) is backed by a [UNftSend] transaction on the
    source chain with the same key and data -- which locked or burned the token
    there; a refunded key was never credited on the destination; and an escrowed
    token is released only through one of these two. *)
From Tibc Require Import Base.Bytes Base.BytesFacts Base.FMap Host.Keys Host.KeysFacts Routing.Rules
  Packet.Types Packet.Keeper Packet.KeeperFacts Packet.Invariants Packet.AckOnce
  Net.Net Net.Explained Net.NetInv Apps.Path Apps.PathFacts Apps.Nft Apps.NftFacts Apps.Mt Apps.App
  Harness.AppNet Net.AppNetSim Net.AppNetFacts Net.AppNetConserve Net.AppNetNoSelf Net.AppNetSums
  Net.AppNetCount Apps.NftHistory Apps.NftHistoryThm Apps.NftEscrow Net.NftCrossChain.

Section Cross2.
Variable nft_escrow mt_escrow : bytes.

Notation achain := (chain app_state).
Notation escrow := nft_escrow.
Notation anrun := (anrun nft_escrow mt_escrow).
Notation anrun_log := (anrun_log nft_escrow mt_escrow).
Notation xexec := (hexec idHh idH addr_ok nft_escrow mt_escrow enc_nft dec_nft enc_mt dec_mt).
Notation c_name := (c_name app_state).
Notation with_now := (with_now app_state).
Notation step_at := (step_at nft_escrow mt_escrow).
Notation is_recv_away := (is_recv_away idHh dec_nft).
Notation is_recv_back := (is_recv_back idHh dec_nft).
Notation is_refund_away := (is_refund_away idHh dec_nft).
Notation no_escrow_sig := (no_escrow_sig nft_escrow).

(** what a successful [UNftSend] step did: the packet it committed carries the
    class path, id, uri, sender, receiver and direction flag; the sender's token
    is now locked in escrow (away) or destroyed (back) *)
Definition nft_sent (c c' : achain) (class id sender receiver dest relay contract : bytes) (q : packet) : Prop :=
  exists full uri away,
    class_path_of (nft_of c) class = Some full /\ determine_away NFT_PFX full dest = Some away /\
    token_at (nft_of c) class id = Some (sender, uri) /\
    q = mkPacket (next_send app_state c (c_name c) dest) (c_name c) dest relay NFT_PORT
                 (enc_nft (mkNftData full id uri sender receiver away contract)) /\
    (if away then token_at (nft_of c') class id = Some (escrow, uri)
     else token_at (nft_of c') class id = None).

Lemma nft_send_step_facts (c : achain) class id sender receiver dest relay contract c' q :
  xexec c (HUser (UNftSend class id sender receiver dest relay contract)) = Some (c', [ESend q]) ->
  nft_sent c c' class id sender receiver dest relay contract q.
Proof.
  cbn [hexec user_exec]. unfold nft_of. intros E.
  destruct (nft_send _ _ _ _ _ _ _ _ _ _ _ _) as [[st pkt]|] eqn:S; [|discriminate].
  apply nft_send_effect in S. destruct S as (_ & _ & full & uri & away & CP & DA & -> & (T0 & T1 & _)).
  apply send_packet_inv in E. destruct E as (_ & _ & _ & EV & ->). inversion EV; subst q.
  exists full, uri, away. cbn [c_app with_kv with_app a_nft].
  repeat split; auto. destruct away; exact T1.
Qed.

(** ** every delivered relay-free packet whose data decodes as NFT data is
    backed by a [UNftSend] on the chain named as its source *)
Theorem delivery_backed_by_nft_send n0 ops j p d :
  hist_ok n0 ops -> Forall no_raw_nft_send ops ->
  In (j, EDeliver p) (anrun_log n0 ops) -> p_relay p = [] -> dec_nft (p_data p) = Some d ->
  exists i q pre post now class id sender receiver dest relay contract ci c',
    step_at n0 ops pre (AUser i now (UNftSend class id sender receiver dest relay contract)) post
            i ci now (HUser (UNftSend class id sender receiver dest relay contract)) c' [ESend q] /\
    c_name ci = p_src p /\
    p_src q = p_src p /\ p_dst q = p_dst p /\ p_seq q = p_seq p /\ p_data q = p_data p /\
    nft_sent (with_now ci now) c' class id sender receiver dest relay contract q.
Proof.
  intros HO NR F RL D. pose proof HO as (I0 & _ & W & _).
  destruct (a_deliver_matched nft_escrow mt_escrow n0 ops I0 W j p F)
    as (cj & i & ci0 & q & Hj & Hi0 & PN & FS & K1 & K2 & K3 & K4).
  assert (PS : c_name ci0 = p_src p).
  { rewrite PN. unfold prover_name. rewrite RL. cbn [is_nil negb]. rewrite andb_false_r. reflexivity. }
  assert (D' : dec_nft (p_data q) = Some d) by (rewrite K4; exact D).
  destruct (own_commit_is_nft_send nft_escrow mt_escrow n0 ops i q d HO NR FS D') as
    (pre & post & now & class & id & sender & receiver & dest & relay & contract & ci & c' & ST).
  { exists ops, ci0. split; [exact Hi0|]. congruence. }
  exists i, q, pre, post, now, class, id, sender, receiver, dest, relay, contract, ci, c'.
  split; [exact ST|]. destruct ST as (_ & Hi & _ & X & _).
  split; [rewrite <- PS; eapply name_const; eassumption|].
  repeat split; auto. apply nft_send_step_facts. exact X.
Qed.

(** ** a refunded key was never credited: if chain i processed an error
    acknowledgement for the relay-free packet p addressed to chain j, no step of
    chain j ever was a successful receive of a packet with p's key *)
Theorem refunded_key_never_credited n0 ops i j cj p a pre o post cj0 now p' pf hh c' ev :
  hist_ok n0 ops -> nth_error (anrun n0 ops) j = Some cj ->
  In (i, EAppAck p a) (anrun_log n0 ops) -> p_relay p = [] -> p_dst p = c_name cj ->
  is_err_ack a = true ->
  step_at n0 ops pre o post j cj0 now (HOp (ORecv p' pf hh)) c' ev -> recv_ok_ev ev = true ->
  p_src p' = p_src p -> p_dst p' = p_dst p -> p_seq p' = p_seq p -> False.
Proof.
  intros HO Hj F RL D EA ST R S2 D2 K2.
  pose proof ST as (_ & _ & _ & X & _).
  destruct (recv_ok_events _ _ _ _ _ _ _ _ _ _ _ _ _ _ _ X R) as (_ & _ & FW).
  pose proof (step_in_log _ _ _ _ _ _ _ _ _ _ _ _ _ _ ST FW) as FL.
  eapply (a_refund_excludes_credit nft_escrow mt_escrow n0 ops i j cj p a p' ack_ok); eauto.
Qed.

(** ** escrow release across chains.  Whenever a step of chain i moves a token
    out of the escrow account's ownership, it is
    - a successful back-receive of a packet p that, if relay-free, is backed by a
      [UNftSend] on the chain named [p_src p] with the same key and data (the
      voucher was burned there if that send's direction test said "back"); or
    - the refund of a packet p that chain i's own earlier [UNftSend] committed
      with the same key and data, and whose key -- if p is relay-free -- was
      never successfully received on the destination. *)
Theorem escrow_release_cross n0 ops pre o post i ci now h c' ev class id :
  hist_ok n0 ops -> Forall no_raw_nft_send ops ->
  step_at n0 ops pre o post i ci now h c' ev -> not_setapp h -> no_escrow_sig h ->
  owner_of (nft_of ci) class id = Some escrow -> owner_of (nft_of c') class id <> Some escrow ->
  exists to, owner_of (nft_of c') class id = Some to /\ to <> escrow /\
    ((exists p pf hh d np,
        h = HOp (ORecv p pf hh) /\ dec_nft (p_data p) = Some d /\ nd_away d = false /\
        back_new_class_path (nd_class d) = Some np /\ class = voucher_class idHh np /\
        id = nd_id d /\ to = nd_receiver d /\
        (p_relay p = [] ->
         exists k q pre1 post1 now1 cl1 id1 sender receiver dest relay contract ck ck',
           step_at n0 ops pre1 (AUser k now1 (UNftSend cl1 id1 sender receiver dest relay contract)) post1
                   k ck now1 (HUser (UNftSend cl1 id1 sender receiver dest relay contract)) ck' [ESend q] /\
           c_name ck = p_src p /\ p_dst q = p_dst p /\ p_seq q = p_seq p /\ p_data q = p_data p /\
           nft_sent (with_now ck now1) ck' cl1 id1 sender receiver dest relay contract q)) \/
     (exists p ack pf hh d,
        h = HOp (OAck p ack pf hh) /\ is_err_ack ack = true /\ dec_nft (p_data p) = Some d /\
        nd_away d = true /\ class = voucher_class idHh (nd_class d) /\ id = nd_id d /\ to = nd_sender d /\
        (exists q pre1 post1 now1 cl1 id1 sender receiver dest relay contract ck ck',
           step_at n0 ops pre1 (AUser i now1 (UNftSend cl1 id1 sender receiver dest relay contract)) post1
                   i ck now1 (HUser (UNftSend cl1 id1 sender receiver dest relay contract)) ck' [ESend q] /\
           p_src q = p_src p /\ p_dst q = p_dst p /\ p_seq q = p_seq p /\ p_data q = p_data p /\
           nft_sent (with_now ck now1) ck' cl1 id1 sender receiver dest relay contract q) /\
        (p_relay p = [] ->
         forall j cj pre2 o2 post2 cj0 now2 p' pf2 hh2 cj' ev2,
           nth_error (anrun n0 ops) j = Some cj -> p_dst p = c_name cj ->
           step_at n0 ops pre2 o2 post2 j cj0 now2 (HOp (ORecv p' pf2 hh2)) cj' ev2 ->
           recv_ok_ev ev2 = true ->
           p_src p' = p_src p -> p_dst p' = p_dst p -> p_seq p' = p_seq p -> False))).
Proof.
  intros HO NR ST NS NE O0 O1. pose proof ST as (_ & _ & _ & X & _).
  assert (O0' : owner_of (nft_of (with_now ci now)) class id = Some escrow) by exact O0.
  destruct (escrow_release_step _ _ _ _ _ _ _ _ _ _ _ _ _ _ _ X NS NE O0' O1) as (to & O' & Nto & C).
  exists to. split; [exact O'|]. split; [exact Nto|].
  destruct C as [(p & pf & hh & d & np & -> & P & R & D & AW & BP & -> & -> & ->)|
                 (p & ack & pf & hh & d & -> & P & IE & R & D & AW & -> & -> & ->)].
  - left. exists p, pf, hh, d, np. repeat split; auto.
    intros RL. destruct (recv_ok_events _ _ _ _ _ _ _ _ _ _ _ _ _ _ _ X R) as (_ & FD & _).
    pose proof (step_in_log _ _ _ _ _ _ _ _ _ _ _ _ _ _ ST FD) as FL.
    destruct (delivery_backed_by_nft_send n0 ops i p d HO NR FL RL D) as
      (k & q & pre1 & post1 & now1 & cl1 & id1 & sender & receiver & dest & relay & contract & ck & ck' & ST1 & NM & _ & K2 & K3 & K4 & NSn).
    exists k, q, pre1, post1, now1, cl1, id1, sender, receiver, dest, relay, contract, ck, ck'. auto 10.
  - right. exists p, ack, pf, hh, d. repeat split; auto.
    + destruct (appack_events _ _ _ _ _ _ _ _ _ _ _ _ _ _ _ _ X R) as (_ & FA).
      pose proof (step_in_log _ _ _ _ _ _ _ _ _ _ _ _ _ _ ST FA) as FL.
      destruct (nft_refund_own_send nft_escrow mt_escrow n0 ops i p ack d HO NR FL D) as
        (q & pre1 & post1 & now1 & cl1 & id1 & sender & receiver & dest & relay & contract & ck & ck' & ST1 & K1 & K2 & K3 & K4).
      exists q, pre1, post1, now1, cl1, id1, sender, receiver, dest, relay, contract, ck, ck'.
      split; [exact ST1|]. split; [exact K1|]. split; [exact K2|]. split; [exact K3|]. split; [exact K4|].
      apply nft_send_step_facts. destruct ST1 as (_ & _ & _ & X1 & _). exact X1.
    + intros RL j cj pre2 o2 post2 cj0 now2 p' pf2 hh2 cj' ev2 Hj DN ST2 R2 S2 D2 K2.
      destruct (appack_events _ _ _ _ _ _ _ _ _ _ _ _ _ _ _ _ X R) as (_ & FA).
      pose proof (step_in_log _ _ _ _ _ _ _ _ _ _ _ _ _ _ ST FA) as FL.
      eapply (refunded_key_never_credited n0 ops i j cj p ack); eassumption.
Qed.

(** ** voucher creation across chains: a step of chain j that creates a voucher
    (a token of a "tibc-" class absent before; class invariant and good hop as
    in the per-chain theorem) is a successful away-receive of a packet p that, if
    relay-free, is backed by a [UNftSend] on the chain named [p_src p] with the
    same key and data, which locked (away) or burned (back) the sent token there *)
Theorem voucher_creation_cross n0 ops pre o post j cj now h c' ev class id :
  hist_ok n0 ops -> Forall no_raw_nft_send ops ->
  step_at n0 ops pre o post j cj now h c' ev -> not_setapp h -> no_escrow_sig h ->
  VInv nft_escrow (nft_of cj) -> is_voucher class = true ->
  token_at (nft_of cj) class id = None -> token_at (nft_of c') class id <> None ->
  (exists p pf hh d,
     h = HOp (ORecv p pf hh) /\ dec_nft (p_data p) = Some d /\ nd_away d = true /\ nd_id d = id /\
     class = voucher_class idHh (away_new_class_path NFT_PFX (p_src p) (p_dst p) (nd_class d)) /\
     (p_relay p = [] ->
      exists k q pre1 post1 now1 cl1 id1 sender receiver dest relay contract ck ck',
        step_at n0 ops pre1 (AUser k now1 (UNftSend cl1 id1 sender receiver dest relay contract)) post1
                k ck now1 (HUser (UNftSend cl1 id1 sender receiver dest relay contract)) ck' [ESend q] /\
        c_name ck = p_src p /\ p_dst q = p_dst p /\ p_seq q = p_seq p /\ p_data q = p_data p /\
        nft_sent (with_now ck now1) ck' cl1 id1 sender receiver dest relay contract q)) \/
  (exists owner uri, is_refund_back idHh dec_nft h ev class id owner uri).
Proof.
  intros HO NR ST NS NE V IV T0 T1. pose proof ST as (_ & _ & _ & X & _).
  assert (V' : VInv nft_escrow (nft_of (with_now cj now))) by exact V.
  assert (T0' : token_at (nft_of (with_now cj now)) class id = None) by exact T0.
  destruct (voucher_created_step _ _ _ _ _ _ _ _ _ _ _ _ _ _ _ X NS NE V' IV T0' T1) as (owner & uri & _ & C).
  destruct C as [(p & pf & hh & d & -> & P & R & D & AW & -> & -> & _)|C].
  - left. exists p, pf, hh, d. repeat split; auto.
    intros RL. destruct (recv_ok_events _ _ _ _ _ _ _ _ _ _ _ _ _ _ _ X R) as (_ & FD & _).
    pose proof (step_in_log _ _ _ _ _ _ _ _ _ _ _ _ _ _ ST FD) as FL.
    destruct (delivery_backed_by_nft_send n0 ops j p d HO NR FL RL D) as
      (k & q & pre1 & post1 & now1 & cl1 & id1 & sender & receiver & dest & relay & contract & ck & ck' & ST1 & NM & _ & K2 & K3 & K4 & NSn).
    exists k, q, pre1, post1, now1, cl1, id1, sender, receiver, dest, relay, contract, ck, ck'. auto 10.
  - right. exists owner, uri. exact C.
Qed.

End Cross2.
