(** The network theorems (C01 authenticity of receives, C03 authenticity of
    acknowledgements, C02 at-most-once delivery) for histories of the
    APPLICATION network, i.e. histories that contain user transactions of the
    token modules, by the simulation of Net/AppNetSim.v. *)
From Tibc Require Import Base.Bytes Base.BytesFacts Base.FMap Host.Keys Host.KeysFacts
  Routing.Rules Packet.Types Packet.Keeper Packet.U64 Packet.KeyEq Packet.KeeperFacts
  Packet.Invariants Net.Net Net.Explained Net.NetInv
  Apps.Path Apps.Nft Apps.Mt Apps.App Harness.AppNet Net.AppNetSim.
From Coq Require Import ZArith ZifyN ZifyNat ZifyBool.

(** * at-most-once delivery on every chain of a generic network *)
Section NetOnce.
Variable A : Type.
Variable H : bytes -> bytes.
Variable has_route : bytes -> bool.
Variable on_recv : A -> packet -> option (A * option bytes).
Variable on_ack : A -> packet -> bytes -> option A.

Notation chain := (chain A).
Notation net := (net A).
Notation nstep := (nstep A H has_route on_recv on_ack).
Notation nrun := (nrun A H has_route on_recv on_ack).
Notation nrun_log := (nrun_log A H has_route on_recv on_ack).
Notation step := (step A H has_route on_recv on_ack).

Lemma resolve_ok (n : net) o i now o' :
  nop_ok o -> resolve A n o = Some (i, now, o') -> op_wf o' /\ nop_chain o = i.
Proof.
  intros OK RS. destruct o as [i0 now0 o0|i0 j now0 h t per|i0 j now0 h t]; cbn [resolve] in RS.
  - inversion RS; subst. split; [apply OK|reflexivity].
  - destruct (nth_error n j); inversion RS; subst. split; [exact I|reflexivity].
  - destruct (nth_error n j); inversion RS; subst. split; [exact I|reflexivity].
Qed.

(** a per-chain invariant [P c log] that ignores the block time and is kept by
    every single-chain step is kept by every network step *)
Section Lift.
Variable P : chain -> list event -> Prop.
Hypothesis P_now : forall c t log, P c log -> P (with_now A c t) log.
Hypothesis P_step : forall c o log, op_wf o -> P c log ->
  P (fst (step c o)) (log ++ match snd (step c o) with Some ev => ev | None => [] end).

Definition NP (n : net) (nl : nlog) : Prop :=
  forall j cj, nth_error n j = Some cj -> P cj (log_of j nl).

Lemma nstep_NP n nl o :
  nop_ok o -> NP n nl -> NP (fst (nstep n o)) (nl ++ tag (nop_chain o) (snd (nstep n o))).
Proof.
  intros OK I. unfold Net.nstep.
  destruct (resolve A n o) as [[[i now] o']|] eqn:RS; cbn [fst snd];
    [|cbn; rewrite app_nil_r; exact I].
  destruct (resolve_ok n o i now o' OK RS) as [W IC]. rewrite IC.
  destruct (nth_error n i) as [ci|] eqn:Hi; cbn [fst snd]; [|cbn; rewrite app_nil_r; exact I].
  pose proof (P_step (with_now A ci now) o' (log_of i nl) W (P_now _ now _ (I i ci Hi))) as S.
  destruct (step (with_now A ci now) o') as [ci' r]. cbn [fst snd] in *.
  intros j cj Hj. rewrite log_of_app. destruct (Nat.eq_dec i j) as [<-|Hn].
  - rewrite (nth_error_upd_nth_eq _ _ _ _ Hi) in Hj. inversion Hj; subst cj.
    rewrite log_of_tag_same. exact S.
  - rewrite nth_error_upd_nth_neq in Hj by exact Hn. rewrite log_of_tag_other by exact Hn.
    rewrite app_nil_r. exact (I j cj Hj).
Qed.

Lemma nrun_NP ops : forall n nl,
  Forall nop_ok ops -> NP n nl -> NP (nrun n ops) (nl ++ nrun_log n ops).
Proof.
  induction ops as [|o r IH]; intros n nl W I.
  - cbn. rewrite app_nil_r. exact I.
  - inversion W as [|? ? Wo Wr]; subst. pose proof (nstep_NP n nl o Wo I) as S.
    rewrite nrun_cons. cbn [NetInv.nrun_log].
    destruct (nstep n o) as [n' res]. cbn [fst snd] in *. rewrite app_assoc. apply IH; assumption.
Qed.
End Lift.

(** C02 on networks: on every chain of every network history, the application
    processes each (source, destination, sequence) at most once *)
Theorem net_deliver_at_most_once n0 ops j cj s d k :
  Forall nop_ok ops -> wfk s d k ->
  nth_error (nrun n0 ops) j = Some cj ->
  (ndeliver s d k (log_of j (nrun_log n0 ops)) <= 1)%nat.
Proof.
  intros W K Hj.
  assert (I : NP (InvD A) (nrun n0 ops) ([] ++ nrun_log n0 ops)).
  { apply nrun_NP.
    - intros c t log X. exact X.
    - intros c o log Wo X. apply (step_InvD A H has_route on_recv on_ack); assumption.
    - exact W.
    - intros i ci _. apply InvD_init; assumption. }
  cbn [app] in I. apply (I j cj Hj s d k K).
Qed.

End NetOnce.

(** * the application network *)
Section AppFacts.
Variable nft_escrow mt_escrow : bytes.

Notation a_on_recv := (a_on_recv nft_escrow mt_escrow).
Notation a_on_ack := (a_on_ack nft_escrow mt_escrow).
Notation anrun := (anrun nft_escrow mt_escrow).
Notation anrun_log := (anrun_log nft_escrow mt_escrow).
Notation expand_all := (expand_all nft_escrow mt_escrow).

Lemma idH_inj : forall x y, idH x = idH y -> x = y.
Proof. intros x y E. exact E. Qed.

(** the network invariant of Net/NetInv.v holds in every state of every
    application-network history *)
Theorem a_NI n0 ops :
  net_init app_state n0 -> Forall anop_ok ops ->
  NI app_state idH (anrun n0 ops) (anrun_log n0 ops).
Proof.
  intros I0 W. destruct (anrun_sim nft_escrow mt_escrow ops n0) as [S1 S2]. rewrite S1, S2.
  apply (nrun_NI app_state idH a_has_route a_on_recv a_on_ack (expand_all n0 ops) n0 []).
  - apply expand_all_ok_init; assumption.
  - apply NI_init. exact I0.
Qed.

(** C01 with user transactions *)
Theorem a_recv_authentic n0 ops i ci now p pf h c' ev :
  net_init app_state n0 -> Forall anop_ok ops -> wfp p ->
  nth_error (anrun n0 ops) i = Some ci ->
  msg_recv app_state idH a_has_route a_on_recv (with_now app_state ci now) p pf h = Some (c', ev) ->
  exists j cj p',
    nth_error (anrun n0 ops) j = Some cj /\
    c_name app_state cj = prover_name app_state ci p /\
    In (ESend p') (log_of j (anrun_log n0 ops)) /\
    p_src p' = p_src p /\ p_dst p' = p_dst p /\ p_seq p' = p_seq p /\ p_data p' = p_data p.
Proof.
  intros I0 W Wp Hi E.
  eapply (recv_authentic_state app_state idH a_has_route a_on_recv); eauto.
  apply a_NI; assumption.
Qed.

(** C03 (authenticity) with user transactions *)
Theorem a_ack_authentic n0 ops i ci now p a pf h c' ev :
  net_init app_state n0 -> Forall anop_ok ops -> wfp p ->
  nth_error (anrun n0 ops) i = Some ci ->
  msg_ack app_state idH a_has_route a_on_ack (with_now app_state ci now) p a pf h = Some (c', ev) ->
  exists j cj p' a',
    nth_error (anrun n0 ops) j = Some cj /\
    c_name app_state cj = ack_prover_name app_state ci p /\
    In (EWriteAck p' a') (log_of j (anrun_log n0 ops)) /\
    p_src p' = p_src p /\ p_dst p' = p_dst p /\ p_seq p' = p_seq p /\ a' = a.
Proof.
  intros I0 W Wp Hi E.
  destruct (anrun_sim nft_escrow mt_escrow ops n0) as [S1 S2]. rewrite S1 in Hi. rewrite S1, S2.
  eapply (ack_authentic app_state idH a_has_route a_on_recv a_on_ack idH_inj); eauto.
  apply expand_all_ok_init; assumption.
Qed.

(** C02 with user transactions: on every chain of every application-network
    history each (source, destination, sequence) is delivered at most once *)
Theorem a_deliver_at_most_once n0 ops j cj s d k :
  net_init app_state n0 -> Forall anop_ok ops -> wfk s d k ->
  nth_error (anrun n0 ops) j = Some cj ->
  (ndeliver s d k (log_of j (anrun_log n0 ops)) <= 1)%nat.
Proof.
  intros I0 W K Hj.
  destruct (anrun_sim nft_escrow mt_escrow ops n0) as [S1 S2]. rewrite S1 in Hj. rewrite S2.
  eapply net_deliver_at_most_once; [|exact K|exact Hj].
  apply expand_all_ok_init; assumption.
Qed.

End AppFacts.
