(** No chain holds a light client under its own name ([NoSelf]) -- as a network
    invariant, under the premises: chain names pairwise different, no
    [NCreate i i], no [OCreateClient] naming the chain itself.  Consequence on
    every chain: an acknowledgement for a packet addressed to the chain itself is
    written only together with the delivery of that packet, hence at most once per
    (source, destination, sequence): an error acknowledgement and a success
    acknowledgement for the same key exclude each other. *)
From Tibc Require Import Base.Bytes Base.BytesFacts Base.FMap Host.Keys Host.KeysFacts
  Routing.Rules Packet.Types Packet.Keeper Packet.U64 Packet.KeyEq Packet.KeeperFacts
  Packet.Invariants Packet.AckOnce Net.Net Net.Explained Net.NetInv
  Apps.Path Apps.Nft Apps.Mt Apps.MtFacts Apps.App Apps.AppFacts
  Harness.AppNet Net.AppNetSim Net.AppNetFacts Net.AppNetConserve.
From Tibc Require Import Properties.Example.
From Coq Require Import ZArith ZifyN ZifyNat ZifyBool.

Section ListFacts3.
Context {X Y : Type}.
Lemma map_upd_nth_same (f : X -> Y) (l : list X) i x y :
  nth_error l i = Some y -> f x = f y -> map f (upd_nth l i x) = map f l.
Proof.
  revert i. induction l as [|z l IH]; intros [|i] E F; cbn in *; try discriminate.
  - inversion E; subst. rewrite F. reflexivity.
  - rewrite (IH i E F). reflexivity.
Qed.
Lemma length_le1_eq (l : list X) a b : (length l <= 1)%nat -> In a l -> In b l -> a = b.
Proof.
  destruct l as [|x [|y l]]; cbn; intros L Ha Hb; try lia; try contradiction.
  destruct Ha as [<-|[]]. destruct Hb as [<-|[]]. reflexivity.
Qed.
End ListFacts3.

Section NoSelfNet.
Variable A : Type.
Variable H : bytes -> bytes.
Variable has_route : bytes -> bool.
Variable on_recv : A -> packet -> option (A * option bytes).
Variable on_ack : A -> packet -> bytes -> option A.

Notation chain := (chain A).
Notation net := (net A).
Notation nstep := (nstep A H has_route on_recv on_ack).
Notation nrun := (nrun A H has_route on_recv on_ack).
Notation nrun_log := (nrun_log A H has_route on_recv on_ack).
Notation step := (step A H has_route on_recv on_ack).
Notation exec := (exec A H has_route on_recv on_ack).
Notation c_name := (c_name A).
Notation NoSelf := (NoSelf A).

Definition names (n : net) : list bytes := map c_name n.

(** decidable premise on operations, relative to the (constant) list of chain names *)
Definition nop_noself (nm : list bytes) (o : nop A) : bool :=
  match o with
  | NCreate i j _ _ _ _ => negb (Nat.eqb i j)
  | NChain i _ (OCreateClient name _) =>
      match nth_error nm i with Some x => negb (beq name x) | None => true end
  | _ => true
  end.

Definition NS (n : net) : Prop := forall i ci, nth_error n i = Some ci -> NoSelf ci.

Lemma nstep_names n o : names (fst (nstep n o)) = names n.
Proof.
  unfold Net.nstep. destruct (resolve A n o) as [[[i now] o']|]; cbn [fst]; [|reflexivity].
  destruct (nth_error n i) as [ci|] eqn:Hi; cbn [fst]; [|reflexivity].
  unfold Keeper.step. destruct (exec (with_now A ci now) o') as [[ci' ev]|] eqn:E; cbn [fst].
  - apply (map_upd_nth_same _ _ _ _ ci Hi).
    apply (exec_name A H has_route on_recv on_ack) in E. exact E.
  - apply (map_upd_nth_same _ _ _ _ ci Hi). reflexivity.
Qed.

Lemma nrun_names ops : forall n, names (nrun n ops) = names n.
Proof.
  induction ops as [|o r IH]; intros n; [reflexivity|]. rewrite nrun_cons, IH. apply nstep_names.
Qed.

Lemma names_nth n i ci : nth_error n i = Some ci -> nth_error (names n) i = Some (c_name ci).
Proof. intros E. unfold names. apply map_nth_error. exact E. Qed.

Lemma nstep_NS n o :
  NoDup (names n) -> nop_noself (names n) o = true -> NS n -> NS (fst (nstep n o)).
Proof.
  intros ND OK S. unfold Net.nstep.
  destruct (resolve A n o) as [[[i now] o']|] eqn:RS; cbn [fst]; [|exact S].
  destruct (nth_error n i) as [ci|] eqn:Hi; cbn [fst]; [|exact S].
  assert (NO : op_noself A (c_name ci) o').
  { destruct o as [i0 now0 o0|i0 j now0 h t per|i0 j now0 h t]; cbn [resolve] in RS.
    - inversion RS; subst i0 now0 o0. destruct o'; try exact I. cbn [op_noself].
      cbn [nop_noself] in OK. rewrite (names_nth n i ci Hi) in OK.
      intros X. subst name. rewrite beq_refl in OK. discriminate.
    - destruct (nth_error n j) as [cj|] eqn:Hj; [|discriminate]. inversion RS; subst i0 now0 o'.
      cbn [op_noself]. cbn [nop_noself] in OK. intros X.
      assert (i = j).
      { apply (proj1 (NoDup_nth_error (names n)) ND).
        - apply nth_error_Some. rewrite (names_nth n i ci Hi). discriminate.
        - rewrite (names_nth n i ci Hi), (names_nth n j cj Hj), X. reflexivity. }
      subst j. rewrite Nat.eqb_refl in OK. discriminate.
    - destruct (nth_error n j); inversion RS; subst. exact I. }
  unfold Keeper.step. destruct (exec (with_now A ci now) o') as [[ci' ev]|] eqn:E; cbn [fst];
    intros k ck Hk; (destruct (Nat.eq_dec i k) as [<-|Hn];
      [rewrite (nth_error_upd_nth_eq _ _ _ _ Hi) in Hk; inversion Hk; subst ck
      |rewrite nth_error_upd_nth_neq in Hk by exact Hn; exact (S k ck Hk)]).
  - apply (exec_clients_self A H has_route on_recv on_ack (with_now A ci now) o' ci' ev NO (S i ci Hi) E).
  - exact (S i ci Hi).
Qed.

Lemma nrun_NS ops : forall n,
  NoDup (names n) -> Forall (fun o => nop_noself (names n) o = true) ops -> NS n -> NS (nrun n ops).
Proof.
  induction ops as [|o r IH]; intros n ND W S; [exact S|].
  inversion W as [|? ? Wo Wr]; subst. rewrite nrun_cons. apply IH.
  - rewrite nstep_names. exact ND.
  - rewrite nstep_names. exact Wr.
  - apply nstep_NS; assumption.
Qed.

Lemma net_init_NS n : net_init A n -> NS n.
Proof. intros I i ci Hi. destruct (I i ci Hi) as [_ E]. unfold AckOnce.NoSelf. rewrite E. reflexivity. Qed.

(** ** lifting a per-chain invariant whose preservation needs [NoSelf] *)
Section Lift2.
Variable P : chain -> list event -> Prop.
Hypothesis P_now : forall c t log, P c log -> P (with_now A c t) log.
Hypothesis P_exec : forall c o c' ev log,
  op_wf o -> NoSelf c -> exec c o = Some (c', ev) -> P c log -> P c' (log ++ ev).

Lemma nstep_NP2 n nl o :
  nop_ok o -> NS n -> NP A P n nl ->
  NP A P (fst (nstep n o)) (nl ++ tag (nop_chain o) (snd (nstep n o))).
Proof.
  intros OK S I. unfold Net.nstep.
  destruct (resolve A n o) as [[[i now] o']|] eqn:RS; cbn [fst snd];
    [|cbn; rewrite app_nil_r; exact I].
  destruct (resolve_ok A n o i now o' OK RS) as [W IC]. rewrite IC.
  destruct (nth_error n i) as [ci|] eqn:Hi; cbn [fst snd]; [|cbn; rewrite app_nil_r; exact I].
  unfold Keeper.step. destruct (exec (with_now A ci now) o') as [[ci' ev]|] eqn:E; cbn [fst snd];
    intros j cj Hj; rewrite log_of_app;
    (destruct (Nat.eq_dec i j) as [<-|Hn];
      [rewrite (nth_error_upd_nth_eq _ _ _ _ Hi) in Hj; inversion Hj; subst cj; rewrite log_of_tag_same
      |rewrite nth_error_upd_nth_neq in Hj by exact Hn; rewrite log_of_tag_other by exact Hn;
       rewrite app_nil_r; exact (I j cj Hj)]).
  - eapply P_exec; [exact W| |exact E|apply P_now; exact (I i ci Hi)]. exact (S i ci Hi).
  - rewrite app_nil_r. apply P_now. exact (I i ci Hi).
Qed.

Lemma nrun_NP2 ops : forall n nl,
  NoDup (names n) -> Forall nop_ok ops -> Forall (fun o => nop_noself (names n) o = true) ops ->
  NS n -> NP A P n nl -> NP A P (nrun n ops) (nl ++ nrun_log n ops).
Proof.
  induction ops as [|o r IH]; intros n nl ND W W2 S I.
  - cbn. rewrite app_nil_r. exact I.
  - inversion W as [|? ? Wo Wr]; subst. inversion W2 as [|? ? Wo2 Wr2]; subst.
    pose proof (nstep_NP2 n nl o Wo S I) as I'.
    pose proof (nstep_NS n o ND Wo2 S) as S'.
    pose proof (nstep_names n o) as NM.
    rewrite nrun_cons. cbn [NetInv.nrun_log].
    destruct (nstep n o) as [n' res]. cbn [fst snd] in *. rewrite app_assoc.
    apply IH; try assumption; rewrite NM; assumption.
Qed.
End Lift2.

(** ** acknowledgements for packets addressed to the chain itself *)
Definition wack_for (s d : bytes) (n : N) (e : event) : bool :=
  match e with
  | EWriteAck p _ => beq (p_src p) s && beq (p_dst p) d && N.eqb (p_seq p) n
  | _ => false
  end.
Definition nwack (s d : bytes) (n : N) (log : list event) : nat := length (filter (wack_for s d n) log).

Lemma nwack_app s d n l1 l2 : nwack s d n (l1 ++ l2) = (nwack s d n l1 + nwack s d n l2)%nat.
Proof. unfold nwack. rewrite filter_app, app_length. reflexivity. Qed.

(** the events of a successful operation on a chain without a client of itself:
    either they end in the delivery of p immediately followed by p's
    acknowledgement (and nothing else is a delivery or an acknowledgement), or no
    acknowledgement for a packet addressed to this chain is written *)
Definition ev_paired (ev : list event) : Prop :=
  exists evr p a, ev = evr ++ [EDeliver p; EWriteAck p a] /\
                  forall e, In e evr -> e = ERecv p \/ e = ESend p.
Definition ev_no_own_wack (nm : bytes) (ev : list event) : Prop :=
  forall p a, In (EWriteAck p a) ev -> p_dst p <> nm.

Ltac no_wack :=
  let q := fresh "q" in let b := fresh "b" in let F := fresh "F" in
  right; intros q b F; cbn in F; repeat (destruct F as [F|F]; [discriminate F|]); contradiction.

Lemma exec_wack_shape c o c' ev :
  NoSelf c -> exec c o = Some (c', ev) -> ev_paired ev \/ ev_no_own_wack (c_name c) ev.
Proof.
  intros NSf E.
  destruct o as [p|p pf h|p a pf h|cp|cp pf h|nm cl|nm h sn t|rs|dt|ap]; cbn [Keeper.exec] in E.
  - apply send_packet_inv in E. destruct E as (_ & _ & _ & -> & _). no_wack.
  - unfold msg_recv in E. destruct (N.eqb h 0); [discriminate|].
    pose proof (recv_packet_inv A H c p pf h) as R1.
    pose proof (recv_packet_inv2 A H c p pf h) as [R RV].
    destruct (recv_packet A H c p pf h) as [|c1 ev1|c1 ev1]; [discriminate| |].
    + (* unauthorised at a relay chain *)
      destruct R as (-> & -> & RL & _). destruct R1 as (V & _).
      destruct (write_ack A H _ p unauth_ack) as [[c2 ev2]|] eqn:WA; [|discriminate].
      apply write_ack_inv in WA. destruct WA as (_ & _ & -> & _). inversion E; subst c' ev. clear E.
      right. intros q b F Dq. cbn in F. destruct F as [F|[F|[]]]; [discriminate F|]. inversion F; subst q b.
      destruct RV as (cl & CL & _); [discriminate|].
      rewrite Dq, beq_refl in CL. cbn [andb] in CL.
      destruct (p_relay p) as [|x r] eqn:PR.
      * unfold validate_basic in V. rewrite !andb_true_iff in V. destruct V as [[_ Vd] _].
        rewrite Dq, <- RL in Vd. vm_compute in Vd. discriminate.
      * cbn [is_nil negb] in CL. rewrite RL in CL. unfold AckOnce.NoSelf in NSf. congruence.
    + assert (NM : Keeper.c_name A c1 = c_name c).
      { destruct R as [(-> & _)|(-> & _)]; reflexivity. }
      assert (EV1 : ev1 = [ERecv p] \/ ev1 = [ERecv p; ESend p]).
      { destruct R as [(_ & -> & _)|(_ & -> & _)]; auto. }
      rewrite NM in E. destruct (beq (p_dst p) (c_name c)).
      * destruct (has_route (p_port p)); [|discriminate]. cbn [negb] in E.
        destruct (on_recv (c_app A c1) p) as [[a' [ack|]]|]; [| |discriminate].
        -- destruct (write_ack A H _ p ack) as [[c3 ev3]|] eqn:WA; [|discriminate].
           apply write_ack_inv in WA. destruct WA as (_ & _ & -> & _). inversion E; subst c' ev. clear E.
           left. exists ev1, p, ack. split; [reflexivity|].
           intros e Fe. destruct EV1 as [-> | ->]; cbn in Fe.
           ++ destruct Fe as [<-|[]]. auto.
           ++ destruct Fe as [<-|[<-|[]]]; auto.
        -- inversion E; subst c' ev. clear E. destruct EV1 as [-> | ->]; no_wack.
      * inversion E; subst c' ev. clear E. destruct EV1 as [-> | ->]; no_wack.
  - apply msg_ack_inv in E. destruct E as (_ & c1 & ev1 & AP & _ & _ & _ & _ & _ & Ev).
    apply ack_packet_inv in AP. destruct AP as (_ & _ & _ & (from & cl & CL & _ & FR & _) & _ & _ & Ev1 & _).
    right. intros q b F Dq.
    assert (F1 : In (EWriteAck q b) ev1).
    { destruct Ev as [(-> & _)|(-> & _)]; [exact F|].
      apply in_app_or in F. destruct F as [F|[F|[]]]; [exact F|discriminate F]. }
    destruct Ev1 as [->|[-> RL]]; cbn in F1.
    + destruct F1 as [F1|[]]. discriminate F1.
    + destruct F1 as [F1|[F1|[]]]; [discriminate F1|]. inversion F1; subst q b.
      assert (from = c_name c).
      { rewrite FR. destruct (beq (p_src p) (c_name c) && negb (is_nil (p_relay p))); [exact RL|exact Dq]. }
      subst from. unfold AckOnce.NoSelf in NSf. congruence.
  - apply clean_packet_inv in E. destruct E as (_ & _ & -> & _). no_wack.
  - destruct (N.eqb h 0); [discriminate|].
    apply recv_clean_inv in E. destruct E as (_ & _ & _ & [->| ->] & _); no_wack.
  - destruct (create_client A c nm cl); [|discriminate]. inversion E; subst. no_wack.
  - destruct (update_client A c nm h sn t); [|discriminate]. inversion E; subst. no_wack.
  - destruct (set_rules rs); [|discriminate]. inversion E; subst. no_wack.
  - inversion E; subst. no_wack.
  - inversion E; subst. no_wack.
Qed.

Definition Qw (c : chain) (log : list event) : Prop :=
  (forall s n, (nwack s (c_name c) n log <= ndeliver s (c_name c) n log)%nat) /\
  (forall p a, In (EWriteAck p a) log -> p_dst p = c_name c -> In (EDeliver p) log).

Lemma filter_nil_if {X} (f : X -> bool) l : (forall x, In x l -> f x = false) -> filter f l = [].
Proof.
  induction l as [|x l IH]; intros F; [reflexivity|]. cbn. rewrite (F x) by (left; reflexivity).
  apply IH. intros y Hy. apply F. right. exact Hy.
Qed.

Lemma ev_Qw nm ev :
  ev_paired ev \/ ev_no_own_wack nm ev ->
  (forall s n, (nwack s nm n ev <= ndeliver s nm n ev)%nat) /\
  (forall p a, In (EWriteAck p a) ev -> p_dst p = nm -> In (EDeliver p) ev).
Proof.
  intros [(evr & p & a & -> & R)|NW].
  - split.
    + intros s n. rewrite nwack_app, ndeliver_app. unfold nwack, ndeliver.
      assert (Z1 : filter (wack_for s nm n) evr = []).
      { apply filter_nil_if. intros e Fe. destruct (R e Fe) as [-> | ->]; reflexivity. }
      rewrite Z1. cbn [length filter wack_for deliver_for].
      destruct (beq (p_src p) s && beq (p_dst p) nm && N.eqb (p_seq p) n); cbn; lia.
    + intros q b F _. apply in_app_or in F. destruct F as [F|F].
      * destruct (R _ F) as [X|X]; discriminate X.
      * destruct F as [F|[F|[]]]; [discriminate F|]. inversion F; subst.
        apply in_or_app. right. left. reflexivity.
  - split.
    + intros s n. unfold nwack. rewrite filter_nil_if; [cbn; lia|].
      intros e Fe. destruct e; try reflexivity. cbn [wack_for].
      destruct (beq (p_dst p) nm) eqn:B; [|rewrite andb_false_r; reflexivity].
      apply beq_spec in B. exfalso. exact (NW p a Fe B).
    + intros q b F D. exfalso. exact (NW q b F D).
Qed.

Lemma exec_Qw c o c' ev log :
  op_wf o -> NoSelf c -> exec c o = Some (c', ev) -> Qw c log -> Qw c' (log ++ ev).
Proof.
  intros _ NSf E [Q1 Q2].
  pose proof (exec_name A H has_route on_recv on_ack _ _ _ _ E) as NM.
  destruct (ev_Qw (c_name c) ev (exec_wack_shape c o c' ev NSf E)) as [E1 E2].
  unfold Qw. rewrite NM. split.
  - intros s n. rewrite nwack_app, ndeliver_app. specialize (Q1 s n). specialize (E1 s n). lia.
  - intros p a F D. apply in_app_or in F. apply in_or_app. destruct F as [F|F]; [left; exact (Q2 p a F D) | right; exact (E2 p a F D)].
Qed.

(** on a chain of a network history, two acknowledgements written for the same
    key addressed to the chain carry the same bytes (and packet) *)
Theorem net_own_ack_unique n0 ops j cj s k p a p' a' :
  net_init A n0 -> NoDup (names n0) ->
  Forall nop_ok ops -> Forall (fun o => nop_noself (names n0) o = true) ops ->
  nth_error (nrun n0 ops) j = Some cj -> wfk s (c_name cj) k ->
  In (EWriteAck p a) (log_of j (nrun_log n0 ops)) ->
  In (EWriteAck p' a') (log_of j (nrun_log n0 ops)) ->
  p_src p = s -> p_dst p = c_name cj -> p_seq p = k ->
  p_src p' = s -> p_dst p' = c_name cj -> p_seq p' = k ->
  p = p' /\ a = a' /\ In (EDeliver p) (log_of j (nrun_log n0 ops)).
Proof.
  intros I0 ND W W2 Hj K F F' S1 D1 K1 S2 D2 K2.
  assert (IQ : NP A Qw (nrun n0 ops) ([] ++ nrun_log n0 ops)).
  { apply nrun_NP2; try assumption.
    - intros c t log X. exact X.
    - exact exec_Qw.
    - apply net_init_NS. exact I0.
    - intros i ci _. split; [intros; cbn; lia|intros ? ? []]. }
  pose proof (net_deliver_at_most_once A H has_route on_recv on_ack n0 ops j cj s (c_name cj) k W K Hj) as D.
  cbn [app] in IQ. destruct (IQ j cj Hj) as [Q1 Q2]. specialize (Q1 s k).
  assert (L : (length (filter (wack_for s (c_name cj) k) (log_of j (nrun_log n0 ops))) <= 1)%nat)
    by (unfold nwack in Q1; lia).
  assert (X : EWriteAck p a = EWriteAck p' a').
  { apply (length_le1_eq _ _ _ L); apply filter_In; split; try assumption; cbn [wack_for].
    - rewrite S1, D1, K1, !beq_refl, N.eqb_refl. reflexivity.
    - rewrite S2, D2, K2, !beq_refl, N.eqb_refl. reflexivity. }
  inversion X; subst. split; [reflexivity|]. split; [reflexivity|]. eapply Q2; eassumption.
Qed.

End NoSelfNet.

(** * the premise is necessary: a chain holding a light client under its own
    name (here with a forged snapshot) first delivers a packet addressed to itself
    "relayed by itself" and acknowledges it, then accepts an acknowledgement for it
    "from itself" and overwrites the recorded acknowledgement with an error
    acknowledgement: two different acknowledgements written for one key *)
Definition ns_p := mkPacket 1 nameA nameB nameB mock_port (of_string "x").
Definition ns_err := of_string "error:forged".
Definition ns_snap : fmap bytes := [(commit_key nameA nameB 1, of_string "x"); (ack_key nameA nameB 1, ns_err)].
Definition ns_clSelf := mkClient [(hkey 5, (ns_snap, 100))] 5 1000.
Definition ns_chain := mkChain unit nameB [] [(nameB, ns_clSelf); (nameA, clA)] (Some [of_string "*,*,*"]) 200 tt.

Example noself_needed :
  NoSelf unit ns_chain -> False.
Proof. unfold NoSelf. vm_compute. discriminate. Qed.

Example noself_needed_two_acks :
  mrun_log ns_chain [ORecv ns_p (PGenuine nameB (commit_key nameA nameB 1)) 5;
                     OAck ns_p ns_err (PGenuine nameB (ack_key nameA nameB 1)) 5] =
  [ERecv ns_p; ESend ns_p; EDeliver ns_p; EWriteAck ns_p mock_ack; EAck ns_p ns_err; EWriteAck ns_p ns_err].
Proof. vm_compute. reflexivity. Qed.

(** * the application network *)
Section AppNoSelf.
Variable nft_escrow mt_escrow : bytes.

Notation a_on_recv := (a_on_recv nft_escrow mt_escrow).
Notation a_on_ack := (a_on_ack nft_escrow mt_escrow).
Notation anrun := (anrun nft_escrow mt_escrow).
Notation anrun_log := (anrun_log nft_escrow mt_escrow).
Notation expand := (expand nft_escrow mt_escrow).
Notation expand_all := (expand_all nft_escrow mt_escrow).
Notation anstep := (anstep nft_escrow mt_escrow).

Definition anop_noself (nm : list bytes) (o : anop) : bool :=
  match o with ANet o' => nop_noself app_state nm o' | AUser _ _ _ => true end.

Lemma expand_noself nm n o :
  anop_noself nm o = true -> Forall (fun o => nop_noself app_state nm o = true) (expand n o).
Proof.
  intros OK. destruct o as [o'|i now u]; cbn [AppNetSim.expand].
  - constructor; [exact OK|constructor].
  - destruct (nth_error n i) as [ci|]; [|constructor].
    unfold user_ops.
    destruct (a_user nft_escrow mt_escrow (with_now app_state ci now) u) as [[c' [|[p| | | | | | |] ev]]|];
      cbn [map]; repeat constructor.
Qed.

Lemma expand_all_noself nm ops : forall n,
  Forall (fun o => anop_noself nm o = true) ops ->
  Forall (fun o => nop_noself app_state nm o = true) (expand_all n ops).
Proof.
  induction ops as [|o r IH]; intros n W; [constructor|].
  inversion W as [|? ? Wo Wr]; subst. cbn [AppNetSim.expand_all]. apply Forall_app. split.
  - apply expand_noself. exact Wo.
  - apply IH. exact Wr.
Qed.

(** premises on an application-network history, collected *)
Definition hist_ok (n0 : anet) (ops : list anop) : Prop :=
  net_init app_state n0 /\ NoDup (names app_state n0) /\
  Forall anop_ok ops /\ Forall (fun o => anop_noself (names app_state n0) o = true) ops.

(** NoSelf in every state of every application-network history *)
Theorem a_NoSelf n0 ops i ci :
  hist_ok n0 ops -> nth_error (anrun n0 ops) i = Some ci -> NoSelf app_state ci.
Proof.
  intros (I0 & ND & W & W2) Hi.
  destruct (anrun_sim nft_escrow mt_escrow ops n0) as [S1 _]. rewrite S1 in Hi.
  eapply (nrun_NS app_state idH a_has_route a_on_recv a_on_ack); [exact ND| | |exact Hi].
  - apply expand_all_noself. exact W2.
  - apply net_init_NS. exact I0.
Qed.

Lemma a_names n0 ops : names app_state (anrun n0 ops) = names app_state n0.
Proof.
  destruct (anrun_sim nft_escrow mt_escrow ops n0) as [S1 _]. rewrite S1. apply nrun_names.
Qed.

(** at most one acknowledgement per key on the destination, written with the delivery *)
Theorem a_own_ack_unique n0 ops j cj s k p a p' a' :
  hist_ok n0 ops ->
  nth_error (anrun n0 ops) j = Some cj -> wfk s (c_name app_state cj) k ->
  In (EWriteAck p a) (log_of j (anrun_log n0 ops)) ->
  In (EWriteAck p' a') (log_of j (anrun_log n0 ops)) ->
  p_src p = s -> p_dst p = c_name app_state cj -> p_seq p = k ->
  p_src p' = s -> p_dst p' = c_name app_state cj -> p_seq p' = k ->
  p = p' /\ a = a' /\ In (EDeliver p) (log_of j (anrun_log n0 ops)).
Proof.
  intros (I0 & ND & W & W2) Hj.
  destruct (anrun_sim nft_escrow mt_escrow ops n0) as [S1 S2]. rewrite S1 in Hj. rewrite S2.
  apply (net_own_ack_unique app_state idH a_has_route a_on_recv a_on_ack n0 _ j cj s k p a p' a');
    try assumption.
  - apply expand_all_ok_init; assumption.
  - apply expand_all_noself. exact W2.
Qed.

Lemma err_not_ok a : is_err_ack a = true -> is_ok_ack a = false.
Proof.
  unfold is_err_ack, is_ok_ack. destruct a as [|x a]; [reflexivity|].
  assert (E1 : of_string "error:" = [101;114;114;111;114;58]) by (vm_compute; reflexivity).
  assert (E2 : of_string "result:" = [114;101;115;117;108;116;58]) by (vm_compute; reflexivity).
  rewrite E1, E2. cbn [has_prefix].
  destruct (N.eqb_spec 101 x) as [<-|NE]; cbn [andb]; [intros _; reflexivity | intros X; discriminate X].
Qed.

(** (b) EXCLUSION: an error acknowledgement written on j for a key addressed to
    j excludes a success acknowledgement for that key on j *)
Theorem a_err_excludes_ok n0 ops j cj p a p' a' :
  hist_ok n0 ops ->
  nth_error (anrun n0 ops) j = Some cj -> wfp p ->
  In (EWriteAck p a) (log_of j (anrun_log n0 ops)) ->
  In (EWriteAck p' a') (log_of j (anrun_log n0 ops)) ->
  p_dst p = c_name app_state cj ->
  p_src p' = p_src p -> p_dst p' = p_dst p -> p_seq p' = p_seq p ->
  noslash (p_src p) -> noslash (p_dst p) ->
  is_err_ack a = true -> is_ok_ack a' = true -> False.
Proof.
  intros HK Hj Wp F F' D S2 D2 K2 N1 N2 EA OA.
  destruct (a_own_ack_unique n0 ops j cj (p_src p) (p_seq p) p a p' a' HK Hj) as (_ & X & _);
    try assumption; try reflexivity; try congruence.
  - rewrite <- D. repeat split; assumption.
  - subst a'. rewrite (err_not_ok a EA) in OA. discriminate.
Qed.

End AppNoSelf.
