(** C04 single holder, building blocks:
    (c) injectivity of the class-path construction for '/'-free parts,
    (b) the trace-store invariant (every entry stems from an away-receive) and
        the class invariant (every class is '/'-free or a "tibc-" voucher class),
        as history invariants,
    and the exact form of voucher creation: under these facts the voucher
    (v, id), v the voucher class of the native class cl of chain I on chain J, is
    created on J only against chain I's own away-send of exactly (cl, id), which
    put (cl, id) into the escrow account on I. *)
From Tibc Require Import Base.Bytes Base.BytesFacts Base.FMap Host.Keys Host.KeysFacts Routing.Rules
  Packet.Types Packet.Keeper Packet.KeeperFacts Packet.KeyEq
  Net.Net Net.NetInv Apps.Path Apps.PathFacts Apps.Nft Apps.NftFacts Apps.Mt Apps.App
  Harness.AppNet Net.AppNetSim Net.AppNetNoSelf
  Apps.NftHistory Apps.NftHistoryThm Apps.NftEscrow Net.NftCrossChain Net.NftCrossChain2.
From Coq Require Import Lia.

(** * (c) class paths *)

Lemma NFT_PFX_noslash : noslash NFT_PFX.
Proof. intros X. vm_compute in X. repeat (destruct X as [X|X]; [discriminate X|]). exact X. Qed.

Lemma NFT_PFX_nonempty : NFT_PFX <> [].
Proof. discriminate. Qed.

Notation nfull := (full NFT_PFX).

Lemma full_inj p1 b1 p2 b2 :
  all_noslash p1 -> noslash b1 -> all_noslash p2 -> noslash b2 ->
  nfull p1 b1 = nfull p2 b2 -> p1 = p2 /\ b1 = b2.
Proof.
  intros P1 B1 P2 B2 E.
  assert (S : split slash (nfull p1 b1) = split slash (nfull p2 b2)) by (rewrite E; reflexivity).
  rewrite !(split_full NFT_PFX NFT_PFX_noslash) in S by assumption.
  inversion S as [S']. apply app_inj_tail. exact S'.
Qed.

(** the voucher class of a path with at least one chain: "tibc-" followed by the (identity-hashed) path *)
Lemma voucher_of_full p b :
  all_noslash p -> noslash b -> voucher_class idHh (nfull p b) = tibc_dash ++ nfull p b.
Proof. intros P B. apply (voucher_class_full NFT_PFX idHh NFT_PFX_noslash NFT_PFX_nonempty); assumption. Qed.

(** two native classes: same voucher class only from the same source chain and the same class *)
Theorem voucher_native_inj s1 d1 c1 s2 d2 c2 :
  noslash s1 -> noslash d1 -> noslash c1 -> noslash s2 -> noslash d2 -> noslash c2 ->
  voucher_class idHh (away_new_class_path NFT_PFX s1 d1 c1) =
  voucher_class idHh (away_new_class_path NFT_PFX s2 d2 c2) ->
  s1 = s2 /\ d1 = d2 /\ c1 = c2.
Proof.
  intros S1 D1 C1 S2 D2 C2.
  rewrite !(away_native NFT_PFX) by assumption.
  rewrite !voucher_of_full by (try assumption; repeat constructor; assumption).
  intros E. apply app_inv_head in E. apply full_inj in E; try assumption; try (repeat constructor; assumption).
  destruct E as [E ->]. inversion E. auto.
Qed.

(** a native class and a voucher path of at least two chains never give the same voucher class *)
Theorem voucher_native_vs_path s1 d1 c1 s2 d2 p b :
  noslash s1 -> noslash d1 -> noslash c1 -> noslash d2 -> all_noslash p -> noslash b ->
  (2 <= length p)%nat ->
  voucher_class idHh (away_new_class_path NFT_PFX s1 d1 c1) =
  voucher_class idHh (away_new_class_path NFT_PFX s2 d2 (nfull p b)) -> False.
Proof.
  intros S1 D1 C1 D2 P B L.
  rewrite (away_native NFT_PFX) by assumption.
  rewrite (away_full NFT_PFX NFT_PFX_noslash) by assumption.
  assert (P' : all_noslash (p ++ [d2])) by (apply Forall_app; split; [exact P|repeat constructor; exact D2]).
  rewrite !voucher_of_full by (try assumption; repeat constructor; assumption).
  intros E. apply app_inv_head in E. apply full_inj in E; try assumption; try (repeat constructor; assumption).
  destruct E as [E _]. apply (f_equal (@length bytes)) in E. rewrite app_length in E. cbn in E. lia.
Qed.

(** a '/'-free native class is its own class path, and its voucher class is itself *)
Lemma native_not_voucher_path cl p b :
  noslash cl -> all_noslash p -> noslash b -> cl <> nfull p b.
Proof.
  intros C P B E. apply C. rewrite E.
  apply contains_spec. apply (contains_slash_full NFT_PFX).
Qed.

(** * (b) history invariants of one chain: traces and classes *)
Section Inv.
Variable Hh : bytes -> bytes.
Variable H : bytes -> bytes.
Variable valid_addr : bytes -> bool.
Variable nft_escrow mt_escrow : bytes.
Variable enc_nft : nft_data -> bytes.
Variable dec_nft : bytes -> option nft_data.
Variable enc_mt : mt_data -> bytes.
Variable dec_mt : bytes -> option mt_data.

Notation escrow := nft_escrow.
Notation hexec := (hexec Hh H valid_addr nft_escrow mt_escrow enc_nft dec_nft enc_mt dec_mt).
Notation hrun := (hrun Hh H valid_addr nft_escrow mt_escrow enc_nft dec_nft enc_mt dec_mt).
Notation on_recv := (app_on_recv Hh valid_addr nft_escrow mt_escrow dec_nft dec_mt).
Notation on_ack := (app_on_ack Hh valid_addr nft_escrow mt_escrow dec_nft dec_mt).

(** every entry of the trace store stems from an away-receive: it maps the hash
    of the full class path of some away-path to that full class path *)
Definition TInv (st : nft_state) : Prop :=
  forall h fp, lookup h (ns_traces st) = Some fp ->
    exists src dst c,
      fp = full_class_path (parse_class_trace (away_new_class_path NFT_PFX src dst c)) /\ h = Hh fp.

Lemma TInv_init : TInv (a_nft app_init).
Proof. intros h fp L. discriminate L. Qed.

Lemma recv_core_traces st src dst d st' r :
  nft_recv_core Hh valid_addr escrow st src dst d = (st', r) ->
  forall h, lookup h (ns_traces st') = lookup h (ns_traces st) \/
    (lookup h (ns_traces st') =
       Some (full_class_path (parse_class_trace (away_new_class_path NFT_PFX src dst (nd_class d)))) /\
     h = Hh (full_class_path (parse_class_trace (away_new_class_path NFT_PFX src dst (nd_class d))))).
Proof.
  unfold nft_recv_core.
  destruct (blank (nd_sender d) || blank (nd_receiver d)); [intros E; inversion E; auto|].
  destruct (valid_addr (nd_receiver d)); cbn [negb]; [|intros E; inversion E; auto].
  destruct (nd_away d).
  - set (tr := parse_class_trace (away_new_class_path NFT_PFX src dst (nd_class d))).
    set (st1 := if has (Hh (full_class_path tr)) (ns_traces st) then st else _).
    set (voucher := ibc_class Hh tr).
    set (st2 := if has_class voucher st1 then st1 else nft_issue_class st1 voucher escrow true).
    assert (C2 : forall h, lookup h (ns_traces st2) = lookup h (ns_traces st) \/
                           (lookup h (ns_traces st2) = Some (full_class_path tr) /\ h = Hh (full_class_path tr))).
    { intros h. unfold st2, st1.
      destruct (has_class voucher _); destruct (has _ (ns_traces st));
        cbn [ns_traces nft_issue_class]; auto;
        rewrite lookup_set; destruct (beq h (Hh (full_class_path tr))) eqn:B; auto;
        apply beq_spec in B; auto. }
    destruct (nft_mint st2 voucher (nd_id d) (nd_uri d) escrow) as [st3|] eqn:M.
    + apply nft_mint_spec in M. destruct M as (_ & _ & _ & TR3 & _).
      destruct (nft_transfer st3 voucher (nd_id d) escrow (nd_receiver d)) as [st4|] eqn:TR.
      * apply nft_transfer_spec in TR. destruct TR as (u & _ & _ & _ & TR4 & _).
        intros E. inversion E; subst. intros h. rewrite TR4, TR3. apply C2.
      * intros E. inversion E; subst. intros h. rewrite TR3. apply C2.
    + intros E. inversion E; subst. exact C2.
  - destruct (has_prefix NFT_PFX (nd_class d)); cbn [negb]; [|intros E; inversion E; auto].
    destruct (back_new_class_path (nd_class d)) as [np|]; [|intros E; inversion E; auto].
    destruct (nft_transfer st _ (nd_id d) escrow (nd_receiver d)) as [st1|] eqn:TR;
      intros E; inversion E; subst; auto.
    apply nft_transfer_spec in TR. destruct TR as (u & _ & _ & _ & TRC & _).
    intros h. rewrite TRC. auto.
Qed.

(** the trace store changes only in a receive of the NFT module *)
Lemma step_traces c h c' ev :
  hexec c h = Some (c', ev) -> not_setapp h ->
  forall k, lookup k (ns_traces (nft_of c')) = lookup k (ns_traces (nft_of c)) \/
    exists src dst cls,
      lookup k (ns_traces (nft_of c')) =
        Some (full_class_path (parse_class_trace (away_new_class_path NFT_PFX src dst cls))) /\
      k = Hh (full_class_path (parse_class_trace (away_new_class_path NFT_PFX src dst cls))).
Proof.
  intros E NS k. unfold nft_of. destruct h as [o|u].
  - cbn [NftHistory.hexec] in E.
    assert (OTH : match o with ORecv _ _ _ | OAck _ _ _ _ | OSetApp _ => False | _ => True end ->
                  lookup k (ns_traces (a_nft (c_app app_state c'))) =
                  lookup k (ns_traces (a_nft (c_app app_state c)))).
    { intros NO. destruct (exec_other_app _ _ _ _ _ _ _ _ _ _ _ E NO) as [-> _]. reflexivity. }
    destruct o; try (left; apply OTH; exact I); [| |contradiction]; clear OTH; cbn [exec] in E.
    + apply msg_recv_app in E. destruct E as (_ & [(-> & _)|(_ & _ & a' & oack & ev1 & OR & <- & _ & _)]).
      * left. reflexivity.
      * apply on_recv_nft in OR. destruct OR as [(_ & ->)|(_ & d & r & _ & R & _)].
        -- left. reflexivity.
        -- destruct (recv_core_traces _ _ _ _ _ _ R k) as [X|X]; [left; exact X|].
           right. exists (p_src p), (p_dst p), (nd_class d). exact X.
    + apply msg_ack_app in E. destruct E as (_ & [(-> & _)|(_ & OA & _)]).
      * left. reflexivity.
      * apply on_ack_nft in OA. destruct OA as [(_ & ->)|(_ & d & _ & R)].
        -- left. reflexivity.
        -- destruct (is_err_ack ack).
           ++ apply refund_effect in R. destruct R as (_ & -> & _). left. reflexivity.
           ++ rewrite R. left. reflexivity.
  - left. cbn [NftHistory.hexec] in E. destruct u; cbn [user_exec] in E.
    + destruct (has_class class _); [discriminate|]. inversion E; subst. reflexivity.
    + destruct (lookup class _) as [[cr rs]|]; [|discriminate].
      destruct (rs && _); [discriminate|]. unfold lift_nft in E.
      destruct (nft_mint _ class id uri rcpt) as [st|] eqn:M; [|discriminate]. inversion E; subst. clear E.
      cbn [c_app with_app a_nft]. apply nft_mint_spec in M. destruct M as (_ & _ & _ & -> & _). reflexivity.
    + unfold lift_nft in E. destruct (nft_transfer _ class id from to) as [st|] eqn:M; [|discriminate].
      inversion E; subst. clear E. cbn [c_app with_app a_nft].
      apply nft_transfer_spec in M. destruct M as (uri & _ & _ & _ & -> & _). reflexivity.
    + unfold lift_nft in E. destruct (nft_burn _ class id owner) as [st|] eqn:M; [|discriminate].
      inversion E; subst. clear E. cbn [c_app with_app a_nft].
      apply nft_burn_spec in M. destruct M as (uri & _ & _ & _ & -> & _). reflexivity.
    + destruct (nft_send _ _ _ _ _ _ _ _ _ _ _ _) as [[st pkt]|] eqn:S; [|discriminate].
      apply nft_send_effect in S. destruct S as (_ & TRC & _).
      apply send_packet_inv in E. destruct E as (_ & _ & _ & _ & ->).
      cbn [c_app with_app with_kv a_nft]. rewrite TRC. reflexivity.
    + destruct (mt_has_class _ _); [discriminate|]. inversion E; subst. reflexivity.
    + destruct (N.eqb amt 0); [discriminate|]. destruct (lookup class _) as [ow|]; [|discriminate].
      destruct (negb _); [discriminate|]. destruct (mt_exists _ _ _); [discriminate|].
      unfold lift_mt in E. destruct (mt_issue _ _ _ _ _ _) as [st [|]]; [|discriminate].
      inversion E; subst. reflexivity.
    + destruct (N.eqb amt 0); [discriminate|]. destruct (lookup class _) as [ow|]; [|discriminate].
      destruct (negb _); [discriminate|]. destruct (negb _); [discriminate|].
      unfold lift_mt in E. destruct (mt_mint _ _ _ _ _) as [st [|]]; [|discriminate].
      inversion E; subst. reflexivity.
    + destruct (N.eqb amt 0); [discriminate|].
      unfold lift_mt in E. destruct (mt_transfer _ _ _ _ _ _) as [st [|]]; [|discriminate].
      inversion E; subst. reflexivity.
    + destruct (N.eqb amt 0); [discriminate|].
      unfold lift_mt in E. destruct (mt_burn _ _ _ _ _) as [st [|]]; [|discriminate].
      inversion E; subst. reflexivity.
    + destruct (mt_send _ _ _ _ _ _ _ _ _ _ _ _ _) as [[st pkt]|]; [|discriminate].
      apply send_packet_inv in E. destruct E as (_ & _ & _ & _ & ->). reflexivity.
Qed.

Theorem step_TInv c h c' ev :
  hexec c h = Some (c', ev) -> not_setapp h -> TInv (nft_of c) -> TInv (nft_of c').
Proof.
  intros E NS T k fp L. destruct (step_traces _ _ _ _ E NS k) as [X|(src & dst & cls & X & ->)].
  - rewrite X in L. exact (T _ _ L).
  - rewrite X in L. inversion L; subst. exists src, dst, cls. split; reflexivity.
Qed.

Theorem hrun_TInv hs : forall c, Forall not_setapp hs -> TInv (nft_of c) -> TInv (nft_of (hrun c hs)).
Proof.
  induction hs as [|h r IH]; intros c G T; [exact T|].
  inversion G as [|? ? NS Gr]; subst.
  destruct (hexec c h) as [[c' ev]|] eqn:E.
  - rewrite (hrun_ok _ _ _ _ _ _ _ _ _ _ _ _ _ _ E). apply IH; [exact Gr|].
    eapply step_TInv; eassumption.
  - rewrite (hrun_fail _ _ _ _ _ _ _ _ _ _ _ _ E). apply IH; assumption.
Qed.

End Inv.

(** every trace value contains '/' (so it is never a '/'-free native class) *)
Lemma away_path_has_slash src dst c : In slash (away_new_class_path NFT_PFX src dst c).
Proof.
  unfold away_new_class_path. destruct (prefixed_path NFT_PFX c) eqn:PP.
  - unfold prefixed_path in PP. apply andb_true_iff in PP. destruct PP as [_ CS].
    apply contains_spec in CS.
    (* the rebuilt path has at least two segments *)
    set (sp := split slash c).
    assert (J : forall (l : list bytes) x y, In slash (join [slash] (l ++ [x] ++ [y]))).
    { induction l as [|z l IH]; intros x y.
      - cbn [app]. rewrite join_cons. apply in_or_app. right. left. reflexivity.
      - destruct l as [|w l].
        + cbn [app]. rewrite join_cons. apply in_or_app. right. left. reflexivity.
        + change ((z :: w :: l) ++ [x] ++ [y]) with (z :: (w :: (l ++ [x] ++ [y]))).
          rewrite join_cons. apply in_or_app. right. left. reflexivity. }
    apply J.
  - unfold concat_class_path. apply in_or_app. right. left. reflexivity.
Qed.
