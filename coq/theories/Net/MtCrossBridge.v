(** C05 across chains, part 3: from the summed inequality over event logs
    (Net/AppNetSumIneq.v: credited + refunded <= sent, any weight on packet data)
    to the premise [MR + RA <= SA] of the cross-chain equation (Net/MtCrossEq.v),
    for a '/'-free native class cl on chain i (name NA) and its voucher class
    v = voucher_of NA NB cl on chain j (name NB).

    Weight: [wd data] = the amount, if the data decode (harness decoder) to MT
    packet data with class path cl, the id, direction "away"; else 0.
    Bridge (1): MR <= credited_sum of j's log;  bridge (2): RA <= refunded_sum
    of i's log;  both proved here.  Bridge (3): sent_sum of i's log <= SA is kept
    as the single named premise [sends_accounted]. *)
From Tibc Require Import Base.Bytes Base.BytesFacts Base.FMap Host.Keys Host.KeysFacts Routing.Rules
  Packet.Types Packet.Keeper Packet.KeyEq Packet.KeeperFacts Packet.AckOnce
  Net.Net Net.Explained Net.NetInv
  Apps.Path Apps.PathFacts Apps.Nft Apps.Mt Apps.MtFacts Apps.App Apps.AppFacts Harness.AppNet
  Net.AppNetSim Net.AppNetNoSelf Net.AppNetCount Net.AppNetSumIneq
  Apps.MtHistory Apps.MtHistEscrow Apps.MtHistLinks Net.MtCrossChain Net.MtCrossEq.
From Coq Require Import ZArith ZifyN ZifyNat ZifyBool.

(** * sums over projected event lists *)
Lemma plist_app {X} (pr : event -> option X) a b : plist pr (a ++ b) = plist pr a ++ plist pr b.
Proof.
  induction a as [|e a IH]; [reflexivity|]. cbn [app plist]. destruct (pr e); rewrite IH; reflexivity.
Qed.

Lemma sumw_plist_in {X} (w : X -> N) (pr : event -> option X) e z ev :
  In e ev -> pr e = Some z -> w z <= sumw w (plist pr ev).
Proof.
  induction ev as [|e0 ev IH]; intros Hi P; [destruct Hi|].
  cbn [plist]. destruct Hi as [->|Hi].
  - rewrite P. cbn [sumw]. lia.
  - specialize (IH Hi P). destruct (pr e0); cbn [sumw]; lia.
Qed.

(** * the voucher class determines source chain and class, for '/'-free names *)
Lemma MT_PFX_ns : noslash MT_PFX.
Proof. intros [X|[X|[]]]; discriminate. Qed.
Lemma MT_PFX_ne : MT_PFX <> [].
Proof. discriminate. Qed.

Lemma voucher_of_plain s d b :
  noslash s -> noslash d -> noslash b ->
  voucher_of s d b = tibc_dash ++ full MT_PFX [s; d] b.
Proof.
  intros Hs Hd Hb. unfold voucher_of.
  change (ibc_class idHh (parse_class_trace (away_new_class_path MT_PFX s d b)))
    with (voucher_class idHh (away_new_class_path MT_PFX s d b)).
  rewrite (away_native MT_PFX) by exact Hb.
  rewrite (voucher_class_full MT_PFX idHh MT_PFX_ns MT_PFX_ne); [reflexivity| |exact Hb].
  repeat constructor; assumption.
Qed.

Lemma voucher_of_inj s d b s' b' :
  noslash s -> noslash s' -> noslash d -> noslash b -> noslash b' ->
  voucher_of s d b = voucher_of s' d b' -> s = s' /\ b = b'.
Proof.
  intros Hs Hs' Hd Hb Hb' E. rewrite !voucher_of_plain in E by assumption.
  apply app_inv_head in E. apply (f_equal (split slash)) in E.
  rewrite !(split_full MT_PFX MT_PFX_ns) in E by (try assumption; repeat constructor; assumption).
  cbn [app] in E. inversion E. split; reflexivity.
Qed.

Section Bridge.
Variable nft_escrow mt_escrow : bytes.
Variable NA NB : bytes.
Variable cl id : bytes.
Hypothesis NA_ns : noslash NA.
Hypothesis NB_ns : noslash NB.
Hypothesis cl_ns : noslash cl.

Notation v := (voucher_of NA NB cl).

(** the weight *)
Definition wd (data : bytes) : N :=
  match dec_mt data with
  | Some d => if beq (md_class d) cl && beq (md_id d) id && md_away d then md_amount d else 0
  | None => 0
  end.

(** direct traffic with plain class paths: relay-free packets; the class path
    of an "away" packet is '/'-free (it is then neither a forged voucher path
    such as "mt/<i>/cl" nor "/cl": MT analogue of finding D4); acknowledged
    packets of chain NA are addressed to NB *)
Definition pkt_plain (p : packet) : Prop :=
  p_relay p = [] /\
  forall d, dec_mt (p_data p) = Some d -> md_away d = true -> noslash (md_class d).

Definition hop_direct (h : hop) : Prop :=
  match h with
  | HOp (ORecv p _ _) => pkt_plain p
  | HOp (OAck p _ _ _) => pkt_plain p /\ (p_src p = NA -> p_dst p = NB)
  | _ => True
  end.

Definition anop_direct (o : anop) : Prop :=
  match o with
  | ANet (NChain _ _ (ORecv p _ _)) => pkt_plain p
  | ANet (NChain _ _ (OAck p _ _ _)) => pkt_plain p /\ (p_src p = NA -> p_dst p = NB)
  | _ => True
  end.

Notation achain := (chain app_state).
Notation hexec := (hexec idHh idH addr_ok nft_escrow mt_escrow enc_nft dec_nft enc_mt dec_mt).
Notation hstep := (hstep idHh idH addr_ok nft_escrow mt_escrow enc_nft dec_nft enc_mt dec_mt).
Notation thstep := (thstep idHh idH addr_ok nft_escrow mt_escrow enc_nft dec_nft enc_mt dec_mt).
Notation thrun := (thrun idHh idH addr_ok nft_escrow mt_escrow enc_nft dec_nft enc_mt dec_mt).
Notation tevents := (tevents idHh idH addr_ok nft_escrow mt_escrow enc_nft dec_nft enc_mt dec_mt).
Notation tacts := (tacts idHh idH addr_ok nft_escrow mt_escrow enc_nft dec_nft enc_mt dec_mt).
Notation tact := (tact idHh dec_mt).
Notation recv_act := (recv_act idHh dec_mt).
Notation ack_act := (ack_act idHh dec_mt).

Lemma hexec_name (c : achain) h c' ev : hexec c h = Some (c', ev) -> c_name app_state c' = c_name app_state c.
Proof.
  destruct h as [o|u]; cbn [MtHistory.hexec]; intros E.
  - eapply exec_name; exact E.
  - change (a_user nft_escrow mt_escrow c u = Some (c', ev)) in E.
    destruct (a_user_shape _ _ _ _ _ _ E) as [(_ & ->)|(p & _ & S)]; [reflexivity|].
    apply send_packet_inv in S. destruct S as (_ & _ & _ & _ & ->). reflexivity.
Qed.

(** acts of user transactions and of the other operations never are receives or refunds *)
Lemma tact_not_packet (c : achain) h ev :
  match h with HOp (ORecv _ _ _) | HOp (OAck _ _ _ _) => False | _ => True end ->
  forall k i', minted_recv k i' (tact c h ev) = 0 /\ refunded_away k i' (tact c h ev) = 0.
Proof.
  intros NP k i'. destruct h as [o|u].
  - destruct o; try contradiction; cbn; split; reflexivity.
  - destruct u; cbn [MtCrossChain.tact MtHistory.act_of fst snd]; try (split; reflexivity).
    destruct (mt_class_path_of _ _) as [fp|]; [|split; reflexivity].
    destruct (determine_away MT_PFX fp dest) as [[|]|]; split; reflexivity.
Qed.

(** (1) one step on the chain named NB *)
Lemma step_credit (c : achain) h c' ev :
  hexec c h = Some (c', ev) -> c_name app_state c = NB -> hop_direct h ->
  minted_recv v id (tact c h ev) <= sumw (wz wd) (plist (creditp NA NB) ev).
Proof.
  intros E NM HD.
  destruct h as [o|u]; [destruct o|];
    try (match goal with |- context [MtCrossChain.tact idHh dec_mt c ?hh ev] =>
           rewrite (proj1 (tact_not_packet c hh ev Logic.I v id)); lia end).
  - cbn [MtCrossChain.tact MtHistory.act_of fst snd]. cbn [hop_direct] in HD. destruct HD as [RL PL].
    destruct (MtHistory.recv_act idHh dec_mt p ev) as [a1 a2 a3 a4|a1 a2 a3 a4|a1 a2 a3 a4|a1 a2 a3 a4|a1 a2 a3 a4|a1 a2 a3 a4|a1 a2 a3 a4|a1 a2 a3 a4 a5|a1 a2 a3 a4|] eqn:RA;
      try (cbn [minted_recv]; lia).
    assert (NA' : recv_act p ev <> ANone) by (rewrite RA; discriminate).
    destruct (recv_entry_packet idHh idH addr_ok nft_escrow mt_escrow enc_nft dec_nft enc_mt dec_mt
                c p pf h c' ev E NA') as (D & PM & _ & WA & d & DD & RE).
    pose proof E as E0. cbn [MtHistory.hexec Keeper.exec] in E0. apply msg_recv_inv in E0.
    destruct E0 as (VB & _).
    assert (SN : noslash (p_src p)).
    { unfold validate_basic in VB. rewrite !andb_true_iff in VB. destruct VB as [[[_ VS] _] _].
      eapply name_ok_noslash. exact VS. }
    rewrite RA in RE. destruct (md_away d) eqn:AW.
    2:{ destruct (back_new_class_path (md_class d)); discriminate RE. }
    rewrite RE. cbn [minted_recv]. unfold amt_if.
    destruct (keq v id (recv_voucher idHh p d) (md_id d)) eqn:K; [|lia].
    apply keq_true in K. inversion K as [[K1 K2]].
    assert (CN : noslash (md_class d)) by (apply PL; assumption).
    unfold recv_voucher in K1. rewrite D, NM in K1.
    change (ibc_class idHh (parse_class_trace (away_new_class_path MT_PFX (p_src p) NB (md_class d))))
      with (voucher_of (p_src p) NB (md_class d)) in K1.
    apply voucher_of_inj in K1; try assumption. destruct K1 as [K1 K3].
    assert (CP : creditp NA NB (EWriteAck p ack_ok) = Some (p_seq p, p_data p)).
    { cbn [creditp]. rewrite <- K1, D, NM, !beq_refl, RL, PM, beq_refl. reflexivity. }
    pose proof (sumw_plist_in (wz wd) (creditp NA NB) _ _ ev WA CP) as LE.
    unfold wz in LE at 1. cbn [snd] in LE. unfold wd in LE at 1.
    rewrite DD, <- K3, <- K2, !beq_refl, AW in LE. exact LE.
  - cbn [MtCrossChain.tact MtHistory.act_of fst snd]. unfold MtHistory.ack_act.
    destruct (existsb is_appack ev && is_err_ack ack); [|cbn; lia].
    destruct (mt_data_of dec_mt p) as [d|]; [|cbn; lia]. destruct (md_away d); cbn; lia.
Qed.

(** (2) one step on the chain named NA *)
Lemma step_refund (c : achain) h c' ev :
  hexec c h = Some (c', ev) -> c_name app_state c = NA -> hop_direct h ->
  refunded_away cl id (tact c h ev) <= sumw (wz wd) (plist (refundp NA NB) ev).
Proof.
  intros E NM HD.
  destruct h as [o|u]; [destruct o|];
    try (match goal with |- context [MtCrossChain.tact idHh dec_mt c ?hh ev] =>
           rewrite (proj2 (tact_not_packet c hh ev Logic.I cl id)); lia end).
  - cbn [MtCrossChain.tact MtHistory.act_of fst snd]. unfold MtHistory.recv_act.
    destruct (existsb is_deliver ev && wrote_ok ev); [|cbn; lia].
    destruct (mt_data_of dec_mt p) as [d|]; [|cbn; lia].
    destruct (md_away d); [cbn; lia|]. destruct (back_new_class_path (md_class d)); cbn; lia.
  - cbn [MtCrossChain.tact MtHistory.act_of fst snd]. cbn [hop_direct] in HD. destruct HD as [[RL PL] DST].
    destruct (MtHistory.ack_act idHh dec_mt p ack ev) as [a1 a2 a3 a4|a1 a2 a3 a4|a1 a2 a3 a4|a1 a2 a3 a4|a1 a2 a3 a4|a1 a2 a3 a4|a1 a2 a3 a4|a1 a2 a3 a4 a5|a1 a2 a3 a4|] eqn:RA;
      try (cbn [refunded_away]; lia).
    assert (NA' : ack_act p ack ev <> ANone) by (rewrite RA; discriminate).
    destruct (ack_entry_packet idHh idH addr_ok nft_escrow mt_escrow enc_nft dec_nft enc_mt dec_mt
                c p ack pf h c' ev E NA') as (S & PM & IA & ER & d & DD & RE).
    rewrite RA in RE. destruct (md_away d) eqn:AW; [|discriminate RE].
    rewrite RE. cbn [refunded_away]. unfold amt_if.
    destruct (keq cl id (voucher_class idHh (md_class d)) (md_id d)) eqn:K; [|lia].
    apply keq_true in K. inversion K as [[K1 K2]].
    assert (CN : noslash (md_class d)) by (apply PL; assumption).
    rewrite voucher_class_native in K1 by exact CN.
    assert (SRC : p_src p = NA) by congruence.
    assert (RP : refundp NA NB (EAppAck p ack) = Some (p_seq p, p_data p)).
    { cbn [refundp]. rewrite SRC, (DST SRC), !beq_refl, RL, ER. reflexivity. }
    pose proof (sumw_plist_in (wz wd) (refundp NA NB) _ _ ev IA RP) as LE.
    unfold wz in LE at 1. cbn [snd] in LE. unfold wd in LE at 1.
    rewrite DD, <- K1, <- K2, !beq_refl, AW in LE. exact LE.
Qed.

(** histories *)
Definition thop_direct (th : thop) : Prop := hop_direct (snd th).

Lemma hist_bridge (f : act -> N) (pr : event -> option kd) NM
  (STEP : forall (c : achain) h c' ev, hexec c h = Some (c', ev) -> c_name app_state c = NM -> hop_direct h ->
            f (tact c h ev) <= sumw (wz wd) (plist pr ev)) l :
  forall c, c_name app_state c = NM -> Forall thop_direct l ->
    sumf f (tacts c l) <= sumw (wz wd) (plist pr (tevents c l)).
Proof.
  induction l as [|th r IH]; intros c NMc F; [cbn; lia|].
  apply Forall_cons_iff in F. destruct F as [Fh Fr]. cbn [MtCrossChain.tacts MtCrossChain.tevents].
  destruct (thstep c th) as [c1 [ev|]] eqn:ST; unfold MtCrossChain.thstep in ST.
  - apply hstep_ok in ST. pose proof (hexec_name _ _ _ _ ST) as N1. cbn [c_name with_now] in N1.
    pose proof (STEP _ _ _ _ ST NMc Fh) as S1.
    assert (IH1 := IH c1 (eq_trans N1 NMc) Fr).
    cbn [sumf]. rewrite plist_app, (sumw_app kd_dec).
    change (tact (with_now app_state c (fst th)) (snd th) ev) with (tact c (snd th) ev) in S1. lia.
  - apply hstep_fail in ST. subst c1. apply IH; [exact NMc|exact Fr].
Qed.

Lemma proj_direct k ops : forall n, Forall anop_direct ops -> Forall thop_direct (proj nft_escrow mt_escrow k n ops).
Proof.
  induction ops as [|o r IH]; intros n F; [constructor|].
  inversion F as [|? ? Fo Fr]; subst. cbn [proj]. apply Forall_app. split; [|apply IH; exact Fr].
  destruct o as [o'|i' now u]; cbn [proj_step].
  - destruct (resolve app_state n o') as [[[i' now] op]|] eqn:R; [|constructor].
    destruct (Nat.eqb i' k); [|constructor]. constructor; [|constructor].
    unfold thop_direct. cbn [snd].
    destruct o' as [i0 nw o0|i0 jj nw hh t pd|i0 jj nw hh t]; cbn [resolve] in R.
    + inversion R; subst. destruct op; try exact Logic.I; exact Fo.
    + destruct (nth_error n jj); inversion R; subst. exact Logic.I.
    + destruct (nth_error n jj); inversion R; subst. exact Logic.I.
  - destruct (Nat.eqb i' k); constructor; [exact Logic.I|constructor].
Qed.

(** * THE PREMISE [MR + RA <= SA] DISCHARGED (up to bridge (3)) *)
Variable n0 : anet.
Variable ops : list anop.
Variable i j : nat.
Variable ci0 cj0 ci cj : achain.
Hypothesis HK : hist_ok n0 ops.
Hypothesis DIR : Forall anop_direct ops.
Hypothesis Hi0 : nth_error n0 i = Some ci0.
Hypothesis Hj0 : nth_error n0 j = Some cj0.
Hypothesis Ni : c_name app_state ci0 = NA.
Hypothesis Nj : c_name app_state cj0 = NB.
Hypothesis Hi : nth_error (anrun nft_escrow mt_escrow n0 ops) i = Some ci.
Hypothesis Hj : nth_error (anrun nft_escrow mt_escrow n0 ops) j = Some cj.

Notation log k := (log_of k (anrun_log nft_escrow mt_escrow n0 ops)).

Theorem MR_le_credited :
  MR nft_escrow mt_escrow n0 ops j v id <= credited_sum NA NB wd (log j).
Proof.
  unfold MR, nacts, credited_sum. rewrite Hj0.
  destruct (anrun_proj nft_escrow mt_escrow j ops n0 cj0 Hj0) as [_ ->].
  apply (hist_bridge _ _ NB step_credit); [exact Nj|apply proj_direct; exact DIR].
Qed.

Theorem RA_le_refunded :
  RA nft_escrow mt_escrow n0 ops i cl id <= refunded_sum NA NB wd (log i).
Proof.
  unfold RA, nacts, refunded_sum. rewrite Hi0.
  destruct (anrun_proj nft_escrow mt_escrow i ops n0 ci0 Hi0) as [_ ->].
  apply (hist_bridge _ _ NA step_refund); [exact Ni|apply proj_direct; exact DIR].
Qed.

(** bridge (3), the remaining premise: every commitment NA -> NB in i's log
    whose data say (cl, id, away) is an accounted away-send of (cl, id) with that amount *)
Definition sends_accounted : Prop :=
  sent_sum NA NB wd (log i) <= SA nft_escrow mt_escrow n0 ops i cl id.

Lemma final_names : c_name app_state ci = NA /\ c_name app_state cj = NB.
Proof.
  pose proof (a_names nft_escrow mt_escrow n0 ops) as NMS.
  split.
  - pose proof (names_nth app_state _ _ _ Hi) as A1. rewrite NMS in A1.
    rewrite (names_nth app_state _ _ _ Hi0) in A1. congruence.
  - pose proof (names_nth app_state _ _ _ Hj) as A1. rewrite NMS in A1.
    rewrite (names_nth app_state _ _ _ Hj0) in A1. congruence.
Qed.

Theorem no_unit_created_ij_discharged :
  sends_accounted ->
  MR nft_escrow mt_escrow n0 ops j v id + RA nft_escrow mt_escrow n0 ops i cl id
    <= SA nft_escrow mt_escrow n0 ops i cl id.
Proof.
  intros S3. destruct final_names as [F1 F2].
  pose proof (a_sum_ineq nft_escrow mt_escrow NA NB wd n0 ops i ci j cj HK NA_ns NB_ns Hi F1 Hj F2) as T.
  pose proof MR_le_credited. pose proof RA_le_refunded. unfold sends_accounted in S3. lia.
Qed.

End Bridge.

(** * the two-chain equation with the premise [MR + RA <= SA] discharged *)
Theorem closed_cross_chain_equation
  (nft_escrow mt_escrow NA NB cl id : bytes) (n0 : anet) (ops : list anop) (i j : nat)
  (ci0 cj0 ci cj : chain app_state) :
  noslash NA -> noslash NB -> noslash cl ->
  hist_ok n0 ops -> Forall anop_noset ops -> Forall (anop_direct NA NB) ops ->
  nth_error n0 i = Some ci0 -> nth_error n0 j = Some cj0 ->
  c_name app_state ci0 = NA -> c_name app_state cj0 = NB ->
  MtInv (a_mt (c_app app_state ci0)) -> MtInv (a_mt (c_app app_state cj0)) ->
  nth_error (anrun nft_escrow mt_escrow n0 ops) i = Some ci ->
  nth_error (anrun nft_escrow mt_escrow n0 ops) j = Some cj ->
  bal_of (a_mt (c_app app_state ci0)) mt_escrow cl id = 0 ->
  supply_of (a_mt (c_app app_state cj0)) (voucher_of NA NB cl) id = 0 ->
  Forall (act_clean mt_escrow) (nacts nft_escrow mt_escrow i n0 ops) ->
  sumf (user_minted (voucher_of NA NB cl) id) (nacts nft_escrow mt_escrow j n0 ops) = 0 ->
  sumf (user_burned (voucher_of NA NB cl) id) (nacts nft_escrow mt_escrow j n0 ops) = 0 ->
  (* bridge (3): commitments of (cl, id, away) from NA to NB are accounted away-sends *)
  sends_accounted nft_escrow mt_escrow NA NB cl id n0 ops i ->
  (* the reverse direction, still a premise *)
  RB nft_escrow mt_escrow n0 ops i cl id + RM nft_escrow mt_escrow n0 ops j (voucher_of NA NB cl) id
    <= BB nft_escrow mt_escrow n0 ops j (voucher_of NA NB cl) id ->
  let v := voucher_of NA NB cl in
  bal_of (a_mt (c_app app_state ci)) mt_escrow cl id
    = supply_of (a_mt (c_app app_state cj)) v id
      + in_flight_ij nft_escrow mt_escrow n0 ops i j cl v id
      + in_flight_ji nft_escrow mt_escrow n0 ops i j cl v id /\
  in_flight_ij nft_escrow mt_escrow n0 ops i j cl v id
    + (MR nft_escrow mt_escrow n0 ops j v id + RA nft_escrow mt_escrow n0 ops i cl id)
    = SA nft_escrow mt_escrow n0 ops i cl id /\
  in_flight_ji nft_escrow mt_escrow n0 ops i j cl v id
    + (RB nft_escrow mt_escrow n0 ops i cl id + RM nft_escrow mt_escrow n0 ops j v id)
    = BB nft_escrow mt_escrow n0 ops j v id /\
  supply_of (a_mt (c_app app_state cj)) v id <= bal_of (a_mt (c_app app_state ci)) mt_escrow cl id /\
  bal_of (a_mt (c_app app_state ci)) mt_escrow cl id <= u64max.
Proof.
  intros NAs NBs CLs HK NS DIR Hi0 Hj0 Ni Nj Ii Ij Hi Hj Zi Zj CL UM UB S3 REV v.
  pose proof (no_unit_created_ij_discharged nft_escrow mt_escrow NA NB cl id NAs NBs CLs n0 ops i j
                ci0 cj0 ci cj HK DIR Hi0 Hj0 Ni Nj Hi Hj S3) as FWD.
  destruct (cross_chain_equation nft_escrow mt_escrow n0 ops i j cl v id FWD REV ci0 cj0 ci cj
              NS Hi0 Hj0 Ii Ij Hi Hj Zi Zj CL UM UB) as (E1 & E2 & E3 & E4).
  repeat split; try assumption. lia.
Qed.
