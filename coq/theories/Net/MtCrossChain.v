(** C05 across chains, part 1: the chains of an application-network history
    ([anrun] of Net/AppNetSim.v) run hop histories, and the per-chain MT
    accounting of Apps/MtHistory.v / MtHistEscrow.v holds for them.

    TIME.  A network step on chain i first sets the block time of the chain
    ([with_now]) -- also when the step then fails -- and the hop histories of
    Apps/MtHistory.v have no step that sets the time to an arbitrary value.  So
    the projection of a network history on chain i is a TIMED hop history (a list
    of (time, hop)); the equality with the network is exact (whole chain state,
    including the time).  The ledger theorems are re-established for timed
    histories from the same one-step lemmas.

    CODEC.  The application network uses the packet-data codec of the
    correspondence harness, for which [dec (enc x) = Some x] does not hold for
    every x (decimal amounts beyond 10^40, field lengths beyond 2^64).  The
    accounting here therefore records the direction of a user send from the
    state in which it ran ([tact]: class path of the named class, destination),
    not from the packet; no codec premise is needed for the per-chain theorems. *)
From Tibc Require Import Base.Bytes Base.BytesFacts Base.FMap Host.Keys Host.KeysFacts Routing.Rules
  Packet.Types Packet.Keeper Packet.KeeperFacts Net.Net Net.Explained Net.NetInv
  Apps.Path Apps.Nft Apps.Mt Apps.MtFacts Apps.App Apps.AppFacts Harness.AppNet Net.AppNetSim
  Apps.MtHistory Apps.MtHistEscrow Apps.MtHistLinks Apps.MtHistExample.
From Coq Require Import ZArith ZifyN ZifyNat ZifyBool.

(** * timed hop histories of one chain *)
Section Timed.
Variable Hh : bytes -> bytes.
Variable H : bytes -> bytes.
Variable valid_addr : bytes -> bool.
Variable nft_escrow mt_escrow : bytes.
Variable enc_nft : nft_data -> bytes.
Variable dec_nft : bytes -> option nft_data.
Variable enc_mt : mt_data -> bytes.
Variable dec_mt : bytes -> option mt_data.

Notation escrow := mt_escrow.
Notation chain := (chain app_state).
Notation mt_of c := (a_mt (c_app app_state c)).
Notation hexec := (hexec Hh H valid_addr nft_escrow mt_escrow enc_nft dec_nft enc_mt dec_mt).
Notation hstep := (hstep Hh H valid_addr nft_escrow mt_escrow enc_nft dec_nft enc_mt dec_mt).
Notation act_of := (act_of Hh dec_mt).
Notation moves_of := (moves_of mt_escrow).

Definition thop := (N * hop)%type.

Definition thstep (c : chain) (th : thop) : chain * option (list event) :=
  hstep (with_now app_state c (fst th)) (snd th).

Definition thrun (c : chain) (l : list thop) : chain := fold_left (fun c th => fst (thstep c th)) l c.

Fixpoint tevents (c : chain) (l : list thop) : list event :=
  match l with
  | [] => []
  | th :: r => match thstep c th with
               | (c', Some ev) => ev ++ tevents c' r
               | (c', None) => tevents c' r
               end
  end.

(** the act of a successful step; for a user send the direction is the one
    the keeper computed: from the class path of the named class in the state
    before the step and the destination *)
Definition tact (c : chain) (h : hop) (ev : list event) : act :=
  match h with
  | HUser (UMtSend cl id s _ dest _ _ amt) =>
      match mt_class_path_of (mt_of c) cl with
      | Some full =>
          match determine_away MT_PFX full dest with
          | Some true => ASendAway cl id amt s
          | Some false => ASendBack cl id amt s
          | None => ANone
          end
      | None => ANone
      end
  | _ => act_of (h, ev)
  end.

Fixpoint tacts (c : chain) (l : list thop) : list act :=
  match l with
  | [] => []
  | th :: r => match thstep c th with
               | (c', Some ev) => tact c (snd th) ev :: tacts c' r
               | (c', None) => tacts c' r
               end
  end.

Lemma thrun_cons c th r : thrun c (th :: r) = thrun (fst (thstep c th)) r.
Proof. reflexivity. Qed.

Lemma thrun_app c a b : thrun c (a ++ b) = thrun (thrun c a) b.
Proof. unfold thrun. apply fold_left_app. Qed.

Lemma tevents_app c a b : tevents c (a ++ b) = tevents c a ++ tevents (thrun c a) b.
Proof.
  revert c. induction a as [|th a IH]; intros c; [reflexivity|].
  cbn [app tevents]. rewrite thrun_cons. destruct (thstep c th) as [c' [ev|]]; cbn [fst]; rewrite IH;
    [rewrite app_assoc|]; reflexivity.
Qed.

Lemma tacts_app c a b : tacts c (a ++ b) = tacts c a ++ tacts (thrun c a) b.
Proof.
  revert c. induction a as [|th a IH]; intros c; [reflexivity|].
  cbn [app tacts]. rewrite thrun_cons. destruct (thstep c th) as [c' [ev|]]; cbn [fst]; rewrite IH; reflexivity.
Qed.

(** one step, without any premise on the codec *)
Lemma send_tact_sound name seq st cl id s r dest relay k amt st1 p :
  MtInv st ->
  mt_send escrow enc_mt name seq st cl id s r dest relay k amt = Some (st1, p) ->
  MtInv st1 /\
  ledger_eq st st1
    (moves_of (match mt_class_path_of st cl with
               | Some full => match determine_away MT_PFX full dest with
                              | Some true => ASendAway cl id amt s
                              | Some false => ASendBack cl id amt s
                              | None => ANone
                              end
               | None => ANone
               end)).
Proof.
  intros I. unfold Mt.mt_send. intros E.
  destruct (mt_has_class cl st); [|discriminate]. cbn [negb] in E.
  destruct (lookup (tkey cl id) (ms_mts st)) as [mdata|]; [|discriminate].
  destruct (beq name dest); [discriminate|].
  destruct (mt_class_path_of st cl) as [full|]; [|discriminate].
  destruct (determine_away MT_PFX full dest) as [away|]; [|discriminate].
  destruct away.
  - destruct (mt_transfer st cl id amt s escrow) as [st' ok] eqn:T.
    destruct ok; [|discriminate]. inversion E; subst st1 p. exact (transfer_mv _ _ _ _ _ _ _ I T).
  - destruct (mt_burn st cl id amt s) as [st' ok] eqn:T.
    destruct ok; [|discriminate]. inversion E; subst st1 p. exact (burn_mv _ _ _ _ _ _ I T).
Qed.

Theorem texec_sound c h c' ev :
  hop_ok h -> MtInv (mt_of c) -> hexec c h = Some (c', ev) ->
  MtInv (mt_of c') /\ ledger_eq (mt_of c) (mt_of c') (moves_of (tact c h ev)).
Proof.
  intros OK I E. destruct h as [o|u].
  - cbn [MtHistory.hexec] in E.
    destruct o; cbn [hop_ok] in OK; try contradiction; cbn [tact MtHistory.act_of fst snd];
      try (cbn [MtHistory.moves_of];
           assert (EA : c_app app_state c' = c_app app_state c)
             by (eapply exec_plain_app; [|exact E]; exact Logic.I);
           rewrite EA; split; [exact I|apply ledger_eq_refl]).
    + eapply recv_sound; eauto.
    + eapply ack_sound; eauto.
  - pose proof (user_sound Hh H nft_escrow mt_escrow enc_nft enc0 dec0 dec0_enc0 c u c' ev I) as US.
    destruct u; try exact (US E). clear US.
    cbn [MtHistory.hexec App.user_exec] in E. cbn [tact].
    destruct (mt_send _ _ _ _ _ _ _ _ _ _ _ _ _) as [[st pkt]|] eqn:S; [|discriminate].
    apply send_tact_sound in S; [|exact I]. destruct S as (I' & LE).
    apply send_packet_inv in E. destruct E as (_ & _ & _ & _ & ->). cbn. split; [exact I'|exact LE].
Qed.

Definition thop_ok (th : thop) : Prop := hop_ok (snd th).

(** the ledger after a timed history is the ledger before it plus the moves of its acts *)
Theorem thist_ledger c l :
  Forall thop_ok l -> MtInv (mt_of c) ->
  MtInv (mt_of (thrun c l)) /\
  ledger_eq (mt_of c) (mt_of (thrun c l)) (concat (map moves_of (tacts c l))).
Proof.
  intros OK. revert c. induction OK as [|th r OKh OKr IH]; intros c I.
  - split; [exact I|apply ledger_eq_refl].
  - rewrite thrun_cons. cbn [tacts].
    destruct (thstep c th) as [c1 [ev|]] eqn:ST; cbn [fst]; unfold thstep in ST.
    + apply hstep_ok in ST.
      destruct (texec_sound (with_now app_state c (fst th)) _ _ _ OKh I ST) as [I1 LE1].
      destruct (IH c1 I1) as [I2 LE2]. split; [exact I2|].
      cbn [map concat]. exact (ledger_eq_trans _ _ _ _ _ LE1 LE2).
    + apply hstep_fail in ST. subst c1. exact (IH (with_now app_state c (fst th)) I).
Qed.

Theorem t_escrow_accounting c l cl id :
  Forall thop_ok l -> MtInv (mt_of c) ->
  let A := tacts c l in
  bal_of (mt_of (thrun c l)) escrow cl id
    + sumf (refunded_away cl id) A + sumf (released_back cl id) A
    + sumf (party_out escrow cl id) A + sumf (user_out escrow cl id) A
  = bal_of (mt_of c) escrow cl id
    + sumf (sent_away cl id) A + sumf (party_in escrow cl id) A + sumf (user_in escrow cl id) A
  /\ bal_of (mt_of (thrun c l)) escrow cl id <= u64max.
Proof.
  intros OK I A. destruct (thist_ledger c l OK I) as [I' [LB _]].
  specialize (LB escrow cl id). fold A in LB.
  pose proof (sum_acts_escrow escrow cl id A) as S.
  split; [lia|].
  pose proof (bal_le_supply _ escrow cl id I'). destruct (I' cl id) as (_ & _ & SM). lia.
Qed.

Theorem t_supply_accounting c l cl id :
  Forall thop_ok l -> MtInv (mt_of c) ->
  let A := tacts c l in
  supply_of (mt_of (thrun c l)) cl id + sumf (burned_back cl id) A + sumf (user_burned cl id) A
  = supply_of (mt_of c) cl id
    + sumf (minted_recv cl id) A + sumf (reminted_refund cl id) A + sumf (user_minted cl id) A
  /\ supply_of (mt_of (thrun c l)) cl id <= u64max.
Proof.
  intros OK I A. destruct (thist_ledger c l OK I) as [I' [_ LS]].
  specialize (LS cl id). fold A in LS.
  destruct (sum_acts_supply escrow cl id A) as [S1 S2].
  split; [lia|]. destruct (I' cl id) as (_ & _ & SM). exact SM.
Qed.

Theorem t_escrow_accounting_clean c l cl id :
  Forall thop_ok l -> MtInv (mt_of c) -> Forall (act_clean escrow) (tacts c l) ->
  let A := tacts c l in
  bal_of (mt_of (thrun c l)) escrow cl id + sumf (refunded_away cl id) A + sumf (released_back cl id) A
  = bal_of (mt_of c) escrow cl id + sumf (sent_away cl id) A.
Proof.
  intros OK I CL A. destruct (t_escrow_accounting c l cl id OK I) as [E _]. fold A in E.
  rewrite (sum_clean_zero escrow (party_in escrow)) in E by (first [exact CL | intros a Ha; apply act_clean_zero; exact Ha]).
  rewrite (sum_clean_zero escrow (party_out escrow)) in E by (first [exact CL | intros a Ha; apply act_clean_zero; exact Ha]).
  rewrite (sum_clean_zero escrow (user_in escrow)) in E by (first [exact CL | intros a Ha; apply act_clean_zero; exact Ha]).
  rewrite (sum_clean_zero escrow (user_out escrow)) in E by (first [exact CL | intros a Ha; apply act_clean_zero; exact Ha]).
  lia.
Qed.

End Timed.

(** * PROJECTION: chain i of an application-network history runs a timed hop history *)
Section Proj.
Variable nft_escrow mt_escrow : bytes.

Notation achain := (chain app_state).
Notation anstep := (anstep nft_escrow mt_escrow).
Notation anrun := (anrun nft_escrow mt_escrow).
Notation anrun_log := (anrun_log nft_escrow mt_escrow).
Notation thrun := (thrun idHh idH addr_ok nft_escrow mt_escrow enc_nft dec_nft enc_mt dec_mt).
Notation thstep := (thstep idHh idH addr_ok nft_escrow mt_escrow enc_nft dec_nft enc_mt dec_mt).
Notation tevents := (tevents idHh idH addr_ok nft_escrow mt_escrow enc_nft dec_nft enc_mt dec_mt).
Notation tacts := (tacts idHh idH addr_ok nft_escrow mt_escrow enc_nft dec_nft enc_mt dec_mt).
Notation mt_of c := (a_mt (c_app app_state c)).

(** the part of one network step that concerns chain i: a generic operation
    on i is the hop [HOp o] at the given time; honest client creation / update
    on i about chain j is [HOp (OCreateClient ..)] / [HOp (OUpdateClient ..)]
    with j's current name and store; a user transaction on i is [HUser u];
    steps on other chains contribute nothing *)
Definition proj_step (i : nat) (n : anet) (o : anop) : list thop :=
  match o with
  | ANet o' =>
      match resolve app_state n o' with
      | Some (i', now, op) => if Nat.eqb i' i then [(now, HOp op)] else []
      | None => []
      end
  | AUser i' now u => if Nat.eqb i' i then [(now, HUser u)] else []
  end.

Fixpoint proj (i : nat) (n : anet) (ops : list anop) : list thop :=
  match ops with
  | [] => []
  | o :: r => proj_step i n o ++ proj i (fst (anstep n o)) r
  end.

Lemma resolve_chain (n : anet) (o : nop app_state) i' now op :
  resolve app_state n o = Some (i', now, op) -> nop_chain o = i'.
Proof.
  destruct o as [i0 nw o0|i0 j nw h t pd|i0 j nw h t]; cbn [resolve nop_chain].
  - intros E. inversion E. reflexivity.
  - destruct (nth_error n j); intros E; inversion E. reflexivity.
  - destruct (nth_error n j); intros E; inversion E. reflexivity.
Qed.

Lemma anstep_proj i n o ci :
  nth_error n i = Some ci ->
  nth_error (fst (anstep n o)) i = Some (thrun ci (proj_step i n o)) /\
  log_of i (tag (anop_chain o) (snd (anstep n o))) = tevents ci (proj_step i n o).
Proof.
  intros Hi. destruct o as [o'|i' now u]; cbn [AppNet.anstep proj_step anop_chain].
  - unfold astep, Net.nstep.
    destruct (resolve app_state n o') as [[[i' now] op]|] eqn:R.
    2:{ cbn [fst snd tag]. split; [exact Hi|reflexivity]. }
    rewrite (resolve_chain _ _ _ _ _ R).
    destruct (Nat.eqb_spec i' i) as [->|NE].
    + rewrite Hi.
      change (step app_state idH a_has_route (a_on_recv nft_escrow mt_escrow) (a_on_ack nft_escrow mt_escrow)
                   (with_now app_state ci now) op)
        with (thstep ci (now, HOp op)).
      cbn [MtCrossChain.thrun fold_left MtCrossChain.tevents].
      destruct (thstep ci (now, HOp op)) as [c' r]. cbn [fst snd].
      split; [eapply nth_error_upd_nth_eq; exact Hi|].
      rewrite log_of_tag_same. destruct r; [rewrite app_nil_r|]; reflexivity.
    + destruct (nth_error n i') as [ci'|] eqn:Hi'.
      * destruct (step _ _ _ _ _ _ _) as [c' r]. cbn [fst snd].
        split; [rewrite nth_error_upd_nth_neq by exact NE; exact Hi|].
        apply log_of_tag_other. exact NE.
      * cbn [fst snd tag]. split; [exact Hi|reflexivity].
  - destruct (Nat.eqb_spec i' i) as [->|NE].
    + rewrite Hi. cbn [MtCrossChain.thrun fold_left MtCrossChain.tevents].
      unfold MtCrossChain.thstep, hstep. cbn [fst snd hexec].
      change (user_exec idH nft_escrow mt_escrow enc_nft enc_mt (with_now app_state ci now) u)
        with (a_user nft_escrow mt_escrow (with_now app_state ci now) u).
      destruct (a_user nft_escrow mt_escrow (with_now app_state ci now) u) as [[c' ev]|]; cbn [fst snd].
      * split; [eapply nth_error_upd_nth_eq; exact Hi|]. rewrite log_of_tag_same, app_nil_r. reflexivity.
      * split; [eapply nth_error_upd_nth_eq; exact Hi|]. reflexivity.
    + destruct (nth_error n i') as [ci'|] eqn:Hi'.
      * destruct (a_user nft_escrow mt_escrow (with_now app_state ci' now) u) as [[c' ev]|]; cbn [fst snd].
        -- split; [rewrite nth_error_upd_nth_neq by exact NE; exact Hi|]. apply log_of_tag_other. exact NE.
        -- split; [rewrite nth_error_upd_nth_neq by exact NE; exact Hi|]. reflexivity.
      * cbn [fst snd tag]. split; [exact Hi|reflexivity].
Qed.

(** PROJECTION THEOREM: exact equality of the whole chain state (time included)
    and of the chain's event log.  No premise beyond "chain i exists". *)
Theorem anrun_proj i ops : forall n ci,
  nth_error n i = Some ci ->
  nth_error (anrun n ops) i = Some (thrun ci (proj i n ops)) /\
  log_of i (anrun_log n ops) = tevents ci (proj i n ops).
Proof.
  induction ops as [|o r IH]; intros n ci Hi.
  - split; [exact Hi|reflexivity].
  - rewrite anrun_cons. cbn [AppNetSim.anrun_log proj].
    destruct (anstep_proj i n o ci Hi) as [S1 S2].
    destruct (anstep n o) as [n' res] eqn:ST. cbn [fst snd] in *.
    destruct (IH n' _ S1) as [R1 R2].
    rewrite thrun_app, tevents_app, log_of_app. split; [exact R1|]. rewrite S2, R2. reflexivity.
Qed.

(** the acts of chain i in a network history *)
Definition nacts (i : nat) (n0 : anet) (ops : list anop) : list act :=
  match nth_error n0 i with Some ci => tacts ci (proj i n0 ops) | None => [] end.

(** [OSetApp] is not part of histories *)
Definition anop_noset (o : anop) : Prop :=
  match o with ANet (NChain _ _ (OSetApp _)) => False | _ => True end.

Lemma proj_step_ok i n o : anop_noset o -> Forall thop_ok (proj_step i n o).
Proof.
  intros OK. destruct o as [o'|i' now u]; cbn [proj_step].
  - destruct (resolve app_state n o') as [[[i' now] op]|] eqn:R; [|constructor].
    destruct (Nat.eqb i' i); [|constructor]. constructor; [|constructor].
    unfold thop_ok. cbn [snd].
    destruct o' as [i0 nw o0|i0 j nw h t pd|i0 j nw h t]; cbn [resolve] in R.
    + inversion R; subst. destruct op; try exact Logic.I. exact OK.
    + destruct (nth_error n j); inversion R; subst. exact Logic.I.
    + destruct (nth_error n j); inversion R; subst. exact Logic.I.
  - destruct (Nat.eqb i' i); constructor; [exact Logic.I|constructor].
Qed.

Lemma proj_ok i ops : forall n, Forall anop_noset ops -> Forall thop_ok (proj i n ops).
Proof.
  induction ops as [|o r IH]; intros n OK; [constructor|].
  inversion OK as [|? ? Oo Or]; subst. cbn [proj]. apply Forall_app. split; [apply proj_step_ok; exact Oo|].
  apply IH. exact Or.
Qed.

(** * the per-chain accounting, for a chain of a network history *)
Theorem net_escrow_accounting n0 ops i ci0 ci cl id :
  Forall anop_noset ops -> nth_error n0 i = Some ci0 -> MtInv (mt_of ci0) ->
  nth_error (anrun n0 ops) i = Some ci ->
  let A := nacts i n0 ops in
  bal_of (mt_of ci) mt_escrow cl id
    + sumf (refunded_away cl id) A + sumf (released_back cl id) A
    + sumf (party_out mt_escrow cl id) A + sumf (user_out mt_escrow cl id) A
  = bal_of (mt_of ci0) mt_escrow cl id
    + sumf (sent_away cl id) A + sumf (party_in mt_escrow cl id) A + sumf (user_in mt_escrow cl id) A
  /\ bal_of (mt_of ci) mt_escrow cl id <= u64max.
Proof.
  intros OK H0 I Hi A. destruct (anrun_proj i ops n0 ci0 H0) as [R _].
  rewrite R in Hi. inversion Hi; subst ci. unfold A, nacts. rewrite H0.
  apply t_escrow_accounting; [apply proj_ok; exact OK|exact I].
Qed.

Theorem net_supply_accounting n0 ops i ci0 ci cl id :
  Forall anop_noset ops -> nth_error n0 i = Some ci0 -> MtInv (mt_of ci0) ->
  nth_error (anrun n0 ops) i = Some ci ->
  let A := nacts i n0 ops in
  supply_of (mt_of ci) cl id + sumf (burned_back cl id) A + sumf (user_burned cl id) A
  = supply_of (mt_of ci0) cl id
    + sumf (minted_recv cl id) A + sumf (reminted_refund cl id) A + sumf (user_minted cl id) A
  /\ supply_of (mt_of ci) cl id <= u64max.
Proof.
  intros OK H0 I Hi A. destruct (anrun_proj i ops n0 ci0 H0) as [R _].
  rewrite R in Hi. inversion Hi; subst ci. unfold A, nacts. rewrite H0.
  apply t_supply_accounting; [apply proj_ok; exact OK|exact I].
Qed.

Theorem net_escrow_accounting_clean n0 ops i ci0 ci cl id :
  Forall anop_noset ops -> nth_error n0 i = Some ci0 -> MtInv (mt_of ci0) ->
  nth_error (anrun n0 ops) i = Some ci -> Forall (act_clean mt_escrow) (nacts i n0 ops) ->
  let A := nacts i n0 ops in
  bal_of (mt_of ci) mt_escrow cl id + sumf (refunded_away cl id) A + sumf (released_back cl id) A
  = bal_of (mt_of ci0) mt_escrow cl id + sumf (sent_away cl id) A.
Proof.
  intros OK H0 I Hi CL A. destruct (anrun_proj i ops n0 ci0 H0) as [R _].
  rewrite R in Hi. inversion Hi; subst ci. unfold A, nacts in *. rewrite H0 in *.
  apply t_escrow_accounting_clean; [apply proj_ok; exact OK|exact I|exact CL].
Qed.

End Proj.
