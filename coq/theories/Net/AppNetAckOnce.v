(** C03 "acknowledged / written at most once" under the weak hash premise
    (forall x, x <> [] -> H x <> []), on single chains, on generic networks and on
    application-network histories. *)
From Tibc Require Import Base.Bytes Base.BytesFacts Base.FMap Host.Keys Host.KeysFacts
  Routing.Rules Packet.Types Packet.Keeper Packet.U64 Packet.KeyEq Packet.KeeperFacts
  Packet.Invariants Packet.AckOnce Packet.AckOnceWeak Net.Net Net.Explained Net.NetInv
  Apps.Path Apps.Nft Apps.Mt Apps.App Harness.AppNet
  Net.AppNetSim Net.AppNetFacts Net.AppNetConserve Net.AppNetNoSelf.
From Coq Require Import ZArith ZifyN ZifyNat ZifyBool.

Section Weak.
Variable A : Type.
Variable H : bytes -> bytes.
Variable has_route : bytes -> bool.
Variable on_recv : A -> packet -> option (A * option bytes).
Variable on_ack : A -> packet -> bytes -> option A.
Hypothesis H_ne : forall x, x <> [] -> H x <> [].

Notation chain := (chain A).
Notation net := (net A).
Notation nrun := (nrun A H has_route on_recv on_ack).
Notation exec := (exec A H has_route on_recv on_ack).
Notation c_name := (c_name A).

(** an accepted acknowledgement needs the stored commitment of exactly that
    packet's data, and removes it *)
Theorem ack_needs_own_commitment_w c p a pf h c' ev :
  msg_ack A H has_route on_ack c p a pf h = Some (c', ev) ->
  commit_at A c (p_src p) (p_dst p) (p_seq p) = Some (H (p_data p)) /\
  commit_at A c' (p_src p) (p_dst p) (p_seq p) = None.
Proof.
  intros E. apply msg_ack_inv in E. destruct E as (_ & c1 & ev1 & AP & KV & _).
  apply ack_packet_inv in AP. destruct AP as (V & _ & B & _ & CN & _).
  split.
  - destruct (commit_at A c (p_src p) (p_dst p) (p_seq p)) as [b|].
    + apply beq_spec in B. subst b. reflexivity.
    + apply beq_spec in B. exfalso. apply (H_ne _ (validate_basic_data _ V)). symmetry. exact B.
  - unfold commit_at in *. rewrite KV. exact CN.
Qed.

(** hence the same packet is acknowledged at most once per commitment *)
Theorem second_ack_refused_w c p a pf h c' ev a2 pf2 h2 :
  msg_ack A H has_route on_ack c p a pf h = Some (c', ev) ->
  msg_ack A H has_route on_ack c' p a2 pf2 h2 = None.
Proof.
  intros E. destruct (ack_needs_own_commitment_w _ _ _ _ _ _ _ E) as [_ CN].
  destruct (msg_ack A H has_route on_ack c' p a2 pf2 h2) as [[c2 ev2]|] eqn:E2; [|reflexivity].
  destruct (ack_needs_own_commitment_w _ _ _ _ _ _ _ E2) as [C2 _]. congruence.
Qed.

(** the per-chain invariant behind "never overwritten", as a network invariant *)
Definition Pg (c : chain) (log : list event) : Prop :=
  c_name c <> [] /\ noslash (c_name c) /\ InvA A c.

Definition names_ok (n : net) : Prop := Forall (fun nm => nm <> [] /\ noslash nm) (names A n).

Lemma nrun_Good n0 ops i ci :
  net_init A n0 -> NoDup (names A n0) -> names_ok n0 ->
  Forall nop_ok ops -> Forall (fun o => nop_noself A (names A n0) o = true) ops ->
  nth_error (nrun n0 ops) i = Some ci -> Good A ci.
Proof.
  intros I0 ND NK W W2 Hi.
  assert (IP : NP A Pg (nrun n0 ops) ([] ++ nrun_log A H has_route on_recv on_ack n0 ops)).
  { apply (nrun_NP2 A H has_route on_recv on_ack); try assumption.
    - intros c t log X. exact X.
    - intros c o c' ev log Wo NSf E (P1 & P2 & P3).
      pose proof (AckOnce.exec_name A H has_route on_recv on_ack _ _ _ _ E) as NM.
      unfold Pg. rewrite NM. split; [exact P1|]. split; [exact P2|].
      eapply (exec_InvA_w A H has_route on_recv on_ack H_ne); eassumption.
    - apply net_init_NS. exact I0.
    - intros j cj Hj. unfold names_ok in NK. rewrite Forall_forall in NK.
      destruct (NK (c_name cj)) as [N1 N2].
      { eapply nth_error_In. apply (names_nth A n0 j cj Hj). }
      split; [exact N1|]. split; [exact N2|]. apply AckOnce.InvA_empty. destruct (I0 j cj Hj) as [KV _]. exact KV. }
  cbn [app] in IP. destruct (IP i ci Hi) as (P1 & P2 & P3).
  split; [|split; [exact P1|split; [exact P2|exact P3]]].
  eapply (nrun_NS A H has_route on_recv on_ack); [exact ND|exact W2| |exact Hi].
  apply net_init_NS. exact I0.
Qed.

Theorem net_relay_ack_never_overwrites n0 ops i ci now p a pf h c' ev :
  net_init A n0 -> NoDup (names A n0) -> names_ok n0 ->
  Forall nop_ok ops -> Forall (fun o => nop_noself A (names A n0) o = true) ops ->
  nth_error (nrun n0 ops) i = Some ci -> wfp p ->
  ack_packet A H (with_now A ci now) p a pf h = Some (c', ev) -> p_relay p = c_name ci ->
  ack_at A ci (p_src p) (p_dst p) (p_seq p) = None.
Proof.
  intros I0 ND NK W W2 Hi Wp E RL.
  pose proof (nrun_Good n0 ops i ci I0 ND NK W W2 Hi) as G.
  exact (passthrough_fresh_w A H H_ne (with_now A ci now) p a pf h c' ev Wp G E RL).
Qed.

End Weak.

Section AppAckOnce.
Variable nft_escrow mt_escrow : bytes.
Notation a_on_recv := (a_on_recv nft_escrow mt_escrow).
Notation a_on_ack := (a_on_ack nft_escrow mt_escrow).
Notation anrun := (anrun nft_escrow mt_escrow).
Notation anrun_log := (anrun_log nft_escrow mt_escrow).

Lemma idH_ne : forall x : bytes, x <> [] -> idH x <> [].
Proof. intros x NE. exact NE. Qed.

Theorem a_Good n0 ops i ci :
  hist_ok n0 ops -> names_ok app_state n0 ->
  nth_error (anrun n0 ops) i = Some ci -> Good app_state ci.
Proof.
  intros (I0 & ND & W & W2) NK Hi.
  destruct (anrun_sim nft_escrow mt_escrow ops n0) as [S1 _]. rewrite S1 in Hi.
  eapply (nrun_Good app_state idH a_has_route a_on_recv a_on_ack idH_ne); try eassumption.
  - apply expand_all_ok_init; assumption.
  - apply expand_all_noself. exact W2.
Qed.

(** never overwritten, in every state of every application-network history *)
Theorem a_relay_ack_never_overwrites n0 ops i ci now p a pf h c' ev :
  hist_ok n0 ops -> names_ok app_state n0 ->
  nth_error (anrun n0 ops) i = Some ci -> wfp p ->
  ack_packet app_state idH (with_now app_state ci now) p a pf h = Some (c', ev) ->
  p_relay p = c_name app_state ci ->
  ack_at app_state ci (p_src p) (p_dst p) (p_seq p) = None.
Proof.
  intros HK NK Hi Wp E RL. pose proof (a_Good n0 ops i ci HK NK Hi) as G.
  exact (passthrough_fresh_w app_state idH idH_ne (with_now app_state ci now) p a pf h c' ev Wp G E RL).
Qed.

(** for packets of other chains, in every state of every history: a stored
    acknowledgement excludes a stored commitment; both imply a receipt or a
    passed clean point *)
Theorem a_ack_excludes_commitment n0 ops i ci s d n :
  hist_ok n0 ops -> names_ok app_state n0 ->
  nth_error (anrun n0 ops) i = Some ci -> wfk s d n -> s <> c_name app_state ci ->
  (commit_at app_state ci s d n <> None -> receipt_at app_state ci s d n <> None) /\
  (ack_at app_state ci s d n <> None -> receipt_at app_state ci s d n <> None \/ n <= clean_seq app_state ci s d) /\
  (ack_at app_state ci s d n <> None -> commit_at app_state ci s d n = None).
Proof.
  intros HK NK Hi K SN. destruct (a_Good n0 ops i ci HK NK Hi) as (_ & _ & _ & I). exact (I s d n K SN).
Qed.

(** an accepted acknowledgement needs and removes the own commitment; the
    second acknowledgement of the same packet is refused (application network) *)
Theorem a_ack_needs_own_commitment c p a pf h c' ev :
  msg_ack app_state idH a_has_route a_on_ack c p a pf h = Some (c', ev) ->
  commit_at app_state c (p_src p) (p_dst p) (p_seq p) = Some (p_data p) /\
  commit_at app_state c' (p_src p) (p_dst p) (p_seq p) = None.
Proof. exact (ack_needs_own_commitment_w app_state idH a_has_route a_on_ack idH_ne c p a pf h c' ev). Qed.

Theorem a_second_ack_refused c p a pf h c' ev a2 pf2 h2 :
  msg_ack app_state idH a_has_route a_on_ack c p a pf h = Some (c', ev) ->
  msg_ack app_state idH a_has_route a_on_ack c' p a2 pf2 h2 = None.
Proof. exact (second_ack_refused_w app_state idH a_has_route a_on_ack idH_ne c p a pf h c' ev a2 pf2 h2). Qed.

End AppAckOnce.
