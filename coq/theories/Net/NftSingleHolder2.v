(** C04 single holder, the exact form of voucher creation (conditional).
    In an application-network history, a step of a chain named J that creates the
    voucher (v, id), v the voucher class of the '/'-free native class cl of the
    chain named I, from a relay-free packet, is backed by a [UNftSend] of EXACTLY
    (cl, id) on the chain named I, whose direction test said "away" and which put
    (cl, id) into the escrow account there.
    Conditional on [paths_wf] of the sending chain's state: every class path is
    (of an existing class) the '/'-free class itself or a voucher path of at least two chains -- this is
    what "no user-issued class contains '/'" (finding D4) gives together with the
    trace-store invariant; it is a premise here, not derived. *)
From Tibc Require Import Base.Bytes Base.BytesFacts Base.FMap Host.Keys Host.KeysFacts Routing.Rules
  Packet.Types Packet.Keeper Packet.KeeperFacts
  Net.Net Net.NetInv Apps.Path Apps.PathFacts Apps.Nft Apps.NftFacts Apps.Mt Apps.App
  Harness.AppNet Net.AppNetSim Net.AppNetNoSelf
  Apps.NftHistory Apps.NftHistoryThm Apps.NftEscrow Net.NftCrossChain Net.NftCrossChain2 Net.NftSingleHolder.

(** the class paths a chain's NFT module would put into a packet are well-formed *)
Definition paths_wf (st : nft_state) : Prop :=
  forall class fp, has_class class st = true -> class_path_of st class = Some fp ->
    (noslash fp /\ fp = class) \/
    (exists p b, fp = full NFT_PFX p b /\ all_noslash p /\ noslash b /\ (2 <= length p)%nat).

(** the packet data a [UNftSend] builds, as a function of the state *)
Definition send_record (c : chain app_state) (class id sender receiver dest contract : bytes) : option nft_data :=
  match class_path_of (nft_of c) class, token_at (nft_of c) class id with
  | Some fp, Some (_, uri) =>
      match determine_away NFT_PFX fp dest with
      | Some away => Some (mkNftData fp id uri sender receiver away contract)
      | None => None
      end
  | _, _ => None
  end.

Section Exact.
Variable nft_escrow mt_escrow : bytes.

Notation achain := (chain app_state).
Notation escrow := nft_escrow.
Notation anrun := (anrun nft_escrow mt_escrow).
Notation anrun_log := (anrun_log nft_escrow mt_escrow).
Notation xexec := (hexec idHh idH addr_ok nft_escrow mt_escrow enc_nft dec_nft enc_mt dec_mt).
Notation c_name := (c_name app_state).
Notation with_now := (with_now app_state).
Notation step_at := (step_at nft_escrow mt_escrow).

(** codec premise, on the history: the harness decoder inverts the encoder on
    the data of every NFT send of the history (true unless a field is 2^64 bytes
    long or longer; checkable by computation on a concrete history) *)
Definition sends_roundtrip (n0 : anet) (ops : list anop) : Prop :=
  forall pre post i ci now class id sender receiver dest relay contract c' q,
    step_at n0 ops pre (AUser i now (UNftSend class id sender receiver dest relay contract)) post
            i ci now (HUser (UNftSend class id sender receiver dest relay contract)) c' [ESend q] ->
    dec_nft (p_data q) = send_record (with_now ci now) class id sender receiver dest contract.

Lemma send_has_class (c : achain) class id sender receiver dest relay contract c' ev :
  xexec c (HUser (UNftSend class id sender receiver dest relay contract)) = Some (c', ev) ->
  has_class class (nft_of c) = true.
Proof.
  cbn [hexec user_exec]. unfold nft_of, nft_send.
  destruct (has_class class (a_nft (c_app app_state c))); [reflexivity|discriminate].
Qed.

Theorem voucher_creation_exact n0 ops pre o post j cj now h c' ev nI nJ cl id :
  hist_ok n0 ops -> Forall no_raw_nft_send ops -> sends_roundtrip n0 ops ->
  (forall a k ck, nth_error (anrun n0 a) k = Some ck -> noslash (c_name ck)) ->
  (forall a k ck, nth_error (anrun n0 a) k = Some ck -> paths_wf (nft_of ck)) ->
  noslash nI -> noslash cl -> c_name cj = nJ ->
  step_at n0 ops pre o post j cj now h c' ev -> not_setapp h -> no_escrow_sig nft_escrow h ->
  VInv nft_escrow (nft_of cj) ->
  let v := voucher_class idHh (away_new_class_path NFT_PFX nI nJ cl) in
  is_voucher v = true ->
  token_at (nft_of cj) v id = None -> token_at (nft_of c') v id <> None ->
  (exists p pf hh, h = HOp (ORecv p pf hh) /\
     (p_relay p = [] ->
      exists k pre1 post1 now1 sender receiver relay contract ck ck' q uri,
        step_at n0 ops pre1 (AUser k now1 (UNftSend cl id sender receiver nJ relay contract)) post1
                k ck now1 (HUser (UNftSend cl id sender receiver nJ relay contract)) ck' [ESend q] /\
        c_name ck = nI /\ p_src p = nI /\ p_data q = p_data p /\ p_seq q = p_seq p /\
        token_at (nft_of (with_now ck now1)) cl id = Some (sender, uri) /\
        token_at (nft_of ck') cl id = Some (escrow, uri))) \/
  (exists owner uri, is_refund_back idHh dec_nft h ev v id owner uri).
Proof.
  intros HO NR RT NN PW NI CL NJ ST NS NE V v IV T0 T1.
  destruct (voucher_creation_cross nft_escrow mt_escrow n0 ops pre o post j cj now h c' ev v id
              HO NR ST NS NE V IV T0 T1) as [(p & pf & hh & d & -> & D & AW & ID & CE & BK)|C];
    [|right; exact C].
  left. exists p, pf, hh. split; [reflexivity|]. intros RL.
  destruct (BK RL) as (k & q & pre1 & post1 & now1 & cl1 & id1 & sender & receiver & dest & relay & contract
                       & ck & ck' & ST1 & NM & K2 & K3 & K4 & SENT).
  destruct SENT as (fp & uri & away & CP & DA & TK & QE & POST).
  (* the data decoded on J is the record of that send *)
  pose proof (RT _ _ _ _ _ _ _ _ _ _ _ _ _ _ ST1) as R1.
  unfold send_record in R1. rewrite CP, TK, DA in R1. rewrite K4, D in R1. inversion R1; subst d. clear R1.
  cbn [nd_away nd_id nd_class] in *. subst away id1.
  (* destination of the packet is this chain *)
  pose proof ST as (_ & Hj & _ & X & _).
  assert (DST : p_dst p = nJ).
  { cbn [hexec exec] in X. apply msg_recv_app in X. destruct X as (_ & [(AP & _)|(DD & _)]).
    - exfalso. apply T1. unfold nft_of. rewrite AP. exact T0.
    - rewrite DD. exact NJ. }
  pose proof ST1 as (_ & Hk & _ & X1 & _).
  pose proof (send_has_class _ _ _ _ _ _ _ _ _ _ X1) as HC.
  assert (NSRC : noslash (p_src p)) by (rewrite <- NM; exact (NN _ _ _ Hk)).
  assert (NDST : noslash nJ) by (rewrite <- NJ; exact (NN _ _ _ Hj)).
  assert (DE : dest = nJ) by (rewrite <- DST, <- K2, QE; reflexivity).
  subst dest. rewrite DST in CE.
  destruct (PW _ _ _ Hk cl1 fp HC CP) as [(NF & ->)|(pp & bb & -> & PP & BB & LL)].
  - destruct (voucher_native_inj nI nJ cl (p_src p) nJ cl1 NI NDST CL NSRC NDST NF CE) as (E1 & _ & E3).
    subst cl1. exists k, pre1, post1, now1, sender, receiver, relay, contract, ck, ck', q, uri.
    split; [exact ST1|]. split; [congruence|]. split; [congruence|]. split; [exact K4|].
    split; [exact K3|]. split; [exact TK|exact POST].
  - exfalso. exact (voucher_native_vs_path nI nJ cl (p_src p) nJ pp bb NI NDST CL NDST PP BB LL CE).
Qed.

End Exact.
