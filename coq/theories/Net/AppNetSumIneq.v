(** The summed form of cross-chain conservation between two chains i (named A)
    and j (named B) of an application-network history:
       (sum of w over j's success-acknowledged deliveries of relay-free MT packets A -> B)
     + (sum of w over i's processed ERROR acknowledgements of relay-free packets A -> B)
    <= (sum of w over i's commitments [ESend] of packets A -> B),
    for every weight function w on the packet data (w = MT amount: conservation
    of units; w = 1: counting).  Sends are NOT filtered by relay or port: those
    fields are not bound by the commitment (known finding D6), a packet sent via a
    relay can be delivered relay-free. *)
From Tibc Require Import Base.Bytes Base.BytesFacts Base.FMap Host.Keys Host.KeysFacts
  Routing.Rules Packet.Types Packet.Keeper Packet.U64 Packet.KeyEq Packet.KeeperFacts
  Packet.Invariants Packet.AckOnce Net.Net Net.Explained Net.NetInv
  Apps.Path Apps.Nft Apps.Mt Apps.MtFacts Apps.App Apps.AppFacts
  Harness.AppNet Net.AppNetSim Net.AppNetFacts Net.AppNetConserve Net.AppNetNoSelf Net.AppNetSums
  Net.AppNetCount.
From Coq Require Import ZArith ZifyN ZifyNat ZifyBool.

(** * multiset domination implies domination of weighted sums *)
Section Dom.
Context {X : Type}.
Variable dec : forall a b : X, {a = b} + {a <> b}.
Variable w : X -> N.

Fixpoint sumw (l : list X) : N := match l with [] => 0 | a :: r => w a + sumw r end.

Lemma sumw_app l1 l2 : sumw (l1 ++ l2) = sumw l1 + sumw l2.
Proof. induction l1 as [|a l IH]; cbn [app sumw]; [reflexivity|]. rewrite IH. lia. Qed.

Theorem dom_sum L1 : forall L2,
  (forall z, (count_occ dec L1 z <= count_occ dec L2 z)%nat) -> sumw L1 <= sumw L2.
Proof.
  induction L1 as [|a L1 IH]; intros L2 D; cbn [sumw]; [lia|].
  assert (Ia : In a L2).
  { apply (count_occ_In dec). specialize (D a). rewrite count_occ_cons_eq in D by reflexivity. lia. }
  apply in_split in Ia. destruct Ia as (l1 & l2 & ->).
  rewrite sumw_app. cbn [sumw].
  assert (G : sumw L1 <= sumw (l1 ++ l2)).
  { apply IH. intros z. specialize (D z). rewrite count_occ_app in *. cbn [count_occ] in D.
    destruct (dec a z); lia. }
  rewrite sumw_app in G. lia.
Qed.

(** lists of keys projected from an event log, and their multiplicities *)
Fixpoint plist (pr : event -> option X) (log : list event) : list X :=
  match log with
  | [] => []
  | e :: r => match pr e with Some z => z :: plist pr r | None => plist pr r end
  end.

Definition isz (pr : event -> option X) (z : X) (e : event) : bool :=
  match pr e with Some z' => if dec z' z then true else false | None => false end.

Lemma count_plist pr log z : count_occ dec (plist pr log) z = cnt (isz pr z) log.
Proof.
  unfold cnt. induction log as [|e r IH]; [reflexivity|]. cbn [plist filter]. unfold isz at 1.
  destruct (pr e) as [z'|]; [|exact IH]. cbn [count_occ]. destruct (dec z' z); cbn [length]; rewrite IH; reflexivity.
Qed.
End Dom.

Lemma cnt_mono (f g : event -> bool) l : (forall e, f e = true -> g e = true) -> (cnt f l <= cnt g l)%nat.
Proof.
  intros I. unfold cnt. induction l as [|e r IH]; [cbn; lia|]. cbn [filter].
  destruct (f e) eqn:F; [rewrite (I e F); cbn; lia|]. destruct (g e); cbn; lia.
Qed.

Lemma cnt_pos_ex (f : event -> bool) l : (1 <= cnt f l)%nat -> exists e, In e l /\ f e = true.
Proof.
  unfold cnt. intros P. destruct (filter f l) as [|e r] eqn:F; [cbn in P; lia|].
  assert (G : In e (filter f l)) by (rewrite F; left; reflexivity).
  apply filter_In in G. exists e. exact G.
Qed.

Lemma In_cnt_pos (f : event -> bool) l e : In e l -> f e = true -> (1 <= cnt f l)%nat.
Proof.
  intros I F. unfold cnt. assert (G : In e (filter f l)) by (apply filter_In; split; assumption).
  destruct (filter f l); [destruct G|cbn; lia].
Qed.

(** * every written acknowledgement in a history concerns a packet with a uint64 sequence *)
Section Gen.
Variable A : Type.
Variable H : bytes -> bytes.
Variable has_route : bytes -> bool.
Variable on_recv : A -> packet -> option (A * option bytes).
Variable on_ack : A -> packet -> bytes -> option A.
Notation nstep := (nstep A H has_route on_recv on_ack).
Notation nrun_log := (nrun_log A H has_route on_recv on_ack).
Notation exec := (exec A H has_route on_recv on_ack).

Lemma exec_wack_wf c o c' ev p a :
  op_wf o -> exec c o = Some (c', ev) -> In (EWriteAck p a) ev -> wfp p.
Proof.
  intros W E F.
  destruct o as [p0|p0 pf h|p0 a0 pf h|cp|cp pf h|nm cl|nm h sn t|rs|dt|ap]; cbn [Keeper.exec] in E.
  - apply send_packet_inv in E. destruct E as (_ & _ & _ & -> & _). destruct F as [F|[]]; discriminate F.
  - apply msg_recv_inv in E. destruct E as (_ & _ & _ & _ & _ & AB & _).
    destruct (AB _ F) as [X|[X|[X|[(b & X)|[(b & X)|(b & X)]]]]]; try discriminate X.
    inversion X; subst. exact W.
  - apply msg_ack_inv in E. destruct E as (_ & c1 & ev1 & AP & _ & _ & _ & _ & _ & Ev).
    apply ack_packet_inv in AP. destruct AP as (_ & _ & _ & _ & _ & _ & Ev1 & _).
    assert (F1 : In (EWriteAck p a) ev1).
    { destruct Ev as [(-> & _)|(-> & _)]; [exact F|].
      apply in_app_or in F. destruct F as [F|[F|[]]]; [exact F|discriminate F]. }
    destruct Ev1 as [->|[-> _]]; cbn in F1.
    + destruct F1 as [F1|[]]. discriminate F1.
    + destruct F1 as [F1|[F1|[]]]; [discriminate F1|]. inversion F1; subst. exact W.
  - apply clean_packet_inv in E. destruct E as (_ & _ & -> & _). destruct F as [F|[]]; discriminate F.
  - destruct (N.eqb h 0); [discriminate|].
    apply recv_clean_inv in E. destruct E as (_ & _ & _ & [->| ->] & _); cbn in F;
      repeat (destruct F as [F|F]; [discriminate F|]); destruct F.
  - destruct (create_client A c nm cl); [|discriminate]. inversion E; subst. destruct F.
  - destruct (update_client A c nm h sn t); [|discriminate]. inversion E; subst. destruct F.
  - destruct (set_rules rs); [|discriminate]. inversion E; subst. destruct F.
  - inversion E; subst. destruct F.
  - inversion E; subst. destruct F.
Qed.

Definition wack_wf (nl : nlog) : Prop := forall i p a, In (i, EWriteAck p a) nl -> wfp p.

Lemma nrun_wack_wf ops : forall n nl, Forall nop_ok ops -> wack_wf nl -> wack_wf (nl ++ nrun_log n ops).
Proof.
  induction ops as [|o r IH]; intros n nl W K.
  - cbn. rewrite app_nil_r. exact K.
  - inversion W as [|? ? Wo Wr]; subst.
    assert (K' : wack_wf (nl ++ tag (nop_chain o) (snd (nstep n o)))).
    { intros i p a F. apply in_app_or in F. destruct F as [F|F]; [exact (K i p a F)|].
      destruct (nstep_open A H has_route on_recv on_ack n o i _ F Wo)
        as (now & o' & ci & ci1 & ev & Wo' & Hi & E & Fe).
      exact (exec_wack_wf _ _ _ _ _ _ Wo' E Fe). }
    cbn [NetInv.nrun_log]. destruct (nstep n o) as [n' res]. cbn [fst snd] in *.
    rewrite app_assoc. apply (IH n'); assumption.
Qed.
End Gen.

(** * the two-chain inequality *)
Section SumIneq.
Variable nft_escrow mt_escrow : bytes.
Variable NA NB : bytes.           (* names of the source chain i and the destination chain j *)
Variable wd : bytes -> N.          (* weight of a packet, read from its data *)

Notation a_on_recv := (a_on_recv nft_escrow mt_escrow).
Notation a_on_ack := (a_on_ack nft_escrow mt_escrow).
Notation anrun := (anrun nft_escrow mt_escrow).
Notation anrun_log := (anrun_log nft_escrow mt_escrow).

Definition kd := (N * bytes)%type.
Definition kd_dec : forall a b : kd, {a = b} + {a <> b}.
Proof. decide equality; [apply bytes_eq_dec | apply N.eq_dec]. Defined.
Definition wz (z : kd) : N := wd (snd z).

Definition sendp (e : event) : option kd :=
  match e with
  | ESend p => if beq (p_src p) NA && beq (p_dst p) NB then Some (p_seq p, p_data p) else None
  | _ => None
  end.
Definition refundp (e : event) : option kd :=
  match e with
  | EAppAck p a =>
      if beq (p_src p) NA && beq (p_dst p) NB && is_nil (p_relay p) && is_err_ack a
      then Some (p_seq p, p_data p) else None
  | _ => None
  end.
Definition creditp (e : event) : option kd :=
  match e with
  | EWriteAck p a =>
      if beq (p_src p) NA && beq (p_dst p) NB && is_nil (p_relay p) && beq (p_port p) MT_PORT && is_ok_ack a
      then Some (p_seq p, p_data p) else None
  | _ => None
  end.

Definition sent_sum (log : list event) : N := sumw wz (plist sendp log).
Definition refunded_sum (log : list event) : N := sumw wz (plist refundp log).
Definition credited_sum (log : list event) : N := sumw wz (plist creditp log).

Lemma isz_refund n x e :
  isz kd_dec refundp (n, x) e = true ->
  exists p a, e = EAppAck p a /\ p_src p = NA /\ p_dst p = NB /\ p_relay p = [] /\
              is_err_ack a = true /\ p_seq p = n /\ p_data p = x.
Proof.
  unfold isz. destruct e as [| | | | |p a| |]; cbn [refundp]; try discriminate.
  destruct (beq (p_src p) NA && beq (p_dst p) NB && is_nil (p_relay p) && is_err_ack a) eqn:B; [|discriminate].
  destruct (kd_dec (p_seq p, p_data p) (n, x)) as [Q|]; [|discriminate]. intros _.
  rewrite !andb_true_iff in B. destruct B as [[[B1 B2] B3] B4].
  apply beq_spec in B1, B2. inversion Q; subst.
  exists p, a. repeat split; auto. destruct (p_relay p); [reflexivity|discriminate].
Qed.

Lemma isz_credit n x e :
  isz kd_dec creditp (n, x) e = true ->
  exists p a, e = EWriteAck p a /\ p_src p = NA /\ p_dst p = NB /\ p_relay p = [] /\
              is_ok_ack a = true /\ p_seq p = n /\ p_data p = x.
Proof.
  unfold isz. destruct e as [| | |p a| | | |]; cbn [creditp]; try discriminate.
  destruct (beq (p_src p) NA && beq (p_dst p) NB && is_nil (p_relay p) && beq (p_port p) MT_PORT && is_ok_ack a)
    eqn:B; [|discriminate].
  destruct (kd_dec (p_seq p, p_data p) (n, x)) as [Q|]; [|discriminate]. intros _.
  rewrite !andb_true_iff in B. destruct B as [[[[B1 B2] B3] _] B4].
  apply beq_spec in B1, B2. inversion Q; subst.
  exists p, a. repeat split; auto. destruct (p_relay p); [reflexivity|discriminate].
Qed.

Lemma isz_send n x q :
  p_src q = NA -> p_dst q = NB -> p_seq q = n -> p_data q = x ->
  isz kd_dec sendp (n, x) (ESend q) = true.
Proof.
  intros E1 E2 E3 E4. unfold isz. cbn [sendp]. rewrite E1, E2, !beq_refl. cbn [andb].
  destruct (kd_dec (p_seq q, p_data q) (n, x)) as [|NE]; [reflexivity|].
  exfalso. apply NE. rewrite E3, E4. reflexivity.
Qed.

(** per key and data: credits on j plus refunds on i never outnumber i's commitments *)
Theorem a_key_ineq n0 ops i ci j cj z :
  hist_ok n0 ops -> noslash NA -> noslash NB ->
  nth_error (anrun n0 ops) i = Some ci -> c_name app_state ci = NA ->
  nth_error (anrun n0 ops) j = Some cj -> c_name app_state cj = NB ->
  (cnt (isz kd_dec creditp z) (log_of j (anrun_log n0 ops)) +
   cnt (isz kd_dec refundp z) (log_of i (anrun_log n0 ops)) <=
   cnt (isz kd_dec sendp z) (log_of i (anrun_log n0 ops)))%nat.
Proof.
  intros HK SA SB Hi NAi Hj NBj. destruct z as [n x].
  pose proof HK as (I0 & ND & W & W2).
  destruct (anrun_sim nft_escrow mt_escrow ops n0) as [S1 S2].
  set (logi := log_of i (anrun_log n0 ops)). set (logj := log_of j (anrun_log n0 ops)).
  destruct (cnt (isz kd_dec refundp (n, x)) logi) as [|r] eqn:R.
  - (* no refund of this key and data *)
    destruct (cnt (isz kd_dec creditp (n, x)) logj) as [|c] eqn:C; [lia|].
    destruct (cnt_pos_ex _ logj ltac:(rewrite C; lia)) as (e & Fe & Ze).
    destruct (isz_credit n x e Ze) as (p & a & -> & P1 & P2 & P3 & P4 & P5 & P6).
    assert (Wp : wfp p).
    { apply in_log_of in Fe. rewrite S2 in Fe.
      refine (nrun_wack_wf app_state idH a_has_route a_on_recv a_on_ack _ n0 [] _ _ j p a Fe).
      - apply expand_all_ok_init; assumption.
      - intros ? ? ? []. }
    assert (K : wfk NA NB n) by (repeat split; try assumption; rewrite <- P5; exact Wp).
    (* at most one credit *)
    assert (C1 : (S c <= 1)%nat).
    { rewrite <- C.
      apply Nat.le_trans with (nwack NA NB n logj).
      { unfold nwack. apply cnt_mono. intros e' Ze'.
        destruct (isz_credit n x e' Ze') as (p' & a' & -> & Q1 & Q2 & _ & _ & Q5 & _).
        cbn [wack_for]. rewrite Q1, Q2, Q5, !beq_refl, N.eqb_refl. reflexivity. }
      apply Nat.le_trans with (ndeliver NA NB n logj).
      { assert (IQ : NP app_state (Qw app_state) (anrun n0 ops) ([] ++ anrun_log n0 ops)).
        { rewrite S1, S2. apply (nrun_NP2 app_state idH a_has_route a_on_recv a_on_ack); try assumption.
          - intros c0 t log X. exact X.
          - apply exec_Qw.
          - apply expand_all_ok_init; assumption.
          - apply expand_all_noself. exact W2.
          - apply net_init_NS. exact I0.
          - intros k ck _. split; [intros; cbn; lia|intros ? ? []]. }
        cbn [app] in IQ. destruct (IQ j cj Hj) as [Q1 _]. rewrite NBj in Q1. exact (Q1 NA n). }
      rewrite <- NBj in K |- *.
      exact (a_deliver_at_most_once nft_escrow mt_escrow n0 ops j cj NA (c_name app_state cj) n I0 W K Hj). }
    (* and it was sent *)
    apply in_log_of in Fe.
    destruct (a_credit_once_and_sent nft_escrow mt_escrow n0 ops j cj p a HK Hj Fe) as (_ & _ & j' & cj' & q & G1 & G2 & G3 & G4 & G5 & G6 & G7);
      try (rewrite ?P1, ?P2; congruence); try assumption.
    assert (PN : prover_name app_state cj p = NA).
    { unfold prover_name. rewrite P3. cbn [is_nil negb]. rewrite andb_false_r. exact P1. }
    rewrite PN, <- NAi in G2.
    assert (j' = i) by (eapply (a_name_unique nft_escrow mt_escrow); eassumption). subst j'.
    assert (S : (1 <= cnt (isz kd_dec sendp (n, x)) logi)%nat).
    { eapply In_cnt_pos; [apply in_log_of; exact G3|]. apply isz_send; congruence. }
    lia.
  - (* this key and data was refunded: never credited, and refunded at most as often as sent *)
    destruct (cnt_pos_ex _ logi ltac:(rewrite R; lia)) as (e & Fe & Ze).
    destruct (isz_refund n x e Ze) as (p & a & -> & P1 & P2 & P3 & P4 & P5 & P6).
    apply in_log_of in Fe.
    assert (C0 : cnt (isz kd_dec creditp (n, x)) logj = 0%nat).
    { destruct (cnt (isz kd_dec creditp (n, x)) logj) as [|c] eqn:C; [reflexivity|]. exfalso.
      destruct (cnt_pos_ex _ logj ltac:(rewrite C; lia)) as (e' & Fe' & Ze').
      destruct (isz_credit n x e' Ze') as (p' & a' & -> & Q1 & Q2 & Q3 & Q4 & Q5 & Q6).
      apply in_log_of in Fe'.
      apply (a_refund_excludes_credit nft_escrow mt_escrow n0 ops i j cj p a p' a' HK Hj Fe); try assumption;
        congruence. }
    destruct (a_appack_wf nft_escrow mt_escrow n0 ops I0 W i p a Fe) as (N1 & N2 & N3).
    assert (K : wfk NA NB n) by (rewrite <- P1, <- P2, <- P5; repeat split; assumption).
    pose proof (a_refunds_le_sends nft_escrow mt_escrow n0 ops i ci NA NB n x I0 W K Hi) as RS.
    fold logi in RS. rewrite C0, <- R.
    apply Nat.le_trans with (cnt (appack_is NA NB n x) logi).
    { apply cnt_mono. intros e' Ze'.
      destruct (isz_refund n x e' Ze') as (p' & a' & -> & Q1 & Q2 & _ & _ & Q5 & Q6).
      cbn [appack_is]. unfold key_is. rewrite Q1, Q2, Q5, Q6, !beq_refl, N.eqb_refl. reflexivity. }
    apply Nat.le_trans with (cnt (send_is NA NB n x) logi); [exact RS|].
    apply cnt_mono. intros e' Ze'. destruct e'; try discriminate Ze'. cbn [send_is] in Ze'.
    apply key_is_true in Ze'. destruct Ze' as (Q1 & Q2 & Q3 & Q4). apply isz_send; assumption.
Qed.

(** THE SUM INEQUALITY *)
Theorem a_sum_ineq n0 ops i ci j cj :
  hist_ok n0 ops -> noslash NA -> noslash NB ->
  nth_error (anrun n0 ops) i = Some ci -> c_name app_state ci = NA ->
  nth_error (anrun n0 ops) j = Some cj -> c_name app_state cj = NB ->
  credited_sum (log_of j (anrun_log n0 ops)) + refunded_sum (log_of i (anrun_log n0 ops))
    <= sent_sum (log_of i (anrun_log n0 ops)).
Proof.
  intros HK SA SB Hi NAi Hj NBj. unfold credited_sum, refunded_sum, sent_sum.
  rewrite <- sumw_app. apply (dom_sum kd_dec). intros z.
  rewrite count_occ_app, !count_plist.
  exact (a_key_ineq n0 ops i ci j cj z HK SA SB Hi NAi Hj NBj).
  all: exact kd_dec.
Qed.

End SumIneq.
