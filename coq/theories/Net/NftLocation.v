(** C04, the two-chain location statement in counting form.

    For a '/'-free native class cl of the chain named nI, an id, and the chain
    named nJ, with vpath = "nft/nI/nJ/cl" and v = its voucher class on nJ, read
    off the two event logs (weights on packet data, harness decoder):
      S   away-sends of (cl,id) committed on I towards J
      R   their refunds on I            C   their credits (success acks) on J
      S'  back-sends of (vpath,id) committed on J towards I
      R'  their refunds on J            C'  their credits on I.
    The sum inequality of Net/AppNetNftSum.v (any weight) gives C + R <= S and
    C' + R' <= S'; so ua = S - C - R (unsettled away-sends) and ub = S' - C' - R'
    (unsettled back-sends) are well defined.

    LEDGER EQUATIONS (per chain, ledger versus own log):
      on I:   [ (cl,id) owned by escrow ] + R + C' = S
      on J:   [ (v,id) exists ] + S' = C + R'
    THEOREM (location identity): if both ledger equations hold after a history,
      [ (cl,id) in escrow on I ] = ua + [ (v,id) exists on J ] + ub.
    As the left side is 0 or 1 this IS the location invariant: either nothing is
    live (L1: not escrowed, no voucher, nothing unsettled), or (cl,id) is
    escrowed and exactly one of: an unsettled away-send (L2), the voucher on J
    (L3), an unsettled back-send (L4).  In particular a voucher on J implies
    escrow on I: never two user holders.

    NOT PROVED HERE: that the two ledger equations are history invariants (they
    are premises below).  See the report for the transitions they need. *)
From Tibc Require Import Base.Bytes Base.BytesFacts Base.FMap Host.Keys Host.KeysFacts Routing.Rules
  Packet.Types Packet.Keeper Packet.KeeperFacts
  Net.Net Net.NetInv Apps.Path Apps.PathFacts Apps.Nft Apps.NftFacts Apps.Mt Apps.App
  Harness.AppNet Net.AppNetSim Net.AppNetNoSelf Net.AppNetSumIneq Net.AppNetNftSum
  Apps.NftHistory Apps.NftHistoryThm Apps.NftEscrow.
From Coq Require Import ZArith Lia ZifyN ZifyNat ZifyBool.

Section Loc.
Variable nft_escrow mt_escrow : bytes.
Variables nI nJ cl id : bytes.

Notation anrun := (anrun nft_escrow mt_escrow).
Notation anrun_log := (anrun_log nft_escrow mt_escrow).
Notation c_name := (c_name app_state).

Definition vpath : bytes := away_new_class_path NFT_PFX nI nJ cl.
Definition vcls : bytes := voucher_class idHh vpath.

(** weights: 1 on the data of an away-send of (cl,id), resp. a back-send of (vpath,id) *)
Definition w_away (x : bytes) : N :=
  match dec_nft x with
  | Some d => if beq (nd_class d) cl && beq (nd_id d) id && nd_away d then 1 else 0
  | None => 0
  end.
Definition w_back (x : bytes) : N :=
  match dec_nft x with
  | Some d => if beq (nd_class d) vpath && beq (nd_id d) id && negb (nd_away d) then 1 else 0
  | None => 0
  end.

Definition S_away (li : list event) : N := sent_sum_g nI nJ w_away li.
Definition R_away (li : list event) : N := refunded_sum_g nI nJ w_away NFT_PORT li.
Definition C_away (lj : list event) : N := credited_sum_g nI nJ w_away NFT_PORT lj.
Definition S_back (lj : list event) : N := sent_sum_g nJ nI w_back lj.
Definition R_back (lj : list event) : N := refunded_sum_g nJ nI w_back NFT_PORT lj.
Definition C_back (li : list event) : N := credited_sum_g nJ nI w_back NFT_PORT li.

(** the two ledger facts, as 0 / 1 *)
Definition escI (ci : chain app_state) : N :=
  match owner_of (nft_of ci) cl id with
  | Some o => if beq o nft_escrow then 1 else 0
  | None => 0
  end.
Definition presJ (cj : chain app_state) : N :=
  match token_at (nft_of cj) vcls id with Some _ => 1 | None => 0 end.

Definition ledger_eq_I (ci : chain app_state) (li : list event) : Prop :=
  escI ci + R_away li + C_back li = S_away li.
Definition ledger_eq_J (cj : chain app_state) (lj : list event) : Prop :=
  presJ cj + S_back lj = C_away lj + R_back lj.

Lemma escI_le1 ci : escI ci <= 1.
Proof. unfold escI. destruct (owner_of _ cl id) as [o|]; [destruct (beq o nft_escrow)|]; lia. Qed.

Lemma escI_1 ci : escI ci = 1 <-> owner_of (nft_of ci) cl id = Some nft_escrow.
Proof.
  unfold escI. destruct (owner_of _ cl id) as [o|]; [|split; [lia|discriminate]].
  destruct (beq o nft_escrow) eqn:B.
  - apply beq_spec in B. subst. split; reflexivity.
  - apply beq_false in B. split; [lia|]. intros E. inversion E. contradiction.
Qed.

Lemma presJ_1 cj : presJ cj = 1 <-> token_at (nft_of cj) vcls id <> None.
Proof. unfold presJ. destruct (token_at _ vcls id); split; try lia; try discriminate; congruence. Qed.

(** ** the location identity *)
Theorem location_identity n0 ops i ci j cj :
  hist_ok n0 ops -> noslash nI -> noslash nJ ->
  nth_error (anrun n0 ops) i = Some ci -> c_name ci = nI ->
  nth_error (anrun n0 ops) j = Some cj -> c_name cj = nJ ->
  let li := log_of i (anrun_log n0 ops) in
  let lj := log_of j (anrun_log n0 ops) in
  ledger_eq_I ci li -> ledger_eq_J cj lj ->
  exists ua ub,
    S_away li = C_away lj + R_away li + ua /\      (* ua unsettled away-sends *)
    S_back lj = C_back li + R_back lj + ub /\      (* ub unsettled back-sends *)
    escI ci = ua + presJ cj + ub.
Proof.
  intros HO NI NJ Hi Ni Hj Nj li lj E1 E2.
  pose proof (a_sum_ineq_g nft_escrow mt_escrow nI nJ w_away NFT_PORT n0 ops i ci j cj HO NI NJ Hi Ni Hj Nj) as Q1.
  pose proof (a_sum_ineq_g nft_escrow mt_escrow nJ nI w_back NFT_PORT n0 ops j cj i ci HO NJ NI Hj Nj Hi Ni) as Q2.
  fold li lj in Q1, Q2. fold (C_away lj) (R_away li) (S_away li) in Q1.
  fold (C_back li) (R_back lj) (S_back lj) in Q2.
  unfold ledger_eq_I, ledger_eq_J in E1, E2.
  exists (S_away li - (C_away lj + R_away li)), (S_back lj - (C_back li + R_back lj)). lia.
Qed.

(** the voucher on J exists only while (cl,id) is owned by the escrow account on I *)
Corollary voucher_implies_escrow n0 ops i ci j cj :
  hist_ok n0 ops -> noslash nI -> noslash nJ ->
  nth_error (anrun n0 ops) i = Some ci -> c_name ci = nI ->
  nth_error (anrun n0 ops) j = Some cj -> c_name cj = nJ ->
  ledger_eq_I ci (log_of i (anrun_log n0 ops)) -> ledger_eq_J cj (log_of j (anrun_log n0 ops)) ->
  token_at (nft_of cj) vcls id <> None -> owner_of (nft_of ci) cl id = Some nft_escrow.
Proof.
  intros HO NI NJ Hi Ni Hj Nj E1 E2 P.
  destruct (location_identity n0 ops i ci j cj HO NI NJ Hi Ni Hj Nj E1 E2) as (ua & ub & _ & _ & Q).
  apply presJ_1 in P. apply escI_1. pose proof (escI_le1 ci). lia.
Qed.

(** hence, GIVEN the ledger equations, (cl,id) and (v,id) are never both in user hands *)
Corollary ledger_eqs_exclude_two_user_holders n0 ops i ci j cj :
  hist_ok n0 ops -> noslash nI -> noslash nJ ->
  nth_error (anrun n0 ops) i = Some ci -> c_name ci = nI ->
  nth_error (anrun n0 ops) j = Some cj -> c_name cj = nJ ->
  ledger_eq_I ci (log_of i (anrun_log n0 ops)) -> ledger_eq_J cj (log_of j (anrun_log n0 ops)) ->
  user_held nft_escrow (nft_of ci) cl id -> user_held nft_escrow (nft_of cj) vcls id -> False.
Proof.
  intros HO NI NJ Hi Ni Hj Nj E1 E2 (o & u & T & N) (o' & u' & T' & _).
  assert (P : token_at (nft_of cj) vcls id <> None) by (rewrite T'; discriminate).
  pose proof (voucher_implies_escrow n0 ops i ci j cj HO NI NJ Hi Ni Hj Nj E1 E2 P) as O.
  unfold owner_of in O. rewrite T in O. cbn in O. inversion O. contradiction.
Qed.

End Loc.
