(** Network invariant: every store snapshot a light client holds for chain f is
    explained by the event log of the chain named f.  Consequences: C01 (inbound
    packets are authentic) and the authenticity half of C03. *)
From Tibc Require Import Base.Bytes Base.BytesFacts Base.FMap Host.Keys Host.KeysFacts
  Routing.Rules Packet.Types Packet.Keeper Packet.U64 Packet.KeyEq Packet.KeeperFacts
  Packet.Invariants Net.Net Net.Explained.
From Coq Require Import ZArith ZifyN ZifyNat ZifyBool.

Section ListFacts.
Context {X : Type}.
Lemma nth_error_upd_nth_eq (l : list X) i x y :
  nth_error l i = Some y -> nth_error (upd_nth l i x) i = Some x.
Proof.
  revert i. induction l as [|z l IH]; intros [|i] E; cbn in *; try discriminate; [reflexivity|].
  apply IH. exact E.
Qed.
Lemma nth_error_upd_nth_neq (l : list X) i j x :
  i <> j -> nth_error (upd_nth l i x) j = nth_error l j.
Proof.
  revert i j. induction l as [|z l IH]; intros [|i] [|j] Hn; cbn; try reflexivity; try congruence.
  apply IH. congruence.
Qed.
End ListFacts.

Section NetInv.
Variable A : Type.
Variable H : bytes -> bytes.
Variable has_route : bytes -> bool.
Variable on_recv : A -> packet -> option (A * option bytes).
Variable on_ack : A -> packet -> bytes -> option A.

Notation chain := (chain A).
Notation net := (net A).
Notation nstep := (nstep A H has_route on_recv on_ack).
Notation step := (step A H has_route on_recv on_ack).
Notation exec := (exec A H has_route on_recv on_ack).
Notation c_kv := (c_kv A).
Notation c_name := (c_name A).
Notation c_clients := (c_clients A).
Notation kv_explained := (kv_explained H).

(** event log of the network: events tagged with the chain that emitted them *)
Definition nlog := list (nat * event).

Definition log_of (j : nat) (nl : nlog) : list event :=
  map snd (filter (fun x => Nat.eqb (fst x) j) nl).

Definition tag (i : nat) (r : option (list event)) : nlog :=
  match r with Some ev => map (pair i) ev | None => [] end.

Lemma log_of_app j a b : log_of j (a ++ b) = log_of j a ++ log_of j b.
Proof. unfold log_of. rewrite filter_app, map_app. reflexivity. Qed.

Lemma log_of_tag_same i r : log_of i (tag i r) = match r with Some ev => ev | None => [] end.
Proof.
  destruct r as [ev|]; [|reflexivity]. unfold log_of, tag.
  induction ev as [|e ev IH]; [reflexivity|]. cbn. rewrite Nat.eqb_refl. cbn. rewrite IH. reflexivity.
Qed.

Lemma log_of_tag_other i j r : i <> j -> log_of j (tag i r) = [].
Proof.
  intros Hn. destruct r as [ev|]; [|reflexivity]. unfold log_of, tag.
  induction ev as [|e ev IH]; [reflexivity|]. cbn.
  destruct (Nat.eqb_spec i j); [contradiction|]. exact IH.
Qed.

Fixpoint nrun_log (n : net) (ops : list (nop A)) : nlog :=
  match ops with
  | [] => []
  | o :: r => let '(n', res) := nstep n o in tag (nop_chain o) res ++ nrun_log n' r
  end.

(** operations of the honest-header network: light-client contents come only
    from NCreate / NUpd (which record the counterparty's real store) *)
Definition nop_ok (o : nop A) : Prop :=
  match o with
  | NChain _ _ o' => op_wf o' /\ not_client_op o'
  | _ => True
  end.

Definition NI (n : net) (nl : nlog) : Prop :=
  (forall j cj, nth_error n j = Some cj -> kv_explained (c_kv cj) (log_of j nl)) /\
  (forall i ci f cl hk snap t,
      nth_error n i = Some ci -> lookup f (c_clients ci) = Some cl ->
      lookup hk (cl_snaps cl) = Some (snap, t) ->
      exists j cj, nth_error n j = Some cj /\ c_name cj = f /\ kv_explained snap (log_of j nl)).

Lemma prune_snaps_sub cl now hk x :
  lookup hk (prune_snaps cl now) = Some x -> lookup hk (cl_snaps cl) = Some x.
Proof.
  unfold prune_snaps. destruct (min_height (cl_snaps cl)) as [m|]; [|auto].
  destruct (snap_at cl m) as [[sn t]|]; [|auto].
  destruct (t + cl_period cl <=? now); [|auto].
  rewrite lookup_remove. destruct (beq hk (hkey m)); [discriminate|auto].
Qed.

Lemma with_now_kv (c : chain) t : c_kv (with_now A c t) = c_kv c.
Proof. reflexivity. Qed.

Lemma nstep_NI n nl o :
  nop_ok o -> NI n nl ->
  NI (fst (nstep n o)) (nl ++ tag (nop_chain o) (snd (nstep n o))).
Proof.
  intros OK [Ia Ib]. unfold Net.nstep.
  destruct (resolve A n o) as [[[i now] o']|] eqn:RS; cbn [fst snd];
    [|cbn; rewrite app_nil_r; split; assumption].
  assert (IC : nop_chain o = i).
  { destruct o as [i0 now0 o0|i0 j now0 h t per|i0 j now0 h t]; cbn [resolve] in RS.
    - inversion RS; reflexivity.
    - destruct (nth_error n j); inversion RS; reflexivity.
    - destruct (nth_error n j); inversion RS; reflexivity. }
  destruct (nth_error n i) as [ci|] eqn:NI0; cbn [fst snd];
    [|cbn; rewrite app_nil_r; split; assumption].
  unfold Keeper.step. destruct (exec (with_now A ci now) o') as [[ci' ev]|] eqn:E; cbn [fst snd].
  2:{ (* failed: only the block time of chain i changed *)
    cbn. rewrite app_nil_r. split.
    - intros j cj Hj. destruct (Nat.eq_dec i j) as [<-|Hn].
      + rewrite (nth_error_upd_nth_eq _ _ _ _ NI0) in Hj. inversion Hj; subst cj. apply (Ia i ci NI0).
      + rewrite nth_error_upd_nth_neq in Hj by exact Hn. apply (Ia j cj Hj).
    - intros i1 c1 f cl hk snap t Hi Hf Hs.
      assert (G : exists c1', nth_error n i1 = Some c1' /\ c_clients c1' = c_clients c1).
      { destruct (Nat.eq_dec i i1) as [<-|Hn].
        - rewrite (nth_error_upd_nth_eq _ _ _ _ NI0) in Hi. inversion Hi; subst c1. eauto.
        - rewrite nth_error_upd_nth_neq in Hi by exact Hn. eauto. }
      destruct G as (c1' & G1 & G2). rewrite <- G2 in Hf.
      destruct (Ib i1 c1' f cl hk snap t G1 Hf Hs) as (j & cj & J1 & J2 & J3).
      destruct (Nat.eq_dec i j) as [<-|Hn].
      + exists i, (with_now A ci now). rewrite (nth_error_upd_nth_eq _ _ _ _ NI0).
        rewrite NI0 in J1. inversion J1; subst cj. auto.
      + exists j, cj. rewrite nth_error_upd_nth_neq by exact Hn. auto. }
  rewrite IC.
  (* the store of chain i stays explained; logs of other chains are unchanged *)
  assert (Ia' : forall j cj, nth_error (upd_nth n i ci') j = Some cj ->
                kv_explained (c_kv cj) (log_of j (nl ++ tag i (Some ev)))).
  { intros j cj Hj. rewrite log_of_app. destruct (Nat.eq_dec i j) as [<-|Hn].
    - rewrite (nth_error_upd_nth_eq _ _ _ _ NI0) in Hj. inversion Hj; subst cj.
      rewrite log_of_tag_same.
      assert (W : op_wf o' \/ (exists a b, o' = OCreateClient a b) \/ (exists a b c0 d, o' = OUpdateClient a b c0 d)).
      { destruct o as [i0 now0 o0|i0 j now0 h t per|i0 j now0 h t]; cbn [resolve] in RS.
        - inversion RS; subst. left. apply OK.
        - destruct (nth_error n j); inversion RS; subst. right. left. eauto.
        - destruct (nth_error n j); inversion RS; subst. right. right. eauto. }
      assert (W' : op_wf o').
      { destruct W as [W|[(a & b & ->)|(a & b & c0 & d & ->)]]; [exact W| exact I | exact I]. }
      eapply exec_explained; [exact W' | exact E |]. rewrite with_now_kv. apply (Ia i ci NI0).
    - rewrite nth_error_upd_nth_neq in Hj by exact Hn. rewrite log_of_tag_other by exact Hn.
      rewrite app_nil_r. apply (Ia j cj Hj). }
  split; [exact Ia'|].
  (* snapshots *)
  assert (MONO : forall j snap, kv_explained snap (log_of j nl) ->
                 kv_explained snap (log_of j (nl ++ tag i (Some ev)))).
  { intros j snap X. rewrite log_of_app. apply explained_mono. exact X. }
  assert (NAME : c_name ci' = c_name ci).
  { destruct o' as [p|p pf h|p a pf h|cp|cp pf h|nm cl|nm h sn t|rs|dt|ap].
    1-5,8-10: (eapply exec_clients_same in E; [destruct E as [_ E]; exact E | exact I]).
    - cbn [Keeper.exec] in E. unfold create_client in E.
      destruct (has nm _); cbn [option_map] in E; [discriminate|]. inversion E; reflexivity.
    - cbn [Keeper.exec] in E. unfold update_client in E.
      destruct (lookup nm _); cbn [option_map] in E; [|discriminate].
      destruct (negb _); cbn [option_map] in E; [discriminate|]. inversion E; reflexivity. }
  (* a witness chain in the old net is still there, with the same name *)
  assert (WIT : forall j cj snap, nth_error n j = Some cj -> kv_explained snap (log_of j nl) ->
                exists cj', nth_error (upd_nth n i ci') j = Some cj' /\ c_name cj' = c_name cj /\
                            kv_explained snap (log_of j (nl ++ tag i (Some ev)))).
  { intros j cj snap Hj X. destruct (Nat.eq_dec i j) as [<-|Hn].
    - exists ci'. rewrite (nth_error_upd_nth_eq _ _ _ _ NI0). rewrite NI0 in Hj. inversion Hj; subst cj.
      auto.
    - exists cj. rewrite nth_error_upd_nth_neq by exact Hn. auto. }
  intros i1 c1 f cl hk snap t Hi Hf Hs.
  destruct (Nat.eq_dec i i1) as [<-|Hn].
  2:{ rewrite nth_error_upd_nth_neq in Hi by exact Hn.
      destruct (Ib i1 c1 f cl hk snap t Hi Hf Hs) as (j & cj & J1 & J2 & J3).
      destruct (WIT j cj snap J1 J3) as (cj' & K1 & K2 & K3). exists j, cj'. rewrite K2. auto. }
  rewrite (nth_error_upd_nth_eq _ _ _ _ NI0) in Hi. inversion Hi; subst c1. clear Hi.
  (* clients of chain i after the step *)
  destruct o as [i0 now0 o0|i0 j now0 h tt0 per|i0 j now0 h tt0]; cbn [resolve] in RS.
  - (* ordinary operation: client table unchanged *)
    inversion RS; subst i0 now0 o0. destruct OK as [_ NC].
    eapply exec_clients_same in E; [|exact NC]. destruct E as [EC _]. rewrite EC in Hf. cbn in Hf.
    destruct (Ib i ci f cl hk snap t NI0 Hf Hs) as (j & cj & J1 & J2 & J3).
    destruct (WIT j cj snap J1 J3) as (cj' & K1 & K2 & K3). exists j, cj'. rewrite K2. auto.
  - (* create client about chain j with j's current store *)
    destruct (nth_error n j) as [cj|] eqn:NJ; [|discriminate]. inversion RS; subst i0 now0 o'. clear RS.
    cbn [Keeper.exec] in E. unfold create_client in E.
    destruct (has (c_name cj) _); cbn [option_map] in E; [discriminate|].
    inversion E; subst ci' ev. clear E. cbn [Keeper.c_clients with_clients with_now] in Hf.
    rewrite lookup_set in Hf. destruct (beq f (c_name cj)) eqn:B.
    + apply beq_spec in B. subst f. inversion Hf; subst cl. cbn [cl_snaps] in Hs.
      rewrite lookup_set in Hs. destruct (beq hk (hkey h)); [|cbn [lookup] in Hs; discriminate].
      inversion Hs; subst snap t.
      destruct (WIT j cj (c_kv cj) NJ (Ia j cj NJ)) as (cj' & K1 & K2 & K3). exists j, cj'. auto.
    + destruct (Ib i ci f cl hk snap t NI0 Hf Hs) as (j1 & cj1 & J1 & J2 & J3).
      destruct (WIT j1 cj1 snap J1 J3) as (cj' & K1 & K2 & K3). exists j1, cj'. rewrite K2. auto.
  - (* update client about chain j with j's current store *)
    destruct (nth_error n j) as [cj|] eqn:NJ; [|discriminate]. inversion RS; subst i0 now0 o'. clear RS.
    cbn [Keeper.exec] in E. unfold update_client in E. cbn [Keeper.c_clients with_now] in E.
    destruct (lookup (c_name cj) (c_clients ci)) as [cl0|] eqn:L0; cbn [option_map] in E; [|discriminate].
    destruct (negb _); cbn [option_map] in E; [discriminate|]. inversion E; subst ci' ev. clear E.
    cbn [Keeper.c_clients with_clients with_now] in Hf.
    rewrite lookup_set in Hf. destruct (beq f (c_name cj)) eqn:B.
    + apply beq_spec in B. subst f. inversion Hf; subst cl. cbn [cl_snaps] in Hs.
      rewrite lookup_set in Hs. destruct (beq hk (hkey h)).
      * inversion Hs; subst snap t.
        destruct (WIT j cj (c_kv cj) NJ (Ia j cj NJ)) as (cj' & K1 & K2 & K3). exists j, cj'. auto.
      * apply prune_snaps_sub in Hs.
        destruct (Ib i ci (c_name cj) cl0 hk snap t NI0 L0 Hs) as (j1 & cj1 & J1 & J2 & J3).
        destruct (WIT j1 cj1 snap J1 J3) as (cj' & K1 & K2 & K3). exists j1, cj'. rewrite K2. auto.
    + destruct (Ib i ci f cl hk snap t NI0 Hf Hs) as (j1 & cj1 & J1 & J2 & J3).
      destruct (WIT j1 cj1 snap J1 J3) as (cj' & K1 & K2 & K3). exists j1, cj'. rewrite K2. auto.
Qed.

Lemma nrun_NI ops : forall n nl,
  Forall nop_ok ops -> NI n nl ->
  NI (nrun A H has_route on_recv on_ack n ops) (nl ++ nrun_log n ops).
Proof.
  induction ops as [|o r IH]; intros n nl W I; cbn.
  - rewrite app_nil_r. exact I.
  - inversion W as [|? ? Wo Wr]; subst.
    pose proof (nstep_NI n nl o Wo I) as S.
    unfold nrun. cbn [fold_left].
    destruct (nstep n o) as [n' res] eqn:ST. cbn [fst snd] in *.
    rewrite app_assoc. apply IH; assumption.
Qed.

(** initial network: chains without light clients whose stores are explained
    by the empty log (in particular: empty stores) *)
Definition net_init (n : net) : Prop :=
  forall j cj, nth_error n j = Some cj -> c_kv cj = [] /\ c_clients cj = [].

Lemma NI_init n : net_init n -> NI n [].
Proof.
  intros I. split.
  - intros j cj Hj. destruct (I j cj Hj) as [-> _]. apply explained_nil.
  - intros i ci f cl hk snap t Hi Hf. destruct (I i ci Hi) as [_ E]. rewrite E in Hf. discriminate.
Qed.

(** * C01: an accepted receive is authentic *)

Hypothesis H_inj : forall x y, H x = H y -> x = y.

Definition prover_name (c : chain) (p : packet) : bytes :=
  if beq (p_dst p) (c_name c) && negb (is_nil (p_relay p)) then p_relay p else p_src p.

Lemma recv_authentic_state n nl i ci now p pf h c' ev :
  NI n nl -> wfp p -> nth_error n i = Some ci ->
  msg_recv A H has_route on_recv (with_now A ci now) p pf h = Some (c', ev) ->
  exists j cj p',
    nth_error n j = Some cj /\ c_name cj = prover_name ci p /\
    In (ESend p') (log_of j nl) /\
    p_src p' = p_src p /\ p_dst p' = p_dst p /\ p_seq p' = p_seq p /\ p_data p' = p_data p.
Proof.
  intros [_ Ib] W Hi E.
  pose proof E as E1. apply msg_recv_inv in E1. destruct E1 as (V & _).
  apply msg_recv_vals in E. destruct E as (_ & _ & _ & cl & CL & _ & VF).
  cbn [Keeper.c_name Keeper.c_clients with_now] in CL, VF.
  unfold verify in VF. destruct pf as [g k|]; [|discriminate].
  rewrite !andb_true_iff in VF. destruct VF as [_ VF].
  destruct (snap_at cl h) as [[snap t]|] eqn:SA; [|discriminate].
  unfold opt_beq in VF. destruct (lookup _ snap) as [v|] eqn:LS; [|discriminate].
  apply beq_spec in VF. subst v.
  destruct (Ib i ci _ cl (hkey h) snap t Hi CL SA) as (j & cj & J1 & J2 & J3).
  assert (K : wfk (p_src p) (p_dst p) (p_seq p)).
  { apply validate_basic_names in V. destruct V as (V1 & V2 & _). repeat split; assumption. }
  destruct (J3 _ _ _ (H (p_data p)) K) as [S _]. destruct (S LS) as (p' & P1 & P2 & P3 & P4 & P5).
  exists j, cj, p'. repeat split; auto.
Qed.

Theorem recv_authentic n0 ops i ci now p pf h c' ev :
  net_init n0 -> Forall nop_ok ops -> wfp p ->
  nth_error (nrun A H has_route on_recv on_ack n0 ops) i = Some ci ->
  msg_recv A H has_route on_recv (with_now A ci now) p pf h = Some (c', ev) ->
  exists j cj p',
    nth_error (nrun A H has_route on_recv on_ack n0 ops) j = Some cj /\
    c_name cj = prover_name ci p /\
    In (ESend p') (log_of j (nrun_log n0 ops)) /\
    p_src p' = p_src p /\ p_dst p' = p_dst p /\ p_seq p' = p_seq p /\ p_data p' = p_data p.
Proof.
  intros I0 W Wp Hi E.
  pose proof (nrun_NI ops n0 [] W (NI_init n0 I0)) as I. cbn [app] in I.
  eapply recv_authentic_state; eauto.
Qed.

(** * C03: an accepted acknowledgement is authentic *)

Definition ack_prover_name (c : chain) (p : packet) : bytes :=
  if beq (p_src p) (c_name c) && negb (is_nil (p_relay p)) then p_relay p else p_dst p.

Theorem ack_authentic n0 ops i ci now p a pf h c' ev :
  net_init n0 -> Forall nop_ok ops -> wfp p ->
  nth_error (nrun A H has_route on_recv on_ack n0 ops) i = Some ci ->
  msg_ack A H has_route on_ack (with_now A ci now) p a pf h = Some (c', ev) ->
  (* the proving chain recorded exactly that acknowledgement for that packet *)
  exists j cj p' a',
    nth_error (nrun A H has_route on_recv on_ack n0 ops) j = Some cj /\
    c_name cj = ack_prover_name ci p /\
    In (EWriteAck p' a') (log_of j (nrun_log n0 ops)) /\
    p_src p' = p_src p /\ p_dst p' = p_dst p /\ p_seq p' = p_seq p /\ a' = a.
Proof.
  intros I0 W Wp Hi E.
  pose proof (nrun_NI ops n0 [] W (NI_init n0 I0)) as [_ Ib]. cbn [app] in Ib.
  apply msg_ack_inv in E. destruct E as (_ & c1 & ev1 & AP & _).
  apply ack_packet_inv in AP. destruct AP as (V & _ & _ & (from & cl & CL & _ & -> & VF) & _).
  cbn [Keeper.c_name Keeper.c_clients with_now] in CL, VF.
  unfold verify in VF. destruct pf as [g k|]; [|discriminate].
  rewrite !andb_true_iff in VF. destruct VF as [_ VF].
  destruct (snap_at cl h) as [[snap t]|] eqn:SA; [|discriminate].
  unfold opt_beq in VF. destruct (lookup _ snap) as [v|] eqn:LS; [|discriminate].
  apply beq_spec in VF. subst v.
  destruct (Ib i ci _ cl (hkey h) snap t Hi CL SA) as (j & cj & J1 & J2 & J3).
  assert (K : wfk (p_src p) (p_dst p) (p_seq p)).
  { apply validate_basic_names in V. destruct V as (V1 & V2 & _). repeat split; assumption. }
  destruct (J3 _ _ _ (H a) K) as [_ S]. destruct (S LS) as (p' & a' & P1 & P2 & P3 & P4 & P5).
  exists j, cj, p', a'. repeat split; auto.
Qed.

(** the local half: an accepted acknowledgement requires the stored commitment
    to equal the hash of the presented packet's data, and removes it *)
Theorem ack_needs_own_commitment c p a pf h c' ev :
  (forall x, H x <> []) ->
  msg_ack A H has_route on_ack c p a pf h = Some (c', ev) ->
  commit_at A c (p_src p) (p_dst p) (p_seq p) = Some (H (p_data p)) /\
  commit_at A c' (p_src p) (p_dst p) (p_seq p) = None.
Proof.
  intros NE E. apply msg_ack_inv in E. destruct E as (_ & c1 & ev1 & AP & KV & _).
  apply ack_packet_inv in AP. destruct AP as (_ & _ & B & _ & CN & _).
  split.
  - destruct (commit_at A c (p_src p) (p_dst p) (p_seq p)) as [b|].
    + apply beq_spec in B. subst b. reflexivity.
    + apply beq_spec in B. exfalso. eapply NE. symmetry. exact B.
  - unfold commit_at in *. rewrite KV. exact CN.
Qed.

End NetInv.

Arguments nop_ok {A} o.
