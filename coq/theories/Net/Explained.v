(** Every commitment / acknowledgement entry of a chain's store is explained by
    an event the chain logged (single-chain invariant I2/I3), for all histories. *)
From Tibc Require Import Base.Bytes Base.BytesFacts Base.FMap Host.Keys Host.KeysFacts
  Routing.Rules Packet.Types Packet.Keeper Packet.U64 Packet.KeyEq Packet.KeeperFacts Packet.Invariants.
From Coq Require Import ZArith ZifyN ZifyNat ZifyBool.

Section DelRangeSome.
Context {V : Type}.
Lemma lookup_del_range_some f cnt : forall start (m : fmap V) k v,
  lookup k (del_range f start cnt m) = Some v -> lookup k m = Some v.
Proof.
  induction cnt as [|c IH]; intros start m k v E; cbn [del_range] in E; [exact E|].
  apply IH in E. rewrite lookup_remove in E. destruct (beq k (f start)); [discriminate | exact E].
Qed.
End DelRangeSome.

Lemma clean_acks_receipts_some s d n kv k v :
  lookup k (clean_acks_receipts s d n kv) = Some v -> lookup k kv = Some v.
Proof.
  unfold clean_acks_receipts. intros E.
  apply lookup_del_range_some in E. apply lookup_del_range_some in E. exact E.
Qed.

Section Explained.
Variable A : Type.
Variable H : bytes -> bytes.
Variable has_route : bytes -> bool.
Variable on_recv : A -> packet -> option (A * option bytes).
Variable on_ack : A -> packet -> bytes -> option A.

Notation chain := (chain A).
Notation exec := (exec A H has_route on_recv on_ack).
Notation c_kv := (c_kv A).

Definition sent_in (log : list event) (s d : bytes) (n : N) (v : bytes) : Prop :=
  exists p, In (ESend p) log /\ p_src p = s /\ p_dst p = d /\ p_seq p = n /\ v = H (p_data p).

Definition acked_in (log : list event) (s d : bytes) (n : N) (v : bytes) : Prop :=
  exists p a, In (EWriteAck p a) log /\ p_src p = s /\ p_dst p = d /\ p_seq p = n /\ v = H a.

Definition kv_explained (kv : fmap bytes) (log : list event) : Prop :=
  forall s d n v, wfk s d n ->
    (lookup (commit_key s d n) kv = Some v -> sent_in log s d n v) /\
    (lookup (ack_key s d n) kv = Some v -> acked_in log s d n v).

Lemma sent_in_mono log ev s d n v : sent_in log s d n v -> sent_in (log ++ ev) s d n v.
Proof. intros (p & Hi & R). exists p. split; [apply in_or_app; left; exact Hi | exact R]. Qed.

Lemma acked_in_mono log ev s d n v : acked_in log s d n v -> acked_in (log ++ ev) s d n v.
Proof. intros (p & a & Hi & R). exists p, a. split; [apply in_or_app; left; exact Hi | exact R]. Qed.

Lemma explained_mono kv log ev : kv_explained kv log -> kv_explained kv (log ++ ev).
Proof.
  intros E s d n v K. destruct (E s d n v K) as [E1 E2]. split; intros X.
  - apply sent_in_mono. auto.
  - apply acked_in_mono. auto.
Qed.

Lemma explained_nil log : kv_explained [] log.
Proof. intros s d n v _. split; discriminate. Qed.

(** same key => same structured key, for well-formed names *)
Lemma seq_key_eq_fields f s d n p :
  is_fam f -> wfk s d n -> validate_basic p = true -> wfp p ->
  seq_key f s d n = seq_key f (p_src p) (p_dst p) (p_seq p) ->
  p_src p = s /\ p_dst p = d /\ p_seq p = n.
Proof.
  intros Hf (Ws & Wd & Wn) V W E.
  apply validate_basic_names in V. destruct V as (V1 & V2 & _).
  apply seq_key_inj in E; try assumption; try (apply is_fam_noslash; exact Hf);
    try (apply two64_lt_bound; assumption).
  destruct E as (_ & -> & -> & ->). auto.
Qed.

Lemma exec_explained c o c' ev log :
  op_wf o -> exec c o = Some (c', ev) ->
  kv_explained (c_kv c) log -> kv_explained (c_kv c') (log ++ ev).
Proof.
  intros W E I s d n v K. specialize (I s d n v K). destruct I as [I1 I2].
  destruct o as [p|p pf h|p a pf h|cp|cp pf h|nm cl|nm h sn t|rs|dt|ap]; cbn [Keeper.exec] in E.
  - (* send *)
    pose proof E as E0. apply send_packet_inv in E. destruct E as (V & _ & _ & -> & ->).
    cbn [Keeper.c_kv with_kv]. split; intros X.
    + destruct (bytes_eq_dec (commit_key s d n) (commit_key (p_src p) (p_dst p) (p_seq p))) as [Q|Q].
      * rewrite Q, lookup_set_eq in X. inversion X; subst v.
        unfold commit_key in Q. apply seq_key_eq_fields in Q; auto with keys.
        destruct Q as (Q1 & Q2 & Q3). exists p. split; [apply in_or_app; right; left; reflexivity|auto].
      * rewrite lookup_set_neq in X by exact Q. rewrite lookup_set_neq in X by fam_neq.
        apply sent_in_mono. auto.
    + rewrite !lookup_set_neq in X by fam_neq. apply acked_in_mono. auto.
  - (* receive *)
    pose proof E as E1. apply msg_recv_inv in E1. destruct E1 as (V & _ & _ & _ & F & _).
    pose proof E as E2. apply msg_recv_vals in E2. destruct E2 as (CV & AV & _).
    split; intros X.
    + destruct (bytes_eq_dec (commit_key s d n) (commit_key (p_src p) (p_dst p) (p_seq p))) as [Q|Q].
      * pose proof Q as Q'. unfold commit_key in Q'. apply seq_key_eq_fields in Q'; auto with keys.
        destruct Q' as (Q1 & Q2 & Q3). unfold KeeperFacts.commit_at in CV. rewrite <- Q in CV.
        destruct CV as [CV|(CV & Hi & _)].
        -- rewrite CV in X. apply sent_in_mono. auto.
        -- rewrite CV in X. inversion X; subst v. exists p.
           split; [apply in_or_app; right; exact Hi|auto].
      * rewrite F in X; [apply sent_in_mono; auto | fam_neq | exact Q | fam_neq | fam_neq].
    + destruct (bytes_eq_dec (ack_key s d n) (ack_key (p_src p) (p_dst p) (p_seq p))) as [Q|Q].
      * pose proof Q as Q'. unfold ack_key in Q'. apply seq_key_eq_fields in Q'; auto with keys.
        destruct Q' as (Q1 & Q2 & Q3). unfold KeeperFacts.ack_at in AV. rewrite <- Q in AV.
        destruct AV as [AV|(a & AV & Hi & _)].
        -- rewrite AV in X. apply acked_in_mono. auto.
        -- rewrite AV in X. inversion X; subst v. exists p, a.
           split; [apply in_or_app; right; exact Hi|auto].
      * rewrite F in X; [apply acked_in_mono; auto | fam_neq | fam_neq | exact Q | fam_neq].
  - (* acknowledge *)
    apply msg_ack_inv in E. destruct E as (_ & c1 & ev1 & AP & KV & _ & _ & _ & _ & EV).
    pose proof AP as E1. apply ack_packet_inv in E1. destruct E1 as (V & _ & _ & _ & CN & F & _).
    pose proof AP as AV. apply ack_packet_vals in AV.
    rewrite KV.
    assert (SUB : forall e, In e ev1 -> In e ev).
    { destruct EV as [(-> & _)|(-> & _)]; intros e Hi; [exact Hi | apply in_or_app; left; exact Hi]. }
    split; intros X.
    + destruct (bytes_eq_dec (commit_key s d n) (commit_key (p_src p) (p_dst p) (p_seq p))) as [Q|Q].
      * unfold KeeperFacts.commit_at in CN. rewrite <- Q in CN. rewrite CN in X. discriminate.
      * rewrite F in X; [apply sent_in_mono; auto | exact Q | fam_neq | fam_neq].
    + destruct (bytes_eq_dec (ack_key s d n) (ack_key (p_src p) (p_dst p) (p_seq p))) as [Q|Q].
      * pose proof Q as Q'. unfold ack_key in Q'. apply seq_key_eq_fields in Q'; auto with keys.
        destruct Q' as (Q1 & Q2 & Q3). unfold KeeperFacts.ack_at in AV. rewrite <- Q in AV.
        destruct AV as [(_ & _ & AV)|(-> & _ & AV)].
        -- rewrite AV in X. apply acked_in_mono. auto.
        -- rewrite AV in X. inversion X; subst v. exists p, a.
           split; [apply in_or_app; right; apply SUB; right; left; reflexivity|auto].
      * rewrite F in X; [apply acked_in_mono; auto | fam_neq | exact Q | fam_neq].
  - (* clean on the source *)
    apply clean_packet_inv in E. destruct E as (_ & _ & _ & ->). cbn [Keeper.c_kv with_kv].
    split; intros X; apply clean_acks_receipts_some in X; rewrite lookup_set_neq in X by fam_neq.
    + apply sent_in_mono. auto.
    + apply acked_in_mono. auto.
  - destruct (N.eqb h 0); [discriminate|].
    apply recv_clean_inv in E. destruct E as (_ & _ & _ & _ & ->). cbn [Keeper.c_kv with_kv].
    split; intros X; rewrite lookup_set_neq in X by fam_neq; apply clean_acks_receipts_some in X.
    + apply sent_in_mono. auto.
    + apply acked_in_mono. auto.
  - unfold create_client in E. destruct (has nm _); [discriminate|]. inversion E; subst.
    cbn. rewrite app_nil_r. split; auto.
  - unfold update_client in E. destruct (lookup nm _); [|discriminate].
    destruct (negb _); [discriminate|]. inversion E; subst. cbn. rewrite app_nil_r. split; auto.
  - destruct (set_rules rs); [|discriminate]. inversion E; subst. cbn. rewrite app_nil_r. split; auto.
  - inversion E; subst. cbn. rewrite app_nil_r. split; auto.
  - inversion E; subst. cbn. rewrite app_nil_r. split; auto.
Qed.

(** non-client operations leave the client table alone *)
Definition not_client_op (o : op A) : Prop :=
  match o with OCreateClient _ _ | OUpdateClient _ _ _ _ => False | _ => True end.

Lemma exec_clients_same c o c' ev :
  not_client_op o -> exec c o = Some (c', ev) -> c_clients A c' = c_clients A c /\ c_name A c' = c_name A c.
Proof.
  intros NC E.
  destruct o as [p|p pf h|p a pf h|cp|cp pf h|nm cl|nm h sn t|rs|dt|ap]; cbn [Keeper.exec] in E;
    try contradiction.
  - apply send_packet_inv in E. destruct E as (_ & _ & _ & _ & ->). auto.
  - apply msg_recv_inv in E. destruct E as (_ & _ & _ & _ & _ & _ & _ & _ & N1 & N2 & _). auto.
  - apply msg_ack_inv in E. destruct E as (_ & c1 & ev1 & _ & _ & N1 & N2 & _). auto.
  - apply clean_packet_inv in E. destruct E as (_ & _ & _ & ->). auto.
  - destruct (N.eqb h 0); [discriminate|].
    apply recv_clean_inv in E. destruct E as (_ & _ & _ & _ & ->). auto.
  - destruct (set_rules rs); [|discriminate]. inversion E; subst. auto.
  - inversion E; subst. auto.
  - inversion E; subst. auto.
Qed.

End Explained.

Arguments not_client_op {A} o.
