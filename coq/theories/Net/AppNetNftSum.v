(** Net/AppNetSumIneq.v made generic in the application port: credits and
    refunds are those of packets on port PT (MT_PORT: multi-token units;
    NFT_PORT: tokens), commitments are unfiltered (port and relay are not bound by
    the commitment).  The proof is that of AppNetSumIneq.v -- the port is not used
    in it.  Instances: NFT count (w = 1) and MT amounts. *)
From Tibc Require Import Base.Bytes Base.BytesFacts Base.FMap Host.Keys Host.KeysFacts
  Routing.Rules Packet.Types Packet.Keeper Packet.U64 Packet.KeyEq Packet.KeeperFacts
  Packet.Invariants Packet.AckOnce Net.Net Net.Explained Net.NetInv
  Apps.Path Apps.Nft Apps.Mt Apps.MtFacts Apps.App Apps.AppFacts
  Harness.AppNet Net.AppNetSim Net.AppNetFacts Net.AppNetConserve Net.AppNetNoSelf Net.AppNetSums
  Net.AppNetCount Net.AppNetSumIneq.
From Coq Require Import ZArith ZifyN ZifyNat ZifyBool.

(** * the two-chain inequality *)
Section SumIneqG.
Variable nft_escrow mt_escrow : bytes.
Variable NA NB : bytes.           (* names of the source chain i and the destination chain j *)
Variable wd : bytes -> N.          (* weight of a packet, read from its data *)
Variable PT : bytes.               (* port of the application whose credits / refunds are counted *)

Notation a_on_recv := (a_on_recv nft_escrow mt_escrow).
Notation a_on_ack := (a_on_ack nft_escrow mt_escrow).
Notation anrun := (anrun nft_escrow mt_escrow).
Notation anrun_log := (anrun_log nft_escrow mt_escrow).

Definition wz_g (z : kd) : N := wd (snd z).

Definition sendp_g (e : event) : option kd :=
  match e with
  | ESend p => if beq (p_src p) NA && beq (p_dst p) NB then Some (p_seq p, p_data p) else None
  | _ => None
  end.
Definition refundp_g (e : event) : option kd :=
  match e with
  | EAppAck p a =>
      if beq (p_src p) NA && beq (p_dst p) NB && is_nil (p_relay p) && beq (p_port p) PT && is_err_ack a
      then Some (p_seq p, p_data p) else None
  | _ => None
  end.
Definition creditp_g (e : event) : option kd :=
  match e with
  | EWriteAck p a =>
      if beq (p_src p) NA && beq (p_dst p) NB && is_nil (p_relay p) && beq (p_port p) PT && is_ok_ack a
      then Some (p_seq p, p_data p) else None
  | _ => None
  end.

Definition sent_sum_g (log : list event) : N := sumw wz_g (plist sendp_g log).
Definition refunded_sum_g (log : list event) : N := sumw wz_g (plist refundp_g log).
Definition credited_sum_g (log : list event) : N := sumw wz_g (plist creditp_g log).

Lemma isz_refund_g n x e :
  isz kd_dec refundp_g (n, x) e = true ->
  exists p a, e = EAppAck p a /\ p_src p = NA /\ p_dst p = NB /\ p_relay p = [] /\
              is_err_ack a = true /\ p_seq p = n /\ p_data p = x.
Proof.
  unfold isz. destruct e as [| | | | |p a| |]; cbn [refundp_g]; try discriminate.
  destruct (beq (p_src p) NA && beq (p_dst p) NB && is_nil (p_relay p) && beq (p_port p) PT && is_err_ack a) eqn:B;
    [|discriminate].
  destruct (kd_dec (p_seq p, p_data p) (n, x)) as [Q|]; [|discriminate]. intros _.
  rewrite !andb_true_iff in B. destruct B as [[[[B1 B2] B3] _] B4].
  apply beq_spec in B1, B2. inversion Q; subst.
  exists p, a. repeat split; auto. destruct (p_relay p); [reflexivity|discriminate].
Qed.

Lemma isz_credit_g n x e :
  isz kd_dec creditp_g (n, x) e = true ->
  exists p a, e = EWriteAck p a /\ p_src p = NA /\ p_dst p = NB /\ p_relay p = [] /\
              is_ok_ack a = true /\ p_seq p = n /\ p_data p = x.
Proof.
  unfold isz. destruct e as [| | |p a| | | |]; cbn [creditp_g]; try discriminate.
  destruct (beq (p_src p) NA && beq (p_dst p) NB && is_nil (p_relay p) && beq (p_port p) PT && is_ok_ack a)
    eqn:B; [|discriminate].
  destruct (kd_dec (p_seq p, p_data p) (n, x)) as [Q|]; [|discriminate]. intros _.
  rewrite !andb_true_iff in B. destruct B as [[[[B1 B2] B3] _] B4].
  apply beq_spec in B1, B2. inversion Q; subst.
  exists p, a. repeat split; auto. destruct (p_relay p); [reflexivity|discriminate].
Qed.

Lemma isz_send_g n x q :
  p_src q = NA -> p_dst q = NB -> p_seq q = n -> p_data q = x ->
  isz kd_dec sendp_g (n, x) (ESend q) = true.
Proof.
  intros E1 E2 E3 E4. unfold isz. cbn [sendp_g]. rewrite E1, E2, !beq_refl. cbn [andb].
  destruct (kd_dec (p_seq q, p_data q) (n, x)) as [|NE]; [reflexivity|].
  exfalso. apply NE. rewrite E3, E4. reflexivity.
Qed.

(** per key and data: credits on j plus refunds on i never outnumber i's commitments *)
Theorem a_key_ineq_g n0 ops i ci j cj z :
  hist_ok n0 ops -> noslash NA -> noslash NB ->
  nth_error (anrun n0 ops) i = Some ci -> c_name app_state ci = NA ->
  nth_error (anrun n0 ops) j = Some cj -> c_name app_state cj = NB ->
  (cnt (isz kd_dec creditp_g z) (log_of j (anrun_log n0 ops)) +
   cnt (isz kd_dec refundp_g z) (log_of i (anrun_log n0 ops)) <=
   cnt (isz kd_dec sendp_g z) (log_of i (anrun_log n0 ops)))%nat.
Proof.
  intros HK SA SB Hi NAi Hj NBj. destruct z as [n x].
  pose proof HK as (I0 & ND & W & W2).
  destruct (anrun_sim nft_escrow mt_escrow ops n0) as [S1 S2].
  set (logi := log_of i (anrun_log n0 ops)). set (logj := log_of j (anrun_log n0 ops)).
  destruct (cnt (isz kd_dec refundp_g (n, x)) logi) as [|r] eqn:R.
  - (* no refund of this key and data *)
    destruct (cnt (isz kd_dec creditp_g (n, x)) logj) as [|c] eqn:C; [lia|].
    destruct (cnt_pos_ex _ logj ltac:(rewrite C; lia)) as (e & Fe & Ze).
    destruct (isz_credit_g n x e Ze) as (p & a & -> & P1 & P2 & P3 & P4 & P5 & P6).
    assert (Wp : wfp p).
    { apply in_log_of in Fe. rewrite S2 in Fe.
      refine (nrun_wack_wf app_state idH a_has_route a_on_recv a_on_ack _ n0 [] _ _ j p a Fe).
      - apply expand_all_ok_init; assumption.
      - intros ? ? ? []. }
    assert (K : wfk NA NB n) by (repeat split; try assumption; rewrite <- P5; exact Wp).
    (* at most one credit *)
    assert (C1 : (S c <= 1)%nat).
    { rewrite <- C.
      apply Nat.le_trans with (nwack NA NB n logj).
      { unfold nwack. apply cnt_mono. intros e' Ze'.
        destruct (isz_credit_g n x e' Ze') as (p' & a' & -> & Q1 & Q2 & _ & _ & Q5 & _).
        cbn [wack_for]. rewrite Q1, Q2, Q5, !beq_refl, N.eqb_refl. reflexivity. }
      apply Nat.le_trans with (ndeliver NA NB n logj).
      { assert (IQ : NP app_state (Qw app_state) (anrun n0 ops) ([] ++ anrun_log n0 ops)).
        { rewrite S1, S2. apply (nrun_NP2 app_state idH a_has_route a_on_recv a_on_ack); try assumption.
          - intros c0 t log X. exact X.
          - apply exec_Qw.
          - apply expand_all_ok_init; assumption.
          - apply expand_all_noself. exact W2.
          - apply net_init_NS. exact I0.
          - intros k ck _. split; [intros; cbn; lia|intros ? ? []]. }
        cbn [app] in IQ. destruct (IQ j cj Hj) as [Q1 _]. rewrite NBj in Q1. exact (Q1 NA n). }
      rewrite <- NBj in K |- *.
      exact (a_deliver_at_most_once nft_escrow mt_escrow n0 ops j cj NA (c_name app_state cj) n I0 W K Hj). }
    (* and it was sent *)
    apply in_log_of in Fe.
    destruct (a_credit_once_and_sent nft_escrow mt_escrow n0 ops j cj p a HK Hj Fe) as (_ & _ & j' & cj' & q & G1 & G2 & G3 & G4 & G5 & G6 & G7);
      try (rewrite ?P1, ?P2; congruence); try assumption.
    assert (PN : prover_name app_state cj p = NA).
    { unfold prover_name. rewrite P3. cbn [is_nil negb]. rewrite andb_false_r. exact P1. }
    rewrite PN, <- NAi in G2.
    assert (j' = i) by (eapply (a_name_unique nft_escrow mt_escrow); eassumption). subst j'.
    assert (S : (1 <= cnt (isz kd_dec sendp_g (n, x)) logi)%nat).
    { eapply In_cnt_pos; [apply in_log_of; exact G3|]. apply isz_send_g; congruence. }
    lia.
  - (* this key and data was refunded: never credited, and refunded at most as often as sent *)
    destruct (cnt_pos_ex _ logi ltac:(rewrite R; lia)) as (e & Fe & Ze).
    destruct (isz_refund_g n x e Ze) as (p & a & -> & P1 & P2 & P3 & P4 & P5 & P6).
    apply in_log_of in Fe.
    assert (C0 : cnt (isz kd_dec creditp_g (n, x)) logj = 0%nat).
    { destruct (cnt (isz kd_dec creditp_g (n, x)) logj) as [|c] eqn:C; [reflexivity|]. exfalso.
      destruct (cnt_pos_ex _ logj ltac:(rewrite C; lia)) as (e' & Fe' & Ze').
      destruct (isz_credit_g n x e' Ze') as (p' & a' & -> & Q1 & Q2 & Q3 & Q4 & Q5 & Q6).
      apply in_log_of in Fe'.
      apply (a_refund_excludes_credit nft_escrow mt_escrow n0 ops i j cj p a p' a' HK Hj Fe); try assumption;
        congruence. }
    destruct (a_appack_wf nft_escrow mt_escrow n0 ops I0 W i p a Fe) as (N1 & N2 & N3).
    assert (K : wfk NA NB n) by (rewrite <- P1, <- P2, <- P5; repeat split; assumption).
    pose proof (a_refunds_le_sends nft_escrow mt_escrow n0 ops i ci NA NB n x I0 W K Hi) as RS.
    fold logi in RS. rewrite C0, <- R.
    apply Nat.le_trans with (cnt (appack_is NA NB n x) logi).
    { apply cnt_mono. intros e' Ze'.
      destruct (isz_refund_g n x e' Ze') as (p' & a' & -> & Q1 & Q2 & _ & _ & Q5 & Q6).
      cbn [appack_is]. unfold key_is. rewrite Q1, Q2, Q5, Q6, !beq_refl, N.eqb_refl. reflexivity. }
    apply Nat.le_trans with (cnt (send_is NA NB n x) logi); [exact RS|].
    apply cnt_mono. intros e' Ze'. destruct e'; try discriminate Ze'. cbn [send_is] in Ze'.
    apply key_is_true in Ze'. destruct Ze' as (Q1 & Q2 & Q3 & Q4). apply isz_send_g; assumption.
Qed.

(** THE SUM INEQUALITY *)
Theorem a_sum_ineq_g n0 ops i ci j cj :
  hist_ok n0 ops -> noslash NA -> noslash NB ->
  nth_error (anrun n0 ops) i = Some ci -> c_name app_state ci = NA ->
  nth_error (anrun n0 ops) j = Some cj -> c_name app_state cj = NB ->
  credited_sum_g (log_of j (anrun_log n0 ops)) + refunded_sum_g (log_of i (anrun_log n0 ops))
    <= sent_sum_g (log_of i (anrun_log n0 ops)).
Proof.
  intros HK SA SB Hi NAi Hj NBj. unfold credited_sum_g, refunded_sum_g, sent_sum_g.
  rewrite <- sumw_app. apply (dom_sum kd_dec). intros z.
  rewrite count_occ_app, !count_plist.
  exact (a_key_ineq_g n0 ops i ci j cj z HK SA SB Hi NAi Hj NBj).
  all: exact kd_dec.
Qed.

End SumIneqG.

(** instances *)
Section Instances.
Variable nft_escrow mt_escrow : bytes.
Variable NA NB : bytes.

(** NFT: number of success-acknowledged NFT deliveries on j of relay-free packets
    NA -> NB  +  number of processed NFT error acknowledgements (refunds) on i
    <=  number of i's commitments NA -> NB *)
Theorem a_nft_count_ineq n0 ops i ci j cj :
  hist_ok n0 ops -> noslash NA -> noslash NB ->
  nth_error (anrun nft_escrow mt_escrow n0 ops) i = Some ci -> c_name app_state ci = NA ->
  nth_error (anrun nft_escrow mt_escrow n0 ops) j = Some cj -> c_name app_state cj = NB ->
  credited_sum_g NA NB (fun _ => 1) NFT_PORT (log_of j (anrun_log nft_escrow mt_escrow n0 ops)) +
  refunded_sum_g NA NB (fun _ => 1) NFT_PORT (log_of i (anrun_log nft_escrow mt_escrow n0 ops))
    <= sent_sum_g NA NB (fun _ => 1) (log_of i (anrun_log nft_escrow mt_escrow n0 ops)).
Proof. exact (a_sum_ineq_g nft_escrow mt_escrow NA NB (fun _ => 1) NFT_PORT n0 ops i ci j cj). Qed.
End Instances.
