(** 24-host/keys.go: the packet-layer store keys, as the byte strings the Go
    code builds with fmt.Sprintf("%s/%s/...").  A key is the '/'-join of its
    components. *)
From Tibc Require Import Base.Bytes.

Definition path (l : list bytes) : bytes := join [slash] l.

Definition K_nextsend   := of_string "nextSequenceSend".
Definition K_commit     := of_string "commitments".
Definition K_ack        := of_string "acks".
Definition K_receipt    := of_string "receipts".
Definition K_clean      := of_string "clean".
Definition K_maxack     := of_string "maxAckSeq".
Definition K_sequences  := of_string "sequences".

Definition next_send_key (s d : bytes) : bytes := path [K_nextsend; s; d].
Definition seq_key (fam s d : bytes) (n : N) : bytes := path [fam; s; d; K_sequences; dec n].
Definition commit_key  := seq_key K_commit.
Definition ack_key     := seq_key K_ack.
Definition receipt_key := seq_key K_receipt.
Definition clean_key (s d : bytes) : bytes := path [K_clean; s; d].
Definition maxack_key (s d : bytes) : bytes := path [K_maxack; s; d].
