From Tibc Require Import Base.Bytes Base.BytesFacts Host.Keys.

Definition noslash (x : bytes) : Prop := ~ In slash x.

Lemma path_inj l l' :
  l <> [] -> l' <> [] -> Forall noslash l -> Forall noslash l' ->
  path l = path l' -> l = l'.
Proof.
  intros Hn Hn' F F' E. unfold path in E.
  rewrite <- (split_join slash l Hn F), <- (split_join slash l' Hn' F'), E. reflexivity.
Qed.

Lemma noslash_of_string_consts :
  noslash K_nextsend /\ noslash K_commit /\ noslash K_ack /\ noslash K_receipt /\
  noslash K_clean /\ noslash K_maxack /\ noslash K_sequences.
Proof.
  unfold noslash. repeat split; rewrite <- contains_false; vm_compute; reflexivity.
Qed.

Lemma noslash_dec n : noslash (dec n).
Proof. apply dec_noslash. Qed.

Ltac solve_noslash :=
  repeat (apply Forall_cons || apply Forall_nil);
  try apply noslash_dec; try (apply noslash_of_string_consts); try assumption.

Definition fam_ok (fam : bytes) : Prop := noslash fam.

Lemma seq_key_inj fam fam' s d n s' d' n' :
  noslash fam -> noslash fam' ->
  noslash s -> noslash d -> noslash s' -> noslash d' ->
  n < dec_bound -> n' < dec_bound ->
  seq_key fam s d n = seq_key fam' s' d' n' -> fam = fam' /\ s = s' /\ d = d' /\ n = n'.
Proof.
  intros Hf Hf' Hs Hd Hs' Hd' Hn Hn' E. unfold seq_key in E.
  apply path_inj in E; [| discriminate | discriminate | solve_noslash | solve_noslash].
  inversion E; subst. repeat split; try reflexivity. apply dec_inj; assumption.
Qed.

Lemma pair_key_inj fam fam' s d s' d' :
  noslash fam -> noslash fam' ->
  noslash s -> noslash d -> noslash s' -> noslash d' ->
  path [fam; s; d] = path [fam'; s'; d'] -> fam = fam' /\ s = s' /\ d = d'.
Proof.
  intros Hf Hf' Hs Hd Hs' Hd' E.
  apply path_inj in E; [| discriminate | discriminate | solve_noslash | solve_noslash].
  inversion E; subst. auto.
Qed.

Lemma seq_key_ne_pair_key fam fam' s d n s' d' :
  noslash fam -> noslash fam' ->
  noslash s -> noslash d -> noslash s' -> noslash d' ->
  seq_key fam s d n <> path [fam'; s'; d'].
Proof.
  intros Hf Hf' Hs Hd Hs' Hd' E. unfold seq_key in E.
  apply path_inj in E; [discriminate | discriminate | discriminate | solve_noslash | solve_noslash].
Qed.

(** the family literals are pairwise distinct *)
Lemma fam_distinct :
  K_commit <> K_ack /\ K_commit <> K_receipt /\ K_ack <> K_receipt /\
  K_clean <> K_maxack /\ K_clean <> K_nextsend /\ K_maxack <> K_nextsend.
Proof. repeat split; intros E; apply beq_spec in E; vm_compute in E; discriminate. Qed.

(** * cross-family disjointness (no assumption on the chain names) *)

Lemma path_cons2 fam x rest : path (fam :: x :: rest) = fam ++ slash :: path (x :: rest).
Proof. reflexivity. Qed.

Lemma path_fam_inj fam fam' x rest x' rest' :
  noslash fam -> noslash fam' ->
  path (fam :: x :: rest) = path (fam' :: x' :: rest') -> fam = fam'.
Proof.
  intros Hf Hf' E. rewrite !path_cons2 in E.
  apply join2_inj in E; [tauto | exact Hf | exact Hf'].
Qed.

Definition key_fam (k : bytes) : bytes := hd [] (split slash k).

Lemma key_fam_path fam x rest : noslash fam -> key_fam (path (fam :: x :: rest)) = fam.
Proof.
  intros Hf. unfold key_fam. rewrite path_cons2. rewrite split_app by exact Hf. reflexivity.
Qed.

Lemma fam_ne_key_ne k k' : key_fam k <> key_fam k' -> k <> k'.
Proof. intros H E. subst. apply H. reflexivity. Qed.

(** * big-endian counters *)

Lemma be_aux_acc w : forall n acc, be_aux w n acc = be_aux w n [] ++ acc.
Proof.
  induction w as [|w IH]; intros n acc; cbn [be_aux]; [reflexivity|].
  rewrite IH. rewrite (IH _ [_]). rewrite <- app_assoc. reflexivity.
Qed.
