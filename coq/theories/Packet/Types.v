(** 04-packet/types: packets, clean packets, basic validation. *)
From Tibc Require Import Base.Bytes Routing.Rules.

Record packet := mkPacket {
  p_seq : N; p_src : bytes; p_dst : bytes; p_relay : bytes; p_port : bytes; p_data : bytes }.

Record cleanpkt := mkClean { cp_seq : N; cp_src : bytes; cp_dst : bytes; cp_relay : bytes }.

Definition is_nil {A} (l : list A) : bool := match l with [] => true | _ => false end.

(** 24-host defaultIdentifierValidator(id, min, 64): not blank, no '/',
    length within bounds, characters from the identifier alphabet.  (Blank and
    '/' are excluded by the alphabet.) *)
Definition name_ok (min : nat) (x : bytes) : bool :=
  Nat.leb min (length x) && Nat.leb (length x) 64 && forallb id_char x.

Definition valid_src := name_ok 2.    (* SourceChainValidator *)
Definition valid_dst := name_ok 8.    (* DestChainValidator *)

(** Packet.ValidateBasic (after fix 118a6f5: chain names validated) *)
Definition validate_basic (p : packet) : bool :=
  negb (N.eqb (p_seq p) 0) && negb (is_nil (p_data p)) &&
  valid_src (p_src p) && valid_dst (p_dst p) &&
  (is_nil (p_relay p) || valid_src (p_relay p)).

(** CleanPacket.ValidateBasic *)
Definition clean_validate_basic (cp : cleanpkt) : bool :=
  negb (N.eqb (cp_seq cp) 0) &&
  (is_nil (cp_src cp) || valid_src (cp_src cp)) && valid_dst (cp_dst cp) &&
  (is_nil (cp_relay cp) || valid_src (cp_relay cp)).

Definition packet_eqb (p q : packet) : bool :=
  N.eqb (p_seq p) (p_seq q) && beq (p_src p) (p_src q) && beq (p_dst p) (p_dst q) &&
  beq (p_relay p) (p_relay q) && beq (p_port p) (p_port q) && beq (p_data p) (p_data q).

(** events the packet keeper emits (ghost log of the model, compared with the
    implementation's ABCI events) *)
Inductive event :=
| ESend (p : packet)                 (* send_packet: own send or relay re-commit *)
| ERecv (p : packet)                 (* recv_packet *)
| EDeliver (p : packet)              (* application OnRecvPacket ran (ghost) *)
| EWriteAck (p : packet) (a : bytes) (* write_acknowledgement *)
| EAck (p : packet) (a : bytes)      (* acknowledge_packet *)
| EAppAck (p : packet) (a : bytes)   (* application OnAcknowledgementPacket ran (ghost) *)
| ECleanSend (cp : cleanpkt)         (* send_clean_packet *)
| ECleanRecv (cp : cleanpkt).        (* recv_clean_packet *)
