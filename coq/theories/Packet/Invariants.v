(** Single-chain invariants over arbitrary operation sequences:
    clean point monotone (C10), receipts persist until cleaned, the destination
    application sees each (source,destination,sequence) at most once (C02),
    send sequences (C09). *)
From Tibc Require Import Base.Bytes Base.BytesFacts Base.FMap Host.Keys Host.KeysFacts
  Routing.Rules Packet.Types Packet.Keeper Packet.U64 Packet.KeyEq Packet.KeeperFacts.
From Coq Require Import ZArith ZifyN ZifyNat ZifyBool.

Section DelRange.
Context {V : Type}.
Lemma del_range_none_inv f cnt : forall start (m : fmap V) k,
  lookup k (del_range f start cnt m) = None -> lookup k m = None \/ in_range f start cnt k.
Proof.
  induction cnt as [|c IH]; intros start m k Hn; cbn [del_range] in Hn; [left; exact Hn|].
  apply IH in Hn. destruct Hn as [Hn|Hn].
  - rewrite lookup_remove in Hn. destruct (beq k (f start)) eqn:E.
    + right. apply in_range_S. left. apply beq_spec. exact E.
    + left. exact Hn.
  - right. apply in_range_S. right. exact Hn.
Qed.
End DelRange.

(** ** what a successful operation does to the store, by operation kind *)

Lemma clean_acks_receipts_other s d n kv k :
  key_fam k <> K_ack -> key_fam k <> K_receipt ->
  lookup k (clean_acks_receipts s d n kv) = lookup k kv.
Proof.
  intros H1 H2. unfold clean_acks_receipts, receipt_key, ack_key.
  rewrite lookup_del_range_fam by (auto with keys).
  apply lookup_del_range_fam; auto with keys.
Qed.

Lemma key_fam_clean s d : key_fam (clean_key s d) = K_clean.
Proof. unfold clean_key. apply key_fam_pair. apply is_fam_noslash. auto with keys. Qed.

Lemma K_clean_ne : K_clean <> K_ack /\ K_clean <> K_receipt.
Proof. split; intro E; apply beq_spec in E; vm_compute in E; discriminate. Qed.

Definition wfk (s d : bytes) (n : N) : Prop := noslash s /\ noslash d /\ n < two64.

Lemma clean_validate_basic_names cp :
  clean_validate_basic cp = true -> noslash (cp_src cp) /\ noslash (cp_dst cp).
Proof.
  unfold clean_validate_basic. rewrite !andb_true_iff, orb_true_iff. intros [[[_ S] D] _].
  split.
  - destruct S as [S|S].
    + destruct (cp_src cp); [intros []|discriminate].
    + eapply name_ok_noslash; exact S.
  - eapply name_ok_noslash; exact D.
Qed.


Section Inv.
Variable A : Type.
Variable H : bytes -> bytes.
Variable has_route : bytes -> bool.
Variable on_recv : A -> packet -> option (A * option bytes).
Variable on_ack : A -> packet -> bytes -> option A.

Notation chain := (chain A).
Notation exec := (exec A H has_route on_recv on_ack).
Notation step := (step A H has_route on_recv on_ack).
Notation run := (run A H has_route on_recv on_ack).
Notation run_log := (run_log A H has_route on_recv on_ack).
Notation c_kv := (c_kv A).
Notation c_name := (c_name A).
Notation clean_seq := (clean_seq A).
Notation receipt_at := (receipt_at A).
Notation commit_at := (commit_at A).
Notation ack_at := (ack_at A).

(** C10: the clean point of every pair never decreases *)
Lemma exec_clean_mono c o c' ev s d :
  op_wf o -> exec c o = Some (c', ev) -> clean_seq c s d <= clean_seq c' s d.
Proof.
  intros W E. unfold Keeper.clean_seq.
  destruct o as [p|p pf h|p a pf h|cp|cp pf h|nm cl|nm h sn t|rs|dt|ap]; cbn [Keeper.exec] in E.
  - apply send_packet_inv in E. destruct E as (_ & _ & _ & _ & ->). cbn [Keeper.c_kv with_kv].
    rewrite !lookup_set_neq by fam_neq. lia.
  - apply msg_recv_inv in E. destruct E as (_ & _ & _ & _ & F & _).
    rewrite F by fam_neq. lia.
  - apply msg_ack_inv in E. destruct E as (_ & c1 & ev1 & AP & K & _).
    apply ack_packet_inv in AP. destruct AP as (_ & _ & _ & _ & _ & F & _).
    rewrite K, F by fam_neq. lia.
  - apply clean_packet_inv in E. destruct E as (_ & V & _ & ->). cbn [Keeper.c_kv with_kv].
    pose proof K_clean_ne as [N1 N2].
    rewrite clean_acks_receipts_other by (rewrite key_fam_clean; assumption).
    rewrite lookup_set. destruct (beq (clean_key s d) (clean_key (c_name c) (cp_dst cp))) eqn:B; [|lia].
    apply beq_spec in B. rewrite B. apply validate_clean_inv in V. destruct V as (L & _).
    cbn [cp_src cp_dst cp_seq] in L. unfold Keeper.clean_seq in L.
    rewrite u64_of_be64 by exact W. lia.
  - destruct (N.eqb h 0); [discriminate|].
    apply recv_clean_inv in E. destruct E as (_ & V & _ & _ & ->). cbn [Keeper.c_kv with_kv].
    pose proof K_clean_ne as [N1 N2].
    rewrite lookup_set. destruct (beq (clean_key s d) (clean_key (cp_src cp) (cp_dst cp))) eqn:B.
    + apply beq_spec in B. rewrite B. apply validate_clean_inv in V. destruct V as (L & _).
      unfold Keeper.clean_seq in L. rewrite u64_of_be64 by exact W. lia.
    + rewrite clean_acks_receipts_other by (rewrite key_fam_clean; assumption). lia.
  - unfold create_client in E. destruct (has nm _); [discriminate|]. inversion E; subst. cbn. lia.
  - unfold update_client in E. destruct (lookup nm _); [|discriminate].
    destruct (negb _); [discriminate|]. inversion E; subst. cbn. lia.
  - destruct (set_rules rs); [|discriminate]. inversion E; subst. cbn. lia.
  - inversion E; subst. cbn. lia.
  - inversion E; subst. cbn. lia.
Qed.

(** receipts persist until the clean point passes them *)
Lemma exec_receipt_persist c o c' ev s d n :
  op_wf o -> wfk s d n -> exec c o = Some (c', ev) ->
  receipt_at c s d n <> None ->
  receipt_at c' s d n <> None \/ n <= clean_seq c' s d.
Proof.
  intros W (Ws & Wd & Wn) E R. unfold KeeperFacts.receipt_at in *.
  destruct o as [p|p pf h|p a pf h|cp|cp pf h|nm cl|nm h sn t|rs|dt|ap]; cbn [Keeper.exec] in E.
  - apply send_packet_inv in E. destruct E as (_ & _ & _ & _ & ->). cbn [Keeper.c_kv with_kv].
    left. rewrite !lookup_set_neq by fam_neq. exact R.
  - apply msg_recv_inv in E. destruct E as (_ & _ & _ & R' & F & _). left.
    destruct (bytes_eq_dec (receipt_key s d n) (receipt_key (p_src p) (p_dst p) (p_seq p))) as [Eq|Ne].
    + rewrite Eq. unfold KeeperFacts.receipt_at in R'. rewrite R'. discriminate.
    + rewrite F; [exact R | exact Ne | fam_neq | fam_neq | fam_neq].
  - apply msg_ack_inv in E. destruct E as (_ & c1 & ev1 & AP & K & _).
    apply ack_packet_inv in AP. destruct AP as (_ & _ & _ & _ & _ & F & _).
    left. rewrite K, F by fam_neq. exact R.
  - (* source-side clean: the clean point is stored first, so nothing is deleted *)
    apply clean_packet_inv in E. destruct E as (_ & _ & _ & ->). cbn [Keeper.c_kv with_kv].
    left. unfold clean_acks_receipts. rewrite lookup_set_eq. rewrite u64_of_be64 by exact W.
    rewrite N.sub_diag. cbn [N.to_nat del_range]. rewrite lookup_set_neq by fam_neq. exact R.
  - destruct (N.eqb h 0); [discriminate|].
    apply recv_clean_inv in E. destruct E as (VB & V & _ & _ & ->). cbn [Keeper.c_kv with_kv].
    apply clean_validate_basic_names in VB. destruct VB as [Vs Vd].
    rewrite lookup_set_neq by fam_neq.
    destruct (lookup (receipt_key s d n) (clean_acks_receipts (cp_src cp) (cp_dst cp) (cp_seq cp) (c_kv c))) eqn:LK;
      [left; discriminate|].
    right. unfold clean_acks_receipts in LK.
    apply del_range_none_inv in LK. destruct LK as [LK|IR].
    + unfold ack_key in LK.
      rewrite lookup_del_range_fam in LK; [contradiction | auto with keys | ].
      unfold receipt_key. rewrite key_fam_seq by (apply is_fam_noslash; auto with keys).
      intro X. apply beq_spec in X. vm_compute in X. discriminate.
    + destruct IR as [i [Hi Eq]]. rewrite Nnat.N2Nat.id in Hi. unfold receipt_key in Eq.
      apply seq_key_inj in Eq; try assumption;
        try (apply is_fam_noslash; auto with keys);
        try (apply two64_lt_bound; exact Wn).
      * destruct Eq as (_ & -> & -> & ->). unfold Keeper.clean_seq. cbn [Keeper.c_kv with_kv].
        rewrite lookup_set_eq. rewrite u64_of_be64 by exact W.
        apply validate_clean_inv in V. destruct V as (L & _). unfold Keeper.clean_seq in L. lia.
      * apply validate_clean_inv in V. destruct V as (L & _). unfold Keeper.clean_seq in L.
        apply two64_lt_bound. cbn in W. unfold wfcp in W. lia.
  - unfold create_client in E. destruct (has nm _); [discriminate|]. inversion E; subst. left. exact R.
  - unfold update_client in E. destruct (lookup nm _); [|discriminate].
    destruct (negb _); [discriminate|]. inversion E; subst. left. exact R.
  - destruct (set_rules rs); [|discriminate]. inversion E; subst. left. exact R.
  - inversion E; subst. left. exact R.
  - inversion E; subst. left. exact R.
Qed.

(** ** C02: at most one delivery per (source, destination, sequence) *)

Definition deliver_for (s d : bytes) (n : N) (e : event) : bool :=
  match e with
  | EDeliver p => beq (p_src p) s && beq (p_dst p) d && N.eqb (p_seq p) n
  | _ => false
  end.

Definition ndeliver (s d : bytes) (n : N) (log : list event) : nat :=
  length (filter (deliver_for s d n) log).

Lemma ndeliver_app s d n l1 l2 : ndeliver s d n (l1 ++ l2) = (ndeliver s d n l1 + ndeliver s d n l2)%nat.
Proof. unfold ndeliver. rewrite filter_app, app_length. reflexivity. Qed.

Lemma filter_deliver_for s d n l :
  filter (deliver_for s d n) l = filter (deliver_for s d n) (filter is_deliver l).
Proof.
  induction l as [|e r IH]; [reflexivity|]. cbn.
  destruct e; cbn; try exact IH. destruct (_ && _); cbn; rewrite IH; reflexivity.
Qed.

(** which operations make the application process a packet *)
Lemma exec_deliver_events c o c' ev :
  exec c o = Some (c', ev) ->
  filter is_deliver ev = [] \/
  exists p pf h, o = ORecv p pf h /\ filter is_deliver ev = [EDeliver p] /\
    validate_basic p = true /\ clean_seq c (p_src p) (p_dst p) < p_seq p /\
    receipt_at c (p_src p) (p_dst p) (p_seq p) = None /\
    receipt_at c' (p_src p) (p_dst p) (p_seq p) = Some receipt_val.
Proof.
  intros E.
  destruct o as [p|p pf h|p a pf h|cp|cp pf h|nm cl|nm h sn t|rs|dt|ap]; cbn [Keeper.exec] in E.
  - apply send_packet_inv in E. destruct E as (_ & _ & _ & -> & _). left. reflexivity.
  - apply msg_recv_inv in E. destruct E as (V & L & R0 & R1 & _ & _ & [D|D] & _).
    + left. exact D.
    + right. exists p, pf, h. auto 10.
  - apply msg_ack_inv in E. destruct E as (_ & c1 & ev1 & AP & _ & _ & _ & _ & _ & Ev).
    apply ack_packet_inv in AP. destruct AP as (_ & _ & _ & _ & _ & _ & Ev1 & _).
    left. destruct Ev as [(-> & _)|(-> & _)]; destruct Ev1 as [->|[-> _]]; reflexivity.
  - apply clean_packet_inv in E. destruct E as (_ & _ & -> & _). left. reflexivity.
  - destruct (N.eqb h 0); [discriminate|].
    apply recv_clean_inv in E. destruct E as (_ & _ & _ & [->| ->] & _); left; reflexivity.
  - destruct (create_client A c nm cl); [|discriminate]. inversion E; subst. left. reflexivity.
  - destruct (update_client A c nm h sn t); [|discriminate]. inversion E; subst. left. reflexivity.
  - destruct (set_rules rs); [|discriminate]. inversion E; subst. left. reflexivity.
  - inversion E; subst. left. reflexivity.
  - inversion E; subst. left. reflexivity.
Qed.

Definition InvD (c : chain) (log : list event) : Prop :=
  forall s d n, wfk s d n ->
    (ndeliver s d n log <= 1)%nat /\
    ((1 <= ndeliver s d n log)%nat -> receipt_at c s d n <> None \/ n <= clean_seq c s d).

Lemma exec_InvD c o c' ev log :
  op_wf o -> exec c o = Some (c', ev) -> InvD c log -> InvD c' (log ++ ev).
Proof.
  intros W E I s d n K. specialize (I s d n K). destruct I as [I1 I2].
  rewrite ndeliver_app.
  assert (KEEP : (1 <= ndeliver s d n log)%nat -> receipt_at c' s d n <> None \/ n <= clean_seq c' s d).
  { intros G. destruct (I2 G) as [R|L].
    - eapply exec_receipt_persist; eauto.
    - right. pose proof (exec_clean_mono c o c' ev s d W E). lia. }
  destruct (exec_deliver_events c o c' ev E) as [D|(p & pf & h & -> & D & V & L & R0 & R1)].
  - assert (Z : ndeliver s d n ev = 0%nat).
    { unfold ndeliver. rewrite filter_deliver_for, D. reflexivity. }
    rewrite Z, Nat.add_0_r. split; [exact I1|exact KEEP].
  - unfold ndeliver at 2 4. rewrite filter_deliver_for, D. cbn [filter deliver_for].
    destruct (beq (p_src p) s && beq (p_dst p) d && N.eqb (p_seq p) n) eqn:M.
    + rewrite !andb_true_iff in M. destruct M as [[M1 M2] M3].
      apply beq_spec in M1, M2. apply N.eqb_eq in M3. subst s d n.
      assert (Z : ndeliver (p_src p) (p_dst p) (p_seq p) log = 0%nat).
      { destruct (ndeliver (p_src p) (p_dst p) (p_seq p) log) eqn:Q; [reflexivity|].
        exfalso. destruct I2 as [R|LL]; [lia| |].
        - apply R. exact R0.
        - lia. }
      rewrite Z. cbn. split; [lia|]. intros _. left. rewrite R1. discriminate.
    + cbn [length]. rewrite Nat.add_0_r. split; [exact I1|exact KEEP].
Qed.

Lemma step_InvD c o log :
  op_wf o -> InvD c log ->
  InvD (fst (step c o)) (log ++ match snd (step c o) with Some ev => ev | None => [] end).
Proof.
  intros W I. unfold Keeper.step. destruct (exec c o) as [[c' ev]|] eqn:E; cbn.
  - eapply exec_InvD; eauto.
  - rewrite app_nil_r. exact I.
Qed.

Lemma run_InvD ops : forall c log,
  Forall op_wf ops -> InvD c log -> InvD (run c ops) (log ++ run_log c ops).
Proof.
  induction ops as [|o r IH]; intros c log W I; cbn.
  - rewrite app_nil_r. exact I.
  - inversion W as [|? ? Wo Wr]; subst.
    pose proof (step_InvD c o log Wo I) as S.
    unfold Keeper.run in *. cbn [fold_left].
    destruct (step c o) as [c1 [ev|]] eqn:ST; cbn [fst snd] in *.
    + rewrite app_assoc. apply IH; assumption.
    + rewrite app_nil_r in S. apply IH; assumption.
Qed.

Lemma InvD_init c : InvD c [].
Proof. intros s d n _. cbn. split; [lia|]. intros X. inversion X. Qed.

Theorem deliver_at_most_once c ops s d n :
  Forall op_wf ops -> wfk s d n -> (ndeliver s d n (run_log c ops) <= 1)%nat.
Proof.
  intros W K. pose proof (run_InvD ops c [] W (InvD_init c)) as I.
  cbn [app] in I. apply (I s d n K).
Qed.

(** ** C10: once cleaned, refused for good *)

Lemma recv_refused_below_clean c p pf h :
  p_seq p <= clean_seq c (p_src p) (p_dst p) -> msg_recv A H has_route on_recv c p pf h = None.
Proof.
  intros L. destruct (msg_recv A H has_route on_recv c p pf h) as [[c' ev]|] eqn:E; [|reflexivity].
  apply msg_recv_inv in E. destruct E as (_ & L' & _). lia.
Qed.

Lemma ack_refused_below_clean c p a pf h :
  p_seq p <= clean_seq c (p_src p) (p_dst p) -> msg_ack A H has_route on_ack c p a pf h = None.
Proof.
  intros L. destruct (msg_ack A H has_route on_ack c p a pf h) as [[c' ev]|] eqn:E; [|reflexivity].
  apply msg_ack_inv in E. destruct E as (_ & c1 & ev1 & AP & _).
  apply ack_packet_inv in AP. destruct AP as (_ & L' & _). lia.
Qed.

Lemma run_clean_mono ops : forall c s d,
  Forall op_wf ops -> clean_seq c s d <= clean_seq (run c ops) s d.
Proof.
  induction ops as [|o r IH]; intros c s d W; cbn; [lia|].
  inversion W as [|? ? Wo Wr]; subst. unfold Keeper.run. cbn [fold_left].
  fold (run (fst (step c o)) r). specialize (IH (fst (step c o)) s d Wr).
  unfold Keeper.step in *. destruct (exec c o) as [[c' ev]|] eqn:E; cbn [fst] in *.
  - pose proof (exec_clean_mono c o c' ev s d Wo E). lia.
  - exact IH.
Qed.

Theorem refused_forever c ops p pf h a :
  Forall op_wf ops -> p_seq p <= clean_seq c (p_src p) (p_dst p) ->
  msg_recv A H has_route on_recv (run c ops) p pf h = None /\
  msg_ack A H has_route on_ack (run c ops) p a pf h = None.
Proof.
  intros W L. pose proof (run_clean_mono ops c (p_src p) (p_dst p) W).
  split; [apply recv_refused_below_clean | apply ack_refused_below_clean]; lia.
Qed.

(** ** C09: send sequences *)

Notation next_send := (next_send A).

Lemma next_send_lookup c c' s d :
  lookup (next_send_key s d) (c_kv c') = lookup (next_send_key s d) (c_kv c) ->
  next_send c' s d = next_send c s d.
Proof. unfold Keeper.next_send. intros ->. reflexivity. Qed.

(** only a successful own send moves a send counter *)
Lemma exec_next_send c o c' ev s d :
  exec c o = Some (c', ev) ->
  (forall p, o = OSend p -> next_send_key (p_src p) (p_dst p) <> next_send_key s d) ->
  next_send c' s d = next_send c s d.
Proof.
  intros E NS. apply next_send_lookup.
  destruct o as [p|p pf h|p a pf h|cp|cp pf h|nm cl|nm h sn t|rs|dt|ap]; cbn [Keeper.exec] in E.
  - apply send_packet_inv in E. destruct E as (_ & _ & _ & _ & ->). cbn [Keeper.c_kv with_kv].
    rewrite lookup_set_neq by fam_neq. apply lookup_set_neq.
    intros X. apply (NS p eq_refl). symmetry. exact X.
  - apply msg_recv_inv in E. destruct E as (_ & _ & _ & _ & F & _). apply F; fam_neq.
  - apply msg_ack_inv in E. destruct E as (_ & c1 & ev1 & AP & K & _).
    apply ack_packet_inv in AP. destruct AP as (_ & _ & _ & _ & _ & F & _).
    rewrite K. apply F; fam_neq.
  - apply clean_packet_inv in E. destruct E as (_ & _ & _ & ->). cbn [Keeper.c_kv with_kv].
    rewrite clean_acks_receipts_other.
    + apply lookup_set_neq. fam_neq.
    + unfold next_send_key. rewrite key_fam_pair by (apply is_fam_noslash; auto with keys).
      intro X. apply beq_spec in X. vm_compute in X. discriminate.
    + unfold next_send_key. rewrite key_fam_pair by (apply is_fam_noslash; auto with keys).
      intro X. apply beq_spec in X. vm_compute in X. discriminate.
  - destruct (N.eqb h 0); [discriminate|].
    apply recv_clean_inv in E. destruct E as (_ & _ & _ & _ & ->). cbn [Keeper.c_kv with_kv].
    rewrite lookup_set_neq by fam_neq. apply clean_acks_receipts_other.
    + unfold next_send_key. rewrite key_fam_pair by (apply is_fam_noslash; auto with keys).
      intro X. apply beq_spec in X. vm_compute in X. discriminate.
    + unfold next_send_key. rewrite key_fam_pair by (apply is_fam_noslash; auto with keys).
      intro X. apply beq_spec in X. vm_compute in X. discriminate.
  - unfold create_client in E. destruct (has nm _); [discriminate|]. inversion E; subst. reflexivity.
  - unfold update_client in E. destruct (lookup nm _); [|discriminate].
    destruct (negb _); [discriminate|]. inversion E; subst. reflexivity.
  - destruct (set_rules rs); [|discriminate]. inversion E; subst. reflexivity.
  - inversion E; subst. reflexivity.
  - inversion E; subst. reflexivity.
Qed.

(** a successful send: carries the next sequence, bumps the counter by one,
    stores exactly one commitment to the data, announces the packet, and touches
    nothing else *)
Lemma send_effect c p c' ev :
  wfp p -> exec c (OSend p) = Some (c', ev) ->
  p_src p = c_name c /\
  p_seq p = next_send c (p_src p) (p_dst p) /\
  next_send c' (p_src p) (p_dst p) = (p_seq p + 1) mod two64 /\
  commit_at c' (p_src p) (p_dst p) (p_seq p) = Some (H (p_data p)) /\
  ev = [ESend p] /\
  (forall k, k <> next_send_key (p_src p) (p_dst p) ->
             k <> commit_key (p_src p) (p_dst p) (p_seq p) ->
             lookup k (c_kv c') = lookup k (c_kv c)) /\
  c_clients A c' = c_clients A c /\ c_rules A c' = c_rules A c /\ c_app A c' = c_app A c /\
  c_name c' = c_name c.
Proof.
  intros W E. cbn [Keeper.exec] in E. apply send_packet_inv in E.
  destruct E as (V & S & Q & -> & ->).
  repeat split; auto.
  - unfold Keeper.next_send at 1. cbn [Keeper.c_kv with_kv].
    rewrite lookup_set_neq by fam_neq. rewrite lookup_set_eq.
    rewrite u64_of_be64; [rewrite <- Q; reflexivity|].
    apply N.mod_lt. discriminate.
  - unfold KeeperFacts.commit_at. cbn [Keeper.c_kv with_kv]. apply lookup_set_eq.
  - intros k k1 k2. cbn [Keeper.c_kv with_kv]. rewrite lookup_set_neq by exact k2.
    apply lookup_set_neq. exact k1.
Qed.

(** sequences of the successful own sends on one pair, in order *)
Definition sent_seq (s d : bytes) (o : op A) : list N :=
  match o with
  | OSend p => if beq (p_src p) s && beq (p_dst p) d then [p_seq p] else []
  | _ => []
  end.

Fixpoint own_sends (s d : bytes) (c : chain) (ops : list (op A)) : list N :=
  match ops with
  | [] => []
  | o :: r =>
      match exec c o with
      | Some (c', _) => sent_seq s d o ++ own_sends s d c' r
      | None => own_sends s d c r
      end
  end.

Fixpoint iota (start : N) (len : nat) : list N :=
  match len with O => [] | S l => start :: iota (start + 1) l end.

Theorem send_seq_gapfree ops : forall c s d,
  Forall op_wf ops -> noslash s -> noslash d ->
  next_send c s d + N.of_nat (length (own_sends s d c ops)) < two64 ->
  own_sends s d c ops = iota (next_send c s d) (length (own_sends s d c ops)) /\
  next_send (run c ops) s d = next_send c s d + N.of_nat (length (own_sends s d c ops)).
Proof.
  induction ops as [|o r IH]; intros c s d W Ns Nd B.
  - cbn. split; [reflexivity|lia].
  - inversion W as [|? ? Wo Wr]; subst.
    unfold Keeper.run. cbn [fold_left]. fold (run (fst (step c o)) r).
    cbn [own_sends] in *. unfold Keeper.step.
    destruct (exec c o) as [[c' ev]|] eqn:E; cbn [fst snd] in *; [|apply IH; assumption].
    destruct (sent_seq s d o) as [|q qs] eqn:SS.
    + (* no own send on this pair: the counter is unchanged *)
      cbn [app] in *.
      assert (NX : next_send c' s d = next_send c s d).
      { eapply exec_next_send; [exact E|]. intros p -> X.
        cbn [sent_seq] in SS. destruct (beq (p_src p) s && beq (p_dst p) d) eqn:M; [discriminate|].
        cbn [Keeper.exec] in E. apply send_packet_inv in E. destruct E as (V & _).
        apply validate_basic_names in V. destruct V as (V1 & V2 & _).
        unfold next_send_key in X. apply pair_key_inj in X; try assumption;
          try (apply is_fam_noslash; auto with keys).
        destruct X as (_ & X1 & X2). rewrite X1, X2, !beq_refl in M. discriminate. }
      rewrite <- NX in *. apply IH; assumption.
    + destruct o as [p|p pf h|p a pf h|cp|cp pf h|nm cl|nm h sn t|rs|dt|ap]; try discriminate SS.
      cbn [sent_seq] in SS. destruct (beq (p_src p) s && beq (p_dst p) d) eqn:M; [|discriminate].
      inversion SS; subst q qs. clear SS.
      rewrite andb_true_iff in M. destruct M as [M1 M2]. apply beq_spec in M1, M2. subst s d.
      pose proof (send_effect c p c' ev Wo E) as (_ & Q & NX & _).
      cbn [app length] in *. rewrite Nnat.Nat2N.inj_succ in B.
      assert (NX' : next_send c' (p_src p) (p_dst p) = next_send c (p_src p) (p_dst p) + 1).
      { rewrite NX, Q. apply N.mod_small. lia. }
      specialize (IH c' (p_src p) (p_dst p) Wr Ns Nd). rewrite NX' in IH.
      destruct IH as [I1 I2]; [lia|]. cbn [iota]. rewrite Q at 1. rewrite <- I1.
      split; [reflexivity|]. rewrite I2, Nnat.Nat2N.inj_succ. lia.
Qed.

(** ** C10: acceptance of a clean request on the source, and its exact effect *)

Lemma clean_accept_iff c cp :
  (exists c' ev, clean_packet A c cp = Some (c', ev)) <->
  clean_validate_basic cp = true /\
  clean_seq c (c_name c) (cp_dst cp) < cp_seq cp /\
  cp_seq cp <= max_ack A c (c_name c) (cp_dst cp) /\
  (forall m, clean_seq c (c_name c) (cp_dst cp) <= m <= cp_seq cp ->
             commit_at c (c_name c) (cp_dst cp) m = None) /\
  has (if is_nil (cp_relay cp) then cp_dst cp else cp_relay cp) (c_clients A c) = true.
Proof.
  split.
  - intros (c' & ev & E). unfold clean_packet in E.
    destruct (clean_validate_basic cp) eqn:VB; [|discriminate]. cbn [negb] in E.
    destruct (validate_clean A c _) eqn:V; [|discriminate]. cbn [negb] in E.
    destruct (has _ (c_clients A c)) eqn:HC; [|discriminate].
    apply validate_clean_inv in V. cbn [cp_src cp_dst cp_seq] in V. destruct V as (V1 & V2 & V3).
    auto.
  - intros (VB & L1 & L2 & NC & HC). unfold clean_packet. rewrite VB. cbn [negb].
    assert (V : validate_clean A c (mkClean (cp_seq cp) (c_name c) (cp_dst cp) (cp_relay cp)) = true).
    { unfold validate_clean. cbn [cp_src cp_dst cp_seq].
      rewrite andb_true_iff, !negb_true_iff, orb_false_iff. split.
      - split; [apply N.leb_gt; exact L1 | apply N.ltb_ge; exact L2].
      - apply any_range_false. intros k [i [Hi ->]]. apply NC.
        rewrite Nnat.N2Nat.id in Hi. lia. }
    rewrite V, HC. cbn [negb]. eauto.
Qed.

(** effect of an accepted receive-clean: the clean point becomes N, receipts
    and acknowledgements with clean < seq <= N are removed, nothing else changes *)
Lemma recv_clean_effect c cp pf h c' ev :
  wfcp cp -> recv_clean A c cp pf h = Some (c', ev) ->
  let s := cp_src cp in let d := cp_dst cp in
  let cur := clean_seq c s d in
  clean_seq c' s d = cp_seq cp /\
  (forall m, cur < m <= cp_seq cp -> receipt_at c' s d m = None /\ ack_at c' s d m = None) /\
  (forall k, k <> clean_key s d ->
             (forall m, cur < m <= cp_seq cp -> k <> receipt_key s d m /\ k <> ack_key s d m) ->
             lookup k (c_kv c') = lookup k (c_kv c)).
Proof.
  intros W E. apply recv_clean_inv in E. destruct E as (_ & V & _ & _ & ->).
  apply validate_clean_inv in V. destruct V as (L & _).
  cbn zeta. unfold Keeper.clean_seq at 1, KeeperFacts.receipt_at, KeeperFacts.ack_at.
  cbn [Keeper.c_kv with_kv]. repeat split.
  - rewrite lookup_set_eq. apply u64_of_be64. exact W.
  - rewrite lookup_set_neq by fam_neq. unfold clean_acks_receipts.
    apply lookup_del_range_in. exists (m - (clean_seq c (cp_src cp) (cp_dst cp) + 1)).
    unfold Keeper.clean_seq in *. rewrite Nnat.N2Nat.id. split; [lia|]. f_equal. lia.
  - rewrite lookup_set_neq by fam_neq. unfold clean_acks_receipts.
    unfold receipt_key at 1. rewrite lookup_del_range_fam; [| auto with keys | fam_neq].
    apply lookup_del_range_in. exists (m - (clean_seq c (cp_src cp) (cp_dst cp) + 1)).
    unfold Keeper.clean_seq in *. rewrite Nnat.N2Nat.id. split; [lia|]. f_equal. lia.
  - intros k k1 k2. rewrite lookup_set_neq by exact k1. unfold clean_acks_receipts.
    rewrite lookup_del_range_out.
    + apply lookup_del_range_out. intros [i [Hi ->]]. rewrite Nnat.N2Nat.id in Hi.
      unfold Keeper.clean_seq in *.
      destruct (k2 (u64_of (lookup (clean_key (cp_src cp) (cp_dst cp)) (c_kv c)) + 1 + i)) as [_ X]; [lia|].
      apply X. reflexivity.
    + intros [i [Hi ->]]. rewrite Nnat.N2Nat.id in Hi. unfold Keeper.clean_seq in *.
      destruct (k2 (u64_of (lookup (clean_key (cp_src cp) (cp_dst cp)) (c_kv c)) + 1 + i)) as [X _]; [lia|].
      apply X. reflexivity.
Qed.

End Inv.
