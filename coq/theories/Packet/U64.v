(** big-endian uint64 encoding round trip *)
From Tibc Require Import Base.Bytes Base.FMap Host.Keys Host.KeysFacts Packet.Types Packet.Keeper.
From Coq Require Import ZArith ZifyN ZifyNat ZifyBool.
Ltac Zify.zify_post_hook ::= Z.div_mod_to_equations.

Definition beval (b : bytes) : N := fold_left (fun a x => a * 256 + x) b 0.

Lemma beval_app a b : beval (a ++ b) = fold_left (fun a x => a * 256 + x) b (beval a).
Proof. unfold beval. apply fold_left_app. Qed.

Lemma be_aux_val w : forall n, n < 256 ^ N.of_nat w -> beval (be_aux w n []) = n.
Proof.
  induction w as [|w IH]; intros n Hn.
  - simpl in Hn. assert (n = 0) by lia. subst. reflexivity.
  - cbn [be_aux]. rewrite be_aux_acc, beval_app. cbn [fold_left].
    rewrite IH.
    + lia.
    + rewrite Nnat.Nat2N.inj_succ, N.pow_succ_r' in Hn. lia.
Qed.

Lemma u64_of_be64 n : n < two64 -> u64_of (Some (be64 n)) = n.
Proof.
  intros H. unfold u64_of, be64. apply (be_aux_val 8). exact H.
Qed.

Lemma u64_of_none : u64_of None = 0.
Proof. reflexivity. Qed.
