(** Facts about the single-chain packet keeper model: inversion of successful
    operations, frame lemmas, and the invariants behind C02, C09, C10. *)
From Tibc Require Import Base.Bytes Base.BytesFacts Base.FMap Host.Keys Host.KeysFacts
  Routing.Rules Packet.Types Packet.Keeper Packet.U64 Packet.KeyEq.
From Coq Require Import ZArith ZifyN ZifyNat ZifyBool.

(** * key families *)

Lemma key_fam_seq f s d n : noslash f -> key_fam (seq_key f s d n) = f.
Proof. intros. unfold seq_key. apply key_fam_path. assumption. Qed.

Lemma key_fam_pair f s d : noslash f -> key_fam (path [f; s; d]) = f.
Proof. intros. apply key_fam_path. assumption. Qed.

Ltac unfold_keys :=
  unfold commit_key, ack_key, receipt_key, clean_key, maxack_key, next_send_key.

Ltac fam_rw :=
  repeat first
    [ rewrite key_fam_seq by (apply is_fam_noslash; unfold is_fam; tauto)
    | rewrite key_fam_pair by (apply is_fam_noslash; unfold is_fam; tauto) ].

(** different families => different keys; closes goals [k <> k'] *)
Ltac fam_neq :=
  unfold_keys; apply fam_ne_key_ne; fam_rw;
  let E := fresh in intro E; apply beq_spec in E; vm_compute in E; discriminate.

Section DelRangeFam.
Context {V : Type}.

Lemma lookup_del_range_fam f s d start cnt (m : fmap V) k :
  is_fam f -> key_fam k <> f ->
  lookup k (del_range (seq_key f s d) start cnt m) = lookup k m.
Proof.
  intros Hf Hk. apply lookup_del_range_out. intros [i [_ E]]. apply Hk. subst k.
  apply key_fam_seq. apply is_fam_noslash. exact Hf.
Qed.
End DelRangeFam.

Set Default Proof Using "Type".
Section Facts.
Variable A : Type.
Variable H : bytes -> bytes.

Notation chain := (chain A).
Notation c_kv := (c_kv A).
Notation c_name := (c_name A).

Definition receipt_at (c : chain) s d n := lookup (receipt_key s d n) (c_kv c).
Definition commit_at (c : chain) s d n := lookup (commit_key s d n) (c_kv c).
Definition ack_at (c : chain) s d n := lookup (ack_key s d n) (c_kv c).

Definition wfp (p : packet) : Prop := p_seq p < two64.
Definition wfcp (cp : cleanpkt) : Prop := cp_seq cp < two64.

(** uint64 typing of the operations' sequence numbers *)
Definition op_wf (o : op A) : Prop :=
  match o with
  | OSend p | ORecv p _ _ | OAck p _ _ _ => wfp p
  | OClean cp | ORecvClean cp _ _ => wfcp cp
  | _ => True
  end.

Lemma two64_lt_bound n : n < two64 -> n < dec_bound.
Proof. intros. unfold two64, dec_bound in *. eapply N.lt_trans; [eassumption|]. vm_compute. reflexivity. Qed.

(** * inversion of the keeper functions *)

Ltac inv_if H :=
  repeat match type of H with
  | context [if ?b then _ else _] => let E := fresh "E" in destruct b eqn:E; try discriminate H
  end.

Lemma send_packet_inv c p c' ev :
  send_packet A H c p = Some (c', ev) ->
  validate_basic p = true /\ p_src p = c_name c /\ p_seq p = next_send A c (p_src p) (p_dst p) /\
  ev = [ESend p] /\
  c' = with_kv A c (set (commit_key (p_src p) (p_dst p) (p_seq p)) (H (p_data p))
                     (set (next_send_key (p_src p) (p_dst p))
                          (be64 ((next_send A c (p_src p) (p_dst p) + 1) mod two64)) (c_kv c))).
Proof.
  unfold send_packet. intros E.
  destruct (validate_basic p) eqn:V; [|discriminate].
  destruct (beq (p_src p) (c_name c)) eqn:S; [|discriminate].
  cbn [negb] in E.
  destruct (has _ (c_clients A c)); [|discriminate]. cbn [negb] in E.
  destruct (N.eqb (p_seq p) (next_send A c (p_src p) (p_dst p))) eqn:Q; [|discriminate].
  cbn [negb] in E. inversion E; subst. apply beq_spec in S. apply N.eqb_eq in Q.
  repeat split; auto.
Qed.

Lemma validate_packet_inv c p :
  validate_packet A c p = true ->
  validate_basic p = true /\ clean_seq A c (p_src p) (p_dst p) < p_seq p.
Proof.
  unfold validate_packet. rewrite !andb_true_iff. intros [[V _] L].
  split; [exact V|]. apply N.ltb_lt. exact L.
Qed.

(** the three outcomes of the keeper's RecvPacket *)
Lemma recv_packet_inv c p pf h :
  match recv_packet A H c p pf h with
  | RErr _ => True
  | RUnauth _ c1 ev | ROk _ c1 ev =>
      validate_basic p = true /\ clean_seq A c (p_src p) (p_dst p) < p_seq p /\
      receipt_at c (p_src p) (p_dst p) (p_seq p) = None /\
      exists kv1,
        c1 = with_kv A c kv1 /\
        (kv1 = set (receipt_key (p_src p) (p_dst p) (p_seq p)) receipt_val (c_kv c) \/
         (kv1 = set (commit_key (p_src p) (p_dst p) (p_seq p)) (H (p_data p))
                 (set (receipt_key (p_src p) (p_dst p) (p_seq p)) receipt_val (c_kv c)) /\
          p_relay p = c_name c)) /\
        (forall e, In e ev -> e = ERecv p \/ e = ESend p)
  end.
Proof.
  unfold recv_packet.
  destruct (validate_packet A c p) eqn:V; cbn [negb]; [|exact I].
  apply validate_packet_inv in V. destruct V as [V L].
  unfold has. destruct (lookup (receipt_key _ _ _) (c_kv c)) eqn:R; [exact I|].
  destruct (lookup _ (c_clients A c)) as [cl|]; [|exact I].
  destruct (client_active cl (c_now A c)); cbn [negb]; [|exact I].
  destruct (verify _ _ _ _ _ _); cbn [negb]; [|exact I].
  destruct (beq (p_relay p) (c_name c)) eqn:RL.
  - destruct (authenticate _ _ _ _); cbn [negb].
    + destruct (lookup (p_dst p) (c_clients A c)); cbn [negb]; [|exact I].
      repeat split; auto. eexists. split; [reflexivity|]. split.
      * right. split; [reflexivity|]. apply beq_spec. exact RL.
      * intros e [<-|[<-|[]]]; auto.
    + repeat split; auto. eexists. split; [reflexivity|]. split; [left; reflexivity|].
      intros e [<-|[]]; auto.
  - repeat split; auto. eexists. split; [reflexivity|]. split; [left; reflexivity|].
    intros e [<-|[]]; auto.
Qed.


(** exact shapes of the keeper's RecvPacket outcomes *)
Lemma recv_packet_inv2 c p pf h :
  match recv_packet A H c p pf h with
  | RErr _ => True
  | RUnauth _ c1 ev =>
      c1 = with_kv A c (set (receipt_key (p_src p) (p_dst p) (p_seq p)) receipt_val (c_kv c)) /\
      ev = [ERecv p] /\ p_relay p = c_name c /\
      authenticate (c_rules A c) (p_src p) (p_dst p) (p_port p) = false
  | ROk _ c1 ev =>
      (c1 = with_kv A c (set (receipt_key (p_src p) (p_dst p) (p_seq p)) receipt_val (c_kv c)) /\
       ev = [ERecv p] /\ p_relay p <> c_name c) \/
      (c1 = with_kv A c (set (commit_key (p_src p) (p_dst p) (p_seq p)) (H (p_data p))
                          (set (receipt_key (p_src p) (p_dst p) (p_seq p)) receipt_val (c_kv c))) /\
       ev = [ERecv p; ESend p] /\ p_relay p = c_name c /\
       authenticate (c_rules A c) (p_src p) (p_dst p) (p_port p) = true /\
       has (p_dst p) (c_clients A c) = true)
  end /\
  (recv_packet A H c p pf h <> RErr A ->
   exists cl, lookup (if beq (p_dst p) (c_name c) && negb (is_nil (p_relay p)) then p_relay p else p_src p)
                     (c_clients A c) = Some cl /\
              client_active cl (c_now A c) = true /\
              verify cl (if beq (p_dst p) (c_name c) && negb (is_nil (p_relay p)) then p_relay p else p_src p)
                     h pf (commit_key (p_src p) (p_dst p) (p_seq p)) (H (p_data p)) = true).
Proof.
  unfold recv_packet.
  destruct (validate_packet A c p) eqn:V; cbn [negb]; [|split; [exact I|congruence]].
  unfold has. destruct (lookup (receipt_key _ _ _) (c_kv c)) eqn:R; [split; [exact I|congruence]|].
  destruct (lookup _ (c_clients A c)) as [cl|] eqn:CL; [|split; [exact I|congruence]].
  destruct (client_active cl (c_now A c)) eqn:AC; cbn [negb]; [|split; [exact I|congruence]].
  destruct (verify _ _ _ _ _ _) eqn:VF; cbn [negb]; [|split; [exact I|congruence]].
  destruct (beq (p_relay p) (c_name c)) eqn:RL.
  - apply beq_spec in RL.
    destruct (authenticate _ _ _ _) eqn:AU; cbn [negb].
    + destruct (lookup (p_dst p) (c_clients A c)) eqn:HD; cbn [negb]; [|split; [exact I|congruence]].
      split; [|intros _; exists cl; repeat split; assumption]. right. repeat split; auto.
    + split; [|intros _; exists cl; repeat split; assumption]. repeat split; auto.
  - apply beq_false in RL. split; [|intros _; exists cl; repeat split; assumption]. left. repeat split; auto.
Qed.

Lemma write_ack_inv c p a c' ev :
  write_ack A H c p a = Some (c', ev) ->
  a <> [] /\ ack_at c (p_src p) (p_dst p) (p_seq p) = None /\ ev = [EWriteAck p a] /\
  c' = with_kv A c (set_max_ack (p_src p) (p_dst p) (p_seq p)
                     (set (ack_key (p_src p) (p_dst p) (p_seq p)) (H a) (c_kv c))).
Proof.
  unfold write_ack. intros E.
  destruct a as [|x a]; [discriminate|]. cbn [is_nil] in E.
  unfold has in E. destruct (lookup (ack_key _ _ _) (c_kv c)) eqn:K; [discriminate|].
  destruct (lookup _ (c_clients A c)); [|discriminate]. cbn [negb] in E.
  inversion E; subst. repeat split; auto. discriminate.
Qed.

(** * frame facts *)

Lemma lookup_set_max_ack_other s d n kv k :
  k <> maxack_key s d -> lookup k (set_max_ack s d n kv) = lookup k kv.
Proof. intros Hk. unfold set_max_ack. apply lookup_set_neq. exact Hk. Qed.

Definition is_deliver (e : event) : bool := match e with EDeliver _ => true | _ => false end.
Definition is_appack (e : event) : bool := match e with EAppAck _ _ => true | _ => false end.

Definition about (p : packet) (e : event) : Prop :=
  e = ERecv p \/ e = ESend p \/ e = EDeliver p \/ (exists a, e = EWriteAck p a) \/
  (exists a, e = EAck p a) \/ (exists a, e = EAppAck p a).

Lemma filter_none (f : event -> bool) (P : event -> Prop) l :
  (forall e, In e l -> P e) -> (forall e, P e -> f e = false) -> filter f l = [].
Proof.
  intros HP Hf. induction l as [|e r IH]; [reflexivity|]. cbn.
  rewrite (Hf e) by (apply HP; left; reflexivity).
  apply IH. intros x Hx. apply HP. right. exact Hx.
Qed.

(** msg_server.RecvPacket, when it succeeds *)
Section Recv.
Variable has_route : bytes -> bool.
Variable on_recv : A -> packet -> option (A * option bytes).

Lemma msg_recv_inv c p pf h c' ev :
  msg_recv A H has_route on_recv c p pf h = Some (c', ev) ->
  validate_basic p = true /\ clean_seq A c (p_src p) (p_dst p) < p_seq p /\
  receipt_at c (p_src p) (p_dst p) (p_seq p) = None /\
  receipt_at c' (p_src p) (p_dst p) (p_seq p) = Some receipt_val /\
  (forall k, k <> receipt_key (p_src p) (p_dst p) (p_seq p) ->
             k <> commit_key (p_src p) (p_dst p) (p_seq p) ->
             k <> ack_key (p_src p) (p_dst p) (p_seq p) ->
             k <> maxack_key (p_src p) (p_dst p) ->
             lookup k (c_kv c') = lookup k (c_kv c)) /\
  (forall e, In e ev -> about p e) /\
  (filter is_deliver ev = [] \/ filter is_deliver ev = [EDeliver p]) /\
  filter is_appack ev = [] /\
  (c_name c' = c_name c /\ c_clients A c' = c_clients A c /\ c_rules A c' = c_rules A c /\
   c_now A c' = c_now A c).
Proof.
  unfold msg_recv. intros E.
  destruct (N.eqb h 0); [discriminate|].
  pose proof (recv_packet_inv c p pf h) as R.
  destruct (recv_packet A H c p pf h) as [|c1 ev1|c1 ev1]; [discriminate| |];
    destruct R as (V & L & R0 & kv1 & -> & K1 & Ev1);
    assert (RK : lookup (receipt_key (p_src p) (p_dst p) (p_seq p)) kv1 = Some receipt_val)
      by (destruct K1 as [->|[-> _]];
          [apply lookup_set_eq | rewrite lookup_set_neq by fam_neq; apply lookup_set_eq]);
    assert (FR : forall k, k <> receipt_key (p_src p) (p_dst p) (p_seq p) ->
                      k <> commit_key (p_src p) (p_dst p) (p_seq p) ->
                      lookup k kv1 = lookup k (c_kv c))
      by (intros k k1 k2; destruct K1 as [->|[-> _]];
          [apply lookup_set_neq; exact k1
          | rewrite lookup_set_neq by exact k2; apply lookup_set_neq; exact k1]);
    assert (F1 : filter is_deliver ev1 = [])
      by (apply (filter_none _ _ _ Ev1); intros e [->| ->]; reflexivity);
    assert (F2 : filter is_appack ev1 = [])
      by (apply (filter_none _ _ _ Ev1); intros e [->| ->]; reflexivity);
    assert (AB : forall e, In e ev1 -> about p e)
      by (intros e Hi; apply Ev1 in Hi; unfold about; tauto).
  - (* unauthorised at the relay: error acknowledgement *)
    destruct (write_ack A H (with_kv A c kv1) p unauth_ack) as [[c2 ev2]|] eqn:W; [|discriminate].
    inversion E; subst c' ev. clear E.
    apply write_ack_inv in W. destruct W as (_ & _ & -> & ->).
    refine (conj V (conj L (conj R0 (conj _ (conj _ (conj _ (conj _ (conj _ _)))))))).
    + unfold receipt_at. cbn [Keeper.c_kv with_kv with_app]. rewrite lookup_set_max_ack_other by fam_neq.
      rewrite lookup_set_neq by fam_neq. exact RK.
    + intros k k1 k2 k3 k4. cbn [Keeper.c_kv with_kv with_app]. rewrite lookup_set_max_ack_other by exact k4.
      rewrite lookup_set_neq by exact k3. apply FR; assumption.
    + intros e Hi. apply in_app_or in Hi. destruct Hi as [Hi|[<-|[]]].
      * apply AB. exact Hi.
      * unfold about. right. right. right. left. eexists. reflexivity.
    + left. rewrite filter_app, F1. reflexivity.
    + rewrite filter_app, F2. reflexivity.
    + repeat split; reflexivity.
  - cbn [Keeper.c_name with_kv] in E.
    destruct (beq (p_dst p) (c_name c)).
    + destruct (has_route (p_port p)); [|discriminate]. cbn [negb] in E.
      cbn [c_app with_kv] in E.
      destruct (on_recv (c_app A c) p) as [[a' oack]|]; [|discriminate].
      destruct oack as [ack|].
      * destruct (write_ack A H _ p ack) as [[c3 ev3]|] eqn:W; [|discriminate].
        inversion E; subst c' ev. clear E.
        apply write_ack_inv in W. destruct W as (_ & _ & -> & ->).
        refine (conj V (conj L (conj R0 (conj _ (conj _ (conj _ (conj _ (conj _ _)))))))).
        -- unfold receipt_at. cbn [Keeper.c_kv with_kv with_app]. rewrite lookup_set_max_ack_other by fam_neq.
           rewrite lookup_set_neq by fam_neq. exact RK.
        -- intros k k1 k2 k3 k4. cbn [Keeper.c_kv with_kv with_app]. rewrite lookup_set_max_ack_other by exact k4.
           rewrite lookup_set_neq by exact k3. apply FR; assumption.
        -- intros e Hi. apply in_app_or in Hi. destruct Hi as [Hi|[<-|[<-|[]]]].
           ++ apply AB. exact Hi.
           ++ unfold about. tauto.
           ++ unfold about. right. right. right. left. eexists. reflexivity.
        -- right. rewrite filter_app, F1. reflexivity.
        -- rewrite filter_app, F2. reflexivity.
        -- repeat split; reflexivity.
      * inversion E; subst c' ev. clear E.
        refine (conj V (conj L (conj R0 (conj _ (conj _ (conj _ (conj _ (conj _ _)))))))).
        -- exact RK.
        -- intros k k1 k2 _ _. cbn [Keeper.c_kv with_kv with_app]. apply FR; assumption.
        -- intros e Hi. apply in_app_or in Hi. destruct Hi as [Hi|[<-|[]]].
           ++ apply AB. exact Hi.
           ++ unfold about. tauto.
        -- right. rewrite filter_app, F1. reflexivity.
        -- rewrite filter_app, F2. reflexivity.
        -- repeat split; reflexivity.
    + inversion E; subst c' ev. clear E.
      refine (conj V (conj L (conj R0 (conj _ (conj _ (conj _ (conj _ (conj _ _)))))))).
      * exact RK.
      * intros k k1 k2 _ _. cbn [Keeper.c_kv with_kv with_app]. apply FR; assumption.
      * exact AB.
      * left. exact F1.
      * exact F2.
      * repeat split; reflexivity.
Qed.

(** what a successful receive leaves at the packet's commitment and
    acknowledgement keys, and why it was accepted *)
Lemma msg_recv_vals c p pf h c' ev :
  msg_recv A H has_route on_recv c p pf h = Some (c', ev) ->
  (commit_at c' (p_src p) (p_dst p) (p_seq p) = commit_at c (p_src p) (p_dst p) (p_seq p) \/
   (commit_at c' (p_src p) (p_dst p) (p_seq p) = Some (H (p_data p)) /\ In (ESend p) ev /\
    p_relay p = c_name c /\ authenticate (c_rules A c) (p_src p) (p_dst p) (p_port p) = true /\
    has (p_dst p) (c_clients A c) = true)) /\
  (ack_at c' (p_src p) (p_dst p) (p_seq p) = ack_at c (p_src p) (p_dst p) (p_seq p) \/
   (exists a, ack_at c' (p_src p) (p_dst p) (p_seq p) = Some (H a) /\ In (EWriteAck p a) ev /\
              ack_at c (p_src p) (p_dst p) (p_seq p) = None /\ a <> [])) /\
  (In (ESend p) ev -> commit_at c' (p_src p) (p_dst p) (p_seq p) = Some (H (p_data p)) /\
                      p_relay p = c_name c /\
                      authenticate (c_rules A c) (p_src p) (p_dst p) (p_port p) = true) /\
  (exists cl, lookup (if beq (p_dst p) (c_name c) && negb (is_nil (p_relay p)) then p_relay p else p_src p)
                     (c_clients A c) = Some cl /\
              client_active cl (c_now A c) = true /\
              verify cl (if beq (p_dst p) (c_name c) && negb (is_nil (p_relay p)) then p_relay p else p_src p)
                     h pf (commit_key (p_src p) (p_dst p) (p_seq p)) (H (p_data p)) = true).
Proof.
  unfold msg_recv. intros E.
  destruct (N.eqb h 0); [discriminate|].
  pose proof (recv_packet_inv2 c p pf h) as [R RV].
  destruct (recv_packet A H c p pf h) as [|c1 ev1|c1 ev1]; [discriminate| |];
    (specialize (RV ltac:(discriminate))).
  - destruct R as (-> & -> & RL & AU).
    destruct (write_ack A H _ p unauth_ack) as [[c2 ev2]|] eqn:W; [|discriminate].
    inversion E; subst c' ev. clear E.
    apply write_ack_inv in W. destruct W as (NE & A0 & -> & ->).
    unfold commit_at, ack_at in *. cbn [Keeper.c_kv with_kv] in *.
    rewrite lookup_set_neq in A0 by fam_neq.
    split; [|split; [|split; [|exact RV]]].
    + left. rewrite lookup_set_max_ack_other by fam_neq. rewrite lookup_set_neq by fam_neq.
      apply lookup_set_neq. fam_neq.
    + right. exists unauth_ack. rewrite lookup_set_max_ack_other by fam_neq. rewrite lookup_set_eq.
      repeat split; auto. right. left. reflexivity.
    + intros [X|[X|[]]]; discriminate X.
  - assert (CK1 : forall a kv, lookup (commit_key (p_src p) (p_dst p) (p_seq p))
                     (set_max_ack (p_src p) (p_dst p) (p_seq p)
                        (set (ack_key (p_src p) (p_dst p) (p_seq p)) a kv)) =
                   lookup (commit_key (p_src p) (p_dst p) (p_seq p)) kv).
    { intros a kv. rewrite lookup_set_max_ack_other by fam_neq. apply lookup_set_neq. fam_neq. }
    destruct R as [(-> & -> & RL)|(-> & -> & RL & AU & HD)]; cbn [Keeper.c_name with_kv] in E.
    + (* no re-commit *)
      assert (NS : forall e l, In (ESend p) ([ERecv p] ++ e :: l) -> e = ESend p \/ In (ESend p) l).
      { intros e l [X|[X|X]]; [discriminate X | left; exact X | right; exact X]. }
      destruct (beq (p_dst p) (c_name c)).
      * destruct (has_route (p_port p)); [|discriminate]. cbn [negb] in E. cbn [c_app with_kv] in E.
        destruct (on_recv (c_app A c) p) as [[a' oack]|]; [|discriminate].
        destruct oack as [ack|].
        -- destruct (write_ack A H _ p ack) as [[c3 ev3]|] eqn:W; [|discriminate].
           inversion E; subst c' ev. clear E.
           apply write_ack_inv in W. destruct W as (NE & A0 & -> & ->).
           unfold commit_at, ack_at in *. cbn [Keeper.c_kv with_kv with_app] in *.
           rewrite lookup_set_neq in A0 by fam_neq.
           split; [|split; [|split; [|exact RV]]].
           ++ left. rewrite CK1. apply lookup_set_neq. fam_neq.
           ++ right. exists ack. rewrite lookup_set_max_ack_other by fam_neq. rewrite lookup_set_eq.
              repeat split; auto. right. right. left. reflexivity.
           ++ intros [X|[X|[X|[]]]]; discriminate X.
        -- inversion E; subst c' ev. clear E.
           unfold commit_at, ack_at. cbn [Keeper.c_kv with_kv with_app].
           split; [|split; [|split; [|exact RV]]].
           ++ left. apply lookup_set_neq. fam_neq.
           ++ left. apply lookup_set_neq. fam_neq.
           ++ intros [X|[X|[]]]; discriminate X.
      * inversion E; subst c' ev. clear E.
        unfold commit_at, ack_at. cbn [Keeper.c_kv with_kv].
        split; [|split; [|split; [|exact RV]]].
        -- left. apply lookup_set_neq. fam_neq.
        -- left. apply lookup_set_neq. fam_neq.
        -- intros [X|[]]; discriminate X.
    + (* relay re-commit *)
      destruct (beq (p_dst p) (c_name c)).
      * destruct (has_route (p_port p)); [|discriminate]. cbn [negb] in E. cbn [c_app with_kv] in E.
        destruct (on_recv (c_app A c) p) as [[a' oack]|]; [|discriminate].
        destruct oack as [ack|].
        -- destruct (write_ack A H _ p ack) as [[c3 ev3]|] eqn:W; [|discriminate].
           inversion E; subst c' ev. clear E.
           apply write_ack_inv in W. destruct W as (NE & A0 & -> & ->).
           unfold commit_at, ack_at in *. cbn [Keeper.c_kv with_kv with_app] in *.
           rewrite !lookup_set_neq in A0 by fam_neq.
           split; [|split; [|split; [|exact RV]]].
           ++ right. rewrite CK1. rewrite lookup_set_eq. repeat split; auto. right. left. reflexivity.
           ++ right. exists ack. rewrite lookup_set_max_ack_other by fam_neq. rewrite lookup_set_eq.
              repeat split; auto. right. right. right. left. reflexivity.
           ++ intros _. rewrite CK1. rewrite lookup_set_eq. auto.
        -- inversion E; subst c' ev. clear E.
           unfold commit_at, ack_at. cbn [Keeper.c_kv with_kv with_app].
           split; [|split; [|split; [|exact RV]]].
           ++ right. rewrite lookup_set_eq. repeat split; auto. right. left. reflexivity.
           ++ left. rewrite lookup_set_neq by fam_neq. apply lookup_set_neq. fam_neq.
           ++ intros _. rewrite lookup_set_eq. auto.
      * inversion E; subst c' ev. clear E.
        unfold commit_at, ack_at. cbn [Keeper.c_kv with_kv].
        split; [|split; [|split; [|exact RV]]].
        -- right. rewrite lookup_set_eq. repeat split; auto. right. left. reflexivity.
        -- left. rewrite lookup_set_neq by fam_neq. apply lookup_set_neq. fam_neq.
        -- intros _. rewrite lookup_set_eq. auto.
Qed.

End Recv.

(** AcknowledgePacket (keeper), when it succeeds *)
Lemma ack_packet_inv c p a pf h c' ev :
  ack_packet A H c p a pf h = Some (c', ev) ->
  validate_basic p = true /\ clean_seq A c (p_src p) (p_dst p) < p_seq p /\
  beq (match commit_at c (p_src p) (p_dst p) (p_seq p) with Some b => b | None => [] end)
      (H (p_data p)) = true /\
  (exists from cl, lookup from (c_clients A c) = Some cl /\ client_active cl (c_now A c) = true /\
     from = (if beq (p_src p) (c_name c) && negb (is_nil (p_relay p)) then p_relay p else p_dst p) /\
     verify cl from h pf (ack_key (p_src p) (p_dst p) (p_seq p)) (H a) = true) /\
  commit_at c' (p_src p) (p_dst p) (p_seq p) = None /\
  (forall k, k <> commit_key (p_src p) (p_dst p) (p_seq p) ->
             k <> ack_key (p_src p) (p_dst p) (p_seq p) ->
             k <> maxack_key (p_src p) (p_dst p) ->
             lookup k (c_kv c') = lookup k (c_kv c)) /\
  (ev = [EAck p a] \/ (ev = [EAck p a; EWriteAck p a] /\ p_relay p = c_name c)) /\
  (c_name c' = c_name c /\ c_clients A c' = c_clients A c /\ c_rules A c' = c_rules A c /\
   c_now A c' = c_now A c /\ c_app A c' = c_app A c).
Proof.
  unfold ack_packet. intros E.
  destruct (validate_packet A c p) eqn:V; [|discriminate]. cbn [negb] in E.
  apply validate_packet_inv in V. destruct V as [V L].
  fold (commit_at c (p_src p) (p_dst p) (p_seq p)) in E.
  destruct (beq _ (H (p_data p))) eqn:B; [|discriminate]. cbn [negb] in E.
  destruct (lookup _ (c_clients A c)) as [cl|] eqn:CL; [|discriminate].
  destruct (client_active cl (c_now A c)) eqn:AC; [|discriminate]. cbn [negb] in E.
  destruct (verify _ _ _ _ _ _) eqn:VF; [|discriminate]. cbn [negb] in E.
  assert (CK0 : forall kv, lookup (commit_key (p_src p) (p_dst p) (p_seq p))
                 (set_max_ack (p_src p) (p_dst p) (p_seq p)
                    (remove (commit_key (p_src p) (p_dst p) (p_seq p)) kv)) = None).
  { intros kv. rewrite lookup_set_max_ack_other by fam_neq. apply lookup_remove_eq. }
  destruct (beq (p_relay p) (c_name c)) eqn:RL.
  - destruct (has (p_src p) (c_clients A c)); [|discriminate]. cbn [negb] in E.
    inversion E; subst c' ev. clear E.
    refine (conj V (conj L (conj eq_refl (conj _ (conj _ (conj _ (conj _ _))))))).
    + eexists _, cl. repeat split; eauto.
    + unfold commit_at. cbn [Keeper.c_kv with_kv]. rewrite lookup_set_neq by fam_neq. apply CK0.
    + intros k k1 k2 k3. cbn [Keeper.c_kv with_kv]. rewrite lookup_set_neq by exact k2.
      rewrite lookup_set_max_ack_other by exact k3. apply lookup_remove_neq. exact k1.
    + right. split; [reflexivity|]. apply beq_spec. exact RL.
    + repeat split; reflexivity.
  - inversion E; subst c' ev. clear E.
    refine (conj V (conj L (conj eq_refl (conj _ (conj _ (conj _ (conj _ _))))))).
    + eexists _, cl. repeat split; eauto.
    + unfold commit_at. cbn [Keeper.c_kv with_kv]. apply CK0.
    + intros k k1 k2 k3. cbn [Keeper.c_kv with_kv].
      rewrite lookup_set_max_ack_other by exact k3. apply lookup_remove_neq. exact k1.
    + left. reflexivity.
    + repeat split; reflexivity.
Qed.

Lemma ack_packet_vals c p a pf h c' ev :
  ack_packet A H c p a pf h = Some (c', ev) ->
  (ev = [EAck p a] /\ p_relay p <> c_name c /\
   ack_at c' (p_src p) (p_dst p) (p_seq p) = ack_at c (p_src p) (p_dst p) (p_seq p)) \/
  (ev = [EAck p a; EWriteAck p a] /\ p_relay p = c_name c /\
   ack_at c' (p_src p) (p_dst p) (p_seq p) = Some (H a)).
Proof.
  unfold ack_packet. intros E.
  destruct (validate_packet A c p); [|discriminate]. cbn [negb] in E.
  destruct (beq _ (H (p_data p))); [|discriminate]. cbn [negb] in E.
  destruct (lookup _ (c_clients A c)) as [cl|]; [|discriminate].
  destruct (client_active cl (c_now A c)); [|discriminate]. cbn [negb] in E.
  destruct (verify _ _ _ _ _ _); [|discriminate]. cbn [negb] in E.
  destruct (beq (p_relay p) (c_name c)) eqn:RL.
  - destruct (has (p_src p) (c_clients A c)); [|discriminate]. cbn [negb] in E.
    inversion E; subst c' ev. right. split; [reflexivity|]. split; [apply beq_spec; exact RL|].
    unfold ack_at. cbn [Keeper.c_kv with_kv]. apply lookup_set_eq.
  - inversion E; subst c' ev. left. split; [reflexivity|]. split; [apply beq_false; exact RL|].
    unfold ack_at. cbn [Keeper.c_kv with_kv]. rewrite lookup_set_max_ack_other by fam_neq.
    apply lookup_remove_neq. fam_neq.
Qed.

Section Ack.
Variable has_route : bytes -> bool.
Variable on_ack : A -> packet -> bytes -> option A.

Lemma msg_ack_inv c p a pf h c' ev :
  msg_ack A H has_route on_ack c p a pf h = Some (c', ev) ->
  a <> [] /\
  exists c1 ev1, ack_packet A H c p a pf h = Some (c1, ev1) /\
    c_kv c' = c_kv c1 /\ c_name c' = c_name c /\ c_clients A c' = c_clients A c /\
    c_rules A c' = c_rules A c /\ c_now A c' = c_now A c /\
    ((ev = ev1 /\ c' = c1 /\ p_src p <> c_name c) \/
     (ev = ev1 ++ [EAppAck p a] /\ p_src p = c_name c /\
      on_ack (c_app A c) p a = Some (c_app A c'))).
Proof.
  unfold msg_ack. intros E.
  destruct (N.eqb h 0); [discriminate|]. cbn [orb] in E.
  destruct a as [|x a]; [discriminate|]. cbn [is_nil] in E.
  destruct (has_route (p_port p)); [|discriminate]. cbn [negb] in E.
  destruct (ack_packet A H c p (x :: a) pf h) as [[c1 ev1]|] eqn:AP; [|discriminate].
  split; [discriminate|]. exists c1, ev1. split; [reflexivity|].
  pose proof (ack_packet_inv _ _ _ _ _ _ _ AP) as (_ & _ & _ & _ & _ & _ & _ & N1 & N2 & N3 & N4 & N5).
  destruct (beq (p_src p) (Keeper.c_name A c1)) eqn:S.
  - destruct (on_ack (c_app A c1) p (x :: a)) as [a'|] eqn:OA; [|discriminate].
    inversion E; subst c' ev. clear E. cbn.
    repeat split; auto. right. repeat split.
    + apply beq_spec in S. congruence.
    + rewrite <- N5. exact OA.
  - inversion E; subst c' ev. clear E. repeat split; auto.
    left. repeat split. apply beq_false in S. congruence.
Qed.

End Ack.

(** ValidateCleanPacket *)
Lemma validate_clean_inv c cp :
  validate_clean A c cp = true ->
  clean_seq A c (cp_src cp) (cp_dst cp) < cp_seq cp /\
  cp_seq cp <= max_ack A c (cp_src cp) (cp_dst cp) /\
  (forall m, clean_seq A c (cp_src cp) (cp_dst cp) <= m <= cp_seq cp ->
             commit_at c (cp_src cp) (cp_dst cp) m = None).
Proof.
  unfold validate_clean. rewrite andb_true_iff, !negb_true_iff, orb_false_iff.
  intros [[L1 L2] R]. apply N.leb_gt in L1. apply N.ltb_ge in L2.
  split; [exact L1|]. split; [exact L2|].
  intros m Hm. rewrite any_range_false in R. apply R.
  exists (m - clean_seq A c (cp_src cp) (cp_dst cp)). split; [lia|]. f_equal. lia.
Qed.

Lemma clean_packet_inv c cp c' ev :
  clean_packet A c cp = Some (c', ev) ->
  clean_validate_basic cp = true /\
  validate_clean A c (mkClean (cp_seq cp) (c_name c) (cp_dst cp) (cp_relay cp)) = true /\
  ev = [ECleanSend (mkClean (cp_seq cp) (c_name c) (cp_dst cp) (cp_relay cp))] /\
  c' = with_kv A c (clean_acks_receipts (c_name c) (cp_dst cp) (cp_seq cp)
                      (set (clean_key (c_name c) (cp_dst cp)) (be64 (cp_seq cp)) (c_kv c))).
Proof.
  unfold clean_packet. intros E.
  destruct (clean_validate_basic cp); [|discriminate]. cbn [negb] in E.
  destruct (validate_clean A c _) eqn:V; [|discriminate]. cbn [negb] in E.
  destruct (has _ (c_clients A c)); [|discriminate]. cbn [negb] in E.
  inversion E; subst. auto.
Qed.

Lemma recv_clean_inv c cp pf h c' ev :
  recv_clean A c cp pf h = Some (c', ev) ->
  clean_validate_basic cp = true /\ validate_clean A c cp = true /\
  (exists from cl, lookup from (c_clients A c) = Some cl /\ client_active cl (c_now A c) = true /\
     from = (if beq (cp_dst cp) (c_name c) && negb (is_nil (cp_relay cp)) then cp_relay cp else cp_src cp) /\
     verify cl from h pf (clean_key (cp_src cp) (cp_dst cp)) (be64 (cp_seq cp)) = true) /\
  (ev = [ECleanRecv cp] \/ ev = [ECleanRecv cp; ECleanSend cp]) /\
  c' = with_kv A c (set (clean_key (cp_src cp) (cp_dst cp)) (be64 (cp_seq cp))
                      (clean_acks_receipts (cp_src cp) (cp_dst cp) (cp_seq cp) (c_kv c))).
Proof.
  unfold recv_clean. intros E.
  destruct (clean_validate_basic cp); [|discriminate]. cbn [negb] in E.
  destruct (validate_clean A c cp) eqn:V; [|discriminate]. cbn [negb] in E.
  destruct (lookup _ (c_clients A c)) as [cl|] eqn:CL; [|discriminate].
  destruct (client_active cl (c_now A c)) eqn:AC; [|discriminate]. cbn [negb] in E.
  destruct (verify _ _ _ _ _ _) eqn:VF; [|discriminate]. cbn [negb] in E.
  destruct (beq (cp_relay cp) (c_name c)).
  - destruct (has _ (c_clients A c)); [|discriminate]. cbn [negb] in E.
    inversion E; subst. repeat split; auto. eexists _, cl. repeat split; eauto.
  - inversion E; subst. repeat split; auto. eexists _, cl. repeat split; eauto.
Qed.

End Facts.

Arguments op_wf {A} o.
