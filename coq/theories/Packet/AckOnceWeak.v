(** Packet/AckOnce.v re-proved under the premise  forall x, x <> [] -> H x <> []
    (satisfied by the identity "hash" idH of the correspondence harness; the
    premise  forall x, H x <> []  of AckOnce.v is not).  The proofs are those of
    AckOnce.v; the premise is used in two places, where the hashed value is the
    packet data, non-empty by validate_basic.  Definitions (at3, InvA, NoSelf,
    op_noself, Good) are those of AckOnce.v. *)
From Tibc Require Import Base.Bytes Base.BytesFacts Base.FMap Host.Keys Host.KeysFacts
  Routing.Rules Packet.Types Packet.Keeper Packet.U64 Packet.KeyEq Packet.KeeperFacts Packet.Invariants
  Packet.AckOnce.
From Coq Require Import ZArith ZifyN ZifyNat ZifyBool Lia.

Lemma validate_basic_data p : validate_basic p = true -> p_data p <> [].
Proof.
  unfold validate_basic. rewrite !andb_true_iff. intros [[[[_ V] _] _] _].
  destruct (p_data p); [discriminate V|intros X; discriminate X].
Qed.

Section AckOnceWeak.
Variable A : Type.
Variable H : bytes -> bytes.
Variable has_route : bytes -> bool.
Variable on_recv : A -> packet -> option (A * option bytes).
Variable on_ack : A -> packet -> bytes -> option A.
Hypothesis H_ne : forall x, x <> [] -> H x <> [].

Notation chain := (chain A).
Notation exec := (exec A H has_route on_recv on_ack).
Notation step := (step A H has_route on_recv on_ack).
Notation run := (run A H has_route on_recv on_ack).
Notation c_kv := (c_kv A).
Notation c_name := (c_name A).
Notation clean_seq := (clean_seq A).
Notation receipt_at := (receipt_at A).
Notation commit_at := (commit_at A).
Notation ack_at := (ack_at A).
Notation at3 := (AckOnce.at3 A).
Notation InvA := (AckOnce.InvA A).
Notation NoSelf := (AckOnce.NoSelf A).
Notation op_noself := (AckOnce.op_noself A).
Notation Good := (AckOnce.Good A).
Notation exec_name := (AckOnce.exec_name A H has_route on_recv on_ack).
Notation exec_clients_self := (AckOnce.exec_clients_self A H has_route on_recv on_ack).
Notation InvA_empty := (AckOnce.InvA_empty A).
Notation key_eq_triple := AckOnce.key_eq_triple.

Ltac seqkey_neq_by_src :=
  let E := fresh in intro E; apply seq_key_inj in E;
    [destruct E as (_ & E & _); congruence | try (apply is_fam_noslash; auto with keys) ..].


Lemma at3_frame_w c c' s d n :
  at3 c s d n ->
  commit_at c' s d n = commit_at c s d n -> (ack_at c' s d n <> None -> ack_at c s d n <> None) ->
  (receipt_at c s d n <> None -> receipt_at c' s d n <> None \/ n <= clean_seq c' s d) ->
  clean_seq c s d <= clean_seq c' s d ->
  (commit_at c s d n <> None -> receipt_at c' s d n <> None) ->
  at3 c' s d n.
Proof.
  intros (L & M & J) EC EA ER CL LR. unfold AckOnce.at3. rewrite EC. split; [exact LR|]. split.
  - intros X. destruct (M (EA X)) as [R|R]; [apply ER; exact R|right; lia].
  - intros X. apply J. apply EA. exact X.
Qed.

(** keys of different triples differ *)
Lemma seq_key_neq_w f s d n s' d' n' :
  is_fam f -> noslash s -> noslash d -> noslash s' -> noslash d' -> n < two64 -> n' < two64 ->
  ~ (s = s' /\ d = d' /\ n = n') -> seq_key f s d n <> seq_key f s' d' n'.
Proof. intros F a b c0 d0 e g NE E. apply NE. eapply key_eq_triple; eassumption. Qed.

Lemma pair_key_neq_w f s d s' d' :
  is_fam f -> noslash s -> noslash d -> noslash s' -> noslash d' ->
  ~ (s = s' /\ d = d') -> path [f; s; d] <> path [f; s'; d'].
Proof.
  intros F a b c0 d0 NE E. apply NE. apply pair_key_inj in E; try (apply is_fam_noslash; exact F); try assumption.
  destruct E as (_ & -> & ->). auto.
Qed.

Lemma send_InvA_w c p c' ev : wfp p -> InvA c -> send_packet A H c p = Some (c', ev) -> InvA c'.
Proof.
  intros W I E. apply send_packet_inv in E. destruct E as (V & S & Q & _ & ->).
  apply validate_basic_names in V. destruct V as (Ns & Nd & _ & _).
  intros s d n (Ws & Wd & Wn) NE. cbn [Keeper.c_name with_kv] in NE.
  specialize (I s d n (conj Ws (conj Wd Wn)) NE).
  assert (K1 : commit_key s d n <> commit_key (p_src p) (p_dst p) (p_seq p)).
  { apply seq_key_neq_w; auto with keys. intros (X & _). congruence. }
  apply (at3_frame_w c); auto.
  - unfold KeeperFacts.commit_at. cbn [Keeper.c_kv with_kv]. rewrite lookup_set_neq by exact K1.
    apply lookup_set_neq. fam_neq.
  - unfold KeeperFacts.ack_at. cbn [Keeper.c_kv with_kv]. rewrite !lookup_set_neq by fam_neq. auto.
  - intros R. left. unfold KeeperFacts.receipt_at in *. cbn [Keeper.c_kv with_kv]. rewrite !lookup_set_neq by fam_neq. exact R.
  - unfold Keeper.clean_seq. cbn [Keeper.c_kv with_kv]. rewrite !lookup_set_neq by fam_neq. lia.
  - intros CM. destruct I as (L & _). unfold KeeperFacts.receipt_at in *. cbn [Keeper.c_kv with_kv].
    rewrite !lookup_set_neq by fam_neq. apply L. exact CM.
Qed.

(** no light client under the chain's own name (a chain does not track itself) *)

Lemma recv_InvA_w c p pf h c' ev :
  wfp p -> NoSelf c -> c_name c <> [] -> InvA c ->
  msg_recv A H has_route on_recv c p pf h = Some (c', ev) -> InvA c'.
Proof.
  intros W NS NN I E.
  assert (NAME : c_name c' = c_name c) by (apply msg_recv_inv in E; tauto).
  pose proof (msg_recv_inv _ _ _ _ _ _ _ _ _ _ E) as (V & CL & R0 & R1 & FR & _).
  pose proof (validate_basic_data _ V) as DN.
  apply validate_basic_names in V. destruct V as (Ns & Nd & _ & _).
  intros s d n (Ws & Wd & Wn) NE. rewrite NAME in NE.
  specialize (I s d n (conj Ws (conj Wd Wn)) NE).
  destruct (bytes_eq_dec s (p_src p)) as [Es|Es]; [destruct (bytes_eq_dec d (p_dst p)) as [Ed|Ed];
    [destruct (N.eq_dec n (p_seq p)) as [En|En]|]|].
  2,3,4: (* another triple: nothing it concerns changed *)
    assert (T : ~ (s = p_src p /\ d = p_dst p /\ n = p_seq p)) by (intros (X & Y & Z); congruence);
    assert (KR : receipt_key s d n <> receipt_key (p_src p) (p_dst p) (p_seq p)) by (apply seq_key_neq_w; auto with keys);
    assert (KC : commit_key s d n <> commit_key (p_src p) (p_dst p) (p_seq p)) by (apply seq_key_neq_w; auto with keys);
    assert (KA : ack_key s d n <> ack_key (p_src p) (p_dst p) (p_seq p)) by (apply seq_key_neq_w; auto with keys);
    apply (at3_frame_w c); auto;
    [ unfold KeeperFacts.commit_at; apply FR; [fam_neq|exact KC|fam_neq|fam_neq]
    | unfold KeeperFacts.ack_at; rewrite FR; [auto|fam_neq|fam_neq|exact KA|fam_neq]
    | intros R; left; unfold KeeperFacts.receipt_at in *; rewrite FR; [exact R|exact KR|fam_neq|fam_neq|fam_neq]
    | unfold Keeper.clean_seq; rewrite FR by fam_neq; lia
    | intros CM; destruct I as (L & _); unfold KeeperFacts.receipt_at in *; rewrite FR; [apply L; exact CM|exact KR|fam_neq|fam_neq|fam_neq] ].
  (* the packet's own triple *)
  subst s d n. destruct I as (L & M & J).
  assert (C0 : commit_at c (p_src p) (p_dst p) (p_seq p) = None).
  { destruct (commit_at c (p_src p) (p_dst p) (p_seq p)) eqn:X; [|reflexivity].
    exfalso. apply L; [discriminate|exact R0]. }
  assert (A0 : ack_at c (p_src p) (p_dst p) (p_seq p) = None).
  { destruct (ack_at c (p_src p) (p_dst p) (p_seq p)) eqn:X; [|reflexivity].
    exfalso. destruct M as [M|M]; [discriminate|apply M; exact R0|lia]. }
  unfold AckOnce.at3. split; [intros _; rewrite R1; discriminate|]. split; [intros _; left; rewrite R1; discriminate|].
  (* ack written => not forwarded *)
  intros AK. unfold msg_recv in E.
  destruct (N.eqb h 0); [discriminate|].
  pose proof (recv_packet_inv2 A H c p pf h) as [RS RV].
  destruct (recv_packet A H c p pf h) as [|c1 ev1|c1 ev1] eqn:RP; [discriminate| |].
  - destruct RS as (-> & _ & _ & _).
    destruct (write_ack A H _ p unauth_ack) as [[c2 ev2]|] eqn:WA; [|discriminate].
    inversion E; subst c' ev. apply write_ack_inv in WA. destruct WA as (_ & _ & _ & ->).
    unfold KeeperFacts.commit_at in *. cbn [Keeper.c_kv with_kv].
    rewrite lookup_set_max_ack_other by fam_neq. rewrite !lookup_set_neq by fam_neq. exact C0.
  - destruct RS as [(-> & _ & NR)|(-> & _ & RL & _ & _)].
    + (* not forwarded: the commitment key is untouched *)
      assert (CK : forall c2, c_kv c2 = c_kv (with_kv A c (set (receipt_key (p_src p) (p_dst p) (p_seq p)) receipt_val (c_kv c))) \/
                 (exists a, c_kv c2 = set_max_ack (p_src p) (p_dst p) (p_seq p)
                     (set (ack_key (p_src p) (p_dst p) (p_seq p)) (H a)
                        (set (receipt_key (p_src p) (p_dst p) (p_seq p)) receipt_val (c_kv c)))) ->
                 commit_at c2 (p_src p) (p_dst p) (p_seq p) = None).
      { intros c2 [X|[a X]]; unfold KeeperFacts.commit_at in *; rewrite X; cbn [Keeper.c_kv with_kv].
        - rewrite lookup_set_neq by fam_neq. exact C0.
        - rewrite lookup_set_max_ack_other by fam_neq. rewrite !lookup_set_neq by fam_neq. exact C0. }
      cbn [Keeper.c_name with_kv] in E.
      destruct (beq (p_dst p) (c_name c)).
      * destruct (has_route (p_port p)); cbn [negb] in E; [|discriminate].
        cbn [Keeper.c_app with_kv] in E.
        destruct (on_recv (c_app A c) p) as [[a' oack]|]; [|discriminate].
        destruct oack as [ack|].
        -- destruct (write_ack A H _ p ack) as [[c3 ev3]|] eqn:WA; [|discriminate].
           inversion E; subst c' ev. apply write_ack_inv in WA. destruct WA as (_ & _ & _ & ->).
           apply CK. right. exists ack. reflexivity.
        -- inversion E; subst c' ev. apply CK. left. reflexivity.
      * inversion E; subst c' ev. apply CK. left. reflexivity.
    + (* forwarded: then this chain is not the destination (no client of itself), so no ack is written *)
      exfalso.
      destruct (RV ltac:(discriminate)) as (cl & LK & _).
      cbn [Keeper.c_name with_kv] in E.
      destruct (beq (p_dst p) (c_name c)) eqn:BD.
      * (* dst = relay = own name: the prover is the chain itself *)
        cbn [andb] in LK.
        assert (RN : is_nil (p_relay p) = false) by (rewrite RL; destruct (c_name c); [contradiction|reflexivity]).
        rewrite RN in LK. cbn [negb] in LK. rewrite RL in LK. unfold AckOnce.NoSelf in NS. congruence.
      * inversion E; subst c' ev. apply AK.
        unfold KeeperFacts.ack_at in *. cbn [Keeper.c_kv with_kv]. rewrite !lookup_set_neq by fam_neq. exact A0.
Qed.

Lemma ack_InvA_w c p a pf h c' ev :
  wfp p -> InvA c -> msg_ack A H has_route on_ack c p a pf h = Some (c', ev) -> InvA c'.
Proof.
  intros W I E. apply msg_ack_inv in E. destruct E as (_ & c1 & ev1 & AP & KV & NAME & _).
  pose proof (ack_packet_vals _ _ _ _ _ _ _ _ _ AP) as VALS.
  apply ack_packet_inv in AP. destruct AP as (V & CL & ST & _ & C1 & FR & _).
  pose proof (validate_basic_data _ V) as DN.
  apply validate_basic_names in V. destruct V as (Ns & Nd & _ & _).
  intros s d n (Ws & Wd & Wn) NE. rewrite NAME in NE.
  specialize (I s d n (conj Ws (conj Wd Wn)) NE).
  assert (RCP : receipt_at c' s d n = receipt_at c s d n).
  { unfold KeeperFacts.receipt_at. rewrite KV. apply FR; fam_neq. }
  assert (CLN : clean_seq c' s d = clean_seq c s d).
  { unfold Keeper.clean_seq. rewrite KV. rewrite FR by fam_neq. reflexivity. }
  destruct (bytes_eq_dec s (p_src p)) as [Es|Es]; [destruct (bytes_eq_dec d (p_dst p)) as [Ed|Ed];
    [destruct (N.eq_dec n (p_seq p)) as [En|En]|]|].
  2,3,4:
    assert (T : ~ (s = p_src p /\ d = p_dst p /\ n = p_seq p)) by (intros (X & Y & Z); congruence);
    assert (KC : commit_key s d n <> commit_key (p_src p) (p_dst p) (p_seq p)) by (apply seq_key_neq_w; auto with keys);
    assert (KA : ack_key s d n <> ack_key (p_src p) (p_dst p) (p_seq p)) by (apply seq_key_neq_w; auto with keys);
    apply (at3_frame_w c); auto;
    [ unfold KeeperFacts.commit_at; rewrite KV; apply FR; [exact KC|fam_neq|fam_neq]
    | unfold KeeperFacts.ack_at; rewrite KV; rewrite FR; [auto|fam_neq|exact KA|fam_neq]
    | rewrite RCP; auto
    | rewrite CLN; lia
    | rewrite RCP; destruct I as (L & _); exact L ].
  subst s d n. destruct I as (L & M & J).
  assert (C0 : commit_at c (p_src p) (p_dst p) (p_seq p) <> None).
  { destruct (commit_at c (p_src p) (p_dst p) (p_seq p)); [discriminate|].
    apply beq_spec in ST. symmetry in ST. exfalso. exact (H_ne _ DN ST). }
  assert (CC : commit_at c' (p_src p) (p_dst p) (p_seq p) = None).
  { unfold KeeperFacts.commit_at in *. rewrite KV. exact C1. }
  unfold AckOnce.at3. rewrite CC, RCP, CLN. split; [intros X; congruence|]. split; [|reflexivity].
  intros _. left. apply L. exact C0.
Qed.

Lemma clean_InvA_w c cp c' ev :
  wfcp cp -> noslash (c_name c) -> InvA c -> clean_packet A c cp = Some (c', ev) -> InvA c'.
Proof.
  intros W NSL I E. apply clean_packet_inv in E. destruct E as (VB & _ & _ & ->).
  apply clean_validate_basic_names in VB. destruct VB as [_ Vd].
  assert (KVE : forall k, k <> clean_key (c_name c) (cp_dst cp) ->
            lookup k (clean_acks_receipts (c_name c) (cp_dst cp) (cp_seq cp)
                        (set (clean_key (c_name c) (cp_dst cp)) (be64 (cp_seq cp)) (c_kv c))) = lookup k (c_kv c)).
  { intros k Hk. unfold clean_acks_receipts. rewrite lookup_set_eq. rewrite u64_of_be64 by exact W.
    rewrite N.sub_diag. cbn [N.to_nat del_range]. apply lookup_set_neq. exact Hk. }
  intros s d n (Ws & Wd & Wn) NE. cbn [Keeper.c_name with_kv] in NE.
  specialize (I s d n (conj Ws (conj Wd Wn)) NE).
  apply (at3_frame_w c); auto.
  - unfold KeeperFacts.commit_at. cbn [Keeper.c_kv with_kv]. apply KVE. fam_neq.
  - unfold KeeperFacts.ack_at. cbn [Keeper.c_kv with_kv]. rewrite KVE by fam_neq. auto.
  - intros R. left. unfold KeeperFacts.receipt_at in *. cbn [Keeper.c_kv with_kv]. rewrite KVE by fam_neq. exact R.
  - unfold Keeper.clean_seq. cbn [Keeper.c_kv with_kv]. rewrite KVE; [lia|].
    unfold clean_key. intros X. apply pair_key_inj in X; try assumption; try (apply is_fam_noslash; auto with keys).
    destruct X as (_ & X & _). congruence.
  - intros CM. destruct I as (L & _). unfold KeeperFacts.receipt_at in *. cbn [Keeper.c_kv with_kv].
    rewrite KVE by fam_neq. apply L. exact CM.
Qed.

Lemma recv_clean_InvA_w c cp pf h c' ev :
  wfcp cp -> InvA c -> exec c (ORecvClean cp pf h) = Some (c', ev) -> InvA c'.
Proof.
  intros W I E.
  assert (OW : op_wf (ORecvClean (A:=A) cp pf h)) by exact W.
  pose proof E as E0. cbn [Keeper.exec] in E.
  destruct (N.eqb h 0); [discriminate|].
  apply recv_clean_inv in E. destruct E as (VB & V & _ & _ & EQ).
  apply clean_validate_basic_names in VB. destruct VB as [Vs Vd].
  intros s d n (Ws & Wd & Wn) NE. rewrite EQ in NE. cbn [Keeper.c_name with_kv] in NE.
  specialize (I s d n (conj Ws (conj Wd Wn)) NE).
  pose proof K_clean_ne as [N1 N2].
  assert (CM : commit_at c' s d n = commit_at c s d n).
  { rewrite EQ. unfold KeeperFacts.commit_at. cbn [Keeper.c_kv with_kv]. rewrite lookup_set_neq by fam_neq.
    apply clean_acks_receipts_other; unfold commit_key; rewrite key_fam_seq by (apply is_fam_noslash; auto with keys);
      intro X; apply beq_spec in X; vm_compute in X; discriminate. }
  assert (AK : ack_at c' s d n <> None -> ack_at c s d n <> None).
  { rewrite EQ. unfold KeeperFacts.ack_at. cbn [Keeper.c_kv with_kv]. rewrite lookup_set_neq by fam_neq.
    unfold clean_acks_receipts. intros X.
    destruct (lookup (ack_key s d n) (del_range _ _ _ (del_range _ _ _ (c_kv c)))) as [v|] eqn:LK; [|contradiction].
    apply lookup_del_range_some in LK. apply lookup_del_range_some in LK.
    unfold KeeperFacts.ack_at. rewrite LK. discriminate. }
  apply (at3_frame_w c); auto.
  - intros R. eapply (exec_receipt_persist A H has_route on_recv on_ack); try exact E0; try exact OW;
      [repeat split; assumption|exact R].
  - eapply (exec_clean_mono A H has_route on_recv on_ack); [exact OW|exact E0].
  - (* a commitment keeps its receipt: cleaning covers only ranges without commitments *)
    intros CMT. destruct I as (L & _). specialize (L CMT).
    rewrite EQ. unfold KeeperFacts.receipt_at in *. cbn [Keeper.c_kv with_kv].
    rewrite lookup_set_neq by fam_neq.
    destruct (lookup (receipt_key s d n) (clean_acks_receipts (cp_src cp) (cp_dst cp) (cp_seq cp) (c_kv c))) eqn:LK;
      [discriminate|].
    exfalso. unfold clean_acks_receipts in LK.
    apply del_range_none_inv in LK. destruct LK as [LK|IR].
    + unfold ack_key in LK.
      rewrite lookup_del_range_fam in LK; [contradiction | auto with keys | ].
      unfold receipt_key. rewrite key_fam_seq by (apply is_fam_noslash; auto with keys).
      intro X. apply beq_spec in X. vm_compute in X. discriminate.
    + destruct IR as [i [Hi Eq]]. rewrite Nnat.N2Nat.id in Hi. unfold receipt_key in Eq.
      pose proof (validate_clean_inv A c cp V) as (LT & _ & NOC).
      unfold wfcp in W.
      apply seq_key_inj in Eq; try assumption;
        try (apply is_fam_noslash; auto with keys);
        try (apply two64_lt_bound; lia).
      destruct Eq as (_ & -> & -> & ->).
      apply CMT. apply NOC. unfold Keeper.clean_seq in *. lia.
Qed.

(** operations that do not install a light client under the chain's own name *)

Lemma exec_InvA_w c o c' ev :
  op_wf o -> NoSelf c -> c_name c <> [] -> noslash (c_name c) -> InvA c ->
  exec c o = Some (c', ev) -> InvA c'.
Proof.
  intros W NS NN NSL I E.
  destruct o as [p|p pf h|p a pf h|cp|cp pf h|nm cl|nm h sn t|rs|dt|ap].
  - eapply send_InvA_w; [exact W|exact I|exact E].
  - eapply recv_InvA_w; [exact W|exact NS|exact NN|exact I|exact E].
  - eapply ack_InvA_w; [exact W|exact I|exact E].
  - eapply clean_InvA_w; [exact W|exact NSL|exact I|exact E].
  - eapply recv_clean_InvA_w; [exact W|exact I|exact E].
  - cbn [Keeper.exec] in E. unfold create_client in E. destruct (has nm _); [discriminate|]. inversion E; subst. exact I.
  - cbn [Keeper.exec] in E. unfold update_client in E. destruct (lookup nm _); [|discriminate].
    destruct (negb _); [discriminate|]. inversion E; subst. exact I.
  - cbn [Keeper.exec] in E. destruct (set_rules rs); [|discriminate]. inversion E; subst. exact I.
  - cbn [Keeper.exec] in E. inversion E; subst. exact I.
  - cbn [Keeper.exec] in E. inversion E; subst. exact I.
Qed.

(** reachable states *)

Lemma step_Good_w c o :
  op_wf o -> op_noself (c_name c) o -> Good c -> Good (fst (step c o)).
Proof.
  intros W NO (NS & NN & NSL & I). unfold Keeper.step.
  destruct (exec c o) as [[c' ev]|] eqn:E; cbn [fst]; [|exact (conj NS (conj NN (conj NSL I)))].
  pose proof (exec_name _ _ _ _ E) as NM.
  split; [eapply exec_clients_self; eassumption|]. rewrite NM.
  split; [exact NN|]. split; [exact NSL|]. eapply exec_InvA_w; eassumption.
Qed.

Lemma run_Good_w ops : forall c,
  Forall (op_wf (A:=A)) ops -> Forall (op_noself (c_name c)) ops -> Good c -> Good (run c ops).
Proof.
  induction ops as [|o ops IH]; intros c FW FN G; [exact G|].
  inversion FW as [|? ? W FW']; subst. inversion FN as [|? ? NO FN']; subst.
  unfold Keeper.run. cbn [fold_left]. fold (run (fst (step c o)) ops).
  apply IH; [exact FW'| |apply step_Good_w; assumption].
  assert (NM : c_name (fst (step c o)) = c_name c).
  { unfold Keeper.step. destruct (exec c o) as [[c' ev]|] eqn:E; cbn [fst]; [eapply exec_name; exact E|reflexivity]. }
  rewrite NM. exact FN'.
Qed.

(** the pass-through write of an acknowledgement on a relay chain hits an empty key *)
Lemma passthrough_fresh_w c p a pf h c' ev :
  wfp p -> Good c -> ack_packet A H c p a pf h = Some (c', ev) -> p_relay p = c_name c ->
  ack_at c (p_src p) (p_dst p) (p_seq p) = None.
Proof.
  intros W (NS & NN & NSL & I) E RL.
  pose proof (ack_packet_inv _ _ _ _ _ _ _ _ _ E) as (V & _ & ST & (from & cl & LK & _ & FR & _) & _).
  pose proof (validate_basic_data _ V) as DN.
  apply validate_basic_names in V. destruct V as (Ns & Nd & _ & _).
  assert (SN : p_src p <> c_name c).
  { intros X. rewrite X, beq_refl in FR. cbn [andb] in FR.
    assert (RN : is_nil (p_relay p) = false) by (rewrite RL; destruct (c_name c); [contradiction|reflexivity]).
    rewrite RN in FR. cbn [negb] in FR. subst from. rewrite RL in LK. unfold AckOnce.NoSelf in NS. congruence. }
  destruct (I (p_src p) (p_dst p) (p_seq p) (conj Ns (conj Nd W)) SN) as (_ & _ & J).
  destruct (ack_at c (p_src p) (p_dst p) (p_seq p)) eqn:AK; [|reflexivity].
  exfalso. specialize (J ltac:(discriminate)). rewrite J in ST.
  apply beq_spec in ST. symmetry in ST. exact (H_ne _ DN ST).
Qed.

(** ... in every state reachable from a chain with an empty packet store *)
Theorem relay_ack_never_overwrites_w c0 ops p a pf h c' ev :
  c_kv c0 = [] -> NoSelf c0 -> c_name c0 <> [] -> noslash (c_name c0) ->
  Forall (op_wf (A:=A)) ops -> Forall (op_noself (c_name c0)) ops -> wfp p ->
  ack_packet A H (run c0 ops) p a pf h = Some (c', ev) -> p_relay p = c_name (run c0 ops) ->
  ack_at (run c0 ops) (p_src p) (p_dst p) (p_seq p) = None.
Proof.
  intros KV NS NN NSL FW FN W E RL.
  assert (G : Good (run c0 ops)).
  { apply run_Good_w; [exact FW|exact FN|]. exact (conj NS (conj NN (conj NSL (InvA_empty c0 KV)))). }
  exact (passthrough_fresh_w _ _ _ _ _ _ _ W G E RL).
Qed.


End AckOnceWeak.
