(** C14, packet side: a light client that is not Active is never used to
    accept a packet, an acknowledgement, a clean request or a header update,
    and (because updates are refused too) it stays frozen in every later state. *)
From Tibc Require Import Base.Bytes Base.FMap Host.Keys Routing.Rules Packet.Types Packet.Keeper
  Packet.KeeperFacts Clients.Status.
From Coq Require Import ZArith Lia ZifyN ZifyBool.

Set Default Proof Using "Type".
Section Frozen.
Variable A : Type.
Variable H : bytes -> bytes.
Variable has_route : bytes -> bool.
Variable on_recv : A -> packet -> option (A * option bytes).
Variable on_ack : A -> packet -> bytes -> option A.
Notation chain := (chain A).
Notation exec := (exec A H has_route on_recv on_ack).
Notation step := (step A H has_route on_recv on_ack).
Notation run := (run A H has_route on_recv on_ack).

(** the chain whose light client must vouch for the message *)
Definition recv_prover (c : chain) (p : packet) : bytes :=
  if beq (p_dst p) (c_name A c) && negb (is_nil (p_relay p)) then p_relay p else p_src p.
Definition ack_prover (c : chain) (p : packet) : bytes :=
  if beq (p_src p) (c_name A c) && negb (is_nil (p_relay p)) then p_relay p else p_dst p.
Definition clean_prover (c : chain) (cp : cleanpkt) : bytes :=
  if beq (cp_dst cp) (c_name A c) && negb (is_nil (cp_relay cp)) then cp_relay cp else cp_src cp.

(** the model's client_active is the Tendermint status rule of Clients/Status
    (time in nanoseconds) *)
Lemma client_active_is_tm_status cl s ns :
  client_active cl (now_ns s ns) = true <->
  tm_status (option_map snd (snap_at cl (cl_latest cl))) (cl_period cl) s ns = Active.
Proof.
  unfold client_active, tm_status. destruct (snap_at cl (cl_latest cl)) as [[sn t]|]; cbn [option_map snd].
  - destruct (N.leb_spec (t + cl_period cl) (now_ns s ns)); destruct (N.ltb_spec (now_ns s ns) (t + cl_period cl));
      try lia; split; congruence.
  - split; discriminate.
Qed.

Definition frozen (c : chain) (name : bytes) : Prop :=
  match lookup name (c_clients A c) with
  | Some cl => client_active cl (c_now A c) = false
  | None => True
  end.

Lemma frozen_recv c p pf h : frozen c (recv_prover c p) -> step c (ORecv p pf h) = (c, None).
Proof.
  unfold frozen, recv_prover, Keeper.step. cbn [Keeper.exec]. unfold msg_recv, recv_packet. intros F.
  destruct (N.eqb h 0); [reflexivity|].
  destruct (validate_packet A c p); cbn [negb]; [|reflexivity].
  destruct (has _ (c_kv A c)); [reflexivity|].
  destruct (lookup _ (c_clients A c)) as [cl|]; [|reflexivity].
  rewrite F. reflexivity.
Qed.

Lemma frozen_ack c p a pf h : frozen c (ack_prover c p) -> step c (OAck p a pf h) = (c, None).
Proof.
  unfold frozen, ack_prover, Keeper.step. cbn [Keeper.exec]. unfold msg_ack, ack_packet. intros F.
  destruct (N.eqb h 0 || is_nil a); [reflexivity|].
  destruct (has_route (p_port p)); cbn [negb]; [|reflexivity].
  destruct (validate_packet A c p); cbn [negb]; [|reflexivity].
  destruct (beq _ (H (p_data p))); cbn [negb]; [|reflexivity].
  destruct (lookup _ (c_clients A c)) as [cl|]; [|reflexivity].
  rewrite F. reflexivity.
Qed.

Lemma frozen_recv_clean c cp pf h : frozen c (clean_prover c cp) -> step c (ORecvClean cp pf h) = (c, None).
Proof.
  unfold frozen, clean_prover, Keeper.step. cbn [Keeper.exec]. unfold recv_clean. intros F.
  destruct (N.eqb h 0); [reflexivity|].
  destruct (clean_validate_basic cp); cbn [negb]; [|reflexivity].
  destruct (validate_clean A c cp); cbn [negb]; [|reflexivity].
  destruct (lookup _ (c_clients A c)) as [cl|]; [|reflexivity].
  rewrite F. reflexivity.
Qed.

Lemma frozen_update c name h snap t cl :
  lookup name (c_clients A c) = Some cl -> client_active cl (c_now A c) = false ->
  step c (OUpdateClient name h snap t) = (c, None).
Proof.
  intros L F. unfold Keeper.step. cbn [Keeper.exec]. unfold update_client. rewrite L, F. reflexivity.
Qed.

(** conversely an accepted message was vouched for by an Active client *)
Lemma accepted_recv_active c p pf h c' ev :
  step c (ORecv p pf h) = (c', Some ev) ->
  exists cl, lookup (recv_prover c p) (c_clients A c) = Some cl /\ client_active cl (c_now A c) = true.
Proof.
  unfold recv_prover, Keeper.step. cbn [Keeper.exec]. unfold msg_recv, recv_packet. intros E.
  destruct (N.eqb h 0); [discriminate|].
  destruct (validate_packet A c p); cbn [negb] in E; [|discriminate].
  destruct (has _ (c_kv A c)); [discriminate|].
  destruct (lookup _ (c_clients A c)) as [cl|]; [|discriminate].
  destruct (client_active cl (c_now A c)) eqn:AC; [|discriminate].
  exists cl. split; [reflexivity|exact AC].
Qed.

Lemma accepted_ack_active c p a pf h c' ev :
  step c (OAck p a pf h) = (c', Some ev) ->
  exists cl, lookup (ack_prover c p) (c_clients A c) = Some cl /\ client_active cl (c_now A c) = true.
Proof.
  unfold ack_prover, Keeper.step. cbn [Keeper.exec]. unfold msg_ack, ack_packet. intros E.
  destruct (N.eqb h 0 || is_nil a); [discriminate|].
  destruct (has_route (p_port p)); cbn [negb] in E; [|discriminate].
  destruct (validate_packet A c p); cbn [negb] in E; [|discriminate].
  destruct (beq _ (H (p_data p))); cbn [negb] in E; [|discriminate].
  destruct (lookup _ (c_clients A c)) as [cl|]; [|discriminate].
  destruct (client_active cl (c_now A c)) eqn:AC; [|discriminate].
  exists cl. split; [reflexivity|exact AC].
Qed.

Lemma accepted_recv_clean_active c cp pf h c' ev :
  step c (ORecvClean cp pf h) = (c', Some ev) ->
  exists cl, lookup (clean_prover c cp) (c_clients A c) = Some cl /\ client_active cl (c_now A c) = true.
Proof.
  unfold clean_prover, Keeper.step. cbn [Keeper.exec]. unfold recv_clean. intros E.
  destruct (N.eqb h 0); [discriminate|].
  destruct (clean_validate_basic cp); cbn [negb] in E; [|discriminate].
  destruct (validate_clean A c cp); cbn [negb] in E; [|discriminate].
  destruct (lookup _ (c_clients A c)) as [cl|]; [|discriminate].
  destruct (client_active cl (c_now A c)) eqn:AC; [|discriminate].
  exists cl. split; [reflexivity|exact AC].
Qed.

Lemma accepted_update_active c name h snap t c' ev :
  step c (OUpdateClient name h snap t) = (c', Some ev) ->
  exists cl, lookup name (c_clients A c) = Some cl /\ client_active cl (c_now A c) = true.
Proof.
  unfold Keeper.step. cbn [Keeper.exec]. unfold update_client. intros E.
  destruct (lookup name (c_clients A c)) as [cl|]; [|discriminate].
  destruct (client_active cl (c_now A c)) eqn:AC; [|discriminate].
  exists cl. split; [reflexivity|exact AC].
Qed.

(** *** frozen forever *)

Lemma inactive_mono cl now now' :
  client_active cl now = false -> now <= now' -> client_active cl now' = false.
Proof.
  unfold client_active. destruct (snap_at cl (cl_latest cl)) as [[sn t]|]; [|reflexivity].
  intros F L. destruct (N.ltb_spec now (t + cl_period cl)); [discriminate|].
  destruct (N.ltb_spec now' (t + cl_period cl)); [lia|reflexivity].
Qed.

Lemma step_keeps_inactive_client c o name cl :
  lookup name (c_clients A c) = Some cl -> client_active cl (c_now A c) = false ->
  lookup name (c_clients A (fst (step c o))) = Some cl /\ c_now A c <= c_now A (fst (step c o)).
Proof.
  intros L F. unfold Keeper.step. destruct (exec c o) as [[c' ev]|] eqn:E; cbn [fst]; [|split; [exact L|lia]].
  destruct o; cbn [Keeper.exec] in E.
  - apply send_packet_inv in E. destruct E as (_ & _ & _ & _ & ->). cbn [c_clients c_now with_clients with_kv with_rules with_now with_app]. split; [exact L|lia].
  - apply msg_recv_inv in E. destruct E as (_ & _ & _ & _ & _ & _ & _ & _ & _ & CL & _ & NW).
    rewrite CL, NW. split; [exact L|lia].
  - apply msg_ack_inv in E. destruct E as (_ & c1 & ev1 & _ & _ & _ & CL & _ & NW & _).
    rewrite CL, NW. split; [exact L|lia].
  - apply clean_packet_inv in E. destruct E as (_ & _ & _ & ->). cbn [c_clients c_now with_clients with_kv with_rules with_now with_app]. split; [exact L|lia].
  - destruct (N.eqb h 0); [discriminate|].
    apply recv_clean_inv in E. destruct E as (_ & _ & _ & _ & ->). cbn [c_clients c_now with_clients with_kv with_rules with_now with_app]. split; [exact L|lia].
  - unfold create_client in E. destruct (has name0 (c_clients A c)) eqn:HS; [discriminate|].
    cbn in E. inversion E; subst. cbn [c_clients c_now with_clients with_kv with_rules with_now with_app]. split; [|lia].
    rewrite lookup_set_neq; [exact L|]. intros ->. unfold has in HS. rewrite L in HS. discriminate.
  - unfold update_client in E. destruct (lookup name0 (c_clients A c)) as [cl0|] eqn:L0; [|discriminate].
    destruct (client_active cl0 (c_now A c)) eqn:AC; [|discriminate]. cbn in E. inversion E; subst. cbn [c_clients c_now with_clients with_kv with_rules with_now with_app].
    split; [|lia]. rewrite lookup_set_neq; [exact L|]. intros ->. rewrite L in L0. inversion L0; subst. congruence.
  - destruct (set_rules rs); [|discriminate]. inversion E; subst. cbn [c_clients c_now with_clients with_kv with_rules with_now with_app]. split; [exact L|lia].
  - inversion E; subst. cbn [c_clients c_now with_clients with_kv with_rules with_now with_app]. split; [exact L|lia].
  - inversion E; subst. cbn [c_clients c_now with_clients with_kv with_rules with_now with_app]. split; [exact L|lia].
Qed.

Lemma frozen_forever ops : forall c name cl,
  lookup name (c_clients A c) = Some cl -> client_active cl (c_now A c) = false ->
  lookup name (c_clients A (run c ops)) = Some cl /\
  client_active cl (c_now A (run c ops)) = false.
Proof.
  induction ops as [|o ops IH]; intros c name cl L F; [split; assumption|].
  unfold Keeper.run. cbn [fold_left]. fold (run (fst (step c o)) ops).
  destruct (step_keeps_inactive_client c o name cl L F) as [L' T].
  apply IH; [exact L'|]. eapply inactive_mono; eassumption.
Qed.

End Frozen.
