(** C03, "never overwritten": the pass-through write of an acknowledgement on a
    relay chain (SetPacketAcknowledgement in AcknowledgePacket) always hits an
    empty key, in every reachable state.  (WriteAcknowledgement checks the key
    itself; the pass-through does not — it is safe because of the invariant
    below.)

    For packets of other chains (source <> own name), in every reachable state:
      L  commitment present   ->  receipt present
      M  ack present          ->  receipt present \/ seq <= clean point
      J  ack present          ->  commitment absent                       *)
From Tibc Require Import Base.Bytes Base.BytesFacts Base.FMap Host.Keys Host.KeysFacts
  Routing.Rules Packet.Types Packet.Keeper Packet.U64 Packet.KeyEq Packet.KeeperFacts Packet.Invariants.
From Coq Require Import ZArith ZifyN ZifyNat ZifyBool Lia.

Set Default Proof Using "Type".

Section DelRangeMore.
Context {V : Type}.
Lemma lookup_del_range_some f cnt : forall start (m : fmap V) k v,
  lookup k (del_range f start cnt m) = Some v -> lookup k m = Some v.
Proof.
  induction cnt as [|c IH]; intros start m k v E; cbn [del_range] in E; [exact E|].
  apply IH in E. rewrite lookup_remove in E. destruct (beq k (f start)); [discriminate|exact E].
Qed.
End DelRangeMore.

Section AckOnce.
Variable A : Type.
Variable H : bytes -> bytes.
Variable has_route : bytes -> bool.
Variable on_recv : A -> packet -> option (A * option bytes).
Variable on_ack : A -> packet -> bytes -> option A.
Hypothesis H_nonempty : forall x, H x <> [].

Notation chain := (chain A).
Notation exec := (exec A H has_route on_recv on_ack).
Notation step := (step A H has_route on_recv on_ack).
Notation run := (run A H has_route on_recv on_ack).
Notation c_kv := (c_kv A).
Notation c_name := (c_name A).
Notation clean_seq := (clean_seq A).
Notation receipt_at := (receipt_at A).
Notation commit_at := (commit_at A).
Notation ack_at := (ack_at A).

Definition InvA (c : chain) : Prop :=
  forall s d n, wfk s d n -> s <> c_name c ->
    (commit_at c s d n <> None -> receipt_at c s d n <> None) /\
    (ack_at c s d n <> None -> receipt_at c s d n <> None \/ n <= clean_seq c s d) /\
    (ack_at c s d n <> None -> commit_at c s d n = None).

Lemma InvA_empty c : c_kv c = [] -> InvA c.
Proof.
  intros E s d n _ _. unfold KeeperFacts.commit_at, KeeperFacts.ack_at. rewrite E. cbn.
  repeat split; intros X; congruence.
Qed.

Ltac seqkey_neq_by_src :=
  let E := fresh in intro E; apply seq_key_inj in E;
    [destruct E as (_ & E & _); congruence | try (apply is_fam_noslash; auto with keys) ..].

(** a key of the packet [p] equals the key of (s,d,n) only if the triples agree *)
Lemma key_eq_triple f s d n s' d' n' :
  is_fam f -> noslash s -> noslash d -> noslash s' -> noslash d' -> n < two64 -> n' < two64 ->
  seq_key f s d n = seq_key f s' d' n' -> s = s' /\ d = d' /\ n = n'.
Proof.
  intros F Hs Hd Hs' Hd' Hn Hn' E.
  apply seq_key_inj in E; try (apply is_fam_noslash; exact F); try assumption;
    try (apply two64_lt_bound; assumption).
  destruct E as (_ & -> & -> & ->). auto.
Qed.

Lemma exec_name c o c' ev : exec c o = Some (c', ev) -> c_name c' = c_name c.
Proof.
  intros E. destruct o; cbn [Keeper.exec] in E.
  - apply send_packet_inv in E. destruct E as (_ & _ & _ & _ & ->). reflexivity.
  - apply msg_recv_inv in E. destruct E as (_ & _ & _ & _ & _ & _ & _ & _ & N & _). exact N.
  - apply msg_ack_inv in E. destruct E as (_ & c1 & ev1 & _ & _ & N & _). exact N.
  - apply clean_packet_inv in E. destruct E as (_ & _ & _ & ->). reflexivity.
  - destruct (N.eqb h 0); [discriminate|]. apply recv_clean_inv in E. destruct E as (_ & _ & _ & _ & ->). reflexivity.
  - unfold create_client in E. destruct (has name _); [discriminate|]. inversion E; subst. reflexivity.
  - unfold update_client in E. destruct (lookup name _); [|discriminate].
    destruct (negb _); [discriminate|]. inversion E; subst. reflexivity.
  - destruct (set_rules rs); [|discriminate]. inversion E; subst. reflexivity.
  - inversion E; subst. reflexivity.
  - inversion E; subst. reflexivity.
Qed.

End AckOnce.
