(** C02 (second sentence) / C11: sufficient conditions for a relayed packet to
    be accepted at its next hop. *)
From Tibc Require Import Base.Bytes Base.BytesFacts Base.FMap Host.Keys Host.KeysFacts
  Routing.Rules Packet.Types Packet.Keeper Packet.U64 Packet.KeyEq Packet.KeeperFacts.

Section Complete.
Variable A : Type.
Variable H : bytes -> bytes.
Variable has_route : bytes -> bool.
Variable on_recv : A -> packet -> option (A * option bytes).

Notation chain := (chain A).

Definition prover (c : chain) (p : packet) : bytes :=
  if beq (p_dst p) (c_name A c) && negb (is_nil (p_relay p)) then p_relay p else p_src p.

(** the chain-independent part of acceptance: well-formed, above the clean
    point, not yet received, and proven against an active client *)
Definition deliverable (c : chain) (p : packet) (pf : proof) (h : N) : Prop :=
  validate_basic p = true /\ h <> 0 /\
  clean_seq A c (p_src p) (p_dst p) < p_seq p /\
  receipt_at A c (p_src p) (p_dst p) (p_seq p) = None /\
  exists cl, lookup (prover c p) (c_clients A c) = Some cl /\
             client_active cl (c_now A c) = true /\
             verify cl (prover c p) h pf (commit_key (p_src p) (p_dst p) (p_seq p)) (H (p_data p)) = true.

Lemma recv_packet_ok_nonrelay c p pf h :
  deliverable c p pf h -> p_dst p = c_name A c -> p_relay p <> c_name A c ->
  recv_packet A H c p pf h =
  ROk A (with_kv A c (set (receipt_key (p_src p) (p_dst p) (p_seq p)) receipt_val (c_kv A c))) [ERecv p].
Proof.
  intros (V & Hh & L & R & cl & CL & AC & VF) D NR. unfold recv_packet, validate_packet.
  rewrite V. rewrite <- D at 2. rewrite beq_refl, orb_true_r. cbn [andb].
  apply N.ltb_lt in L. rewrite L. cbn [negb].
  unfold receipt_at in R. unfold has. rewrite R.
  unfold prover in *. rewrite CL, AC. cbn [negb]. rewrite VF. cbn [negb].
  apply beq_false in NR. rewrite NR. reflexivity.
Qed.

(** at the destination (not via this chain as relay): the packet is handed to
    the application and the application's acknowledgement is recorded *)
Theorem recv_complete_dest c p pf h a' ack :
  deliverable c p pf h -> p_dst p = c_name A c -> p_relay p <> c_name A c ->
  has_route (p_port p) = true ->
  on_recv (c_app A c) p = Some (a', Some ack) -> ack <> [] ->
  ack_at A c (p_src p) (p_dst p) (p_seq p) = None ->
  exists c' ev, msg_recv A H has_route on_recv c p pf h = Some (c', ev) /\
                In (EDeliver p) ev /\ In (EWriteAck p ack) ev /\
                ack_at A c' (p_src p) (p_dst p) (p_seq p) = Some (H ack).
Proof.
  intros DL D NR HR OR NE AK.
  pose proof DL as (V & Hh & L & R & cl & CL & AC & VF).
  assert (DB : beq (p_dst p) (c_name A c) = true) by (apply beq_spec; exact D).
  unfold msg_recv. apply N.eqb_neq in Hh. rewrite Hh.
  rewrite (recv_packet_ok_nonrelay c p pf h DL D NR).
  cbn [Keeper.c_name with_kv]. rewrite DB. rewrite HR. cbn [negb].
  cbn [c_app with_kv]. rewrite OR.
  unfold write_ack. destruct ack as [|x ack]; [contradiction|]. cbn [is_nil].
  cbn [Keeper.c_kv with_kv with_app Keeper.c_name Keeper.c_clients].
  unfold has. rewrite lookup_set_neq by fam_neq. unfold ack_at in AK. rewrite AK.
  rewrite DB, andb_true_r.
  assert (T : lookup (if negb (is_nil (p_relay p)) then p_relay p else p_src p) (c_clients A c) = Some cl).
  { unfold prover in CL. rewrite DB in CL. exact CL. }
  rewrite T. cbn [negb]. eexists _, _. split; [reflexivity|]. split; [|split].
  - apply in_or_app. right. left. reflexivity.
  - apply in_or_app. right. right. left. reflexivity.
  - unfold ack_at. cbn [Keeper.c_kv with_kv]. rewrite lookup_set_max_ack_other by fam_neq.
    apply lookup_set_eq.
Qed.

(** on the packet's relay chain: re-committed unchanged for the destination
    iff the whitelist allows it and the destination is known *)
Theorem recv_complete_relay c p pf h :
  deliverable c p pf h -> p_relay p = c_name A c -> p_dst p <> c_name A c ->
  authenticate (c_rules A c) (p_src p) (p_dst p) (p_port p) = true ->
  has (p_dst p) (c_clients A c) = true ->
  exists c', msg_recv A H has_route on_recv c p pf h = Some (c', [ERecv p; ESend p]) /\
             commit_at A c' (p_src p) (p_dst p) (p_seq p) = Some (H (p_data p)) /\
             c_app A c' = c_app A c.
Proof.
  intros (V & Hh & L & R & cl & CL & AC & VF) RL ND AU HD.
  assert (RB : beq (p_relay p) (c_name A c) = true) by (apply beq_spec; exact RL).
  unfold msg_recv. apply N.eqb_neq in Hh. rewrite Hh.
  unfold recv_packet, validate_packet. rewrite V, RB. cbn [orb andb].
  apply N.ltb_lt in L. rewrite L. cbn [negb].
  unfold receipt_at in R. unfold has in *. rewrite R.
  unfold prover in *. rewrite CL, AC. cbn [negb]. rewrite VF. cbn [negb].
  rewrite AU. cbn [negb].
  destruct (lookup (p_dst p) (c_clients A c)); [|discriminate]. cbn [negb].
  cbn [Keeper.c_name with_kv]. apply beq_false in ND. rewrite ND.
  eexists. split; [reflexivity|]. split; [|reflexivity].
  unfold commit_at. cbn [Keeper.c_kv with_kv]. apply lookup_set_eq.
Qed.

End Complete.
