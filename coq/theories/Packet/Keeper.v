(** 04-packet/keeper/{packet,keeper}.go and the packet handlers of
    core/keeper/msg_server.go, on one chain.  Every function returns [None]
    when the Go code returns an error (the transaction is then discarded by
    BaseApp, so the pre-state is kept by the caller). *)
From Tibc Require Import Base.Bytes Base.FMap Host.Keys Routing.Rules Packet.Types.

(** a relayer-supplied proof, abstractly: a genuine existence proof for [key]
    in the store of [chain] at the claimed height, or anything else *)
Inductive proof := PGenuine (chain key : bytes) | PGarbage.

(** light client of a counterparty: the store snapshots (with header time) it
    has recorded per height, its latest height and its trusting period *)
Record client := mkClient {
  cl_snaps : fmap (fmap bytes * N);   (* key: be64 height *)
  cl_latest : N;
  cl_period : N }.

Definition hkey (h : N) : bytes := be64 h.

Definition snap_at (cl : client) (h : N) : option (fmap bytes * N) := lookup (hkey h) (cl_snaps cl).

(** Status: Active iff the consensus state at the latest height exists and is
    younger than the trusting period (Tendermint rule: expired iff
    time + period <= now) *)
Definition client_active (cl : client) (now : N) : bool :=
  match snap_at cl (cl_latest cl) with
  | None => false
  | Some (_, t) => now <? t + cl_period cl
  end.

Definition opt_beq (a : option bytes) (b : bytes) : bool :=
  match a with Some x => beq x b | None => false end.

(** Verify{PacketCommitment,PacketAcknowledgement,PacketCleanCommitment}:
    membership of (key,value) in the counterparty state recorded at height h *)
Definition verify (cl : client) (from : bytes) (h : N) (pf : proof) (key value : bytes) : bool :=
  match pf with
  | PGarbage => false
  | PGenuine g k =>
      beq g from && beq k key && (h <=? cl_latest cl) &&
      match snap_at cl h with
      | Some (snap, _) => opt_beq (lookup key snap) value
      | None => false
      end
  end.

Definition u64_of (o : option bytes) : N :=
  match o with None => 0 | Some b => fold_left (fun a x => a * 256 + x) b 0 end.

Definition unauth_ack : bytes := of_string "error:unauthorized".
Definition receipt_val : bytes := [1].

Section Keeper.
Variable A : Type.                                   (* application state *)
Variable H : bytes -> bytes.                         (* sha256 *)
Variable has_route : bytes -> bool.                  (* Router.GetRoute(port) *)
Variable on_recv : A -> packet -> option (A * option bytes).   (* None = callback error *)
Variable on_ack : A -> packet -> bytes -> option A.

Record chain := mkChain {
  c_name : bytes;
  c_kv : fmap bytes;
  c_clients : fmap client;
  c_rules : option (list bytes);
  c_now : N;
  c_app : A }.

Definition with_kv (c : chain) (kv : fmap bytes) : chain :=
  mkChain (c_name c) kv (c_clients c) (c_rules c) (c_now c) (c_app c).
Definition with_app (c : chain) (a : A) : chain :=
  mkChain (c_name c) (c_kv c) (c_clients c) (c_rules c) (c_now c) a.
Definition with_clients (c : chain) (cls : fmap client) : chain :=
  mkChain (c_name c) (c_kv c) cls (c_rules c) (c_now c) (c_app c).
Definition with_rules (c : chain) (r : option (list bytes)) : chain :=
  mkChain (c_name c) (c_kv c) (c_clients c) r (c_now c) (c_app c).
Definition with_now (c : chain) (t : N) : chain :=
  mkChain (c_name c) (c_kv c) (c_clients c) (c_rules c) t (c_app c).

Definition next_send (c : chain) (s d : bytes) : N :=
  match lookup (next_send_key s d) (c_kv c) with None => 1 | Some b => u64_of (Some b) end.
Definition clean_seq (c : chain) (s d : bytes) : N := u64_of (lookup (clean_key s d) (c_kv c)).
Definition max_ack (c : chain) (s d : bytes) : N := u64_of (lookup (maxack_key s d) (c_kv c)).

Definition set_max_ack (s d : bytes) (n : N) (kv : fmap bytes) : fmap bytes :=
  let cur := u64_of (lookup (maxack_key s d) kv) in
  set (maxack_key s d) (be64 (if cur <? n then n else cur)) kv.

(** SendPacket *)
Definition send_packet (c : chain) (p : packet) : option (chain * list event) :=
  if negb (validate_basic p) then None else
  if negb (beq (p_src p) (c_name c)) then None else
  let target := if is_nil (p_relay p) then p_dst p else p_relay p in
  if negb (has target (c_clients c)) then None else
  let nss := next_send c (p_src p) (p_dst p) in
  if negb (N.eqb (p_seq p) nss) then None else
  let kv1 := set (next_send_key (p_src p) (p_dst p)) (be64 ((nss + 1) mod two64)) (c_kv c) in
  let kv2 := set (commit_key (p_src p) (p_dst p) (p_seq p)) (H (p_data p)) kv1 in
  Some (with_kv c kv2, [ESend p]).

(** ValidatePacket *)
Definition validate_packet (c : chain) (p : packet) : bool :=
  validate_basic p &&
  (beq (p_relay p) (c_name c) || beq (p_dst p) (c_name c) || beq (p_src p) (c_name c)) &&
  (clean_seq c (p_src p) (p_dst p) <? p_seq p).

Inductive rres := RErr | RUnauth (c : chain) (ev : list event) | ROk (c : chain) (ev : list event).

(** RecvPacket (keeper) *)
Definition recv_packet (c : chain) (p : packet) (pf : proof) (h : N) : rres :=
  if negb (validate_packet c p) then RErr else
  if has (receipt_key (p_src p) (p_dst p) (p_seq p)) (c_kv c) then RErr else
  let from := if beq (p_dst p) (c_name c) && negb (is_nil (p_relay p)) then p_relay p else p_src p in
  match lookup from (c_clients c) with
  | None => RErr
  | Some cl =>
    if negb (client_active cl (c_now c)) then RErr else
    if negb (verify cl from h pf (commit_key (p_src p) (p_dst p) (p_seq p)) (H (p_data p))) then RErr else
    let c1 := with_kv c (set (receipt_key (p_src p) (p_dst p) (p_seq p)) receipt_val (c_kv c)) in
    if beq (p_relay p) (c_name c) then
      if negb (authenticate (c_rules c) (p_src p) (p_dst p) (p_port p)) then RUnauth c1 [ERecv p]
      else if negb (has (p_dst p) (c_clients c)) then RErr
      else ROk (with_kv c1 (set (commit_key (p_src p) (p_dst p) (p_seq p)) (H (p_data p)) (c_kv c1)))
               [ERecv p; ESend p]
    else ROk c1 [ERecv p]
  end.

(** WriteAcknowledgement *)
Definition write_ack (c : chain) (p : packet) (ack : bytes) : option (chain * list event) :=
  if is_nil ack then None else
  if has (ack_key (p_src p) (p_dst p) (p_seq p)) (c_kv c) then None else
  let target := if negb (is_nil (p_relay p)) && beq (p_dst p) (c_name c) then p_relay p else p_src p in
  if negb (has target (c_clients c)) then None else
  let kv1 := set (ack_key (p_src p) (p_dst p) (p_seq p)) (H ack) (c_kv c) in
  Some (with_kv c (set_max_ack (p_src p) (p_dst p) (p_seq p) kv1), [EWriteAck p ack]).

(** msg_server.RecvPacket *)
Definition msg_recv (c : chain) (p : packet) (pf : proof) (h : N) : option (chain * list event) :=
  if N.eqb h 0 then None else
  match recv_packet c p pf h with
  | RErr => None
  | RUnauth c1 ev =>
      match write_ack c1 p unauth_ack with
      | None => None
      | Some (c2, ev2) => Some (c2, ev ++ ev2)
      end
  | ROk c1 ev =>
      if beq (p_dst p) (c_name c1) then
        if negb (has_route (p_port p)) then None else
        match on_recv (c_app c1) p with
        | None => None
        | Some (a', oack) =>
            let c2 := with_app c1 a' in
            match oack with
            | None => Some (c2, ev ++ [EDeliver p])
            | Some ack =>
                match write_ack c2 p ack with
                | None => None
                | Some (c3, ev3) => Some (c3, ev ++ [EDeliver p] ++ ev3)
                end
            end
        end
      else Some (c1, ev)
  end.

(** AcknowledgePacket (keeper).  bytes.Equal(nil, x) holds for empty x. *)
Definition ack_packet (c : chain) (p : packet) (ack : bytes) (pf : proof) (h : N)
  : option (chain * list event) :=
  if negb (validate_packet c p) then None else
  let stored := match lookup (commit_key (p_src p) (p_dst p) (p_seq p)) (c_kv c) with
                | Some b => b | None => [] end in
  if negb (beq stored (H (p_data p))) then None else
  let from := if beq (p_src p) (c_name c) && negb (is_nil (p_relay p)) then p_relay p else p_dst p in
  match lookup from (c_clients c) with
  | None => None
  | Some cl =>
    if negb (client_active cl (c_now c)) then None else
    if negb (verify cl from h pf (ack_key (p_src p) (p_dst p) (p_seq p)) (H ack)) then None else
    let kv1 := remove (commit_key (p_src p) (p_dst p) (p_seq p)) (c_kv c) in
    let kv2 := set_max_ack (p_src p) (p_dst p) (p_seq p) kv1 in
    if beq (p_relay p) (c_name c) then
      if negb (has (p_src p) (c_clients c)) then None else
      Some (with_kv c (set (ack_key (p_src p) (p_dst p) (p_seq p)) (H ack) kv2), [EAck p ack; EWriteAck p ack])
    else Some (with_kv c kv2, [EAck p ack])
  end.

(** msg_server.Acknowledgement (after the fix: the application callback runs on
    the sending chain only) *)
Definition msg_ack (c : chain) (p : packet) (ack : bytes) (pf : proof) (h : N)
  : option (chain * list event) :=
  if N.eqb h 0 || is_nil ack then None else
  if negb (has_route (p_port p)) then None else
  match ack_packet c p ack pf h with
  | None => None
  | Some (c1, ev) =>
      if beq (p_src p) (c_name c1) then
        match on_ack (c_app c1) p ack with
        | None => None
        | Some a' => Some (with_app c1 a', ev ++ [EAppAck p ack])
        end
      else Some (c1, ev)
  end.

(** ValidateCleanPacket *)
Definition validate_clean (c : chain) (cp : cleanpkt) : bool :=
  let cur := clean_seq c (cp_src cp) (cp_dst cp) in
  let mx := max_ack c (cp_src cp) (cp_dst cp) in
  negb ((cp_seq cp <=? cur) || (mx <? cp_seq cp)) &&
  negb (any_range (commit_key (cp_src cp) (cp_dst cp)) cur (N.to_nat (cp_seq cp - cur + 1)) (c_kv c)).

Definition clean_acks_receipts (s d : bytes) (n : N) (kv : fmap bytes) : fmap bytes :=
  let cur := u64_of (lookup (clean_key s d) kv) in
  let kv1 := del_range (ack_key s d) (cur + 1) (N.to_nat (n - cur)) kv in
  del_range (receipt_key s d) (cur + 1) (N.to_nat (n - cur)) kv1.

(** CleanPacket (source side); the clean point is stored before the delete
    loops run, as in the Go code *)
Definition clean_packet (c : chain) (cp : cleanpkt) : option (chain * list event) :=
  if negb (clean_validate_basic cp) then None else
  let cp' := mkClean (cp_seq cp) (c_name c) (cp_dst cp) (cp_relay cp) in
  if negb (validate_clean c cp') then None else
  let target := if is_nil (cp_relay cp) then cp_dst cp else cp_relay cp in
  if negb (has target (c_clients c)) then None else
  let kv1 := set (clean_key (c_name c) (cp_dst cp)) (be64 (cp_seq cp)) (c_kv c) in
  let kv2 := clean_acks_receipts (c_name c) (cp_dst cp) (cp_seq cp) kv1 in
  Some (with_kv c kv2, [ECleanSend cp']).

(** RecvCleanPacket *)
Definition recv_clean (c : chain) (cp : cleanpkt) (pf : proof) (h : N) : option (chain * list event) :=
  if negb (clean_validate_basic cp) then None else         (* MsgRecvCleanPacket.ValidateBasic *)
  if negb (validate_clean c cp) then None else
  let from := if beq (cp_dst cp) (c_name c) && negb (is_nil (cp_relay cp)) then cp_relay cp else cp_src cp in
  match lookup from (c_clients c) with
  | None => None
  | Some cl =>
    if negb (client_active cl (c_now c)) then None else
    if negb (verify cl from h pf (clean_key (cp_src cp) (cp_dst cp)) (be64 (cp_seq cp))) then None else
    let kv1 := clean_acks_receipts (cp_src cp) (cp_dst cp) (cp_seq cp) (c_kv c) in
    let kv2 := set (clean_key (cp_src cp) (cp_dst cp)) (be64 (cp_seq cp)) kv1 in
    if beq (cp_relay cp) (c_name c) then
      if negb (has (cp_dst cp) (c_clients c)) then None
      else Some (with_kv c kv2, [ECleanRecv cp; ECleanSend cp])
    else Some (with_kv c kv2, [ECleanRecv cp])
  end.

(** client bookkeeping as far as the packet layer needs it: a client update
    records the counterparty's store snapshot and header time at a height *)
Definition create_client (c : chain) (name : bytes) (cl : client) : option chain :=
  if has name (c_clients c) then None else Some (with_clients c (set name cl (c_clients c))).

(** Tendermint CheckHeaderAndUpdateState prunes the earliest consensus state
    when it has expired *)
Definition min_height (snaps : fmap (fmap bytes * N)) : option N :=
  fold_right (fun kv acc => let h := u64_of (Some (fst kv)) in
                            match acc with None => Some h | Some m => Some (N.min h m) end)
             None snaps.

Definition prune_snaps (cl : client) (now : N) : fmap (fmap bytes * N) :=
  match min_height (cl_snaps cl) with
  | None => cl_snaps cl
  | Some m =>
      match snap_at cl m with
      | Some (_, t) => if t + cl_period cl <=? now then remove (hkey m) (cl_snaps cl) else cl_snaps cl
      | None => cl_snaps cl
      end
  end.

Definition update_client (c : chain) (name : bytes) (h : N) (snap : fmap bytes) (t : N) : option chain :=
  match lookup name (c_clients c) with
  | None => None
  | Some cl =>
      if negb (client_active cl (c_now c)) then None else
      let cl' := mkClient (set (hkey h) (snap, t) (prune_snaps cl (c_now c)))
                          (if cl_latest cl <? h then h else cl_latest cl) (cl_period cl) in
      Some (with_clients c (set name cl' (c_clients c)))
  end.

(** single-chain operations *)
Inductive op :=
| OSend (p : packet)
| ORecv (p : packet) (pf : proof) (h : N)
| OAck (p : packet) (ack : bytes) (pf : proof) (h : N)
| OClean (cp : cleanpkt)
| ORecvClean (cp : cleanpkt) (pf : proof) (h : N)
| OCreateClient (name : bytes) (cl : client)
| OUpdateClient (name : bytes) (h : N) (snap : fmap bytes) (t : N)
| OSetRules (rs : list bytes)
| OTick (dt : N)
| OSetApp (a : A).   (* the applications change their own state (user transactions of the token modules) *)

Definition exec (c : chain) (o : op) : option (chain * list event) :=
  match o with
  | OSend p => send_packet c p
  | ORecv p pf h => msg_recv c p pf h
  | OAck p a pf h => msg_ack c p a pf h
  | OClean cp => clean_packet c cp
  | ORecvClean cp pf h => if N.eqb h 0 then None else recv_clean c cp pf h
  | OCreateClient n cl => option_map (fun c' => (c', [])) (create_client c n cl)
  | OUpdateClient n h s t => option_map (fun c' => (c', [])) (update_client c n h s t)
  | OSetRules rs => match set_rules rs with
                    | Some st => Some (with_rules c (Some st), [])
                    | None => None
                    end
  | OTick dt => Some (with_now c (c_now c + dt), [])
  | OSetApp a => Some (with_app c a, [])
  end.

(** a transaction: keep the new state iff the handler succeeded *)
Definition step (c : chain) (o : op) : chain * option (list event) :=
  match exec c o with
  | Some (c', ev) => (c', Some ev)
  | None => (c, None)
  end.

Definition run (c : chain) (ops : list op) : chain := fold_left (fun c o => fst (step c o)) ops c.

(** the event log of a run (ghost): events of successful steps, in order *)
Fixpoint run_log (c : chain) (ops : list op) : list event :=
  match ops with
  | [] => []
  | o :: rest =>
      match step c o with
      | (c', Some ev) => ev ++ run_log c' rest
      | (c', None) => run_log c' rest
      end
  end.

End Keeper.

Arguments OSend {A} p.
Arguments ORecv {A} p pf h.
Arguments OAck {A} p ack pf h.
Arguments OClean {A} cp.
Arguments ORecvClean {A} cp pf h.
Arguments OCreateClient {A} name cl.
Arguments OUpdateClient {A} name h snap t.
Arguments OSetRules {A} rs.
Arguments OTick {A} dt.
Arguments OSetApp {A} a.
