(** deciding equality of packet-layer store keys *)
From Tibc Require Import Base.Bytes Base.BytesFacts Base.FMap Host.Keys Host.KeysFacts Routing.Rules Packet.Types.

Definition is_fam (f : bytes) : Prop :=
  f = K_nextsend \/ f = K_commit \/ f = K_ack \/ f = K_receipt \/ f = K_clean \/ f = K_maxack.

Lemma is_fam_noslash f : is_fam f -> noslash f.
Proof.
  pose proof noslash_of_string_consts as (A & B & C & D & E & F & G).
  intros [->|[->|[->|[->|[->| ->]]]]]; assumption.
Qed.

Lemma beq_sym a b : beq a b = beq b a.
Proof.
  destruct (beq a b) eqn:E.
  - apply beq_spec in E. subst. symmetry. apply beq_refl.
  - symmetry. apply beq_false. apply beq_false in E. congruence.
Qed.

Lemma beq_seq_seq f f' s d n s' d' n' :
  is_fam f -> is_fam f' -> noslash s -> noslash d -> noslash s' -> noslash d' ->
  n < dec_bound -> n' < dec_bound ->
  beq (seq_key f s d n) (seq_key f' s' d' n') = beq f f' && beq s s' && beq d d' && N.eqb n n'.
Proof.
  intros Hf Hf' Hs Hd Hs' Hd' Hn Hn'.
  apply is_fam_noslash in Hf, Hf'.
  destruct (beq (seq_key f s d n) (seq_key f' s' d' n')) eqn:E.
  - apply beq_spec in E. apply seq_key_inj in E; try assumption.
    destruct E as (-> & -> & -> & ->). rewrite !beq_refl, N.eqb_refl. reflexivity.
  - symmetry. apply not_true_is_false. intros X.
    rewrite !andb_true_iff in X. destruct X as [[[A B] C] D].
    apply beq_spec in A, B, C. apply N.eqb_eq in D. subst.
    rewrite beq_refl in E. discriminate.
Qed.

Lemma beq_pair_pair f f' s d s' d' :
  is_fam f -> is_fam f' -> noslash s -> noslash d -> noslash s' -> noslash d' ->
  beq (path [f; s; d]) (path [f'; s'; d']) = beq f f' && beq s s' && beq d d'.
Proof.
  intros Hf Hf' Hs Hd Hs' Hd'. apply is_fam_noslash in Hf, Hf'.
  destruct (beq (path [f; s; d]) (path [f'; s'; d'])) eqn:E.
  - apply beq_spec in E. apply pair_key_inj in E; try assumption.
    destruct E as (-> & -> & ->). rewrite !beq_refl. reflexivity.
  - symmetry. apply not_true_is_false. intros X.
    rewrite !andb_true_iff in X. destruct X as [[A B] C].
    apply beq_spec in A, B, C. subst. rewrite beq_refl in E. discriminate.
Qed.

Lemma beq_seq_pair f f' s d n s' d' :
  is_fam f -> is_fam f' -> noslash s -> noslash d -> noslash s' -> noslash d' ->
  beq (seq_key f s d n) (path [f'; s'; d']) = false.
Proof.
  intros Hf Hf' Hs Hd Hs' Hd'. apply is_fam_noslash in Hf, Hf'.
  apply beq_false. apply seq_key_ne_pair_key; assumption.
Qed.

Lemma beq_pair_seq f f' s d n s' d' :
  is_fam f -> is_fam f' -> noslash s -> noslash d -> noslash s' -> noslash d' ->
  beq (path [f'; s'; d']) (seq_key f s d n) = false.
Proof. intros. rewrite beq_sym. apply beq_seq_pair; assumption. Qed.

(** valid names are slash-free *)
Lemma id_char_not_slash c : id_char c = true -> c <> slash.
Proof. intros H E. subst. vm_compute in H. discriminate. Qed.

Lemma name_ok_noslash m x : name_ok m x = true -> noslash x.
Proof.
  unfold name_ok. intros H Hi. apply andb_true_iff in H. destruct H as [_ H].
  rewrite forallb_forall in H. apply H in Hi. eapply id_char_not_slash; eauto.
Qed.

Lemma validate_basic_names p : validate_basic p = true ->
  noslash (p_src p) /\ noslash (p_dst p) /\ p_seq p <> 0 /\ p_data p <> [].
Proof.
  unfold validate_basic. rewrite !andb_true_iff. intros [[[[A B] C] D] _].
  repeat split.
  - eapply name_ok_noslash; exact C.
  - eapply name_ok_noslash; exact D.
  - intros E. rewrite E in A. discriminate.
  - intros E. rewrite E in B. discriminate.
Qed.

Lemma fam_cases :
  is_fam K_nextsend /\ is_fam K_commit /\ is_fam K_ack /\ is_fam K_receipt /\ is_fam K_clean /\ is_fam K_maxack.
Proof. unfold is_fam. repeat split; tauto. Qed.

#[export] Hint Resolve dec_noslash : keys.
#[export] Hint Extern 1 (is_fam _) => (unfold is_fam; tauto) : keys.
