(** C11 / C13 / C03 facts about one chain acting as relay, destination or source. *)
From Tibc Require Import Base.Bytes Base.BytesFacts Base.FMap Host.Keys Host.KeysFacts
  Routing.Rules Packet.Types Packet.Keeper Packet.U64 Packet.KeyEq Packet.KeeperFacts Packet.Complete.

Section Relay.
Variable A : Type.
Variable H : bytes -> bytes.
Variable has_route : bytes -> bool.
Variable on_recv : A -> packet -> option (A * option bytes).
Variable on_ack : A -> packet -> bytes -> option A.

Notation chain := (chain A).
Notation exec := (exec A H has_route on_recv on_ack).

(** whitelist refusal: receipt and error acknowledgement, no commitment, no
    application logic *)
Theorem relay_unauthorised_error_ack c p pf h :
  deliverable A H c p pf h -> p_relay p = c_name A c -> p_dst p <> c_name A c ->
  authenticate (c_rules A c) (p_src p) (p_dst p) (p_port p) = false ->
  ack_at A c (p_src p) (p_dst p) (p_seq p) = None ->
  has (p_src p) (c_clients A c) = true ->
  exists c', msg_recv A H has_route on_recv c p pf h = Some (c', [ERecv p; EWriteAck p unauth_ack]) /\
             ack_at A c' (p_src p) (p_dst p) (p_seq p) = Some (H unauth_ack) /\
             receipt_at A c' (p_src p) (p_dst p) (p_seq p) = Some receipt_val /\
             commit_at A c' (p_src p) (p_dst p) (p_seq p) = commit_at A c (p_src p) (p_dst p) (p_seq p) /\
             c_app A c' = c_app A c.
Proof.
  intros (V & Hh & L & R & cl & CL & AC & VF) RL ND AU AK HS.
  assert (RB : beq (p_relay p) (c_name A c) = true) by (apply beq_spec; exact RL).
  unfold msg_recv. apply N.eqb_neq in Hh. rewrite Hh.
  unfold recv_packet, validate_packet. rewrite V, RB. cbn [orb andb].
  apply N.ltb_lt in L. rewrite L. cbn [negb].
  unfold receipt_at in R. unfold has in *. rewrite R.
  unfold prover in *. rewrite CL, AC. cbn [negb]. rewrite VF. cbn [negb].
  rewrite AU. cbn [negb].
  unfold write_ack. cbn [is_nil unauth_ack of_string].
  cbn [Keeper.c_kv with_kv Keeper.c_name Keeper.c_clients].
  unfold has. rewrite lookup_set_neq by fam_neq. unfold ack_at in AK. rewrite AK.
  apply beq_false in ND. rewrite ND, andb_false_r.
  destruct (lookup (p_src p) (c_clients A c)); [|discriminate]. cbn [negb].
  eexists. split; [reflexivity|]. unfold ack_at, receipt_at, commit_at. cbn [Keeper.c_kv with_kv].
  repeat split.
  - rewrite lookup_set_max_ack_other by fam_neq. apply lookup_set_eq.
  - rewrite lookup_set_max_ack_other by fam_neq. rewrite lookup_set_neq by fam_neq. apply lookup_set_eq.
  - rewrite lookup_set_max_ack_other by fam_neq. rewrite !lookup_set_neq by fam_neq. reflexivity.
Qed.

(** allowed but destination unknown: the whole message fails (no receipt, no
    error acknowledgement) -- the code's behaviour, recorded as a finding *)
Theorem relay_unknown_dest_fails c p pf h :
  p_relay p = c_name A c ->
  authenticate (c_rules A c) (p_src p) (p_dst p) (p_port p) = true ->
  has (p_dst p) (c_clients A c) = false ->
  msg_recv A H has_route on_recv c p pf h = None.
Proof.
  intros RL AU HD. unfold msg_recv. destruct (N.eqb h 0); [reflexivity|].
  pose proof (recv_packet_inv2 A H c p pf h) as [R _].
  destruct (recv_packet A H c p pf h) as [|c1 ev1|c1 ev1]; [reflexivity| |].
  - destruct R as (_ & _ & _ & X). congruence.
  - destruct R as [(_ & _ & X)|(_ & _ & _ & _ & X)]; congruence.
Qed.

(** a forwarded packet is re-committed only if the whitelist allows it and the
    destination is known *)
Theorem relay_forward_only_if c p pf h c' ev :
  msg_recv A H has_route on_recv c p pf h = Some (c', ev) -> In (ESend p) ev ->
  p_relay p = c_name A c /\
  authenticate (c_rules A c) (p_src p) (p_dst p) (p_port p) = true /\
  commit_at A c' (p_src p) (p_dst p) (p_seq p) = Some (H (p_data p)).
Proof.
  intros E Hi. apply msg_recv_vals in E. destruct E as (_ & _ & S & _).
  destruct (S Hi) as (S1 & S2 & S3). auto.
Qed.

(** operations on packets this chain neither sends nor finally receives leave
    the application state untouched (a relay runs no application logic) *)
Theorem transit_no_app_logic c o c' ev :
  exec c o = Some (c', ev) ->
  (forall p pf h, o = ORecv p pf h -> p_dst p <> c_name A c) ->
  (forall p a pf h, o = OAck p a pf h -> p_src p <> c_name A c) ->
  (forall a, o <> OSetApp a) ->
  c_app A c' = c_app A c.
Proof.
  intros E NR NA NS.
  destruct o as [p|p pf h|p a pf h|cp|cp pf h|nm cl|nm h sn t|rs|dt|ap]; cbn [Keeper.exec] in E.
  - apply send_packet_inv in E. destruct E as (_ & _ & _ & _ & ->). reflexivity.
  - specialize (NR p pf h eq_refl). unfold msg_recv in E.
    destruct (N.eqb h 0); [discriminate|].
    pose proof (recv_packet_inv2 A H c p pf h) as [R _].
    destruct (recv_packet A H c p pf h) as [|c1 ev1|c1 ev1]; [discriminate| |].
    + destruct R as (-> & _). destruct (write_ack A H _ p unauth_ack) as [[c2 ev2]|] eqn:W; [|discriminate].
      inversion E; subst. apply write_ack_inv in W. destruct W as (_ & _ & _ & ->). reflexivity.
    + assert (N1 : c_name A c1 = c_name A c /\ c_app A c1 = c_app A c).
      { destruct R as [(-> & _)|(-> & _)]; split; reflexivity. }
      destruct N1 as [N1 N2]. rewrite N1 in E. apply beq_false in NR. rewrite NR in E.
      inversion E; subst. exact N2.
  - specialize (NA p a pf h eq_refl).
    apply msg_ack_inv in E. destruct E as (_ & c1 & ev1 & AP & _ & _ & _ & _ & _ & [(_ & -> & _)|(_ & X & _)]).
    + apply ack_packet_inv in AP. destruct AP as (_ & _ & _ & _ & _ & _ & _ & _ & _ & _ & _ & X). exact X.
    + contradiction.
  - apply clean_packet_inv in E. destruct E as (_ & _ & _ & ->). reflexivity.
  - destruct (N.eqb h 0); [discriminate|].
    apply recv_clean_inv in E. destruct E as (_ & _ & _ & _ & ->). reflexivity.
  - unfold create_client in E. destruct (has nm _); [discriminate|]. inversion E; subst. reflexivity.
  - unfold update_client in E. destruct (lookup nm _); [|discriminate].
    destruct (negb _); [discriminate|]. inversion E; subst. reflexivity.
  - destruct (set_rules rs); [|discriminate]. inversion E; subst. reflexivity.
  - inversion E; subst. reflexivity.
  - exfalso. eapply NS. reflexivity.
Qed.

(** acknowledgements pass back through the relay unchanged: what the relay
    records is the hash of the very acknowledgement bytes it verified against
    the destination *)
Theorem relay_ack_passthrough c p a pf h c' ev :
  ack_packet A H c p a pf h = Some (c', ev) -> p_relay p = c_name A c ->
  ack_at A c' (p_src p) (p_dst p) (p_seq p) = Some (H a) /\ ev = [EAck p a; EWriteAck p a] /\
  exists from cl, lookup from (c_clients A c) = Some cl /\
     verify cl from h pf (ack_key (p_src p) (p_dst p) (p_seq p)) (H a) = true.
Proof.
  intros E RL. pose proof E as E1. apply ack_packet_vals in E1.
  apply ack_packet_inv in E. destruct E as (_ & _ & _ & (from & cl & CL & _ & _ & VF) & _).
  destruct E1 as [(_ & X & _)|(-> & _ & AV)]; [contradiction|].
  split; [exact AV|]. split; [reflexivity|]. eauto.
Qed.

End Relay.
