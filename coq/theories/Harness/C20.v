(** Correspondence for C20: the real snapshot.validators() / snapshot.inturn()
    (08-bsc, through the verif-tagged accessor) on validator sets handed over in
    an arbitrary order, against isort / inturn. *)
From Coq Require Import NArith List Bool.
From Tibc Require Import Base.Bytes Determinism.Perm.
From Tibc Require Export Harness.C12.
Import ListNotations.
Open Scope N_scope.

Record c20_case := C20Case { k20_vals : list bytes; k20_number : N; k20_who : bytes;
                             k20_sorted : list bytes; k20_inturn : bool }.

Fixpoint lbeq (a b : list bytes) : bool :=
  match a, b with
  | [], [] => true
  | x :: a', y :: b' => beq x y && lbeq a' b'
  | _, _ => false
  end.

Definition c20_ok (c : c20_case) : bool :=
  lbeq (isort (k20_vals c)) (k20_sorted c) &&
  Bool.eqb (inturn (k20_vals c) (k20_number c) (k20_who c)) (k20_inturn c) &&
  (* the model run on the reversed order gives the same result *)
  lbeq (isort (rev (k20_vals c))) (k20_sorted c).

Definition c20_mismatches := mismatches_from c20_ok 0.
