(** Correspondence for C08: each case is one call of a Verify* method of a real client state.
    The Section variables of Clients/ProofGlue.v (ics23, trie.VerifyProof, keccak, rlp, decoders) are
    instantiated by finite tables whose entries the harness obtained from the real libraries on this
    input; the glue (everything the repo's own code does) is evaluated by the model. *)
From Tibc Require Export Base.Bytes Host.Keys Clients.ProofGlue Harness.C12.

(** ** ics23 instance: a decoded CommitmentProof *)
Record tm_op := TmOp {
  o_kind : N;                 (* 0 exist, 1 nonexist, 2 anything else *)
  o_calc : option bytes;      (* Calculate() *)
  o_key : bytes;              (* Exist.Key *)
  o_val : bytes;              (* Exist.Value *)
  o_okspecs : list N          (* spec ids s with VerifyMembership(spec_s, calc, op, key, value) = true *)
}.

Definition i_pkind (o : tm_op) : pkind :=
  if N.eqb (o_kind o) 0 then PExist else if N.eqb (o_kind o) 1 then PNonexist else POther.

(** VerifyMembership(spec, root, op, key, value): an existence proof (the code passes no other kind to the verifier) verifies only for its own key and
    value, the root it calculates, and the specs it conforms to (checked against the library on every run) *)
Definition i_vmem (s : N) (root : bytes) (o : tm_op) (key value : bytes) : bool :=
  N.eqb (o_kind o) 0 && beq (o_key o) key && beq (o_val o) value &&
  match o_calc o with Some c => beq c root | None => false end &&
  existsb (N.eqb s) (o_okspecs o).

(** ** go-ethereum instance: a node set is the table of trie.VerifyProof answers over it *)
Definition mpt_table := list (bytes * bytes * mres).

Fixpoint i_mpt (root key : bytes) (t : mpt_table) : mres :=
  match t with
  | [] => MErr
  | (r, k, res) :: t' => if beq r root && beq k key then res else i_mpt root key t'
  end.

Fixpoint tab_lookup {A} (t : list (bytes * A)) (k : bytes) : option A :=
  match t with
  | [] => None
  | (k', v) :: t' => if beq k' k then Some v else tab_lookup t' k
  end.

Definition i_keccak (t : list (bytes * bytes)) (x : bytes) : bytes :=
  match tab_lookup t x with Some y => y | None => [] end.

Fixpoint i_rlpacc (t : list (N * N * bytes * bytes * bytes)) (n b : N) (sh ch : bytes) : bytes :=
  match t with
  | [] => []
  | (n', b', sh', ch', enc) :: t' =>
      if N.eqb n n' && N.eqb b b' && beq sh sh' && beq ch ch' then enc else i_rlpacc t' n b sh ch
  end.

Definition i_rlpdec (t : list (bytes * option bytes)) (x : bytes) : option bytes :=
  match tab_lookup t x with Some r => r | None => None end.

Record eth_sp := EthSP { q_key : bytes; q_tab : mpt_table }.
Record eth_p := EthP {
  q_addr : bytes; q_balance : bytes; q_codehash : bytes; q_nonce : bytes; q_storagehash : bytes;
  q_acct : mpt_table; q_storage : list (option eth_sp)
}.

Definition to_eproof (p : eth_p) : eproof mpt_table :=
  EProof (q_addr p) (q_balance p) (q_codehash p) (q_nonce p) (q_storagehash p) (q_acct p)
         (map (fun o => match o with Some s => Some (SProof (q_key s) (q_tab s)) | None => None end) (q_storage p)).

(** ** the case *)
Record c08_case := C08 {
  k_ct : N;                         (* 0 tendermint, 1 eth, 2 bsc *)
  k_fn : N;                         (* 0 commitment, 1 acknowledgement, 2 clean *)
  k_latest : height;
  k_delay : N;                      (* tm TimeDelay; eth BlockDelay; bsc number of validators *)
  k_prefix : bytes;                 (* tm merkle prefix; eth/bsc contract address *)
  k_specs : list (option N);
  k_cons : list (height * centry);
  k_ptimes : list (height * N);
  k_now : N;
  k_h : height;
  k_proofnil : bool;
  k_src : bytes; k_dst : bytes; k_seq : N; k_val : bytes;
  k_tmproof : option (list tm_op);  (* the decoded proof bytes, if they decode *)
  k_ethproof : option eth_p;
  k_keccak : list (bytes * bytes);
  k_rlpacc : list (N * N * bytes * bytes * bytes);
  k_rlpdec : list (bytes * option bytes);
  k_ok : bool                       (* the Go method returned nil *)
}.

Definition fn_of (n : N) : vfn := if N.eqb n 0 then FCommit else if N.eqb n 1 then FAck else FClean.

Definition c08_model (c : c08_case) : bool :=
  let proof := if k_proofnil c then None else Some [] in
  let f := fn_of (k_fn c) in
  if N.eqb (k_ct c) 0 then
    tm_verify tm_op N i_pkind o_calc i_vmem (fun _ => k_tmproof c)
              (TmClient (k_latest c) (k_delay c) (k_prefix c) (k_specs c))
              (k_cons c) (k_ptimes c) (k_now c) (k_h c) proof f (k_src c) (k_dst c) (k_seq c) (k_val c)
  else
    let delay := if N.eqb (k_ct c) 1 then k_delay c else bsc_delay_block (k_delay c) in
    evm_verify mpt_table i_mpt (i_keccak (k_keccak c)) (i_rlpacc (k_rlpacc c)) (i_rlpdec (k_rlpdec c))
               (fun _ => option_map to_eproof (k_ethproof c))
               (EvmClient (k_latest c) delay (k_prefix c))
               (k_cons c) (k_h c) proof f (k_src c) (k_dst c) (k_seq c) (k_val c).

Definition c08_ok (c : c08_case) : bool := Bool.eqb (c08_model c) (k_ok c).

Definition c08_mismatches := mismatches_from c08_ok 0.
