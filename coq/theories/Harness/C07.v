(** Correspondence for C07: each case is one header submitted to the real Go code twice from the
    same state: ClientState.CheckHeaderAndUpdateState on the real client store (no rollback around
    it) and 02-client Keeper.UpdateClient, with the state projection read back from the store
    before and after each call. *)
From Tibc Require Import Base.Bytes Clients.Tm.
From Coq Require Export ZArith.

Record c07_case := C07 {
  k_now : Z;
  k_pre : kstate;            (* client state + client store before the calls *)
  k_hd : header;
  k_drun : bool;             (* the direct call was made (needs a client state) *)
  k_dok : bool;              (* direct call: no error (and no panic) *)
  k_dpost : kstate;          (* direct call: returned client state + store after the call (no rollback) *)
  k_dret : option cons;      (* direct call, accepted: the returned consensus state *)
  k_kok : bool;              (* keeper call: no error *)
  k_kpost : kstate           (* keeper call: stored client state + store afterwards *)
}.

Definition height_eq (a b : height) : bool := height_eqb a b.
Definition cons_eq (a b : cons) : bool :=
  Z.eqb (co_time a) (co_time b) && beq (co_root a) (co_root b) && beq (co_nvh a) (co_nvh b).
Definition client_eq (a b : client) : bool :=
  beq (cl_chain_id a) (cl_chain_id b) && N.eqb (cl_tl_num a) (cl_tl_num b) && N.eqb (cl_tl_den a) (cl_tl_den b) &&
  Z.eqb (cl_period a) (cl_period b) && Z.eqb (cl_drift a) (cl_drift b) && height_eq (cl_latest a) (cl_latest b).

Fixpoint list_eq {A} (eq : A -> A -> bool) (a b : list A) : bool :=
  match a, b with
  | [], [] => true
  | x :: a', y :: b' => eq x y && list_eq eq a' b'
  | _, _ => false
  end.

Definition store_eq (a b : store) : bool :=
  list_eq (fun x y => height_eq (fst x) (fst y) && cons_eq (snd x) (snd y)) (st_cons a) (st_cons b) &&
  list_eq (fun x y => height_eq (fst x) (fst y) && N.eqb (snd x) (snd y)) (st_ptime a) (st_ptime b) &&
  list_eq height_eq (st_iter a) (st_iter b).

Definition kstate_eq (a b : kstate) : bool :=
  match a, b with
  | None, None => true
  | Some (c1, s1), Some (c2, s2) => client_eq c1 c2 && store_eq s1 s2
  | _, _ => false
  end.

Definition opt_cons_eq (a b : option cons) : bool :=
  match a, b with
  | None, None => true
  | Some x, Some y => cons_eq x y
  | _, _ => false
  end.

Definition c07_direct_ok (c : c07_case) : bool :=
  if k_drun c then
    match k_pre c with
    | None => false          (* the harness never calls the client code without a client *)
    | Some (cl, st) =>
        match check_header_and_update (k_now c) cl st (k_hd c) with
        | Some (cl', co', st') =>
            k_dok c && kstate_eq (k_dpost c) (Some (cl', st')) && opt_cons_eq (k_dret c) (Some co')
        | None =>
            negb (k_dok c) && kstate_eq (k_dpost c) (k_pre c) && opt_cons_eq (k_dret c) None
        end
    end
  else match k_pre c with None => true | Some _ => false end.

Definition c07_keeper_ok (c : c07_case) : bool :=
  match keeper_update (k_now c) (k_pre c) (k_hd c) with
  | Some r => k_kok c && kstate_eq (k_kpost c) (Some r)
  | None => negb (k_kok c) && kstate_eq (k_kpost c) (k_pre c)
  end.

Definition c07_case_ok (c : c07_case) : bool := c07_direct_ok c && c07_keeper_ok c.

Fixpoint mismatches_from {A} (ok : A -> bool) (i : N) (l : list A) : list N :=
  match l with
  | [] => []
  | x :: l' => if ok x then mismatches_from ok (i + 1) l' else i :: mismatches_from ok (i + 1) l'
  end.

Definition c07_mismatches := mismatches_from c07_case_ok 0.
