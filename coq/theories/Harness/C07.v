(** Correspondence for C07: each case is one call of the real Go code
    (via = 0: ClientState.CheckHeaderAndUpdateState on the real client store, no rollback;
     via = 1: 02-client Keeper.UpdateClient), with the state projection read back from the
    store before and after. *)
From Tibc Require Import Base.Bytes Clients.Tm.
From Coq Require Export ZArith.

Record c07_case := C07 {
  k_now : Z;
  k_via : N;
  k_pre : kstate;
  k_hd : header;
  k_ok : bool;               (* no error (and no panic) *)
  k_post : kstate;           (* via 0: returned client state + store after the call; via 1: stored client state + store *)
  k_ret : option cons        (* via 0, accepted: the returned consensus state *)
}.

Definition height_eq (a b : height) : bool := height_eqb a b.
Definition cons_eq (a b : cons) : bool :=
  Z.eqb (co_time a) (co_time b) && beq (co_root a) (co_root b) && beq (co_nvh a) (co_nvh b).
Definition client_eq (a b : client) : bool :=
  beq (cl_chain_id a) (cl_chain_id b) && N.eqb (cl_tl_num a) (cl_tl_num b) && N.eqb (cl_tl_den a) (cl_tl_den b) &&
  Z.eqb (cl_period a) (cl_period b) && Z.eqb (cl_drift a) (cl_drift b) && height_eq (cl_latest a) (cl_latest b).

Fixpoint list_eq {A} (eq : A -> A -> bool) (a b : list A) : bool :=
  match a, b with
  | [], [] => true
  | x :: a', y :: b' => eq x y && list_eq eq a' b'
  | _, _ => false
  end.

Definition store_eq (a b : store) : bool :=
  list_eq (fun x y => height_eq (fst x) (fst y) && cons_eq (snd x) (snd y)) (st_cons a) (st_cons b) &&
  list_eq (fun x y => height_eq (fst x) (fst y) && N.eqb (snd x) (snd y)) (st_ptime a) (st_ptime b) &&
  list_eq height_eq (st_iter a) (st_iter b).

Definition kstate_eq (a b : kstate) : bool :=
  match a, b with
  | None, None => true
  | Some (c1, s1), Some (c2, s2) => client_eq c1 c2 && store_eq s1 s2
  | _, _ => false
  end.

Definition opt_cons_eq (a b : option cons) : bool :=
  match a, b with
  | None, None => true
  | Some x, Some y => cons_eq x y
  | _, _ => false
  end.

Definition c07_case_ok (c : c07_case) : bool :=
  if N.eqb (k_via c) 0 then
    match k_pre c with
    | None => false          (* the harness never calls the client code without a client *)
    | Some (cl, st) =>
        match check_header_and_update (k_now c) cl st (k_hd c) with
        | Some (cl', co', st') =>
            k_ok c && kstate_eq (k_post c) (Some (cl', st')) && opt_cons_eq (k_ret c) (Some co')
        | None =>
            negb (k_ok c) && kstate_eq (k_post c) (k_pre c) && opt_cons_eq (k_ret c) None
        end
    end
  else
    match keeper_update (k_now c) (k_pre c) (k_hd c) with
    | Some r => k_ok c && kstate_eq (k_post c) (Some r)
    | None => negb (k_ok c) && kstate_eq (k_post c) (k_pre c)
    end.

Fixpoint mismatches_from {A} (ok : A -> bool) (i : N) (l : list A) : list N :=
  match l with
  | [] => []
  | x :: l' => if ok x then mismatches_from ok (i + 1) l' else i :: mismatches_from ok (i + 1) l'
  end.

Definition c07_mismatches := mismatches_from c07_case_ok 0.
