(** Executable checkers (with soundness lemmas) for the premises of the
    history-level theorems about application networks, to be evaluated on the
    explored harness cases ([app_case] of Harness/AppNet.v):
      [hist_okb]      ->  [hist_ok]                (Net/AppNetNoSelf.v)
      [noset_b]       ->  [Forall anop_noset]      (Net/MtCrossChain.v)
      [no_raw_nft_b]  ->  [Forall no_raw_nft_send] (Net/NftCrossChain.v)
      [names_okb]     ->  [names_ok]               (Net/AppNetAckOnce.v)
    and [apps_ok] of the initial network of a case holds outright.
    Only soundness (checker = true -> premise) is proved. *)
From Tibc Require Import Base.Bytes Base.BytesFacts Base.FMap Host.Keys Host.KeysFacts
  Routing.Rules Packet.Types Packet.Keeper Packet.KeeperFacts Packet.Invariants
  Net.Net Net.Explained Net.NetInv
  Apps.Path Apps.Nft Apps.Mt Apps.App Apps.AppFacts Harness.AppNet
  Net.AppNetSim Net.AppNetFacts Net.AppNetConserve Net.AppNetNoSelf Net.AppNetAckOnce Net.AppNetNoCredit.
From Tibc Require Net.MtCrossChain Net.NftCrossChain.
From Coq Require Import ZArith ZifyN ZifyNat ZifyBool.

Notation no_raw_nft_send := Tibc.Net.NftCrossChain.no_raw_nft_send.

(** * duplicate-free name lists *)
Fixpoint nodupb (l : list bytes) : bool :=
  match l with [] => true | x :: r => negb (existsb (beq x) r) && nodupb r end.

Lemma nodupb_sound l : nodupb l = true -> NoDup l.
Proof.
  induction l as [|x r IH]; intros E; [constructor|]. cbn [nodupb] in E.
  rewrite andb_true_iff, negb_true_iff in E. destruct E as [E1 E2]. constructor; [|apply IH; exact E2].
  intros F. assert (X : existsb (beq x) r = true).
  { apply existsb_exists. exists x. split; [exact F|apply beq_refl]. }
  rewrite X in E1. discriminate.
Qed.

(** * per-operation premises *)
Definition op_wfb {A} (o : op A) : bool :=
  match o with
  | OSend p | ORecv p _ _ | OAck p _ _ _ => p_seq p <? two64
  | OClean cp | ORecvClean cp _ _ => cp_seq cp <? two64
  | _ => true
  end.

Definition not_client_opb {A} (o : op A) : bool :=
  match o with OCreateClient _ _ | OUpdateClient _ _ _ _ => false | _ => true end.

Definition nop_okb {A} (o : nop A) : bool :=
  match o with NChain _ _ o' => op_wfb o' && not_client_opb o' | _ => true end.

Definition anop_okb (o : anop) : bool :=
  match o with ANet o' => nop_okb o' | AUser _ _ _ => true end.

Lemma op_wfb_sound {A} (o : op A) : op_wfb o = true -> op_wf o.
Proof.
  destruct o; cbn [op_wfb op_wf]; intros E; try exact I; unfold wfp, wfcp; apply N.ltb_lt; exact E.
Qed.

Lemma not_client_opb_sound {A} (o : op A) : not_client_opb o = true -> not_client_op o.
Proof. destruct o; cbn; intros E; try exact I; discriminate E. Qed.

Lemma nop_okb_sound {A} (o : nop A) : nop_okb o = true -> nop_ok o.
Proof.
  destruct o as [i now o'| |]; cbn [nop_okb nop_ok]; intros E; try exact I.
  rewrite andb_true_iff in E. destruct E as [E1 E2].
  split; [apply op_wfb_sound; exact E1 | apply not_client_opb_sound; exact E2].
Qed.

Lemma anop_okb_sound o : anop_okb o = true -> anop_ok o.
Proof. destruct o as [o'|i now u]; cbn; intros E; [apply nop_okb_sound; exact E | exact I]. Qed.

Lemma forallb_Forall {X} (f : X -> bool) (P : X -> Prop) l :
  (forall x, f x = true -> P x) -> forallb f l = true -> Forall P l.
Proof.
  intros S E. rewrite forallb_forall in E. apply Forall_forall. intros x Hx. apply S, E, Hx.
Qed.

(** * the initial network of a case *)
Lemma names_mk (nms : list bytes) : names app_state (map mk_achain nms) = nms.
Proof. unfold names. induction nms as [|x r IH]; [reflexivity|]. cbn [map]. rewrite IH. reflexivity. Qed.

Lemma mk_in (nms : list bytes) j cj :
  nth_error (map mk_achain nms) j = Some cj -> exists x, In x nms /\ cj = mk_achain x.
Proof.
  intros E. apply nth_error_In in E. apply in_map_iff in E. destruct E as (x & <- & F). eauto.
Qed.

Lemma net_init_mk (nms : list bytes) : net_init app_state (map mk_achain nms).
Proof. intros j cj E. destruct (mk_in nms j cj E) as (x & _ & ->). split; reflexivity. Qed.

Lemma apps_ok_mk (nms : list bytes) : apps_ok (map mk_achain nms).
Proof. intros j cj E. destruct (mk_in nms j cj E) as (x & _ & ->). exact AppInv_init. Qed.

(** * hist_ok *)
Definition hist_okb (nms : list bytes) (ops : list anop) : bool :=
  nodupb nms && forallb anop_okb ops && forallb (anop_noself nms) ops.

Lemma hist_okb_sound_names (nms : list bytes) ops :
  hist_okb nms ops = true -> hist_ok (map mk_achain nms) ops.
Proof.
  unfold hist_okb. rewrite !andb_true_iff. intros [[E1 E2] E3].
  split; [apply net_init_mk|]. rewrite names_mk.
  split; [apply nodupb_sound; exact E1|].
  split; [exact (forallb_Forall _ _ _ anop_okb_sound E2)|].
  exact (forallb_Forall _ _ _ (fun x E => E) E3).
Qed.

Lemma hist_okb_sound (c : app_case) ops :
  hist_okb (ac_names c) ops = true -> hist_ok (map mk_achain (ac_names c)) ops.
Proof. apply hist_okb_sound_names. Qed.

(** * no OSetApp, no raw SendPacket with NFT data *)
Definition anop_nosetb (o : anop) : bool :=
  match o with ANet (NChain _ _ (OSetApp _)) => false | _ => true end.
Definition noset_b (ops : list anop) : bool := forallb anop_nosetb ops.

Lemma anop_nosetb_sound o : anop_nosetb o = true -> anop_noset o.
Proof.
  destruct o as [[i now o'| |]|i now u]; cbn; intros E; try exact I.
  destruct o'; try exact I. discriminate E.
Qed.

Lemma noset_b_sound ops : noset_b ops = true -> Forall anop_noset ops.
Proof. exact (forallb_Forall _ _ _ anop_nosetb_sound). Qed.

Definition no_raw_nftb (o : anop) : bool :=
  match o with
  | ANet (NChain _ _ (OSend p)) => match dec_nft (p_data p) with None => true | Some _ => false end
  | _ => true
  end.
Definition no_raw_nft_b (ops : list anop) : bool := forallb no_raw_nftb ops.

Lemma no_raw_nftb_sound o : no_raw_nftb o = true -> no_raw_nft_send o.
Proof.
  destruct o as [[i now o'| |]|i now u]; cbn; intros E; try exact I.
  destruct o'; try exact I. cbn. destruct (dec_nft (p_data p)); [discriminate E|reflexivity].
Qed.

Lemma no_raw_nft_b_sound ops : no_raw_nft_b ops = true -> Forall no_raw_nft_send ops.
Proof. exact (forallb_Forall _ _ _ no_raw_nftb_sound). Qed.

(** * names non-empty and '/'-free (premise [names_ok] of the C03 history theorems) *)
Definition name_okb (nm : bytes) : bool := negb (is_nil nm) && forallb (fun x => negb (N.eqb x slash)) nm.
Definition names_okb (nms : list bytes) : bool := forallb name_okb nms.

Lemma name_okb_sound nm : name_okb nm = true -> nm <> [] /\ noslash nm.
Proof.
  unfold name_okb. rewrite andb_true_iff. intros [E1 E2]. split.
  - intros ->. discriminate E1.
  - intros X. rewrite forallb_forall in E2. specialize (E2 _ X). rewrite N.eqb_refl in E2. discriminate.
Qed.

Lemma names_okb_sound (nms : list bytes) : names_okb nms = true -> names_ok app_state (map mk_achain nms).
Proof. unfold names_ok. rewrite names_mk. exact (forallb_Forall _ _ _ name_okb_sound). Qed.

(** * per case, and counted over a list of cases *)
Definition app_case_ops (c : app_case) : list anop := map fst (ac_steps c).

Definition app_case_premises (c : app_case) : bool * bool * bool :=
  (hist_okb (ac_names c) (app_case_ops c), noset_b (app_case_ops c), no_raw_nft_b (app_case_ops c)).

Theorem app_case_premises_sound c :
  (fst (fst (app_case_premises c)) = true -> hist_ok (map mk_achain (ac_names c)) (app_case_ops c)) /\
  (snd (fst (app_case_premises c)) = true -> Forall anop_noset (app_case_ops c)) /\
  (snd (app_case_premises c) = true -> Forall no_raw_nft_send (app_case_ops c)) /\
  apps_ok (map mk_achain (ac_names c)).
Proof.
  cbn [app_case_premises fst snd]. split; [apply hist_okb_sound|]. split; [apply noset_b_sound|].
  split; [apply no_raw_nft_b_sound | apply apps_ok_mk].
Qed.

Definition b2n (b : bool) : N := if b then 1 else 0.

(** (number of cases, #hist_ok, #noset, #no_raw_nft) *)
Definition app_premises_count (l : list app_case) : N * N * N * N :=
  fold_left (fun acc c =>
               let '(n, h, s, r) := acc in
               let '(bh, bs, br) := app_case_premises c in
               (n + 1, h + b2n bh, s + b2n bs, r + b2n br))
            l (0, 0, 0, 0).

(** * example: one well-behaved case, one with a self-client creation and an
    OSetApp, one with a raw SendPacket carrying NFT data and duplicate names *)
Definition px_obs : aobs := mkAObs true [] [] (mkLedger [] [] [] [] [] [] []).
Definition px_A := of_string "chain-aaaa".
Definition px_B := of_string "chain-bbbb".
Definition px_nftpkt : packet :=
  mkPacket 1 px_A px_B [] NFT_PORT (enc_nft (mkNftData (of_string "kitty") (of_string "tom") [] [] [] true [])).
Definition px_good : app_case :=
  AppCase [px_A; px_B] (of_string "cosmos1n") (of_string "cosmos1m")
    [ (ANet (NCreate 0 1 100 2 90 1000), px_obs);
      (AUser 0 100 (UMtIssue (of_string "gold") (of_string "cosmos1alice")), px_obs);
      (ANet (NChain 1 120 (ORecv px_nftpkt PGarbage 5)), px_obs) ].
Definition px_self : app_case :=
  AppCase [px_A; px_B] (of_string "cosmos1n") (of_string "cosmos1m")
    [ (ANet (NCreate 1 1 100 2 90 1000), px_obs); (ANet (NChain 0 100 (OSetApp app_init)), px_obs) ].
Definition px_raw : app_case :=
  AppCase [px_A; px_A] (of_string "cosmos1n") (of_string "cosmos1m")
    [ (ANet (NChain 0 100 (OSend px_nftpkt)), px_obs) ].

Example app_premises_example :
  app_case_premises px_good = (true, true, true) /\
  app_case_premises px_self = (false, false, true) /\
  app_case_premises px_raw = (false, true, false) /\
  app_premises_count [px_good; px_self; px_raw] = (3, 1, 2, 2) /\
  names_okb (ac_names px_good) = true /\
  hist_ok (map mk_achain (ac_names px_good)) (app_case_ops px_good).
Proof.
  split; [vm_compute; reflexivity|]. split; [vm_compute; reflexivity|].
  split; [vm_compute; reflexivity|]. split; [vm_compute; reflexivity|].
  split; [vm_compute; reflexivity|].
  apply hist_okb_sound. vm_compute. reflexivity.
Qed.
