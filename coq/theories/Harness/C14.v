(** Correspondence for C14: batches of Status() evaluations on real client
    states of the three types, and packet-layer histories around an expiring
    client (evaluated with the network model of Harness/Net.v). *)
From Coq Require Import NArith List Bool.
From Tibc Require Import Base.Bytes Clients.Status.
From Tibc Require Export Harness.Net.
Import ListNotations.
Open Scope N_scope.

(** client type (7/8/9), consensus timestamp at the latest height (client's
    unit) or None, trusting period (client's unit), block time seconds and
    nanoseconds, observed status code *)
Record st_obs := StObs { so_ty : N; so_ts : option N; so_period : N; so_s : N; so_ns : N; so_code : N }.

Definition st_ok (o : st_obs) : bool :=
  N.eqb (status_code (status_of (so_ty o) (so_ts o) (so_period o) (so_s o) (so_ns o))) (so_code o).

Inductive c14_case :=
| C14Status (l : list st_obs)
| C14Net (c : net_case).

Definition c14_case_ok (c : c14_case) : bool :=
  match c with
  | C14Status l => forallb st_ok l
  | C14Net nc => net_case_ok nc
  end.

Definition c14_mismatches := mismatches_from c14_case_ok 0.

(** diagnosis: indices of the disagreeing observations inside a status batch *)
Definition c14_where (c : c14_case) : list N :=
  match c with
  | C14Status l => mismatches_from st_ok 0 l
  | C14Net nc => match first_disagreement (map mk_chain (nc_names nc)) 0 (nc_steps nc) with
                 | Some k => [k] | None => [] end
  end.
