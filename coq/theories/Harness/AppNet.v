(** Correspondence for the application layer (C04, C05, C06, C19, C11 end-to-end):
    a network of chains running the NFT / MT / mock applications.  Each step
    records what the implementation did: accepted?, packet events, packet-store
    dump and the token ledgers of the acted chain. *)
From Tibc Require Import Base.Bytes Base.FMap Host.Keys Routing.Rules Packet.Types Packet.Keeper Net.Net
  Apps.Path Apps.Nft Apps.Mt Apps.App.
From Tibc Require Export Harness.Net.

(** executable instances of the abstract parameters *)
Definition idHh (x : bytes) : bytes := x.
Definition addr_ok (a : bytes) : bool := has_prefix (of_string "cosmos1") a.

(** injective field encoding of packet data: 8-byte length prefix per field *)
Fixpoint enc_fields (l : list bytes) : bytes :=
  match l with [] => [] | x :: r => be64 (N.of_nat (length x)) ++ x ++ enc_fields r end.

Fixpoint dec_fields (fuel : nat) (b : bytes) : option (list bytes) :=
  match fuel with
  | O => None
  | S f =>
      match b with
      | [] => Some []
      | _ =>
          if Nat.ltb (length b) 8 then None else
          let n := N.to_nat (u64_of (Some (firstn 8 b))) in
          let rest := skipn 8 b in
          if Nat.ltb (length rest) n then None else
          match dec_fields f (skipn n rest) with
          | Some l => Some (firstn n rest :: l)
          | None => None
          end
      end
  end.

Definition tag_nft : bytes := of_string "NFTDATA".
Definition tag_mt : bytes := of_string "MTDATA".
Definition bool_b (b : bool) : bytes := if b then [49] else [48].

Definition enc_nft (d : nft_data) : bytes :=
  enc_fields [tag_nft; nd_class d; nd_id d; nd_uri d; nd_sender d; nd_receiver d; bool_b (nd_away d); nd_contract d].
Definition dec_nft (b : bytes) : option nft_data :=
  match dec_fields 12 b with
  | Some [t; c; i; u; s; r; a; k] =>
      if beq t tag_nft then Some (mkNftData c i u s r (beq a [49]) k) else None
  | _ => None
  end.

Definition enc_mt (d : mt_data) : bytes :=
  enc_fields [tag_mt; md_class d; md_id d; md_sender d; md_receiver d; bool_b (md_away d); md_contract d;
              dec (md_amount d); md_data d].
Definition dec_mt (b : bytes) : option mt_data :=
  match dec_fields 12 b with
  | Some [t; c; i; s; r; a; k; amt; dt] =>
      if beq t tag_mt then
        Some (mkMtData c i s r (beq a [49]) k (fold_left (fun acc x => acc * 10 + (x - 48)) amt 0) dt)
      else None
  | _ => None
  end.

Section AppNet.
Variable nft_escrow mt_escrow : bytes.

Definition a_has_route := app_has_route.
Definition a_on_recv := app_on_recv idHh addr_ok nft_escrow mt_escrow dec_nft dec_mt.
Definition a_on_ack := app_on_ack idHh addr_ok nft_escrow mt_escrow dec_nft dec_mt.
Definition a_user := user_exec idH nft_escrow mt_escrow enc_nft enc_mt.

Definition anet := net app_state.
Definition astep := nstep app_state idH a_has_route a_on_recv a_on_ack.

Inductive anop :=
| ANet (o : nop app_state)
| AUser (i : nat) (now : N) (u : user_op).

Definition anop_chain (o : anop) : nat :=
  match o with ANet o' => nop_chain o' | AUser i _ _ => i end.

Definition anstep (n : anet) (o : anop) : anet * option (list event) :=
  match o with
  | ANet o' => astep n o'
  | AUser i now u =>
      match nth_error n i with
      | None => (n, None)
      | Some ci =>
          match a_user (with_now app_state ci now) u with
          | Some (ci', ev) => (upd_nth n i ci', Some ev)
          | None => (upd_nth n i (with_now app_state ci now), None)
          end
      end
  end.

(** ledger dumps: every list is duplicate-free *)
Record ledger := mkLedger {
  l_nft_classes : list (bytes * (bytes * bool));
  l_nft_tokens : list ((bytes * bytes) * (bytes * bytes));      (* (class,id) -> (owner,uri) *)
  l_nft_traces : list bytes;                                    (* full paths *)
  l_mt_classes : list (bytes * bytes);
  l_mt_supply : list ((bytes * bytes) * N);
  l_mt_bal : list ((bytes * (bytes * bytes)) * N);              (* (owner,(class,id)) -> balance *)
  l_mt_traces : list bytes }.

Definition opt_eqb {X} (eq : X -> X -> bool) (a : option X) (b : X) : bool :=
  match a with Some x => eq x b | None => false end.
Definition pair_eqb {X Y} (ex : X -> X -> bool) (ey : Y -> Y -> bool) (a b : X * Y) : bool :=
  ex (fst a) (fst b) && ey (snd a) (snd b).

Definition ledger_eqb (a : app_state) (l : ledger) : bool :=
  let n := a_nft a in let m := a_mt a in
  Nat.eqb (length (ns_classes n)) (length (l_nft_classes l)) &&
  forallb (fun kv => opt_eqb (pair_eqb beq Bool.eqb) (lookup (fst kv) (ns_classes n)) (snd kv)) (l_nft_classes l) &&
  Nat.eqb (length (ns_tokens n)) (length (l_nft_tokens l)) &&
  forallb (fun kv => opt_eqb (pair_eqb beq beq) (lookup (tkey (fst (fst kv)) (snd (fst kv))) (ns_tokens n)) (snd kv))
          (l_nft_tokens l) &&
  Nat.eqb (length (ns_traces n)) (length (l_nft_traces l)) &&
  forallb (fun p => opt_eqb beq (lookup (idHh p) (ns_traces n)) p) (l_nft_traces l) &&
  Nat.eqb (length (ms_classes m)) (length (l_mt_classes l)) &&
  forallb (fun kv => opt_eqb beq (lookup (fst kv) (ms_classes m)) (snd kv)) (l_mt_classes l) &&
  Nat.eqb (length (ms_supply m)) (length (l_mt_supply l)) &&
  forallb (fun kv => opt_eqb N.eqb (lookup (tkey (fst (fst kv)) (snd (fst kv))) (ms_supply m)) (snd kv)) (l_mt_supply l) &&
  Nat.eqb (fold_right (fun kv acc => (length (snd kv) + acc)%nat) 0%nat (ms_bal m)) (length (l_mt_bal l)) &&
  forallb (fun kv => N.eqb (bal_of m (fst (fst kv)) (fst (snd (fst kv))) (snd (snd (fst kv)))) (snd kv) &&
                     match lookup (fst (fst kv)) (holders m (fst (snd (fst kv))) (snd (snd (fst kv)))) with
                     | Some _ => true | None => false end)
          (l_mt_bal l) &&
  Nat.eqb (length (ms_traces m)) (length (l_mt_traces l)) &&
  forallb (fun p => opt_eqb beq (lookup (idHh p) (ms_traces m)) p) (l_mt_traces l).

Record aobs := mkAObs { ao_ok : bool; ao_events : list oev; ao_dump : list (bytes * bytes); ao_ledger : ledger }.

Definition astep_agrees (n' : anet) (r : option (list event)) (i : nat) (o : aobs) : bool :=
  match r with
  | None => negb (ao_ok o)
  | Some ev => ao_ok o && list_eqb oev_eqb (observe_all ev) (ao_events o)
  end &&
  match nth_error n' i with
  | Some c => dump_eqb (c_kv app_state c) (ao_dump o) && ledger_eqb (c_app app_state c) (ao_ledger o)
  | None => false
  end.

Fixpoint afirst_disagreement (n : anet) (k : N) (l : list (anop * aobs)) : option N :=
  match l with
  | [] => None
  | (o, ob) :: rest =>
      let '(n', r) := anstep n o in
      if astep_agrees n' r (anop_chain o) ob then afirst_disagreement n' (k + 1) rest else Some k
  end.

End AppNet.

Definition mk_achain (name : bytes) : chain app_state := mkChain app_state name [] [] (Some []) 0 app_init.

Record app_case := AppCase {
  ac_names : list bytes; ac_nft_escrow : bytes; ac_mt_escrow : bytes; ac_steps : list (anop * aobs) }.

Definition app_case_where (c : app_case) : option N :=
  afirst_disagreement (ac_nft_escrow c) (ac_mt_escrow c) (map mk_achain (ac_names c)) 0 (ac_steps c).

Definition app_case_ok (c : app_case) : bool :=
  match app_case_where c with None => true | Some _ => false end.

Definition app_mismatches := mismatches_from app_case_ok 0.

Fixpoint app_where (i : N) (l : list app_case) : list (N * N) :=
  match l with
  | [] => []
  | c :: r => match app_case_where c with
              | None => app_where (i + 1) r
              | Some k => (i, k) :: app_where (i + 1) r
              end
  end.
