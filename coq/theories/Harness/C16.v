(** Correspondence for C16 (genesis export / re-import).  Kinds of cases:
    - [C16StoreD orig exported lost changed_or_new] (and [C16Store] with the
      imported store spelled out): the complete "tibc" KVStore of a real chain
      ([orig], ascending keys), whether tibc.ExportGenesis returned (no panic),
      and the complete store of a fresh application after tibc.InitGenesis of the
      JSON-round-tripped export, given as its difference from [orig].  The model
      must predict the panic and the imported store key by key, value by value.
    - [C16Apps orig imp]: the NFT/MT transfer store before and after.
    - [C16Net names steps] / [C16App names escrows steps]: a network history on
      real chains in which chains are exported and re-imported in place
      ([SReimport] / [SAReimport]); every later message is executed by the
      re-imported real chain and compared (verdict, events, packet store, token
      ledgers) with the packet / application model continuing from the model's
      re-import of its store; the history before the first re-import is compared
      by verdict only ([SNetL] / [SAppL]). *)
From Tibc Require Import Base.Bytes Base.FMap Host.Keys Routing.Rules Packet.Types Packet.Keeper Net.Net.
From Tibc Require Import Apps.Path Apps.Nft Apps.Mt Apps.App Genesis.Export.
From Tibc Require Export Harness.Net Harness.AppNet.

Inductive c16_step :=
| SNet (o : nop unit) (ob : nobs)
| SNetL (o : nop unit) (ok : bool)       (* history before the re-import: only the verdict is compared *)
| SReimport (i : nat) (dump : list (bytes * bytes)).
Definition SNetP (p : nop unit * nobs) : c16_step := SNet (fst p) (snd p).

(** application mode: the chain's application state loses its class traces too
    (no genesis in the transfer modules), everything the token modules own
    (classes, tokens, balances: other modules' genesis) is kept *)
Inductive c16_astep :=
| SApp (o : anop) (ob : aobs)
| SAppL (o : anop) (ok : bool)
| SAReimport (i : nat) (dump : list (bytes * bytes)) (l : ledger).
Definition SAppP (p : anop * aobs) : c16_astep := SApp (fst p) (snd p).

Definition drop_traces (a : app_state) : app_state :=
  mkApp (mkNftState (ns_classes (a_nft a)) (ns_tokens (a_nft a)) [])
        (mkMtState (ms_classes (a_mt a)) (ms_mts (a_mt a)) (ms_supply (a_mt a)) (ms_bal (a_mt a)) []).

(** the imported store is given as its difference from the original one *)
Definition patch (orig : store) (lost : list bytes) (set_ : store) : store :=
  filter (fun kv : bytes * bytes => negb (existsb (beq (fst kv)) lost) && negb (existsb (fun kv' : bytes * bytes => beq (fst kv) (fst kv')) set_)) orig ++ set_.

Inductive c16_case :=
| C16Store (orig : store) (exported : bool) (imp : store)
| C16StoreD (orig : store) (exported : bool) (lost : list bytes) (changed_or_new : store)
| C16Apps (orig imp : store)
| C16Net (names : list bytes) (steps : list c16_step)
| C16App (names : list bytes) (nft_escrow mt_escrow : bytes) (steps : list c16_astep).

Definition c16_store_ok (orig : store) (exported : bool) (imp : store) : bool :=
  match reimport orig with
  | None => negb exported
  | Some m => exported && dump_eqb m imp
  end.

Fixpoint c16_net_ok (n : mnet) (l : list c16_step) : bool :=
  match l with
  | [] => true
  | SNet o ob :: rest =>
      let '(n', r) := mstep n o in
      step_agrees n' r (nop_chain o) ob && c16_net_ok n' rest
  | SNetL o ok :: rest =>
      let '(n', r) := mstep n o in
      Bool.eqb (match r with Some _ => true | None => false end) ok && c16_net_ok n' rest
  | SReimport i dump :: rest =>
      match nth_error n i with
      | Some ci =>
          match export_packet (c_kv unit ci) with
          | Some g =>
              let ci' := with_kv unit ci (import_packet g) in
              dump_eqb (c_kv unit ci') dump && c16_net_ok (upd_nth n i ci') rest
          | None => false
          end
      | None => false
      end
  end.

Fixpoint c16_app_ok (ne me : bytes) (n : anet) (l : list c16_astep) : bool :=
  match l with
  | [] => true
  | SApp o ob :: rest =>
      let '(n', r) := anstep ne me n o in
      astep_agrees n' r (anop_chain o) ob && c16_app_ok ne me n' rest
  | SAppL o ok :: rest =>
      let '(n', r) := anstep ne me n o in
      Bool.eqb (match r with Some _ => true | None => false end) ok && c16_app_ok ne me n' rest
  | SAReimport i dump led :: rest =>
      match nth_error n i with
      | Some ci =>
          match export_packet (c_kv app_state ci) with
          | Some g =>
              let ci' := with_app app_state (with_kv app_state ci (import_packet g)) (drop_traces (c_app app_state ci)) in
              dump_eqb (c_kv app_state ci') dump && ledger_eqb (c_app app_state ci') led &&
              c16_app_ok ne me (upd_nth n i ci') rest
          | None => false
          end
      | None => false
      end
  end.

Definition c16_case_ok (c : c16_case) : bool :=
  match c with
  | C16Store orig exported imp => c16_store_ok orig exported imp
  | C16StoreD orig exported lost cn => c16_store_ok orig exported (if exported then patch orig lost cn else [])
  | C16Apps orig imp => dump_eqb (app_reimport orig) imp
  | C16Net names steps => c16_net_ok (map mk_chain names) steps
  | C16App names ne me steps => c16_app_ok ne me (map mk_achain names) steps
  end.

Definition c16_mismatches := mismatches_from c16_case_ok 0.

(** diagnosis: index of the first disagreeing step of a network case *)
Fixpoint c16_net_where (n : mnet) (k : N) (l : list c16_step) : option N :=
  match l with
  | [] => None
  | SNet o ob :: rest =>
      let '(n', r) := mstep n o in
      if step_agrees n' r (nop_chain o) ob then c16_net_where n' (k + 1) rest else Some k
  | SNetL o ok :: rest =>
      let '(n', r) := mstep n o in
      if Bool.eqb (match r with Some _ => true | None => false end) ok then c16_net_where n' (k + 1) rest else Some k
  | SReimport i dump :: rest =>
      match nth_error n i with
      | Some ci =>
          let ci' := with_kv unit ci (pkt_reimport (c_kv unit ci)) in
          if dump_eqb (c_kv unit ci') dump then c16_net_where (upd_nth n i ci') (k + 1) rest else Some k
      | None => Some k
      end
  end.
