(** Correspondence for C18: one case = one history of keeper.UpdateClient calls on
    a fresh ETH client; after every accepted update the harness dumps the client
    store (header index, root index, consensus states, ClientState.Header). *)
From Coq Require Export List NArith ZArith Bool.
From Tibc Require Import Clients.Eth.
Import ListNotations.
Open Scope N_scope.

Record c18_dump := D18 {
  d_idx : list (key * N);          (* index key -> hash of the stored header *)
  d_rootmain : list (key * key);
  d_main : list (key * consst);
  d_tip : N * N * N }.             (* ClientState.Header: hash, revision number, height *)

Record c18_step := K18 { k_now : N; k_seal : bool; k_hdr : header; k_ok : bool; k_dump : c18_dump }.
Record c18_case := C18 { k_h0 : header; k_trust : N; k_steps : list c18_step }.

Definition same_map {V W} (veq : V -> W -> bool) (m : pmap V) (d : list (key * W)) : bool :=
  Nat.eqb (length m) (length d) &&
  forallb (fun kv => match pget (fst kv) m with Some v => veq v (snd kv) | None => false end) d.

Definition cons_eqb (a b : consst) : bool :=
  (c_time a =? c_time b) && (c_rev a =? c_rev b) && (c_num a =? c_num b) && (c_root a =? c_root b).

Definition dump_ok (s : cstate) (d : c18_dump) : bool :=
  same_map (fun x a => h_hash x =? a) (s_idx s) (d_idx d) &&
  same_map keqb (s_rootmain s) (d_rootmain d) &&
  same_map cons_eqb (s_main s) (d_main d) &&
  (let '(a, r, n) := d_tip d in (h_hash (s_tip s) =? a) && (h_rev (s_tip s) =? r) && (h_num (s_tip s) =? n)).

(** index of the first step on which model and implementation differ *)
Fixpoint c18_first_bad (s : cstate) (i : N) (steps : list c18_step) : option N :=
  match steps with
  | [] => None
  | k :: rest =>
      match eth_update (k_now k) (k_seal k) (k_hdr k) s with
      | Some s' => if k_ok k && dump_ok s' (k_dump k) then c18_first_bad s' (i + 1) rest else Some i
      | None => if k_ok k then Some i else c18_first_bad s (i + 1) rest
      end
  end.

Definition c18_where (c : c18_case) : option N :=
  c18_first_bad (eth_init (k_h0 c) (k_trust c)) 0 (k_steps c).

Definition c18_case_ok (c : c18_case) : bool :=
  match c18_where c with None => true | Some _ => false end.

Fixpoint mismatches_from {A} (ok : A -> bool) (i : N) (l : list A) : list N :=
  match l with
  | [] => []
  | x :: l' => if ok x then mismatches_from ok (i + 1) l' else i :: mismatches_from ok (i + 1) l'
  end.

Definition c18_mismatches := mismatches_from c18_case_ok 0.

(** constants of the model the harness compares with the compiled code *)
Definition c18_constants : list N := [15; 9700000; 1024; 5000; 8; 2; 2048; 131072; 100000; 32].
