(** Correspondence for C12: each case is what the Go code did on one input. *)
From Tibc Require Import Base.Bytes Routing.Rules.

(* rules, (s,d,p), observed: SetRoutingRules ok?, Authenticate result (after a
   successful set; when the set failed, authenticate ran on an empty store) *)
Record c12_case := C12 { k_rules : list bytes; k_s : bytes; k_d : bytes; k_p : bytes;
                         k_setok : bool; k_auth : bool }.

Definition c12_model (c : c12_case) : bool * bool :=
  let st := set_rules (k_rules c) in
  (match st with Some _ => true | None => false end, authenticate st (k_s c) (k_d c) (k_p c)).

Definition c12_ok (c : c12_case) : bool :=
  let '(a, b) := c12_model c in Bool.eqb a (k_setok c) && Bool.eqb b (k_auth c).

Fixpoint mismatches_from {A} (ok : A -> bool) (i : N) (l : list A) : list N :=
  match l with
  | [] => []
  | x :: l' => if ok x then mismatches_from ok (i + 1) l' else i :: mismatches_from ok (i + 1) l'
  end.

Definition c12_mismatches := mismatches_from c12_ok 0.
