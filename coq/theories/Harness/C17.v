(** Correspondence for C17: a case is one client (initial state as read from the real client
    store after CreateClient) and a list of steps, each a header presented to the real code
    together with what the real code did (accepted?, projection of the resulting state). *)
From Tibc Require Import Base.Bytes Clients.Bsc.
Open Scope N_scope.

(** projection of client state + client store that is compared *)
Record c17_proj := Proj {
  p_rev : N; p_num : N; p_gaslimit : N; p_time : N; p_root : bytes; p_hash : option bytes; (* latest header *)
  (* None = the real value after the step is identical to the real value before the step *)
  p_validators : option (list bytes);
  p_recents : option (list (hkey * bytes));
  p_pending : option (list bytes);
  p_cons : option cons_state       (* direct call: the returned consensus state;
                                      keeper: the stored consensus state at the presented header's height *)
}.

(** mode 0: ClientState.CheckHeaderAndUpdateState called directly on a branch of the store (never kept)
    mode 1: keeper.UpdateClient on a branch of the store, kept iff [k_commit] and no error
            (also used for real MsgUpdateClient transactions, k_commit = true) *)
Record c17_step := Step {
  k_mode : N; k_commit : bool; k_now : N; k_hdr : header;
  k_ok : bool; k_post : c17_proj
}.

Record c17_case := Case { k_init : state; k_steps : list c17_step }.


Definition obeq (a b : option bytes) : bool :=
  match a, b with
  | Some x, Some y => beq x y
  | None, None => true
  | _, _ => false
  end.

Definition cons_eqb (a b : cons_state) : bool :=
  (c_time a =? c_time b) && hkey_eqb (c_height a) (c_height b) && beq (c_root a) (c_root b).

Definition ocons_eqb (a b : option cons_state) : bool :=
  match a, b with
  | Some x, Some y => cons_eqb x y
  | None, None => true
  | _, _ => false
  end.

Fixpoint lbeq (a b : list bytes) : bool :=
  match a, b with
  | [], [] => true
  | x :: a', y :: b' => beq x y && lbeq a' b'
  | _, _ => false
  end.

(** same finite map: same size and every observed entry is in the model's map
    (neither side has duplicate keys) *)
Definition recents_eqb (m : pmap bytes) (l : list (hkey * bytes)) : bool :=
  Nat.eqb (length m) (length l)
  && forallb (fun e => match plookup (fst e) m with Some v => beq v (snd e) | None => false end) l.

(** [st0]: model state before the step, [st]: after *)
Definition proj_ok (st0 st : state) (oc : option cons_state) (p : c17_proj) : bool :=
  let h := s_header st in
  (h_rev h =? p_rev p) && (h_num h =? p_num p) && (h_gaslimit h =? p_gaslimit p)
  && (h_time h =? p_time p) && beq (h_root h) (p_root p) && obeq (h_hash h) (p_hash p)
  && lbeq (s_validators st) (match p_validators p with Some l => l | None => s_validators st0 end)
  && recents_eqb (s_recents st) (match p_recents p with Some l => l | None => s_recents st0 end)
  && lbeq (s_pending st) (match p_pending p with Some l => l | None => s_pending st0 end)
  && ocons_eqb oc (p_cons p).

(** evaluates one step: (ok?, next model state) *)
Definition c17_step_eval (st : state) (s : c17_step) : bool * state :=
  if k_mode s =? 0 then
    let '(st', oc) := direct st (k_hdr s) in
    let acc := match oc with Some _ => true | None => false end in
    (Bool.eqb acc (k_ok s) && proj_ok st st' oc (k_post s), st)
  else
    match update_client st (k_now s) (k_hdr s) with
    | Some st' =>
        (Bool.eqb true (k_ok s) && proj_ok st st' (plookup (hheight (k_hdr s)) (s_cons st')) (k_post s),
         if k_commit s then st' else st)
    | None =>
        (Bool.eqb false (k_ok s) && proj_ok st st (plookup (hheight (k_hdr s)) (s_cons st)) (k_post s), st)
    end.

Fixpoint c17_steps_ok (st : state) (l : list c17_step) : bool :=
  match l with
  | [] => true
  | s :: l' => let '(ok, st') := c17_step_eval st s in ok && c17_steps_ok st' l'
  end.

(** index of the first disagreeing step (debugging aid) *)
Fixpoint c17_first_bad (i : N) (st : state) (l : list c17_step) : option N :=
  match l with
  | [] => None
  | s :: l' => let '(ok, st') := c17_step_eval st s in
               if ok then c17_first_bad (i + 1) st' l' else Some i
  end.

Definition c17_case_ok (c : c17_case) : bool := c17_steps_ok (k_init c) (k_steps c).

Fixpoint mismatches_from {A} (ok : A -> bool) (i : N) (l : list A) : list N :=
  match l with
  | [] => []
  | x :: l' => if ok x then mismatches_from ok (i + 1) l' else i :: mismatches_from ok (i + 1) l'
  end.

Definition c17_mismatches := mismatches_from c17_case_ok 0.
Definition c17_bad_steps (l : list c17_case) : list (option N) :=
  map (fun c => c17_first_bad 0 (k_init c) (k_steps c)) l.

(* ------------------------------------------------------------------------------------------
   Binary case encoding.  Coq's front end needs about half a millisecond per byte of a hex
   literal, so a case is written by the harness as ONE raw byte string ("..."%c17, any byte value)
   and decoded here (vm_compute).  A string that does not decode counts as a mismatch.

     varint  = LEB128;  bytes = varint length ++ raw;  ref = varint index into the case's table
     case    = table (count then entries) state steps (count then entries)
   ------------------------------------------------------------------------------------------ *)
From Coq Require Import Init.Byte.

Inductive c17_raw := C17Raw (l : list Byte.byte).
Definition c17_raw_of (l : list Byte.byte) : c17_raw := C17Raw l.
Definition c17_raw_to (r : c17_raw) : list Byte.byte := match r with C17Raw l => l end.
Declare Scope c17_scope.
Delimit Scope c17_scope with c17.
String Notation c17_raw c17_raw_of c17_raw_to : c17_scope.

Section Decode.
  Definition inp := list N.
  Definition parser (A : Type) := inp -> option (A * inp).
  Definition ret {A} (a : A) : parser A := fun i => Some (a, i).
  Definition bind {A B} (p : parser A) (f : A -> parser B) : parser B :=
    fun i => match p i with Some (a, i') => f a i' | None => None end.
  Notation "x <- p ;; q" := (bind p (fun x => q)) (at level 61, p at next level, right associativity).

  Fixpoint varint_aux (fuel : nat) (shift acc : N) (i : inp) : option (N * inp) :=
    match fuel, i with
    | S f, b :: i' =>
        if b <? 128 then Some (acc + b * shift, i')
        else varint_aux f (shift * 128) (acc + (b - 128) * shift) i'
    | _, _ => None
    end.
  Definition d_num : parser N := varint_aux 10 1 0.

  Definition d_bool : parser bool :=
    fun i => match i with 0 :: i' => Some (false, i') | 1 :: i' => Some (true, i') | _ => None end.

  Definition d_raw : parser bytes :=
    n <- d_num ;;
    fun i => if (N.of_nat (length i) <? n) then None
             else Some (firstn (N.to_nat n) i, skipn (N.to_nat n) i).

  Fixpoint d_rep {A} (p : parser A) (k : nat) : parser (list A) :=
    match k with
    | O => ret []
    | S k' => x <- p ;; l <- d_rep p k' ;; ret (x :: l)
    end.
  (** count-prefixed list; every element takes at least one byte *)
  Definition d_list {A} (p : parser A) : parser (list A) :=
    n <- d_num ;;
    fun i => if (N.of_nat (length i) <? n) then None else d_rep p (N.to_nat n) i.

  Definition d_opt {A} (p : parser A) : parser (option A) :=
    b <- d_bool ;; if b then (x <- p ;; ret (Some x)) else ret None.

  Variable tbl : list bytes.
  Definition d_ref : parser bytes :=
    n <- d_num ;;
    fun i => match nth_error tbl (N.to_nat n) with Some b => Some (b, i) | None => None end.

  Definition d_extra : parser bytes :=
    split3 <- d_bool ;;
    if split3 then (a <- d_ref ;; b <- d_ref ;; c <- d_ref ;; ret (a ++ b ++ c)) else d_ref.

  Definition d_header : parser header :=
    rev <- d_num ;; num <- d_num ;; parent <- d_ref ;; uncle <- d_ref ;; coinbase <- d_ref ;;
    root <- d_ref ;; diff <- d_num ;; gl <- d_num ;; gu <- d_num ;; time <- d_num ;;
    extra <- d_extra ;; mix <- d_ref ;; hash <- d_opt d_ref ;; signer <- d_opt d_ref ;;
    ret (Header rev num parent uncle coinbase root diff gl gu time extra mix hash signer).

  Definition d_hkey : parser hkey := r <- d_num ;; h <- d_num ;; ret (r, h).
  Definition d_cons : parser cons_state :=
    t <- d_num ;; k <- d_hkey ;; root <- d_ref ;; ret (Cons t k root).
  Definition d_recents : parser (list (hkey * bytes)) :=
    d_list (k <- d_hkey ;; v <- d_ref ;; ret (k, v)).

  Definition d_state : parser state :=
    h <- d_header ;; epoch <- d_num ;; trusting <- d_num ;; vals <- d_list d_ref ;;
    rec <- d_recents ;; pend <- d_list d_ref ;;
    cons <- d_list (k <- d_hkey ;; c <- d_cons ;; ret (k, c)) ;;
    ret (State h epoch trusting vals rec pend cons).

  Definition d_proj : parser c17_proj :=
    rev <- d_num ;; num <- d_num ;; gl <- d_num ;; time <- d_num ;; root <- d_ref ;;
    hash <- d_opt d_ref ;; vals <- d_opt (d_list d_ref) ;; rec <- d_opt d_recents ;;
    pend <- d_opt (d_list d_ref) ;; cons <- d_opt d_cons ;;
    ret (Proj rev num gl time root hash vals rec pend cons).

  Definition d_step : parser c17_step :=
    mode <- d_num ;; commit <- d_bool ;; now <- d_num ;; h <- d_header ;; ok <- d_bool ;;
    post <- d_proj ;; ret (Step mode commit now h ok post).
End Decode.

Definition c17_decode (r : c17_raw) : option c17_case :=
  let i := map Byte.to_N (c17_raw_to r) in
  match d_list d_raw i with
  | Some (tbl, i1) =>
      match d_state tbl i1 with
      | Some (st, i2) =>
          match d_list (d_step tbl) i2 with
          | Some (steps, []) => Some (Case st steps)
          | _ => None
          end
      | None => None
      end
  | None => None
  end.

Definition c17_raw_ok (r : c17_raw) : bool :=
  match c17_decode r with Some c => c17_case_ok c | None => false end.
Definition c17_mismatches_raw := mismatches_from c17_raw_ok 0.
(** debugging aid: per case, None = undecodable / Some None = fine / Some (Some i) = first bad step *)
Definition c17_bad_steps_raw (l : list c17_raw) : list (option (option N)) :=
  map (fun r => option_map (fun c => c17_first_bad 0 (k_init c) (k_steps c)) (c17_decode r)) l.

(** constants of the model, printed by the harness from the compiled code and compared there *)
Definition c17_constants : list N :=
  [N.of_nat extra_vanity; N.of_nat extra_seal; N.of_nat address_length; gas_limit_bound_divisor;
   min_gas_limit; gas_cap; diff_in_turn; diff_no_turn].
