(** Correspondence cases of the packet-layer properties that also exercise the
    token applications (C09: sends of tokens; C02/C03: deliveries and refunds
    through the real NFT/MT modules): a case is either a packet-layer history
    (mock application) or an application-level history. *)
From Coq Require Import NArith.
From Tibc Require Export Harness.Net Harness.AppNet.
Open Scope N_scope.

Inductive mixed_case :=
| MNet (c : net_case)
| MApp (c : app_case).

Definition mixed_case_ok (c : mixed_case) : bool :=
  match c with MNet n => net_case_ok n | MApp a => app_case_ok a end.

Definition mixed_mismatches := mismatches_from mixed_case_ok 0.
