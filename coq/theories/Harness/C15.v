(** Correspondence for C15: a case is a history of registry requests on one
    real chain, each with what the implementation did (accepted?) and the
    registry as read back from the chain's store afterwards. *)
From Coq Require Import NArith List Bool.
From Tibc Require Import Base.Bytes Base.FMap Routing.Rules Clients.Registry.
From Tibc Require Export Harness.C12.
Import ListNotations.
Open Scope N_scope.

(** the registry as dumped by the harness: clients (name, type, state bytes,
    consensus states by height key), relayers per chain name, rules *)
Record rdump := mkRDump {
  d_clients : list (bytes * (N * bytes * list (bytes * bytes)));
  d_relayers : list (bytes * list bytes);
  d_rules : option (list bytes) }.

Fixpoint list_beq (a b : list bytes) : bool :=
  match a, b with
  | [], [] => true
  | x :: a', y :: b' => beq x y && list_beq a' b'
  | _, _ => false
  end.

Definition cons_eqb (m : fmap bytes) (d : list (bytes * bytes)) : bool :=
  Nat.eqb (length m) (length d) &&
  forallb (fun '(k, v) => match lookup k m with Some x => beq x v | None => false end) d.

Definition clients_eqb (m : fmap rclient) (d : list (bytes * (N * bytes * list (bytes * bytes)))) : bool :=
  Nat.eqb (length m) (length d) &&
  forallb (fun '(n, (ty, st, cs)) =>
             match lookup n m with
             | Some c => N.eqb (rc_type c) ty && beq (rc_state c) st && cons_eqb (rc_cons c) cs
             | None => false
             end) d.

(** relayer entries with an empty list and absent entries read the same *)
Definition relayers_eqb (g : registry) (d : list (bytes * list bytes)) : bool :=
  forallb (fun '(n, l) => list_beq (relayers_of g n) l) d &&
  forallb (fun '(n, l) => match l with [] => true | _ => existsb (fun '(n', _) => beq n n') d end) (g_relayers g).

Definition rules_eqb (a b : option (list bytes)) : bool :=
  match a, b with
  | None, None => true
  | Some x, Some y => list_beq x y
  | Some [], None | None, Some [] => true
  | _, _ => false
  end.

Definition dump_agrees (g : registry) (d : rdump) : bool :=
  clients_eqb (g_clients g) (d_clients d) && relayers_eqb g (d_relayers d) && rules_eqb (g_rules g) (d_rules d).

Fixpoint c15_first_disagreement (g : registry) (k : N) (l : list (rop * (bool * rdump))) : option N :=
  match l with
  | [] => None
  | (o, (ok, d)) :: rest =>
      let '(g', r) := rstep g o in
      if Bool.eqb r ok && dump_agrees g' d then c15_first_disagreement g' (k + 1) rest else Some k
  end.

Record c15_case := C15Case { k15_authority : bytes; k15_steps : list (rop * (bool * rdump)) }.

Definition c15_case_ok (c : c15_case) : bool :=
  match c15_first_disagreement (mkReg (k15_authority c) [] [] None) 0 (k15_steps c) with
  | None => true | Some _ => false end.

Definition c15_mismatches := mismatches_from c15_case_ok 0.

Fixpoint c15_where (i : N) (l : list c15_case) : list (N * N) :=
  match l with
  | [] => []
  | c :: r =>
      match c15_first_disagreement (mkReg (k15_authority c) [] [] None) 0 (k15_steps c) with
      | None => c15_where (i + 1) r
      | Some k => (i, k) :: c15_where (i + 1) r
      end
  end.
