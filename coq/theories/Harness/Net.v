(** Correspondence for the packet layer (C01-C03, C09-C11, C13, C14, C19):
    a case is an initial network, and a list of network operations each with
    what the implementation did (accepted?, relayer-visible events, and the
    packet-store dump of the acted chain afterwards). *)
From Tibc Require Import Base.Bytes Base.FMap Host.Keys Routing.Rules Packet.Types Packet.Keeper Net.Net.
From Tibc Require Export Harness.C12.

(** the mock application: every port in [ports] is routed; OnRecvPacket returns
    the fixed mock acknowledgement; OnAcknowledgementPacket does nothing *)
Definition mock_ack : bytes := of_string "mock acknowledgement".
Definition mock_port : bytes := of_string "tibcmock".
(* NFT and MT are routed too; the harness only sends them payloads that their
   callbacks cannot decode, so both callbacks fail on those ports *)
Definition mock_ports : list bytes := [mock_port; of_string "NFT"; of_string "MT"].
Definition mock_has_route (p : bytes) : bool := existsb (beq p) mock_ports.
Definition mock_on_recv (a : unit) (p : packet) : option (unit * option bytes) :=
  if beq (p_port p) mock_port then Some (tt, Some mock_ack) else None.
Definition mock_on_ack (a : unit) (p : packet) (ack : bytes) : option unit :=
  if beq (p_port p) mock_port then Some tt else None.
Definition idH (x : bytes) : bytes := x.

Definition mnet := net unit.
Definition mstep := nstep unit idH mock_has_route mock_on_recv mock_on_ack.

Definition mk_chain (name : bytes) : chain unit := mkChain unit name [] [] (Some []) 0 tt.

(** observable events (ghost events dropped) *)
Inductive oev :=
| VSend (p : packet) | VRecv (p : packet) | VWriteAck (p : packet) (a : bytes)
| VAck (p : packet) (a : bytes) | VCleanSend (cp : cleanpkt) | VCleanRecv (cp : cleanpkt).

Definition clean_eqb (a b : cleanpkt) : bool :=
  N.eqb (cp_seq a) (cp_seq b) && beq (cp_src a) (cp_src b) && beq (cp_dst a) (cp_dst b) &&
  beq (cp_relay a) (cp_relay b).

Definition observe (e : event) : option oev :=
  match e with
  | ESend p => Some (VSend p) | ERecv p => Some (VRecv p)
  | EWriteAck p a => Some (VWriteAck p a) | EAck p a => Some (VAck p a)
  | ECleanSend c => Some (VCleanSend c) | ECleanRecv c => Some (VCleanRecv c)
  | EDeliver _ | EAppAck _ _ => None
  end.

Fixpoint observe_all (l : list event) : list oev :=
  match l with
  | [] => []
  | e :: r => match observe e with Some v => v :: observe_all r | None => observe_all r end
  end.

Definition oev_eqb (a b : oev) : bool :=
  match a, b with
  | VSend p, VSend q | VRecv p, VRecv q => packet_eqb p q
  | VWriteAck p x, VWriteAck q y | VAck p x, VAck q y => packet_eqb p q && beq x y
  | VCleanSend c, VCleanSend d | VCleanRecv c, VCleanRecv d => clean_eqb c d
  | _, _ => false
  end.

Fixpoint list_eqb {X} (eq : X -> X -> bool) (a b : list X) : bool :=
  match a, b with
  | [], [] => true
  | x :: a', y :: b' => eq x y && list_eqb eq a' b'
  | _, _ => false
  end.

(** [kv] equals the dump (a duplicate-free list of key/value pairs) *)
Definition dump_eqb (kv : fmap bytes) (dump : list (bytes * bytes)) : bool :=
  Nat.eqb (length kv) (length dump) &&
  forallb (fun '(k, v) => opt_beq (lookup k kv) v) dump.

Record nobs := mkObs { o_ok : bool; o_events : list oev; o_dump : list (bytes * bytes) }.

Definition step_agrees (n' : mnet) (r : option (list event)) (i : nat) (o : nobs) : bool :=
  match r with
  | None => negb (o_ok o)
  | Some ev => o_ok o && list_eqb oev_eqb (observe_all ev) (o_events o)
  end &&
  match nth_error n' i with
  | Some c => dump_eqb (c_kv unit c) (o_dump o)
  | None => false
  end.

(** index of the first disagreeing step, if any *)
Fixpoint first_disagreement (n : mnet) (k : N) (l : list (nop unit * nobs)) : option N :=
  match l with
  | [] => None
  | (o, ob) :: rest =>
      let '(n', r) := mstep n o in
      if step_agrees n' r (nop_chain o) ob then first_disagreement n' (k + 1) rest else Some k
  end.

Record net_case := NetCase { nc_names : list bytes; nc_steps : list (nop unit * nobs) }.

Definition net_case_ok (c : net_case) : bool :=
  match first_disagreement (map mk_chain (nc_names c)) 0 (nc_steps c) with None => true | Some _ => false end.

Definition net_mismatches := mismatches_from net_case_ok 0.

(** for diagnosis: (case index, step index) pairs *)
Fixpoint net_where (i : N) (l : list net_case) : list (N * N) :=
  match l with
  | [] => []
  | c :: r =>
      match first_disagreement (map mk_chain (nc_names c)) 0 (nc_steps c) with
      | None => net_where (i + 1) r
      | Some k => (i, k) :: net_where (i + 1) r
      end
  end.
