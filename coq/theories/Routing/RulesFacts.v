From Tibc Require Import Base.Bytes Base.BytesFacts Routing.Rules.

Definition is_rule_of (r a b c : bytes) : Prop :=
  r = a ++ comma :: b ++ comma :: c /\ ~ In comma a /\ ~ In comma b /\ ~ In comma c.

Lemma valid_rule_iff r :
  valid_rule r = true <->
  exists a b c, is_rule_of r a b c /\
                valid_field a = true /\ valid_field b = true /\ valid_field c = true.
Proof.
  unfold valid_rule, is_rule_of. split.
  - destruct (split comma r) as [|a [|b [|c [|? ?]]]] eqn:E; try discriminate.
    intros H. apply andb_true_iff in H. destruct H as [H Hc].
    apply andb_true_iff in H. destruct H as [Ha Hb].
    exists a, b, c. split; [apply split3_iff; exact E | auto].
  - intros (a & b & c & H & Ha & Hb & Hc).
    apply split3_iff in H. rewrite H, Ha, Hb, Hc. reflexivity.
Qed.

Lemma set_rules_accept_iff rs :
  (exists st, set_rules rs = Some st) <-> Forall (fun r => valid_rule r = true) rs.
Proof.
  unfold set_rules. rewrite Forall_forall, <- forallb_forall.
  destruct (forallb valid_rule rs) eqn:E.
  - split; [intros _; reflexivity | intros _; eexists; reflexivity].
  - split; [intros [st H]; discriminate | discriminate].
Qed.

Lemma set_rules_stores rs st : set_rules rs = Some st -> st = rs.
Proof. unfold set_rules. destruct (forallb valid_rule rs); congruence. Qed.

Definition fmatch (f x : bytes) : Prop := f = [star] \/ f = x.

Lemma field_match_iff f x : field_match f x = true <-> fmatch f x.
Proof. unfold field_match, fmatch. rewrite orb_true_iff, !beq_spec. reflexivity. Qed.

Lemma rule_matches_iff s d p r :
  rule_matches s d p r = true <->
  exists a b c, is_rule_of r a b c /\ fmatch a s /\ fmatch b d /\ fmatch c p.
Proof.
  unfold rule_matches, is_rule_of. split.
  - destruct (split comma r) as [|a [|b [|c [|? ?]]]] eqn:E; try discriminate.
    intros H. apply andb_true_iff in H. destruct H as [H Hc].
    apply andb_true_iff in H. destruct H as [Ha Hb].
    exists a, b, c. rewrite <- !field_match_iff. split; [apply split3_iff; exact E | auto].
  - intros (a & b & c & H & Ha & Hb & Hc).
    apply split3_iff in H. rewrite H.
    apply field_match_iff in Ha, Hb, Hc. rewrite Ha, Hb, Hc. reflexivity.
Qed.

Lemma authenticate_iff stored s d p :
  authenticate stored s d p = true <->
  exists rs r a b c, stored = Some rs /\ In r rs /\ is_rule_of r a b c /\
                     fmatch a s /\ fmatch b d /\ fmatch c p.
Proof.
  unfold authenticate. destruct stored as [rs|].
  - rewrite existsb_exists. split.
    + intros [r [Hi Hm]]. apply rule_matches_iff in Hm. destruct Hm as (a & b & c & H).
      exists rs, r, a, b, c. tauto.
    + intros (rs' & r & a & b & c & E & Hi & H). inversion E; subst rs'.
      exists r. split; [exact Hi|]. apply rule_matches_iff. exists a, b, c. exact H.
  - split; [discriminate|]. intros (rs & r & a & b & c & E & _). discriminate.
Qed.

Lemma no_rules_nothing s d p : authenticate None s d p = false /\ authenticate (Some []) s d p = false.
Proof. split; reflexivity. Qed.

(** A literal (non-wildcard) valid field matches only the identical string:
    in particular the characters + [ ] - . # < > have no special meaning. *)
Lemma ident_not_star f : is_ident f = true -> f <> [star].
Proof.
  intros H E. subst. vm_compute in H. discriminate.
Qed.

Lemma literal_field_exact f x : is_ident f = true -> (fmatch f x <-> f = x).
Proof.
  intros H. unfold fmatch. split; [intros [E|E]; [exfalso; eapply ident_not_star; eauto | exact E] | auto].
Qed.

(** identifiers never contain the separator, so a triple of identifiers is
    matched by the rule "s,d,p" itself *)
Lemma id_char_not_comma c : id_char c = true -> c <> comma.
Proof. intros H E. subst. vm_compute in H. discriminate. Qed.

Lemma ident_nocomma f : is_ident f = true -> ~ In comma f.
Proof.
  unfold is_ident. intros H Hi. apply andb_true_iff in H. destruct H as [_ H].
  rewrite forallb_forall in H. apply H in Hi. eapply id_char_not_comma; eauto.
Qed.

Lemma exact_rule_matches s d p :
  is_ident s = true -> is_ident d = true -> is_ident p = true ->
  rule_matches s d p (s ++ comma :: d ++ comma :: p) = true.
Proof.
  intros Hs Hd Hp. apply rule_matches_iff. exists s, d, p.
  unfold is_rule_of, fmatch. repeat split; auto using ident_nocomma.
Qed.
