(** 26-routing: rule validation (the meaning of RulePattern) and the whitelist
    test [Authenticate] (field-wise match with '*' wildcards). *)
From Tibc Require Import Base.Bytes.

(** identifier alphabet of 24-host IsValidID / RulePattern:
    a-z A-Z 0-9 . _ + - # [ ] < > *)
Definition id_char (c : N) : bool :=
  ((97 <=? c) && (c <=? 122)) || ((65 <=? c) && (c <=? 90)) || ((48 <=? c) && (c <=? 57))
  || N.eqb c 46 || N.eqb c 95 || N.eqb c 43 || N.eqb c 45 || N.eqb c 35
  || N.eqb c 91 || N.eqb c 93 || N.eqb c 60 || N.eqb c 62.

Definition is_ident (f : bytes) : bool :=
  Nat.leb 1 (length f) && Nat.leb (length f) 64 && forallb id_char f.

Definition valid_field (f : bytes) : bool := beq f [star] || is_ident f.

Definition valid_rule (r : bytes) : bool :=
  match split comma r with
  | [a; b; c] => valid_field a && valid_field b && valid_field c
  | _ => false
  end.

(** SetRoutingRules: stores the list iff every rule is valid *)
Definition set_rules (rs : list bytes) : option (list bytes) :=
  if forallb valid_rule rs then Some rs else None.

Definition field_match (f x : bytes) : bool := beq f [star] || beq f x.

Definition rule_matches (s d p : bytes) (r : bytes) : bool :=
  match split comma r with
  | [a; b; c] => field_match a s && field_match b d && field_match c p
  | _ => false
  end.

(** Authenticate; [None] = no rules stored *)
Definition authenticate (stored : option (list bytes)) (s d p : bytes) : bool :=
  match stored with
  | None => false
  | Some rs => existsb (rule_matches s d p) rs
  end.
