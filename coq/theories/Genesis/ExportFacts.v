(** Facts about genesis export / import (Genesis/Export.v): which writes the
    import performs for a well-formed store, and what the re-imported store
    therefore answers for every key. *)
From Tibc Require Import Base.Bytes Base.BytesFacts Base.FMap Host.Keys Host.KeysFacts
  Packet.Types Packet.Keeper Packet.U64 Genesis.Export.
From Coq Require Import ZArith ZifyN ZifyNat ZifyBool.
Ltac Zify.zify_post_hook ::= Z.div_mod_to_equations.

(** * generic list / map lemmas *)

Lemma lookup_in (m : store) k v : lookup k m = Some v -> In (k, v) m.
Proof.
  induction m as [|[k' v'] m IH]; simpl; [discriminate|].
  destruct (beq k k') eqn:E.
  - intros X. inversion X; subst. apply beq_spec in E. subst. left. reflexivity.
  - intros X. right. apply IH. exact X.
Qed.

Lemma lookup_none_notin (m : store) k : lookup k m = None -> forall v, ~ In (k, v) m.
Proof.
  induction m as [|[k' v'] m IH]; simpl; intros H v; [tauto|].
  destruct (beq k k') eqn:E; [discriminate|].
  intros [X|X].
  - inversion X; subst. rewrite beq_refl in E. discriminate.
  - eapply IH; eauto.
Qed.

Lemma in_lookup_nodup (m : store) k v :
  NoDup (map fst m) -> In (k, v) m -> lookup k m = Some v.
Proof.
  induction m as [|[k' v'] m IH]; simpl; intros ND H; [tauto|].
  inversion ND as [|? ? Hn ND']; subst.
  destruct H as [H|H].
  - inversion H; subst. rewrite beq_refl. reflexivity.
  - destruct (beq k k') eqn:E.
    + apply beq_spec in E. subst. exfalso. apply Hn.
      change k' with (fst (k', v)). apply in_map. exact H.
    + apply IH; assumption.
Qed.

(** the result of a sequence of writes *)
Lemma apply_writes_notin w : forall (st : store) k,
  (forall v, ~ In (k, v) w) -> lookup k (apply_writes w st) = lookup k st.
Proof.
  unfold apply_writes. induction w as [|[k' v'] w IH]; intros st k H; simpl; [reflexivity|].
  rewrite IH.
  - apply lookup_set_neq. intros ->. apply (H v'). left. reflexivity.
  - intros v X. apply (H v). right. exact X.
Qed.

Lemma apply_writes_in w : forall (st : store) k v,
  In (k, v) w -> (forall v', In (k, v') w -> v' = v) ->
  lookup k (apply_writes w st) = Some v.
Proof.
  unfold apply_writes. induction w as [|[k' v'] w IH]; intros st k v Hin Hf; simpl; [destruct Hin|].
  destruct (in_dec (fun a b : bytes * bytes =>
                      match bytes_eq_dec (fst a) (fst b), bytes_eq_dec (snd a) (snd b) with
                      | left e1, left e2 => left (match a, b return fst a = fst b -> snd a = snd b -> a = b with
                                                  | (a1, a2), (b1, b2) => fun e1 e2 => f_equal2 pair e1 e2 end e1 e2)
                      | right n, _ => right (fun E => n (f_equal fst E))
                      | _, right n => right (fun E => n (f_equal snd E))
                      end) (k, v) w) as [Hw|Hw].
  - apply IH; [exact Hw|]. intros v'' X. apply Hf. right. exact X.
  - destruct Hin as [E|E]; [|contradiction]. inversion E; subst.
    fold (apply_writes w (set k v st)). rewrite apply_writes_notin.
    + apply lookup_set_eq.
    + intros v'' X. assert (v'' = v) by (apply Hf; right; exact X). subst. contradiction.
Qed.

(** [collect] without panics and early exits is a filter-map *)
Lemma collect_spec {X} (f : bytes * bytes -> res X) (s : store) :
  (forall e, In e s -> f e = Skip \/ exists x, f e = Emit x) ->
  exists l, collect f s = Some l /\
            forall x, In x l <-> exists e, In e s /\ f e = Emit x.
Proof.
  induction s as [|e s IH]; intros H.
  - exists []. split; [reflexivity|]. intros x. split; [intros []|intros [e [[] _]]].
  - destruct IH as [l [Hl Hs]]; [intros e' He'; apply H; right; exact He'|].
    cbn [collect]. destruct (H e (or_introl eq_refl)) as [E|[x E]]; rewrite E.
    + exists l. split; [exact Hl|]. intros y. rewrite Hs. split.
      * intros [e' [A B]]. exists e'. split; [right; exact A | exact B].
      * intros [e' [[A|A] B]]; [subst; congruence | exists e'; auto].
    + rewrite Hl. exists (x :: l). split; [reflexivity|]. intros y. cbn [In]. rewrite Hs. split.
      * intros [A|[e' [A B]]]; [subst; exists e; split; [left; reflexivity | exact E] | exists e'; split; [right; exact A | exact B]].
      * intros [e' [[A|A] B]]; [subst; left; congruence | right; exists e'; auto].
Qed.

(** * string helpers *)

Lemma cut_app a r : noslash a -> cut (a ++ slash :: r) = (a, Some r).
Proof.
  induction a as [|c a IH]; intros H; cbn [app cut].
  - rewrite N.eqb_refl. reflexivity.
  - destruct (N.eqb c slash) eqn:E.
    + apply N.eqb_eq in E. exfalso. apply H. left. exact E.
    + rewrite IH; [reflexivity|]. intros X. apply H. right. exact X.
Qed.

Lemma cut_noslash a : noslash a -> cut a = (a, None).
Proof.
  induction a as [|c a IH]; intros H; cbn [cut]; [reflexivity|].
  destruct (N.eqb c slash) eqn:E.
  - apply N.eqb_eq in E. exfalso. apply H. left. exact E.
  - rewrite IH; [reflexivity|]. intros X. apply H. right. exact X.
Qed.

(** a separator-free literal in front is carried through *)
Lemma cut_app_lit l t : noslash l -> cut (l ++ t) = (l ++ fst (cut t), snd (cut t)).
Proof.
  induction l as [|c l IH]; intros H; cbn [app].
  - destruct (cut t). reflexivity.
  - cbn [cut]. destruct (N.eqb c slash) eqn:E.
    + apply N.eqb_eq in E. exfalso. apply H. left. exact E.
    + rewrite IH; [reflexivity|]. intros X. apply H. right. exact X.
Qed.

Lemma has_prefix_skipn p k : has_prefix p k = true -> k = p ++ skipn (length p) k.
Proof.
  revert k; induction p as [|x p IH]; intros k H; [reflexivity|].
  destruct k as [|y k]; [discriminate|]. cbn [has_prefix] in H.
  apply andb_true_iff in H. destruct H as [E H]. apply N.eqb_eq in E. subst y.
  cbn [length skipn app]. f_equal. apply IH. exact H.
Qed.

Lemma strip_some p k rk : strip p k = Some rk -> k = p ++ rk.
Proof.
  unfold strip. destruct (has_prefix p k) eqn:E; [|discriminate].
  intros X. inversion X. apply has_prefix_skipn. exact E.
Qed.

Lemma strip_app p rk : strip p (p ++ rk) = Some rk.
Proof.
  unfold strip. rewrite has_prefix_app. f_equal.
  induction p as [|x p IH]; [reflexivity | exact IH].
Qed.

Lemma strip_none p k : has_prefix p k = false -> strip p k = None.
Proof. unfold strip. intros ->. reflexivity. Qed.

(** * numbers *)

Lemma length_be_aux w : forall n acc, length (be_aux w n acc) = (w + length acc)%nat.
Proof.
  induction w as [|w IH]; intros n acc; cbn [be_aux]; [reflexivity|].
  rewrite IH. cbn [length]. lia.
Qed.

Lemma length_be64 n : length (be64 n) = 8%nat.
Proof. unfold be64. rewrite length_be_aux. reflexivity. Qed.

Lemma length_height_bytes rev h : length (height_bytes rev h) = 16%nat.
Proof. unfold height_bytes. rewrite app_length, !length_be64. reflexivity. Qed.

Lemma firstn_height_bytes rev h : firstn 8 (height_bytes rev h) = be64 rev.
Proof.
  unfold height_bytes. rewrite <- (length_be64 rev) at 1.
  rewrite firstn_app, Nat.sub_diag, firstn_all. cbn [firstn]. apply app_nil_r.
Qed.

Lemma skipn_height_bytes rev h : skipn 8 (height_bytes rev h) = be64 h.
Proof.
  unfold height_bytes. rewrite <- (length_be64 rev) at 1.
  rewrite skipn_app, Nat.sub_diag, skipn_all. reflexivity.
Qed.

Lemma be_val_be64 n : n < two64 -> be_val (be64 n) = n.
Proof. intros H. exact (u64_of_be64 n H). Qed.

Lemma forallb_digits l : Forall is_digit l -> forallb is_digitb l = true.
Proof.
  induction 1 as [|d l Hd _ IH]; [reflexivity|]. cbn [forallb]. rewrite IH.
  unfold is_digit in Hd. unfold is_digitb. lia.
Qed.

Lemma parse_uint_dec n : n < two64 -> parse_uint (dec n) = Some n.
Proof.
  intros H. unfold parse_uint.
  destruct (dec n) as [|c l] eqn:E; [exfalso; eapply dec_nonempty; eauto|].
  rewrite <- E. rewrite forallb_digits by apply dec_digits.
  change (fold_left (fun a d : N => 10 * a + (d - 48)) (dec n) 0) with (dval (dec n)).
  rewrite dec_val by (apply u64_lt_dec_bound; unfold two64, u64max in *; lia).
  assert (n <=? u64max = true) as -> by (unfold two64, u64max in *; lia). reflexivity.
Qed.

Lemma be_to_u64_be64 n : n < two64 -> be_to_u64 (be64 n) = Some n.
Proof.
  intros H. unfold be_to_u64.
  destruct (be64 n) as [|c l] eqn:E.
  - pose proof (length_be64 n) as L. rewrite E in L. discriminate.
  - rewrite <- E. rewrite length_be64. cbn [Nat.leb].
    rewrite <- (length_be64 n) at 1. rewrite firstn_all. f_equal. apply be_val_be64. exact H.
Qed.

(** * well-formed stores: every key is built by one of the protocol's key
      builders from '/'-free names and uint64 heights / sequences *)

Definition K_clean_slash := K_clean ++ [slash].
Definition K_maxack_slash := K_maxack ++ [slash].

(** the keys the genesis format has a place for *)
Definition covered (k : bytes) : bool :=
  negb (beq k K_chainName) && negb (beq k K_rules) &&
  negb (has_prefix K_clean_slash k) && negb (has_prefix K_maxack_slash k).

Definition seq_fam (f : bytes) : Prop := f = K_ack \/ f = K_commit \/ f = K_receipt.

Definition meta_sel (ty : ctype) (rk : bytes) : bool := meta_pass1 ty rk || meta_pass2 ty rk.

Inductive wf_entry (s : store) : bytes -> bytes -> Prop :=
| WE_chain v : wf_entry s K_chainName v
| WE_rules v : wf_entry s K_rules v
| WE_relayer name v : relayer_name v = Some name -> wf_entry s (relayer_key name) v
| WE_client name v ty : noslash name -> dec_cs v = Some ty -> wf_entry s (cs_key name) v
| WE_cons name rev h v :
    noslash name -> rev < two64 -> h < two64 -> dec_cons v = true ->
    wf_entry s (cons_key name rev h) v
| WE_meta name rk v csv ty :
    noslash name -> lookup (cs_key name) s = Some csv -> dec_cs csv = Some ty ->
    meta_sel ty rk = true -> wf_entry s (client_prefix name ++ rk) v
| WE_seq fam a b n v :
    seq_fam fam -> noslash a -> noslash b -> n < two64 ->
    (fam = K_receipt -> v = receipt_value) -> wf_entry s (seq_key fam a b n) v
| WE_send a b n : noslash a -> noslash b -> n < two64 -> wf_entry s (next_send_key a b) (be64 n)
| WE_clean a b v : wf_entry s (clean_key a b) v
| WE_maxack a b v : wf_entry s (maxack_key a b) v.

Definition wf_store (s : store) : Prop :=
  NoDup (map fst s) /\ forall k v, In (k, v) s -> wf_entry s k v.

(** * shapes of the keys *)

Lemma noslash_lit :
  noslash K_clients /\ noslash K_consStates /\ noslash K_iterate /\ noslash K_recentSingers /\
  noslash K_pendingValidators /\ noslash K_ethHeaderIndex /\ noslash K_ethRootMain /\
  noslash K_clientState /\ noslash K_relayers.
Proof. unfold noslash. repeat split; rewrite <- contains_false; vm_compute; reflexivity. Qed.

Lemma client_key_form name rk :
  client_prefix name ++ rk = K_clients ++ slash :: name ++ slash :: rk.
Proof.
  unfold client_prefix. rewrite <- app_assoc. cbn [app]. rewrite <- app_assoc. reflexivity.
Qed.

Lemma splitn3_client name rk : noslash name ->
  splitn3 (client_prefix name ++ rk) = Some (K_clients, name, rk).
Proof.
  intros Hn. rewrite client_key_form. unfold splitn3.
  rewrite cut_app by apply noslash_lit. rewrite cut_app by exact Hn. reflexivity.
Qed.

Lemma splitn4_client name rk : noslash name ->
  splitn4 (client_prefix name ++ rk) =
  match cut rk with (x, Some rest) => Some (K_clients, name, x, rest) | _ => None end.
Proof.
  intros Hn. rewrite client_key_form. unfold splitn4.
  rewrite cut_app by apply noslash_lit. rewrite cut_app by exact Hn.
  destruct (cut rk) as [x [rest|]]; reflexivity.
Qed.

Lemma strip_client name name' rk : noslash name -> noslash name' ->
  strip (client_prefix name') (client_prefix name ++ rk) =
  if beq name' name then Some rk else None.
Proof.
  intros Hn Hn'. destruct (beq name' name) eqn:E.
  - apply beq_spec in E. subst. apply strip_app.
  - apply strip_none. destruct (has_prefix _ _) eqn:P; [|reflexivity].
    apply has_prefix_spec in P. destruct P as [t P].
    rewrite !client_key_form in P. apply app_inv_head in P. inversion P as [P'].
    apply join2_inj in P'; [|exact Hn|exact Hn'].
    destruct P' as [-> _]. rewrite beq_refl in E. discriminate.
Qed.

Lemma strip_client_other name k :
  has_prefix K_clients k = false -> strip (client_prefix name) k = None.
Proof.
  intros H. apply strip_none. destruct (has_prefix (client_prefix name) k) eqn:P; [|reflexivity].
  apply has_prefix_spec in P. destruct P as [t ->].
  rewrite client_key_form in H. rewrite has_prefix_app in H. discriminate.
Qed.

Lemma seq_key_form fam a b n :
  seq_key fam a b n = fam ++ slash :: a ++ slash :: b ++ slash :: K_sequences ++ slash :: dec n.
Proof. reflexivity. Qed.

Lemma split_seq_key fam a b n : noslash fam -> noslash a -> noslash b ->
  split slash (seq_key fam a b n) = [fam; a; b; K_sequences; dec n].
Proof.
  intros Hf Ha Hb. unfold seq_key, path. apply split_join; [discriminate|].
  repeat constructor; try assumption; try apply noslash_of_string_consts. apply dec_noslash.
Qed.

Lemma split_pair_key fam a b : noslash fam -> noslash a -> noslash b ->
  split slash (path [fam; a; b]) = [fam; a; b].
Proof.
  intros Hf Ha Hb. unfold path. apply split_join; [discriminate|]. repeat constructor; assumption.
Qed.

Lemma seq_fam_noslash fam : seq_fam fam -> noslash fam.
Proof.
  pose proof noslash_of_string_consts as (A & B & C & D & E & F & G).
  intros [->|[->| ->]]; assumption.
Qed.

(** [meta_sel] never selects the client-state key or a consensus-state key *)
Lemma meta_sel_client_state ty : meta_sel ty K_clientState = false.
Proof. destruct ty; vm_compute; reflexivity. Qed.

Lemma length_cons_rkey rev h : length (cons_rkey rev h) = 32%nat.
Proof.
  unfold cons_rkey. rewrite app_length. cbn [length]. rewrite length_height_bytes. reflexivity.
Qed.

Lemma meta_sel_cons ty rev h : meta_sel ty (cons_rkey rev h) = false.
Proof.
  unfold meta_sel. destruct ty; cbn [meta_pass1 meta_pass2]; unfold tm_processed;
    try rewrite length_cons_rkey; reflexivity.
Qed.

(** what [meta_sel] selects is never mistaken for a consensus-state key *)
Lemma cut_lit_ne l t x rest : noslash l ->
  cut (l ++ t) = (x, Some rest) -> exists a, x = l ++ a.
Proof.
  intros Hl H. rewrite cut_app_lit in H by exact Hl. inversion H. eexists. reflexivity.
Qed.

Lemma meta_not_cons ty rk x rest :
  meta_sel ty rk = true -> cut rk = (x, Some rest) ->
  beq x K_consStates && Nat.eqb (length rest) 16 = false.
Proof.
  intros Hm Hc. unfold meta_sel in Hm. apply orb_true_iff in Hm.
  assert (G : forall l, noslash l -> has_prefix l rk = true ->
              (forall a, beq (l ++ a) K_consStates = false) -> beq x K_consStates = false).
  { intros l Hl Hp Hne. apply has_prefix_spec in Hp. destruct Hp as [t ->].
    destruct (cut_lit_ne _ _ _ _ Hl Hc) as [a ->]. apply Hne. }
  pose proof noslash_lit as (N1 & N2 & N3 & N4 & N5 & N6 & N7 & N8 & N9).
  destruct ty; cbn [meta_pass1 meta_pass2] in Hm; destruct Hm as [Hm|Hm];
    try (erewrite G; [reflexivity | | exact Hm | intros a; reflexivity]; assumption).
  (* Tendermint processed-time key: consensusStates ++ 31 bytes *)
  unfold tm_processed in Hm. apply andb_true_iff in Hm. destruct Hm as [Hm _].
  apply andb_true_iff in Hm. destruct Hm as [Hp Hl]. apply Nat.eqb_eq in Hl.
  apply has_prefix_spec in Hp. destruct Hp as [t ->].
  rewrite cut_app_lit in Hc by exact N2.
  rewrite app_length in Hl. change (length K_consStates) with 15%nat in Hl.
  change (length K_processedTime) with 14%nat in Hl.
  destruct (cut t) as [a r] eqn:Ec. cbn [fst snd] in Hc.
  apply pair_equal_spec in Hc. destruct Hc as [Hx Hr]. subst x r.
  destruct t as [|c t]; [cbn in Ec; discriminate|].
  cbn [cut] in Ec. destruct (N.eqb c slash) eqn:E.
  - apply pair_equal_spec in Ec. destruct Ec as [Ea Er]. subst a. inversion Er; subst rest.
    rewrite app_nil_r, beq_refl. cbn [andb].
    apply Nat.eqb_neq. cbn [length] in Hl. lia.
  - destruct (cut t) as [a' r']. apply pair_equal_spec in Ec. destruct Ec as [Ea Er]. subst a.
    assert (beq (K_consStates ++ c :: a') K_consStates = false) as ->; [|reflexivity].
    apply beq_false. intros X. rewrite <- (app_nil_r K_consStates) in X at 2.
    apply app_inv_head in X. discriminate.
Qed.

(** * what each iteration callback does with each kind of entry *)

Ltac seq3 H := destruct H as [->|[->| ->]].

Lemma f_client_wf s k v : wf_entry s k v ->
  f_client (k, v) = Skip \/
  exists name, noslash name /\ k = cs_key name /\ f_client (k, v) = Emit (name, v).
Proof.
  intros H. destruct H as [v|v|name v Hr|name v ty Hn Hd|name rev h v Hn Hrev Hh Hd
                           |name rk v csv ty Hn Hl Hd Hm|fam a b n v Hf Ha Hb Hn Hv|a b n Ha Hb Hn|a b v|a b v];
    try (left; reflexivity).
  - right. exists name. split; [exact Hn|]. split; [reflexivity|].
    unfold f_client, cs_key. change (has_prefix K_clients (client_prefix name ++ K_clientState)) with true.
    cbn [negb]. rewrite splitn3_client by exact Hn. rewrite beq_refl. cbn [negb]. rewrite Hd. reflexivity.
  - left. unfold f_client, cons_key. change (has_prefix K_clients (client_prefix name ++ cons_rkey rev h)) with true.
    cbn [negb]. rewrite splitn3_client by exact Hn. reflexivity.
  - left. unfold f_client. change (has_prefix K_clients (client_prefix name ++ rk)) with true.
    cbn [negb]. rewrite splitn3_client by exact Hn.
    destruct (beq rk K_clientState) eqn:E; [|reflexivity].
    apply beq_spec in E. subst rk. rewrite meta_sel_client_state in Hm. discriminate.
  - seq3 Hf; left; reflexivity.
Qed.

Lemma f_cons_wf s k v : wf_entry s k v ->
  f_cons (k, v) = Skip \/
  exists name rev h, noslash name /\ rev < two64 /\ h < two64 /\ k = cons_key name rev h /\
                     f_cons (k, v) = Emit (name, rev, h, v).
Proof.
  intros H. destruct H as [v|v|name v Hr|name v ty Hn Hd|name rev h v Hn Hrev Hh Hd
                           |name rk v csv ty Hn Hl Hd Hm|fam a b n v Hf Ha Hb Hn Hv|a b n Ha Hb Hn|a b v|a b v];
    try (left; reflexivity).
  - left. unfold f_cons, cs_key. change (has_prefix K_clients (client_prefix name ++ K_clientState)) with true.
    cbn [negb]. rewrite splitn4_client by exact Hn.
    rewrite cut_noslash by apply noslash_lit. reflexivity.
  - right. exists name, rev, h. repeat (split; [assumption|]). split; [reflexivity|].
    unfold f_cons, cons_key. change (has_prefix K_clients (client_prefix name ++ cons_rkey rev h)) with true.
    cbn [negb]. rewrite splitn4_client by exact Hn. unfold cons_rkey.
    rewrite cut_app by apply noslash_lit. rewrite beq_refl, length_height_bytes. cbn [Nat.eqb andb].
    rewrite Hd, firstn_height_bytes, skipn_height_bytes, !be_val_be64 by assumption. reflexivity.
  - left. unfold f_cons. change (has_prefix K_clients (client_prefix name ++ rk)) with true.
    cbn [negb]. rewrite splitn4_client by exact Hn.
    destruct (cut rk) as [x [rest|]] eqn:Ec; [|reflexivity].
    rewrite (meta_not_cons ty rk x rest Hm Ec). reflexivity.
  - seq3 Hf; left; reflexivity.
Qed.

Lemma f_relayer_wf s k v : wf_entry s k v ->
  f_relayer (k, v) = Skip \/
  exists name, k = relayer_key name /\ f_relayer (k, v) = Emit (name, v).
Proof.
  intros H. destruct H as [v|v|name v Hr|name v ty Hn Hd|name rev h v Hn Hrev Hh Hd
                           |name rk v csv ty Hn Hl Hd Hm|fam a b n v Hf Ha Hb Hn Hv|a b n Ha Hb Hn|a b v|a b v];
    try (left; reflexivity).
  - right. exists name. split; [reflexivity|]. unfold f_relayer, relayer_key.
    rewrite has_prefix_app. cbn [negb]. rewrite Hr. reflexivity.
  - seq3 Hf; left; reflexivity.
Qed.

Lemma has_prefix_seq_key fam a b n : has_prefix fam (seq_key fam a b n) = true.
Proof. rewrite seq_key_form. apply has_prefix_app. Qed.

Lemma f_hash_wf s F k v : seq_fam F -> wf_entry s k v ->
  f_hash F (k, v) = Skip \/
  exists a b n, noslash a /\ noslash b /\ n < two64 /\ k = seq_key F a b n /\
                (F = K_receipt -> v = receipt_value) /\ f_hash F (k, v) = Emit (a, b, n, v).
Proof.
  intros HF H. destruct H as [v|v|name v Hr|name v ty Hn Hd|name rev h v Hn Hrev Hh Hd
                           |name rk v csv ty Hn Hl Hd Hm|fam a b n v Hf Ha Hb Hn Hv|a b n Ha Hb Hn|a b v|a b v];
    try (seq3 HF; left; reflexivity).
  assert (D : forall f, seq_fam f -> f_hash f (seq_key f a b n, v) = Emit (a, b, n, v)).
  { intros f Hff. unfold f_hash. rewrite has_prefix_seq_key. cbn [negb].
    rewrite split_seq_key by (first [assumption | apply seq_fam_noslash; assumption]).
    cbn [length Nat.ltb Nat.leb last nth]. rewrite parse_uint_dec by exact Hn. reflexivity. }
  seq3 HF; seq3 Hf; try (left; reflexivity);
    right; exists a, b, n; repeat (split; [assumption|]); (split; [reflexivity|]);
    (split; [first [exact Hv | intros X; exfalso; revert X; clear; intros X; apply beq_spec in X; vm_compute in X; discriminate]|]);
    apply D; unfold seq_fam; tauto.
Qed.

Definition send_fam (f : bytes) : Prop := f = K_nextsend \/ f = K_nextrecv \/ f = K_nextack.

Lemma f_seq_wf s F k v : send_fam F -> wf_entry s k v ->
  f_seq F (k, v) = Skip \/
  exists a b n, noslash a /\ noslash b /\ n < two64 /\ F = K_nextsend /\ k = next_send_key a b /\
                v = be64 n /\ f_seq F (k, v) = Emit (a, b, n).
Proof.
  intros HF H. destruct H as [v|v|name v Hr|name v ty Hn Hd|name rev h v Hn Hrev Hh Hd
                           |name rk v csv ty Hn Hl Hd Hm|fam a b n v Hf Ha Hb Hn Hv|a b n Ha Hb Hn|a b v|a b v];
    try (seq3 HF; left; reflexivity).
  - seq3 HF; seq3 Hf; left; reflexivity.
  - seq3 HF; try (left; reflexivity).
    right. exists a, b, n. repeat (split; [assumption|]). repeat (split; [reflexivity|]).
    unfold f_seq, next_send_key. change (has_prefix K_nextsend (path [K_nextsend; a; b])) with true.
    cbn [negb]. rewrite split_pair_key by (try apply noslash_of_string_consts; assumption).
    cbn [length Nat.ltb Nat.leb nth]. rewrite be_to_u64_be64 by exact Hn. reflexivity.
Qed.
