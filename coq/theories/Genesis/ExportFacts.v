(** Facts about genesis export / import (Genesis/Export.v): which writes the
    import performs for a well-formed store, and what the re-imported store
    therefore answers for every key. *)
From Tibc Require Import Base.Bytes Base.BytesFacts Base.FMap Host.Keys Host.KeysFacts
  Packet.Types Packet.Keeper Packet.U64 Genesis.Export.
From Coq Require Import ZArith ZifyN ZifyNat ZifyBool.
Ltac Zify.zify_post_hook ::= Z.div_mod_to_equations.

(** * generic list / map lemmas *)

Lemma lookup_in (m : store) k v : lookup k m = Some v -> In (k, v) m.
Proof.
  induction m as [|[k' v'] m IH]; simpl; [discriminate|].
  destruct (beq k k') eqn:E.
  - intros X. inversion X; subst. apply beq_spec in E. subst. left. reflexivity.
  - intros X. right. apply IH. exact X.
Qed.

Lemma lookup_none_notin (m : store) k : lookup k m = None -> forall v, ~ In (k, v) m.
Proof.
  induction m as [|[k' v'] m IH]; simpl; intros H v; [tauto|].
  destruct (beq k k') eqn:E; [discriminate|].
  intros [X|X].
  - inversion X; subst. rewrite beq_refl in E. discriminate.
  - eapply IH; eauto.
Qed.

Lemma in_lookup_nodup (m : store) k v :
  NoDup (map fst m) -> In (k, v) m -> lookup k m = Some v.
Proof.
  induction m as [|[k' v'] m IH]; simpl; intros ND H; [tauto|].
  inversion ND as [|? ? Hn ND']; subst.
  destruct H as [H|H].
  - inversion H; subst. rewrite beq_refl. reflexivity.
  - destruct (beq k k') eqn:E.
    + apply beq_spec in E. subst. exfalso. apply Hn.
      change k' with (fst (k', v)). apply in_map. exact H.
    + apply IH; assumption.
Qed.

(** the result of a sequence of writes *)
Lemma apply_writes_notin w : forall (st : store) k,
  (forall v, ~ In (k, v) w) -> lookup k (apply_writes w st) = lookup k st.
Proof.
  unfold apply_writes. induction w as [|[k' v'] w IH]; intros st k H; simpl; [reflexivity|].
  rewrite IH.
  - apply lookup_set_neq. intros ->. apply (H v'). left. reflexivity.
  - intros v X. apply (H v). right. exact X.
Qed.

Lemma apply_writes_in w : forall (st : store) k v,
  In (k, v) w -> (forall v', In (k, v') w -> v' = v) ->
  lookup k (apply_writes w st) = Some v.
Proof.
  unfold apply_writes. induction w as [|[k' v'] w IH]; intros st k v Hin Hf; simpl; [destruct Hin|].
  destruct (in_dec (fun a b : bytes * bytes =>
                      match bytes_eq_dec (fst a) (fst b), bytes_eq_dec (snd a) (snd b) with
                      | left e1, left e2 => left (match a, b return fst a = fst b -> snd a = snd b -> a = b with
                                                  | (a1, a2), (b1, b2) => fun e1 e2 => f_equal2 pair e1 e2 end e1 e2)
                      | right n, _ => right (fun E => n (f_equal fst E))
                      | _, right n => right (fun E => n (f_equal snd E))
                      end) (k, v) w) as [Hw|Hw].
  - apply IH; [exact Hw|]. intros v'' X. apply Hf. right. exact X.
  - destruct Hin as [E|E]; [|contradiction]. inversion E; subst.
    fold (apply_writes w (set k v st)). rewrite apply_writes_notin.
    + apply lookup_set_eq.
    + intros v'' X. assert (v'' = v) by (apply Hf; right; exact X). subst. contradiction.
Qed.

(** [collect] without panics and early exits is a filter-map *)
Lemma collect_spec {X} (f : bytes * bytes -> res X) (s : store) :
  (forall e, In e s -> f e = Skip \/ exists x, f e = Emit x) ->
  exists l, collect f s = Some l /\
            forall x, In x l <-> exists e, In e s /\ f e = Emit x.
Proof.
  induction s as [|e s IH]; intros H.
  - exists []. split; [reflexivity|]. intros x. split; [intros []|intros [e [[] _]]].
  - destruct IH as [l [Hl Hs]]; [intros e' He'; apply H; right; exact He'|].
    cbn [collect]. destruct (H e (or_introl eq_refl)) as [E|[x E]]; rewrite E.
    + exists l. split; [exact Hl|]. intros y. rewrite Hs. split.
      * intros [e' [A B]]. exists e'. split; [right; exact A | exact B].
      * intros [e' [[A|A] B]]; [subst; congruence | exists e'; auto].
    + rewrite Hl. exists (x :: l). split; [reflexivity|]. intros y. cbn [In]. rewrite Hs. split.
      * intros [A|[e' [A B]]]; [subst; exists e; split; [left; reflexivity | exact E] | exists e'; split; [right; exact A | exact B]].
      * intros [e' [[A|A] B]]; [subst; left; congruence | right; exists e'; auto].
Qed.

(** * string helpers *)

Lemma cut_app a r : noslash a -> cut (a ++ slash :: r) = (a, Some r).
Proof.
  induction a as [|c a IH]; intros H; cbn [app cut].
  - rewrite N.eqb_refl. reflexivity.
  - destruct (N.eqb c slash) eqn:E.
    + apply N.eqb_eq in E. exfalso. apply H. left. exact E.
    + rewrite IH; [reflexivity|]. intros X. apply H. right. exact X.
Qed.

Lemma cut_noslash a : noslash a -> cut a = (a, None).
Proof.
  induction a as [|c a IH]; intros H; cbn [cut]; [reflexivity|].
  destruct (N.eqb c slash) eqn:E.
  - apply N.eqb_eq in E. exfalso. apply H. left. exact E.
  - rewrite IH; [reflexivity|]. intros X. apply H. right. exact X.
Qed.

(** a separator-free literal in front is carried through *)
Lemma cut_app_lit l t : noslash l -> cut (l ++ t) = (l ++ fst (cut t), snd (cut t)).
Proof.
  induction l as [|c l IH]; intros H; cbn [app].
  - destruct (cut t). reflexivity.
  - cbn [cut]. destruct (N.eqb c slash) eqn:E.
    + apply N.eqb_eq in E. exfalso. apply H. left. exact E.
    + rewrite IH; [reflexivity|]. intros X. apply H. right. exact X.
Qed.

Lemma has_prefix_skipn p k : has_prefix p k = true -> k = p ++ skipn (length p) k.
Proof.
  revert k; induction p as [|x p IH]; intros k H; [reflexivity|].
  destruct k as [|y k]; [discriminate|]. cbn [has_prefix] in H.
  apply andb_true_iff in H. destruct H as [E H]. apply N.eqb_eq in E. subst y.
  cbn [length skipn app]. f_equal. apply IH. exact H.
Qed.

Lemma strip_some p k rk : strip p k = Some rk -> k = p ++ rk.
Proof.
  unfold strip. destruct (has_prefix p k) eqn:E; [|discriminate].
  intros X. inversion X. apply has_prefix_skipn. exact E.
Qed.

Lemma strip_app p rk : strip p (p ++ rk) = Some rk.
Proof.
  unfold strip. rewrite has_prefix_app. f_equal.
  induction p as [|x p IH]; [reflexivity | exact IH].
Qed.

Lemma strip_none p k : has_prefix p k = false -> strip p k = None.
Proof. unfold strip. intros ->. reflexivity. Qed.

(** * numbers *)

Lemma length_be_aux w : forall n acc, length (be_aux w n acc) = (w + length acc)%nat.
Proof.
  induction w as [|w IH]; intros n acc; cbn [be_aux]; [reflexivity|].
  rewrite IH. cbn [length]. lia.
Qed.

Lemma length_be64 n : length (be64 n) = 8%nat.
Proof. unfold be64. rewrite length_be_aux. reflexivity. Qed.

Lemma length_height_bytes rev h : length (height_bytes rev h) = 16%nat.
Proof. unfold height_bytes. rewrite app_length, !length_be64. reflexivity. Qed.

Lemma firstn_height_bytes rev h : firstn 8 (height_bytes rev h) = be64 rev.
Proof.
  unfold height_bytes. rewrite <- (length_be64 rev) at 1.
  rewrite firstn_app, Nat.sub_diag, firstn_all. cbn [firstn]. apply app_nil_r.
Qed.

Lemma skipn_height_bytes rev h : skipn 8 (height_bytes rev h) = be64 h.
Proof.
  unfold height_bytes. rewrite <- (length_be64 rev) at 1.
  rewrite skipn_app, Nat.sub_diag, skipn_all. reflexivity.
Qed.

Lemma be_val_be64 n : n < two64 -> be_val (be64 n) = n.
Proof. intros H. exact (u64_of_be64 n H). Qed.

Lemma forallb_digits l : Forall is_digit l -> forallb is_digitb l = true.
Proof.
  induction 1 as [|d l Hd _ IH]; [reflexivity|]. cbn [forallb]. rewrite IH.
  unfold is_digit in Hd. unfold is_digitb. lia.
Qed.

Lemma parse_uint_dec n : n < two64 -> parse_uint (dec n) = Some n.
Proof.
  intros H. unfold parse_uint.
  destruct (dec n) as [|c l] eqn:E; [exfalso; eapply dec_nonempty; eauto|].
  rewrite <- E. rewrite forallb_digits by apply dec_digits.
  change (fold_left (fun a d : N => 10 * a + (d - 48)) (dec n) 0) with (dval (dec n)).
  rewrite dec_val by (apply u64_lt_dec_bound; unfold two64, u64max in *; lia).
  assert (n <=? u64max = true) as -> by (unfold two64, u64max in *; lia). reflexivity.
Qed.

Lemma be_to_u64_be64 n : n < two64 -> be_to_u64 (be64 n) = Some n.
Proof.
  intros H. unfold be_to_u64.
  destruct (be64 n) as [|c l] eqn:E.
  - pose proof (length_be64 n) as L. rewrite E in L. discriminate.
  - rewrite <- E. rewrite length_be64. cbn [Nat.leb].
    rewrite <- (length_be64 n) at 1. rewrite firstn_all. f_equal. apply be_val_be64. exact H.
Qed.

(** * well-formed stores: every key is built by one of the protocol's key
      builders from '/'-free names and uint64 heights / sequences *)

Definition K_clean_slash := K_clean ++ [slash].
Definition K_maxack_slash := K_maxack ++ [slash].

(** the keys the genesis format has a place for *)
Definition covered (k : bytes) : bool :=
  negb (beq k K_chainName) && negb (beq k K_rules) &&
  negb (has_prefix K_clean_slash k) && negb (has_prefix K_maxack_slash k).

Definition seq_fam (f : bytes) : Prop := f = K_ack \/ f = K_commit \/ f = K_receipt.

Definition meta_sel (ty : ctype) (rk : bytes) : bool := meta_pass1 ty rk || meta_pass2 ty rk.

Inductive wf_entry (s : store) : bytes -> bytes -> Prop :=
| WE_chain v : wf_entry s K_chainName v
| WE_rules v : wf_entry s K_rules v
| WE_relayer name v : relayer_name v = Some name -> wf_entry s (relayer_key name) v
| WE_client name v ty : noslash name -> dec_cs v = Some ty -> wf_entry s (cs_key name) v
| WE_cons name rev h v :
    noslash name -> rev < two64 -> h < two64 -> dec_cons v = true ->
    wf_entry s (cons_key name rev h) v
| WE_meta name rk v csv ty :
    noslash name -> lookup (cs_key name) s = Some csv -> dec_cs csv = Some ty ->
    meta_sel ty rk = true -> wf_entry s (client_prefix name ++ rk) v
| WE_seq fam a b n v :
    seq_fam fam -> noslash a -> noslash b -> n < two64 ->
    (fam = K_receipt -> v = receipt_value) -> wf_entry s (seq_key fam a b n) v
| WE_send a b n : noslash a -> noslash b -> n < two64 -> wf_entry s (next_send_key a b) (be64 n)
| WE_clean a b v : wf_entry s (clean_key a b) v
| WE_maxack a b v : wf_entry s (maxack_key a b) v.

Definition wf_store (s : store) : Prop :=
  NoDup (map fst s) /\ forall k v, In (k, v) s -> wf_entry s k v.

(** * shapes of the keys *)

Lemma noslash_lit :
  noslash K_clients /\ noslash K_consStates /\ noslash K_iterate /\ noslash K_recentSingers /\
  noslash K_pendingValidators /\ noslash K_ethHeaderIndex /\ noslash K_ethRootMain /\
  noslash K_clientState /\ noslash K_relayers.
Proof. unfold noslash. repeat split; rewrite <- contains_false; vm_compute; reflexivity. Qed.

Lemma client_key_form name rk :
  client_prefix name ++ rk = K_clients ++ slash :: name ++ slash :: rk.
Proof.
  unfold client_prefix. rewrite <- app_assoc. cbn [app]. rewrite <- app_assoc. reflexivity.
Qed.

Lemma splitn3_client name rk : noslash name ->
  splitn3 (client_prefix name ++ rk) = Some (K_clients, name, rk).
Proof.
  intros Hn. rewrite client_key_form. unfold splitn3.
  rewrite cut_app by apply noslash_lit. rewrite cut_app by exact Hn. reflexivity.
Qed.

Lemma splitn4_client name rk : noslash name ->
  splitn4 (client_prefix name ++ rk) =
  match cut rk with (x, Some rest) => Some (K_clients, name, x, rest) | _ => None end.
Proof.
  intros Hn. rewrite client_key_form. unfold splitn4.
  rewrite cut_app by apply noslash_lit. rewrite cut_app by exact Hn.
  destruct (cut rk) as [x [rest|]]; reflexivity.
Qed.

Lemma strip_client name name' rk : noslash name -> noslash name' ->
  strip (client_prefix name') (client_prefix name ++ rk) =
  if beq name' name then Some rk else None.
Proof.
  intros Hn Hn'. destruct (beq name' name) eqn:E.
  - apply beq_spec in E. subst. apply strip_app.
  - apply strip_none. destruct (has_prefix _ _) eqn:P; [|reflexivity].
    apply has_prefix_spec in P. destruct P as [t P].
    rewrite !client_key_form in P. apply app_inv_head in P. inversion P as [P'].
    apply join2_inj in P'; [|exact Hn|exact Hn'].
    destruct P' as [-> _]. rewrite beq_refl in E. discriminate.
Qed.

Lemma strip_client_other name k :
  has_prefix K_clients k = false -> strip (client_prefix name) k = None.
Proof.
  intros H. apply strip_none. destruct (has_prefix (client_prefix name) k) eqn:P; [|reflexivity].
  apply has_prefix_spec in P. destruct P as [t ->].
  rewrite client_key_form in H. rewrite has_prefix_app in H. discriminate.
Qed.

Lemma seq_key_form fam a b n :
  seq_key fam a b n = fam ++ slash :: a ++ slash :: b ++ slash :: K_sequences ++ slash :: dec n.
Proof. reflexivity. Qed.

Lemma split_seq_key fam a b n : noslash fam -> noslash a -> noslash b ->
  split slash (seq_key fam a b n) = [fam; a; b; K_sequences; dec n].
Proof.
  intros Hf Ha Hb. unfold seq_key, path. apply split_join; [discriminate|].
  repeat constructor; try assumption; try apply noslash_of_string_consts. apply dec_noslash.
Qed.

Lemma split_pair_key fam a b : noslash fam -> noslash a -> noslash b ->
  split slash (path [fam; a; b]) = [fam; a; b].
Proof.
  intros Hf Ha Hb. unfold path. apply split_join; [discriminate|]. repeat constructor; assumption.
Qed.

Lemma seq_fam_noslash fam : seq_fam fam -> noslash fam.
Proof.
  pose proof noslash_of_string_consts as (A & B & C & D & E & F & G).
  intros [->|[->| ->]]; assumption.
Qed.

(** [meta_sel] never selects the client-state key or a consensus-state key *)
Lemma meta_sel_client_state ty : meta_sel ty K_clientState = false.
Proof. destruct ty; vm_compute; reflexivity. Qed.

Lemma length_cons_rkey rev h : length (cons_rkey rev h) = 32%nat.
Proof.
  unfold cons_rkey. rewrite app_length. cbn [length]. rewrite length_height_bytes. reflexivity.
Qed.

Lemma meta_sel_cons ty rev h : meta_sel ty (cons_rkey rev h) = false.
Proof.
  unfold meta_sel. destruct ty; cbn [meta_pass1 meta_pass2]; unfold tm_processed;
    try rewrite length_cons_rkey; reflexivity.
Qed.

(** what [meta_sel] selects is never mistaken for a consensus-state key *)
Lemma cut_lit_ne l t x rest : noslash l ->
  cut (l ++ t) = (x, Some rest) -> exists a, x = l ++ a.
Proof.
  intros Hl H. rewrite cut_app_lit in H by exact Hl. inversion H. eexists. reflexivity.
Qed.

Lemma meta_not_cons ty rk x rest :
  meta_sel ty rk = true -> cut rk = (x, Some rest) ->
  beq x K_consStates && Nat.eqb (length rest) 16 = false.
Proof.
  intros Hm Hc. unfold meta_sel in Hm. apply orb_true_iff in Hm.
  assert (G : forall l, noslash l -> has_prefix l rk = true ->
              (forall a, beq (l ++ a) K_consStates = false) -> beq x K_consStates = false).
  { intros l Hl Hp Hne. apply has_prefix_spec in Hp. destruct Hp as [t ->].
    destruct (cut_lit_ne _ _ _ _ Hl Hc) as [a ->]. apply Hne. }
  pose proof noslash_lit as (N1 & N2 & N3 & N4 & N5 & N6 & N7 & N8 & N9).
  destruct ty; cbn [meta_pass1 meta_pass2] in Hm; destruct Hm as [Hm|Hm];
    try (erewrite G; [reflexivity | | exact Hm | intros a; reflexivity]; assumption).
  (* Tendermint processed-time key: consensusStates ++ 31 bytes *)
  unfold tm_processed in Hm. apply andb_true_iff in Hm. destruct Hm as [Hm _].
  apply andb_true_iff in Hm. destruct Hm as [Hp Hl]. apply Nat.eqb_eq in Hl.
  apply has_prefix_spec in Hp. destruct Hp as [t ->].
  rewrite cut_app_lit in Hc by exact N2.
  rewrite app_length in Hl. change (length K_consStates) with 15%nat in Hl.
  change (length K_processedTime) with 14%nat in Hl.
  destruct (cut t) as [a r] eqn:Ec. cbn [fst snd] in Hc.
  apply pair_equal_spec in Hc. destruct Hc as [Hx Hr]. subst x r.
  destruct t as [|c t]; [cbn in Ec; discriminate|].
  cbn [cut] in Ec. destruct (N.eqb c slash) eqn:E.
  - apply pair_equal_spec in Ec. destruct Ec as [Ea Er]. subst a. inversion Er; subst rest.
    rewrite app_nil_r, beq_refl. cbn [andb].
    apply Nat.eqb_neq. cbn [length] in Hl. lia.
  - destruct (cut t) as [a' r']. apply pair_equal_spec in Ec. destruct Ec as [Ea Er]. subst a.
    assert (beq (K_consStates ++ c :: a') K_consStates = false) as ->; [|reflexivity].
    apply beq_false. intros X. rewrite <- (app_nil_r K_consStates) in X at 2.
    apply app_inv_head in X. discriminate.
Qed.

(** * what each iteration callback does with each kind of entry *)

Ltac seq3 H := destruct H as [->|[->| ->]].

Lemma f_client_cs name v ty : noslash name -> dec_cs v = Some ty ->
  f_client (cs_key name, v) = Emit (name, v).
Proof.
  intros Hn Hd.
  unfold f_client, cs_key. change (has_prefix K_clients (client_prefix name ++ K_clientState)) with true.
  cbn [negb]. rewrite splitn3_client by exact Hn. rewrite beq_refl. cbn [negb]. rewrite Hd. reflexivity.
Qed.

Lemma f_cons_cons name rev h v : noslash name -> rev < two64 -> h < two64 -> dec_cons v = true ->
  f_cons (cons_key name rev h, v) = Emit (name, rev, h, v).
Proof.
  intros Hn Hrev Hh Hd.
  unfold f_cons, cons_key. change (has_prefix K_clients (client_prefix name ++ cons_rkey rev h)) with true.
  cbn [negb]. rewrite splitn4_client by exact Hn. unfold cons_rkey.
  rewrite cut_app by apply noslash_lit. rewrite beq_refl, length_height_bytes. cbn [Nat.eqb andb].
  rewrite Hd, firstn_height_bytes, skipn_height_bytes, !be_val_be64 by assumption. reflexivity.
Qed.

Lemma f_relayer_rel name v : relayer_name v = Some name ->
  f_relayer (relayer_key name, v) = Emit (name, v).
Proof.
  intros Hr. unfold f_relayer, relayer_key.
  rewrite has_prefix_app. cbn [negb]. rewrite Hr. reflexivity.
Qed.

Lemma has_prefix_seq_key fam a b n : has_prefix fam (seq_key fam a b n) = true.
Proof. rewrite seq_key_form. apply has_prefix_app. Qed.

Lemma f_hash_seq f a b n v : seq_fam f -> noslash a -> noslash b -> n < two64 ->
  f_hash f (seq_key f a b n, v) = Emit (a, b, n, v).
Proof.
  intros Hff Ha Hb Hn. unfold f_hash. rewrite has_prefix_seq_key. cbn [negb].
  rewrite split_seq_key by (first [assumption | apply seq_fam_noslash; assumption]).
  cbn [length Nat.ltb Nat.leb last nth]. rewrite parse_uint_dec by exact Hn. reflexivity.
Qed.

Lemma f_seq_send a b n : noslash a -> noslash b -> n < two64 ->
  f_seq K_nextsend (next_send_key a b, be64 n) = Emit (a, b, n).
Proof.
  intros Ha Hb Hn.
  unfold f_seq, next_send_key. change (has_prefix K_nextsend (path [K_nextsend; a; b])) with true.
  cbn [negb]. rewrite split_pair_key by (try apply noslash_of_string_consts; assumption).
  cbn [length Nat.ltb Nat.leb nth]. rewrite be_to_u64_be64 by exact Hn. reflexivity.
Qed.

Lemma f_client_wf s k v : wf_entry s k v ->
  f_client (k, v) = Skip \/
  exists name, noslash name /\ k = cs_key name /\ f_client (k, v) = Emit (name, v).
Proof.
  intros H. destruct H as [v|v|name v Hr|name v ty Hn Hd|name rev h v Hn Hrev Hh Hd
                           |name rk v csv ty Hn Hl Hd Hm|fam a b n v Hf Ha Hb Hn Hv|a b n Ha Hb Hn|a b v|a b v];
    try (left; reflexivity).
  - right. exists name. split; [exact Hn|]. split; [reflexivity|]. eapply f_client_cs; eassumption.
  - left. unfold f_client, cons_key. change (has_prefix K_clients (client_prefix name ++ cons_rkey rev h)) with true.
    cbn [negb]. rewrite splitn3_client by exact Hn. reflexivity.
  - left. unfold f_client. change (has_prefix K_clients (client_prefix name ++ rk)) with true.
    cbn [negb]. rewrite splitn3_client by exact Hn.
    destruct (beq rk K_clientState) eqn:E; [|reflexivity].
    apply beq_spec in E. subst rk. rewrite meta_sel_client_state in Hm. discriminate.
  - seq3 Hf; left; reflexivity.
Qed.

Lemma f_cons_wf s k v : wf_entry s k v ->
  f_cons (k, v) = Skip \/
  exists name rev h, noslash name /\ rev < two64 /\ h < two64 /\ k = cons_key name rev h /\
                     f_cons (k, v) = Emit (name, rev, h, v).
Proof.
  intros H. destruct H as [v|v|name v Hr|name v ty Hn Hd|name rev h v Hn Hrev Hh Hd
                           |name rk v csv ty Hn Hl Hd Hm|fam a b n v Hf Ha Hb Hn Hv|a b n Ha Hb Hn|a b v|a b v];
    try (left; reflexivity).
  - left. unfold f_cons, cs_key. change (has_prefix K_clients (client_prefix name ++ K_clientState)) with true.
    cbn [negb]. rewrite splitn4_client by exact Hn.
    rewrite cut_noslash by apply noslash_lit. reflexivity.
  - right. exists name, rev, h. repeat (split; [assumption|]). split; [reflexivity|].
    apply f_cons_cons; assumption.
  - left. unfold f_cons. change (has_prefix K_clients (client_prefix name ++ rk)) with true.
    cbn [negb]. rewrite splitn4_client by exact Hn.
    destruct (cut rk) as [x [rest|]] eqn:Ec; [|reflexivity].
    rewrite (meta_not_cons ty rk x rest Hm Ec). reflexivity.
  - seq3 Hf; left; reflexivity.
Qed.

Lemma f_relayer_wf s k v : wf_entry s k v ->
  f_relayer (k, v) = Skip \/
  exists name, k = relayer_key name /\ f_relayer (k, v) = Emit (name, v).
Proof.
  intros H. destruct H as [v|v|name v Hr|name v ty Hn Hd|name rev h v Hn Hrev Hh Hd
                           |name rk v csv ty Hn Hl Hd Hm|fam a b n v Hf Ha Hb Hn Hv|a b n Ha Hb Hn|a b v|a b v];
    try (left; reflexivity).
  - right. exists name. split; [reflexivity|]. apply f_relayer_rel. exact Hr.
  - seq3 Hf; left; reflexivity.
Qed.

Lemma f_hash_wf s F k v : seq_fam F -> wf_entry s k v ->
  f_hash F (k, v) = Skip \/
  exists a b n, noslash a /\ noslash b /\ n < two64 /\ k = seq_key F a b n /\
                (F = K_receipt -> v = receipt_value) /\ f_hash F (k, v) = Emit (a, b, n, v).
Proof.
  intros HF H. destruct H as [v|v|name v Hr|name v ty Hn Hd|name rev h v Hn Hrev Hh Hd
                           |name rk v csv ty Hn Hl Hd Hm|fam a b n v Hf Ha Hb Hn Hv|a b n Ha Hb Hn|a b v|a b v];
    try (seq3 HF; left; reflexivity).
  assert (D : forall f, seq_fam f -> f_hash f (seq_key f a b n, v) = Emit (a, b, n, v)).
  { intros f Hff. apply f_hash_seq; assumption. }
  seq3 HF; seq3 Hf; try (left; reflexivity);
    right; exists a, b, n; repeat (split; [assumption|]); (split; [reflexivity|]);
    (split; [first [exact Hv | intros X; exfalso; revert X; clear; intros X; apply beq_spec in X; vm_compute in X; discriminate]|]);
    apply D; unfold seq_fam; tauto.
Qed.

Definition send_fam (f : bytes) : Prop := f = K_nextsend \/ f = K_nextrecv \/ f = K_nextack.

Lemma f_seq_wf s F k v : send_fam F -> wf_entry s k v ->
  f_seq F (k, v) = Skip \/
  exists a b n, noslash a /\ noslash b /\ n < two64 /\ F = K_nextsend /\ k = next_send_key a b /\
                v = be64 n /\ f_seq F (k, v) = Emit (a, b, n).
Proof.
  intros HF H. destruct H as [v|v|name v Hr|name v ty Hn Hd|name rev h v Hn Hrev Hh Hd
                           |name rk v csv ty Hn Hl Hd Hm|fam a b n v Hf Ha Hb Hn Hv|a b n Ha Hb Hn|a b v|a b v];
    try (seq3 HF; left; reflexivity).
  - seq3 HF; seq3 Hf; left; reflexivity.
  - seq3 HF; try (left; reflexivity).
    right. exists a, b, n. repeat (split; [assumption|]). repeat (split; [reflexivity|]).
    apply f_seq_send; assumption.
Qed.

(** * coverage of the key kinds *)

Lemma covered_client name rk : covered (client_prefix name ++ rk) = true.
Proof. reflexivity. Qed.
Lemma covered_relayer name : covered (relayer_key name) = true.
Proof. reflexivity. Qed.
Lemma covered_seq F a b n : seq_fam F -> covered (seq_key F a b n) = true.
Proof. intros H. seq3 H; reflexivity. Qed.
Lemma covered_send a b : covered (next_send_key a b) = true.
Proof. reflexivity. Qed.
Lemma covered_clean a b : covered (clean_key a b) = false.
Proof. reflexivity. Qed.
Lemma covered_maxack a b : covered (maxack_key a b) = false.
Proof. reflexivity. Qed.

(** * metadata *)

Lemma in_meta_pass sel name s rk v :
  In (rk, v) (meta_pass sel name s) <-> In (client_prefix name ++ rk, v) s /\ sel rk = true.
Proof.
  unfold meta_pass. rewrite in_flat_map. split.
  - intros [[k0 v0] [He Hin]]. cbn [fst snd] in Hin.
    destruct (strip (client_prefix name) k0) as [rk0|] eqn:Es; [|destruct Hin].
    destruct (sel rk0) eqn:Esel; [|destruct Hin].
    destruct Hin as [X|[]]. inversion X; subst rk0 v0.
    apply strip_some in Es. subst k0. split; assumption.
  - intros [He Hsel]. exists (client_prefix name ++ rk, v). split; [exact He|].
    cbn [fst snd]. rewrite strip_app, Hsel. left. reflexivity.
Qed.

Lemma in_meta_of ty name s rk v :
  In (rk, v) (meta_of ty name s) <-> In (client_prefix name ++ rk, v) s /\ meta_sel ty rk = true.
Proof.
  unfold meta_of, meta_sel. rewrite in_app_iff, !in_meta_pass, orb_true_iff. tauto.
Qed.

Definition meta_write (name : bytes) (kv : bytes * bytes) : bytes * bytes :=
  (client_prefix name ++ fst kv, snd kv).

Lemma in_all_meta cls s k v :
  In (k, v) (flat_map (fun nm : bytes * list (bytes * bytes) => map (meta_write (fst nm)) (snd nm)) (all_meta cls s)) <->
  exists name csv ty rk, In (name, csv) cls /\ dec_cs csv = Some ty /\
                         k = client_prefix name ++ rk /\ In (rk, v) (meta_of ty name s).
Proof.
  rewrite in_flat_map. split.
  - intros [[name m] [Hnm Hin]]. cbn [fst snd] in Hin.
    unfold all_meta in Hnm. apply in_flat_map in Hnm. destruct Hnm as [[name' csv] [Hc Hnm]].
    cbn [fst snd] in Hnm. destruct (dec_cs csv) as [ty|] eqn:Ed; [|destruct Hnm].
    destruct (meta_of ty name' s) as [|x l] eqn:Em; [destruct Hnm|].
    destruct Hnm as [X|[]]. inversion X; subst name m.
    apply in_map_iff in Hin. destruct Hin as [[rk v'] [Ew Hin]].
    unfold meta_write in Ew. cbn [fst snd] in Ew. inversion Ew; subst k v'.
    exists name', csv, ty, rk. rewrite Em. auto.
  - intros (name & csv & ty & rk & Hc & Hd & -> & Hin).
    exists (name, meta_of ty name s). split.
    + unfold all_meta. apply in_flat_map. exists (name, csv). split; [exact Hc|].
      cbn [fst snd]. rewrite Hd. destruct (meta_of ty name s); [destruct Hin | left; reflexivity].
    + cbn [fst snd]. apply in_map_iff. exists (rk, v). split; [reflexivity | exact Hin].
Qed.

(** * the writes of the import, for a well-formed store *)

Theorem export_writes (s : store) : wf_store s ->
  exists g, export s = Some g /\
    forall k v, In (k, v) (writes g) <->
      (k = K_chainName /\ v = chain_name_of s) \/
      (k = K_rules /\ v = rules_value (lookup K_rules s)) \/
      (In (k, v) s /\ covered k = true).
Proof.
  intros [ND WF].
  destruct (collect_spec f_client s) as [cls [Ecls Hcls]].
  { intros [k v] He. destruct (f_client_wf s k v (WF k v He)) as [->|[n [_ [_ ->]]]]; eauto. }
  destruct (collect_spec f_cons s) as [cns [Ecns Hcns]].
  { intros [k v] He. destruct (f_cons_wf s k v (WF k v He)) as [->|(n & r & h & _ & _ & _ & _ & ->)]; eauto. }
  destruct (collect_spec f_relayer s) as [rel [Erel Hrel]].
  { intros [k v] He. destruct (f_relayer_wf s k v (WF k v He)) as [->|(n & _ & ->)]; eauto. }
  assert (HT : forall F, seq_fam F -> exists l, collect (f_hash F) s = Some l /\
                 forall x, In x l <-> exists e, In e s /\ f_hash F e = Emit x).
  { intros F HF. apply collect_spec. intros [k v] He.
    destruct (f_hash_wf s F k v HF (WF k v He)) as [->|(a & b & n & _ & _ & _ & _ & _ & ->)]; eauto. }
  destruct (HT K_ack) as [acks [Eacks Hacks]]; [unfold seq_fam; tauto|].
  destruct (HT K_commit) as [cms [Ecms Hcms]]; [unfold seq_fam; tauto|].
  destruct (HT K_receipt) as [rcs [Ercs Hrcs]]; [unfold seq_fam; tauto|]. clear HT.
  assert (HT : forall F, send_fam F -> exists l, collect (f_seq F) s = Some l /\
                 forall x, In x l <-> exists e, In e s /\ f_seq F e = Emit x).
  { intros F HF. apply collect_spec. intros [k v] He.
    destruct (f_seq_wf s F k v HF (WF k v He)) as [->|(a & b & n & _ & _ & _ & _ & _ & _ & ->)]; eauto. }
  destruct (HT K_nextsend) as [ss [Ess Hss]]; [unfold send_fam; tauto|].
  destruct (HT K_nextrecv) as [rs [Ers _]]; [unfold send_fam; tauto|].
  destruct (HT K_nextack) as [as_ [Eas _]]; [unfold send_fam; tauto|]. clear HT.
  exists (mkG (mkCG cls (all_meta cls s) cns (chain_name_of s) rel) (mkPG acks cms rcs ss rs as_) (lookup K_rules s)).
  split.
  { unfold export, export_client, export_packet.
    rewrite Ecls, Ecns, Erel, Eacks, Ecms, Ercs, Ess, Ers, Eas. reflexivity. }
  intros k v. unfold writes, client_writes, packet_writes.
  cbn [g_client g_packet g_rules g_meta g_clients g_cons g_relayers g_chain g_acks g_commits g_receipts g_sendseqs].
  change (fun nm : bytes * list (bytes * bytes) =>
            map (fun kv : bytes * bytes => (client_prefix (fst nm) ++ fst kv, snd kv)) (snd nm))
    with (fun nm : bytes * list (bytes * bytes) => map (meta_write (fst nm)) (snd nm)).
  rewrite !in_app_iff. cbn [In].
  split.
  - intros [[Hmeta|[Hcs|[Hcons|[Hr|[Hchain|[]]]]]] | [[Hack|[Hcm|[Hrc|Hs]]] | [Hrules|[]]]].
    + (* metadata *)
      right; right. apply in_all_meta in Hmeta.
      destruct Hmeta as (name & csv & ty & rk & _ & _ & -> & Hin).
      apply in_meta_of in Hin. split; [tauto | apply covered_client].
    + (* client states *)
      right; right. apply in_map_iff in Hcs. destruct Hcs as [[name v'] [Ew Hin]].
      cbn [fst snd] in Ew. inversion Ew; subst k v'. clear Ew.
      apply Hcls in Hin. destruct Hin as [[k0 v0] [He Hf]].
      destruct (f_client_wf s k0 v0 (WF k0 v0 He)) as [X|(n & _ & -> & X)]; rewrite X in Hf; [discriminate|].
      inversion Hf; subst. split; [exact He | apply covered_client].
    + (* consensus states *)
      right; right. apply in_map_iff in Hcons. destruct Hcons as [[[[name rev] h] v'] [Ew Hin]].
      inversion Ew; subst k v'. clear Ew.
      apply Hcns in Hin. destruct Hin as [[k0 v0] [He Hf]].
      destruct (f_cons_wf s k0 v0 (WF k0 v0 He)) as [X|(n & r & hh & _ & _ & _ & -> & X)]; rewrite X in Hf; [discriminate|].
      inversion Hf; subst. split; [exact He | apply covered_client].
    + (* relayers *)
      right; right. apply in_map_iff in Hr. destruct Hr as [[name v'] [Ew Hin]].
      cbn [fst snd] in Ew. inversion Ew; subst k v'. clear Ew.
      apply Hrel in Hin. destruct Hin as [[k0 v0] [He Hf]].
      destruct (f_relayer_wf s k0 v0 (WF k0 v0 He)) as [X|(n & -> & X)]; rewrite X in Hf; [discriminate|].
      inversion Hf; subst. split; [exact He | apply covered_relayer].
    + left. inversion Hchain. auto.
    + (* acknowledgements *)
      right; right. apply in_map_iff in Hack. destruct Hack as [[[[a b] n] v'] [Ew Hin]].
      inversion Ew; subst k v'. clear Ew.
      apply Hacks in Hin. destruct Hin as [[k0 v0] [He Hf]].
      destruct (f_hash_wf s K_ack k0 v0 (or_introl eq_refl) (WF k0 v0 He)) as [X|(a' & b' & n' & _ & _ & _ & -> & _ & X)];
        rewrite X in Hf; [discriminate|].
      inversion Hf; subst. split; [exact He | apply covered_seq; unfold seq_fam; tauto].
    + (* commitments *)
      right; right. apply in_map_iff in Hcm. destruct Hcm as [[[[a b] n] v'] [Ew Hin]].
      inversion Ew; subst k v'. clear Ew.
      apply Hcms in Hin. destruct Hin as [[k0 v0] [He Hf]].
      destruct (f_hash_wf s K_commit k0 v0 (or_intror (or_introl eq_refl)) (WF k0 v0 He)) as [X|(a' & b' & n' & _ & _ & _ & -> & _ & X)];
        rewrite X in Hf; [discriminate|].
      inversion Hf; subst. split; [exact He | apply covered_seq; unfold seq_fam; tauto].
    + (* receipts *)
      right; right. apply in_map_iff in Hrc. destruct Hrc as [[[[a b] n] v'] [Ew Hin]].
      inversion Ew; subst k v. clear Ew.
      apply Hrcs in Hin. destruct Hin as [[k0 v0] [He Hf]].
      destruct (f_hash_wf s K_receipt k0 v0 (or_intror (or_intror eq_refl)) (WF k0 v0 He)) as [X|(a' & b' & n' & _ & _ & _ & -> & Hv & X)];
        rewrite X in Hf; [discriminate|].
      inversion Hf; subst. rewrite <- (Hv eq_refl). split; [exact He | apply covered_seq; unfold seq_fam; tauto].
    + (* send sequences *)
      right; right. apply in_map_iff in Hs. destruct Hs as [[[a b] n] [Ew Hin]].
      inversion Ew; subst k v. clear Ew.
      apply Hss in Hin. destruct Hin as [[k0 v0] [He Hf]].
      destruct (f_seq_wf s K_nextsend k0 v0 (or_introl eq_refl) (WF k0 v0 He)) as [X|(a' & b' & n' & _ & _ & _ & _ & -> & -> & X)];
        rewrite X in Hf; [discriminate|].
      inversion Hf; subst. split; [exact He | apply covered_send].
    + right; left. inversion Hrules. auto.
  - intros [[-> ->]|[[-> ->]|[He Hc]]].
    + left. do 4 right. left. reflexivity.
    + right. right. left. reflexivity.
    + pose proof (WF k v He) as Hw.
      destruct Hw as [v|v|name v Hr|name v ty Hn Hd|name rev h v Hn Hrev Hh Hd
                      |name rk v csv ty Hn Hl Hd Hm|fam a b n v Hf Ha Hb Hn Hv|a b n Ha Hb Hn|a b v|a b v];
        try (vm_compute in Hc; discriminate).
      * (* relayer *)
        left. do 3 right. left. apply in_map_iff. exists (name, v). split; [reflexivity|].
        apply Hrel. exists (relayer_key name, v). split; [exact He | apply f_relayer_rel; exact Hr].
      * (* client state *)
        left. right. left. apply in_map_iff. exists (name, v). split; [reflexivity|].
        apply Hcls. exists (cs_key name, v). split; [exact He | eapply f_client_cs; eassumption].
      * (* consensus state *)
        left. do 2 right. left. apply in_map_iff. exists (name, rev, h, v). split; [reflexivity|].
        apply Hcns. exists (cons_key name rev h, v). split; [exact He | apply f_cons_cons; assumption].
      * (* metadata *)
        left. left. apply in_all_meta. exists name, csv, ty, rk.
        split; [|split; [exact Hd|split; [reflexivity|]]].
        -- apply Hcls. exists (cs_key name, csv). split; [apply lookup_in; exact Hl | eapply f_client_cs; eassumption].
        -- apply in_meta_of. split; assumption.
      * (* acks / commitments / receipts *)
        right. left. seq3 Hf.
        -- left. apply in_map_iff. exists (a, b, n, v). split; [reflexivity|].
           apply Hacks. exists (seq_key K_ack a b n, v). split; [exact He | apply f_hash_seq; unfold seq_fam; tauto].
        -- right. left. apply in_map_iff. exists (a, b, n, v). split; [reflexivity|].
           apply Hcms. exists (seq_key K_commit a b n, v). split; [exact He | apply f_hash_seq; unfold seq_fam; tauto].
        -- right. right. left. apply in_map_iff. exists (a, b, n, v). split; [rewrite (Hv eq_refl); reflexivity|].
           apply Hrcs. exists (seq_key K_receipt a b n, v). split; [exact He | apply f_hash_seq; unfold seq_fam; tauto].
      * (* send sequence *)
        right. left. do 3 right. apply in_map_iff. exists (a, b, n). split; [reflexivity|].
        apply Hss. exists (next_send_key a b, be64 n). split; [exact He | apply f_seq_send; assumption].
Qed.

(** * the re-imported store, key by key *)

(** what the store of a chain started from the export of [s] holds under [k] *)
Definition expected (s : store) (k : bytes) : option bytes :=
  if beq k K_chainName then Some (chain_name_of s)
  else if beq k K_rules then Some (rules_value (lookup K_rules s))
  else if covered k then lookup k s else None.

Lemma covered_chain : covered K_chainName = false.
Proof. reflexivity. Qed.
Lemma covered_rules : covered K_rules = false.
Proof. reflexivity. Qed.

Theorem roundtrip (s : store) : wf_store s ->
  exists g, export s = Some g /\ forall k, lookup k (import g) = expected s k.
Proof.
  intros WF. destruct (export_writes s WF) as [g [Eg Hw]]. destruct WF as [ND WF].
  exists g. split; [exact Eg|]. intros k. unfold import, expected.
  destruct (beq k K_chainName) eqn:E1.
  { apply beq_spec in E1. subst k. apply apply_writes_in.
    - apply Hw. left. split; reflexivity.
    - intros v' Hv'. apply Hw in Hv'. destruct Hv' as [[_ ->]|[[X _]|[_ X]]]; [reflexivity| |].
      + apply beq_spec in X. vm_compute in X. discriminate.
      + rewrite covered_chain in X. discriminate. }
  destruct (beq k K_rules) eqn:E2.
  { apply beq_spec in E2. subst k. apply apply_writes_in.
    - apply Hw. right. left. split; reflexivity.
    - intros v' Hv'. apply Hw in Hv'. destruct Hv' as [[X _]|[[_ ->]|[_ X]]]; [|reflexivity|].
      + apply beq_spec in X. vm_compute in X. discriminate.
      + rewrite covered_rules in X. discriminate. }
  apply beq_false in E1, E2.
  destruct (covered k) eqn:Ec.
  - destruct (lookup k s) as [v|] eqn:El.
    + apply apply_writes_in.
      * apply Hw. right. right. split; [apply lookup_in; exact El | exact Ec].
      * intros v' Hv'. apply Hw in Hv'. destruct Hv' as [[X _]|[[X _]|[X _]]]; try contradiction.
        apply (in_lookup_nodup s k v' ND) in X. congruence.
    + rewrite apply_writes_notin; [reflexivity|].
      intros v' Hv'. apply Hw in Hv'. destruct Hv' as [[X _]|[[X _]|[X _]]]; try contradiction.
      eapply lookup_none_notin; eauto.
  - rewrite apply_writes_notin; [reflexivity|].
    intros v' Hv'. apply Hw in Hv'. destruct Hv' as [[X _]|[[X _]|[_ X]]]; try contradiction. congruence.
Qed.

(** the per-family readings of [expected] *)
Lemma expected_client_store s name rk : expected s (client_prefix name ++ rk) = lookup (client_prefix name ++ rk) s.
Proof. reflexivity. Qed.
Lemma expected_relayer s name : expected s (relayer_key name) = lookup (relayer_key name) s.
Proof. reflexivity. Qed.
Lemma expected_seq s F a b n : seq_fam F -> expected s (seq_key F a b n) = lookup (seq_key F a b n) s.
Proof. intros H. seq3 H; reflexivity. Qed.
Lemma expected_send s a b : expected s (next_send_key a b) = lookup (next_send_key a b) s.
Proof. reflexivity. Qed.
Lemma expected_clean s a b : expected s (clean_key a b) = None.
Proof. reflexivity. Qed.
Lemma expected_maxack s a b : expected s (maxack_key a b) = None.
Proof. reflexivity. Qed.

(** * corollaries in the form used by Properties/C16.v *)

Lemma roundtrip_lookup s g k : wf_store s -> export s = Some g -> lookup k (import g) = expected s k.
Proof.
  intros WF Eg. destruct (roundtrip s WF) as [g' [Eg' H]]. rewrite Eg in Eg'. inversion Eg'; subst g'. apply H.
Qed.

Lemma export_total s : wf_store s -> exists g, export s = Some g.
Proof. intros WF. destruct (roundtrip s WF) as [g [Eg _]]. eauto. Qed.

Lemma client_store_survives s g name rk : wf_store s -> export s = Some g ->
  lookup (client_prefix name ++ rk) (import g) = lookup (client_prefix name ++ rk) s.
Proof. intros WF Eg. rewrite (roundtrip_lookup s g _ WF Eg). apply expected_client_store. Qed.

Lemma consensus_state_survives s g name rev h : wf_store s -> export s = Some g ->
  lookup (cons_key name rev h) (import g) = lookup (cons_key name rev h) s.
Proof. intros WF Eg. apply client_store_survives; assumption. Qed.

Lemma client_state_survives s g name : wf_store s -> export s = Some g ->
  lookup (cs_key name) (import g) = lookup (cs_key name) s.
Proof. intros WF Eg. apply client_store_survives; assumption. Qed.

Lemma packet_families_survive s g a b n : wf_store s -> export s = Some g ->
  lookup (commit_key a b n) (import g) = lookup (commit_key a b n) s /\
  lookup (receipt_key a b n) (import g) = lookup (receipt_key a b n) s /\
  lookup (ack_key a b n) (import g) = lookup (ack_key a b n) s /\
  lookup (next_send_key a b) (import g) = lookup (next_send_key a b) s.
Proof.
  intros WF Eg. rewrite !(roundtrip_lookup s g _ WF Eg). repeat split; reflexivity.
Qed.

Lemma registry_survives s g name : wf_store s -> export s = Some g ->
  lookup (relayer_key name) (import g) = lookup (relayer_key name) s /\
  lookup K_chainName (import g) = Some (chain_name_of s) /\
  lookup K_rules (import g) = Some (rules_value (lookup K_rules s)).
Proof.
  intros WF Eg. rewrite !(roundtrip_lookup s g _ WF Eg). repeat split; reflexivity.
Qed.

Lemma nothing_else_appears s g k v : wf_store s -> export s = Some g ->
  lookup k (import g) = Some v -> k = K_chainName \/ k = K_rules \/ lookup k s = Some v.
Proof.
  intros WF Eg. rewrite (roundtrip_lookup s g _ WF Eg). unfold expected.
  destruct (beq k K_chainName) eqn:E1; [apply beq_spec in E1; auto|].
  destruct (beq k K_rules) eqn:E2; [apply beq_spec in E2; auto|].
  destruct (covered k); [auto | discriminate].
Qed.

Lemma uncovered_never_survive s g a b : wf_store s -> export s = Some g ->
  lookup (clean_key a b) (import g) = None /\ lookup (maxack_key a b) (import g) = None.
Proof. intros WF Eg. rewrite !(roundtrip_lookup s g _ WF Eg). split; reflexivity. Qed.
