(** Genesis export and re-import of the tibc store, as coded in
      modules/tibc/core/genesis.go
      02-client/genesis.go + keeper/keeper.go (IterateClients after d40f6f3, IterateConsensusStates
        after 54dca89, GetAllClientMetadata / SetAllClientMetadata, GetAllRelayers, chain name)
      07-tendermint/types/{genesis,store}.go (ExportMetadata after 315e0c7, IterateProcessedTime)
      08-bsc / 09-eth ExportMetadata
      04-packet/genesis.go + keeper.go (iterateHashes, IteratePacketSequence)
      26-routing/genesis.go.

    The store is the list of (key, value) byte pairs of the "tibc" KVStore in
    iteration order (ascending keys in the implementation; the harness feeds
    sorted dumps).  Keys are the real byte keys.  Values are the real bytes;
    protobuf is modelled only as far as the code depends on it:
      - an Any is recognised by its type URL (first length-delimited field),
        MustUnmarshalClientState / MustUnmarshalConsensusState panic unless the
        URL is that of a registered client / consensus state type;
      - IdentifiedRelayers carries its chain name as first field and the import
        key is rebuilt from it;
      - decoding followed by re-encoding of a value is the identity (canonical
        protobuf / JSON encodings; checked value by value by the harness).
    A panic of the Go code is [None]. Not modelled: the order of the genesis
    lists (sort.Sort by chain name, grouping of consensus states per client):
    the imported store does not depend on it unless two list elements write the
    same key, which the well-formedness condition of the theorems excludes. *)
From Tibc Require Import Base.Bytes Base.FMap Host.Keys.

Definition store := fmap bytes.

(** * literals *)
Definition K_clients := of_string "clients".
Definition K_clientState := of_string "clientState".
Definition K_consStates := of_string "consensusStates".
Definition K_processedTime := of_string "/processedTime".
Definition K_iterate := of_string "iterateConsensusStates".
Definition K_recentSingers := of_string "recentSingers".
Definition K_pendingValidators := of_string "pendingValidators".
Definition K_ethHeaderIndex := of_string "ethHeaderIndex".
Definition K_ethRootMain := of_string "ethRootMain".
Definition K_relayers := of_string "relayers".
Definition K_chainName := of_string "chainName".
Definition K_rules := of_string "Routing/Rules".
Definition K_nextrecv := of_string "nextSequenceRecv".
Definition K_nextack := of_string "nextSequenceAck".

Definition URL_tm_cs := of_string "/tibc.lightclients.tendermint.v1.ClientState".
Definition URL_tm_cons := of_string "/tibc.lightclients.tendermint.v1.ConsensusState".
Definition URL_bsc_cs := of_string "/tibc.lightclients.bsc.v1.ClientState".
Definition URL_bsc_cons := of_string "/tibc.lightclients.bsc.v1.ConsensusState".
Definition URL_eth_cs := of_string "/tibc.lightclients.eth.v1.ClientState".
Definition URL_eth_cons := of_string "/tibc.lightclients.eth.v1.ConsensusState".

(** * small string / number helpers *)

(** text before the first '/', and the text after it if there is one *)
Fixpoint cut (s : bytes) : bytes * option bytes :=
  match s with
  | [] => ([], None)
  | c :: s' => if N.eqb c slash then ([], Some s')
               else let '(a, r) := cut s' in (c :: a, r)
  end.

(** strings.SplitN(s, "/", 4) when it yields four parts *)
Definition splitn4 (s : bytes) : option (bytes * bytes * bytes * bytes) :=
  match cut s with
  | (a, Some r1) =>
      match cut r1 with
      | (b, Some r2) =>
          match cut r2 with
          | (c, Some rest) => Some (a, b, c, rest)
          | _ => None
          end
      | _ => None
      end
  | _ => None
  end.

Definition has_suffix (suf s : bytes) : bool :=
  Nat.leb (length suf) (length s) && beq (skipn (length s - length suf) s) suf.

Definition is_digitb (c : N) : bool := (48 <=? c) && (c <=? 57).

(** strconv.ParseUint(s, 10, 64) *)
Definition parse_uint (s : bytes) : option N :=
  match s with
  | [] => None
  | _ => if forallb is_digitb s
         then let v := fold_left (fun a d => 10 * a + (d - 48)) s 0 in
              if v <=? u64max then Some v else None
         else None
  end.

Definition be_val (b : bytes) : N := fold_left (fun a x => a * 256 + x) b 0.

(** sdk.BigEndianToUint64: 0 for an empty slice, panic for 1..7 bytes *)
Definition be_to_u64 (v : bytes) : option N :=
  match v with
  | [] => Some 0
  | _ => if Nat.leb 8 (length v) then Some (be_val (firstn 8 v)) else None
  end.

(** protobuf: base-128 varint, and the payload of a leading length-delimited field 1 *)
Fixpoint varint (fuel : nat) (s : bytes) : option (N * bytes) :=
  match fuel, s with
  | S f, c :: r =>
      if c <? 128 then Some (c, r)
      else match varint f r with
           | Some (n, r') => Some ((c - 128) + 128 * n, r')
           | None => None
           end
  | _, _ => None
  end.

Definition pb_field1 (v : bytes) : option bytes :=
  match v with
  | t :: r =>
      if N.eqb t 10 then
        match varint 10 r with
        | Some (n, r') => if Nat.leb (N.to_nat n) (length r') then Some (firstn (N.to_nat n) r') else None
        | None => None
        end
      else None
  | [] => None
  end.

Inductive ctype := TM | BSC | ETH.

(** MustUnmarshalClientState: the client type, or a panic *)
Definition dec_cs (v : bytes) : option ctype :=
  match pb_field1 v with
  | Some u => if beq u URL_tm_cs then Some TM
              else if beq u URL_bsc_cs then Some BSC
              else if beq u URL_eth_cs then Some ETH else None
  | None => None
  end.

(** MustUnmarshalConsensusState succeeds *)
Definition dec_cons (v : bytes) : bool :=
  match pb_field1 v with
  | Some u => beq u URL_tm_cons || beq u URL_bsc_cons || beq u URL_eth_cons
  | None => false
  end.

(** one protobuf field: number, wire type, payload (wire type 2), remaining bytes *)
Definition pb_field (s : bytes) : option (N * N * bytes * bytes) :=
  match varint 10 s with
  | Some (t, r) =>
      let fn := t / 8 in
      let wt := t mod 8 in
      if N.eqb fn 0 then None
      else if N.eqb wt 0 then
        match varint 10 r with Some (_, r') => Some (fn, wt, [], r') | None => None end
      else if N.eqb wt 1 then
        if Nat.leb 8 (length r) then Some (fn, wt, [], skipn 8 r) else None
      else if N.eqb wt 2 then
        match varint 10 r with
        | Some (n, r') =>
            if Nat.leb (N.to_nat n) (length r')
            then Some (fn, wt, firstn (N.to_nat n) r', skipn (N.to_nat n) r') else None
        | None => None
        end
      else if N.eqb wt 5 then
        if Nat.leb 4 (length r) then Some (fn, wt, [], skipn 4 r) else None
      else None
  | None => None
  end.

(** cdc.MustUnmarshal(value, &IdentifiedRelayers): the chain name (field 1, a
    string; field 2 are the relayer addresses; unknown fields are skipped; a
    malformed message panics) *)
Fixpoint relayer_scan (fuel : nat) (s name : bytes) : option bytes :=
  match fuel with
  | O => None
  | S f =>
      match s with
      | [] => Some name
      | _ =>
          match pb_field s with
          | Some (fn, wt, pl, r) =>
              if N.eqb fn 1 then (if N.eqb wt 2 then relayer_scan f r pl else None)
              else if N.eqb fn 2 then (if N.eqb wt 2 then relayer_scan f r name else None)
              else relayer_scan f r name
          | None => None
          end
      end
  end.
Definition relayer_name (v : bytes) : option bytes := relayer_scan (S (length v)) v [].

(** * key builders of the client sub-stores *)
Definition client_prefix (name : bytes) : bytes := K_clients ++ slash :: name ++ [slash].
Definition cs_key (name : bytes) : bytes := client_prefix name ++ K_clientState.
Definition height_bytes (rev h : N) : bytes := be64 rev ++ be64 h.
Definition cons_rkey (rev h : N) : bytes := K_consStates ++ slash :: height_bytes rev h.
Definition cons_key (name : bytes) (rev h : N) : bytes := client_prefix name ++ cons_rkey rev h.
Definition relayer_key (name : bytes) : bytes := K_relayers ++ name.

(** * the genesis state *)
Record cgenesis := mkCG {
  g_clients : list (bytes * bytes);                  (* chain name, client state *)
  g_meta : list (bytes * list (bytes * bytes));      (* chain name, metadata (key, value) *)
  g_cons : list (bytes * N * N * bytes);             (* chain name, revision, height, consensus state *)
  g_chain : bytes;
  g_relayers : list (bytes * bytes) }.               (* IdentifiedRelayers.ChainName, the message *)

Record pgenesis := mkPG {
  g_acks : list (bytes * bytes * N * bytes);
  g_commits : list (bytes * bytes * N * bytes);
  g_receipts : list (bytes * bytes * N * bytes);
  g_sendseqs : list (bytes * bytes * N);
  g_recvseqs : list (bytes * bytes * N);             (* exported, never imported *)
  g_ackseqs : list (bytes * bytes * N) }.

Record genesis := mkG { g_client : cgenesis; g_packet : pgenesis; g_rules : option bytes }.

(** * iteration with the callbacks' possible outcomes *)
Inductive res (X : Type) := Skip | Emit (x : X) | Panic | Stop.
Arguments Skip {X}. Arguments Emit {X} x. Arguments Panic {X}. Arguments Stop {X}.

Fixpoint collect {X} (f : bytes * bytes -> res X) (s : store) : option (list X) :=
  match s with
  | [] => Some []
  | e :: s' =>
      match f e with
      | Skip => collect f s'
      | Emit x => option_map (cons x) (collect f s')
      | Panic => None
      | Stop => Some []
      end
  end.

(** * 02-client *)

(** IterateClients (after d40f6f3): prefix iterator over "clients";
    strings.SplitN(key, "/", 3) must give three parts, the third being exactly
    "clientState"; the second is the chain name *)
Definition splitn3 (s : bytes) : option (bytes * bytes * bytes) :=
  match cut s with
  | (a, Some r1) =>
      match cut r1 with
      | (b, Some rest) => Some (a, b, rest)
      | _ => None
      end
  | _ => None
  end.

Definition f_client (e : bytes * bytes) : res (bytes * bytes) :=
  let '(k, v) := e in
  if negb (has_prefix K_clients k) then Skip else
  match splitn3 k with
  | Some (_, name, rest) =>
      if negb (beq rest K_clientState) then Skip else
      match dec_cs v with
      | None => Panic
      | Some _ => Emit (name, v)
      end
  | None => Skip
  end.

(** IterateConsensusStates (after 54dca89): SplitN(key, "/", 4), third part
    "consensusStates", fourth part exactly 16 bytes taken by position *)
Definition f_cons (e : bytes * bytes) : res (bytes * N * N * bytes) :=
  let '(k, v) := e in
  if negb (has_prefix K_clients k) then Skip else
  match splitn4 k with
  | Some (_, name, x, rest) =>
      if beq x K_consStates && Nat.eqb (length rest) 16 then
        if dec_cons v then Emit (name, be_val (firstn 8 rest), be_val (skipn 8 rest), v) else Panic
      else Skip
  | None => Skip
  end.

(** ExportMetadata of the three client types over the client-prefixed store:
    two prefix passes each *)
Definition strip (p k : bytes) : option bytes :=
  if has_prefix p k then Some (skipn (length p) k) else None.

Definition tm_processed (rk : bytes) : bool :=
  has_prefix K_consStates rk &&
  Nat.eqb (length rk) (length K_consStates + 1 + 16 + length K_processedTime) &&
  has_suffix K_processedTime rk.

Definition meta_pass1 (ty : ctype) (rk : bytes) : bool :=
  match ty with
  | TM => tm_processed rk
  | BSC => has_prefix K_recentSingers rk
  | ETH => has_prefix K_ethHeaderIndex rk
  end.
Definition meta_pass2 (ty : ctype) (rk : bytes) : bool :=
  match ty with
  | TM => has_prefix K_iterate rk
  | BSC => has_prefix K_pendingValidators rk
  | ETH => has_prefix K_ethRootMain rk
  end.

Definition meta_pass (sel : bytes -> bool) (name : bytes) (s : store) : list (bytes * bytes) :=
  flat_map (fun e : bytes * bytes =>
              match strip (client_prefix name) (fst e) with
              | Some rk => if sel rk then [(rk, snd e)] else []
              | None => []
              end) s.

Definition meta_of (ty : ctype) (name : bytes) (s : store) : list (bytes * bytes) :=
  meta_pass (meta_pass1 ty) name s ++ meta_pass (meta_pass2 ty) name s.

(** GetAllClientMetadata over the exported clients *)
Definition all_meta (clients : list (bytes * bytes)) (s : store) : list (bytes * list (bytes * bytes)) :=
  flat_map (fun c : bytes * bytes =>
              match dec_cs (snd c) with
              | Some ty => match meta_of ty (fst c) s with
                           | [] => []
                           | m => [(fst c, m)]
                           end
              | None => []
              end) clients.

(** GetAllRelayers: prefix iterator over "relayers" *)
Definition f_relayer (e : bytes * bytes) : res (bytes * bytes) :=
  let '(k, v) := e in
  if negb (has_prefix K_relayers k) then Skip else
  match relayer_name v with
  | Some n => Emit (n, v)
  | None => Panic
  end.

Definition chain_name_of (s : store) : bytes :=
  match lookup K_chainName s with Some v => v | None => [] end.

Definition export_client (s : store) : option cgenesis :=
  match collect f_client s with
  | None => None
  | Some cls =>
      match collect f_cons s with
      | None => None
      | Some cns =>
          match collect f_relayer s with
          | None => None
          | Some rel => Some (mkCG cls (all_meta cls s) cns (chain_name_of s) rel)
          end
      end
  end.

(** * 04-packet *)

(** iterateHashes: keySplit[1], keySplit[2], ParseUint(keySplit[len-1]) *)
Definition f_hash (fam : bytes) (e : bytes * bytes) : res (bytes * bytes * N * bytes) :=
  let '(k, v) := e in
  if negb (has_prefix fam k) then Skip else
  let parts := split slash k in
  if Nat.ltb (length parts) 3 then Panic else
  match parse_uint (last parts []) with
  | Some n => Emit (nth 1 parts [], nth 2 parts [], n, v)
  | None => Panic
  end.

(** IteratePacketSequence: ParseChannelPath error ends the iteration *)
Definition f_seq (fam : bytes) (e : bytes * bytes) : res (bytes * bytes * N) :=
  let '(k, v) := e in
  if negb (has_prefix fam k) then Skip else
  let parts := split slash k in
  if Nat.ltb (length parts) 3 then Stop else
  match be_to_u64 v with
  | Some n => Emit (nth 1 parts [], nth 2 parts [], n)
  | None => Panic
  end.

Definition export_packet (s : store) : option pgenesis :=
  match collect (f_hash K_ack) s, collect (f_hash K_commit) s, collect (f_hash K_receipt) s,
        collect (f_seq K_nextsend) s, collect (f_seq K_nextrecv) s, collect (f_seq K_nextack) s with
  | Some a, Some c, Some r, Some ss, Some rs, Some as_ => Some (mkPG a c r ss rs as_)
  | _, _, _, _, _, _ => None
  end.

(** * export of the whole module *)
Definition export (s : store) : option genesis :=
  match export_client s, export_packet s with
  | Some cg, Some pg => Some (mkG cg pg (lookup K_rules s))
  | _, _ => None
  end.

(** * import: the store writes of InitGenesis in program order *)
Definition client_writes (g : cgenesis) : list (bytes * bytes) :=
  flat_map (fun nm : bytes * list (bytes * bytes) =>
              map (fun kv : bytes * bytes => (client_prefix (fst nm) ++ fst kv, snd kv)) (snd nm)) (g_meta g)
  ++ map (fun c : bytes * bytes => (cs_key (fst c), snd c)) (g_clients g)
  ++ map (fun c : bytes * N * N * bytes =>
            let '(name, rev, h, v) := c in (cons_key name rev h, v)) (g_cons g)
  ++ map (fun r : bytes * bytes => (relayer_key (fst r), snd r)) (g_relayers g)
  ++ [(K_chainName, g_chain g)].

Definition receipt_value : bytes := [1].

Definition packet_writes (g : pgenesis) : list (bytes * bytes) :=
  map (fun x : bytes * bytes * N * bytes => let '(a, b, n, v) := x in (ack_key a b n, v)) (g_acks g)
  ++ map (fun x : bytes * bytes * N * bytes => let '(a, b, n, v) := x in (commit_key a b n, v)) (g_commits g)
  ++ map (fun x : bytes * bytes * N * bytes => let '(a, b, n, _) := x in (receipt_key a b n, receipt_value)) (g_receipts g)
  ++ map (fun x : bytes * bytes * N => let '(a, b, n) := x in (next_send_key a b, be64 n)) (g_sendseqs g).

(** SetRoutingRules(gs.Rules) re-marshals the list with encoding/json; an empty
    or absent list comes back from the genesis JSON as an empty list *)
Definition rules_empty : bytes := of_string "[]".
Definition rules_value (r : option bytes) : bytes :=
  match r with
  | Some v => if beq v (of_string "null") then rules_empty else v
  | None => rules_empty
  end.

Definition writes (g : genesis) : list (bytes * bytes) :=
  client_writes (g_client g) ++ packet_writes (g_packet g) ++ [(K_rules, rules_value (g_rules g))].

Definition apply_writes (w : list (bytes * bytes)) (st : store) : store :=
  fold_left (fun m kv => set (fst kv) (snd kv) m) w st.

Definition import (g : genesis) : store := apply_writes (writes g) [].

(** the store of a fresh chain started from the exported state of [s];
    [None] when the export panics *)
Definition reimport (s : store) : option store := option_map import (export s).

(** * the packet sub-module alone (the store of Packet/Keeper.v holds the packet
      families only) *)
Definition import_packet (g : pgenesis) : store := apply_writes (packet_writes g) [].
Definition pkt_reimport (kv : store) : store :=
  match export_packet kv with
  | Some g => import_packet g
  | None => kv
  end.

(** * the transfer applications: modules/tibc/apps/{nft,mt}_transfer/moudle.go
      implement no genesis; a fresh chain starts with empty application stores *)
Definition app_reimport (s : store) : store := [].
