(** Behaviour after re-import, on the packet model (Packet/Keeper.v): the packet
    sub-module's export / import applied to a chain's packet store, extensionality
    of every packet operation in the store, and the two consequences:
    - if the store holds only the exported families, every later history gives
      the same results and the same store on the original and the re-imported chain;
    - a clean point is lost and a cleaned packet is accepted again. *)
From Tibc Require Import Base.Bytes Base.BytesFacts Base.FMap Host.Keys Host.KeysFacts
  Routing.Rules Packet.Types Packet.Keeper Packet.U64 Genesis.Export Genesis.ExportFacts.
From Coq Require Import ZArith ZifyN ZifyNat ZifyBool.

(** * the packet sub-module's round trip *)

Definition pcovered (k : bytes) : bool :=
  has_prefix (K_ack ++ [slash]) k || has_prefix (K_commit ++ [slash]) k ||
  has_prefix (K_receipt ++ [slash]) k || has_prefix (K_nextsend ++ [slash]) k.

Lemma pcovered_seq F a b n : seq_fam F -> pcovered (seq_key F a b n) = true.
Proof. intros H. seq3 H; reflexivity. Qed.
Lemma pcovered_send a b : pcovered (next_send_key a b) = true.
Proof. reflexivity. Qed.

Theorem export_packet_writes (s : store) : wf_store s ->
  exists pg, export_packet s = Some pg /\
    forall k v, In (k, v) (packet_writes pg) <-> In (k, v) s /\ pcovered k = true.
Proof.
  intros [ND WF].
  assert (HT : forall F, seq_fam F -> exists l, collect (f_hash F) s = Some l /\
                 forall x, In x l <-> exists e, In e s /\ f_hash F e = Emit x).
  { intros F HF. apply collect_spec. intros [k v] He.
    destruct (f_hash_wf s F k v HF (WF k v He)) as [->|(a & b & n & _ & _ & _ & _ & _ & ->)]; eauto. }
  destruct (HT K_ack) as [acks [Eacks Hacks]]; [unfold seq_fam; tauto|].
  destruct (HT K_commit) as [cms [Ecms Hcms]]; [unfold seq_fam; tauto|].
  destruct (HT K_receipt) as [rcs [Ercs Hrcs]]; [unfold seq_fam; tauto|]. clear HT.
  assert (HT : forall F, send_fam F -> exists l, collect (f_seq F) s = Some l /\
                 forall x, In x l <-> exists e, In e s /\ f_seq F e = Emit x).
  { intros F HF. apply collect_spec. intros [k v] He.
    destruct (f_seq_wf s F k v HF (WF k v He)) as [->|(a & b & n & _ & _ & _ & _ & _ & _ & ->)]; eauto. }
  destruct (HT K_nextsend) as [ss [Ess Hss]]; [unfold send_fam; tauto|].
  destruct (HT K_nextrecv) as [rs [Ers _]]; [unfold send_fam; tauto|].
  destruct (HT K_nextack) as [as_ [Eas _]]; [unfold send_fam; tauto|]. clear HT.
  exists (mkPG acks cms rcs ss rs as_). split.
  { unfold export_packet. rewrite Eacks, Ecms, Ercs, Ess, Ers, Eas. reflexivity. }
  intros k v. unfold packet_writes. cbn [g_acks g_commits g_receipts g_sendseqs].
  rewrite !in_app_iff. split.
  - intros [Hack|[Hcm|[Hrc|Hs]]].
    + apply in_map_iff in Hack. destruct Hack as [[[[a b] n] v'] [Ew Hin]].
      inversion Ew; subst k v'. clear Ew.
      apply Hacks in Hin. destruct Hin as [[k0 v0] [He Hf]].
      destruct (f_hash_wf s K_ack k0 v0 (or_introl eq_refl) (WF k0 v0 He)) as [X|(a' & b' & n' & _ & _ & _ & -> & _ & X)];
        rewrite X in Hf; [discriminate|].
      inversion Hf; subst. split; [exact He | reflexivity].
    + apply in_map_iff in Hcm. destruct Hcm as [[[[a b] n] v'] [Ew Hin]].
      inversion Ew; subst k v'. clear Ew.
      apply Hcms in Hin. destruct Hin as [[k0 v0] [He Hf]].
      destruct (f_hash_wf s K_commit k0 v0 (or_intror (or_introl eq_refl)) (WF k0 v0 He)) as [X|(a' & b' & n' & _ & _ & _ & -> & _ & X)];
        rewrite X in Hf; [discriminate|].
      inversion Hf; subst. split; [exact He | reflexivity].
    + apply in_map_iff in Hrc. destruct Hrc as [[[[a b] n] v'] [Ew Hin]].
      inversion Ew; subst k v. clear Ew.
      apply Hrcs in Hin. destruct Hin as [[k0 v0] [He Hf]].
      destruct (f_hash_wf s K_receipt k0 v0 (or_intror (or_intror eq_refl)) (WF k0 v0 He)) as [X|(a' & b' & n' & _ & _ & _ & -> & Hv & X)];
        rewrite X in Hf; [discriminate|].
      inversion Hf; subst. rewrite <- (Hv eq_refl). split; [exact He | reflexivity].
    + apply in_map_iff in Hs. destruct Hs as [[[a b] n] [Ew Hin]].
      inversion Ew; subst k v. clear Ew.
      apply Hss in Hin. destruct Hin as [[k0 v0] [He Hf]].
      destruct (f_seq_wf s K_nextsend k0 v0 (or_introl eq_refl) (WF k0 v0 He)) as [X|(a' & b' & n' & _ & _ & _ & _ & -> & -> & X)];
        rewrite X in Hf; [discriminate|].
      inversion Hf; subst. split; [exact He | reflexivity].
  - intros [He Hc]. pose proof (WF k v He) as Hw.
    destruct Hw as [v|v|name v Hr|name v ty Hn Hd|name rev h v Hn Hrev Hh Hd
                    |name rk v csv ty Hn Hl Hd Hm|fam a b n v Hf Ha Hb Hn Hv|a b n Ha Hb Hn|a b v|a b v];
      try (vm_compute in Hc; discriminate).
    + seq3 Hf.
      * left. apply in_map_iff. exists (a, b, n, v). split; [reflexivity|].
        apply Hacks. exists (seq_key K_ack a b n, v). split; [exact He | apply f_hash_seq; unfold seq_fam; tauto].
      * right. left. apply in_map_iff. exists (a, b, n, v). split; [reflexivity|].
        apply Hcms. exists (seq_key K_commit a b n, v). split; [exact He | apply f_hash_seq; unfold seq_fam; tauto].
      * right. right. left. apply in_map_iff. exists (a, b, n, v). split; [rewrite (Hv eq_refl); reflexivity|].
        apply Hrcs. exists (seq_key K_receipt a b n, v). split; [exact He | apply f_hash_seq; unfold seq_fam; tauto].
    + do 3 right. apply in_map_iff. exists (a, b, n). split; [reflexivity|].
      apply Hss. exists (next_send_key a b, be64 n). split; [exact He | apply f_seq_send; assumption].
Qed.

Theorem pkt_roundtrip (s : store) : wf_store s ->
  forall k, lookup k (pkt_reimport s) = if pcovered k then lookup k s else None.
Proof.
  intros WF k. destruct (export_packet_writes s WF) as [pg [Eg Hw]]. destruct WF as [ND WF].
  unfold pkt_reimport. rewrite Eg. unfold import_packet.
  destruct (pcovered k) eqn:Ec.
  - destruct (lookup k s) as [v|] eqn:El.
    + apply apply_writes_in.
      * apply Hw. split; [apply lookup_in; exact El | exact Ec].
      * intros v' Hv'. apply Hw in Hv'. destruct Hv' as [X _].
        apply (in_lookup_nodup s k v' ND) in X. congruence.
    + rewrite apply_writes_notin; [reflexivity|].
      intros v' Hv'. apply Hw in Hv'. destruct Hv' as [X _]. eapply lookup_none_notin; eauto.
  - rewrite apply_writes_notin; [reflexivity|].
    intros v' Hv'. apply Hw in Hv'. destruct Hv' as [_ X]. congruence.
Qed.

(** a packet store that holds only the exported families, in the form the keeper writes them *)
Inductive pkt_entry : bytes -> bytes -> Prop :=
| PE_seq fam a b n v :
    seq_fam fam -> noslash a -> noslash b -> n < two64 ->
    (fam = K_receipt -> v = receipt_value) -> pkt_entry (seq_key fam a b n) v
| PE_send a b n : noslash a -> noslash b -> n < two64 -> pkt_entry (next_send_key a b) (be64 n).

Definition exported_only (kv : store) : Prop :=
  NoDup (map fst kv) /\ forall k v, In (k, v) kv -> pkt_entry k v.

Lemma exported_only_wf kv : exported_only kv -> wf_store kv.
Proof.
  intros [ND H]. split; [exact ND|]. intros k v He. destruct (H k v He).
  - apply WE_seq; assumption.
  - apply WE_send; assumption.
Qed.

Lemma pkt_entry_pcovered k v : pkt_entry k v -> pcovered k = true.
Proof. intros []; [apply pcovered_seq; assumption | apply pcovered_send]. Qed.

Definition kv_eq (m m' : fmap bytes) : Prop := forall k, lookup k m = lookup k m'.

Theorem pkt_reimport_identity kv : exported_only kv -> kv_eq kv (pkt_reimport kv).
Proof.
  intros H k. rewrite pkt_roundtrip by (apply exported_only_wf; exact H).
  destruct (pcovered k) eqn:E; [reflexivity|].
  destruct (lookup k kv) as [v|] eqn:El; [|reflexivity].
  apply lookup_in in El. destruct H as [_ H]. apply H in El. apply pkt_entry_pcovered in El. congruence.
Qed.

(** * every packet operation depends on the store only through [lookup] *)

Lemma kv_eq_refl m : kv_eq m m.
Proof. intros k. reflexivity. Qed.

Lemma kv_eq_set m m' k v : kv_eq m m' -> kv_eq (set k v m) (set k v m').
Proof. intros H k'. rewrite !lookup_set, (H k'). reflexivity. Qed.

Lemma kv_eq_remove m m' k : kv_eq m m' -> kv_eq (remove k m) (remove k m').
Proof. intros H k'. rewrite !lookup_remove, (H k'). reflexivity. Qed.

Lemma kv_eq_del_range f cnt : forall start m m',
  kv_eq m m' -> kv_eq (del_range f start cnt m) (del_range f start cnt m').
Proof.
  induction cnt as [|c IH]; intros start m m' H; cbn [del_range]; [exact H|].
  apply IH. apply kv_eq_remove. exact H.
Qed.

Lemma kv_eq_has m m' k : kv_eq m m' -> has k m = has k m'.
Proof. intros H. unfold has. rewrite (H k). reflexivity. Qed.

Lemma kv_eq_any_range f cnt : forall start m m',
  kv_eq m m' -> any_range f start cnt m = any_range f start cnt m'.
Proof.
  induction cnt as [|c IH]; intros start m m' H; cbn [any_range]; [reflexivity|].
  rewrite (kv_eq_has m m' _ H), (IH _ m m' H). reflexivity.
Qed.

Section Ext.
Variable A : Type.
Variable H : bytes -> bytes.
Variable has_route : bytes -> bool.
Variable on_recv : A -> packet -> option (A * option bytes).
Variable on_ack : A -> packet -> bytes -> option A.

Notation chain := (chain A).
Notation with_kv := (with_kv A).
Notation c_kv := (c_kv A).
Notation exec := (exec A H has_route on_recv on_ack).
Notation step := (step A H has_route on_recv on_ack).
Notation run := (run A H has_route on_recv on_ack).
Notation run_log := (run_log A H has_route on_recv on_ack).

(** the two chains differ at most in the representation of the store *)
Definition sim (c c' : chain) : Prop :=
  exists kv', kv_eq (c_kv c) kv' /\ c' = with_kv c kv'.

Lemma sim_refl c : sim c c.
Proof. exists (c_kv c). split; [apply kv_eq_refl|]. destruct c; reflexivity. Qed.

Definition orel (r r' : option (chain * list event)) : Prop :=
  match r, r' with
  | Some (c1, e1), Some (c2, e2) => e1 = e2 /\ sim c1 c2
  | None, None => True
  | _, _ => False
  end.

Lemma set_max_ack_eq s d n m m' : kv_eq m m' -> kv_eq (set_max_ack s d n m) (set_max_ack s d n m').
Proof. intros E. unfold set_max_ack. rewrite (E (maxack_key s d)). apply kv_eq_set. exact E. Qed.

Lemma clean_acks_receipts_eq s d n m m' :
  kv_eq m m' -> kv_eq (clean_acks_receipts s d n m) (clean_acks_receipts s d n m').
Proof.
  intros E. unfold clean_acks_receipts. rewrite (E (clean_key s d)).
  apply kv_eq_del_range. apply kv_eq_del_range. exact E.
Qed.

Section One.
Variable c : chain.
Variable kv' : fmap bytes.
Hypothesis E : kv_eq (c_kv c) kv'.
Notation c' := (with_kv c kv').
Ltac prj := cbn [Keeper.c_name Keeper.c_kv Keeper.c_clients Keeper.c_rules Keeper.c_now Keeper.c_app Keeper.with_kv].

Lemma sim_with c1 m m' : kv_eq m m' -> sim (with_kv c1 m) (with_kv c1 m').
Proof. intros X. exists m'. split; [exact X|]. destruct c1; reflexivity. Qed.

Lemma with_kv_with c1 m m' : with_kv (with_kv c1 m) m' = with_kv c1 m'.
Proof. destruct c1; reflexivity. Qed.

Lemma next_send_eq s d : next_send A c' s d = next_send A c s d.
Proof. unfold next_send. prj. rewrite <- (E _). reflexivity. Qed.
Lemma clean_seq_eq s d : clean_seq A c' s d = clean_seq A c s d.
Proof. unfold clean_seq. prj. rewrite <- (E _). reflexivity. Qed.
Lemma max_ack_eq s d : max_ack A c' s d = max_ack A c s d.
Proof. unfold max_ack. prj. rewrite <- (E _). reflexivity. Qed.

Lemma validate_packet_eq p : validate_packet A c' p = validate_packet A c p.
Proof. unfold validate_packet. rewrite clean_seq_eq. prj. reflexivity. Qed.

Lemma validate_clean_eq cp : validate_clean A c' cp = validate_clean A c cp.
Proof.
  unfold validate_clean. rewrite clean_seq_eq, max_ack_eq.
  prj. rewrite (kv_eq_any_range _ _ _ _ _ E). reflexivity.
Qed.

Lemma send_packet_ext p : orel (send_packet A H c p) (send_packet A H c' p).
Proof.
  unfold send_packet. rewrite next_send_eq. prj.
  repeat match goal with |- context [if ?b then _ else _] => destruct b; [exact I|] end.
  cbn [orel]. split; [reflexivity|]. rewrite ?with_kv_with. apply sim_with.
  apply kv_eq_set. apply kv_eq_set. exact E.
Qed.

Definition rrel (r r' : rres A) : Prop :=
  match r, r' with
  | RErr _, RErr _ => True
  | RUnauth _ c1 e1, RUnauth _ c2 e2 | ROk _ c1 e1, ROk _ c2 e2 => e1 = e2 /\ sim c1 c2
  | _, _ => False
  end.

Lemma recv_packet_ext p pf h : rrel (recv_packet A H c p pf h) (recv_packet A H c' p pf h).
Proof.
  unfold recv_packet. rewrite validate_packet_eq.
  prj.
  rewrite <- (kv_eq_has _ _ _ E).
  destruct (negb (validate_packet A c p)); [exact I|].
  destruct (has _ (c_kv c)); [exact I|].
  destruct (lookup _ (c_clients A c)) as [cl|]; [|exact I].
  destruct (negb (client_active cl (c_now A c))); [exact I|].
  destruct (negb (verify cl _ h pf _ _)); [exact I|].
  destruct (beq (p_relay p) (c_name A c)).
  - destruct (negb (authenticate _ _ _ _)).
    + cbn [rrel]. split; [reflexivity|]. rewrite ?with_kv_with. apply sim_with. apply kv_eq_set. exact E.
    + destruct (negb (has (p_dst p) (c_clients A c))); [exact I|].
      cbn [rrel]. split; [reflexivity|]. rewrite ?with_kv_with. apply sim_with. apply kv_eq_set. apply kv_eq_set. exact E.
  - cbn [rrel]. split; [reflexivity|]. rewrite ?with_kv_with. apply sim_with. apply kv_eq_set. exact E.
Qed.

Lemma write_ack_ext p ack : orel (write_ack A H c p ack) (write_ack A H c' p ack).
Proof.
  unfold write_ack. prj.
  rewrite <- (kv_eq_has _ _ _ E).
  destruct (is_nil ack); [exact I|].
  destruct (has _ (c_kv c)); [exact I|].
  destruct (negb (has _ (c_clients A c))); [exact I|].
  cbn [orel]. split; [reflexivity|]. rewrite ?with_kv_with. apply sim_with.
  apply set_max_ack_eq. apply kv_eq_set. exact E.
Qed.

Lemma ack_packet_ext p ack pf h : orel (ack_packet A H c p ack pf h) (ack_packet A H c' p ack pf h).
Proof.
  unfold ack_packet. rewrite validate_packet_eq.
  prj.
  rewrite <- (E (commit_key (p_src p) (p_dst p) (p_seq p))).
  destruct (negb (validate_packet A c p)); [exact I|].
  destruct (negb (beq _ (H (p_data p)))); [exact I|].
  destruct (lookup _ (c_clients A c)) as [cl|]; [|exact I].
  destruct (negb (client_active cl (c_now A c))); [exact I|].
  destruct (negb (verify cl _ h pf _ _)); [exact I|].
  destruct (beq (p_relay p) (c_name A c)).
  - destruct (negb (has (p_src p) (c_clients A c))); [exact I|].
    cbn [orel]. split; [reflexivity|]. rewrite ?with_kv_with. apply sim_with.
    apply kv_eq_set. apply set_max_ack_eq. apply kv_eq_remove. exact E.
  - cbn [orel]. split; [reflexivity|]. rewrite ?with_kv_with. apply sim_with.
    apply set_max_ack_eq. apply kv_eq_remove. exact E.
Qed.

Lemma clean_packet_ext cp : orel (clean_packet A c cp) (clean_packet A c' cp).
Proof.
  unfold clean_packet. prj.
  rewrite validate_clean_eq.
  destruct (negb (clean_validate_basic cp)); [exact I|].
  destruct (negb (validate_clean A c _)); [exact I|].
  destruct (negb (has _ (c_clients A c))); [exact I|].
  cbn [orel]. split; [reflexivity|]. rewrite ?with_kv_with. apply sim_with.
  apply clean_acks_receipts_eq. apply kv_eq_set. exact E.
Qed.

Lemma recv_clean_ext cp pf h : orel (recv_clean A c cp pf h) (recv_clean A c' cp pf h).
Proof.
  unfold recv_clean. rewrite validate_clean_eq.
  prj.
  destruct (negb (clean_validate_basic cp)); [exact I|].
  destruct (negb (validate_clean A c cp)); [exact I|].
  destruct (lookup _ (c_clients A c)) as [cl|]; [|exact I].
  destruct (negb (client_active cl (c_now A c))); [exact I|].
  destruct (negb (verify cl _ h pf _ _)); [exact I|].
  destruct (beq (cp_relay cp) (c_name A c)).
  - destruct (negb (has (cp_dst cp) (c_clients A c))); [exact I|].
    cbn [orel]. split; [reflexivity|]. rewrite ?with_kv_with. apply sim_with.
    apply kv_eq_set. apply clean_acks_receipts_eq. exact E.
  - cbn [orel]. split; [reflexivity|]. rewrite ?with_kv_with. apply sim_with.
    apply kv_eq_set. apply clean_acks_receipts_eq. exact E.
Qed.

End One.

Lemma sim_app c1 c2 a : sim c1 c2 -> sim (with_app A c1 a) (with_app A c2 a).
Proof. intros [m [X ->]]. exists m. split; [destruct c1; exact X | destruct c1; reflexivity]. Qed.

Lemma sim_fields c1 c2 : sim c1 c2 ->
  c_name A c2 = c_name A c1 /\ c_app A c2 = c_app A c1 /\ c_clients A c2 = c_clients A c1 /\
  c_rules A c2 = c_rules A c1 /\ c_now A c2 = c_now A c1.
Proof. intros [m [_ ->]]. destruct c1; cbn. auto. Qed.

Lemma write_ack_sim c1 c2 p ack : sim c1 c2 -> orel (write_ack A H c1 p ack) (write_ack A H c2 p ack).
Proof. intros [m [X ->]]. apply write_ack_ext. exact X. Qed.

Lemma exec_ext c c2 o : sim c c2 -> orel (exec c o) (exec c2 o).
Proof.
  intros [kv' [E ->]]. destruct o as [p|p pf h|p a pf h|cp|cp pf h|n cl|n h snap t|rs|dt|a]; cbn [Keeper.exec].
  - apply send_packet_ext. exact E.
  - (* msg_recv *)
    unfold msg_recv. destruct (N.eqb h 0); [exact I|].
    pose proof (recv_packet_ext c kv' E p pf h) as R.
    destruct (recv_packet A H c p pf h) as [|c1 e1|c1 e1], (recv_packet A H (with_kv c kv') p pf h) as [|c2 e2|c2 e2];
      cbn [rrel] in R; try contradiction; try exact I.
    + destruct R as [-> S]. pose proof (write_ack_sim c1 c2 p unauth_ack S) as W.
      destruct (write_ack A H c1 p unauth_ack) as [[c3 e3]|], (write_ack A H c2 p unauth_ack) as [[c4 e4]|];
        cbn [orel] in W; try contradiction; try exact I.
      destruct W as [-> S']. cbn [orel]. auto.
    + destruct R as [-> S]. destruct (sim_fields _ _ S) as (Fn & Fa & _).
      rewrite Fn, Fa. destruct (beq (p_dst p) (c_name A c1)).
      * destruct (negb (has_route (p_port p))); [exact I|].
        destruct (on_recv (c_app A c1) p) as [[a' oack]|]; [|exact I].
        destruct oack as [ack|].
        -- pose proof (write_ack_sim _ _ p ack (sim_app _ _ a' S)) as W.
           destruct (write_ack A H (with_app A c1 a') p ack) as [[c3 e3]|],
                    (write_ack A H (with_app A c2 a') p ack) as [[c4 e4]|];
             cbn [orel] in W; try contradiction; try exact I.
           destruct W as [-> S']. cbn [orel]. auto.
        -- cbn [orel]. split; [reflexivity | apply sim_app; exact S].
      * cbn [orel]. auto.
  - (* msg_ack *)
    unfold msg_ack. destruct (N.eqb h 0 || is_nil a); [exact I|].
    destruct (negb (has_route (p_port p))); [exact I|].
    pose proof (ack_packet_ext c kv' E p a pf h) as R.
    destruct (ack_packet A H c p a pf h) as [[c1 e1]|], (ack_packet A H (with_kv c kv') p a pf h) as [[c2 e2]|];
      cbn [orel] in R; try contradiction; try exact I.
    destruct R as [-> S]. destruct (sim_fields _ _ S) as (Fn & Fa & _). rewrite Fn, Fa.
    destruct (beq (p_src p) (c_name A c1)).
    + destruct (on_ack (c_app A c1) p a) as [a'|]; [|exact I].
      cbn [orel]. split; [reflexivity | apply sim_app; exact S].
    + cbn [orel]. auto.
  - apply clean_packet_ext. exact E.
  - destruct (N.eqb h 0); [exact I|]. apply recv_clean_ext. exact E.
  - unfold create_client. destruct c; cbn. destruct (has n c_clients); cbn; [exact I|].
    split; [reflexivity|]. exists kv'. split; [exact E | reflexivity].
  - unfold update_client. destruct c; cbn. destruct (lookup n c_clients) as [cl0|]; cbn; [|exact I].
    destruct (negb (client_active cl0 c_now)); cbn; [exact I|].
    split; [reflexivity|]. exists kv'. split; [exact E | reflexivity].
  - destruct (set_rules rs); [|exact I]. cbn [orel]. split; [reflexivity|].
    exists kv'. split; [destruct c; exact E | destruct c; reflexivity].
  - cbn [orel]. split; [reflexivity|]. exists kv'. split; [destruct c; exact E | destruct c; reflexivity].
  - cbn [orel]. split; [reflexivity|]. exists kv'. split; [destruct c; exact E | destruct c; reflexivity].
Qed.

Lemma step_ext c c2 o : sim c c2 ->
  snd (step c o) = snd (step c2 o) /\ sim (fst (step c o)) (fst (step c2 o)).
Proof.
  intros S. pose proof (exec_ext c c2 o S) as R. unfold Keeper.step.
  destruct (exec c o) as [[c1 e1]|], (exec c2 o) as [[c3 e3]|]; cbn [orel] in R; try contradiction; cbn [fst snd].
  - destruct R as [-> S']. auto.
  - auto.
Qed.

(** any history gives the same results, and stores with the same content *)
Theorem run_ext ops : forall c c2, sim c c2 ->
  run_log c ops = run_log c2 ops /\ sim (run c ops) (run c2 ops).
Proof.
  induction ops as [|o ops IH]; intros c c2 S; [split; [reflexivity | exact S]|].
  destruct (step_ext c c2 o S) as [E1 S1].
  cbn [Keeper.run_log]. unfold Keeper.run. cbn [fold_left]. fold (run (fst (step c o)) ops). fold (run (fst (step c2 o)) ops).
  destruct (IH _ _ S1) as [L R]. split; [|exact R].
  destruct (step c o) as [c1 r1], (step c2 o) as [c3 r3]. cbn [fst snd] in *. subst r3.
  destruct r1; rewrite L; reflexivity.
Qed.

(** the chain restarted from the export of its packet store *)
Definition reimport_chain (c : chain) : chain := with_kv c (pkt_reimport (c_kv c)).

Theorem continuation_equal c ops : exported_only (c_kv c) ->
  run_log c ops = run_log (reimport_chain c) ops /\
  (forall k, lookup k (c_kv (run c ops)) = lookup k (c_kv (run (reimport_chain c) ops))) /\
  c_clients A (run c ops) = c_clients A (run (reimport_chain c) ops) /\
  c_rules A (run c ops) = c_rules A (run (reimport_chain c) ops) /\
  c_app A (run c ops) = c_app A (run (reimport_chain c) ops).
Proof.
  intros X. assert (S : sim c (reimport_chain c)).
  { exists (pkt_reimport (c_kv c)). split; [apply pkt_reimport_identity; exact X | reflexivity]. }
  destruct (run_ext ops _ _ S) as [L R]. split; [exact L|].
  destruct (sim_fields _ _ R) as (_ & Fa & Fc & Fr & _).
  destruct R as [m [Em Ec]]. repeat split; try congruence.
  intros k. rewrite Ec. destruct (run c ops); cbn. apply Em.
Qed.

End Ext.

(** * the highest acknowledged sequence alone: only clean requests notice *)

Definition is_maxack (k : bytes) : bool := has_prefix (K_maxack ++ [slash]) k.

(** the stores agree everywhere except under maxAckSeq/ *)
Definition kv_eq_off (m m' : fmap bytes) : Prop :=
  forall k, is_maxack k = false -> lookup k m = lookup k m'.

Lemma kv_eq_off_set m m' k v : kv_eq_off m m' -> kv_eq_off (set k v m) (set k v m').
Proof. intros E k' Hk. rewrite !lookup_set, (E k' Hk). reflexivity. Qed.

Lemma kv_eq_off_remove m m' k : kv_eq_off m m' -> kv_eq_off (remove k m) (remove k m').
Proof. intros E k' Hk. rewrite !lookup_remove, (E k' Hk). reflexivity. Qed.

Lemma kv_eq_off_set_maxack m m' s d v v' :
  kv_eq_off m m' -> kv_eq_off (set (maxack_key s d) v m) (set (maxack_key s d) v' m').
Proof.
  intros E k Hk. assert (k <> maxack_key s d) by (intros ->; discriminate Hk).
  rewrite !lookup_set_neq by assumption. apply E. exact Hk.
Qed.

Lemma set_max_ack_off s d n m m' : kv_eq_off m m' -> kv_eq_off (set_max_ack s d n m) (set_max_ack s d n m').
Proof. intros E. unfold set_max_ack. apply kv_eq_off_set_maxack. exact E. Qed.

Section ExtOff.
Variable A : Type.
Variable H : bytes -> bytes.
Variable has_route : bytes -> bool.
Variable on_recv : A -> packet -> option (A * option bytes).
Variable on_ack : A -> packet -> bytes -> option A.

Notation chain := (chain A).
Notation with_kv := (with_kv A).
Notation c_kv := (c_kv A).
Notation exec := (exec A H has_route on_recv on_ack).
Notation step := (step A H has_route on_recv on_ack).
Notation run := (run A H has_route on_recv on_ack).
Notation run_log := (run_log A H has_route on_recv on_ack).

Definition sim_off (c c' : chain) : Prop :=
  exists kv', kv_eq_off (c_kv c) kv' /\ c' = with_kv c kv'.

Definition orel_off (r r' : option (chain * list event)) : Prop :=
  match r, r' with
  | Some (c1, e1), Some (c2, e2) => e1 = e2 /\ sim_off c1 c2
  | None, None => True
  | _, _ => False
  end.

Definition no_clean_op (o : op A) : Prop :=
  match o with OClean _ | ORecvClean _ _ _ => False | _ => True end.

Lemma sim_off_with c1 m m' : kv_eq_off m m' -> sim_off (with_kv c1 m) (with_kv c1 m').
Proof. intros X. exists m'. split; [exact X|]. destruct c1; reflexivity. Qed.

Lemma sim_off_app c1 c2 a : sim_off c1 c2 -> sim_off (with_app A c1 a) (with_app A c2 a).
Proof. intros [m [X ->]]. exists m. split; [destruct c1; exact X | destruct c1; reflexivity]. Qed.

Lemma sim_off_fields c1 c2 : sim_off c1 c2 ->
  c_name A c2 = c_name A c1 /\ c_app A c2 = c_app A c1 /\ c_clients A c2 = c_clients A c1 /\
  c_rules A c2 = c_rules A c1 /\ c_now A c2 = c_now A c1.
Proof. intros [m [_ ->]]. destruct c1; cbn. auto. Qed.

Section OneOff.
Variable c : chain.
Variable kv' : fmap bytes.
Hypothesis E : kv_eq_off (c_kv c) kv'.
Notation c' := (with_kv c kv').
Ltac prj := cbn [Keeper.c_name Keeper.c_kv Keeper.c_clients Keeper.c_rules Keeper.c_now Keeper.c_app Keeper.with_kv].

Lemma next_send_off s d : next_send A c' s d = next_send A c s d.
Proof. unfold next_send. prj. rewrite <- (E (next_send_key s d)) by reflexivity. reflexivity. Qed.
Lemma clean_seq_off s d : clean_seq A c' s d = clean_seq A c s d.
Proof. unfold clean_seq. prj. rewrite <- (E (clean_key s d)) by reflexivity. reflexivity. Qed.
Lemma validate_packet_off p : validate_packet A c' p = validate_packet A c p.
Proof. unfold validate_packet. rewrite clean_seq_off. prj. reflexivity. Qed.

Lemma send_packet_off p : orel_off (send_packet A H c p) (send_packet A H c' p).
Proof.
  unfold send_packet. rewrite next_send_off. prj.
  repeat match goal with |- context [if ?b then _ else _] => destruct b; [exact I|] end.
  cbn [orel_off]. split; [reflexivity|]. rewrite ?with_kv_with. apply sim_off_with.
  apply kv_eq_off_set. apply kv_eq_off_set. exact E.
Qed.

Definition rrel_off (r r' : rres A) : Prop :=
  match r, r' with
  | RErr _, RErr _ => True
  | RUnauth _ c1 e1, RUnauth _ c2 e2 | ROk _ c1 e1, ROk _ c2 e2 => e1 = e2 /\ sim_off c1 c2
  | _, _ => False
  end.

Lemma recv_packet_off p pf h : rrel_off (recv_packet A H c p pf h) (recv_packet A H c' p pf h).
Proof.
  unfold recv_packet. rewrite validate_packet_off. prj.
  unfold has at 1 3. rewrite <- (E (receipt_key (p_src p) (p_dst p) (p_seq p))) by reflexivity.
  destruct (negb (validate_packet A c p)); [exact I|].
  destruct (lookup (receipt_key _ _ _) (c_kv c)); [exact I|].
  destruct (lookup _ (c_clients A c)) as [cl|]; [|exact I].
  destruct (negb (client_active cl (c_now A c))); [exact I|].
  destruct (negb (verify cl _ h pf _ _)); [exact I|].
  destruct (beq (p_relay p) (c_name A c)).
  - destruct (negb (authenticate _ _ _ _)).
    + cbn [rrel_off]. split; [reflexivity|]. rewrite ?with_kv_with. apply sim_off_with. apply kv_eq_off_set. exact E.
    + destruct (negb (has (p_dst p) (c_clients A c))); [exact I|].
      cbn [rrel_off]. split; [reflexivity|]. rewrite ?with_kv_with. apply sim_off_with.
      apply kv_eq_off_set. apply kv_eq_off_set. exact E.
  - cbn [rrel_off]. split; [reflexivity|]. rewrite ?with_kv_with. apply sim_off_with. apply kv_eq_off_set. exact E.
Qed.

Lemma write_ack_off p ack : orel_off (write_ack A H c p ack) (write_ack A H c' p ack).
Proof.
  unfold write_ack. prj.
  unfold has at 1 3. rewrite <- (E (ack_key (p_src p) (p_dst p) (p_seq p))) by reflexivity.
  destruct (is_nil ack); [exact I|].
  destruct (lookup (ack_key _ _ _) (c_kv c)); [exact I|].
  destruct (negb (has _ (c_clients A c))); [exact I|].
  cbn [orel_off]. split; [reflexivity|]. rewrite ?with_kv_with. apply sim_off_with.
  apply set_max_ack_off. apply kv_eq_off_set. exact E.
Qed.

Lemma ack_packet_off p ack pf h : orel_off (ack_packet A H c p ack pf h) (ack_packet A H c' p ack pf h).
Proof.
  unfold ack_packet. rewrite validate_packet_off. prj.
  rewrite <- (E (commit_key (p_src p) (p_dst p) (p_seq p))) by reflexivity.
  destruct (negb (validate_packet A c p)); [exact I|].
  destruct (negb (beq _ (H (p_data p)))); [exact I|].
  destruct (lookup _ (c_clients A c)) as [cl|]; [|exact I].
  destruct (negb (client_active cl (c_now A c))); [exact I|].
  destruct (negb (verify cl _ h pf _ _)); [exact I|].
  destruct (beq (p_relay p) (c_name A c)).
  - destruct (negb (has (p_src p) (c_clients A c))); [exact I|].
    cbn [orel_off]. split; [reflexivity|]. rewrite ?with_kv_with. apply sim_off_with.
    apply kv_eq_off_set. apply set_max_ack_off. apply kv_eq_off_remove. exact E.
  - cbn [orel_off]. split; [reflexivity|]. rewrite ?with_kv_with. apply sim_off_with.
    apply set_max_ack_off. apply kv_eq_off_remove. exact E.
Qed.

End OneOff.

Lemma write_ack_sim_off c1 c2 p ack : sim_off c1 c2 -> orel_off (write_ack A H c1 p ack) (write_ack A H c2 p ack).
Proof. intros [m [X ->]]. apply write_ack_off. exact X. Qed.

Lemma exec_off c c2 o : no_clean_op o -> sim_off c c2 -> orel_off (exec c o) (exec c2 o).
Proof.
  intros NC [kv' [E ->]]. destruct o as [p|p pf h|p a pf h|cp|cp pf h|n cl|n h snap t|rs|dt|a];
    cbn [Keeper.exec]; try (destruct NC; fail).
  - apply send_packet_off. exact E.
  - unfold msg_recv. destruct (N.eqb h 0); [exact I|].
    pose proof (recv_packet_off c kv' E p pf h) as R.
    destruct (recv_packet A H c p pf h) as [|c1 e1|c1 e1], (recv_packet A H (with_kv c kv') p pf h) as [|c2 e2|c2 e2];
      cbn [rrel_off] in R; try contradiction; try exact I.
    + destruct R as [-> S]. pose proof (write_ack_sim_off c1 c2 p unauth_ack S) as W.
      destruct (write_ack A H c1 p unauth_ack) as [[c3 e3]|], (write_ack A H c2 p unauth_ack) as [[c4 e4]|];
        cbn [orel_off] in W; try contradiction; try exact I.
      destruct W as [-> S']. cbn [orel_off]. auto.
    + destruct R as [-> S]. destruct (sim_off_fields _ _ S) as (Fn & Fa & _).
      rewrite Fn, Fa. destruct (beq (p_dst p) (c_name A c1)).
      * destruct (negb (has_route (p_port p))); [exact I|].
        destruct (on_recv (c_app A c1) p) as [[a' oack]|]; [|exact I].
        destruct oack as [ack|].
        -- pose proof (write_ack_sim_off _ _ p ack (sim_off_app _ _ a' S)) as W.
           destruct (write_ack A H (with_app A c1 a') p ack) as [[c3 e3]|],
                    (write_ack A H (with_app A c2 a') p ack) as [[c4 e4]|];
             cbn [orel_off] in W; try contradiction; try exact I.
           destruct W as [-> S']. cbn [orel_off]. auto.
        -- cbn [orel_off]. split; [reflexivity | apply sim_off_app; exact S].
      * cbn [orel_off]. auto.
  - unfold msg_ack. destruct (N.eqb h 0 || is_nil a); [exact I|].
    destruct (negb (has_route (p_port p))); [exact I|].
    pose proof (ack_packet_off c kv' E p a pf h) as R.
    destruct (ack_packet A H c p a pf h) as [[c1 e1]|], (ack_packet A H (with_kv c kv') p a pf h) as [[c2 e2]|];
      cbn [orel_off] in R; try contradiction; try exact I.
    destruct R as [-> S]. destruct (sim_off_fields _ _ S) as (Fn & Fa & _). rewrite Fn, Fa.
    destruct (beq (p_src p) (c_name A c1)).
    + destruct (on_ack (c_app A c1) p a) as [a'|]; [|exact I].
      cbn [orel_off]. split; [reflexivity | apply sim_off_app; exact S].
    + cbn [orel_off]. auto.
  - unfold create_client. destruct c; cbn. destruct (has n c_clients); cbn; [exact I|].
    split; [reflexivity|]. exists kv'. split; [exact E | reflexivity].
  - unfold update_client. destruct c; cbn. destruct (lookup n c_clients) as [cl0|]; cbn; [|exact I].
    destruct (negb (client_active cl0 c_now)); cbn; [exact I|].
    split; [reflexivity|]. exists kv'. split; [exact E | reflexivity].
  - destruct (set_rules rs); [|exact I]. cbn [orel_off]. split; [reflexivity|].
    exists kv'. split; [destruct c; exact E | destruct c; reflexivity].
  - cbn [orel_off]. split; [reflexivity|]. exists kv'. split; [destruct c; exact E | destruct c; reflexivity].
  - cbn [orel_off]. split; [reflexivity|]. exists kv'. split; [destruct c; exact E | destruct c; reflexivity].
Qed.

Theorem run_off ops : forall c c2, Forall no_clean_op ops -> sim_off c c2 ->
  run_log c ops = run_log c2 ops /\ sim_off (run c ops) (run c2 ops).
Proof.
  induction ops as [|o ops IH]; intros c c2 NC S; [split; [reflexivity | exact S]|].
  inversion NC as [|? ? NC1 NC2]; subst.
  pose proof (exec_off c c2 o NC1 S) as R.
  cbn [Keeper.run_log]. unfold Keeper.run. cbn [fold_left].
  fold (run (fst (step c o)) ops). fold (run (fst (step c2 o)) ops). unfold Keeper.step.
  destruct (exec c o) as [[c1 e1]|], (exec c2 o) as [[c3 e3]|]; cbn [orel_off] in R; try contradiction; cbn [fst snd].
  - destruct R as [-> S']. destruct (IH _ _ NC2 S') as [L R']. rewrite L. auto.
  - destruct (IH _ _ NC2 S) as [L R']. rewrite L. auto.
Qed.

(** a packet store without clean points (the highest acknowledged sequences may be there) *)
Definition no_clean_points (kv : store) : Prop :=
  NoDup (map fst kv) /\ forall k v, In (k, v) kv -> pkt_entry k v \/ exists a b, k = maxack_key a b.

Lemma no_clean_points_wf kv : no_clean_points kv -> wf_store kv.
Proof.
  intros [ND Hk]. split; [exact ND|]. intros k v He. destruct (Hk k v He) as [P|[a [b ->]]].
  - destruct P; [apply WE_seq | apply WE_send]; assumption.
  - apply WE_maxack.
Qed.

Theorem continuation_equal_modulo_max_ack c ops :
  no_clean_points (c_kv c) -> Forall no_clean_op ops ->
  run_log c ops = run_log (reimport_chain A c) ops /\
  (forall k, is_maxack k = false ->
             lookup k (c_kv (run c ops)) = lookup k (c_kv (run (reimport_chain A c) ops))) /\
  c_clients A (run c ops) = c_clients A (run (reimport_chain A c) ops) /\
  c_rules A (run c ops) = c_rules A (run (reimport_chain A c) ops) /\
  c_app A (run c ops) = c_app A (run (reimport_chain A c) ops).
Proof.
  intros X NC. assert (S : sim_off c (reimport_chain A c)).
  { exists (pkt_reimport (c_kv c)). split; [|reflexivity]. intros k Hk.
    rewrite pkt_roundtrip by (apply no_clean_points_wf; exact X).
    destruct (pcovered k) eqn:Ec; [reflexivity|].
    destruct (lookup k (c_kv c)) as [v|] eqn:El; [|reflexivity].
    apply lookup_in in El. destruct X as [_ X]. destruct (X k v El) as [P|[a [b ->]]].
    - apply pkt_entry_pcovered in P. congruence.
    - discriminate Hk. }
  destruct (run_off ops _ _ NC S) as [L R]. split; [exact L|].
  destruct (sim_off_fields _ _ R) as (_ & Fa & Fc & Fr & _).
  destruct R as [m [Em Ec]]. repeat split; try congruence.
  intros k Hk. rewrite Ec. destruct (run c ops); cbn. apply Em. exact Hk.
Qed.

End ExtOff.
