(** C16 witnesses: what export / re-import loses, and a concrete well-formed
    store exercising every key family (non-vacuity of the round-trip theorems). *)
From Tibc Require Import Base.Bytes Base.BytesFacts Base.FMap Host.Keys Host.KeysFacts
  Routing.Rules Packet.Types Packet.Keeper Packet.U64 Apps.Path Apps.Nft Apps.Mt
  Genesis.Export Genesis.ExportFacts Genesis.Continuation.
From Coq Require Import ZArith ZifyN ZifyNat ZifyBool.

(** * deciding the side conditions of concrete stores *)

Fixpoint nodupb (l : list bytes) : bool :=
  match l with
  | [] => true
  | x :: r => negb (existsb (beq x) r) && nodupb r
  end.

Lemma nodupb_spec l : nodupb l = true -> NoDup l.
Proof.
  induction l as [|x r IH]; intros H; [constructor|].
  cbn [nodupb] in H. apply andb_true_iff in H. destruct H as [H1 H2].
  constructor; [|apply IH; exact H2].
  intros X. apply negb_true_iff in H1. rewrite <- not_true_iff_false in H1. apply H1.
  apply existsb_exists. exists x. split; [exact X | apply beq_refl].
Qed.

Lemma noslash_b x : contains slash x = false -> noslash x.
Proof. apply contains_false. Qed.

Lemma all_entries (P : bytes -> bytes -> Prop) (s : store) :
  Forall (fun kv => P (fst kv) (snd kv)) s -> forall k v, In (k, v) s -> P k v.
Proof. intros F k v Hin. rewrite Forall_forall in F. exact (F (k, v) Hin). Qed.

Ltac ns := apply noslash_b; vm_compute; reflexivity.
Ltac lt64 := unfold two64; lia.

(** * the clean point: lost, and a cleaned packet is accepted again *)

Definition cA : bytes := of_string "testchain0".
Definition cB : bytes := of_string "testchain1".

Definition w_has_route (p : bytes) : bool := true.
Definition w_on_recv (a : unit) (p : packet) : option (unit * option bytes) := Some (tt, Some (of_string "ack")).
Definition w_on_ack (a : unit) (p : packet) (ack : bytes) : option unit := Some tt.
Definition w_H (x : bytes) : bytes := x.

Definition w_step := step unit w_H w_has_route w_on_recv w_on_ack.

(** chain B: packets 1 and 2 from A were received, acknowledged and cleaned (clean point 2) *)
Definition w_pkt : packet := mkPacket 1 cA cB [] (of_string "tibcmock") (of_string "data1").
Definition w_snapA : fmap bytes := [(commit_key cA cB 1, of_string "data1")].
Definition w_clientA : client := mkClient [(hkey 7, (w_snapA, 100))] 7 1000.
Definition w_kvB : store :=
  [ (clean_key cA cB, be64 2);
    (maxack_key cA cB, be64 3);
    (receipt_key cA cB 3, receipt_value);
    (ack_key cA cB 3, of_string "ack3") ].
Definition w_chainB : chain unit := mkChain unit cB w_kvB [(cA, w_clientA)] None 200 tt.
Definition w_proof : proof := PGenuine cA (commit_key cA cB 1).

Lemma w_kvB_wf : wf_store w_kvB.
Proof.
  split; [apply nodupb_spec; vm_compute; reflexivity|].
  apply all_entries. unfold w_kvB. repeat (apply Forall_cons; [cbn [fst snd]|]); [..|apply Forall_nil].
  - apply WE_clean.
  - apply WE_maxack.
  - apply (WE_seq w_kvB K_receipt cA cB 3); [unfold seq_fam; tauto | ns | ns | lt64 | reflexivity].
  - apply (WE_seq w_kvB K_ack cA cB 3); [unfold seq_fam; tauto | ns | ns | lt64 |].
    intros X. apply beq_spec in X. vm_compute in X. discriminate.
Qed.

(** before the export the replayed packet 1 is refused, the chain restarted from
    its own export delivers it to the application a second time *)
Theorem clean_point_lost_replay_accepted :
  wf_store (c_kv unit w_chainB) /\
  w_step w_chainB (ORecv w_pkt w_proof 7) = (w_chainB, None) /\
  exists c' ev, w_step (reimport_chain unit w_chainB) (ORecv w_pkt w_proof 7) = (c', Some ev) /\
                In (EDeliver w_pkt) ev /\
                lookup (clean_key cA cB) (c_kv unit w_chainB) = Some (be64 2) /\
                lookup (clean_key cA cB) (c_kv unit (reimport_chain unit w_chainB)) = None.
Proof.
  split; [exact w_kvB_wf|]. split; [vm_compute; reflexivity|].
  eexists. eexists. split; [vm_compute; reflexivity|].
  split; [cbn; tauto|]. split; vm_compute; reflexivity.
Qed.

(** * the highest acknowledged sequence: lost, and clean requests are refused *)

Definition w_kvA : store :=
  [ (maxack_key cA cB, be64 3);
    (next_send_key cA cB, be64 4) ].
Definition w_chainA : chain unit := mkChain unit cA w_kvA [(cB, mkClient [] 0 0)] None 200 tt.
Definition w_clean : cleanpkt := mkClean 2 [] cB [].

Lemma w_kvA_wf : wf_store w_kvA.
Proof.
  split; [apply nodupb_spec; vm_compute; reflexivity|].
  apply all_entries. unfold w_kvA. repeat (apply Forall_cons; [cbn [fst snd]|]); [..|apply Forall_nil].
  - apply WE_maxack.
  - apply (WE_send w_kvA cA cB 4); [ns | ns | lt64].
Qed.

Theorem max_ack_lost_clean_refused :
  wf_store (c_kv unit w_chainA) /\
  (exists c' ev, w_step w_chainA (OClean w_clean) = (c', Some ev)) /\
  w_step (reimport_chain unit w_chainA) (OClean w_clean) = (reimport_chain unit w_chainA, None) /\
  lookup (maxack_key cA cB) (c_kv unit w_chainA) = Some (be64 3) /\
  lookup (maxack_key cA cB) (c_kv unit (reimport_chain unit w_chainA)) = None.
Proof.
  split; [exact w_kvA_wf|]. split; [eexists; eexists; vm_compute; reflexivity|].
  split; [vm_compute; reflexivity|]. split; vm_compute; reflexivity.
Qed.

(** * voucher class traces: the transfer applications have no genesis *)

Theorem traces_lost (s : store) k : lookup k (app_reimport s) = None.
Proof. reflexivity. Qed.

(** without its trace no voucher class can be sent on: SendNftTransfer /
    SendMtTransfer fail on every "tibc-<HASH>" class, whatever else the chain holds *)
Theorem nft_voucher_stuck escrow enc name seq classes tokens class id sender receiver dest relay contract :
  has_prefix tibc_dash class = true ->
  nft_send escrow enc name seq (mkNftState classes tokens []) class id sender receiver dest relay contract = None.
Proof.
  intros Hp. unfold nft_send.
  destruct (negb (has_class class _)); [reflexivity|].
  destruct (token_at _ class id) as [[o uri]|]; [|reflexivity].
  destruct (beq name dest); [reflexivity|].
  unfold class_path_of. rewrite Hp. reflexivity.
Qed.

Theorem mt_voucher_stuck escrow enc name seq classes mts supply bal class id sender receiver dest relay contract amt :
  has_prefix tibc_dash class = true ->
  mt_send escrow enc name seq (mkMtState classes mts supply bal []) class id sender receiver dest relay contract amt = None.
Proof.
  intros Hp. unfold mt_send.
  destruct (negb (mt_has_class class _)); [reflexivity|].
  destruct (lookup (tkey class id) _) as [md|]; [|reflexivity].
  destruct (beq name dest); [reflexivity|].
  unfold mt_class_path_of. rewrite Hp. reflexivity.
Qed.

(** * a well-formed store with every family *)

Definition any_of (url payload : bytes) : bytes :=
  10 :: N.of_nat (length url) :: url ++ 18 :: N.of_nat (length payload) :: payload.
Definition v_tm_cs := any_of URL_tm_cs (of_string "tm-client-state").
Definition v_tm_co := any_of URL_tm_cons (of_string "tm-consensus").
Definition v_bsc_cs := any_of URL_bsc_cs (of_string "bsc-client-state").
Definition v_bsc_co := any_of URL_bsc_cons (of_string "bsc-consensus").
Definition v_eth_cs := any_of URL_eth_cs (of_string "eth-client-state").
Definition v_eth_co := any_of URL_eth_cons (of_string "eth-consensus").
Definition v_rel : bytes := 10 :: 10 :: cA ++ 18 :: 3 :: of_string "rel".

Definition n_bsc : bytes := of_string "bsc-mainnet".
Definition n_eth : bytes := of_string "eth.mainnet".

(** heights whose big-endian bytes contain '/' (47, 303, 12032) or end in "/clientState" *)
Definition suffix_rev : N := 795044969.             (* 0x2f636c69 *)
Definition suffix_h : N := 7308907147052545125.     (* 0x656e745374617465 *)

Definition tm_processed_rk (rev h : N) : bytes := cons_rkey rev h ++ K_processedTime.
Definition tm_iter_rk (rev h : N) : bytes := K_iterate ++ height_bytes rev h.

Definition ex_store : store :=
  [ (K_chainName, cB);
    (K_rules, of_string "[""*,*,*""]");
    (relayer_key cA, v_rel);
    (cs_key cA, v_tm_cs);
    (cons_key cA 0 47, v_tm_co);
    (cons_key cA 0 303, v_tm_co);
    (cons_key cA 0 12032, v_tm_co);
    (cons_key cA suffix_rev suffix_h, v_tm_co);
    (client_prefix cA ++ tm_processed_rk 0 47, be64 1577923200);
    (client_prefix cA ++ tm_iter_rk 0 47, cons_rkey 0 47);
    (client_prefix cA ++ tm_iter_rk suffix_rev suffix_h, cons_rkey suffix_rev suffix_h);
    (cs_key n_bsc, v_bsc_cs);
    (cons_key n_bsc 0 200, v_bsc_co);
    (client_prefix n_bsc ++ K_recentSingers ++ of_string "/0-201", of_string "validator");
    (client_prefix n_bsc ++ K_pendingValidators, of_string "validators");
    (cs_key n_eth, v_eth_cs);
    (cons_key n_eth 0 12032, v_eth_co);
    (client_prefix n_eth ++ K_ethHeaderIndex ++ of_string "/0xabcd12032", of_string "header");
    (client_prefix n_eth ++ K_ethRootMain ++ of_string "/0xef0112032", of_string "index");
    (commit_key cB cA 5, of_string "hash5");
    (receipt_key cA cB 3, receipt_value);
    (ack_key cA cB 3, of_string "ack3");
    (next_send_key cB cA, be64 6);
    (clean_key cA cB, be64 2);
    (maxack_key cA cB, be64 3) ].

Ltac wf_meta name :=
  match goal with
  | |- wf_entry _ (client_prefix name ++ ?rk) ?v =>
      eapply (WE_meta ex_store name rk v); [ns | vm_compute; reflexivity | vm_compute; reflexivity | vm_compute; reflexivity]
  end.

Lemma ex_store_wf : wf_store ex_store.
Proof.
  split; [apply nodupb_spec; vm_compute; reflexivity|].
  apply all_entries. unfold ex_store at 2. repeat (apply Forall_cons; [cbn [fst snd]|]); [..|apply Forall_nil].
  - apply WE_chain.
  - apply WE_rules.
  - apply WE_relayer. vm_compute. reflexivity.
  - eapply WE_client; [ns | vm_compute; reflexivity].
  - apply WE_cons; [ns | lt64 | lt64 | vm_compute; reflexivity].
  - apply WE_cons; [ns | lt64 | lt64 | vm_compute; reflexivity].
  - apply WE_cons; [ns | lt64 | lt64 | vm_compute; reflexivity].
  - apply WE_cons; [ns | unfold suffix_rev; lt64 | unfold suffix_h; lt64 | vm_compute; reflexivity].
  - wf_meta cA.
  - wf_meta cA.
  - wf_meta cA.
  - eapply WE_client; [ns | vm_compute; reflexivity].
  - apply WE_cons; [ns | lt64 | lt64 | vm_compute; reflexivity].
  - wf_meta n_bsc.
  - wf_meta n_bsc.
  - eapply WE_client; [ns | vm_compute; reflexivity].
  - apply WE_cons; [ns | lt64 | lt64 | vm_compute; reflexivity].
  - wf_meta n_eth.
  - wf_meta n_eth.
  - apply (WE_seq ex_store K_commit cB cA 5); [unfold seq_fam; tauto | ns | ns | lt64 |].
    intros X. apply beq_spec in X. vm_compute in X. discriminate.
  - apply (WE_seq ex_store K_receipt cA cB 3); [unfold seq_fam; tauto | ns | ns | lt64 | reflexivity].
  - apply (WE_seq ex_store K_ack cA cB 3); [unfold seq_fam; tauto | ns | ns | lt64 |].
    intros X. apply beq_spec in X. vm_compute in X. discriminate.
  - apply (WE_send ex_store cB cA 6); [ns | ns | lt64].
  - apply WE_clean.
  - apply WE_maxack.
Qed.

(** the height bytes of the example really contain the separator / the suffix *)
Lemma ex_heights_contain_slash :
  In slash (height_bytes 0 47) /\ In slash (height_bytes 0 303) /\ In slash (height_bytes 0 12032) /\
  skipn 4 (height_bytes suffix_rev suffix_h) = slash :: K_clientState.
Proof. repeat split; try (apply contains_spec; vm_compute; reflexivity). Qed.

(** executing the model on the example: everything but the clean point and the
    highest acknowledged sequence is back, byte for byte *)
Lemma ex_store_roundtrip :
  exists m, reimport ex_store = Some m /\
    forallb (fun kv : bytes * bytes =>
               if covered (fst kv) || beq (fst kv) K_chainName || beq (fst kv) K_rules
               then match lookup (fst kv) m with Some v => beq v (snd kv) | None => false end
               else match lookup (fst kv) m with Some _ => false | None => true end) ex_store = true /\
    length m = 23%nat.
Proof. eexists. split; [vm_compute; reflexivity|]. split; vm_compute; reflexivity. Qed.
