From Coq Require Import NArith List Bool Lia.
From Tibc Require Import Base.Bytes Base.FMap Routing.Rules Clients.Registry.
Import ListNotations.
Open Scope N_scope.

Lemma rstep_refused_unchanged g o : snd (rstep g o) = false -> fst (rstep g o) = g.
Proof. unfold rstep. destruct (rexec g o); [discriminate|reflexivity]. Qed.

Lemma rstep_ok_iff g o : snd (rstep g o) = true <-> exists g', rexec g o = Some g'.
Proof.
  unfold rstep. destruct (rexec g o) as [g'|]; cbn; split; try discriminate; eauto.
  intros [g'' E]. discriminate.
Qed.

Lemma privileged_needs_authority g o :
  privileged o = true -> requester o <> g_authority g -> rstep g o = (g, false).
Proof.
  intros P NE. unfold rstep.
  assert (B : beq (requester o) (g_authority g) = false) by (apply beq_false; exact NE).
  destruct o; cbn [privileged] in P; try discriminate; cbn [requester] in B; cbn [rexec]; rewrite B; reflexivity.
Qed.

Lemma existsb_beq_In x l : existsb (beq x) l = true <-> In x l.
Proof.
  rewrite existsb_exists. split.
  - intros [y [I E]]. apply beq_spec in E. subst. exact I.
  - intros I. exists x. split; [exact I|apply beq_refl].
Qed.

Lemma update_needs_relayer g signer name active v :
  ~ In signer (relayers_of g name) -> rstep g (RUpdate signer name active v) = (g, false).
Proof.
  intros NI. unfold rstep. cbn [rexec]. unfold auth_relayer.
  destruct (existsb (beq signer) (relayers_of g name)) eqn:E; [|reflexivity].
  apply existsb_beq_In in E. contradiction.
Qed.

(** exact acceptance conditions *)
Lemma create_accept_iff g auth name ty st hk cst valid :
  snd (rstep g (RCreate auth name ty st hk cst valid)) = true <->
  auth = g_authority g /\ lookup name (g_clients g) = None /\ valid = true.
Proof.
  unfold rstep. cbn [rexec]. unfold has.
  destruct (beq auth (g_authority g)) eqn:B; cbn [negb].
  - apply beq_spec in B. destruct (lookup name (g_clients g)) eqn:L.
    + cbn. split; [discriminate|]. intros (_ & X & _). discriminate.
    + destruct valid; cbn; split; auto; try discriminate. intros (_ & _ & X). discriminate.
  - apply beq_false in B. cbn. split; [discriminate|]. intros (X & _). contradiction.
Qed.

Lemma create_effect g auth name ty st hk cst valid g' :
  rstep g (RCreate auth name ty st hk cst valid) = (g', true) ->
  lookup name (g_clients g) = None /\
  lookup name (g_clients g') = Some (mkRC ty st (set hk cst [])) /\
  (forall n, n <> name -> lookup n (g_clients g') = lookup n (g_clients g)) /\
  g_relayers g' = g_relayers g /\ g_rules g' = g_rules g /\ g_authority g' = g_authority g.
Proof.
  unfold rstep. cbn [rexec]. unfold has.
  destruct (beq auth (g_authority g)); cbn [negb]; [|intros E; inversion E].
  destruct (lookup name (g_clients g)) eqn:L; [intros E; inversion E|].
  destruct valid; cbn [negb]; [|intros E; inversion E].
  intros E. inversion E; subst. cbn. split; [reflexivity|]. split.
  - rewrite beq_refl. reflexivity.
  - split; [|auto]. intros n NE. apply beq_false in NE. rewrite NE.
    apply beq_false in NE. apply lookup_remove_neq. exact NE.
Qed.

Lemma upgrade_accept_iff g auth name ty st hk cst valid :
  snd (rstep g (RUpgrade auth name ty st hk cst valid)) = true <->
  auth = g_authority g /\ valid = true /\
  exists old, lookup name (g_clients g) = Some old /\ rc_type old = ty.
Proof.
  unfold rstep. cbn [rexec].
  destruct (beq auth (g_authority g)) eqn:B; cbn [negb].
  - apply beq_spec in B. destruct valid; cbn [negb].
    + destruct (lookup name (g_clients g)) as [old|] eqn:L.
      * destruct (N.eqb_spec (rc_type old) ty); cbn.
        -- split; auto. intros _. split; [exact B|]. split; [reflexivity|]. exists old. auto.
        -- split; [discriminate|]. intros (_ & _ & old' & E & T). inversion E; subst. contradiction.
      * cbn. split; [discriminate|]. intros (_ & _ & old' & E & _). discriminate.
    + cbn. split; [discriminate|]. intros (_ & X & _). discriminate.
  - apply beq_false in B. cbn. split; [discriminate|]. intros (X & _). contradiction.
Qed.

Lemma upgrade_effect g auth name ty st hk cst valid g' :
  rstep g (RUpgrade auth name ty st hk cst valid) = (g', true) ->
  exists old, lookup name (g_clients g) = Some old /\ rc_type old = ty /\
  lookup name (g_clients g') = Some (mkRC ty st (set hk cst (rc_cons old))) /\
  (forall n, n <> name -> lookup n (g_clients g') = lookup n (g_clients g)) /\
  g_relayers g' = g_relayers g /\ g_rules g' = g_rules g /\ g_authority g' = g_authority g.
Proof.
  unfold rstep. cbn [rexec].
  destruct (beq auth (g_authority g)); cbn [negb]; [|intros E; inversion E].
  destruct valid; cbn [negb]; [|intros E; inversion E].
  destruct (lookup name (g_clients g)) as [old|] eqn:L; [|intros E; inversion E].
  destruct (N.eqb_spec (rc_type old) ty); cbn [negb]; [|intros E; inversion E].
  intros E. inversion E; subst. exists old. split; [reflexivity|]. split; [reflexivity|]. cbn. split.
  - rewrite beq_refl. reflexivity.
  - split; [|auto]. intros n NE. apply beq_false in NE. rewrite NE.
    apply beq_false in NE. apply lookup_remove_neq. exact NE.
Qed.

Lemma register_accept_iff g auth name rl valid :
  snd (rstep g (RRegister auth name rl valid)) = true <-> auth = g_authority g /\ valid = true.
Proof.
  unfold rstep. cbn [rexec].
  destruct (beq auth (g_authority g)) eqn:B; cbn [negb].
  - apply beq_spec in B. destruct valid; cbn; split; auto; try discriminate. intros (_ & X). discriminate.
  - apply beq_false in B. cbn. split; [discriminate|]. intros (X & _). contradiction.
Qed.

Lemma register_effect g auth name rl valid g' :
  rstep g (RRegister auth name rl valid) = (g', true) ->
  relayers_of g' name = rl /\
  (forall n, n <> name -> relayers_of g' n = relayers_of g n) /\
  g_clients g' = g_clients g /\ g_rules g' = g_rules g /\ g_authority g' = g_authority g.
Proof.
  unfold rstep. cbn [rexec].
  destruct (beq auth (g_authority g)); cbn [negb]; [|intros E; inversion E].
  destruct valid; cbn [negb]; [|intros E; inversion E].
  intros E. inversion E; subst. unfold relayers_of. cbn. split.
  - rewrite beq_refl. reflexivity.
  - split; [|auto]. intros n NE. apply beq_false in NE. rewrite NE.
    apply beq_false in NE. rewrite lookup_remove_neq by exact NE. reflexivity.
Qed.

Lemma setrules_accept_iff g auth rules :
  snd (rstep g (RSetRules auth rules)) = true <-> auth = g_authority g /\ exists st, set_rules rules = Some st.
Proof.
  unfold rstep. cbn [rexec].
  destruct (beq auth (g_authority g)) eqn:B; cbn [negb].
  - apply beq_spec in B. destruct (set_rules rules) as [st|]; cbn; split; auto; try discriminate.
    + intros _. split; [exact B|eauto].
    + intros (_ & st & X). discriminate.
  - apply beq_false in B. cbn. split; [discriminate|]. intros (X & _). contradiction.
Qed.

Lemma setrules_effect g auth rules g' :
  rstep g (RSetRules auth rules) = (g', true) ->
  g_rules g' = set_rules rules /\ g_clients g' = g_clients g /\ g_relayers g' = g_relayers g /\
  g_authority g' = g_authority g.
Proof.
  unfold rstep. cbn [rexec].
  destruct (beq auth (g_authority g)); cbn [negb]; [|intros E; inversion E].
  destruct (set_rules rules) as [st|]; intros E; inversion E; subst. cbn. auto.
Qed.

Lemma update_accept_iff g signer name active v :
  snd (rstep g (RUpdate signer name active v)) = true <->
  In signer (relayers_of g name) /\ (exists old, lookup name (g_clients g) = Some old) /\
  active = true /\ exists vd, v = Some vd.
Proof.
  unfold rstep. cbn [rexec]. unfold auth_relayer.
  destruct (existsb (beq signer) (relayers_of g name)) eqn:E; cbn [negb].
  - apply existsb_beq_In in E. destruct (lookup name (g_clients g)) as [old|].
    + destruct active; cbn [negb].
      * destruct v as [vd|]; cbn; split; auto; try discriminate.
        -- intros _. split; [exact E|]. split; [eauto|]. split; [reflexivity|eauto].
        -- intros (_ & _ & _ & vd & X). discriminate.
      * cbn. split; [discriminate|]. intros (_ & _ & X & _). discriminate.
    + cbn. split; [discriminate|]. intros (_ & (old & X) & _). discriminate.
  - cbn. split; [discriminate|]. intros (I & _). apply existsb_beq_In in I. congruence.
Qed.

Lemma update_effect g signer name active v g' :
  rstep g (RUpdate signer name active v) = (g', true) ->
  exists old vd, lookup name (g_clients g) = Some old /\ v = Some vd /\
  lookup name (g_clients g') = Some (mkRC (rc_type old) (v_state vd) (set (v_height vd) (v_cons vd) (prune (v_pruned vd) (rc_cons old)))) /\
  (forall n, n <> name -> lookup n (g_clients g') = lookup n (g_clients g)) /\
  g_relayers g' = g_relayers g /\ g_rules g' = g_rules g /\ g_authority g' = g_authority g.
Proof.
  unfold rstep. cbn [rexec].
  destruct (auth_relayer g name signer); cbn [negb]; [|intros E; inversion E].
  destruct (lookup name (g_clients g)) as [old|] eqn:L; [|intros E; inversion E].
  destruct active; cbn [negb]; [|intros E; inversion E].
  destruct v as [vd|]; [|intros E; inversion E].
  intros E. inversion E; subst. exists old, vd. split; [reflexivity|]. split; [reflexivity|]. cbn. split.
  - rewrite beq_refl. reflexivity.
  - split; [|auto]. intros n NE. apply beq_false in NE. rewrite NE.
    apply beq_false in NE. apply lookup_remove_neq. exact NE.
Qed.

(** *** histories *)

Lemma rstep_authority g o : g_authority (fst (rstep g o)) = g_authority g.
Proof.
  unfold rstep. destruct (rexec g o) as [g'|] eqn:E; [|reflexivity]. cbn [fst].
  destruct o; cbn [rexec] in E;
    repeat match type of E with
    | context [if ?b then _ else _] => destruct b; try discriminate
    | context [match ?x with _ => _ end] => destruct x; try discriminate
    end; inversion E; reflexivity.
Qed.

Lemma rrun_authority ops : forall g, g_authority (rrun g ops) = g_authority g.
Proof.
  induction ops as [|o ops IH]; intros g; [reflexivity|].
  unfold rrun. cbn [fold_left]. fold (rrun (fst (rstep g o)) ops). rewrite IH. apply rstep_authority.
Qed.

(** a client, once created, is never removed and never changes its type *)
Lemma rstep_type_stable g o name cl :
  lookup name (g_clients g) = Some cl ->
  exists cl', lookup name (g_clients (fst (rstep g o))) = Some cl' /\ rc_type cl' = rc_type cl.
Proof.
  intros L. destruct (rstep g o) as [g' b] eqn:E. cbn [fst]. destruct b.
  - destruct o.
    + apply create_effect in E. destruct E as (N0 & _ & O & _).
      destruct (bytes_eq_dec name name0) as [->|NE]; [congruence|].
      exists cl. rewrite O by exact NE. auto.
    + apply upgrade_effect in E. destruct E as (old & Lo & T & Ln & O & _).
      destruct (bytes_eq_dec name name0) as [->|NE].
      * rewrite Ln. eexists; split; [reflexivity|]. cbn. rewrite L in Lo. inversion Lo; subst. reflexivity.
      * exists cl. rewrite O by exact NE. auto.
    + apply register_effect in E. destruct E as (_ & _ & C & _). rewrite C. eauto.
    + apply setrules_effect in E. destruct E as (_ & C & _). rewrite C. eauto.
    + apply update_effect in E. destruct E as (old & vd & Lo & _ & Ln & O & _).
      destruct (bytes_eq_dec name name0) as [->|NE].
      * rewrite Ln. eexists; split; [reflexivity|]. cbn. rewrite L in Lo. inversion Lo; subst. reflexivity.
      * exists cl. rewrite O by exact NE. auto.
  - pose proof (rstep_refused_unchanged g o) as U. rewrite E in U. cbn in U. rewrite U by reflexivity. eauto.
Qed.

Lemma rrun_type_stable ops : forall g name cl,
  lookup name (g_clients g) = Some cl ->
  exists cl', lookup name (g_clients (rrun g ops)) = Some cl' /\ rc_type cl' = rc_type cl.
Proof.
  induction ops as [|o ops IH]; intros g name cl L; [eauto|].
  unfold rrun. cbn [fold_left]. fold (rrun (fst (rstep g o)) ops).
  destruct (rstep_type_stable g o name cl L) as (cl1 & L1 & T1).
  destruct (IH _ _ _ L1) as (cl2 & L2 & T2). exists cl2. split; [exact L2|congruence].
Qed.

(** a history in which nobody with the right to do so asks changes nothing *)
Definition unauthorised (g : registry) (o : rop) : Prop :=
  if privileged o then requester o <> g_authority g
  else match o with RUpdate s n _ _ => ~ In s (relayers_of g n) | _ => True end.

Lemma rrun_unauthorised ops : forall g, Forall (unauthorised g) ops -> rrun g ops = g.
Proof.
  induction ops as [|o ops IH]; intros g F; [reflexivity|].
  inversion F as [|o' ops' U F']; subst.
  unfold rrun. cbn [fold_left]. fold (rrun (fst (rstep g o)) ops).
  assert (S : rstep g o = (g, false)).
  { unfold unauthorised in U. destruct (privileged o) eqn:P.
    - apply privileged_needs_authority; assumption.
    - destruct o; cbn in P; try discriminate. apply update_needs_relayer. exact U. }
  rewrite S. cbn [fst]. apply IH. exact F'.
Qed.
