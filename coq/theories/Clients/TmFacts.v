(** Facts about the Tendermint light-client model (Clients/Tm.v), in three files:
    TmTally.v (the two commit tallies), TmStep.v (acceptance = the light-client rule, exact effect,
    histories), TmSound.v (voting-power soundness / completeness, adjacent corner, witnesses). *)
From Tibc Require Export Clients.TmTally Clients.TmStep Clients.TmSound.
