(** Tendermint light client (07-tendermint) — executable model of
      modules/tibc/light-clients/07-tendermint/types/update.go
         CheckHeaderAndUpdateState, checkTrustedHeader, checkValidity, update
      .../types/client_state.go   IsExpired, Status
      .../types/store.go          consensus state / processed time / iteration key stores, pruning helpers
      .../types/header.go         GetHeight (revision from the chain id)
      core/02-client/types/height.go  Compare, IsRevisionFormat, ParseChainID, SetRevisionNumber
      core/02-client/keeper/client.go UpdateClient (Status == Active gate, writes)
    and of the cometbft v0.38.12 code they call
      light/verifier.go       Verify, VerifyAdjacent, VerifyNonAdjacent, verifyNewHeaderAndVals, HeaderExpired
      types/validation.go     VerifyCommitLight, VerifyCommitLightTrusting (the prefix scans of
                              verifyCommitSingle / verifyCommitBatch, which give the same verdict)
      types/validator_set.go  TotalVotingPower cap, safeMul, GetByAddress.

    NOT modelled (inputs of the model, computed by the harness with the real libraries):
      - ed25519 signature verification: two booleans per commit entry (valid under the key of the
        header's own validator at that index / under the key of the trusted validator with the
        entry's address);
      - hashes: validator-set hashes and the block hash arrive as byte strings / a boolean
        ("commit is for this header");
      - protobuf decoding and the purely structural ValidateBasic checks of cometbft: one boolean
        per decoded object.
    Numbers: heights are uint64 ([N]); voting powers, trust-level arithmetic and times are [Z]
    (times are nanoseconds since the Unix epoch; Go's time arithmetic is exact in the range the
    harness uses).  Header heights are positive int64 whenever the structural boolean holds, so
    the int64/uint64 conversions of checkValidity are exact (see [light_verify]). *)
From Tibc Require Import Base.Bytes.
From Coq Require Import ZArith.
Open Scope N_scope.

(** * Heights (02-client/types/height.go) *)
Record height := Hh { h_rev : N; h_num : N }.

(** Height.Compare: revision first, then revision height *)
Definition height_eqb (a b : height) : bool := (h_rev a =? h_rev b) && (h_num a =? h_num b).
Definition height_ltb (a b : height) : bool :=
  if h_rev a =? h_rev b then h_num a <? h_num b else h_rev a <? h_rev b.
Definition height_leb (a b : height) : bool := negb (height_ltb b a).

(** * Chain ids and revisions *)
Definition is_digit (c : N) : bool := (48 <=? c) && (c <=? 57).
Definition dash : N := 45.

Fixpoint take_while (p : N -> bool) (s : bytes) : bytes :=
  match s with [] => [] | c :: s' => if p c then c :: take_while p s' else [] end.
Fixpoint drop_while (p : N -> bool) (s : bytes) : bytes :=
  match s with [] => [] | c :: s' => if p c then drop_while p s' else s end.

(** IsRevisionFormat = regexp ^.*[^-]-{1}[1-9][0-9]*$ (Go: '.' does not match '\n', a negated
    class does; no multi-line flag).  The '-' of a match is the last '-' of the string, what
    follows it is a non-empty digit string not starting with '0', the byte before it is not a
    '-', and everything before that byte is newline-free. *)
Definition is_revision_format (s : bytes) : bool :=
  let r := rev s in
  let ds := take_while is_digit r in            (* digit suffix, reversed *)
  match drop_while is_digit r with
  | d :: c :: pre =>
      (d =? dash) && negb (c =? dash) && forallb (fun x => negb (x =? 10)) pre &&
      match rev ds with
      | [] => false
      | d1 :: _ => negb (d1 =? 48)
      end
  | _ => false
  end.

Definition digits_val (ds : bytes) : N := fold_left (fun a c => a * 10 + (c - 48)) ds 0.

(** ParseChainID: 0 if not in revision format; strconv.ParseUint overflow panics ([None]). *)
Definition parse_chain_id (s : bytes) : option N :=
  if is_revision_format s then
    let v := digits_val (rev (take_while is_digit (rev s))) in
    if v <? two64 then Some v else None
  else Some 0.

(** strconv.Itoa(int(revision)) — the uint64 is reinterpreted as a signed int *)
Definition itoa_int (n : N) : bytes :=
  if n <? 9223372036854775808 then dec n else dash :: dec (two64 - n).

Fixpoint replace_last (l : list bytes) (x : bytes) : list bytes :=
  match l with
  | [] => []
  | [_] => [x]
  | y :: l' => y :: replace_last l' x
  end.

(** SetRevisionNumber (only called on revision-format ids) *)
Definition set_revision_number (s : bytes) (r : N) : bytes :=
  join [dash] (replace_last (split dash s) (itoa_int r)).

(** the chain id checkValidity puts into the trusted header *)
Definition expected_chain_id (client_chain_id : bytes) (header_rev : N) : bytes :=
  if is_revision_format client_chain_id then set_revision_number client_chain_id header_rev
  else client_chain_id.

(** * Validator sets and commits *)
Open Scope Z_scope.

Record validator := Val { v_addr : bytes; v_power : Z }.

(** [vs_struct]: ValidatorSetFromProto succeeds as far as structure is concerned (non-nil, public
    keys decode, every address is derived from its key, proposer valid and in the set).  The numeric
    conditions of the same function are modelled in [valset_ok]. *)
Record valset := VS { vs_struct : bool; vs_vals : list validator; vs_hash : bytes }.

Definition total_power (vs : list validator) : Z := fold_right (fun v a => v_power v + a) 0 vs.

Definition max_total_voting_power : Z := 1152921504606846975. (* MaxInt64 / 8 *)
Definition max_int64 : Z := 9223372036854775807.

(** ValidatorSetFromProto = decoding + TotalVotingPower() (panics above the cap) + ValidateBasic
    (non-empty, no negative power) *)
Definition valset_ok (s : valset) : bool :=
  vs_struct s &&
  match vs_vals s with [] => false | _ => true end &&
  forallb (fun v => 0 <=? v_power v) (vs_vals s) &&
  (total_power (vs_vals s) <=? max_total_voting_power).

(** one CommitSig.  [cs_commit]: BlockIDFlag == Commit (Absent and Nil entries are ignored by both
    light checks).  [cs_ok_own]: the signature verifies, over the vote sign-bytes of this index,
    under the key of the header's own validator at the same index.  [cs_ok_tr]: it verifies under
    the key of the first trusted validator whose address is [cs_addr].  (Sign-bytes are taken for
    the header's own chain id; the code uses the expected chain id, which it has compared with
    the header's before any signature is looked at, so the two coincide wherever they matter.)
    VerifyCommitLight never compares [cs_addr] with the validator at the index. *)
Record csig := CSig { cs_commit : bool; cs_addr : bytes; cs_ok_own : bool; cs_ok_tr : bool }.

(** VerifyCommitLight after verifyBasicValsAndCommit: validators by index.  Scan in order,
    ignore non-Commit entries, an invalid signature met before the tally exceeds [needed]
    rejects, crossing accepts, running out compares once more. *)
Fixpoint scan_own (needed : Z) (vals : list validator) (sigs : list csig) (tally : Z) : bool :=
  match sigs, vals with
  | [], _ => needed <? tally
  | _ :: _, [] => false
  | s :: sigs', v :: vals' =>
      if cs_commit s then
        if cs_ok_own s then
          let t := tally + v_power v in
          if needed <? t then true else scan_own needed vals' sigs' t
        else false
      else scan_own needed vals' sigs' tally
  end.

Definition verify_commit_light (vals : list validator) (sigs : list csig) : bool :=
  (Nat.eqb (length vals) (length sigs)) &&
  scan_own (total_power vals * 2 / 3) vals sigs 0.

(** ValidatorSet.GetByAddress: first validator with that address, with its index *)
Fixpoint find_val (addr : bytes) (vals : list validator) (i : nat) : option (nat * validator) :=
  match vals with
  | [] => None
  | v :: vals' => if beq (v_addr v) addr then Some (i, v) else find_val addr vals' (S i)
  end.

Definition mem_nat (i : nat) (l : list nat) : bool := existsb (Nat.eqb i) l.

(** VerifyCommitLightTrusting: validators by address; unknown addresses are skipped, a second
    entry of an already seen validator rejects. *)
Fixpoint scan_tr (needed : Z) (tvals : list validator) (sigs : list csig) (seen : list nat) (tally : Z) : bool :=
  match sigs with
  | [] => needed <? tally
  | s :: sigs' =>
      if cs_commit s then
        match find_val (cs_addr s) tvals O with
        | None => scan_tr needed tvals sigs' seen tally
        | Some (i, v) =>
            if mem_nat i seen then false
            else if cs_ok_tr s then
              let t := tally + v_power v in
              if needed <? t then true else scan_tr needed tvals sigs' (i :: seen) t
            else false
        end
      else scan_tr needed tvals sigs' seen tally
  end.

(** int64(x) of a uint64 *)
Definition to_int64 (n : N) : Z :=
  let z := Z.of_N n in if z <? 9223372036854775808 then z else z - 18446744073709551616.
(** [-b] in int64 arithmetic *)
Definition abs64 (z : Z) : Z := if z <? 0 then (if z =? -9223372036854775808 then z else - z) else z.
(** safeMul: None = overflow reported *)
Definition safe_mul (a b : Z) : option Z :=
  if (a =? 0) || (b =? 0) then Some 0
  else if Z.quot max_int64 (abs64 b) <? abs64 a then None else Some (a * b).

(** voting power needed from the trusted set: total * num / den (Go int64, truncated division) *)
Definition trust_needed (total : Z) (num den : N) : option Z :=
  if (den =? 0)%N then None
  else match safe_mul total (to_int64 num) with
       | None => None
       | Some p => Some (Z.quot p (to_int64 den))
       end.

Definition verify_commit_light_trusting (tvals : list validator) (sigs : list csig) (num den : N) : bool :=
  match trust_needed (total_power tvals) num den with
  | None => false
  | Some needed => scan_tr needed tvals sigs [] 0
  end.

(** * Client state, consensus states, the client store *)
Record client := Client {
  cl_chain_id : bytes;
  cl_tl_num : N; cl_tl_den : N;          (* TrustLevel *)
  cl_period : Z;                          (* TrustingPeriod, ns *)
  cl_drift : Z;                           (* MaxClockDrift, ns *)
  cl_latest : height }.

Record cons := Cons { co_time : Z; co_root : bytes; co_nvh : bytes }.

(** the three key families of the client store, each in iteration (ascending height) order:
    consensusStates/<h>, consensusStates/<h>/processedTime, iterateConsensusStates<be(h)> *)
Record store := Store {
  st_cons : list (height * cons);
  st_ptime : list (height * N);
  st_iter : list height }.

Section HMap.
  Context {V : Type}.
  Fixpoint hlookup (k : height) (m : list (height * V)) : option V :=
    match m with
    | [] => None
    | (k', v) :: m' => if height_eqb k k' then Some v else hlookup k m'
    end.
  (** insert keeping ascending order, replacing an existing entry *)
  Fixpoint hset (k : height) (v : V) (m : list (height * V)) : list (height * V) :=
    match m with
    | [] => [(k, v)]
    | (k', v') :: m' =>
        if height_ltb k k' then (k, v) :: m
        else if height_eqb k k' then (k, v) :: m'
        else (k', v') :: hset k v m'
    end.
  Definition hremove (k : height) (m : list (height * V)) : list (height * V) :=
    filter (fun e => negb (height_eqb k (fst e))) m.
End HMap.

Fixpoint iter_add (k : height) (l : list height) : list height :=
  match l with
  | [] => [k]
  | k' :: l' =>
      if height_ltb k k' then k :: l
      else if height_eqb k k' then l
      else k' :: iter_add k l'
  end.
Definition iter_remove (k : height) (l : list height) : list height :=
  filter (fun k' => negb (height_eqb k k')) l.

(** * Headers *)
Record header := Header {
  hd_chain_id : bytes;             (* SignedHeader.Header.ChainID *)
  hd_height : N;                   (* uint64(Header.Height) *)
  hd_time : Z;
  hd_vals_hash : bytes;            (* Header.ValidatorsHash *)
  hd_next_vals_hash : bytes;
  hd_app_hash : bytes;
  hd_struct : bool;                (* SignedHeaderFromProto ok, Header.ValidateBasic and Commit.ValidateBasic ok *)
  hd_commit_height : N;            (* Commit.Height *)
  hd_commit_for_header : bool;     (* Commit.BlockID.Hash == Header.Hash() *)
  hd_commit : list csig;
  hd_vals : valset;                (* ValidatorSet *)
  hd_trusted_height : height;
  hd_trusted_vals : valset }.

(** ClientState.IsExpired / light.HeaderExpired: !(t + period).After(now) *)
Definition expired (period t now : Z) : bool := negb (now <? t + period).

(** checkTrustedHeader *)
Definition check_trusted_header (hd : header) (co : cons) : bool :=
  valset_ok (hd_trusted_vals hd) && beq (co_nvh co) (vs_hash (hd_trusted_vals hd)).

(** verifyNewHeaderAndVals (SignedHeader.ValidateBasic split into its structural part,
    the chain id comparison, commit height and commit block hash) *)
Definition verify_new_header_and_vals (chain_id : bytes) (co : cons) (hd : header) (now drift : Z) : bool :=
  hd_struct hd &&
  beq (hd_chain_id hd) chain_id &&
  (hd_commit_height hd =? hd_height hd)%N &&
  hd_commit_for_header hd &&
  (h_num (hd_trusted_height hd) <? hd_height hd)%N &&
  (co_time co <? hd_time hd) &&
  (hd_time hd <? now + drift) &&
  beq (hd_vals_hash hd) (vs_hash (hd_vals hd)).

(** light.Verify.  Adjacency is decided on int64 values in Go; the caller has already established
    trusted height < header height <= MaxInt64, where the conversion is exact. *)
Definition adjacent (hd : header) : bool := (hd_height hd =? h_num (hd_trusted_height hd) + 1)%N.

Definition light_verify (cl : client) (chain_id : bytes) (co : cons) (hd : header) (now : Z) : bool :=
  negb (expired (cl_period cl) (co_time co) now) &&
  verify_new_header_and_vals chain_id co hd now (cl_drift cl) &&
  (if adjacent hd then beq (hd_vals_hash hd) (co_nvh co)
   else verify_commit_light_trusting (vs_vals (hd_trusted_vals hd)) (hd_commit hd) (cl_tl_num cl) (cl_tl_den cl)) &&
  verify_commit_light (vs_vals (hd_vals hd)) (hd_commit hd).

(** Header.GetHeight *)
Definition header_height (hd : header) : option height :=
  match parse_chain_id (hd_chain_id hd) with
  | None => None
  | Some r => Some (Hh r (hd_height hd))
  end.

(** checkValidity *)
Definition check_validity (cl : client) (co : cons) (hd : header) (now : Z) : bool :=
  check_trusted_header hd co &&
  match header_height hd with
  | None => false                      (* ParseChainID panics *)
  | Some h =>
      (h_rev h =? h_rev (hd_trusted_height hd))%N &&
      valset_ok (hd_vals hd) &&
      negb (height_leb h (hd_trusted_height hd)) &&
      light_verify cl (expected_chain_id (cl_chain_id cl) (h_rev h)) co hd now
  end.

(** the pruning step of CheckHeaderAndUpdateState: only the earliest iteration key is looked at
    (the callback always stops); a missing consensus state there is an error *)
Definition prune (cl : client) (st : store) (now : Z) : option store :=
  match st_iter st with
  | [] => Some st
  | h :: _ =>
      match hlookup h (st_cons st) with
      | None => None
      | Some co =>
          if expired (cl_period cl) (co_time co) now
          then Some (Store (hremove h (st_cons st)) (hremove h (st_ptime st)) (iter_remove h (st_iter st)))
          else Some st
      end
  end.

(** uint64(ctx.BlockTime().UnixNano()) *)
Definition ptime_of (now : Z) : N := Z.to_N (now mod 18446744073709551616).

Definition header_cons (hd : header) : cons := Cons (hd_time hd) (hd_app_hash hd) (hd_next_vals_hash hd).

(** update: latest = max, new consensus state, metadata for the header height *)
Definition update (cl : client) (st : store) (hd : header) (h : height) (now : Z) : client * cons * store :=
  let cl' := if height_ltb (cl_latest cl) h
             then Client (cl_chain_id cl) (cl_tl_num cl) (cl_tl_den cl) (cl_period cl) (cl_drift cl) h
             else cl in
  (cl', header_cons hd,
   Store (st_cons st) (hset h (ptime_of now) (st_ptime st)) (iter_add h (st_iter st))).

(** ClientState.CheckHeaderAndUpdateState: result = (new client state, new consensus state,
    client store after the metadata writes); None = error, and no write has happened *)
Definition check_header_and_update (now : Z) (cl : client) (st : store) (hd : header)
  : option (client * cons * store) :=
  match hlookup (hd_trusted_height hd) (st_cons st) with
  | None => None
  | Some co =>
      if check_validity cl co hd now then
        match header_height hd with
        | None => None
        | Some h =>
            match prune cl st now with
            | None => None
            | Some st1 => Some (update cl st1 hd h now)
            end
        end
      else None
  end.

(** * 02-client keeper *)
Inductive status := Active | Expired | Unknown.

Definition client_status (now : Z) (cl : client) (st : store) : status :=
  match hlookup (cl_latest cl) (st_cons st) with
  | None => Unknown
  | Some co => if expired (cl_period cl) (co_time co) now then Expired else Active
  end.

(** keeper state for one chain name: the stored client state (if any) and the client store *)
Definition kstate := option (client * store).

Definition keeper_update (now : Z) (k : kstate) (hd : header) : option (client * store) :=
  match k with
  | None => None
  | Some (cl, st) =>
      match client_status now cl st with
      | Active =>
          match check_header_and_update now cl st hd with
          | None => None
          | Some (cl', co', st') =>
              match header_height hd with
              | None => None
              | Some h => Some (cl', Store (hset h co' (st_cons st')) (st_ptime st') (st_iter st'))
              end
          end
      | _ => None
      end
  end.

(** a MsgUpdateClient transaction: state kept iff the keeper call succeeded *)
Definition keeper_step (k : kstate) (op : Z * header) : kstate :=
  match keeper_update (fst op) k (snd op) with
  | Some r => Some r
  | None => k
  end.

(** CreateClient for a Tendermint client: client state, Initialize (metadata for the latest
    height), consensus state at the latest height *)
Definition keeper_create (now : Z) (cl : client) (co : cons) : kstate :=
  Some (cl, Store [(cl_latest cl, co)] [(cl_latest cl, ptime_of now)] [cl_latest cl]).
